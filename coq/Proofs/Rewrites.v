(* Proofs/Rewrites.v — the clean-up rewrites of optimizeJourney (CSL / BTS / GTF / CSS) preserve
   journey validity:

     optimize_preserves : wf_data_b d = true -> 0 <= q_minw p ->
                          journey_ok_b d s p acc egr bestdep js = true ->
                          optimize fuel d js [] [] = OptDone js' used ->
                          journey_ok_b d s p acc egr bestdep js' = true

   The hypothesis 0 <= q_minw p (a conjunct of wf_params_b, see optimize_preserves_wf_params) is needed:
   optimize_needs_nonneg_minw at the end of the file is a well-formed dataset and a valid journey that
   CSL turns into an invalid one when the request's minimum waiting time is negative.

   Layers
   A. data: in well-formed data the connections of a trip, [trip_conns d tr], are listed by ascending
      sequence with non-decreasing clock; [trip_fwd d t] is that list and [trip_rev d t] its reverse;
      membership in that list is [conn_in_data]; all its connections carry the same [c_minw].
   B. what [leg_range], [css_first], [css_second] and [detect] return (only the facts the preservation
      argument uses: found connections lie in the ridden range of the leg's trip; the two detected
      indices are legs, from < to, and the node is the alighting / boarding stop the case names).
   C. list surgery: [set_nth], [erase_range], [nth_js] on P ++ x :: M ++ y :: S.
   D. chain reasoning: [jchain_step], monotonicity in the ready time, replacement below a prefix.
   E. the clock never goes back along a valid chain ([chain_clock]); [chain_join] (BTS/GTF/CSS) and
      [chain_csl]; [journey_replace]; the induction on fuel. *)
From Coq Require Import List ZArith Bool Arith Lia Sorted.
From TrV Require Import Spec.
From TrV Require Import Proofs.SortFilter Proofs.EmitValid.
Import ListNotations.
Local Open Scope Z_scope.

(* ============================================================================================== *)
(* A. data                                                                                          *)

(* ---- stop times ---- *)

Lemma times_ok_cons : forall s r, times_ok (s :: r) = true ->
  st_arr s <= st_dep s /\ times_ok r = true /\
  match r with [] => True | s' :: _ => st_dep s <= st_arr s' end.
Proof.
  intros s r H. cbn [times_ok] in H.
  apply andb_true_iff in H. destruct H as [H Hr].
  apply andb_true_iff in H. destruct H as [H Hn].
  apply andb_true_iff in H. destruct H as [H _].
  apply andb_true_iff in H. destruct H as [_ H].
  apply Z.leb_le in H. split; [exact H|]. split; [exact Hr|].
  destruct r as [|s' r']; [exact I|]. apply Z.leb_le in Hn. exact Hn.
Qed.

Lemma times_ok_self : forall l k s, times_ok l = true -> nth_error l k = Some s -> st_arr s <= st_dep s.
Proof.
  induction l as [|s0 l IH]; intros k s H Hk.
  - destruct k; discriminate.
  - destruct (times_ok_cons s0 l H) as (H0 & Hl & _).
    destruct k as [|k]; cbn [nth_error] in Hk.
    + injection Hk as <-. exact H0.
    + apply (IH k s Hl Hk).
Qed.

Lemma times_ok_head : forall l s0 k s, times_ok (s0 :: l) = true -> nth_error l k = Some s ->
  st_dep s0 <= st_arr s.
Proof.
  induction l as [|s1 l IH]; intros s0 k s H Hk.
  - destruct k; discriminate.
  - destruct (times_ok_cons s0 (s1 :: l) H) as (_ & Hl & H01).
    destruct k as [|k]; cbn [nth_error] in Hk.
    + injection Hk as <-. exact H01.
    + specialize (IH s1 k s Hl Hk).
      destruct (times_ok_cons s1 l Hl) as (H1 & _ & _). lia.
Qed.

Lemma times_ok_mono : forall l k k' s s', times_ok l = true -> (k < k')%nat ->
  nth_error l k = Some s -> nth_error l k' = Some s' -> st_dep s <= st_arr s'.
Proof.
  induction l as [|s0 l IH]; intros k k' s s' H Hlt Hk Hk'.
  - destruct k; discriminate.
  - destruct k' as [|k']; [lia|]. cbn [nth_error] in Hk'.
    destruct k as [|k]; cbn [nth_error] in Hk.
    + injection Hk as <-. apply (times_ok_head l s0 k' s' H Hk').
    + destruct (times_ok_cons s0 l H) as (_ & Hl & _).
      apply (IH k k' s s' Hl ltac:(lia) Hk Hk').
Qed.

(* ---- mk_conns, position by position ---- *)

Lemma mk_conns_nth : forall tid minw nodes times seq k c,
  nth_error (mk_conns tid minw seq nodes times) k = Some c ->
  c_trip c = tid /\ c_seq c = (seq + k)%nat /\ c_minw c = minw /\
  nth_error nodes (S k) = Some (c_to c) /\
  exists s0 s1, nth_error times k = Some s0 /\ nth_error times (S k) = Some s1 /\
                c_dep c = st_dep s0 /\ c_arr c = st_arr s1.
Proof.
  intros tid minw. induction nodes as [|n0 ns IH]; intros times seq k c H.
  - destruct k; discriminate.
  - destruct ns as [|n1 ns']; [destruct k; discriminate|].
    destruct times as [|s0 [|s1 ss]]; [destruct k; discriminate|destruct k; discriminate|].
    change (mk_conns tid minw seq (n0 :: n1 :: ns') (s0 :: s1 :: ss))
      with ({| c_trip := tid; c_seq := seq; c_from := n0; c_to := n1; c_dep := st_dep s0; c_arr := st_arr s1;
               c_cb := st_cb s0; c_cu := st_cu s1; c_minw := minw |}
            :: mk_conns tid minw (S seq) (n1 :: ns') (s1 :: ss)) in H.
    destruct k as [|k]; cbn [nth_error] in H.
    + injection H as <-. cbn [c_trip c_seq c_minw c_to c_dep c_arr nth_error].
      repeat split; try reflexivity; try lia.
      exists s0, s1. repeat split; reflexivity.
    + destruct (IH (s1 :: ss) (S seq) k c H) as (H1 & H2 & H3 & H4 & s0' & s1' & H5 & H6 & H7 & H8).
      repeat split; try assumption; try lia.
      exists s0', s1'. repeat split; assumption.
Qed.

(* ---- what well-formedness gives for one trip ---- *)

Lemma find_trip_some : forall d t tr, find_trip d t = Some tr -> In tr (d_trips d) /\ t_id tr = t.
Proof.
  intros d t tr H. unfold find_trip in H. apply find_some in H. destruct H as [Hi He].
  apply Nat.eqb_eq in He. auto.
Qed.

Lemma wf_nodup_trips : forall d, wf_data_b d = true -> nodup_nat (map t_id (d_trips d)) = true.
Proof.
  intros d H. unfold wf_data_b in H.
  do 8 (apply andb_true_iff in H; destruct H as [H _]).
  apply andb_true_iff in H. destruct H as [_ H]. exact H.
Qed.

Lemma wf_trip : forall d t tr, wf_data_b d = true -> find_trip d t = Some tr ->
  times_ok (t_times tr) = true /\ forall n, In n (trip_nodes d tr) -> In n (d_nodes d).
Proof.
  intros d t tr H Ft. unfold wf_data_b in H.
  apply andb_true_iff in H. destruct H as [H Htrips].
  apply andb_true_iff in H. destruct H as [_ Hpaths].
  destruct (find_trip_some d t tr Ft) as [Hin _].
  rewrite forallb_forall in Htrips. specialize (Htrips tr Hin).
  apply andb_true_iff in Htrips. destruct Htrips as [Hp Hto].
  split; [exact Hto|].
  intros n Hn. unfold trip_nodes in Hn.
  destruct (find_path d (t_path tr)) as [pa|] eqn:Fp; [|destruct Hn].
  unfold find_path in Fp. apply find_some in Fp. destruct Fp as [Hpin _].
  rewrite forallb_forall in Hpaths. specialize (Hpaths pa Hpin).
  apply andb_true_iff in Hpaths. destruct Hpaths as [Hpaths _].
  apply andb_true_iff in Hpaths. destruct Hpaths as [_ Hnodes].
  rewrite forallb_forall in Hnodes. apply memb_In. apply Hnodes. exact Hn.
Qed.

Lemma has_row_inv : forall rows n w, has_row rows n w = true ->
  exists r, In r rows /\ fp_node r = n /\ fp_time r = w.
Proof.
  intros rows n w H. unfold has_row in H. apply existsb_exists in H.
  destruct H as (r & Hr & H). apply andb_true_iff in H. destruct H as [H1 H2].
  apply Nat.eqb_eq in H1. apply Z.eqb_eq in H2. exists r. auto.
Qed.

Lemma wf_fp_nonneg : forall d n m w, wf_data_b d = true -> In n (d_nodes d) ->
  has_row (fp_of d n) m w = true -> 0 <= w.
Proof.
  intros d n m w H Hn Hr. unfold wf_data_b in H.
  apply andb_true_iff in H. destruct H as [H _].
  apply andb_true_iff in H. destruct H as [H _].
  apply andb_true_iff in H. destruct H as [_ Hfp].
  unfold footpaths_ok in Hfp. rewrite forallb_forall in Hfp. specialize (Hfp n Hn).
  repeat (apply andb_true_iff in Hfp; destruct Hfp as [Hfp _]).
  unfold rows_ok in Hfp. rewrite forallb_forall in Hfp.
  destruct (has_row_inv _ _ _ Hr) as (r & Hin & _ & Ht).
  specialize (Hfp r Hin).
  apply andb_true_iff in Hfp. destruct Hfp as [Hfp _].
  apply andb_true_iff in Hfp. destruct Hfp as [Hfp _].
  apply andb_true_iff in Hfp. destruct Hfp as [_ Hfp].
  apply Z.leb_le in Hfp. lia.
Qed.

(* position k of a trip's connection list *)
Definition at_pos (d : data) (tr : trip) (k : nat) (c : conn) : Prop :=
  nth_error (trip_conns d tr) k = Some c.

Lemma at_pos_basic : forall d tr k c, at_pos d tr k c ->
  c_trip c = t_id tr /\ c_seq c = S k.
Proof.
  intros d tr k c H. unfold at_pos, trip_conns in H.
  destruct (mk_conns_nth _ _ _ _ _ _ _ H) as (H1 & H2 & _). split; [exact H1|lia].
Qed.

Lemma at_pos_minw : forall d tr k1 k2 c1 c2, at_pos d tr k1 c1 -> at_pos d tr k2 c2 -> c_minw c1 = c_minw c2.
Proof.
  intros d tr k1 k2 c1 c2 H1 H2. unfold at_pos, trip_conns in *.
  destruct (mk_conns_nth _ _ _ _ _ _ _ H1) as (_ & _ & M1 & _).
  destruct (mk_conns_nth _ _ _ _ _ _ _ H2) as (_ & _ & M2 & _). congruence.
Qed.

Lemma at_pos_node : forall d t tr k c, wf_data_b d = true -> find_trip d t = Some tr ->
  at_pos d tr k c -> In (c_to c) (d_nodes d).
Proof.
  intros d t tr k c Hwf Ft H. unfold at_pos, trip_conns in H.
  destruct (mk_conns_nth _ _ _ _ _ _ _ H) as (_ & _ & _ & Hn & _).
  destruct (wf_trip d t tr Hwf Ft) as [_ Hnodes]. apply Hnodes.
  apply nth_error_In in Hn. exact Hn.
Qed.

Lemma at_pos_times : forall d t tr k1 k2 c1 c2, wf_data_b d = true -> find_trip d t = Some tr ->
  at_pos d tr k1 c1 -> at_pos d tr k2 c2 -> (k1 <= k2)%nat ->
  c_dep c1 <= c_dep c2 /\ c_arr c1 <= c_arr c2 /\ c_dep c1 <= c_arr c2.
Proof.
  intros d t tr k1 k2 c1 c2 Hwf Ft H1 H2 Hle. unfold at_pos, trip_conns in *.
  destruct (wf_trip d t tr Hwf Ft) as [Hto _].
  destruct (mk_conns_nth _ _ _ _ _ _ _ H1) as (_ & _ & _ & _ & a0 & a1 & A0 & A1 & Ad & Aa).
  destruct (mk_conns_nth _ _ _ _ _ _ _ H2) as (_ & _ & _ & _ & b0 & b1 & B0 & B1 & Bd & Ba).
  rewrite Ad, Aa, Bd, Ba.
  assert (X1 : st_dep a0 <= st_arr b1)
    by (apply (times_ok_mono (t_times tr) k1 (S k2) a0 b1 Hto ltac:(lia) A0 B1)).
  destruct (Nat.eq_dec k1 k2) as [E|N].
  - subst k2. rewrite A0 in B0. rewrite A1 in B1. injection B0 as <-. injection B1 as <-. lia.
  - assert (X2 : st_dep a0 <= st_arr b0)
      by (apply (times_ok_mono (t_times tr) k1 k2 a0 b0 Hto ltac:(lia) A0 B0)).
    assert (X3 : st_arr b0 <= st_dep b0) by (apply (times_ok_self (t_times tr) k2 b0 Hto B0)).
    assert (X4 : st_arr a1 <= st_dep a1) by (apply (times_ok_self (t_times tr) (S k1) a1 Hto A1)).
    assert (X5 : st_dep a1 <= st_arr b1)
      by (apply (times_ok_mono (t_times tr) (S k1) (S k2) a1 b1 Hto ltac:(lia) A1 B1)).
    lia.
Qed.

(* ---- find on a list whose keys are the positions ---- *)

Lemma find_at : forall {A} (f : A -> bool) (l : list A) k c,
  (forall i a, (i < k)%nat -> nth_error l i = Some a -> f a = false) ->
  nth_error l k = Some c -> f c = true -> find f l = Some c.
Proof.
  intros A f. induction l as [|x l IH]; intros k c Hbefore Hk Hc.
  - destruct k; discriminate.
  - destruct k as [|k]; cbn [nth_error] in Hk.
    + injection Hk as <-. cbn [find]. rewrite Hc. reflexivity.
    + cbn [find]. rewrite (Hbefore 0%nat x ltac:(lia) eq_refl).
      apply (IH k c); [|exact Hk|exact Hc].
      intros i a Hi Ha. apply (Hbefore (S i) a ltac:(lia) Ha).
Qed.

Lemma at_pos_in_data : forall d t tr k c, find_trip d t = Some tr -> at_pos d tr k c ->
  conn_in_data d c = true.
Proof.
  intros d t tr k c Ft H.
  destruct (at_pos_basic d tr k c H) as [Ht Hs].
  destruct (find_trip_some d t tr Ft) as [_ Hid].
  apply conn_in_data_intro. unfold find_conn. rewrite Ht, Hid, Ft.
  apply (find_at _ _ k c); [|exact H|apply Nat.eqb_eq; reflexivity].
  intros i a Hi Ha. destruct (at_pos_basic d tr i a Ha) as [_ Hsa].
  apply Nat.eqb_neq. lia.
Qed.

Lemma in_data_at_pos : forall d t tr c, find_trip d t = Some tr -> conn_in_data d c = true ->
  c_trip c = t -> exists k, at_pos d tr k c /\ c_seq c = S k.
Proof.
  intros d t tr c Ft H Ht. apply conn_in_data_inv in H. unfold find_conn in H.
  rewrite Ht, Ft in H. apply find_some in H. destruct H as [Hin _].
  apply In_nth_error in Hin. destruct Hin as (k & Hk). exists k. split; [exact Hk|].
  apply (at_pos_basic d tr k c Hk).
Qed.

(* ---- the two per-trip lists ---- *)

Lemma nth_pairs_sorted : forall {A} (R : A -> A -> Prop) (l : list A),
  (forall i j a b, (i < j)%nat -> nth_error l i = Some a -> nth_error l j = Some b -> R a b) ->
  StronglySorted R l.
Proof.
  intros A R. induction l as [|x l IH]; intros H; constructor.
  - apply IH. intros i j a b Hij Ha Hb. apply (H (S i) (S j) a b ltac:(lia) Ha Hb).
  - apply Forall_forall. intros y Hy. apply In_nth_error in Hy. destruct Hy as (k & Hk).
    apply (H 0%nat (S k) x y ltac:(lia) eq_refl Hk).
Qed.

Lemma isort_sorted_id : forall lt l, StronglySorted (fun a b => lt b a = false) l -> isort lt l = l.
Proof.
  intros lt. induction l as [|x l IH]; intros H; [reflexivity|].
  apply StronglySorted_inv in H. destruct H as [Hl Hx].
  change (isort lt (x :: l)) with (insert lt x (isort lt l)). rewrite (IH Hl).
  apply insert_head. apply Forall_forall. exact Hx.
Qed.

Lemma insert_last : forall lt x l, (forall z, In z l -> lt z x = true) -> insert lt x l = l ++ [x].
Proof.
  intros lt x. induction l as [|y l IH]; intros H; [reflexivity|].
  cbn [insert app]. rewrite (H y (or_introl eq_refl)). f_equal. apply IH.
  intros z Hz. apply H. right. exact Hz.
Qed.

Lemma isort_sorted_rev : forall lt l, StronglySorted (fun a b => lt b a = true) l -> isort lt l = rev l.
Proof.
  intros lt. induction l as [|x l IH]; intros H; [reflexivity|].
  apply StronglySorted_inv in H. destruct H as [Hl Hx].
  change (isort lt (x :: l)) with (insert lt x (isort lt l)). rewrite (IH Hl).
  cbn [rev]. apply insert_last. intros z Hz. apply in_rev in Hz.
  revert z Hz. apply Forall_forall. exact Hx.
Qed.

Lemma filter_unique_trip : forall (l : list trip) t tr,
  nodup_nat (map t_id l) = true -> find (fun x => Nat.eqb (t_id x) t) l = Some tr ->
  filter (fun x => Nat.eqb (t_id x) t) l = [tr].
Proof.
  induction l as [|x l IH]; intros t tr Hnd Hf; [discriminate|].
  cbn [map nodup_nat] in Hnd. apply andb_true_iff in Hnd. destruct Hnd as [Hx Hnd].
  cbn [find] in Hf. cbn [filter].
  destruct (Nat.eqb (t_id x) t) eqn:E.
  - injection Hf as <-. f_equal. apply filter_none. intros y Hy.
    apply Nat.eqb_eq in E. apply Nat.eqb_neq. intro Ey.
    apply negb_true_iff in Hx.
    assert (M : memb (t_id x) (map t_id l) = true).
    { apply memb_In. rewrite E, <- Ey. apply in_map. exact Hy. }
    congruence.
  - apply IH; assumption.
Qed.

Lemma filter_trip_all_conns : forall d t tr, wf_data_b d = true -> find_trip d t = Some tr ->
  filter (fun c => Nat.eqb (c_trip c) t) (all_conns d) = trip_conns d tr.
Proof.
  intros d t tr Hwf Ft. unfold all_conns.
  rewrite (filter_flat_map_sel (fun c => Nat.eqb (c_trip c) t) (fun x => Nat.eqb (t_id x) t)).
  - unfold find_trip in Ft. rewrite (filter_unique_trip _ t tr (wf_nodup_trips d Hwf) Ft).
    cbn [flat_map]. apply app_nil_r.
  - intros t' _ c Hc. rewrite (trip_conns_trip d t' c Hc). reflexivity.
Qed.

Lemma trip_fwd_eq : forall d t tr, wf_data_b d = true -> find_trip d t = Some tr ->
  trip_fwd d t = trip_conns d tr.
Proof.
  intros d t tr Hwf Ft. unfold trip_fwd, sorted_fwd.
  rewrite filter_isort_fwd, (filter_trip_all_conns d t tr Hwf Ft).
  apply isort_sorted_id. apply nth_pairs_sorted. intros i j a b Hij Ha Hb.
  destruct (at_pos_basic d tr i a Ha) as [Ta Sa]. destruct (at_pos_basic d tr j b Hb) as [Tb Sb].
  destruct (at_pos_times d t tr i j a b Hwf Ft Ha Hb ltac:(lia)) as (Hd & _ & _).
  apply fwd_lt_asym. apply fwd_lt_iff. lia.
Qed.

Lemma trip_rev_eq : forall d t tr, wf_data_b d = true -> find_trip d t = Some tr ->
  trip_rev d t = rev (trip_conns d tr).
Proof.
  intros d t tr Hwf Ft. unfold trip_rev, sorted_rev.
  rewrite filter_isort_rev, (filter_trip_all_conns d t tr Hwf Ft).
  apply isort_sorted_rev. apply nth_pairs_sorted. intros i j a b Hij Ha Hb.
  destruct (at_pos_basic d tr i a Ha) as [Ta Sa]. destruct (at_pos_basic d tr j b Hb) as [Tb Sb].
  destruct (at_pos_times d t tr i j a b Hwf Ft Ha Hb ltac:(lia)) as (_ & Harr & _).
  apply rev_lt_iff. lia.
Qed.

Lemma nth_error_rev_pos : forall {A} (l : list A) k c, (k < length l)%nat ->
  nth_error (rev l) (length l - 1 - k) = Some c -> nth_error l k = Some c.
Proof.
  intros A l k c Hk H.
  assert (Hk' : (length l - 1 - k < length (rev l))%nat) by (rewrite rev_length; lia).
  rewrite (nth_error_nth' (rev l) c Hk') in H.
  rewrite rev_nth in H by lia.
  replace (length l - S (length l - 1 - k))%nat with k in H by lia.
  rewrite (nth_error_nth' l c Hk). exact H.
Qed.

(* ============================================================================================== *)
(* B. what the searches return                                                                      *)

(* a leg of a valid journey, located in its trip's connection list *)
Definition leg_at (d : data) (s : scenario) (p : params) (j : jstep)
           (b e : conn) (t : nat) (tr : trip) (kb ke : nat) : Prop :=
  js_enter j = Some b /\ js_exit j = Some e /\ js_trip j = Some t /\ find_trip d t = Some tr /\
  at_pos d tr kb b /\ at_pos d tr ke e /\ (kb <= ke)%nat /\
  trip_admitted d s p tr = true /\ c_cb b = true /\ c_cu e = true.

Lemma jleg_ok_at : forall d s p j, jleg_ok d s p j = true ->
  exists b e t tr kb ke, leg_at d s p j b e t tr kb ke.
Proof.
  intros d s p j H.
  destruct (jleg_ok_inv d s p j H)
    as (b & e & t & tr & Hb & He & Ht & Tb & Te & Db & De & Ft & Ad & Cb & Cu & Le).
  destruct (in_data_at_pos d t tr b Ft Db Tb) as (kb & Pb & Sb).
  destruct (in_data_at_pos d t tr e Ft De Te) as (ke & Pe & Se).
  exists b, e, t, tr, kb, ke. unfold leg_at. repeat split; try assumption. lia.
Qed.

Lemma leg_at_ok : forall d s p j b e t tr kb ke, leg_at d s p j b e t tr kb ke -> jleg_ok d s p j = true.
Proof.
  intros d s p j b e t tr kb ke (Hb & He & Ht & Ft & Pb & Pe & Hk & Ad & Cb & Cu).
  destruct (find_trip_some d t tr Ft) as [_ Hid].
  destruct (at_pos_basic d tr kb b Pb) as [Tb Sb]. destruct (at_pos_basic d tr ke e Pe) as [Te Se].
  apply (jleg_ok_intro d s p j b e t tr); try assumption; try congruence.
  - apply (at_pos_in_data d t tr kb b Ft Pb).
  - apply (at_pos_in_data d t tr ke e Ft Pe).
  - lia.
Qed.

Lemma rev_range_in : forall tr sz cnt e r c,
  rev_range tr sz e cnt = Some r -> In c r ->
  exists k, (e + 1 - cnt <= k <= e)%nat /\ nth_error tr (sz - 1 - k) = Some c.
Proof.
  intros tr sz. induction cnt as [|cnt IH]; intros e r c H Hc.
  - destruct e; cbn [rev_range] in H; injection H as <-; destruct Hc.
  - destruct e as [|e']; cbn [rev_range] in H.
    + destruct (nth_error tr (sz - 1 - 0)) as [c0|] eqn:E0; [|discriminate].
      destruct cnt; [|discriminate]. injection H as <-. destruct Hc as [<-|[]].
      exists 0%nat. split; [lia|exact E0].
    + destruct (nth_error tr (sz - 1 - S e')) as [c0|] eqn:E0; [|discriminate].
      destruct (rev_range tr sz e' cnt) as [r'|] eqn:Er; [|discriminate].
      injection H as <-. destruct Hc as [<-|Hc].
      * exists (S e'). split; [lia|exact E0].
      * destruct (IH e' r' c Er Hc) as (k & Hk & Hn). exists k. split; [lia|exact Hn].
Qed.

(* the connections leg_range hands to the searches lie in the ridden part of the leg's trip *)
Lemma leg_range_in : forall d s p j b e t tr kb ke rng c, wf_data_b d = true ->
  leg_at d s p j b e t tr kb ke -> leg_range d j = Some rng -> In c rng ->
  exists k, (kb <= k <= ke)%nat /\ at_pos d tr k c.
Proof.
  intros d s p j b e t tr kb ke rng c Hwf (Hb & He & Ht & Ft & Pb & Pe & Hk & _) Hr Hc.
  destruct (at_pos_basic d tr kb b Pb) as [_ Sb]. destruct (at_pos_basic d tr ke e Pe) as [_ Se].
  unfold leg_range in Hr. rewrite Hb, He, Ht in Hr. cbv zeta in Hr.
  rewrite (trip_rev_eq d t tr Hwf Ft), Sb, Se in Hr.
  replace (S kb - 1)%nat with kb in Hr by lia. replace (S ke - 1)%nat with ke in Hr by lia.
  assert (Hlt : Nat.ltb ke kb = false) by (apply Nat.ltb_ge; exact Hk).
  rewrite Hlt, rev_length in Hr.
  destruct (rev_range_in _ _ _ _ _ c Hr Hc) as (k & Hkr & Hn).
  assert (Hke : (ke < length (trip_conns d tr))%nat).
  { apply nth_error_Some. unfold at_pos in Pe. congruence. }
  exists k. split; [lia|]. unfold at_pos.
  apply nth_error_rev_pos; [lia|exact Hn].
Qed.

Lemma css_first_in : forall node rng acc ex, css_first node rng acc = Some ex ->
  acc = Some ex \/ (In ex rng /\ c_to ex = node /\ c_cu ex = true).
Proof.
  intros node. induction rng as [|c r IH]; intros acc ex H.
  - left. exact H.
  - cbn [css_first] in H.
    destruct (Nat.eqb node (c_to c)) eqn:En.
    + destruct (c_cu c) eqn:Ec.
      * destruct (IH _ _ H) as [H1|(H1 & H2 & H3)].
        -- injection H1 as <-. right. apply Nat.eqb_eq in En. split; [left; reflexivity|auto].
        -- right. split; [right; exact H1|auto].
      * left. exact H.
    + destruct (IH _ _ H) as [H1|(H1 & H2 & H3)]; [left; exact H1|].
      right. split; [right; exact H1|auto].
Qed.

Lemma css_second_spec : forall node exitc rng js from to used ign js1 used1 ign1,
  css_second node exitc rng js from to used ign = (js1, used1, ign1) ->
  js1 = js \/
  exists ex c, exitc = Some ex /\ In c rng /\ c_from c = node /\ c_cb c = true /\
    js1 = erase_range (set_nth (set_nth js from (fun j => set_walk (set_exit j ex) 0 0)) to
                               (fun j => set_enter j c)) (S from) to.
Proof.
  intros node exitc. induction rng as [|c r IH]; intros js from to used ign js1 used1 ign1 H.
  - cbn [css_second] in H. injection H as <- _ _. left. reflexivity.
  - cbn [css_second] in H.
    destruct (Nat.eqb node (c_from c)) eqn:En.
    + destruct exitc as [ex|].
      * destruct (c_cb c) eqn:Ec.
        -- injection H as <- _ _. right. exists ex, c. apply Nat.eqb_eq in En.
           split; [reflexivity|]. split; [left; reflexivity|]. auto.
        -- injection H as <- _ _. left. reflexivity.
      * injection H as <- _ _. left. reflexivity.
    + destruct (IH _ _ _ _ _ _ _ _ H) as [H1|(ex & c' & H1 & H2 & H3)]; [left; exact H1|].
      right. exists ex, c'. split; [exact H1|]. split; [right; exact H2|exact H3].
Qed.

(* ---- detection ---- *)

Lemma leg_summary_inv : forall d j s, leg_summary d j = Some (Some s) ->
  exists t en ex, js_trip j = Some t /\ js_enter j = Some en /\ js_exit j = Some ex /\
                  ls_first s = c_from en /\ ls_last s = Some (c_to ex).
Proof.
  intros d j s H. unfold leg_summary in H.
  destruct (js_trip j) as [t|]; [|discriminate].
  destruct (js_enter j) as [en|]; [|discriminate].
  destruct (js_exit j) as [ex|]; [|discriminate].
  cbv zeta in H.
  destruct (between_nodes _ _ _ _ _) as [bt|]; [|discriminate].
  injection H as <-. exists t, en, ex. cbn [ls_first ls_last]. auto.
Qed.

Definition sum_of (d : data) (j : jstep) : legsum :=
  match leg_summary d j with Some (Some s) => s | _ => empty_sum end.

Lemma sum_of_default : forall d, sum_of d js_default = empty_sum.
Proof. reflexivity. Qed.

Lemma detect_pair_empty : forall ign sj, detect_pair ign empty_sum sj = None.
Proof.
  intros ign sj. unfold detect_pair. cbn [empty_sum ls_between ls_last length Nat.eqb negb andb].
  destruct (ls_last sj); [|reflexivity].
  destruct (negb (Nat.eqb (length (ls_between sj)) 0)); reflexivity.
Qed.

Lemma detect_pair_inv : forall ign si sj cs X, detect_pair ign si sj = Some (cs, X) ->
  (cs = 1%nat /\ ls_last sj = Some X) \/ (cs = 2%nat /\ ls_last si = Some X) \/
  (cs = 3%nat /\ ls_first sj = X) \/ cs = 4%nat.
Proof.
  intros ign si sj cs X H. unfold detect_pair in H.
  destruct (ls_last sj) as [lj|]; [|discriminate].
  match type of H with (if ?c then _ else _) = _ => destruct c end.
  - injection H as <- <-. left. auto.
  - destruct (negb (Nat.eqb (length (ls_between sj)) 0)).
    + destruct (ls_last si) as [li|].
      * match type of H with (match (if ?c then _ else _) with _ => _ end) = _ => destruct c end.
        -- injection H as <- <-. right. left. auto.
        -- match type of H with (if ?c then _ else _) = _ => destruct c end.
           ++ injection H as <- <-. right. right. left. auto.
           ++ match type of H with (if ?c then _ else _) = _ => destruct c end; [|discriminate].
              match type of H with (match ?c with _ => _ end) = _ => destruct c end; [|discriminate].
              injection H as <- _. right. right. right. reflexivity.
      * match type of H with (if ?c then _ else _) = _ => destruct c end.
        -- injection H as <- <-. right. right. left. auto.
        -- match type of H with (if ?c then _ else _) = _ => destruct c end; [|discriminate].
           match type of H with (match ?c with _ => _ end) = _ => destruct c end; [|discriminate].
           injection H as <- _. right. right. right. reflexivity.
    + match type of H with (if ?c then _ else _) = _ => destruct c end.
      * injection H as <- <-. right. right. left. auto.
      * match type of H with (if ?c then _ else _) = _ => destruct c end; [|discriminate].
        match type of H with (match ?c with _ => _ end) = _ => destruct c end; [|discriminate].
        injection H as <- _. right. right. right. reflexivity.
Qed.

Lemma detect_inner_spec : forall ign prev i0 sj cs n i,
  detect_inner ign prev i0 sj = Some (cs, n, i) ->
  (i0 <= i < i0 + length prev)%nat /\ detect_pair ign (nth (i - i0) prev empty_sum) sj = Some (cs, n).
Proof.
  intros ign. induction prev as [|si r IH]; intros i0 sj cs n i H; [discriminate|].
  cbn [detect_inner] in H.
  destruct (detect_pair ign si sj) as [[cs' n']|] eqn:Ep.
  - injection H as <- <- <-. cbn [length]. split; [lia|].
    rewrite Nat.sub_diag. exact Ep.
  - destruct (IH _ _ _ _ _ H) as [Hr Hp]. cbn [length]. split; [lia|].
    replace (i - i0)%nat with (S (i - S i0)) by lia. exact Hp.
Qed.

Lemma detect_spec : forall d ign js done cs X i j,
  detect d ign js (length done) (map (sum_of d) done) = Some (Some (cs, X, i, j)) ->
  exists sj, (i < j < length (done ++ js))%nat /\
             leg_summary d (nth_js (done ++ js) j) = Some (Some sj) /\
             detect_pair ign (sum_of d (nth_js (done ++ js) i)) sj = Some (cs, X).
Proof.
  intros d ign. induction js as [|j0 r IH]; intros done cs X i j H; [discriminate|].
  cbn [detect] in H.
  assert (Hlen : S (length done) = length (done ++ [j0])) by (rewrite app_length; cbn [length]; lia).
  assert (Happ : (done ++ [j0]) ++ r = done ++ j0 :: r) by (rewrite <- app_assoc; reflexivity).
  destruct (leg_summary d j0) as [[sj|]|] eqn:El; [| |discriminate].
  - destruct (detect_inner ign (map (sum_of d) done) 0 sj) as [[[cs' n'] i']|] eqn:Ei.
    + injection H as <- <- <- <-.
      destruct (detect_inner_spec _ _ _ _ _ _ _ Ei) as [Hr Hp].
      rewrite map_length in Hr. rewrite Nat.sub_0_r in Hp.
      exists sj. split; [rewrite app_length; cbn [length]; lia|]. split.
      * unfold nth_js. rewrite nth_middle. exact El.
      * unfold nth_js. rewrite app_nth1 by lia.
        rewrite <- (sum_of_default d) in Hp. rewrite map_nth in Hp. exact Hp.
    + rewrite Hlen in H.
      replace (map (sum_of d) done ++ [sj]) with (map (sum_of d) (done ++ [j0])) in H
        by (rewrite map_app; cbn [map]; unfold sum_of; rewrite El; reflexivity).
      destruct (IH _ _ _ _ _ H) as (sj' & H1 & H2 & H3). rewrite Happ in *.
      exists sj'. auto.
  - rewrite Hlen in H.
    replace (map (sum_of d) done ++ [empty_sum]) with (map (sum_of d) (done ++ [j0])) in H
      by (rewrite map_app; cbn [map]; unfold sum_of; rewrite El; reflexivity).
    destruct (IH _ _ _ _ _ H) as (sj' & H1 & H2 & H3). rewrite Happ in *.
    exists sj'. auto.
Qed.

(* the form used below: both indices are legs; the node relates to them as the case says *)
Lemma detect_top : forall d ign js cs X i j,
  detect d ign js 0 [] = Some (Some (cs, X, i, j)) ->
  (i < j < length js)%nat /\
  exists bi ei bj ej,
    js_enter (nth_js js i) = Some bi /\ js_exit (nth_js js i) = Some ei /\
    js_enter (nth_js js j) = Some bj /\ js_exit (nth_js js j) = Some ej /\
    ((cs = 1%nat /\ c_to ej = X) \/ (cs = 2%nat /\ c_to ei = X) \/ (cs = 3%nat /\ c_from bj = X) \/
     cs = 4%nat).
Proof.
  intros d ign js cs X i j H.
  destruct (detect_spec d ign js [] cs X i j H) as (sj & Hr & Hj & Hp).
  cbn [app] in *. split; [exact Hr|].
  destruct (leg_summary_inv d _ sj Hj) as (tj & bj & ej & _ & Hbj & Hej & Fj & Lj).
  unfold sum_of in Hp.
  destruct (leg_summary d (nth_js js i)) as [[si|]|] eqn:Hi;
    [|rewrite detect_pair_empty in Hp; discriminate|rewrite detect_pair_empty in Hp; discriminate].
  destruct (leg_summary_inv d _ si Hi) as (ti & bi & ei & _ & Hbi & Hei & Fi & Li).
  exists bi, ei, bj, ej. repeat (split; [assumption|]).
  destruct (detect_pair_inv ign si sj cs X Hp) as [[C L]|[[C L]|[[C L]|C]]].
  - left. split; [exact C|]. rewrite Lj in L. injection L as <-. reflexivity.
  - right. left. split; [exact C|]. rewrite Li in L. injection L as <-. reflexivity.
  - right. right. left. split; [exact C|]. congruence.
  - right. right. right. exact C.
Qed.

(* ============================================================================================== *)
(* C. list surgery                                                                                  *)

Lemma firstn_len_app : forall {A} (P R : list A), firstn (length P) (P ++ R) = P.
Proof. intros A. induction P as [|x P IH]; intros R; [reflexivity|]. cbn [length app firstn]. rewrite IH. reflexivity. Qed.

Lemma skipn_len_app : forall {A} (P R : list A), skipn (length P) (P ++ R) = R.
Proof. intros A. induction P as [|x P IH]; intros R; [reflexivity|]. cbn [length app skipn]. apply IH. Qed.

Lemma set_nth_app : forall {A} (P : list A) x R f, set_nth (P ++ x :: R) (length P) f = P ++ f x :: R.
Proof. intros A. induction P as [|y P IH]; intros x R f; [reflexivity|]. cbn [length app set_nth]. rewrite IH. reflexivity. Qed.

Section Surgery.
  Variable A : Type.
  Variables (P M S : list A) (x y : A) (i j : nat).
  Hypothesis Hi : length P = i.
  Hypothesis Hj : j = (i + Datatypes.S (length M))%nat.

  Lemma len_to : length (P ++ x :: M) = j.
  Proof. rewrite app_length. cbn [length]. lia. Qed.

  Lemma surgery_from : forall f, set_nth (P ++ x :: M ++ y :: S) i f = P ++ f x :: M ++ y :: S.
  Proof. intros f. rewrite <- Hi. apply set_nth_app. Qed.

  Lemma surgery_to : forall g, set_nth (P ++ x :: M ++ y :: S) j g = P ++ x :: M ++ g y :: S.
  Proof.
    intros g. rewrite <- len_to.
    change (P ++ x :: M ++ y :: S) with (P ++ (x :: M) ++ y :: S). rewrite app_assoc.
    rewrite set_nth_app. rewrite <- app_assoc. reflexivity.
  Qed.

  Lemma surgery_erase_open : erase_range (P ++ x :: M ++ y :: S) (Datatypes.S i) j = P ++ x :: y :: S.
  Proof.
    unfold erase_range.
    replace (Datatypes.S i) with (length (P ++ [x])) by (rewrite app_length; cbn [length]; lia).
    rewrite <- len_to.
    replace (P ++ x :: M ++ y :: S) with ((P ++ [x]) ++ M ++ y :: S) at 1 by (rewrite <- app_assoc; reflexivity).
    rewrite firstn_len_app.
    replace (P ++ x :: M ++ y :: S) with ((P ++ x :: M) ++ y :: S) by (rewrite <- app_assoc; reflexivity).
    rewrite skipn_len_app. rewrite <- app_assoc. reflexivity.
  Qed.

  Lemma surgery_erase_closed : erase_range (P ++ x :: M ++ y :: S) (Datatypes.S i) (Datatypes.S j) = P ++ x :: S.
  Proof.
    unfold erase_range.
    replace (Datatypes.S i) with (length (P ++ [x])) by (rewrite app_length; cbn [length]; lia).
    replace (Datatypes.S j) with (length (P ++ x :: M ++ [y])).
    2:{ rewrite app_length. cbn [length]. rewrite app_length. cbn [length]. lia. }
    replace (P ++ x :: M ++ y :: S) with ((P ++ [x]) ++ M ++ y :: S) at 1 by (rewrite <- app_assoc; reflexivity).
    rewrite firstn_len_app.
    replace (P ++ x :: M ++ y :: S) with ((P ++ x :: M ++ [y]) ++ S).
    2:{ rewrite <- app_assoc. cbn [app]. rewrite <- app_assoc. reflexivity. }
    rewrite skipn_len_app. rewrite <- app_assoc. reflexivity.
  Qed.
End Surgery.

Lemma nth_js_from : forall (P M S : list jstep) x y i, length P = i -> nth_js (P ++ x :: M ++ y :: S) i = x.
Proof. intros P M S x y i Hi. subst i. unfold nth_js. apply nth_middle. Qed.

Lemma nth_js_to : forall (P M S : list jstep) x y i j, length P = i -> j = (i + Datatypes.S (length M))%nat ->
  nth_js (P ++ x :: M ++ y :: S) j = y.
Proof.
  intros P M S x y i j Hi Hj. unfold nth_js.
  replace (P ++ x :: M ++ y :: S) with ((P ++ x :: M) ++ y :: S) by (rewrite <- app_assoc; reflexivity).
  rewrite <- (len_to _ P M x i j Hi Hj). apply nth_middle.
Qed.

Lemma split_two : forall (js : list jstep) i j, (i < j < length js)%nat ->
  exists P x M y S, js = P ++ x :: M ++ y :: S /\ length P = i /\ j = (i + Datatypes.S (length M))%nat.
Proof.
  intros js i j Hr.
  destruct (nth_split js js_default (proj2 Hr)) as (Q & S & EQ & LQ).
  assert (Hi : (i < length Q)%nat) by lia.
  destruct (nth_split Q js_default Hi) as (P & M & EP & LP).
  exists P, (nth i Q js_default), M, (nth j js js_default), S.
  split; [|split; [exact LP|]].
  - rewrite EQ at 1. rewrite EP at 1. rewrite <- app_assoc. reflexivity.
  - rewrite <- LQ. rewrite EP at 1. rewrite app_length. cbn [length]. lia.
Qed.

(* ============================================================================================== *)
(* D. chains                                                                                        *)

Definition linkb (d : data) (p : params) (w : Z) (n m : nat) : bool :=
  (if Nat.eqb n m then w =? 0 else has_row (fp_of d n) m w) && (w <=? q_maxtr p).

Lemma jchain_step : forall d p r x R,
  jchain_ok d p r (x :: R) = true <->
  exists b e, js_enter x = Some b /\ js_exit x = Some e /\ r + minw_true p b <= c_dep b /\
    (R = [] \/
     exists b', first_board R = Some b' /\ linkb d p (js_walk x) (c_to e) (c_from b') = true /\
                jchain_ok d p (c_arr e + js_walk x) R = true).
Proof.
  intros d p r x R. cbn [jchain_ok]. split.
  - destruct (js_enter x) as [b|]; [|discriminate]. destruct (js_exit x) as [e|]; [|discriminate].
    intros H. apply andb_true_iff in H. destruct H as [Hbd H]. apply Z.leb_le in Hbd.
    exists b, e. repeat (split; [reflexivity || assumption|]).
    destruct R as [|y R']; [left; reflexivity|right].
    cbn [first_board]. destruct (js_enter y) as [b'|]; [|discriminate].
    apply andb_true_iff in H. destruct H as [Hl Hc].
    exists b'. unfold linkb. auto.
  - intros (b & e & Hb & He & Hbd & Hrest). rewrite Hb, He.
    apply andb_true_iff. split; [apply Z.leb_le; exact Hbd|].
    destruct Hrest as [->|(b' & Hfb & Hl & Hc)]; [reflexivity|].
    destruct R as [|y R']; [discriminate Hfb|]. cbn [first_board] in Hfb. rewrite Hfb.
    unfold linkb in Hl. rewrite Hl, Hc. reflexivity.
Qed.

Lemma jchain_mono : forall d p r r' L, jchain_ok d p r L = true -> r' <= r -> jchain_ok d p r' L = true.
Proof.
  intros d p r r' L H Hle. destruct L as [|x R]; [reflexivity|].
  apply jchain_step in H. apply jchain_step.
  destruct H as (b & e & Hb & He & Hbd & Hrest). exists b, e.
  repeat (split; [assumption|]). split; [lia|exact Hrest].
Qed.

Lemma first_board_app : forall L x R x' R', js_enter x' = js_enter x ->
  first_board (L ++ x' :: R') = first_board (L ++ x :: R).
Proof. intros L x R x' R' H. destruct L; cbn [app first_board]; [exact H|reflexivity]. Qed.

Lemma jchain_prefix : forall d p L1 r x R x' R',
  js_enter x' = js_enter x ->
  (forall r0, jchain_ok d p r0 (x :: R) = true -> jchain_ok d p r0 (x' :: R') = true) ->
  jchain_ok d p r (L1 ++ x :: R) = true -> jchain_ok d p r (L1 ++ x' :: R') = true.
Proof.
  intros d p. induction L1 as [|z L1 IH]; intros r x R x' R' Hen Hloc H.
  - apply Hloc. exact H.
  - cbn [app] in *. apply jchain_step in H. apply jchain_step.
    destruct H as (b & e & Hb & He & Hbd & Hrest). exists b, e.
    repeat (split; [assumption|]).
    destruct Hrest as [Hnil|(b' & Hfb & Hl & Hc)].
    + exfalso. destruct L1; discriminate Hnil.
    + right. exists b'. split; [rewrite (first_board_app L1 x R x' R' Hen); exact Hfb|].
      split; [exact Hl|]. apply (IH _ x R x' R' Hen Hloc Hc).
Qed.

Lemma last_alight_app : forall L R, R <> [] -> last_alight (L ++ R) = last_alight R.
Proof.
  intros L R HR. unfold last_alight. rewrite rev_app_distr.
  destruct (rev R) as [|z R'] eqn:E.
  - exfalso. apply HR. rewrite <- (rev_involutive R), E. reflexivity.
  - reflexivity.
Qed.

Lemma last_alight_cons : forall x R, R <> [] -> last_alight (x :: R) = last_alight R.
Proof. intros x R HR. apply (last_alight_app [x] R HR). Qed.

Lemma last_alight_one : forall x, last_alight [x] = js_exit x.
Proof. reflexivity. Qed.

(* ============================================================================================== *)
(* E. preservation                                                                                  *)

Section Preservation.
  Variables (d : data) (s : scenario) (p : params) (acc egr : list fprow) (bd : Z).
  Hypothesis Hwf : wf_data_b d = true.
  Hypothesis Hmw : 0 <= q_minw p.

  Lemma minw_true_nonneg : forall c, 0 <= minw_true p c.
  Proof.
    intros c. unfold minw_true. destruct (c_minw c >=? 0) eqn:E; [|exact Hmw].
    apply Z.geb_le in E. exact E.
  Qed.

  Lemma minw_true_ext : forall c1 c2, c_minw c1 = c_minw c2 -> minw_true p c1 = minw_true p c2.
  Proof. intros c1 c2 H. unfold minw_true. rewrite H. reflexivity. Qed.

  Lemma linkb_bounds : forall w n m, In n (d_nodes d) -> linkb d p w n m = true -> 0 <= w <= q_maxtr p.
  Proof.
    intros w n m Hn H. unfold linkb in H. apply andb_true_iff in H. destruct H as [H Hmax].
    apply Z.leb_le in Hmax. split; [|exact Hmax].
    destruct (Nat.eqb n m).
    - apply Z.eqb_eq in H. lia.
    - apply (wf_fp_nonneg d n m w Hwf Hn H).
  Qed.

  Lemma leg_at_facts : forall j b e t tr kb ke, leg_at d s p j b e t tr kb ke ->
    c_dep b <= c_arr e /\ In (c_to e) (d_nodes d).
  Proof.
    intros j b e t tr kb ke (Hb & He & Ht & Ft & Pb & Pe & Hk & _).
    split.
    - apply (at_pos_times d t tr kb ke b e Hwf Ft Pb Pe Hk).
    - apply (at_pos_node d t tr ke e Hwf Ft Pe).
  Qed.

  (* along a valid chain the clock never goes back: the traveller is ready for leg y no earlier
     than leg x arrived *)
  Lemma chain_clock : forall M x y S r e,
    forallb (jleg_ok d s p) (x :: M) = true -> js_exit x = Some e ->
    jchain_ok d p r (x :: M ++ y :: S) = true ->
    exists ry, c_arr e <= ry /\ jchain_ok d p ry (y :: S) = true /\ 0 <= q_maxtr p.
  Proof.
    induction M as [|m M IH]; intros x y S r e Hall He H.
    - cbn [app] in H. apply jchain_step in H.
      destruct H as (b & e' & Hb & He' & Hbd & [Hnil|(b' & Hfb & Hl & Hc)]); [discriminate|].
      rewrite He in He'. injection He' as <-.
      cbn [forallb] in Hall. apply andb_true_iff in Hall. destruct Hall as [Hx _].
      destruct (jleg_ok_at d s p x Hx) as (b0 & e0 & t & tr & kb & ke & Hat).
      destruct (leg_at_facts _ _ _ _ _ _ _ Hat) as [_ Hnode].
      destruct Hat as (_ & He0 & _). rewrite He in He0. injection He0 as <-.
      destruct (linkb_bounds _ _ _ Hnode Hl) as [Hw0 Hw1].
      exists (c_arr e + js_walk x). split; [lia|]. split; [exact Hc|lia].
    - cbn [app] in H. apply jchain_step in H.
      destruct H as (b & e' & Hb & He' & Hbd & [Hnil|(b' & Hfb & Hl & Hc)]); [discriminate|].
      rewrite He in He'. injection He' as <-.
      cbn [forallb] in Hall. apply andb_true_iff in Hall. destruct Hall as [Hx Hall].
      destruct (jleg_ok_at d s p x Hx) as (b0 & e0 & t & tr & kb & ke & Hat).
      destruct (leg_at_facts _ _ _ _ _ _ _ Hat) as [_ Hnode].
      destruct Hat as (_ & He0 & _). rewrite He in He0. injection He0 as <-.
      destruct (linkb_bounds _ _ _ Hnode Hl) as [Hw0 Hw1].
      assert (Hm : jleg_ok d s p m = true).
      { cbn [forallb] in Hall. apply andb_true_iff in Hall. apply Hall. }
      destruct (jleg_ok_at d s p m Hm) as (bm & em & tm & trm & kbm & kem & Hatm).
      destruct (leg_at_facts _ _ _ _ _ _ _ Hatm) as [Hdm _].
      destruct Hatm as (Hbm & Hem & _).
      destruct (IH m y S _ em Hall Hem Hc) as (ry & Hry & Hcy & Hmax).
      pose proof Hc as Hc'. apply jchain_step in Hc'.
      destruct Hc' as (bm' & em' & Hbm' & Hem' & Hbdm & _).
      rewrite Hbm in Hbm'. injection Hbm' as <-.
      pose proof (minw_true_nonneg bm) as Hmn.
      exists ry. split; [lia|]. split; [exact Hcy|exact Hmax].
  Qed.

  (* BTS / GTF / CSS: x keeps its boarding and alights at cx (no later than before), y boards cy
     (no earlier than before) at the stop where cx arrives; everything between them is dropped *)
  Lemma chain_join : forall r x M y S x' y' bx ex tx trx kbx kex by_ ey ty try kby key cx kx cy ky,
    forallb (jleg_ok d s p) (x :: M) = true ->
    leg_at d s p x bx ex tx trx kbx kex -> leg_at d s p y by_ ey ty try kby key ->
    at_pos d trx kx cx -> (kx <= kex)%nat -> at_pos d try ky cy -> (kby <= ky)%nat ->
    c_to cx = c_from cy ->
    js_enter x' = Some bx -> js_exit x' = Some cx -> js_walk x' = 0 ->
    js_enter y' = Some cy -> js_exit y' = Some ey -> js_walk y' = js_walk y ->
    jchain_ok d p r (x :: M ++ y :: S) = true -> jchain_ok d p r (x' :: y' :: S) = true.
  Proof.
    intros r x M y S x' y' bx ex tx trx kbx kex by_ ey ty try kby key cx kx cy ky
           Hall Hx Hy Pcx Hkx Pcy Hky Hnode Hbx' Hex' Hwx' Hby' Hey' Hwy' H.
    pose proof Hx as (Hbx & Hex & _ & Ftx & _ & Pex & _).
    pose proof Hy as (Hby & Hey & _ & Fty & Pby & _).
    destruct (chain_clock M x y S r ex Hall Hex H) as (ry & Hry & Hcy & Hmax).
    pose proof H as H0. apply jchain_step in H0.
    destruct H0 as (b0 & e0 & Hb0 & _ & Hbd & _). rewrite Hbx in Hb0. injection Hb0 as <-.
    apply jchain_step in Hcy.
    destruct Hcy as (b1 & e1 & Hb1 & He1 & Hbdy & Hrest).
    rewrite Hby in Hb1. injection Hb1 as <-. rewrite Hey in He1. injection He1 as <-.
    destruct (at_pos_times d tx trx kx kex cx ex Hwf Ftx Pcx Pex Hkx) as (_ & Harr & _).
    destruct (at_pos_times d ty try kby ky by_ cy Hwf Fty Pby Pcy Hky) as (Hdep & _ & _).
    pose proof (minw_true_ext _ _ (at_pos_minw d try kby ky by_ cy Pby Pcy)) as Hmin.
    apply jchain_step. exists bx, cx. repeat (split; [assumption|]).
    right. exists cy. cbn [first_board]. split; [exact Hby'|]. split.
    - unfold linkb. rewrite Hwx', Hnode, Nat.eqb_refl. cbn [Z.eqb andb].
      apply Z.leb_le. exact Hmax.
    - apply jchain_step. exists cy, ey. repeat (split; [assumption|]).
      split; [rewrite Hwx'; lia|]. rewrite Hwy'. exact Hrest.
  Qed.

  (* CSL: x alights at cx, which arrives where y alighted, and takes over the walk that followed y *)
  Lemma chain_csl : forall r x M y S x' bx ex tx trx kbx kex by_ ey ty try kby key cx kx,
    forallb (jleg_ok d s p) (x :: M) = true ->
    leg_at d s p x bx ex tx trx kbx kex -> leg_at d s p y by_ ey ty try kby key ->
    at_pos d trx kx cx -> (kx <= kex)%nat -> c_to cx = c_to ey ->
    js_enter x' = Some bx -> js_exit x' = Some cx -> js_walk x' = js_walk y ->
    jchain_ok d p r (x :: M ++ y :: S) = true -> jchain_ok d p r (x' :: S) = true.
  Proof.
    intros r x M y S x' bx ex tx trx kbx kex by_ ey ty try kby key cx kx
           Hall Hx Hy Pcx Hkx Hnode Hbx' Hex' Hwx' H.
    pose proof Hx as (Hbx & Hex & _ & Ftx & _ & Pex & _).
    pose proof Hy as (Hby & Hey & _).
    destruct (leg_at_facts _ _ _ _ _ _ _ Hy) as [Hdy _].
    destruct (chain_clock M x y S r ex Hall Hex H) as (ry & Hry & Hcy & Hmax).
    pose proof H as H0. apply jchain_step in H0.
    destruct H0 as (b0 & e0 & Hb0 & _ & Hbd & _). rewrite Hbx in Hb0. injection Hb0 as <-.
    apply jchain_step in Hcy.
    destruct Hcy as (b1 & e1 & Hb1 & He1 & Hbdy & Hrest).
    rewrite Hby in Hb1. injection Hb1 as <-. rewrite Hey in He1. injection He1 as <-.
    destruct (at_pos_times d tx trx kx kex cx ex Hwf Ftx Pcx Pex Hkx) as (_ & Harr & _).
    pose proof (minw_true_nonneg by_) as Hmn.
    apply jchain_step. exists bx, cx. repeat (split; [assumption|]).
    destruct Hrest as [->|(b' & Hfb & Hl & Hc)]; [left; reflexivity|].
    right. exists b'. split; [exact Hfb|]. rewrite Hwx', Hnode. split; [exact Hl|].
    apply (jchain_mono d p _ _ S Hc). lia.
  Qed.

  (* replacing x . M . y by x' . T inside a valid journey *)
  Lemma journey_replace : forall a e L1 x M y S x' T,
    journey_ok_P d s p acc egr bd a (L1 ++ x :: M ++ y :: S) e ->
    forallb (jleg_ok d s p) (x' :: T) = true ->
    js_enter x' = js_enter x ->
    (forall r0, jchain_ok d p r0 (x :: M ++ y :: S) = true -> jchain_ok d p r0 (x' :: T ++ S) = true) ->
    (forall el, last_alight (y :: S) = Some el ->
                exists el', last_alight (x' :: T ++ S) = Some el' /\ c_to el' = c_to el) ->
    journey_ok_P d s p acc egr bd a (L1 ++ x' :: T ++ S) e.
  Proof.
    intros a e L1 x M y S x' T (Ha & He & Hall & b1 & el & Hfb & Hla & Hra & Hre & Hch)
           Hnew Hen Hloc Hlast.
    unfold journey_ok_P. split; [exact Ha|]. split; [exact He|]. split.
    - rewrite forallb_app in Hall. apply andb_true_iff in Hall. destruct Hall as [H1 H2].
      change (x :: M ++ y :: S) with ((x :: M) ++ y :: S) in H2.
      rewrite forallb_app in H2. apply andb_true_iff in H2. destruct H2 as [_ H2].
      cbn [forallb] in H2. apply andb_true_iff in H2. destruct H2 as [_ H2].
      rewrite forallb_app. rewrite H1. cbn [andb].
      change (x' :: T ++ S) with ((x' :: T) ++ S). rewrite forallb_app, Hnew, H2. reflexivity.
    - replace (L1 ++ x :: M ++ y :: S) with ((L1 ++ x :: M) ++ y :: S) in Hla
        by (rewrite <- app_assoc; reflexivity).
      rewrite last_alight_app in Hla by discriminate.
      destruct (Hlast el Hla) as (el' & Hla' & Hto).
      exists b1, el'. split.
      + rewrite (first_board_app L1 x (M ++ y :: S) x' (T ++ S) Hen). exact Hfb.
      + split; [rewrite last_alight_app by discriminate; exact Hla'|].
        split; [exact Hra|]. split; [rewrite Hto; exact Hre|].
        apply (jchain_prefix d p L1 _ x (M ++ y :: S) x' (T ++ S) Hen Hloc Hch).
  Qed.

  Lemma journey_legs_split : forall a e L1 x M y S,
    journey_ok_P d s p acc egr bd a (L1 ++ x :: M ++ y :: S) e ->
    jleg_ok d s p x = true /\ jleg_ok d s p y = true /\ forallb (jleg_ok d s p) (x :: M) = true.
  Proof.
    intros a e L1 x M y S (_ & _ & Hall & _).
    rewrite forallb_app in Hall. apply andb_true_iff in Hall. destruct Hall as [_ H2].
    change (x :: M ++ y :: S) with ((x :: M) ++ y :: S) in H2.
    rewrite forallb_app in H2. apply andb_true_iff in H2. destruct H2 as [H2 H3].
    cbn [forallb] in H3. apply andb_true_iff in H3. destruct H3 as [Hy _].
    pose proof H2 as H2'. cbn [forallb] in H2'. apply andb_true_iff in H2'. destruct H2' as [Hx _].
    auto.
  Qed.

  Lemma rewrite_pair : forall a e L1 x M y S x' y' bx ex tx trx kbx kex by_ ey ty try kby key cx kx cy ky,
    journey_ok_P d s p acc egr bd a (L1 ++ x :: M ++ y :: S) e ->
    leg_at d s p x bx ex tx trx kbx kex -> leg_at d s p y by_ ey ty try kby key ->
    at_pos d trx kx cx -> (kbx <= kx <= kex)%nat -> c_cu cx = true ->
    at_pos d try ky cy -> (kby <= ky <= key)%nat -> c_cb cy = true ->
    c_to cx = c_from cy ->
    js_enter x' = Some bx -> js_exit x' = Some cx -> js_trip x' = Some tx -> js_walk x' = 0 ->
    js_enter y' = Some cy -> js_exit y' = Some ey -> js_trip y' = Some ty -> js_walk y' = js_walk y ->
    journey_ok_P d s p acc egr bd a (L1 ++ x' :: y' :: S) e.
  Proof.
    intros a e L1 x M y S x' y' bx ex tx trx kbx kex by_ ey ty try kby key cx kx cy ky
           HP Hx Hy Pcx Hkx Cux Pcy Hky Cby Hnode Hbx' Hex' Htx' Hwx' Hby' Hey' Hty' Hwy'.
    destruct (journey_legs_split _ _ _ _ _ _ _ HP) as (_ & _ & HxM).
    pose proof Hx as (Hbx & Hex & Htx & Ftx & Pbx & Pex & Hkbx & Adx & Cbx & _).
    pose proof Hy as (Hby & Hey & Hty & Fty & Pby & Pey & Hkby & Ady & _ & Cuy).
    apply (journey_replace a e L1 x M y S x' [y'] HP).
    - cbn [forallb]. rewrite andb_true_r. apply andb_true_iff. split.
      + apply (leg_at_ok d s p x' bx cx tx trx kbx kx). unfold leg_at.
        repeat (split; [assumption || lia|]). assumption.
      + apply (leg_at_ok d s p y' cy ey ty try ky key). unfold leg_at.
        repeat (split; [assumption || lia|]). assumption.
    - congruence.
    - intros r0 H0. cbn [app].
      apply (chain_join r0 x M y S x' y' bx ex tx trx kbx kex by_ ey ty try kby key cx kx cy ky);
        try assumption; lia.
    - intros el Hel. cbn [app]. exists el. split; [|reflexivity].
      destruct S as [|z S'].
      + rewrite last_alight_cons by discriminate. rewrite last_alight_one in *. congruence.
      + rewrite last_alight_cons by discriminate.
        rewrite !last_alight_cons in Hel by discriminate.
        rewrite !last_alight_cons by discriminate. exact Hel.
  Qed.

  Lemma rewrite_single : forall a e L1 x M y S x' bx ex tx trx kbx kex by_ ey ty try kby key cx kx,
    journey_ok_P d s p acc egr bd a (L1 ++ x :: M ++ y :: S) e ->
    leg_at d s p x bx ex tx trx kbx kex -> leg_at d s p y by_ ey ty try kby key ->
    at_pos d trx kx cx -> (kbx <= kx <= kex)%nat -> c_cu cx = true ->
    c_to cx = c_to ey ->
    js_enter x' = Some bx -> js_exit x' = Some cx -> js_trip x' = Some tx -> js_walk x' = js_walk y ->
    journey_ok_P d s p acc egr bd a (L1 ++ x' :: S) e.
  Proof.
    intros a e L1 x M y S x' bx ex tx trx kbx kex by_ ey ty try kby key cx kx
           HP Hx Hy Pcx Hkx Cux Hnode Hbx' Hex' Htx' Hwx'.
    destruct (journey_legs_split _ _ _ _ _ _ _ HP) as (_ & _ & HxM).
    pose proof Hx as (Hbx & Hex & Htx & Ftx & Pbx & Pex & Hkbx & Adx & Cbx & _).
    pose proof Hy as (Hby & Hey & _).
    apply (journey_replace a e L1 x M y S x' [] HP).
    - cbn [forallb]. rewrite andb_true_r.
      apply (leg_at_ok d s p x' bx cx tx trx kbx kx). unfold leg_at.
      repeat (split; [assumption || lia|]). assumption.
    - congruence.
    - intros r0 H0. cbn [app].
      apply (chain_csl r0 x M y S x' bx ex tx trx kbx kex by_ ey ty try kby key cx kx);
        try assumption; lia.
    - intros el Hel. cbn [app].
      destruct S as [|z S'].
      + rewrite last_alight_one in *. exists cx. split; [exact Hex'|]. congruence.
      + exists el. split; [|reflexivity].
        rewrite !last_alight_cons in Hel by discriminate.
        rewrite !last_alight_cons by discriminate. exact Hel.
  Qed.
End Preservation.

(* ---- from positions in the journey deque to positions among the legs ---- *)

Lemma split_legs : forall (a e : jstep) legs P x M y S,
  a :: legs ++ [e] = P ++ x :: M ++ y :: S ->
  js_enter a = None -> js_enter e = None -> js_enter x <> None -> js_enter y <> None ->
  exists L1 L2, P = a :: L1 /\ S = L2 ++ [e] /\ legs = L1 ++ x :: M ++ y :: L2.
Proof.
  intros a e legs P x M y S H Ha He Hx Hy.
  destruct P as [|a' L1]; cbn [app] in H.
  - injection H as <- _. contradiction.
  - injection H as <- H.
    induction S as [|e' L2 _] using rev_ind.
    + exfalso. replace (L1 ++ x :: M ++ [y]) with ((L1 ++ x :: M) ++ [y]) in H
        by (rewrite <- app_assoc; reflexivity).
      apply app_inj_tail in H. destruct H as [_ <-]. contradiction.
    + replace (L1 ++ x :: M ++ y :: L2 ++ [e']) with ((L1 ++ x :: M ++ y :: L2) ++ [e']) in H.
      2:{ rewrite <- app_assoc. cbn [app]. rewrite <- app_assoc. reflexivity. }
      apply app_inj_tail in H. destruct H as [-> <-].
      exists L1, L2. auto.
Qed.

Lemma finish : forall d s p acc egr bd (a e x' : jstep) L1 T L2,
  journey_ok_P d s p acc egr bd a (L1 ++ x' :: T ++ L2) e ->
  journey_ok_b d s p acc egr bd ((a :: L1) ++ x' :: T ++ (L2 ++ [e])) = true.
Proof.
  intros d s p acc egr bd a e x' L1 T L2 H.
  replace ((a :: L1) ++ x' :: T ++ (L2 ++ [e])) with (a :: (L1 ++ x' :: T ++ L2) ++ [e]).
  - apply journey_ok_iff. exact H.
  - cbn [app]. f_equal. rewrite <- app_assoc. cbn [app]. rewrite <- app_assoc. reflexivity.
Qed.

(* ---- the induction on fuel ---- *)

Theorem optimize_preserves_gen : forall d s p acc egr bestdep,
  wf_data_b d = true -> 0 <= q_minw p ->
  forall fuel js used ign js' used',
    journey_ok_b d s p acc egr bestdep js = true ->
    optimize fuel d js used ign = OptDone js' used' ->
    journey_ok_b d s p acc egr bestdep js' = true.
Proof.
  intros d s p acc egr bd Hwf Hmw.
  induction fuel as [|f IH]; intros js used ign js' used' Hok H; [discriminate|].
  cbn [optimize] in H.
  destruct (detect d ign js 0 []) as [[[[[cs X] i] j]|]|] eqn:Hdet; [| |discriminate].
  2:{ injection H as <- _. exact Hok. }
  destruct (detect_top d ign js cs X i j Hdet)
    as (Hr & bi & ei & bj & ej & Hbi & Hei & Hbj & Hej & Hcase).
  destruct (journey_ok_inv d s p acc egr bd js Hok) as (a & legs & e & Ejs & HP).
  destruct (split_two js i j Hr) as (P & x & M & y & S & EQ & LP & LJ).
  rewrite EQ in Hbi, Hei, Hbj, Hej.
  rewrite (nth_js_from P M S x y i LP) in Hbi, Hei.
  rewrite (nth_js_to P M S x y i j LP LJ) in Hbj, Hej.
  pose proof HP as (Ha & He & _).
  apply Totals.is_walk_inv in Ha. apply Totals.is_walk_inv in He.
  pose proof EQ as EQ2. rewrite Ejs in EQ2.
  destruct (split_legs a e legs P x M y S EQ2 (proj1 Ha) (proj1 He)
              ltac:(congruence) ltac:(congruence)) as (L1 & L2 & EP & ES & EL).
  clear EQ2 Ejs. subst P S legs. subst js. clear Ha He.
  destruct (journey_legs_split d s p acc egr bd a e L1 x M y L2 HP) as (Hxok & Hyok & _).
  destruct (jleg_ok_at d s p x Hxok) as (bx & ex & tx & trx & kbx & kex & Hatx).
  destruct (jleg_ok_at d s p y Hyok) as (by_ & ey & ty & try & kby & key & Haty).
  pose proof Hatx as (Hbx & Hex & Htx & Ftx & Pbx & Pex & Hkx & _ & Cbx & Cux).
  pose proof Haty as (Hby & Hey & Hty & Fty & Pby & Pey & Hky & _ & Cby & Cuy).
  rewrite Hbx in Hbi. injection Hbi as <-. rewrite Hex in Hei. injection Hei as <-.
  rewrite Hby in Hbj. injection Hbj as <-. rewrite Hey in Hej. injection Hej as <-.
  set (PP := a :: L1) in *. set (SS := L2 ++ [e]) in *.
  destruct (Nat.eqb cs 1) eqn:C1.
  { (* CSL *)
    apply Nat.eqb_eq in C1. subst cs.
    destruct Hcase as [[_ HX]|[[C _]|[[C _]|C]]]; try discriminate.
    rewrite (nth_js_from PP M SS x y i LP) in H.
    destruct (leg_range d x) as [rng|] eqn:Hrng; [|discriminate].
    destruct (find (fun c => Nat.eqb X (c_to c)) rng) as [c|] eqn:Hf; [|apply (IH _ _ _ _ _ Hok H)].
    destruct (c_cu c) eqn:Hcu; cbn [negb] in H; [|apply (IH _ _ _ _ _ Hok H)].
    cbv zeta in H.
    rewrite (nth_js_to PP M SS x y i j LP LJ) in H.
    rewrite (surgery_from _ PP M SS x y i LP) in H.
    rewrite (surgery_erase_closed _ PP M SS _ y i j LP LJ) in H.
    apply find_some in Hf. destruct Hf as [Hin Hc]. apply Nat.eqb_eq in Hc.
    destruct (leg_range_in d s p x bx ex tx trx kbx kex rng c Hwf Hatx Hrng Hin) as (k & Hk & Pc).
    refine (IH _ _ _ _ _ _ H).
    apply (finish d s p acc egr bd a e _ L1 [] L2).
    apply (rewrite_single d s p acc egr bd Hwf Hmw a e L1 x M y L2 _
             bx ex tx trx kbx kex by_ ey ty try kby key c k HP Hatx Haty Pc Hk Hcu);
      try assumption; try reflexivity. congruence. }
  destruct (Nat.eqb cs 2) eqn:C2.
  { (* BTS *)
    apply Nat.eqb_eq in C2. subst cs.
    destruct Hcase as [[C _]|[[_ HX]|[[C _]|C]]]; try discriminate.
    rewrite (nth_js_to PP M SS x y i j LP LJ) in H.
    destruct (leg_range d y) as [rng|] eqn:Hrng; [|discriminate].
    destruct (find (fun c => Nat.eqb X (c_from c)) rng) as [c|] eqn:Hf;
      [|injection H as <- _; exact Hok].
    destruct (c_cb c) eqn:Hcb; cbn [negb] in H; [|injection H as <- _; exact Hok].
    rewrite (surgery_to _ PP M SS x y i j LP LJ) in H.
    rewrite (surgery_from _ PP M SS x _ i LP) in H.
    rewrite (surgery_erase_open _ PP M SS _ _ i j LP LJ) in H.
    injection H as <- _.
    apply find_some in Hf. destruct Hf as [Hin Hc]. apply Nat.eqb_eq in Hc.
    destruct (leg_range_in d s p y by_ ey ty try kby key rng c Hwf Haty Hrng Hin) as (k & Hk & Pc).
    apply (finish d s p acc egr bd a e _ L1 [_] L2).
    apply (rewrite_pair d s p acc egr bd Hwf Hmw a e L1 x M y L2 _ _
             bx ex tx trx kbx kex by_ ey ty try kby key ex kex c k HP Hatx Haty Pex
             ltac:(lia) Cux Pc Hk Hcb);
      try assumption; try reflexivity. congruence. }
  destruct (Nat.eqb cs 3) eqn:C3.
  { (* GTF *)
    apply Nat.eqb_eq in C3. subst cs.
    destruct Hcase as [[C _]|[[C _]|[[_ HX]|C]]]; try discriminate.
    rewrite (nth_js_from PP M SS x y i LP) in H.
    destruct (leg_range d x) as [rng|] eqn:Hrng; [|discriminate].
    destruct (find (fun c => Nat.eqb X (c_to c)) rng) as [c|] eqn:Hf; [|apply (IH _ _ _ _ _ Hok H)].
    destruct (c_cu c) eqn:Hcu; cbn [negb] in H; [|apply (IH _ _ _ _ _ Hok H)].
    rewrite (surgery_from _ PP M SS x y i LP) in H.
    rewrite (surgery_erase_open _ PP M SS _ y i j LP LJ) in H.
    apply find_some in Hf. destruct Hf as [Hin Hc]. apply Nat.eqb_eq in Hc.
    destruct (leg_range_in d s p x bx ex tx trx kbx kex rng c Hwf Hatx Hrng Hin) as (k & Hk & Pc).
    refine (IH _ _ _ _ _ _ H).
    apply (finish d s p acc egr bd a e _ L1 [_] L2).
    apply (rewrite_pair d s p acc egr bd Hwf Hmw a e L1 x M y L2 _ _
             bx ex tx trx kbx kex by_ ey ty try kby key c k by_ kby HP Hatx Haty Pc Hk Hcu Pby
             ltac:(lia) Cby);
      try assumption; try reflexivity. congruence. }
  (* CSS *)
  rewrite (nth_js_from PP M SS x y i LP) in H.
  rewrite (nth_js_to PP M SS x y i j LP LJ) in H.
  destruct (leg_range d x) as [rf|] eqn:Hrf; [|discriminate].
  destruct (leg_range d y) as [rt|] eqn:Hrt; [|discriminate].
  cbv zeta in H.
  destruct (css_second X (css_first X rf None) rt (PP ++ x :: M ++ y :: SS) i j used ign)
    as [[js1 used1] ign1] eqn:Hcs.
  destruct (css_second_spec _ _ _ _ _ _ _ _ _ _ _ Hcs) as [->|(cx & cy & Hfirst & Hin2 & Hfrom & Hcb & ->)].
  - apply (IH _ _ _ _ _ Hok H).
  - destruct (css_first_in _ _ _ _ Hfirst) as [Hno|(Hin1 & Hto & Hcu)]; [discriminate|].
    rewrite (surgery_from _ PP M SS x y i LP) in H.
    rewrite (surgery_to _ PP M SS _ y i j LP LJ) in H.
    rewrite (surgery_erase_open _ PP M SS _ _ i j LP LJ) in H.
    destruct (leg_range_in d s p x bx ex tx trx kbx kex rf cx Hwf Hatx Hrf Hin1) as (k1 & Hk1 & Pc1).
    destruct (leg_range_in d s p y by_ ey ty try kby key rt cy Hwf Haty Hrt Hin2) as (k2 & Hk2 & Pc2).
    refine (IH _ _ _ _ _ _ H).
    apply (finish d s p acc egr bd a e _ L1 [_] L2).
    apply (rewrite_pair d s p acc egr bd Hwf Hmw a e L1 x M y L2 _ _
             bx ex tx trx kbx kex by_ ey ty try kby key cx k1 cy k2 HP Hatx Haty Pc1 Hk1 Hcu Pc2 Hk2 Hcb);
      try assumption; try reflexivity. congruence.
Qed.

Theorem optimize_preserves : forall fuel d s p acc egr bestdep js js' used,
  wf_data_b d = true -> 0 <= q_minw p ->
  journey_ok_b d s p acc egr bestdep js = true ->
  optimize fuel d js [] [] = OptDone js' used ->
  journey_ok_b d s p acc egr bestdep js' = true.
Proof.
  intros fuel d s p acc egr bd js js' used Hwf Hmw Hok H.
  apply (optimize_preserves_gen d s p acc egr bd Hwf Hmw fuel js [] [] js' used Hok H).
Qed.

Corollary optimize_preserves_wf_params : forall fuel d s p acc egr bestdep js js' used,
  wf_data_b d = true -> wf_params_b p = true ->
  journey_ok_b d s p acc egr bestdep js = true ->
  optimize fuel d js [] [] = OptDone js' used ->
  journey_ok_b d s p acc egr bestdep js' = true.
Proof.
  intros fuel d s p acc egr bd js js' used Hwf Hp Hok H.
  apply (optimize_preserves fuel d s p acc egr bd js js' used Hwf); try assumption.
  unfold wf_params_b in Hp.
  do 5 (apply andb_true_iff in Hp; destruct Hp as [Hp _]).
  apply andb_true_iff in Hp. destruct Hp as [_ Hp]. apply Z.leb_le in Hp. exact Hp.
Qed.

(* with Proofs/EmitValid.v: what optimizeJourney hands to the emission loop is emitted as a valid itinerary *)
Corollary optimize_emit_valid : forall fuel d s p acc egr bestdep js js' used,
  wf_data_b d = true -> 0 <= q_minw p ->
  journey_ok_b d s p acc egr bestdep js = true ->
  optimize fuel d js [] [] = OptDone js' used ->
  valid_itinerary_b d s p acc egr (emit d p bestdep js') = true.
Proof.
  intros fuel d s p acc egr bd js js' used Hwf Hmw Hok H.
  apply emit_valid. apply (optimize_preserves fuel d s p acc egr bd js js' used Hwf Hmw Hok H).
Qed.

(* ============================================================================================== *)
(* F. the rewrites keep the ends of the journey: the access and egress walk steps and the first
   boarding connection are unchanged (a leg is re-entered only as the `to` leg of BTS / CSS, and
   to > from >= 1); the last alighting connection arrives at the same stop, no later (CSL may
   shorten what becomes the last leg).  Phrased as an invariant relative to fixed reference values. *)

Definition ends_ok (a0 e0 : jstep) (b1 el0 : conn) (js : list jstep) : Prop :=
  exists legs el, js = a0 :: legs ++ [e0] /\ first_board legs = Some b1 /\
                  last_alight legs = Some el /\ c_arr el <= c_arr el0 /\ c_to el = c_to el0.

Lemma ends_ok_init : forall a0 e0 b1 el0 legs,
  first_board legs = Some b1 -> last_alight legs = Some el0 -> ends_ok a0 e0 b1 el0 (a0 :: legs ++ [e0]).
Proof.
  intros a0 e0 b1 el0 legs Hfb Hla. exists legs, el0.
  split; [reflexivity|]. split; [exact Hfb|]. split; [exact Hla|]. split; [lia|reflexivity].
Qed.

Lemma jchain_suffix : forall d p L1 r R, R <> [] -> jchain_ok d p r (L1 ++ R) = true ->
  exists r', jchain_ok d p r' R = true.
Proof.
  intros d p. induction L1 as [|z L1 IH]; intros r R HR H.
  - exists r. exact H.
  - cbn [app] in H. apply jchain_step in H.
    destruct H as (b & e & Hb & He & Hbd & [Hnil|(b' & Hfb & Hl & Hc)]).
    + exfalso. destruct L1 as [|z' L1']; [cbn [app] in Hnil; contradiction|discriminate Hnil].
    + apply (IH _ R HR Hc).
Qed.

Lemma ends_replace : forall a0 e0 b1 el0 (a e : jstep) L1 x M y L2 x' T,
  ends_ok a0 e0 b1 el0 ((a :: L1) ++ x :: M ++ y :: (L2 ++ [e])) ->
  js_enter x' = js_enter x ->
  (forall el, last_alight (y :: L2) = Some el ->
     exists el', last_alight (x' :: T ++ L2) = Some el' /\ c_arr el' <= c_arr el /\ c_to el' = c_to el) ->
  ends_ok a0 e0 b1 el0 ((a :: L1) ++ x' :: T ++ (L2 ++ [e])).
Proof.
  intros a0 e0 b1 el0 a e L1 x M y L2 x' T (legs & el & Ejs & Hfb & Hla & Harr & Hto) Hen Hlast.
  cbn [app] in Ejs. injection Ejs as Ea Erest. subst a0.
  replace (L1 ++ x :: M ++ y :: L2 ++ [e]) with ((L1 ++ x :: M ++ y :: L2) ++ [e]) in Erest.
  2:{ rewrite <- app_assoc. cbn [app]. rewrite <- app_assoc. reflexivity. }
  apply app_inj_tail in Erest. destruct Erest as [Elegs Ee]. subst legs e0.
  replace (L1 ++ x :: M ++ y :: L2) with ((L1 ++ x :: M) ++ y :: L2) in Hla
    by (rewrite <- app_assoc; reflexivity).
  rewrite last_alight_app in Hla by discriminate.
  destruct (Hlast el Hla) as (el' & Hla' & Harr' & Hto').
  exists (L1 ++ x' :: T ++ L2), el'. split.
  - cbn [app]. f_equal. rewrite <- app_assoc. cbn [app]. rewrite <- app_assoc. reflexivity.
  - split; [rewrite (first_board_app L1 x (M ++ y :: L2) x' (T ++ L2) Hen); exact Hfb|].
    split; [rewrite last_alight_app by discriminate; exact Hla'|]. split; [lia|congruence].
Qed.

(* BTS / GTF / CSS: x keeps its boarding, y keeps its exit *)
Lemma ends_pair : forall a0 e0 b1 el0 (a e : jstep) L1 x M y L2 x' y',
  ends_ok a0 e0 b1 el0 ((a :: L1) ++ x :: M ++ y :: (L2 ++ [e])) ->
  js_enter x' = js_enter x -> js_exit y' = js_exit y ->
  ends_ok a0 e0 b1 el0 ((a :: L1) ++ x' :: [y'] ++ (L2 ++ [e])).
Proof.
  intros a0 e0 b1 el0 a e L1 x M y L2 x' y' Hends Hen Hex.
  apply (ends_replace a0 e0 b1 el0 a e L1 x M y L2 x' [y'] Hends Hen).
  intros el Hel. exists el. split; [|split; [lia|reflexivity]]. cbn [app].
  destruct L2 as [|z L2'].
  - rewrite last_alight_cons by discriminate. rewrite last_alight_one in *. congruence.
  - rewrite last_alight_cons by discriminate.
    rewrite !last_alight_cons in Hel by discriminate.
    rewrite !last_alight_cons by discriminate. exact Hel.
Qed.

Section Ends.
  Variables (d : data) (s : scenario) (p : params) (acc egr : list fprow) (bd : Z).
  Hypothesis Hwf : wf_data_b d = true.
  Hypothesis Hmw : 0 <= q_minw p.

  (* CSL: the connection that becomes x's exit arrives no later than y's exit did *)
  Lemma csl_arrival : forall a e L1 x M y S bx ex tx trx kbx kex by_ ey ty try kby key cx kx,
    journey_ok_P d s p acc egr bd a (L1 ++ x :: M ++ y :: S) e ->
    leg_at d s p x bx ex tx trx kbx kex -> leg_at d s p y by_ ey ty try kby key ->
    at_pos d trx kx cx -> (kx <= kex)%nat -> c_arr cx <= c_arr ey.
  Proof.
    intros a e L1 x M y S bx ex tx trx kbx kex by_ ey ty try kby key cx kx HP Hx Hy Pcx Hkx.
    destruct (journey_legs_split d s p acc egr bd a e L1 x M y S HP) as (_ & _ & HxM).
    destruct HP as (_ & _ & _ & b1 & el & _ & _ & _ & _ & Hch).
    destruct (jchain_suffix d p L1 _ (x :: M ++ y :: S) ltac:(discriminate) Hch) as (r & Hr).
    pose proof Hx as (_ & Hex & _ & Ftx & _ & Pex & _).
    destruct (chain_clock d s p Hwf Hmw M x y S r ex HxM Hex Hr) as (ry & Hry & Hcy & _).
    apply jchain_step in Hcy. destruct Hcy as (b' & e' & Hb' & _ & Hbd & _).
    pose proof Hy as (Hby & _). rewrite Hby in Hb'. injection Hb' as <-.
    destruct (leg_at_facts d s p Hwf _ _ _ _ _ _ _ Hy) as [Hdy _].
    destruct (at_pos_times d tx trx kx kex cx ex Hwf Ftx Pcx Pex Hkx) as (_ & Harr & _).
    pose proof (minw_true_nonneg p Hmw by_) as Hmn. lia.
  Qed.

  Lemma ends_single : forall a0 e0 b1 el0 a e L1 x M y L2 x' bx ex tx trx kbx kex by_ ey ty try kby key cx kx,
    journey_ok_P d s p acc egr bd a (L1 ++ x :: M ++ y :: L2) e ->
    ends_ok a0 e0 b1 el0 ((a :: L1) ++ x :: M ++ y :: (L2 ++ [e])) ->
    leg_at d s p x bx ex tx trx kbx kex -> leg_at d s p y by_ ey ty try kby key ->
    at_pos d trx kx cx -> (kx <= kex)%nat -> c_to cx = c_to ey ->
    js_enter x' = Some bx -> js_exit x' = Some cx ->
    ends_ok a0 e0 b1 el0 ((a :: L1) ++ x' :: [] ++ (L2 ++ [e])).
  Proof.
    intros a0 e0 b1 el0 a e L1 x M y L2 x' bx ex tx trx kbx kex by_ ey ty try kby key cx kx
           HP Hends Hx Hy Pcx Hkx Hnode Hbx' Hex'.
    pose proof (csl_arrival a e L1 x M y L2 bx ex tx trx kbx kex by_ ey ty try kby key cx kx
                            HP Hx Hy Pcx Hkx) as Harr.
    pose proof Hx as (Hbx & _). pose proof Hy as (_ & Hey & _).
    apply (ends_replace a0 e0 b1 el0 a e L1 x M y L2 x' [] Hends); [congruence|].
    intros el Hel. cbn [app].
    destruct L2 as [|z L2'].
    - rewrite last_alight_one in *. exists cx. split; [exact Hex'|].
      rewrite Hey in Hel. injection Hel as <-. split; [exact Harr|exact Hnode].
    - exists el. split; [|split; [lia|reflexivity]].
      rewrite !last_alight_cons in Hel by discriminate.
      rewrite !last_alight_cons by discriminate. exact Hel.
  Qed.
End Ends.

Theorem optimize_ends_gen : forall d s p acc egr bestdep a0 e0 b1 el0,
  wf_data_b d = true -> 0 <= q_minw p ->
  forall fuel js used ign js' used',
    journey_ok_b d s p acc egr bestdep js = true -> ends_ok a0 e0 b1 el0 js ->
    optimize fuel d js used ign = OptDone js' used' ->
    ends_ok a0 e0 b1 el0 js'.
Proof.
  intros d s p acc egr bd a0 e0 b1 el0 Hwf Hmw.
  induction fuel as [|f IH]; intros js used ign js' used' Hok Hends H; [discriminate|].
  cbn [optimize] in H.
  destruct (detect d ign js 0 []) as [[[[[cs X] i] j]|]|] eqn:Hdet; [| |discriminate].
  2:{ injection H as <- _. exact Hends. }
  destruct (detect_top d ign js cs X i j Hdet)
    as (Hr & bi & ei & bj & ej & Hbi & Hei & Hbj & Hej & Hcase).
  destruct (journey_ok_inv d s p acc egr bd js Hok) as (a & legs & e & Ejs & HP).
  destruct (split_two js i j Hr) as (P & x & M & y & S & EQ & LP & LJ).
  rewrite EQ in Hbi, Hei, Hbj, Hej.
  rewrite (nth_js_from P M S x y i LP) in Hbi, Hei.
  rewrite (nth_js_to P M S x y i j LP LJ) in Hbj, Hej.
  pose proof HP as (Ha & He & _).
  apply Totals.is_walk_inv in Ha. apply Totals.is_walk_inv in He.
  pose proof EQ as EQ2. rewrite Ejs in EQ2.
  destruct (split_legs a e legs P x M y S EQ2 (proj1 Ha) (proj1 He)
              ltac:(congruence) ltac:(congruence)) as (L1 & L2 & EP & ES & EL).
  clear EQ2 Ejs. subst P S legs. subst js. clear Ha He.
  destruct (journey_legs_split d s p acc egr bd a e L1 x M y L2 HP) as (Hxok & Hyok & _).
  destruct (jleg_ok_at d s p x Hxok) as (bx & ex & tx & trx & kbx & kex & Hatx).
  destruct (jleg_ok_at d s p y Hyok) as (by_ & ey & ty & try & kby & key & Haty).
  pose proof Hatx as (Hbx & Hex & Htx & Ftx & Pbx & Pex & Hkx & _ & Cbx & Cux).
  pose proof Haty as (Hby & Hey & Hty & Fty & Pby & Pey & Hky & _ & Cby & Cuy).
  rewrite Hbx in Hbi. injection Hbi as <-. rewrite Hex in Hei. injection Hei as <-.
  rewrite Hby in Hbj. injection Hbj as <-. rewrite Hey in Hej. injection Hej as <-.
  set (PP := a :: L1) in *. set (SS := L2 ++ [e]) in *.
  destruct (Nat.eqb cs 1) eqn:C1.
  { (* CSL *)
    apply Nat.eqb_eq in C1. subst cs.
    destruct Hcase as [[_ HX]|[[C _]|[[C _]|C]]]; try discriminate.
    rewrite (nth_js_from PP M SS x y i LP) in H.
    destruct (leg_range d x) as [rng|] eqn:Hrng; [|discriminate].
    destruct (find (fun c => Nat.eqb X (c_to c)) rng) as [c|] eqn:Hf; [|apply (IH _ _ _ _ _ Hok Hends H)].
    destruct (c_cu c) eqn:Hcu; cbn [negb] in H; [|apply (IH _ _ _ _ _ Hok Hends H)].
    cbv zeta in H.
    rewrite (nth_js_to PP M SS x y i j LP LJ) in H.
    rewrite (surgery_from _ PP M SS x y i LP) in H.
    rewrite (surgery_erase_closed _ PP M SS _ y i j LP LJ) in H.
    apply find_some in Hf. destruct Hf as [Hin Hc]. apply Nat.eqb_eq in Hc.
    destruct (leg_range_in d s p x bx ex tx trx kbx kex rng c Hwf Hatx Hrng Hin) as (k & Hk & Pc).
    refine (IH _ _ _ _ _ _ _ H).
    - apply (finish d s p acc egr bd a e _ L1 [] L2).
      apply (rewrite_single d s p acc egr bd Hwf Hmw a e L1 x M y L2 _
               bx ex tx trx kbx kex by_ ey ty try kby key c k HP Hatx Haty Pc Hk Hcu);
        try assumption; try reflexivity. congruence.
    - apply (ends_single d s p acc egr bd Hwf Hmw a0 e0 b1 el0 a e L1 x M y L2 _
               bx ex tx trx kbx kex by_ ey ty try kby key c k HP Hends Hatx Haty Pc ltac:(lia));
        try assumption; try reflexivity. congruence. }
  destruct (Nat.eqb cs 2) eqn:C2.
  { (* BTS *)
    apply Nat.eqb_eq in C2. subst cs.
    destruct Hcase as [[C _]|[[_ HX]|[[C _]|C]]]; try discriminate.
    rewrite (nth_js_to PP M SS x y i j LP LJ) in H.
    destruct (leg_range d y) as [rng|] eqn:Hrng; [|discriminate].
    destruct (find (fun c => Nat.eqb X (c_from c)) rng) as [c|] eqn:Hf;
      [|injection H as <- _; exact Hends].
    destruct (c_cb c) eqn:Hcb; cbn [negb] in H; [|injection H as <- _; exact Hends].
    rewrite (surgery_to _ PP M SS x y i j LP LJ) in H.
    rewrite (surgery_from _ PP M SS x _ i LP) in H.
    rewrite (surgery_erase_open _ PP M SS _ _ i j LP LJ) in H.
    injection H as <- _.
    apply (ends_pair a0 e0 b1 el0 a e L1 x M y L2 _ _ Hends); reflexivity. }
  destruct (Nat.eqb cs 3) eqn:C3.
  { (* GTF *)
    apply Nat.eqb_eq in C3. subst cs.
    destruct Hcase as [[C _]|[[C _]|[[_ HX]|C]]]; try discriminate.
    rewrite (nth_js_from PP M SS x y i LP) in H.
    destruct (leg_range d x) as [rng|] eqn:Hrng; [|discriminate].
    destruct (find (fun c => Nat.eqb X (c_to c)) rng) as [c|] eqn:Hf; [|apply (IH _ _ _ _ _ Hok Hends H)].
    destruct (c_cu c) eqn:Hcu; cbn [negb] in H; [|apply (IH _ _ _ _ _ Hok Hends H)].
    rewrite (surgery_from _ PP M SS x y i LP) in H.
    rewrite (surgery_erase_open _ PP M SS _ y i j LP LJ) in H.
    apply find_some in Hf. destruct Hf as [Hin Hc]. apply Nat.eqb_eq in Hc.
    destruct (leg_range_in d s p x bx ex tx trx kbx kex rng c Hwf Hatx Hrng Hin) as (k & Hk & Pc).
    refine (IH _ _ _ _ _ _ _ H).
    - apply (finish d s p acc egr bd a e _ L1 [_] L2).
      apply (rewrite_pair d s p acc egr bd Hwf Hmw a e L1 x M y L2 _ _
               bx ex tx trx kbx kex by_ ey ty try kby key c k by_ kby HP Hatx Haty Pc Hk Hcu Pby
               ltac:(lia) Cby);
        try assumption; try reflexivity. congruence.
    - apply (ends_pair a0 e0 b1 el0 a e L1 x M y L2 _ _ Hends); reflexivity. }
  (* CSS *)
  rewrite (nth_js_from PP M SS x y i LP) in H.
  rewrite (nth_js_to PP M SS x y i j LP LJ) in H.
  destruct (leg_range d x) as [rf|] eqn:Hrf; [|discriminate].
  destruct (leg_range d y) as [rt|] eqn:Hrt; [|discriminate].
  cbv zeta in H.
  destruct (css_second X (css_first X rf None) rt (PP ++ x :: M ++ y :: SS) i j used ign)
    as [[js1 used1] ign1] eqn:Hcs.
  destruct (css_second_spec _ _ _ _ _ _ _ _ _ _ _ Hcs) as [->|(cx & cy & Hfirst & Hin2 & Hfrom & Hcb & ->)].
  - apply (IH _ _ _ _ _ Hok Hends H).
  - destruct (css_first_in _ _ _ _ Hfirst) as [Hno|(Hin1 & Hto & Hcu)]; [discriminate|].
    rewrite (surgery_from _ PP M SS x y i LP) in H.
    rewrite (surgery_to _ PP M SS _ y i j LP LJ) in H.
    rewrite (surgery_erase_open _ PP M SS _ _ i j LP LJ) in H.
    destruct (leg_range_in d s p x bx ex tx trx kbx kex rf cx Hwf Hatx Hrf Hin1) as (k1 & Hk1 & Pc1).
    destruct (leg_range_in d s p y by_ ey ty try kby key rt cy Hwf Haty Hrt Hin2) as (k2 & Hk2 & Pc2).
    refine (IH _ _ _ _ _ _ _ H).
    + apply (finish d s p acc egr bd a e _ L1 [_] L2).
      apply (rewrite_pair d s p acc egr bd Hwf Hmw a e L1 x M y L2 _ _
               bx ex tx trx kbx kex by_ ey ty try kby key cx k1 cy k2 HP Hatx Haty Pc1 Hk1 Hcu Pc2 Hk2 Hcb);
        try assumption; try reflexivity. congruence.
    + apply (ends_pair a0 e0 b1 el0 a e L1 x M y L2 _ _ Hends); reflexivity.
Qed.

(* the form used by Proofs/Limits.v: from the journey calc_reverse hands over to what is emitted *)
Corollary optimize_ends : forall fuel d s p acc egr bestdep a legs e b1 el js' used,
  wf_data_b d = true -> 0 <= q_minw p ->
  journey_ok_b d s p acc egr bestdep (a :: legs ++ [e]) = true ->
  first_board legs = Some b1 -> last_alight legs = Some el ->
  optimize fuel d (a :: legs ++ [e]) [] [] = OptDone js' used ->
  exists legs' el', js' = a :: legs' ++ [e] /\ first_board legs' = Some b1 /\
                    last_alight legs' = Some el' /\ c_arr el' <= c_arr el /\ c_to el' = c_to el.
Proof.
  intros fuel d s p acc egr bd a legs e b1 el js' used Hwf Hmw Hok Hfb Hla H.
  apply (optimize_ends_gen d s p acc egr bd a e b1 el Hwf Hmw fuel _ [] [] js' used Hok
           (ends_ok_init a e b1 el legs Hfb Hla) H).
Qed.

(* ---------------------------------------------------------------------------------------------- *)
(* the hypothesis 0 <= q_minw p is needed: with a negative minimum waiting time the clock may go
   back along a valid chain, and then CSL (alight earlier on the first trip, drop the detour) breaks
   the following transfer.  Trip 1 runs 0 -> 1 -> 2 (at stop 1 at 50, at stop 2 at 51); trip 2 runs
   2 -> 1 leaving at 41 (allowed after 51 - 10) and reaching stop 1 at 42; trip 3 leaves stop 1 at 32
   (allowed after 42 - 10).  CSL shortens the first leg to alight at stop 1 at 50 and erases the
   second leg; boarding trip 3 at 32 is then no longer allowed (50 - 10 > 32). *)

Definition cx_st (a dd : Z) : stoptime := {| st_arr := a; st_dep := dd; st_cb := true; st_cu := true |}.
Definition cx_self (n : nat) : nat * list fprow := (n, [ {| fp_node := n; fp_time := 0; fp_dist := 0 |} ]).
Definition cx_data : data :=
  {| d_nodes := [0; 1; 2; 3]%nat;
     d_fp := map cx_self [0; 1; 2; 3]%nat; d_rfp := map cx_self [0; 1; 2; 3]%nat;
     d_lines := [ {| l_id := 0; l_agency := 0; l_mode := 1 |} ];
     d_paths := [ {| p_id := 0; p_line := 0; p_nodes := [0; 1; 2]%nat; p_dists := [100; 100; 0] |};
                  {| p_id := 1; p_line := 0; p_nodes := [2; 1]%nat; p_dists := [100; 0] |};
                  {| p_id := 2; p_line := 0; p_nodes := [1; 3]%nat; p_dists := [100; 0] |} ];
     d_trips := [ {| t_id := 1; t_path := 0; t_service := 0; t_times := [cx_st 0 10; cx_st 50 50; cx_st 51 51] |};
                  {| t_id := 2; t_path := 1; t_service := 0; t_times := [cx_st 41 41; cx_st 42 42] |};
                  {| t_id := 3; t_path := 2; t_service := 0; t_times := [cx_st 32 32; cx_st 60 60] |} ];
     d_scenarios := [] |}.
Definition cx_scen : scenario :=
  {| s_id := 0; s_services := []; s_onlyLines := []; s_onlyModes := []; s_onlyAgencies := []; s_onlyNodes := [];
     s_exceptLines := []; s_exceptModes := []; s_exceptAgencies := []; s_exceptNodes := [] |}.
Definition cx_params : params :=
  {| q_scenario := 0; q_time := 0; q_minw := -10; q_maxtt := 10000; q_maxacc := 1000; q_maxegr := 1000;
     q_maxtr := 1000; q_maxfw := -1; q_fwd := true; q_except_lines := [] |}.
Definition cx_conn (t sq : nat) : conn := match find_conn cx_data t sq with Some c => c | None => dconn end.
Definition cx_walk : jstep :=
  {| js_enter := None; js_exit := None; js_trip := None; js_walk := 0; js_same := false; js_dist := 0 |}.
Definition cx_leg (t b e : nat) : jstep :=
  {| js_enter := Some (cx_conn t b); js_exit := Some (cx_conn t e); js_trip := Some t;
     js_walk := 0; js_same := true; js_dist := 0 |}.
Definition cx_journey : list jstep := [cx_walk; cx_leg 1 1 2; cx_leg 2 1 1; cx_leg 3 1 1; cx_walk].
Definition cx_acc : list fprow := [ {| fp_node := 0; fp_time := 0; fp_dist := 0 |} ].
Definition cx_egr : list fprow := [ {| fp_node := 3; fp_time := 0; fp_dist := 0 |} ].

Definition cx_result : list jstep := [cx_walk; set_exit (cx_leg 1 1 2) (cx_conn 1 1); cx_leg 3 1 1; cx_walk].

Example optimize_needs_nonneg_minw :
  (wf_data_b cx_data = true) /\
  (journey_ok_b cx_data cx_scen cx_params cx_acc cx_egr 0 cx_journey = true) /\
  (optimize 10 cx_data cx_journey [] [] = OptDone cx_result [1%nat]) /\
  (journey_ok_b cx_data cx_scen cx_params cx_acc cx_egr 0 cx_result = false).
Proof. vm_compute. repeat split; reflexivity. Qed.

Print Assumptions optimize_preserves.
Print Assumptions optimize_emit_valid.
Print Assumptions optimize_ends.
