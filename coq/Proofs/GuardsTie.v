(* GuardsTie.v — the model's scan step functions ARE the control skeleton instantiated with the guards that
   tools/gen_guards.py translated from the current C++ sources (gen/Guards.v, regenerated on every run).

   1. `*_sk`: the skeleton of each step function / selection loop, parametrised by its guards and label values.
   2. per-guard lemmas `gen_*_spec`: each generated guard is (extensionally, by `lia` over booleans and Z
      comparisons) the guard the model uses.  These are the lemmas a changed relational operator, a dropped or
      added conjunct or a changed sentinel in the source breaks; harmless rewrites (reordered conjuncts, `a > b`
      written `b < a`, extra parentheses) still pass.
   3. `fwd_step_tie`, `rev_step_tie`, `best_egress_tie`, `best_access_tie` (+ the all-nodes copies): skeleton
      instantiated with the generated guards = the model's function, for all arguments. *)
From Coq Require Import List ZArith Bool Lia ZifyBool.
From TrV Require Import Scan.
From TrV Require gen.Guards.
Local Open Scope Z_scope.
Local Open Scope bool_scope.

Module G := TrV.gen.Guards.

Lemma gmax : G.MAX_INT = MAX_INT. Proof. reflexivity. Qed.

(* ---------------------------------------------------------------------------------------------- *)
(* 1. skeletons                                                                                     *)

Section FwdSkeleton.
  Variables (g_first : Z -> Z -> Z -> Z -> bool) (g_enabled : bool -> bool)
            (g_break : bool -> Z -> Z -> Z -> Z -> Z -> bool)
            (g_accessed : Z -> bool -> Z -> bool -> bool)
            (g_reach : bool -> Z -> Z -> Z -> bool -> Z -> bool)
            (g_board g_unboard : bool -> bool -> bool)
            (g_egr_reached : bool -> bool -> Z -> bool)
            (g_fp_skip : bool -> Z -> Z -> bool) (g_fp_maxtr : Z -> Z -> bool) (g_fp_improve : Z -> Z -> Z -> bool)
            (g_fp_label : bool -> bool -> Z -> Z -> bool) (g_newtau : Z -> Z -> Z) (g_tent : Z -> Z).

  Definition fwd_fp_step_sk (p : params) (c : conn) (enter : option conn)
             (st : (nat -> Z) * (nat -> jstep) * (nat -> option jstep)) (r : fprow) :=
    let '(tau, steps, egr) := st in
    let a := c_to c in
    let m := fp_node r in
    let tm := tau m in
    let same := Nat.eqb a m in
    if g_fp_skip same tm (c_arr c) then st
    else if g_fp_maxtr (fp_time r) (q_maxtr p) then
      let '(tau1, steps1) :=
        if g_fp_improve (fp_time r) (c_arr c) tm
        then (upd tau m (g_newtau (fp_time r) (c_arr c)),
              upd steps m (mk_js enter (Some c) (c_trip c) (fp_time r) same (fp_dist r)))
        else (tau, steps) in
      let '(lab_none, lab_arr) :=
        match egr m with
        | None => (true, 0)
        | Some j => match js_exit j with Some e => (false, c_arr e) | None => (false, c_arr c) end
        end in
      let egr1 :=
        if g_fp_label same lab_none lab_arr (c_arr c)
        then upd egr m (Some (mk_js enter (Some c) (c_trip c) (fp_time r) true (fp_dist r)))
        else egr in
      (tau1, steps1, egr1)
    else st.

  (* route = true: forwardCalculation (egress bookkeeping); route = false: forwardCalculationAllNodes *)
  Definition fwd_step_sk (route : bool) (d : data) (p : params) (k : calc) (st : fstate) (c : conn) : fstate :=
    if f_stop st then st else
    if g_first (c_dep c) (k_dep k) (k_minAcc k) (q_minw p) then
      if g_enabled (k_disabled k (c_trip c)) then
        let minw := minw_eff p c in
        if g_break (f_reached st) (k_maxEgr k) (f_tent st) (c_dep c) (k_dep k) (q_maxtt p)
        then {| f_tau := f_tau st; f_steps := f_steps st; f_ov := f_ov st; f_egr := f_egr st;
                f_count := f_count st; f_reached := f_reached st; f_tent := f_tent st; f_stop := true |}
        else
          let ov := f_ov st (c_trip c) in
          let enter := o_enter ov in
          let tdep := f_tau st (c_from c) in
          let '(acc_found, acc_time) :=
            match row_of (c_from c) (k_accfp k) with Some r => (true, fp_time r) | None => (false, 0) end in
          let accessed := g_accessed (q_maxfw p) acc_found acc_time (is_some (js_enter (f_steps st (c_from c)))) in
          if g_reach (is_some enter) tdep (c_dep c) minw accessed (q_maxfw p)
          then
            let ov1 :=
              if g_board (c_cb c) (is_some enter)
              then {| o_usable := true; o_enter := Some c; o_enter_w := js_walk (f_steps st (c_from c));
                      o_exit := o_exit ov; o_exit_w := o_exit_w ov |}
              else ov in
            let ovm := upd (f_ov st) (c_trip c) ov1 in
            if g_unboard (c_cu c) (is_some (o_enter ov1)) then
              let '(egr_found, egr_time) :=
                match row_of (c_to c) (k_egrfp k) with Some r => (true, fp_time r) | None => (false, 0) end in
              let '(reached1, tent1) :=
                if route && g_egr_reached (f_reached st) egr_found egr_time
                then (true, g_tent (c_arr c)) else (f_reached st, f_tent st) in
              let '(tau1, steps1, egr1) :=
                fold_left (fwd_fp_step_sk p c (o_enter ov1)) (fp_of d (c_to c)) (f_tau st, f_steps st, f_egr st) in
              {| f_tau := tau1; f_steps := steps1; f_ov := ovm; f_egr := egr1;
                 f_count := f_count st + 1; f_reached := reached1; f_tent := tent1; f_stop := false |}
            else
              {| f_tau := f_tau st; f_steps := f_steps st; f_ov := ovm; f_egr := f_egr st;
                 f_count := f_count st + 1; f_reached := f_reached st; f_tent := f_tent st; f_stop := false |}
          else st
      else st
    else st.
End FwdSkeleton.

Section BestEgressSkeleton.
  Variables (g_best_time : Z -> Z -> Z) (g_best_ok : Z -> Z -> Z -> Z -> bool).
  Definition best_egress_sk (p : params) (k : calc) (st : fstate) : option (Z * nat) :=
    fold_left (fun best r =>
      match f_egr st (fp_node r) with
      | Some j =>
          match js_exit j, row_of (fp_node r) (k_egrfp k) with
          | Some e, Some er =>
              let t := g_best_time (c_arr e) (fp_time er) in
              let b := match best with Some (bt, _) => bt | None => MAX_INT end in
              if g_best_ok t (k_dep k) (q_maxtt p) b then Some (t, fp_node er) else best
          | _, _ => best
          end
      | None => best
      end) (k_egrfp k) None.
End BestEgressSkeleton.

Section RevSkeleton.
  Variables (g_first : Z -> Z -> Z -> Z -> bool) (g_enabled : bool -> bool -> bool)
            (g_break : bool -> Z -> Z -> Z -> Z -> Z -> bool)
            (g_reach : bool -> Z -> Z -> bool) (g_unboard : bool -> bool) (g_exit_first : bool -> bool)
            (g_exit_replace : bool -> Z -> Z -> bool) (g_exit_replace_time : Z -> Z -> Z -> bool)
            (g_board : bool -> bool -> bool) (g_acc_reached : bool -> bool -> Z -> bool)
            (g_fp_skip : bool -> Z -> Z -> Z -> bool) (g_fp_maxtr : Z -> Z -> bool)
            (g_fp_improve : Z -> Z -> Z -> Z -> bool)
            (g_fp_label : bool -> bool -> Z -> Z -> Z -> Z -> bool)
            (g_acc_after_dep : Z -> bool -> Z -> Z -> Z -> bool) (g_acc_cap : Z -> Z -> Z -> Z -> bool)
            (g_newtaur : Z -> Z -> Z -> Z) (g_tent : Z -> Z -> Z).

  Definition rev_fp_step_sk (p : params) (k : calc) (c : conn) (minw : Z) (exitc : option conn)
             (st : (nat -> Z) * (nat -> jstep) * (nat -> option jstep)) (r : fprow) :=
    let '(taur, steps, acc) := st in
    let a := c_from c in
    let m := fp_node r in
    let same := Nat.eqb a m in
    if g_fp_skip same (taur m) (c_dep c) minw then st
    else if g_fp_maxtr (fp_time r) (q_maxtr p) then
      let '(taur1, steps1) :=
        if g_fp_improve (c_dep c) (fp_time r) minw (taur m)
        then (upd taur m (g_newtaur (c_dep c) (fp_time r) minw),
              upd steps m (mk_js (Some c) exitc (c_trip c) (fp_time r) same (fp_dist r)))
        else (taur, steps) in
      let '(lab_none, lab_dep, lab_minw) :=
        match acc m with
        | None => (true, 0, 0)
        | Some j => match js_enter j with
                    | Some b => (false, c_dep b, minw_eff p b)
                    | None => (false, c_dep c - minw + 1, 0)      (* never stored: an access label always has its boarding *)
                    end
        end in
      let acc1 :=
        if g_fp_label same lab_none lab_dep lab_minw (c_dep c) minw
        then
          let '(acc_found, acc_time) :=
            match row_of a (k_accfp k) with Some ar => (true, fp_time ar) | None => (false, 0) end in
          if g_acc_after_dep (k_dep k) acc_found (c_dep c) acc_time minw
          then
            if g_acc_cap (k_dep k) (q_maxfw p) (c_dep c) acc_time
            then upd acc m (Some (mk_js (Some c) exitc (c_trip c) 0 true 0))
            else acc
          else acc
        else acc in
      (taur1, steps1, acc1)
    else st.

  Definition rev_step_sk (route : bool) (d : data) (p : params) (k : calc) (st : rstate) (c : conn) : rstate :=
    if r_stop st then st else
    if g_first (c_arr c) (k_arr k) (if route then k_minEgr k else 0) (q_minw p) then
      let ov := r_ov st (c_trip c) in
      if g_enabled (o_usable ov) (k_disabled k (c_trip c)) then
        if g_break (r_reached st) (k_maxAcc k) (r_tent st) (c_arr c) (k_arr k) (q_maxtt p)
        then {| r_taur := r_taur st; r_steps := r_steps st; r_ov := r_ov st; r_acc := r_acc st;
                r_count := r_count st; r_reached := r_reached st; r_tent := r_tent st; r_stop := true |}
        else
          let exitc := o_exit ov in
          let tarr := r_taur st (c_to c) in
          if g_reach (is_some exitc) tarr (c_arr c) then
            let ov1 :=
              if g_unboard (c_cu c) then
                let rs := r_steps st (c_to c) in
                if g_exit_first (is_some exitc)
                then {| o_usable := o_usable ov; o_enter := o_enter ov; o_enter_w := o_enter_w ov;
                        o_exit := Some c; o_exit_w := js_walk rs |}
                else match js_enter rs with
                     | Some b =>
                         if g_exit_replace true (js_walk rs) (o_exit_w ov) && g_exit_replace_time (c_arr c) (minw_eff p b) tarr
                         then {| o_usable := o_usable ov; o_enter := o_enter ov; o_enter_w := o_enter_w ov;
                                 o_exit := Some c; o_exit_w := js_walk rs |}
                         else ov
                     | None => ov
                     end
              else ov in
            let ovm := upd (r_ov st) (c_trip c) ov1 in
            if g_board (c_cb c) (is_some (o_exit ov1)) then
              let minw := minw_eff p c in
              let '(acc_found, acc_time) :=
                match row_of (c_from c) (k_accfp k) with Some r => (true, fp_time r) | None => (false, 0) end in
              let '(reached1, tent1) :=
                if route && g_acc_reached (r_reached st) acc_found acc_time
                then (true, g_tent (c_dep c) minw) else (r_reached st, r_tent st) in
              let '(taur1, steps1, acc1) :=
                fold_left (rev_fp_step_sk p k c minw (o_exit ov1)) (rfp_of d (c_from c))
                          (r_taur st, r_steps st, r_acc st) in
              {| r_taur := taur1; r_steps := steps1; r_ov := ovm; r_acc := acc1;
                 r_count := r_count st + 1; r_reached := reached1; r_tent := tent1; r_stop := false |}
            else
              {| r_taur := r_taur st; r_steps := r_steps st; r_ov := ovm; r_acc := r_acc st;
                 r_count := r_count st + 1; r_reached := r_reached st; r_tent := r_tent st; r_stop := false |}
          else st
      else st
    else st.
End RevSkeleton.

Section BestAccessSkeleton.
  Variables (g_best_time : Z -> Z -> Z -> Z) (g_best_ok : Z -> Z -> Z -> Z -> bool).
  Definition best_access_sk (p : params) (k : calc) (st : rstate) : option (Z * nat) :=
    fold_left (fun best r =>
      match r_acc st (fp_node r) with
      | Some j =>
          match js_enter j, row_of (fp_node r) (k_accfp k) with
          | Some b, Some ar =>
              let t := g_best_time (c_dep b) (fp_time ar) (minw_eff p b) in
              let bt := match best with Some (x, _) => x | None => -1 end in
              if g_best_ok t (k_arr k) (q_maxtt p) bt then Some (t, fp_node ar) else best
          | _, _ => best
          end
      | None => best
      end) (k_accfp k) None.
End BestAccessSkeleton.

(* ---------------------------------------------------------------------------------------------- *)
(* 2. every generated guard is the model's guard                                                    *)

Ltac gtie := intros; cbv beta delta [
  G.gen_fwd_first G.gen_fwd_enabled G.gen_fwd_break G.gen_fwd_accessed G.gen_fwd_reach G.gen_fwd_board G.gen_fwd_unboard
  G.gen_fwd_egr_reached G.gen_fwd_fp_skip G.gen_fwd_fp_maxtr G.gen_fwd_fp_improve G.gen_fwd_fp_label G.gen_fwd_newtau
  G.gen_fwd_best_time G.gen_fwd_best_ok G.gen_fwd_tent G.gen_rev_tent G.gen_alt_seq_init G.gen_alt_count_init G.gen_alt_cont
  G.gen_fwdall_first G.gen_fwdall_enabled G.gen_fwdall_break G.gen_fwdall_accessed G.gen_fwdall_reach G.gen_fwdall_board
  G.gen_fwdall_unboard G.gen_fwdall_fp_skip G.gen_fwdall_fp_maxtr G.gen_fwdall_fp_improve G.gen_fwdall_fp_label G.gen_fwdall_newtau
  G.gen_rev_first G.gen_rev_enabled G.gen_rev_break G.gen_rev_reach G.gen_rev_unboard G.gen_rev_exit_first G.gen_rev_exit_replace
  G.gen_rev_exit_replace_time G.gen_rev_board G.gen_rev_acc_reached G.gen_rev_fp_skip G.gen_rev_fp_maxtr G.gen_rev_fp_improve
  G.gen_rev_fp_label G.gen_rev_acc_after_dep G.gen_rev_acc_cap G.gen_rev_newtaur G.gen_rev_best_time G.gen_rev_best_ok
  G.gen_revall_first G.gen_revall_enabled G.gen_revall_break G.gen_revall_reach G.gen_revall_unboard G.gen_revall_exit_first
  G.gen_revall_exit_replace G.gen_revall_exit_replace_time G.gen_revall_board G.gen_revall_fp_skip G.gen_revall_fp_maxtr
  G.gen_revall_fp_improve G.gen_revall_fp_label G.gen_revall_acc_after_dep G.gen_revall_acc_cap G.gen_revall_newtaur
  G.MAX_INT MAX_INT]; lia.

(* forward, route copy (forwardCalculation) *)
Lemma gen_fwd_first_spec cdep kdep minacc qminw : G.gen_fwd_first cdep kdep minacc qminw = (cdep >=? kdep + minacc). Proof. gtie. Qed.
Lemma gen_fwd_enabled_spec dis : G.gen_fwd_enabled dis = negb dis. Proof. gtie. Qed.
Lemma gen_fwd_break_spec reached maxegr tent cdep kdep maxtt :
  G.gen_fwd_break reached maxegr tent cdep kdep maxtt =
  ((reached && (maxegr >=? 0) && (tent <? MAX_INT) && (cdep >? tent + maxegr)) || (cdep - kdep >? maxtt)). Proof. gtie. Qed.
Lemma gen_fwd_accessed_spec maxfw found time has :
  G.gen_fwd_accessed maxfw found time has = ((maxfw >? 0) && (found && (time >=? 0)) && negb has). Proof. gtie. Qed.
Lemma gen_fwd_reach_spec enter tdep cdep minw accessed maxfw :
  G.gen_fwd_reach enter tdep cdep minw accessed maxfw =
  ((enter || (tdep <=? cdep - minw)) && (negb accessed || (cdep - tdep <=? maxfw))). Proof. gtie. Qed.
Lemma gen_fwd_board_spec cb enter : G.gen_fwd_board cb enter = (cb && negb enter). Proof. gtie. Qed.
Lemma gen_fwd_unboard_spec cu enter1 : G.gen_fwd_unboard cu enter1 = (cu && enter1). Proof. gtie. Qed.
Lemma gen_fwd_egr_reached_spec reached found time :
  G.gen_fwd_egr_reached reached found time = (negb reached && (found && negb (time =? -1))). Proof. gtie. Qed.
Lemma gen_fwd_fp_skip_spec same tm carr : G.gen_fwd_fp_skip same tm carr = (negb same && (tm <? carr)). Proof. gtie. Qed.
Lemma gen_fwd_fp_maxtr_spec w maxtr : G.gen_fwd_fp_maxtr w maxtr = (w <=? maxtr). Proof. gtie. Qed.
Lemma gen_fwd_fp_improve_spec w carr tm : G.gen_fwd_fp_improve w carr tm = (w + carr <? tm). Proof. gtie. Qed.
Lemma gen_fwd_fp_label_spec same none larr carr :
  G.gen_fwd_fp_label same none larr carr = (same && (none || (larr >? carr))). Proof. gtie. Qed.
Lemma gen_fwd_newtau_spec w carr : G.gen_fwd_newtau w carr = w + carr. Proof. gtie. Qed.
Lemma gen_fwd_tent_spec carr : G.gen_fwd_tent carr = carr. Proof. gtie. Qed.
Lemma gen_fwd_best_time_spec a t : G.gen_fwd_best_time a t = a + t. Proof. gtie. Qed.
Lemma gen_fwd_best_ok_spec t kdep maxtt best :
  G.gen_fwd_best_ok t kdep maxtt best = ((t >=? 0) && (t - kdep <=? maxtt) && (t <? best) && (t <? MAX_INT)). Proof. gtie. Qed.

(* forward, all-nodes copy (forwardCalculationAllNodes) *)
Lemma gen_fwdall_first_spec cdep kdep minacc qminw : G.gen_fwdall_first cdep kdep minacc qminw = (cdep >=? kdep + minacc). Proof. gtie. Qed.
Lemma gen_fwdall_enabled_spec dis : G.gen_fwdall_enabled dis = negb dis. Proof. gtie. Qed.
Lemma gen_fwdall_break_spec reached maxegr tent cdep kdep maxtt :
  G.gen_fwdall_break reached maxegr tent cdep kdep maxtt = (cdep - kdep >? maxtt). Proof. gtie. Qed.
Lemma gen_fwdall_accessed_spec maxfw found time has :
  G.gen_fwdall_accessed maxfw found time has = ((maxfw >? 0) && (found && (time >=? 0)) && negb has). Proof. gtie. Qed.
Lemma gen_fwdall_reach_spec enter tdep cdep minw accessed maxfw :
  G.gen_fwdall_reach enter tdep cdep minw accessed maxfw =
  ((enter || (tdep <=? cdep - minw)) && (negb accessed || (cdep - tdep <=? maxfw))). Proof. gtie. Qed.
Lemma gen_fwdall_board_spec cb enter : G.gen_fwdall_board cb enter = (cb && negb enter). Proof. gtie. Qed.
Lemma gen_fwdall_unboard_spec cu enter1 : G.gen_fwdall_unboard cu enter1 = (cu && enter1). Proof. gtie. Qed.
Lemma gen_fwdall_fp_skip_spec same tm carr : G.gen_fwdall_fp_skip same tm carr = (negb same && (tm <? carr)). Proof. gtie. Qed.
Lemma gen_fwdall_fp_maxtr_spec w maxtr : G.gen_fwdall_fp_maxtr w maxtr = (w <=? maxtr). Proof. gtie. Qed.
Lemma gen_fwdall_fp_improve_spec w carr tm : G.gen_fwdall_fp_improve w carr tm = (w + carr <? tm). Proof. gtie. Qed.
Lemma gen_fwdall_fp_label_spec same none larr carr :
  G.gen_fwdall_fp_label same none larr carr = (same && (none || (larr >? carr))). Proof. gtie. Qed.
Lemma gen_fwdall_newtau_spec w carr : G.gen_fwdall_newtau w carr = w + carr. Proof. gtie. Qed.

(* reverse, route copy (reverseCalculation) *)
Lemma gen_rev_first_spec carr karr minegr qminw : G.gen_rev_first carr karr minegr qminw = (carr <=? karr - minegr). Proof. gtie. Qed.
Lemma gen_rev_enabled_spec us dis : G.gen_rev_enabled us dis = (us && negb dis). Proof. gtie. Qed.
Lemma gen_rev_break_spec reached maxacc tent carr karr maxtt :
  G.gen_rev_break reached maxacc tent carr karr maxtt =
  ((reached && (maxacc >=? 0) && (carr <? tent - maxacc)) || (karr - carr >? maxtt)). Proof. gtie. Qed.
Lemma gen_rev_reach_spec ex tarr carr : G.gen_rev_reach ex tarr carr = (ex || (tarr >=? carr)). Proof. gtie. Qed.
Lemma gen_rev_unboard_spec cu : G.gen_rev_unboard cu = cu. Proof. gtie. Qed.
Lemma gen_rev_exit_first_spec ex : G.gen_rev_exit_first ex = negb ex. Proof. gtie. Qed.
Lemma gen_rev_exit_replace_spec has w ew : G.gen_rev_exit_replace has w ew = (has && ((w >=? 0) && (w <? ew))). Proof. gtie. Qed.
Lemma gen_rev_exit_replace_time_spec carr jm tarr : G.gen_rev_exit_replace_time carr jm tarr = (carr + jm <=? tarr). Proof. gtie. Qed.
Lemma gen_rev_board_spec cb ex1 : G.gen_rev_board cb ex1 = (cb && ex1). Proof. gtie. Qed.
Lemma gen_rev_acc_reached_spec reached found time :
  G.gen_rev_acc_reached reached found time = (negb reached && (found && negb (time =? -1))). Proof. gtie. Qed.
Lemma gen_rev_fp_skip_spec same tm cdep minw : G.gen_rev_fp_skip same tm cdep minw = (negb same && (tm >? cdep - minw)). Proof. gtie. Qed.
Lemma gen_rev_fp_maxtr_spec w maxtr : G.gen_rev_fp_maxtr w maxtr = (w <=? maxtr). Proof. gtie. Qed.
Lemma gen_rev_fp_improve_spec cdep w minw tm : G.gen_rev_fp_improve cdep w minw tm = (cdep - w - minw >? tm). Proof. gtie. Qed.
Lemma gen_rev_fp_label_spec same none ldep lminw cdep minw :
  G.gen_rev_fp_label same none ldep lminw cdep minw = (same && (none || (ldep - lminw <=? cdep - minw))). Proof. gtie. Qed.
Lemma gen_rev_acc_after_dep_spec kdep found cdep time minw :
  G.gen_rev_acc_after_dep kdep found cdep time minw = ((kdep =? -1) || (found && (cdep - time - minw >=? kdep))). Proof. gtie. Qed.
Lemma gen_rev_acc_cap_spec kdep maxfw cdep time :
  G.gen_rev_acc_cap kdep maxfw cdep time = ((kdep =? -1) || (maxfw <=? 0) || (cdep - kdep - time <=? maxfw)). Proof. gtie. Qed.
Lemma gen_rev_newtaur_spec cdep w minw : G.gen_rev_newtaur cdep w minw = cdep - w - minw. Proof. gtie. Qed.
Lemma gen_rev_tent_spec cdep minw : G.gen_rev_tent cdep minw = cdep - minw. Proof. gtie. Qed.
Lemma gen_rev_best_time_spec dep time minw : G.gen_rev_best_time dep time minw = dep - time - minw. Proof. gtie. Qed.
Lemma gen_rev_best_ok_spec t karr maxtt best :
  G.gen_rev_best_ok t karr maxtt best = ((t >=? 0) && (karr - t <=? maxtt) && (t >? best) && (t <? MAX_INT)). Proof. gtie. Qed.

(* reverse, all-nodes copy (reverseCalculationAllNodes): no minimum-egress offset, no access early termination *)
Lemma gen_revall_first_spec carr karr minegr qminw : G.gen_revall_first carr karr minegr qminw = (carr <=? karr). Proof. gtie. Qed.
Lemma gen_revall_enabled_spec us dis : G.gen_revall_enabled us dis = (us && negb dis). Proof. gtie. Qed.
Lemma gen_revall_break_spec reached maxacc tent carr karr maxtt :
  G.gen_revall_break reached maxacc tent carr karr maxtt = (karr - carr >? maxtt). Proof. gtie. Qed.
Lemma gen_revall_reach_spec ex tarr carr : G.gen_revall_reach ex tarr carr = (ex || (tarr >=? carr)). Proof. gtie. Qed.
Lemma gen_revall_unboard_spec cu : G.gen_revall_unboard cu = cu. Proof. gtie. Qed.
Lemma gen_revall_exit_first_spec ex : G.gen_revall_exit_first ex = negb ex. Proof. gtie. Qed.
Lemma gen_revall_exit_replace_spec has w ew : G.gen_revall_exit_replace has w ew = (has && ((w >=? 0) && (w <? ew))). Proof. gtie. Qed.
Lemma gen_revall_exit_replace_time_spec carr jm tarr : G.gen_revall_exit_replace_time carr jm tarr = (carr + jm <=? tarr). Proof. gtie. Qed.
Lemma gen_revall_board_spec cb ex1 : G.gen_revall_board cb ex1 = (cb && ex1). Proof. gtie. Qed.
Lemma gen_revall_fp_skip_spec same tm cdep minw : G.gen_revall_fp_skip same tm cdep minw = (negb same && (tm >? cdep - minw)). Proof. gtie. Qed.
Lemma gen_revall_fp_maxtr_spec w maxtr : G.gen_revall_fp_maxtr w maxtr = (w <=? maxtr). Proof. gtie. Qed.
Lemma gen_revall_fp_improve_spec cdep w minw tm : G.gen_revall_fp_improve cdep w minw tm = (cdep - w - minw >? tm). Proof. gtie. Qed.
Lemma gen_revall_fp_label_spec same none ldep lminw cdep minw :
  G.gen_revall_fp_label same none ldep lminw cdep minw = (same && (none || (ldep - lminw <=? cdep - minw))). Proof. gtie. Qed.
Lemma gen_revall_acc_after_dep_spec kdep found cdep time minw :
  G.gen_revall_acc_after_dep kdep found cdep time minw = ((kdep =? -1) || (found && (cdep - time - minw >=? kdep))). Proof. gtie. Qed.
Lemma gen_revall_acc_cap_spec kdep maxfw cdep time :
  G.gen_revall_acc_cap kdep maxfw cdep time = ((kdep =? -1) || (maxfw <=? 0) || (cdep - kdep - time <=? maxfw)). Proof. gtie. Qed.
Lemma gen_revall_newtaur_spec cdep w minw : G.gen_revall_newtaur cdep w minw = cdep - w - minw. Proof. gtie. Qed.

(* ---------------------------------------------------------------------------------------------- *)
(* 3. the model's functions are the skeletons instantiated with ANY guards extensionally equal to the
      canonical ones, hence with the generated guards                                                  *)

Lemma gtb_irrefl x : (x >? x) = false.
Proof. lia. Qed.

Section FwdTie.
  Variables (g_first : Z -> Z -> Z -> Z -> bool) (g_enabled : bool -> bool)
            (g_break : bool -> Z -> Z -> Z -> Z -> Z -> bool)
            (g_accessed : Z -> bool -> Z -> bool -> bool)
            (g_reach : bool -> Z -> Z -> Z -> bool -> Z -> bool)
            (g_board g_unboard : bool -> bool -> bool)
            (g_egr_reached : bool -> bool -> Z -> bool)
            (g_fp_skip : bool -> Z -> Z -> bool) (g_fp_maxtr : Z -> Z -> bool) (g_fp_improve : Z -> Z -> Z -> bool)
            (g_fp_label : bool -> bool -> Z -> Z -> bool) (g_newtau : Z -> Z -> Z) (g_tent : Z -> Z).
  Variable route : bool.
  Hypothesis H_tent : route = true -> forall carr, g_tent carr = carr.
  Hypothesis H_first : forall cdep kdep minacc qminw, g_first cdep kdep minacc qminw = (cdep >=? kdep + minacc).
  Hypothesis H_enabled : forall dis, g_enabled dis = negb dis.
  Hypothesis H_break : forall reached maxegr tent cdep kdep maxtt,
    g_break reached maxegr tent cdep kdep maxtt =
    ((route && reached && (maxegr >=? 0) && (tent <? MAX_INT) && (cdep >? tent + maxegr)) || (cdep - kdep >? maxtt)).
  Hypothesis H_accessed : forall maxfw found time has,
    g_accessed maxfw found time has = ((maxfw >? 0) && (found && (time >=? 0)) && negb has).
  Hypothesis H_reach : forall enter tdep cdep minw accessed maxfw,
    g_reach enter tdep cdep minw accessed maxfw = ((enter || (tdep <=? cdep - minw)) && (negb accessed || (cdep - tdep <=? maxfw))).
  Hypothesis H_board : forall cb enter, g_board cb enter = (cb && negb enter).
  Hypothesis H_unboard : forall cu enter1, g_unboard cu enter1 = (cu && enter1).
  Hypothesis H_egr_reached : route = true -> forall reached found time,
    g_egr_reached reached found time = (negb reached && (found && negb (time =? -1))).
  Hypothesis H_fp_skip : forall same tm carr, g_fp_skip same tm carr = (negb same && (tm <? carr)).
  Hypothesis H_fp_maxtr : forall w maxtr, g_fp_maxtr w maxtr = (w <=? maxtr).
  Hypothesis H_fp_improve : forall w carr tm, g_fp_improve w carr tm = (w + carr <? tm).
  Hypothesis H_fp_label : forall same none larr carr, g_fp_label same none larr carr = (same && (none || (larr >? carr))).
  Hypothesis H_newtau : forall w carr, g_newtau w carr = w + carr.

  Lemma fwd_fp_step_sk_eq p c enter st r :
    fwd_fp_step_sk g_fp_skip g_fp_maxtr g_fp_improve g_fp_label g_newtau p c enter st r = fwd_fp_step p c enter st r.
  Proof.
    destruct st as [[tau steps] egr]. unfold fwd_fp_step_sk, fwd_fp_step.
    rewrite H_fp_skip, H_fp_maxtr, H_fp_improve, H_newtau.
    destruct (egr (fp_node r)) as [j|]; [destruct (js_exit j) as [e|]|]; rewrite H_fp_label;
      cbn [orb]; rewrite ?gtb_irrefl; reflexivity.
  Qed.

  Lemma fwd_fp_fold_sk_eq p c enter : forall rows st,
    fold_left (fwd_fp_step_sk g_fp_skip g_fp_maxtr g_fp_improve g_fp_label g_newtau p c enter) rows st =
    fold_left (fwd_fp_step p c enter) rows st.
  Proof.
    induction rows as [|r rows IH]; intros st; cbn [fold_left]; [reflexivity|].
    rewrite fwd_fp_step_sk_eq. apply IH.
  Qed.

  Lemma fwd_step_sk_eq d p k st c :
    fwd_step_sk g_first g_enabled g_break g_accessed g_reach g_board g_unboard g_egr_reached
                g_fp_skip g_fp_maxtr g_fp_improve g_fp_label g_newtau g_tent route d p k st c
    = fwd_step d p k (negb route) st c.
  Proof.
    unfold fwd_step_sk, fwd_step.
    rewrite H_first, H_enabled, H_break. rewrite negb_involutive.
    destruct (f_stop st); [reflexivity|].
    destruct (c_dep c >=? k_dep k + k_minAcc k); [|reflexivity].
    destruct (k_disabled k (c_trip c)); cbn [negb]; [reflexivity|].
    destruct ((route && f_reached st && (k_maxEgr k >=? 0) && (f_tent st <? MAX_INT) && (c_dep c >? f_tent st + k_maxEgr k))
              || (c_dep c - k_dep k >? q_maxtt p)); [reflexivity|].
    destruct (row_of (c_from c) (k_accfp k)) as [ar|]; rewrite H_accessed, H_reach, H_board; cbn [andb].
    - destruct ((is_some (o_enter (f_ov st (c_trip c))) || (f_tau st (c_from c) <=? c_dep c - minw_eff p c)) &&
                (negb ((q_maxfw p >? 0) && (fp_time ar >=? 0) && negb (is_some (js_enter (f_steps st (c_from c))))) ||
                 (c_dep c - f_tau st (c_from c) <=? q_maxfw p))); [|reflexivity].
      rewrite H_unboard.
      match goal with |- (if ?b then _ else _) = _ => destruct b end; [|reflexivity].
      rewrite fwd_fp_fold_sk_eq.
      destruct route; [|destruct (row_of (c_to c) (k_egrfp k)); reflexivity].
      destruct (row_of (c_to c) (k_egrfp k)) as [er|]; rewrite (H_egr_reached eq_refl), ?(H_tent eq_refl); cbn [andb]; rewrite ?andb_assoc; reflexivity.
    - rewrite !andb_false_r. cbn [andb negb orb]. rewrite !andb_true_r.
      destruct (is_some (o_enter (f_ov st (c_trip c))) || (f_tau st (c_from c) <=? c_dep c - minw_eff p c)); [|reflexivity].
      rewrite H_unboard.
      match goal with |- (if ?b then _ else _) = _ => destruct b end; [|reflexivity].
      rewrite fwd_fp_fold_sk_eq.
      destruct route; [|destruct (row_of (c_to c) (k_egrfp k)); reflexivity].
      destruct (row_of (c_to c) (k_egrfp k)) as [er|]; rewrite (H_egr_reached eq_refl), ?(H_tent eq_refl); cbn [andb]; rewrite ?andb_assoc; reflexivity.
  Qed.
End FwdTie.

(* the exit bookkeeping of rev_step, named so that the big term is not duplicated in goals *)
Definition ov1_model (p : params) (st : rstate) (c : conn) : tqd :=
  let ov := r_ov st (c_trip c) in
  let exitc := o_exit ov in
  let tarr := r_taur st (c_to c) in
  if c_cu c then
    let rs := r_steps st (c_to c) in
    if negb (is_some exitc)
    then {| o_usable := o_usable ov; o_enter := o_enter ov; o_enter_w := o_enter_w ov;
            o_exit := Some c; o_exit_w := js_walk rs |}
    else match js_enter rs with
         | Some b =>
             if (js_walk rs >=? 0) && (js_walk rs <? o_exit_w ov) && (c_arr c + minw_eff p b <=? tarr)
             then {| o_usable := o_usable ov; o_enter := o_enter ov; o_enter_w := o_enter_w ov;
                     o_exit := Some c; o_exit_w := js_walk rs |}
             else ov
         | None => ov
         end
  else ov.

Section RevTie.
  Variables (g_first : Z -> Z -> Z -> Z -> bool) (g_enabled : bool -> bool -> bool)
            (g_break : bool -> Z -> Z -> Z -> Z -> Z -> bool)
            (g_reach : bool -> Z -> Z -> bool) (g_unboard : bool -> bool) (g_exit_first : bool -> bool)
            (g_exit_replace : bool -> Z -> Z -> bool) (g_exit_replace_time : Z -> Z -> Z -> bool)
            (g_board : bool -> bool -> bool) (g_acc_reached : bool -> bool -> Z -> bool)
            (g_fp_skip : bool -> Z -> Z -> Z -> bool) (g_fp_maxtr : Z -> Z -> bool)
            (g_fp_improve : Z -> Z -> Z -> Z -> bool)
            (g_fp_label : bool -> bool -> Z -> Z -> Z -> Z -> bool)
            (g_acc_after_dep : Z -> bool -> Z -> Z -> Z -> bool) (g_acc_cap : Z -> Z -> Z -> Z -> bool)
            (g_newtaur : Z -> Z -> Z -> Z) (g_tent : Z -> Z -> Z).
  Variable route : bool.
  Hypothesis H_tent : route = true -> forall cdep minw, g_tent cdep minw = cdep - minw.
  Hypothesis H_first : forall carr karr minegr qminw, g_first carr karr minegr qminw = (carr <=? karr - (if route then minegr else 0)).
  Hypothesis H_enabled : forall us dis, g_enabled us dis = (us && negb dis).
  Hypothesis H_break : forall reached maxacc tent carr karr maxtt,
    g_break reached maxacc tent carr karr maxtt =
    ((route && reached && (maxacc >=? 0) && (carr <? tent - maxacc)) || (karr - carr >? maxtt)).
  Hypothesis H_reach : forall ex tarr carr, g_reach ex tarr carr = (ex || (tarr >=? carr)).
  Hypothesis H_unboard : forall cu, g_unboard cu = cu.
  Hypothesis H_exit_first : forall ex, g_exit_first ex = negb ex.
  Hypothesis H_exit_replace : forall has w ew, g_exit_replace has w ew = (has && ((w >=? 0) && (w <? ew))).
  Hypothesis H_exit_replace_time : forall carr jm tarr, g_exit_replace_time carr jm tarr = (carr + jm <=? tarr).
  Hypothesis H_board : forall cb ex1, g_board cb ex1 = (cb && ex1).
  Hypothesis H_acc_reached : route = true -> forall reached found time,
    g_acc_reached reached found time = (negb reached && (found && negb (time =? -1))).
  Hypothesis H_fp_skip : forall same tm cdep minw, g_fp_skip same tm cdep minw = (negb same && (tm >? cdep - minw)).
  Hypothesis H_fp_maxtr : forall w maxtr, g_fp_maxtr w maxtr = (w <=? maxtr).
  Hypothesis H_fp_improve : forall cdep w minw tm, g_fp_improve cdep w minw tm = (cdep - w - minw >? tm).
  Hypothesis H_fp_label : forall same none ldep lminw cdep minw,
    g_fp_label same none ldep lminw cdep minw = (same && (none || (ldep - lminw <=? cdep - minw))).
  Hypothesis H_acc_after_dep : forall kdep found cdep time minw,
    g_acc_after_dep kdep found cdep time minw = ((kdep =? -1) || (found && (cdep - time - minw >=? kdep))).
  Hypothesis H_acc_cap : forall kdep maxfw cdep time,
    g_acc_cap kdep maxfw cdep time = ((kdep =? -1) || (maxfw <=? 0) || (cdep - kdep - time <=? maxfw)).
  Hypothesis H_newtaur : forall cdep w minw, g_newtaur cdep w minw = cdep - w - minw.

  Lemma leb_succ_false x : (x + 1 - 0 <=? x) = false.
  Proof. lia. Qed.

  Lemma rev_fp_step_sk_eq p k c minw exitc st r :
    rev_fp_step_sk g_fp_skip g_fp_maxtr g_fp_improve g_fp_label g_acc_after_dep g_acc_cap g_newtaur p k c minw exitc st r
    = rev_fp_step p k c minw exitc st r.
  Proof.
    destruct st as [[taur steps] acc]. unfold rev_fp_step_sk, rev_fp_step.
    rewrite H_fp_skip, H_fp_maxtr, H_fp_improve, H_newtaur.
    destruct (negb (Nat.eqb (c_from c) (fp_node r)) && (taur (fp_node r) >? c_dep c - minw)); [reflexivity|].
    destruct (fp_time r <=? q_maxtr p); [|reflexivity].
    destruct (acc (fp_node r)) as [j|] eqn:EA; [destruct (js_enter j) as [b|] eqn:EJ|];
      rewrite H_fp_label in *; cbn [orb] in *; rewrite ?leb_succ_false in *;
      (destruct (row_of (c_from c) (k_accfp k)) as [ar|]; rewrite H_acc_after_dep, H_acc_cap; cbn [andb orb];
       [reflexivity|]);
      rewrite ?orb_false_r;
      destruct (k_dep k =? -1); cbn [orb]; reflexivity.
  Qed.

  Lemma rev_fp_fold_sk_eq p k c minw exitc : forall rows st,
    fold_left (rev_fp_step_sk g_fp_skip g_fp_maxtr g_fp_improve g_fp_label g_acc_after_dep g_acc_cap g_newtaur p k c minw exitc) rows st =
    fold_left (rev_fp_step p k c minw exitc) rows st.
  Proof.
    induction rows as [|r rows IH]; intros st; cbn [fold_left]; [reflexivity|].
    rewrite rev_fp_step_sk_eq. apply IH.
  Qed.

  Lemma rev_step_sk_eq d p k st c :
    rev_step_sk g_first g_enabled g_break g_reach g_unboard g_exit_first g_exit_replace g_exit_replace_time g_board
                g_acc_reached g_fp_skip g_fp_maxtr g_fp_improve g_fp_label g_acc_after_dep g_acc_cap g_newtaur g_tent
                route d p k st c
    = rev_step d p k (negb route) st c.
  Proof.
    unfold rev_step_sk, rev_step.
    rewrite H_first, H_enabled, H_break, H_reach, H_unboard, H_exit_first, negb_involutive.
    destruct (r_stop st); [reflexivity|].
    assert (E0 : (if negb route then 0 else k_minEgr k) = (if route then (if route then k_minEgr k else 0) else 0)).
    { destruct route; reflexivity. }
    rewrite E0.
    destruct (c_arr c <=? k_arr k - (if route then if route then k_minEgr k else 0 else 0)); [|reflexivity].
    destruct (o_usable (r_ov st (c_trip c)) && negb (k_disabled k (c_trip c))); [|reflexivity].
    destruct ((route && r_reached st && (k_maxAcc k >=? 0) && (c_arr c <? r_tent st - k_maxAcc k))
              || (k_arr k - c_arr c >? q_maxtt p)); [reflexivity|].
    destruct (is_some (o_exit (r_ov st (c_trip c))) || (r_taur st (c_to c) >=? c_arr c)); [|reflexivity].
    assert (EOV :
      (if c_cu c
       then if negb (is_some (o_exit (r_ov st (c_trip c))))
            then {| o_usable := o_usable (r_ov st (c_trip c)); o_enter := o_enter (r_ov st (c_trip c));
                    o_enter_w := o_enter_w (r_ov st (c_trip c)); o_exit := Some c;
                    o_exit_w := js_walk (r_steps st (c_to c)) |}
            else match js_enter (r_steps st (c_to c)) with
                 | Some b =>
                     if g_exit_replace true (js_walk (r_steps st (c_to c))) (o_exit_w (r_ov st (c_trip c))) &&
                        g_exit_replace_time (c_arr c) (minw_eff p b) (r_taur st (c_to c))
                     then {| o_usable := o_usable (r_ov st (c_trip c)); o_enter := o_enter (r_ov st (c_trip c));
                             o_enter_w := o_enter_w (r_ov st (c_trip c)); o_exit := Some c;
                             o_exit_w := js_walk (r_steps st (c_to c)) |}
                     else r_ov st (c_trip c)
                 | None => r_ov st (c_trip c)
                 end
       else r_ov st (c_trip c)) = ov1_model p st c).
    { unfold ov1_model. destruct (c_cu c); [|reflexivity].
      destruct (negb (is_some (o_exit (r_ov st (c_trip c))))); [reflexivity|].
      destruct (js_enter (r_steps st (c_to c))) as [b|]; [|reflexivity].
      rewrite H_exit_replace, H_exit_replace_time. cbn [andb]. rewrite ?andb_assoc. reflexivity. }
    rewrite EOV. fold (ov1_model p st c).
    rewrite H_board.
    destruct (c_cb c && is_some (o_exit (ov1_model p st c))); [|reflexivity].
    rewrite rev_fp_fold_sk_eq.
    destruct route; [|destruct (row_of (c_from c) (k_accfp k)); reflexivity].
    destruct (row_of (c_from c) (k_accfp k)) as [ar|]; rewrite (H_acc_reached eq_refl), ?(H_tent eq_refl); cbn [andb]; rewrite ?andb_assoc; reflexivity.
  Qed.
End RevTie.

Section BestTie.
  Variables (gf_time : Z -> Z -> Z) (gf_ok : Z -> Z -> Z -> Z -> bool)
            (gr_time : Z -> Z -> Z -> Z) (gr_ok : Z -> Z -> Z -> Z -> bool).
  Hypothesis Hf_time : forall a t, gf_time a t = a + t.
  Hypothesis Hf_ok : forall t kdep maxtt best,
    gf_ok t kdep maxtt best = ((t >=? 0) && (t - kdep <=? maxtt) && (t <? best) && (t <? MAX_INT)).
  Hypothesis Hr_time : forall dep time minw, gr_time dep time minw = dep - time - minw.
  Hypothesis Hr_ok : forall t karr maxtt best,
    gr_ok t karr maxtt best = ((t >=? 0) && (karr - t <=? maxtt) && (t >? best) && (t <? MAX_INT)).

  Lemma fold_left_ext_eq {A B} (f g : A -> B -> A) : (forall a b, f a b = g a b) ->
    forall l a, fold_left f l a = fold_left g l a.
  Proof. intros H l. induction l as [|x l IH]; intros a; cbn [fold_left]; [reflexivity|]. rewrite H. apply IH. Qed.

  Lemma best_egress_sk_eq p k st : best_egress_sk gf_time gf_ok p k st = best_egress p k st.
  Proof.
    unfold best_egress_sk, best_egress. apply fold_left_ext_eq. intros b0 r.
    destruct (f_egr st (fp_node r)) as [j|]; [|reflexivity].
    destruct (js_exit j) as [e|]; [|reflexivity].
    destruct (row_of (fp_node r) (k_egrfp k)) as [er|]; [|reflexivity].
    rewrite Hf_time, Hf_ok. reflexivity.
  Qed.

  Lemma best_access_sk_eq p k st : best_access_sk gr_time gr_ok p k st = best_access p k st.
  Proof.
    unfold best_access_sk, best_access. apply fold_left_ext_eq. intros b0 r.
    destruct (r_acc st (fp_node r)) as [j|]; [|reflexivity].
    destruct (js_enter j) as [b|]; [|reflexivity].
    destruct (row_of (fp_node r) (k_accfp k)) as [ar|]; [|reflexivity].
    rewrite Hr_time, Hr_ok. reflexivity.
  Qed.
End BestTie.

(* ---------------------------------------------------------------------------------------------- *)
(* 4. instantiation with the guards generated from the current sources                              *)

Definition fwd_step_code (d : data) (p : params) (k : calc) (st : fstate) (c : conn) : fstate :=
  fwd_step_sk G.gen_fwd_first G.gen_fwd_enabled G.gen_fwd_break G.gen_fwd_accessed G.gen_fwd_reach G.gen_fwd_board
              G.gen_fwd_unboard G.gen_fwd_egr_reached G.gen_fwd_fp_skip G.gen_fwd_fp_maxtr G.gen_fwd_fp_improve
              G.gen_fwd_fp_label G.gen_fwd_newtau G.gen_fwd_tent true d p k st c.
Definition fwdall_step_code (d : data) (p : params) (k : calc) (st : fstate) (c : conn) : fstate :=
  fwd_step_sk G.gen_fwdall_first G.gen_fwdall_enabled G.gen_fwdall_break G.gen_fwdall_accessed G.gen_fwdall_reach
              G.gen_fwdall_board G.gen_fwdall_unboard (fun _ _ _ => false) G.gen_fwdall_fp_skip G.gen_fwdall_fp_maxtr
              G.gen_fwdall_fp_improve G.gen_fwdall_fp_label G.gen_fwdall_newtau (fun x => x) false d p k st c.
Definition rev_step_code (d : data) (p : params) (k : calc) (st : rstate) (c : conn) : rstate :=
  rev_step_sk G.gen_rev_first G.gen_rev_enabled G.gen_rev_break G.gen_rev_reach G.gen_rev_unboard G.gen_rev_exit_first
              G.gen_rev_exit_replace G.gen_rev_exit_replace_time G.gen_rev_board G.gen_rev_acc_reached G.gen_rev_fp_skip
              G.gen_rev_fp_maxtr G.gen_rev_fp_improve G.gen_rev_fp_label G.gen_rev_acc_after_dep G.gen_rev_acc_cap
              G.gen_rev_newtaur G.gen_rev_tent true d p k st c.
Definition revall_step_code (d : data) (p : params) (k : calc) (st : rstate) (c : conn) : rstate :=
  rev_step_sk G.gen_revall_first G.gen_revall_enabled G.gen_revall_break G.gen_revall_reach G.gen_revall_unboard
              G.gen_revall_exit_first G.gen_revall_exit_replace G.gen_revall_exit_replace_time G.gen_revall_board
              (fun _ _ _ => false) G.gen_revall_fp_skip G.gen_revall_fp_maxtr G.gen_revall_fp_improve G.gen_revall_fp_label
              G.gen_revall_acc_after_dep G.gen_revall_acc_cap G.gen_revall_newtaur (fun x _ => x) false d p k st c.

(* the model's forward step (route query) is the skeleton with the guards of forwardCalculation as they are written now *)
Theorem fwd_step_tie : forall d p k st c, fwd_step_code d p k st c = fwd_step d p k false st c.
Proof.
  intros. unfold fwd_step_code.
  apply (fwd_step_sk_eq _ _ _ _ _ _ _ _ _ _ _ _ _ _ true); intros.
  - apply gen_fwd_tent_spec. - apply gen_fwd_first_spec. - apply gen_fwd_enabled_spec. - rewrite gen_fwd_break_spec. reflexivity.
  - apply gen_fwd_accessed_spec. - apply gen_fwd_reach_spec. - apply gen_fwd_board_spec. - apply gen_fwd_unboard_spec.
  - apply gen_fwd_egr_reached_spec. - apply gen_fwd_fp_skip_spec. - apply gen_fwd_fp_maxtr_spec.
  - apply gen_fwd_fp_improve_spec. - apply gen_fwd_fp_label_spec. - apply gen_fwd_newtau_spec.
Qed.

(* ... and for accessibility queries, with the guards of forwardCalculationAllNodes *)
Theorem fwdall_step_tie : forall d p k st c, fwdall_step_code d p k st c = fwd_step d p k true st c.
Proof.
  intros. unfold fwdall_step_code.
  apply (fwd_step_sk_eq _ _ _ _ _ _ _ _ _ _ _ _ _ _ false); intros.
  - discriminate. - apply gen_fwdall_first_spec. - apply gen_fwdall_enabled_spec. - rewrite gen_fwdall_break_spec. reflexivity.
  - apply gen_fwdall_accessed_spec. - apply gen_fwdall_reach_spec. - apply gen_fwdall_board_spec. - apply gen_fwdall_unboard_spec.
  - discriminate. - apply gen_fwdall_fp_skip_spec. - apply gen_fwdall_fp_maxtr_spec.
  - apply gen_fwdall_fp_improve_spec. - apply gen_fwdall_fp_label_spec. - apply gen_fwdall_newtau_spec.
Qed.

Theorem rev_step_tie : forall d p k st c, rev_step_code d p k st c = rev_step d p k false st c.
Proof.
  intros. unfold rev_step_code.
  apply (rev_step_sk_eq _ _ _ _ _ _ _ _ _ _ _ _ _ _ _ _ _ _ true); intros.
  - apply gen_rev_tent_spec. - apply gen_rev_first_spec. - apply gen_rev_enabled_spec. - rewrite gen_rev_break_spec. reflexivity.
  - apply gen_rev_reach_spec. - apply gen_rev_unboard_spec. - apply gen_rev_exit_first_spec.
  - apply gen_rev_exit_replace_spec. - apply gen_rev_exit_replace_time_spec. - apply gen_rev_board_spec.
  - apply gen_rev_acc_reached_spec. - apply gen_rev_fp_skip_spec. - apply gen_rev_fp_maxtr_spec.
  - apply gen_rev_fp_improve_spec. - apply gen_rev_fp_label_spec. - apply gen_rev_acc_after_dep_spec.
  - apply gen_rev_acc_cap_spec. - apply gen_rev_newtaur_spec.
Qed.

Theorem revall_step_tie : forall d p k st c, revall_step_code d p k st c = rev_step d p k true st c.
Proof.
  intros. unfold revall_step_code.
  apply (rev_step_sk_eq _ _ _ _ _ _ _ _ _ _ _ _ _ _ _ _ _ _ false); intros.
  - discriminate. - rewrite gen_revall_first_spec. lia. - apply gen_revall_enabled_spec. - rewrite gen_revall_break_spec. reflexivity.
  - apply gen_revall_reach_spec. - apply gen_revall_unboard_spec. - apply gen_revall_exit_first_spec.
  - apply gen_revall_exit_replace_spec. - apply gen_revall_exit_replace_time_spec. - apply gen_revall_board_spec.
  - discriminate. - apply gen_revall_fp_skip_spec. - apply gen_revall_fp_maxtr_spec.
  - apply gen_revall_fp_improve_spec. - apply gen_revall_fp_label_spec. - apply gen_revall_acc_after_dep_spec.
  - apply gen_revall_acc_cap_spec. - apply gen_revall_newtaur_spec.
Qed.

Theorem best_egress_tie : forall p k st, best_egress_sk G.gen_fwd_best_time G.gen_fwd_best_ok p k st = best_egress p k st.
Proof. intros. apply best_egress_sk_eq; intros; [apply gen_fwd_best_time_spec | apply gen_fwd_best_ok_spec]. Qed.

Theorem best_access_tie : forall p k st, best_access_sk G.gen_rev_best_time G.gen_rev_best_ok p k st = best_access p k st.
Proof. intros. apply best_access_sk_eq; intros; [apply gen_rev_best_time_spec | apply gen_rev_best_ok_spec]. Qed.

(* ---------------------------------------------------------------------------------------------- *)
(* 5. alternativesRouting: the two counters start where the model starts them (one increment after the first
      calculation is part of the hand-written skeleton) and one more alternative is calculated under the model's
      condition                                                                                       *)
From TrV Require Import Calc.
Lemma gen_alt_init_tie : G.gen_alt_seq_init + 1 = 2 /\ G.gen_alt_count_init + 1 = 2.
Proof. gtie. Qed.
Lemma gen_alt_cont_spec count maxalt seq maxvalid :
  G.gen_alt_cont count maxalt seq maxvalid = ((count <? maxalt) && (seq - 1 <? maxvalid)).
Proof. gtie. Qed.
Theorem alt_loop_guard_tie : forall st : alt_st,
  G.gen_alt_cont (a_count st) MAX_ALTERNATIVES (a_seq st) MAX_VALID_ALTERNATIVES =
  ((a_count st <? MAX_ALTERNATIVES) && (a_seq st - 1 <? MAX_VALID_ALTERNATIVES)).
Proof. intros. apply gen_alt_cont_spec. Qed.

(* ---------------------------------------------------------------------------------------------- *)
(* 6. the two stable_sort comparators of transit_data.cpp and the hour slot through which each scan enters   *)
Lemma fwd_lt_formula a b :
  fwd_lt a b = ((c_dep a <? c_dep b) || (negb (c_dep a >? c_dep b) &&
               ((Z.of_nat (c_trip a) <? Z.of_nat (c_trip b)) || (negb (Z.of_nat (c_trip a) >? Z.of_nat (c_trip b)) &&
                (Z.of_nat (c_seq a) <? Z.of_nat (c_seq b)))))).
Proof.
  unfold fwd_lt.
  destruct (c_dep a <? c_dep b) eqn:E1; [reflexivity|]. destruct (c_dep a >? c_dep b) eqn:E2; [reflexivity|].
  destruct (Nat.ltb (c_trip a) (c_trip b)) eqn:E3; [lia|]. destruct (Nat.ltb (c_trip b) (c_trip a)) eqn:E4; lia.
Qed.
Lemma rev_lt_formula a b :
  rev_lt a b = ((c_arr a >? c_arr b) || (negb (c_arr a <? c_arr b) &&
               ((Z.of_nat (c_trip a) >? Z.of_nat (c_trip b)) || (negb (Z.of_nat (c_trip a) <? Z.of_nat (c_trip b)) &&
                (Z.of_nat (c_seq a) >? Z.of_nat (c_seq b)))))).
Proof.
  unfold rev_lt.
  destruct (c_arr a >? c_arr b) eqn:E1; [reflexivity|]. destruct (c_arr a <? c_arr b) eqn:E2; [reflexivity|].
  destruct (Nat.ltb (c_trip b) (c_trip a)) eqn:E3; [lia|]. destruct (Nat.ltb (c_trip a) (c_trip b)) eqn:E4; lia.
Qed.

Definition cmp_args (f : Z -> Z -> Z -> Z -> Z -> Z -> Z -> Z -> bool) (a b : conn) : bool :=
  f (c_dep a) (c_dep b) (c_arr a) (c_arr b) (Z.of_nat (c_trip a)) (Z.of_nat (c_trip b)) (Z.of_nat (c_seq a)) (Z.of_nat (c_seq b)).

(* the model sorts with the comparators the source writes now (uuid order of trips = order of their identifiers) *)
Theorem fwd_lt_tie : forall a b, cmp_args G.gen_fwd_lt a b = fwd_lt a b.
Proof. intros. rewrite fwd_lt_formula. unfold cmp_args, G.gen_fwd_lt. lia. Qed.
Theorem rev_lt_tie : forall a b, cmp_args G.gen_rev_lt a b = rev_lt a b.
Proof. intros. rewrite rev_lt_formula. unfold cmp_args, G.gen_rev_lt. lia. Qed.

Ltac Zify.zify_post_hook ::= Z.to_euclidean_division_equations.
Lemma gen_fwd_entry_hour_spec kdep karr minacc minegr qminw maxacc maxegr : G.gen_fwd_entry_hour kdep karr minacc minegr qminw maxacc maxegr = hour_of kdep.
Proof. unfold G.gen_fwd_entry_hour, hour_of. first [reflexivity | lia]. Qed.
Lemma gen_fwdall_entry_hour_spec kdep karr minacc minegr qminw maxacc maxegr : G.gen_fwdall_entry_hour kdep karr minacc minegr qminw maxacc maxegr = hour_of kdep.
Proof. unfold G.gen_fwdall_entry_hour, hour_of. first [reflexivity | lia]. Qed.
Lemma gen_rev_entry_hour_spec kdep karr minacc minegr qminw maxacc maxegr : G.gen_rev_entry_hour kdep karr minacc minegr qminw maxacc maxegr = hour_of karr + 1.
Proof. unfold G.gen_rev_entry_hour, hour_of. first [reflexivity | lia]. Qed.
Lemma gen_revall_entry_hour_spec kdep karr minacc minegr qminw maxacc maxegr : G.gen_revall_entry_hour kdep karr minacc minegr qminw maxacc maxegr = hour_of karr + 1.
Proof. unfold G.gen_revall_entry_hour, hour_of. first [reflexivity | lia]. Qed.
Ltac Zify.zify_post_hook ::= idtac.

Lemma fold_left_ext_in {A B} (f g : A -> B -> A) : (forall a b, f a b = g a b) -> forall l a, fold_left f l a = fold_left g l a.
Proof. intros H l. induction l as [|x l IH]; intros a; cbn [fold_left]; [reflexivity|]. rewrite H. apply IH. Qed.

(* the four scans, entry slot and step function as the source writes them *)
Definition fwd_scan_code (d : data) (p : params) (k : calc) : outcome fstate :=
  match fwd_entry (k_set k) (G.gen_fwd_entry_hour (k_dep k) (k_arr k) (k_minAcc k) (k_minEgr k) (q_minw p) (k_maxAcc k) (k_maxEgr k)) with
  | None => UB U_INDEX
  | Some i => Ok (fold_left (fwd_step_code d p k) (skipn i (cs_fwd (k_set k))) (fwd_init k))
  end.
Definition fwdall_scan_code (d : data) (p : params) (k : calc) : outcome fstate :=
  match fwd_entry (k_set k) (G.gen_fwdall_entry_hour (k_dep k) (k_arr k) (k_minAcc k) (k_minEgr k) (q_minw p) (k_maxAcc k) (k_maxEgr k)) with
  | None => UB U_INDEX
  | Some i => Ok (fold_left (fwdall_step_code d p k) (skipn i (cs_fwd (k_set k))) (fwd_init k))
  end.
Definition rev_scan_code (d : data) (p : params) (k : calc) : outcome rstate :=
  match rev_entry (k_set k) (G.gen_rev_entry_hour (k_dep k) (k_arr k) (k_minAcc k) (k_minEgr k) (q_minw p) (k_maxAcc k) (k_maxEgr k)) with
  | None => UB U_INDEX
  | Some i => Ok (fold_left (rev_step_code d p k) (skipn i (cs_rev (k_set k))) (rev_init k))
  end.
Definition revall_scan_code (d : data) (p : params) (k : calc) : outcome rstate :=
  match rev_entry (k_set k) (G.gen_revall_entry_hour (k_dep k) (k_arr k) (k_minAcc k) (k_minEgr k) (q_minw p) (k_maxAcc k) (k_maxEgr k)) with
  | None => UB U_INDEX
  | Some i => Ok (fold_left (revall_step_code d p k) (skipn i (cs_rev (k_set k))) (rev_init k))
  end.

Theorem fwd_scan_tie : forall d p k, fwd_scan_code d p k = fwd_scan d p k false.
Proof.
  intros. unfold fwd_scan_code, fwd_scan. rewrite gen_fwd_entry_hour_spec.
  destruct (fwd_entry (k_set k) (hour_of (k_dep k))) as [i|]; [|reflexivity].
  f_equal. apply fold_left_ext_in. intros st c. apply fwd_step_tie.
Qed.
Theorem fwdall_scan_tie : forall d p k, fwdall_scan_code d p k = fwd_scan d p k true.
Proof.
  intros. unfold fwdall_scan_code, fwd_scan. rewrite gen_fwdall_entry_hour_spec.
  destruct (fwd_entry (k_set k) (hour_of (k_dep k))) as [i|]; [|reflexivity].
  f_equal. apply fold_left_ext_in. intros st c. apply fwdall_step_tie.
Qed.
Theorem rev_scan_tie : forall d p k, rev_scan_code d p k = rev_scan d p k false.
Proof.
  intros. unfold rev_scan_code, rev_scan. rewrite gen_rev_entry_hour_spec.
  destruct (rev_entry (k_set k) (hour_of (k_arr k) + 1)) as [i|]; [|reflexivity].
  f_equal. apply fold_left_ext_in. intros st c. apply rev_step_tie.
Qed.
Theorem revall_scan_tie : forall d p k, revall_scan_code d p k = rev_scan d p k true.
Proof.
  intros. unfold revall_scan_code, rev_scan. rewrite gen_revall_entry_hour_spec.
  destruct (rev_entry (k_set k) (hour_of (k_arr k) + 1)) as [i|]; [|reflexivity].
  f_equal. apply fold_left_ext_in. intros st c. apply revall_step_tie.
Qed.

(* ---------------------------------------------------------------------------------------------- *)
Ltac gtie_reset := cbv beta delta [G.gen_reset_acc_min G.gen_reset_acc_max G.gen_reset_egr_min G.gen_reset_egr_max
  G.gen_reset_acc_seed G.gen_reset_egr_seed G.gen_reset_min_init G.gen_reset_max_init G.MAX_INT MAX_INT]; lia.

(* 7. Calculator::reset (resets.cpp): running minimum / maximum of the access and egress walks and the seeded labels *)
Lemma fold_left_ext_in2 {A B} (f g : A -> B -> A) : (forall a b, f a b = g a b) -> forall l a, fold_left f l a = fold_left g l a.
Proof. intros H l. induction l as [|x l IH]; intros a; cbn [fold_left]; [reflexivity|]. rewrite H. apply IH. Qed.

(* the source's loop body: two INDEPENDENT tests (if the second were the else-branch of the first, a row that lowers the
   minimum would never be considered for the maximum) *)
Definition minmax_step (g_min g_max : Z -> Z -> Z -> bool) (independent : bool) (st : Z * Z) (r : fprow) : Z * Z :=
  let '(mn, mx) := st in
  let t := fp_time r in
  if g_min t mn mx then (t, if independent then (if g_max t mn mx then t else mx) else mx)
  else (mn, if g_max t mn mx then t else mx).

Lemma minmax_fold_spec : forall rows mn mx,
  fold_left (minmax_step (fun t mn _ => t <? mn) (fun t _ mx => t >? mx) true) rows (mn, mx) =
  (fold_left (fun a r => if fp_time r <? a then fp_time r else a) rows mn,
   fold_left (fun a r => if fp_time r >? a then fp_time r else a) rows mx).
Proof.
  induction rows as [|r rows IH]; intros mn mx; cbn [fold_left]; [reflexivity|].
  unfold minmax_step at 2. cbv beta iota.
  destruct (fp_time r <? mn); destruct (fp_time r >? mx); apply IH.
Qed.

Theorem reset_access_minmax_tie : forall rows,
  G.gen_reset_acc_tests_independent = true /\
  fold_left (minmax_step G.gen_reset_acc_min G.gen_reset_acc_max G.gen_reset_acc_tests_independent) rows
            (G.gen_reset_min_init, G.gen_reset_max_init) = (min_time rows, max_time rows).
Proof.
  intros rows. split; [reflexivity|].
  unfold min_time, max_time. rewrite <- minmax_fold_spec.
  change G.gen_reset_min_init with MAX_INT. change G.gen_reset_max_init with (-1).
  apply fold_left_ext_in2. intros [mn mx] r. unfold minmax_step.
  assert (E1 : G.gen_reset_acc_min (fp_time r) mn mx = (fp_time r <? mn)) by gtie_reset.
  assert (E2 : G.gen_reset_acc_max (fp_time r) mn mx = (fp_time r >? mx)) by gtie_reset.
  rewrite E1, E2. reflexivity.
Qed.

Theorem reset_egress_minmax_tie : forall rows,
  G.gen_reset_egr_tests_independent = true /\
  fold_left (minmax_step G.gen_reset_egr_min G.gen_reset_egr_max G.gen_reset_egr_tests_independent) rows
            (G.gen_reset_min_init, G.gen_reset_max_init) = (min_time rows, max_time rows).
Proof.
  intros rows. split; [reflexivity|].
  unfold min_time, max_time. rewrite <- minmax_fold_spec.
  change G.gen_reset_min_init with MAX_INT. change G.gen_reset_max_init with (-1).
  apply fold_left_ext_in2. intros [mn mx] r. unfold minmax_step.
  assert (E1 : G.gen_reset_egr_min (fp_time r) mn mx = (fp_time r <? mn)) by gtie_reset.
  assert (E2 : G.gen_reset_egr_max (fp_time r) mn mx = (fp_time r >? mx)) by gtie_reset.
  rewrite E1, E2. reflexivity.
Qed.

(* the seeded labels: nodesTentativeTime = departure + walk, nodesReverseTentativeTime = arrival - walk *)
Theorem reset_seeds_tie : forall dep arr rows,
  seed_tau dep rows = fold_left (fun m r => upd m (fp_node r) (G.gen_reset_acc_seed dep arr (fp_time r))) rows (fun _ => MAX_INT) /\
  seed_taur arr rows = fold_left (fun m r => upd m (fp_node r) (G.gen_reset_egr_seed dep arr (fp_time r))) rows (fun _ => -1).
Proof.
  intros dep arr rows. unfold seed_tau, seed_taur. split; apply fold_left_ext_in2; intros m r; f_equal; gtie_reset.
Qed.
