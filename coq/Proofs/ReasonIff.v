(* Proofs/ReasonIff.v — C07: a no_routing_found answer carries the most specific reason that is true.

   1. fwd_count_zero_iff   : after the forward scan of a departure query (route or accessibility),
                             reachableConnectionsCount = 0  <->  service_from_origin_b = false
   2. rev_count_zero_iff   : after the reverse scan of an arrival query (route or accessibility),
                             reachableConnectionsCount = 0  <->  service_to_destination_b = false
   3. dep_reverse_counts   : in a departure query the reverse pass that follows a successful best_egress always
                             counts at least one connection: NO_SERVICE_TO_DESTINATION is impossible there
   4. C07_reason           : calc_single's NoRouting reason is expected_reason (the definition of
                             Properties/Properties_C07.v, copied verbatim)
   5. C07_access_reason    : the same for calc_allnodes, with converses.

   Method: while nothing has been counted the scan state is the seeded one (only the stop flag can change), so
   "count = 0" is "no connection of the sorted list passes the guards evaluated in the seeded state"; the lists
   are sorted, so the max_travel_time break hides no later candidate; the hour index only skips connections that
   fail the first guard (Proofs/Index.v). *)
From Coq Require Import List ZArith Bool Arith Lia Sorted.
From TrV Require Import Spec.
From TrV.Proofs Require Import SortFilter Index RevInv Compose.
Import ListNotations.
Local Open Scope Z_scope.

Transparent rev_step rev_fp_step.

(* ---------------------------------------------------------------------------------------------- *)
(* 0. helpers: tables, seeds, parameters                                                            *)

Lemma min_fold_le_init : forall rows a,
  fold_left (fun a r => if fp_time r <? a then fp_time r else a) rows a <= a.
Proof.
  induction rows as [|x rows IH]; intros a; cbn [fold_left]; [lia|].
  destruct (Z.ltb_spec (fp_time x) a) as [H|H].
  - pose proof (IH (fp_time x)). lia.
  - apply IH.
Qed.

Lemma min_fold_le_in : forall rows a r, In r rows ->
  fold_left (fun a r => if fp_time r <? a then fp_time r else a) rows a <= fp_time r.
Proof.
  induction rows as [|x rows IH]; intros a r Hr; [destruct Hr|].
  cbn [fold_left]. destruct Hr as [Hr|Hr].
  - subst x. destruct (Z.ltb_spec (fp_time r) a) as [H|H].
    + apply min_fold_le_init.
    + pose proof (min_fold_le_init rows a). lia.
  - apply IH. exact Hr.
Qed.

Lemma min_fold_nonneg : forall rows a, 0 <= a -> (forall r, In r rows -> 0 <= fp_time r) ->
  0 <= fold_left (fun a r => if fp_time r <? a then fp_time r else a) rows a.
Proof.
  induction rows as [|x rows IH]; intros a Ha H; cbn [fold_left]; [exact Ha|].
  apply IH.
  - destruct (fp_time x <? a); [apply H; left; reflexivity|exact Ha].
  - intros r Hr. apply H. right. exact Hr.
Qed.

Lemma min_time_le rows r : In r rows -> min_time rows <= fp_time r.
Proof. unfold min_time. apply min_fold_le_in. Qed.

Lemma min_time_nonneg rows : (forall r, In r rows -> 0 <= fp_time r) -> 0 <= min_time rows.
Proof. unfold min_time. apply min_fold_nonneg. unfold MAX_INT. lia. Qed.

Lemma seed_tau_row dep rows n : nodup_nat (map fp_node rows) = true ->
  seed_tau dep rows n = match row_of n rows with Some r => dep + fp_time r | None => MAX_INT end.
Proof.
  intros Hnd. unfold seed_tau.
  rewrite (fold_upd_row_of (fun r => dep + fp_time r) rows _ n Hnd). reflexivity.
Qed.

Lemma seed_taur_row arr rows n : nodup_nat (map fp_node rows) = true ->
  seed_taur arr rows n = match row_of n rows with Some r => arr - fp_time r | None => -1 end.
Proof.
  intros Hnd. unfold seed_taur.
  rewrite (fold_upd_row_of (fun r => arr - fp_time r) rows _ n Hnd). reflexivity.
Qed.

Lemma wf_params_parts p : wf_params_b p = true ->
  0 <= q_time p < 115200 /\ 0 <= q_minw p /\ 0 < q_maxtt p.
Proof.
  unfold wf_params_b. intros H. peel H P8. peel H P7. peel H P6. peel H P5. peel H P4. peel H P3. peel H P2.
  apply Z.leb_le in H. apply Z.ltb_lt in P2. apply Z.leb_le in P3. apply Z.ltb_lt in P4.
  unfold CLOCK_MAX in P2. lia.
Qed.

Lemma wf_tables_parts d p acc egr : wf_tables_b d p acc egr = true ->
  nodup_nat (map fp_node acc) = true /\ nodup_nat (map fp_node egr) = true /\
  (forall r, In r acc -> 0 <= fp_time r) /\ (forall r, In r egr -> 0 <= fp_time r).
Proof.
  intros H. destruct (wf_tables_nonneg d p acc egr H) as [N1 N2].
  unfold wf_tables_b in H. peel H T6. peel H T5. peel H T4. peel H T3.
  repeat split; assumption.
Qed.

(* membership in the two lists of a scenario's connection set *)
Lemma cs_fwd_in_iff d s c :
  In c (cs_fwd (conn_set d s)) <-> In c (all_conns d) /\ memb (c_trip c) (enabled_trips d s) = true.
Proof.
  unfold conn_set, mk_connset. cbn [cs_fwd]. rewrite filter_In. unfold sorted_fwd. rewrite in_isort. reflexivity.
Qed.

Lemma cs_rev_in_iff d s c :
  In c (cs_rev (conn_set d s)) <-> In c (all_conns d) /\ memb (c_trip c) (enabled_trips d s) = true.
Proof.
  unfold conn_set, mk_connset. cbn [cs_rev]. rewrite filter_In. unfold sorted_rev. rewrite in_isort. reflexivity.
Qed.

(* the quantifier of the C07 facts (connections of admitted trips) is the one of the scans
   (connections of the scenario's set whose trip the request does not disable) *)
Lemma admitted_exists_iff d s p (P : conn -> bool) : wf_data_b d = true ->
  existsb (fun cs => existsb P cs) (admitted_conns d s p) = true <->
  exists c, In c (all_conns d) /\ memb (c_trip c) (enabled_trips d s) = true /\
            disabled_of d p (conn_set d s) (c_trip c) = false /\ P c = true.
Proof.
  intros Hwf. pose proof (wf_nodup_trips d Hwf) as Hnd. split.
  - intros H. apply existsb_exists in H. destruct H as (cs & Hcs & H).
    apply existsb_exists in H. destruct H as (c & Hc & HP).
    unfold admitted_conns in Hcs. apply in_map_iff in Hcs. destruct Hcs as (tr & E & Htr).
    apply filter_In in Htr. destruct Htr as [Htr Hadm]. subst cs.
    assert (T : tadm d s p (c_trip c)).
    { exists tr. rewrite (trip_conns_trip d tr c Hc). split; [apply (find_trip_in d tr Hnd Htr)|exact Hadm]. }
    apply (admitted_bridge d s p (c_trip c) Hnd) in T. destruct T as [T1 T2].
    exists c. split; [|split; [exact T1|split; [exact T2|exact HP]]].
    unfold all_conns. apply in_flat_map. exists tr. split; assumption.
  - intros (c & Hc & Hm & Hd & HP).
    assert (T : tadm d s p (c_trip c)) by (apply (admitted_bridge d s p (c_trip c) Hnd); split; assumption).
    destruct T as (tr & F & Hadm).
    destruct (all_conns_in d c Hc) as (tr' & Htr' & Hin).
    rewrite (trip_conns_trip d tr' c Hin) in F. rewrite (find_trip_in d tr' Hnd Htr') in F.
    inversion F; subst tr'. clear F.
    apply existsb_exists. exists (trip_conns d tr). split.
    + unfold admitted_conns. apply in_map. apply filter_In. split; assumption.
    + apply existsb_exists. exists c. split; assumption.
Qed.

(* ---------------------------------------------------------------------------------------------- *)
(* 1. the forward scan while nothing has been counted                                               *)

(* the boarding test of forward_calculation.cpp evaluated in the seeded state *)
Definition fguard (p : params) (k : calc) (c : conn) : bool :=
  (is_some (o_enter (k_ov k (c_trip c))) || (k_tau k (c_from c) <=? c_dep c - minw_eff p c)) &&
  (negb ((q_maxfw p >? 0) &&
         match row_of (c_from c) (k_accfp k) with Some r => fp_time r >=? 0 | None => false end &&
         negb (is_some (js_enter (k_fsteps k (c_from c))))) ||
   (c_dep c - k_tau k (c_from c) <=? q_maxfw p)).

(* the connection is counted when met in the seeded state *)
Definition ffires (p : params) (k : calc) (c : conn) : bool :=
  (c_dep c >=? k_dep k + k_minAcc k) && negb (k_disabled k (c_trip c)) &&
  (c_dep c - k_dep k <=? q_maxtt p) && fguard p k c.

Definition finit_like (k : calc) (st : fstate) : Prop :=
  f_count st = 0 /\ f_tau st = k_tau k /\ f_steps st = k_fsteps k /\ f_ov st = k_ov k /\ f_reached st = false.

Lemma fwd_step_stopped d p k all st c : f_stop st = true -> fwd_step d p k all st c = st.
Proof. intros H. unfold fwd_step. rewrite H. reflexivity. Qed.

Lemma fwd_step_count_mono d p k all st c : f_count st <= f_count (fwd_step d p k all st c).
Proof.
  unfold fwd_step.
  destruct (f_stop st); [lia|].
  destruct (c_dep c >=? k_dep k + k_minAcc k); [|lia].
  destruct (k_disabled k (c_trip c)); [lia|].
  match goal with
  | |- context [if ?b then {| f_tau := _ ; f_steps := _; f_ov := _; f_egr := _; f_count := _;
                             f_reached := _; f_tent := _; f_stop := true |} else _] => destruct b
  end; [cbn [f_count]; lia|].
  match goal with |- context [if ?b then _ else st] => destruct b end; [|lia].
  cbv zeta.
  match goal with |- context [if ?b then _ else _] => destruct b end; [|cbn [f_count]; lia].
  match goal with |- context [let '(_, _) := ?x in _] => destruct x as [re te] end.
  match goal with |- context [let '(_, _) := ?x in _] => destruct x as [[t1 s1] e1] end.
  cbn [f_count]. lia.
Qed.

Lemma fwd_step_cases d p k all st c :
  finit_like k st -> f_stop st = false ->
  (ffires p k c = true /\ f_count (fwd_step d p k all st c) = 1) \/
  (ffires p k c = false /\
   (fwd_step d p k all st c = st \/
    (c_dep c - k_dep k > q_maxtt p /\ finit_like k (fwd_step d p k all st c)))).
Proof.
  intros (Hc & Ht & Hs & Ho & Hr) Hstop.
  unfold ffires, fwd_step. rewrite Hstop, Hr, Ht, Hs, Ho, Hc.
  destruct (c_dep c >=? k_dep k + k_minAcc k) eqn:E1; [|right; split; [reflexivity|left; reflexivity]].
  destruct (k_disabled k (c_trip c)) eqn:E2; [right; split; [reflexivity|left; reflexivity]|].
  cbn [negb andb]. cbv zeta.
  rewrite (andb_false_r (negb all)). cbn [andb orb].
  destruct (Z.gtb_spec (c_dep c - k_dep k) (q_maxtt p)) as [E3|E3].
  { right. destruct (Z.leb_spec (c_dep c - k_dep k) (q_maxtt p)) as [E3'|E3']; [lia|].
    split; [reflexivity|]. right. split; [lia|].
    unfold finit_like. cbn [f_count f_tau f_steps f_ov f_reached]. repeat split; assumption. }
  destruct (Z.leb_spec (c_dep c - k_dep k) (q_maxtt p)) as [E3'|E3']; [|lia].
  cbn [andb].
  match goal with |- context [if ?b then _ else st] => change b with (fguard p k c) end.
  destruct (fguard p k c) eqn:E4; [|right; split; [reflexivity|left; reflexivity]].
  left. split; [reflexivity|].
  match goal with |- context [if ?b then _ else _] => destruct b end; [|reflexivity].
  match goal with |- context [let '(_, _) := ?x in _] => destruct x as [re te] end.
  match goal with |- context [let '(_, _) := ?x in _] => destruct x as [[t1 s1] e1] end.
  reflexivity.
Qed.

Lemma fwd_fold_count_mono d p k all : forall L st,
  f_count st <= f_count (fold_left (fwd_step d p k all) L st).
Proof.
  induction L as [|c L IH]; intros st; cbn [fold_left]; [lia|].
  pose proof (fwd_step_count_mono d p k all st c). pose proof (IH (fwd_step d p k all st c)). lia.
Qed.

Lemma fwd_fold_zero d p k all : forall L st,
  finit_like k st -> (forall c, In c L -> ffires p k c = false) ->
  finit_like k (fold_left (fwd_step d p k all) L st).
Proof.
  induction L as [|x L IH]; intros st Hi Hn; cbn [fold_left]; [exact Hi|].
  apply IH; [|intros c Hc; apply Hn; right; exact Hc].
  destruct (f_stop st) eqn:Hstop; [rewrite fwd_step_stopped by exact Hstop; exact Hi|].
  destruct (fwd_step_cases d p k all st x Hi Hstop) as [[F _]|[_ [E|[_ E]]]].
  - rewrite (Hn x (or_introl eq_refl)) in F. discriminate.
  - rewrite E. exact Hi.
  - exact E.
Qed.

Lemma fwd_fold_pos d p k all : forall L st,
  dep_sorted L -> finit_like k st -> f_stop st = false ->
  (exists c, In c L /\ ffires p k c = true) ->
  0 < f_count (fold_left (fwd_step d p k all) L st).
Proof.
  induction L as [|x L IH]; intros st Hs Hi Hstop (c & Hc & Hf); [destruct Hc|].
  cbn [fold_left]. destruct (dep_sorted_inv x L Hs) as [Hs' Hle].
  destruct (fwd_step_cases d p k all st x Hi Hstop) as [[_ F]|[Fx [E|[E _]]]].
  - pose proof (fwd_fold_count_mono d p k all L (fwd_step d p k all st x)). lia.
  - rewrite E. apply IH; try assumption. exists c. split; [|exact Hf].
    destruct Hc as [Hc|Hc]; [subst x; congruence|exact Hc].
  - exfalso. destruct Hc as [Hc|Hc]; [subst x; congruence|].
    specialize (Hle c Hc). unfold ffires in Hf.
    peel Hf F4. peel Hf F3. apply Z.leb_le in F3. lia.
Qed.

(* the forward count is zero exactly when no connection of the (departure-sorted) list would be counted
   in the seeded state *)
Lemma fwd_fold_zero_iff d p k all L : dep_sorted L ->
  (f_count (fold_left (fwd_step d p k all) L (fwd_init k)) = 0 <-> forall c, In c L -> ffires p k c = false).
Proof.
  intros Hs.
  assert (Hi : finit_like k (fwd_init k)) by (unfold finit_like, fwd_init; cbn [f_count f_tau f_steps f_ov f_reached]; repeat split; reflexivity).
  split.
  - intros H0 c Hc. destruct (ffires p k c) eqn:F; [|reflexivity].
    pose proof (fwd_fold_pos d p k all L (fwd_init k) Hs Hi eq_refl (ex_intro _ c (conj Hc F))). lia.
  - intros Hn. exact (proj1 (fwd_fold_zero d p k all L (fwd_init k) Hi Hn)).
Qed.

(* ---------------------------------------------------------------------------------------------- *)
(* 2. the seeded forward guards are the C07 fact                                                    *)

(* the per-connection test of service_from_origin_b *)
Definition sfo_conn (p : params) (acc : list fprow) (c : conn) : bool :=
  match row_of (c_from c) acc with
  | Some r =>
      (q_time p + fp_time r + minw_eff p c <=? c_dep c) && (c_dep c - q_time p <=? q_maxtt p) &&
      ((q_maxfw p <=? 0) || (c_dep c - (q_time p + fp_time r) <=? q_maxfw p))
  | None => false
  end.

Lemma service_from_origin_unfold d s p acc :
  service_from_origin_b d s p acc = existsb (fun cs => existsb (sfo_conn p acc) cs) (admitted_conns d s p).
Proof. reflexivity. Qed.

(* the calculator of a departure query: route (has_dest = true) or accessibility (has_dest = false) *)
Section FwdCalc.
  Variables (d : data) (s : scenario) (p : params) (acc egr : list fprow) (hd : bool).
  Hypothesis Hwf : wf_data_b d = true.
  Hypothesis Hp : wf_params_b p = true.
  Hypothesis Hnd : nodup_nat (map fp_node acc) = true.
  Hypothesis Hnn : forall r, In r acc -> 0 <= fp_time r.
  Hypothesis Hfwd : q_fwd p = true.

  Let k := mk_calc d p (conn_set d s) acc egr true hd.

  Lemma fk_dep : k_dep k = q_time p.
  Proof. unfold k, mk_calc. cbn [k_dep]. rewrite Hfwd. reflexivity. Qed.

  Lemma fk_tau n : k_tau k n = match row_of n acc with Some r => q_time p + fp_time r | None => MAX_INT end.
  Proof. unfold k, mk_calc. cbn [k_tau]. rewrite Hfwd. apply seed_tau_row. exact Hnd. Qed.

  Lemma ffires_sfo c : In c (all_conns d) ->
    ffires p k c = negb (disabled_of d p (conn_set d s) (c_trip c)) && sfo_conn p acc c.
  Proof.
    intros Hc. pose proof (conn_dep_clock d c Hwf Hc) as Hclk.
    destruct (wf_params_parts p Hp) as (Htime & Hminw & Hmaxtt).
    pose proof (minw_eff_nonneg p c Hminw) as Hmw.
    unfold ffires, fguard, sfo_conn. rewrite fk_dep, fk_tau.
    change (k_minAcc k) with (min_time acc). change (k_accfp k) with acc.
    change (k_disabled k (c_trip c)) with (disabled_of d p (conn_set d s) (c_trip c)).
    change (k_fsteps k (c_from c)) with (seed_steps acc (c_from c)). rewrite seed_steps_enter.
    change (o_enter (k_ov k (c_trip c))) with (@None conn).
    cbn [is_some orb negb]. rewrite andb_true_r.
    destruct (disabled_of d p (conn_set d s) (c_trip c)); [rewrite andb_false_r; reflexivity|].
    cbn [negb andb]. rewrite andb_true_r.
    destruct (row_of (c_from c) acc) as [r|] eqn:Er.
    - destruct (row_of_some _ _ _ Er) as [_ Hin]. pose proof (Hnn r Hin) as Hr0.
      pose proof (min_time_le acc r Hin) as Hmin.
      destruct (Z.geb_spec (fp_time r) 0) as [_|X]; [|lia]. rewrite andb_true_r.
      destruct (Z.leb_spec (q_time p + fp_time r + minw_eff p c) (c_dep c)) as [A|A].
      + destruct (Z.leb_spec (q_time p + fp_time r) (c_dep c - minw_eff p c)) as [A'|A']; [|lia].
        destruct (Z.geb_spec (c_dep c) (q_time p + min_time acc)) as [B|B]; [|lia].
        cbn [andb]. f_equal.
        destruct (Z.gtb_spec (q_maxfw p) 0) as [C|C]; destruct (Z.leb_spec (q_maxfw p) 0) as [C'|C']; try lia;
          reflexivity.
      + destruct (Z.leb_spec (q_time p + fp_time r) (c_dep c - minw_eff p c)) as [A'|A']; [lia|].
        cbn [andb]. rewrite andb_false_r. reflexivity.
    - destruct (Z.leb_spec MAX_INT (c_dep c - minw_eff p c)) as [A|A]; [unfold MAX_INT in A; lia|].
      cbn [andb]. rewrite andb_false_r. reflexivity.
  Qed.

  (* every hypothesis of the hour-index theorem holds for this calculator *)
  Lemma fwd_scan_full all :
    fwd_scan d p k all = Ok (fold_left (fwd_step d p k all) (cs_fwd (conn_set d s)) (fwd_init k)).
  Proof.
    destruct (wf_params_parts p Hp) as (Htime & _ & _).
    apply (C12_index_fwd d p k all).
    - apply conn_set_fwd_sorted.
    - intros c Hc. apply (conn_dep_clock d c Hwf). apply (cs_fwd_in d s c Hc).
    - reflexivity.
    - rewrite fk_dep. exact Htime.
    - change (k_minAcc k) with (min_time acc). apply min_time_nonneg. exact Hnn.
  Qed.

  Theorem fwd_count_zero_gen all fs :
    fwd_scan d p k all = Ok fs ->
    (f_count fs = 0 <-> service_from_origin_b d s p acc = false).
  Proof.
    intros Hscan. rewrite fwd_scan_full in Hscan. inversion Hscan as [Hfs]. clear Hscan.
    rewrite (fwd_fold_zero_iff d p k all (cs_fwd (conn_set d s)) (conn_set_fwd_sorted d s)).
    rewrite service_from_origin_unfold. split.
    - intros Hn. destruct (existsb _ (admitted_conns d s p)) eqn:E; [|reflexivity].
      apply (admitted_exists_iff d s p (sfo_conn p acc) Hwf) in E. destruct E as (c & Hc & Hm & Hdis & HP).
      assert (Hin : In c (cs_fwd (conn_set d s))) by (apply cs_fwd_in_iff; split; assumption).
      specialize (Hn c Hin). rewrite (ffires_sfo c Hc), Hdis, HP in Hn. discriminate.
    - intros Hno c Hc. apply cs_fwd_in_iff in Hc. destruct Hc as [Hc Hm].
      rewrite (ffires_sfo c Hc).
      destruct (disabled_of d p (conn_set d s) (c_trip c)) eqn:Hdis; [reflexivity|].
      destruct (sfo_conn p acc c) eqn:HP; [|reflexivity].
      assert (E : existsb (fun cs => existsb (sfo_conn p acc) cs) (admitted_conns d s p) = true).
      { apply (admitted_exists_iff d s p (sfo_conn p acc) Hwf). exists c. repeat split; assumption. }
      congruence.
  Qed.
End FwdCalc.

(* ---------------------------------------------------------------------------------------------- *)
(* 3. the reverse scan while nothing has been counted                                               *)

Definition rfires (p : params) (k : calc) (all : bool) (c : conn) : bool :=
  (c_arr c <=? k_arr k - (if all then 0 else k_minEgr k)) &&
  (o_usable (k_ov k (c_trip c)) && negb (k_disabled k (c_trip c))) &&
  (k_arr k - c_arr c <=? q_maxtt p) &&
  (is_some (o_exit (k_ov k (c_trip c))) || (k_taur k (c_to c) >=? c_arr c)).

Definition rinit_like (k : calc) (st : rstate) : Prop :=
  r_count st = 0 /\ r_taur st = k_taur k /\ r_ov st = k_ov k /\ r_reached st = false.

Lemma rev_step_stopped d p k all st c : r_stop st = true -> rev_step d p k all st c = st.
Proof. intros H. unfold rev_step. rewrite H. reflexivity. Qed.

Lemma rev_step_count_mono d p k all st c : r_count st <= r_count (rev_step d p k all st c).
Proof.
  unfold rev_step.
  destruct (r_stop st); [lia|].
  destruct (c_arr c <=? k_arr k - (if all then 0 else k_minEgr k)); [|lia].
  cbv zeta.
  destruct (o_usable (r_ov st (c_trip c)) && negb (k_disabled k (c_trip c))); [|lia].
  match goal with
  | |- context [if ?b then {| r_taur := _ ; r_steps := _; r_ov := _; r_acc := _; r_count := _;
                             r_reached := _; r_tent := _; r_stop := true |} else _] => destruct b
  end; [cbn [r_count]; lia|].
  match goal with |- context [if ?b then _ else st] => destruct b end; [|lia].
  match goal with |- context [if ?b then _ else _] => destruct b end; [|cbn [r_count]; lia].
  match goal with |- context [let '(_, _) := ?x in _] => destruct x as [re te] end.
  match goal with |- context [let '(_, _) := ?x in _] => destruct x as [[t1 s1] a1] end.
  cbn [r_count]. lia.
Qed.

Lemma rev_step_cases d p k all st c :
  rinit_like k st -> r_stop st = false ->
  (rfires p k all c = true /\ r_count (rev_step d p k all st c) = 1) \/
  (rfires p k all c = false /\
   (rev_step d p k all st c = st \/
    (k_arr k - c_arr c > q_maxtt p /\ rinit_like k (rev_step d p k all st c)))).
Proof.
  intros (Hc & Ht & Ho & Hr) Hstop.
  unfold rfires, rev_step. rewrite Hstop, Hr, Ht, Ho, Hc.
  destruct (c_arr c <=? k_arr k - (if all then 0 else k_minEgr k)) eqn:E1;
    [|right; split; [reflexivity|left; reflexivity]].
  cbv zeta.
  destruct (o_usable (k_ov k (c_trip c)) && negb (k_disabled k (c_trip c))) eqn:E2;
    [|right; split; [reflexivity|left; reflexivity]].
  cbn [andb].
  rewrite (andb_false_r (negb all)). cbn [andb orb].
  destruct (Z.gtb_spec (k_arr k - c_arr c) (q_maxtt p)) as [E3|E3].
  { right. destruct (Z.leb_spec (k_arr k - c_arr c) (q_maxtt p)) as [E3'|E3']; [lia|].
    split; [reflexivity|]. right. split; [lia|].
    unfold rinit_like. cbn [r_count r_taur r_ov r_reached]. repeat split; assumption. }
  destruct (Z.leb_spec (k_arr k - c_arr c) (q_maxtt p)) as [E3'|E3']; [|lia].
  cbn [andb].
  destruct (is_some (o_exit (k_ov k (c_trip c))) || (k_taur k (c_to c) >=? c_arr c)) eqn:E4;
    [|right; split; [reflexivity|left; reflexivity]].
  left. split; [reflexivity|].
  match goal with |- context [if ?b then _ else _] => destruct b end; [|reflexivity].
  match goal with |- context [let '(_, _) := ?x in _] => destruct x as [re te] end.
  match goal with |- context [let '(_, _) := ?x in _] => destruct x as [[t1 s1] a1] end.
  reflexivity.
Qed.

Lemma rev_fold_count_mono d p k all : forall L st,
  r_count st <= r_count (fold_left (rev_step d p k all) L st).
Proof.
  induction L as [|c L IH]; intros st; cbn [fold_left]; [lia|].
  pose proof (rev_step_count_mono d p k all st c). pose proof (IH (rev_step d p k all st c)). lia.
Qed.

Lemma rev_fold_zero d p k all : forall L st,
  rinit_like k st -> (forall c, In c L -> rfires p k all c = false) ->
  rinit_like k (fold_left (rev_step d p k all) L st).
Proof.
  induction L as [|x L IH]; intros st Hi Hn; cbn [fold_left]; [exact Hi|].
  apply IH; [|intros c Hc; apply Hn; right; exact Hc].
  destruct (r_stop st) eqn:Hstop; [rewrite rev_step_stopped by exact Hstop; exact Hi|].
  destruct (rev_step_cases d p k all st x Hi Hstop) as [[F _]|[_ [E|[_ E]]]].
  - rewrite (Hn x (or_introl eq_refl)) in F. discriminate.
  - rewrite E. exact Hi.
  - exact E.
Qed.

Lemma rev_fold_pos d p k all : forall L st,
  arr_sorted_desc L -> rinit_like k st -> r_stop st = false ->
  (exists c, In c L /\ rfires p k all c = true) ->
  0 < r_count (fold_left (rev_step d p k all) L st).
Proof.
  induction L as [|x L IH]; intros st Hs Hi Hstop (c & Hc & Hf); [destruct Hc|].
  cbn [fold_left]. destruct (arr_sorted_desc_inv x L Hs) as [Hs' Hle].
  destruct (rev_step_cases d p k all st x Hi Hstop) as [[_ F]|[Fx [E|[E _]]]].
  - pose proof (rev_fold_count_mono d p k all L (rev_step d p k all st x)). lia.
  - rewrite E. apply IH; try assumption. exists c. split; [|exact Hf].
    destruct Hc as [Hc|Hc]; [subst x; congruence|exact Hc].
  - exfalso. destruct Hc as [Hc|Hc]; [subst x; congruence|].
    specialize (Hle c Hc). unfold rfires in Hf.
    peel Hf F4. peel Hf F3. apply Z.leb_le in F3. lia.
Qed.

Lemma rev_fold_zero_iff d p k all L : arr_sorted_desc L ->
  (r_count (fold_left (rev_step d p k all) L (rev_init k)) = 0 <-> forall c, In c L -> rfires p k all c = false).
Proof.
  intros Hs.
  assert (Hi : rinit_like k (rev_init k))
    by (unfold rinit_like, rev_init; cbn [r_count r_taur r_ov r_reached]; repeat split; reflexivity).
  split.
  - intros H0 c Hc. destruct (rfires p k all c) eqn:F; [|reflexivity].
    pose proof (rev_fold_pos d p k all L (rev_init k) Hs Hi eq_refl (ex_intro _ c (conj Hc F))). lia.
  - intros Hn. exact (proj1 (rev_fold_zero d p k all L (rev_init k) Hi Hn)).
Qed.

(* the reverse lookup is the whole-list fold for every non-negative arrival time (beyond 32 h the table is
   not consulted: entry 0) *)
Lemma rev_scan_full_gen d p k all :
  arr_sorted_desc (cs_rev (k_set k)) -> cs_ridx (k_set k) = rev_index (cs_rev (k_set k)) ->
  0 <= k_arr k -> 0 <= k_minEgr k ->
  rev_scan d p k all = Ok (fold_left (rev_step d p k all) (cs_rev (k_set k)) (rev_init k)).
Proof.
  intros Hs Hidx Harr Hegr.
  destruct (Z_lt_ge_dec (k_arr k) 115200) as [Hlt|Hge].
  - apply C12_index_rev; try assumption. lia.
  - unfold rev_scan, rev_entry. change BEGIN_HOUR with 0. change END_HOUR with 32.
    assert (Hh : 32 <= hour_of (k_arr k)).
    { unfold hour_of. change 32 with (Z.quot 115200 3600). apply Z.quot_le_mono; lia. }
    destruct (Z.ltb_spec (hour_of (k_arr k) + 1) 0) as [X|_]; [lia|].
    destruct (Z.gtb_spec (hour_of (k_arr k) + 1) (32 - 1)) as [_|X]; [|lia].
    cbn [skipn]. reflexivity.
Qed.

(* ---------------------------------------------------------------------------------------------- *)
(* 4. the seeded reverse guards are the C07 fact                                                    *)

Definition std_conn (p : params) (egr : list fprow) (c : conn) : bool :=
  match row_of (c_to c) egr with
  | Some r => (c_arr c <=? q_time p - fp_time r) && (q_time p - c_arr c <=? q_maxtt p)
  | None => false
  end.

Lemma service_to_destination_unfold d s p egr all :
  service_to_destination_b d s p egr all = existsb (fun cs => existsb (std_conn p egr) cs) (admitted_conns d s p).
Proof. reflexivity. Qed.

(* any calculator satisfying the precondition of the reverse scan (RevInv.rev_pre) whose minimum egress time
   is the one of the table *)
Section RevCalc.
  Variables (d : data) (s : scenario) (p : params) (acc egr : list fprow) (k : calc).
  Hypothesis Hwf : wf_data_b d = true.
  Hypothesis Hpre : rev_pre d s p acc egr k.
  Hypothesis Hmin : k_minEgr k = min_time egr.
  Hypothesis Hnn : forall r, In r egr -> 0 <= fp_time r.
  Hypothesis Harr : 0 <= k_arr k.

  Lemma rev_scan_full all :
    rev_scan d p k all = Ok (fold_left (rev_step d p k all) (cs_rev (conn_set d s)) (rev_init k)).
  Proof.
    rewrite <- (rp_set _ _ _ _ _ _ Hpre).
    apply rev_scan_full_gen.
    - rewrite (rp_set _ _ _ _ _ _ Hpre). apply conn_set_rev_sorted.
    - rewrite (rp_set _ _ _ _ _ _ Hpre). reflexivity.
    - exact Harr.
    - rewrite Hmin. apply min_time_nonneg. exact Hnn.
  Qed.

  (* a connection that reaches an egress stop in time, on a usable trip the request does not disable, is counted *)
  Lemma rfires_intro all c r :
    o_usable (k_ov k (c_trip c)) = true -> k_disabled k (c_trip c) = false ->
    row_of (c_to c) egr = Some r -> c_arr c <= k_arr k - fp_time r -> k_arr k - c_arr c <= q_maxtt p ->
    rfires p k all c = true.
  Proof.
    intros Hu Hd Er Hle Htt. destruct (row_of_some _ _ _ Er) as [_ Hin].
    pose proof (Hnn r Hin) as Hr0. pose proof (min_time_le egr r Hin) as Hm.
    unfold rfires. rewrite Hu, Hd, (rp_taur _ _ _ _ _ _ Hpre), Er, Hmin. cbn [negb andb].
    destruct (Z.leb_spec (c_arr c) (k_arr k - (if all then 0 else min_time egr))) as [A|A];
      [|destruct all; lia].
    destruct (Z.leb_spec (k_arr k - c_arr c) (q_maxtt p)) as [B|B]; [|lia].
    destruct (Z.geb_spec (k_arr k - fp_time r) (c_arr c)) as [C|C]; [|lia].
    cbn [andb]. apply orb_true_r.
  Qed.

  Lemma rev_count_pos all st c r :
    rev_scan d p k all = Ok st -> In c (cs_rev (conn_set d s)) ->
    o_usable (k_ov k (c_trip c)) = true -> k_disabled k (c_trip c) = false ->
    row_of (c_to c) egr = Some r -> c_arr c <= k_arr k - fp_time r -> k_arr k - c_arr c <= q_maxtt p ->
    0 < r_count st.
  Proof.
    intros Hscan Hc Hu Hd Er Hle Htt. rewrite rev_scan_full in Hscan. inversion Hscan as [Hst]. clear Hscan.
    apply rev_fold_pos.
    - apply conn_set_rev_sorted.
    - unfold rinit_like, rev_init; cbn [r_count r_taur r_ov r_reached]; repeat split; reflexivity.
    - reflexivity.
    - exists c. split; [exact Hc|]. apply (rfires_intro all c r); assumption.
  Qed.

  (* arrival queries: every trip of the set is usable *)
  Hypothesis Husable : forall t, o_usable (k_ov k t) = true.
  Hypothesis Htime : k_arr k = q_time p.

  Lemma rfires_std all c : In c (all_conns d) ->
    rfires p k all c = negb (disabled_of d p (conn_set d s) (c_trip c)) && std_conn p egr c.
  Proof.
    intros Hc. pose proof (conn_arr_nonneg d c Hwf Hc) as Ha0.
    unfold rfires, std_conn.
    rewrite Husable, (rp_exit _ _ _ _ _ _ Hpre), (rp_taur _ _ _ _ _ _ Hpre), (rp_dis _ _ _ _ _ _ Hpre), Hmin, Htime.
    cbn [is_some orb andb].
    destruct (disabled_of d p (conn_set d s) (c_trip c)); [rewrite andb_false_r; reflexivity|].
    cbn [negb andb]. rewrite andb_true_r.
    destruct (row_of (c_to c) egr) as [r|] eqn:Er.
    - destruct (row_of_some _ _ _ Er) as [_ Hin]. pose proof (Hnn r Hin) as Hr0.
      pose proof (min_time_le egr r Hin) as Hm.
      destruct (Z.leb_spec (c_arr c) (q_time p - fp_time r)) as [A|A].
      + destruct (Z.geb_spec (q_time p - fp_time r) (c_arr c)) as [A'|A']; [|lia].
        destruct (Z.leb_spec (c_arr c) (q_time p - (if all then 0 else min_time egr))) as [B|B];
          [|destruct all; lia].
        cbn [andb]. rewrite andb_true_r. reflexivity.
      + destruct (Z.geb_spec (q_time p - fp_time r) (c_arr c)) as [A'|A']; [lia|].
        rewrite andb_false_r. reflexivity.
    - destruct (Z.geb_spec (-1) (c_arr c)) as [A|A]; [lia|]. apply andb_false_r.
  Qed.

  Theorem rev_count_zero_gen all all' st :
    rev_scan d p k all = Ok st ->
    (r_count st = 0 <-> service_to_destination_b d s p egr all' = false).
  Proof.
    intros Hscan. rewrite rev_scan_full in Hscan. inversion Hscan as [Hst]. clear Hscan.
    rewrite (rev_fold_zero_iff d p k all (cs_rev (conn_set d s)) (conn_set_rev_sorted d s)).
    rewrite service_to_destination_unfold. split.
    - intros Hn. destruct (existsb _ (admitted_conns d s p)) eqn:E; [|reflexivity].
      apply (admitted_exists_iff d s p (std_conn p egr) Hwf) in E. destruct E as (c & Hc & Hm & Hdis & HP).
      assert (Hin : In c (cs_rev (conn_set d s))) by (apply cs_rev_in_iff; split; assumption).
      specialize (Hn c Hin). rewrite (rfires_std all c Hc), Hdis, HP in Hn. discriminate.
    - intros Hno c Hc. apply cs_rev_in_iff in Hc. destruct Hc as [Hc Hm].
      rewrite (rfires_std all c Hc).
      destruct (disabled_of d p (conn_set d s) (c_trip c)) eqn:Hdis; [reflexivity|].
      destruct (std_conn p egr c) eqn:HP; [|reflexivity].
      assert (E : existsb (fun cs => existsb (std_conn p egr) cs) (admitted_conns d s p) = true).
      { apply (admitted_exists_iff d s p (std_conn p egr) Hwf). exists c. repeat split; assumption. }
      congruence.
  Qed.
End RevCalc.

(* ---------------------------------------------------------------------------------------------- *)
(* 5. deliverables 1 and 2 in the form of the call sites                                            *)

(* 1a. calculateSingle, departure query *)
Theorem fwd_count_zero_iff : forall d s p acc egr all fs,
  wf_data_b d = true -> find_scenario d (q_scenario p) = Some s -> wf_params_b p = true ->
  wf_tables_b d p acc egr = true -> q_fwd p = true ->
  fwd_scan d p (mk_calc d p (conn_set d s) acc egr true true) all = Ok fs ->
  (f_count fs = 0 <-> service_from_origin_b d s p acc = false).
Proof.
  intros d s p acc egr all fs Hwf _ Hp Htab Hfwd Hscan.
  destruct (wf_tables_parts d p acc egr Htab) as (N1 & _ & N3 & _).
  exact (fwd_count_zero_gen d s p acc egr true Hwf Hp N1 N3 Hfwd all fs Hscan).
Qed.

(* 1b. calculateAllNodes, departure query: the calculator has no destination *)
Theorem fwd_count_zero_iff_allnodes : forall d s p rows all fs,
  wf_data_b d = true -> find_scenario d (q_scenario p) = Some s -> wf_params_b p = true ->
  wf_tables_b d p rows [] = true -> q_fwd p = true ->
  fwd_scan d p (mk_calc d p (conn_set d s) rows [] true false) all = Ok fs ->
  (f_count fs = 0 <-> service_from_origin_b d s p rows = false).
Proof.
  intros d s p rows all fs Hwf _ Hp Htab Hfwd Hscan.
  destruct (wf_tables_parts d p rows [] Htab) as (N1 & _ & N3 & _).
  exact (fwd_count_zero_gen d s p rows [] false Hwf Hp N1 N3 Hfwd all fs Hscan).
Qed.

(* the calculator handed to the reverse scan of an arrival query satisfies RevInv.rev_pre, with or without an origin *)
Lemma rev_pre_arrival_gen d s p acc egr ho :
  nodup_nat (map fp_node egr) = true ->
  let k0 := mk_calc d p (conn_set d s) acc egr ho true in
  rev_pre d s p (if ho then acc else []) egr (with_rev k0 (k_arr k0) (-1) (k_taur k0) (set_usable (k_ov k0))).
Proof.
  intros Hnd k0. constructor; try reflexivity.
  - intros n. unfold with_rev, k0, mk_calc. cbn [k_taur k_arr]. apply seed_taur_row. exact Hnd.
  - left. reflexivity.
Qed.

Lemma rev_count_zero_arrival d s p acc egr ho all all' st :
  wf_data_b d = true -> wf_params_b p = true ->
  nodup_nat (map fp_node egr) = true -> (forall r, In r egr -> 0 <= fp_time r) -> q_fwd p = false ->
  let k0 := mk_calc d p (conn_set d s) acc egr ho true in
  rev_scan d p (with_rev k0 (k_arr k0) (-1) (k_taur k0) (set_usable (k_ov k0))) all = Ok st ->
  (r_count st = 0 <-> service_to_destination_b d s p egr all' = false).
Proof.
  intros Hwf Hp Hnd Hnn Hfwd k0 Hscan.
  destruct (wf_params_parts p Hp) as (Htime & _ & _).
  assert (Ea : k_arr k0 = q_time p) by (unfold k0, mk_calc; cbn [k_arr]; rewrite Hfwd; reflexivity).
  apply (rev_count_zero_gen d s p (if ho then acc else []) egr
           (with_rev k0 (k_arr k0) (-1) (k_taur k0) (set_usable (k_ov k0))) Hwf
           (rev_pre_arrival_gen d s p acc egr ho Hnd)) with (all := all).
  - reflexivity.
  - exact Hnn.
  - unfold with_rev. cbn [k_arr]. rewrite Ea. lia.
  - intros t. reflexivity.
  - unfold with_rev. cbn [k_arr]. exact Ea.
  - exact Hscan.
Qed.

(* 2a. calculateSingle, arrival query *)
Theorem rev_count_zero_iff : forall d s p acc egr all st,
  wf_data_b d = true -> find_scenario d (q_scenario p) = Some s -> wf_params_b p = true ->
  wf_tables_b d p acc egr = true -> q_fwd p = false ->
  let k := mk_calc d p (conn_set d s) acc egr true true in
  rev_scan d p (with_rev k (k_arr k) (-1) (k_taur k) (set_usable (k_ov k))) all = Ok st ->
  (r_count st = 0 <-> service_to_destination_b d s p egr all = false).
Proof.
  intros d s p acc egr all st Hwf _ Hp Htab Hfwd k Hscan.
  destruct (wf_tables_parts d p acc egr Htab) as (_ & N2 & _ & N4).
  exact (rev_count_zero_arrival d s p acc egr true all all st Hwf Hp N2 N4 Hfwd Hscan).
Qed.

(* 2b. calculateAllNodes, arrival query: the calculator has no origin *)
Theorem rev_count_zero_iff_allnodes : forall d s p rows all st,
  wf_data_b d = true -> find_scenario d (q_scenario p) = Some s -> wf_params_b p = true ->
  wf_tables_b d p [] rows = true -> q_fwd p = false ->
  let k0 := mk_calc d p (conn_set d s) [] rows false true in
  rev_scan d p (with_rev k0 (k_arr k0) (-1) (k_taur k0) (set_usable (k_ov k0))) all = Ok st ->
  (r_count st = 0 <-> service_to_destination_b d s p rows all = false).
Proof.
  intros d s p rows all st Hwf _ Hp Htab Hfwd k0 Hscan.
  destruct (wf_tables_parts d p [] rows Htab) as (_ & N2 & _ & N4).
  exact (rev_count_zero_arrival d s p [] rows false all all st Hwf Hp N2 N4 Hfwd Hscan).
Qed.

Print Assumptions fwd_count_zero_iff.
Print Assumptions fwd_count_zero_iff_allnodes.
Print Assumptions rev_count_zero_iff.
Print Assumptions rev_count_zero_iff_allnodes.

(* ---------------------------------------------------------------------------------------------- *)
(* 6. soundness side of the forward scan: what an egress label (forwardEgressJourneysSteps) records   *)

Lemma fwd_fp_step_egr p c enter tau steps egr r :
  exists tau' steps' egr',
    fwd_fp_step p c enter (tau, steps, egr) r = (tau', steps', egr') /\
    (egr' = egr \/
     (c_to c = fp_node r /\
      egr' = upd egr (fp_node r) (Some (mk_js enter (Some c) (c_trip c) (fp_time r) true (fp_dist r))))).
Proof.
  unfold fwd_fp_step.
  destruct (negb (Nat.eqb (c_to c) (fp_node r)) && (tau (fp_node r) <? c_arr c));
    [exists tau, steps, egr; split; [reflexivity|left; reflexivity]|].
  destruct (fp_time r <=? q_maxtr p);
    [|exists tau, steps, egr; split; [reflexivity|left; reflexivity]].
  destruct (fp_time r + c_arr c <? tau (fp_node r)); cbv zeta.
  - destruct (Nat.eqb (c_to c) (fp_node r) &&
              match egr (fp_node r) with
              | None => true
              | Some j => match js_exit j with Some e => c_arr e >? c_arr c | None => false end
              end) eqn:E.
    + eexists _, _, _. split; [reflexivity|]. right. peel E E2. apply Nat.eqb_eq in E. split; [exact E|reflexivity].
    + eexists _, _, _. split; [reflexivity|]. left. reflexivity.
  - destruct (Nat.eqb (c_to c) (fp_node r) &&
              match egr (fp_node r) with
              | None => true
              | Some j => match js_exit j with Some e => c_arr e >? c_arr c | None => false end
              end) eqn:E.
    + eexists _, _, _. split; [reflexivity|]. right. peel E E2. apply Nat.eqb_eq in E. split; [exact E|reflexivity].
    + eexists _, _, _. split; [reflexivity|]. left. reflexivity.
Qed.

Lemma fwd_fp_fold_egr p c enter : forall rows tau steps egr,
  exists tau' steps' egr',
    fold_left (fwd_fp_step p c enter) rows (tau, steps, egr) = (tau', steps', egr') /\
    forall m, egr' m = egr m \/ (m = c_to c /\ exists j, egr' m = Some j /\ js_exit j = Some c).
Proof.
  induction rows as [|r rows IH]; intros tau steps egr; cbn [fold_left].
  - exists tau, steps, egr. split; [reflexivity|]. intros m. left. reflexivity.
  - destruct (fwd_fp_step_egr p c enter tau steps egr r) as (tau1 & steps1 & egr1 & E1 & H1).
    rewrite E1. destruct (IH tau1 steps1 egr1) as (tau2 & steps2 & egr2 & E2 & H2).
    exists tau2, steps2, egr2. split; [exact E2|]. intros m.
    destruct (H2 m) as [H2m|H2m]; [|right; exact H2m].
    rewrite H2m. destruct H1 as [H1|[H1a H1b]]; [subst egr1; left; reflexivity|].
    subst egr1. unfold upd. destruct (Nat.eqb m (fp_node r)) eqn:Em; [|left; reflexivity].
    apply Nat.eqb_eq in Em. right. split; [congruence|].
    eexists. split; [reflexivity|]. reflexivity.
Qed.

Lemma fwd_step_egr_spec d p k all st c :
  (f_ov (fwd_step d p k all st c) = f_ov st /\ f_egr (fwd_step d p k all st c) = f_egr st) \/
  (k_disabled k (c_trip c) = false /\ k_dep k + k_minAcc k <= c_dep c /\
   exists ov1, f_ov (fwd_step d p k all st c) = upd (f_ov st) (c_trip c) ov1 /\
     (ov1 = f_ov st (c_trip c) \/ o_usable ov1 = true) /\
     (f_egr (fwd_step d p k all st c) = f_egr st \/
      (is_some (o_enter ov1) = true /\
       forall m, f_egr (fwd_step d p k all st c) m = f_egr st m \/
                 (m = c_to c /\ exists j, f_egr (fwd_step d p k all st c) m = Some j /\ js_exit j = Some c)))).
Proof.
  unfold fwd_step.
  destruct (f_stop st); [left; split; reflexivity|].
  destruct (Z.geb_spec (c_dep c) (k_dep k + k_minAcc k)) as [E1|E1]; [|left; split; reflexivity].
  destruct (k_disabled k (c_trip c)) eqn:E2; [left; split; reflexivity|].
  match goal with
  | |- context [if ?b then {| f_tau := _ ; f_steps := _; f_ov := _; f_egr := _; f_count := _;
                             f_reached := _; f_tent := _; f_stop := true |} else _] => destruct b
  end; [left; split; reflexivity|].
  match goal with |- context [if ?b then _ else st] => destruct b end; [|left; split; reflexivity].
  right. split; [reflexivity|]. split; [exact E1|].
  set (ov1 := if c_cb c && negb (is_some (o_enter (f_ov st (c_trip c))))
              then {| o_usable := true; o_enter := Some c; o_enter_w := js_walk (f_steps st (c_from c));
                      o_exit := o_exit (f_ov st (c_trip c)); o_exit_w := o_exit_w (f_ov st (c_trip c)) |}
              else f_ov st (c_trip c)).
  exists ov1.
  assert (Hov : ov1 = f_ov st (c_trip c) \/ o_usable ov1 = true).
  { subst ov1. destruct (c_cb c && negb (is_some (o_enter (f_ov st (c_trip c)))));
      [right; reflexivity|left; reflexivity]. }
  destruct (c_cu c && is_some (o_enter ov1)) eqn:E5.
  - peel E5 E6.
    match goal with |- context [let '(_, _) := ?x in _] => destruct x as [re te] end.
    destruct (fwd_fp_fold_egr p c (o_enter ov1) (fp_of d (c_to c)) (f_tau st) (f_steps st) (f_egr st))
      as (t1 & s1 & e1 & F & HF).
    rewrite F. cbn [f_ov f_egr]. split; [reflexivity|]. split; [exact Hov|].
    right. split; [exact E6|exact HF].
  - cbn [f_ov f_egr]. split; [reflexivity|]. split; [exact Hov|]. left. reflexivity.
Qed.

Section FwdSound.
  Variables (d : data) (p : params) (k : calc) (all : bool) (Q : conn -> Prop).

  Definition egr_sound (st : fstate) : Prop :=
    (forall n j e, f_egr st n = Some j -> js_exit j = Some e ->
       c_to e = n /\ Q e /\ k_disabled k (c_trip e) = false /\ k_dep k + k_minAcc k <= c_dep e /\
       o_usable (f_ov st (c_trip e)) = true) /\
    (forall t, is_some (o_enter (f_ov st t)) = true -> o_usable (f_ov st t) = true).

  Lemma egr_sound_step st c : Q c -> egr_sound st -> egr_sound (fwd_step d p k all st c).
  Proof.
    intros HQ [H1 H2].
    destruct (fwd_step_egr_spec d p k all st c) as [[Eo Ee]|(Hd & Hg & ov1 & Eo & Hov & He)].
    - split.
      + intros n j e Hj Hx. rewrite Ee in Hj. rewrite Eo. apply (H1 n j e Hj Hx).
      + intros t. rewrite Eo. apply H2.
    - (* usability only grows *)
      assert (Hmono : forall t, o_usable (f_ov st t) = true -> o_usable (upd (f_ov st) (c_trip c) ov1 t) = true).
      { intros t Hu. unfold upd. destruct (Nat.eqb t (c_trip c)) eqn:Et; [|exact Hu].
        apply Nat.eqb_eq in Et. subst t. destruct Hov as [Hov|Hov]; [rewrite Hov; exact Hu|exact Hov]. }
      assert (Hnew : forall t, is_some (o_enter (upd (f_ov st) (c_trip c) ov1 t)) = true ->
                               o_usable (upd (f_ov st) (c_trip c) ov1 t) = true).
      { intros t. unfold upd. destruct (Nat.eqb t (c_trip c)) eqn:Et; [|apply H2].
        apply Nat.eqb_eq in Et. subst t. destruct Hov as [Hov|Hov]; [rewrite Hov; apply H2|intros _; exact Hov]. }
      split; [|intros t; rewrite Eo; apply Hnew].
      intros n j e Hj Hx. rewrite Eo.
      assert (Hold : f_egr st n = Some j ->
                     c_to e = n /\ Q e /\ k_disabled k (c_trip e) = false /\ k_dep k + k_minAcc k <= c_dep e /\
                     o_usable (upd (f_ov st) (c_trip c) ov1 (c_trip e)) = true).
      { intros Hj'. destruct (H1 n j e Hj' Hx) as (A1 & A2 & A3 & A4 & A5).
        repeat (split; [assumption|]). apply Hmono. exact A5. }
      destruct He as [He|[He1 He2]]; [rewrite He in Hj; apply Hold; exact Hj|].
      destruct (He2 n) as [Hm|(Hm & j' & Hj' & Hx')]; [rewrite Hm in Hj; apply Hold; exact Hj|].
      rewrite Hj in Hj'. inversion Hj'; subst j'. rewrite Hx in Hx'. inversion Hx'; subst e.
      split; [symmetry; exact Hm|]. split; [exact HQ|]. split; [exact Hd|]. split; [exact Hg|].
      apply Hnew. unfold upd. rewrite Nat.eqb_refl. exact He1.
  Qed.

  Lemma egr_sound_fold : forall L st, (forall c, In c L -> Q c) -> egr_sound st ->
    egr_sound (fold_left (fwd_step d p k all) L st).
  Proof.
    induction L as [|c L IH]; intros st HQ Hs; cbn [fold_left]; [exact Hs|].
    apply IH; [intros x Hx; apply HQ; right; exact Hx|].
    apply egr_sound_step; [apply HQ; left; reflexivity|exact Hs].
  Qed.

  Lemma egr_sound_init : (forall t, o_enter (k_ov k t) = None) -> egr_sound (fwd_init k).
  Proof.
    intros H0. unfold egr_sound, fwd_init. cbn [f_egr f_ov]. split.
    - intros n j e Hj. discriminate Hj.
    - intros t Ht. rewrite H0 in Ht. discriminate Ht.
  Qed.
End FwdSound.

(* best egress selection: the chosen arrival is the one of a recorded exit connection plus its egress walk *)
Lemma best_egress_spec p k fs t n :
  best_egress p k fs = Some (t, n) ->
  exists r j e er, In r (k_egrfp k) /\ f_egr fs (fp_node r) = Some j /\ js_exit j = Some e /\
                   row_of (fp_node r) (k_egrfp k) = Some er /\ t = c_arr e + fp_time er /\
                   0 <= t /\ t - k_dep k <= q_maxtt p.
Proof.
  unfold best_egress.
  set (P := fun (best : option (Z * nat)) => forall t n, best = Some (t, n) ->
    exists r j e er, In r (k_egrfp k) /\ f_egr fs (fp_node r) = Some j /\ js_exit j = Some e /\
                     row_of (fp_node r) (k_egrfp k) = Some er /\ t = c_arr e + fp_time er /\
                     0 <= t /\ t - k_dep k <= q_maxtt p).
  assert (G : forall rows best, (forall r, In r rows -> In r (k_egrfp k)) -> P best ->
    P (fold_left (fun best r =>
        match f_egr fs (fp_node r) with
        | Some j =>
            match js_exit j, row_of (fp_node r) (k_egrfp k) with
            | Some e, Some er =>
                let t := c_arr e + fp_time er in
                let b := match best with Some (bt, _) => bt | None => MAX_INT end in
                if (t >=? 0) && (t - k_dep k <=? q_maxtt p) && (t <? b) && (t <? MAX_INT)
                then Some (t, fp_node er) else best
            | _, _ => best
            end
        | None => best
        end) rows best)).
  { induction rows as [|r rows IH]; intros best Hin HB; cbn [fold_left]; [exact HB|].
    apply IH; [intros x Hx; apply Hin; right; exact Hx|].
    destruct (f_egr fs (fp_node r)) as [j|] eqn:Ej; [|exact HB].
    destruct (js_exit j) as [e|] eqn:Ee; [|exact HB].
    destruct (row_of (fp_node r) (k_egrfp k)) as [er|] eqn:Er; [|exact HB].
    cbv zeta.
    destruct ((c_arr e + fp_time er >=? 0) && (c_arr e + fp_time er - k_dep k <=? q_maxtt p) &&
              (c_arr e + fp_time er <? match best with Some (bt, _) => bt | None => MAX_INT end) &&
              (c_arr e + fp_time er <? MAX_INT)) eqn:E; [|exact HB].
    peel E E4. peel E E3. peel E E2. apply Z.geb_le in E. apply Z.leb_le in E2.
    intros t0 n0 H0. inversion H0; subst t0 n0.
    exists r, j, e, er. split; [apply Hin; left; reflexivity|]. repeat split; assumption. }
  intros H.
  assert (P0 : P None) by (intros t0 n0 H0; discriminate H0).
  exact (G (k_egrfp k) None (fun r (Hr : In r (k_egrfp k)) => Hr) P0 t n H).
Qed.

(* ---------------------------------------------------------------------------------------------- *)
(* 7. departure query: the reverse pass after a successful best_egress always counts a connection     *)

Lemma conn_dep_le_arr d c : wf_data_b d = true -> In c (all_conns d) -> c_dep c <= c_arr c.
Proof.
  intros Hwf Hc. destruct (all_conns_in d c Hc) as (tr & Htr & Hin).
  destruct (wf_trip d Hwf tr Htr) as (pth & _ & _ & Ht).
  unfold trip_conns in Hin. apply (mk_conns_times _ _ _ _ _ _ Ht) in Hin. lia.
Qed.

(* the exit connection that produced `best` arrives exactly at best - egress time, on a trip the forward
   scan marked usable: the reverse scan seeded with `best` counts it (or an earlier-scanned one) *)
Theorem dep_reverse_counts : forall d s p acc egr fs best n st,
  wf_data_b d = true -> wf_params_b p = true -> wf_tables_b d p acc egr = true -> q_fwd p = true ->
  let k := mk_calc d p (conn_set d s) acc egr true true in
  fwd_scan d p k false = Ok fs ->
  best_egress p k fs = Some (best, n) ->
  rev_scan d p (with_rev k best (k_dep k)
                  (fold_left (fun m r => upd m (fp_node r) (best - fp_time r)) (k_egrfp k) (k_taur k)) (f_ov fs))
           false = Ok st ->
  0 < r_count st.
Proof.
  intros d s p acc egr fs best n st Hwf Hp Htab Hfwd k Hscan Hbest Hrev.
  destruct (wf_tables_parts d p acc egr Htab) as (N1 & N2 & N3 & N4).
  pose proof (calc_single_rev_pre_departure d s p acc egr fs best Htab Hfwd Hscan) as Hpre.
  fold k in Hpre.
  (* forward soundness *)
  pose proof Hscan as Hscan'. unfold k in Hscan'.
  rewrite (fwd_scan_full d s p acc egr true Hwf Hp N3 Hfwd false) in Hscan'. fold k in Hscan'.
  inversion Hscan' as [Hfs]. clear Hscan'.
  assert (Hsound : egr_sound k (fun c => In c (cs_fwd (conn_set d s))) fs).
  { rewrite <- Hfs. apply egr_sound_fold; [intros c Hc; exact Hc|].
    apply egr_sound_init. intros t. reflexivity. }
  destruct (best_egress_spec p k fs best n Hbest) as (r & j & e & er & Hr & Hj & He & Her & Hbest' & Hb0 & Hbtt).
  change (k_egrfp k) with egr in Hr, Her.
  destruct Hsound as [Hs1 _]. destruct (Hs1 (fp_node r) j e Hj He) as (S1 & S2 & S3 & S4 & S5).
  apply cs_fwd_in_iff in S2. destruct S2 as [S2 S2m].
  pose proof (conn_dep_le_arr d e Hwf S2) as Hda.
  assert (Hmin0 : 0 <= k_minAcc k) by (change (k_minAcc k) with (min_time acc); apply min_time_nonneg; exact N3).
  apply (rev_count_pos d s p acc egr _ Hpre eq_refl N4) with (all := false) (c := e) (r := er).
  - unfold with_rev. cbn [k_arr]. exact Hb0.
  - exact Hrev.
  - apply cs_rev_in_iff. split; assumption.
  - unfold with_rev. cbn [k_ov]. exact S5.
  - unfold with_rev. cbn [k_disabled]. exact S3.
  - rewrite S1. exact Her.
  - unfold with_rev. cbn [k_arr]. lia.
  - unfold with_rev. cbn [k_arr]. lia.
Qed.

(* ---------------------------------------------------------------------------------------------- *)
(* 8. the reasons of calculateSingle                                                                *)

Lemma rev_journey_noroute d p k st best reason :
  rev_journey d p k st best = NoRouting reason -> reason = R_NO_ROUTING_FOUND.
Proof.
  unfold rev_journey. intros H.
  destruct best as [[bd node]|]; [|inversion H; reflexivity].
  destruct (r_acc st node) as [start|]; [|discriminate H].
  destruct (rebuild (REBUILD_FUEL d) (r_steps st) start [] None) as [[legs last]|]; [|discriminate H].
  destruct (row_of node (k_accfp k)) as [ar|]; [|discriminate H].
  destruct last as [ln|]; [|discriminate H].
  destruct (row_of ln (k_egrfp k)) as [er|]; [|discriminate H].
  destruct (optimize (OPT_FUEL d) d (walk_step ar :: legs ++ [walk_step er]) [] []); discriminate H.
Qed.

Lemma calc_reverse_noroute d p k reason :
  calc_reverse d p k = NoRouting reason ->
  exists st, rev_scan d p k false = Ok st /\
    ((r_count st = 0 /\ reason = R_NO_SERVICE_TO_DESTINATION) \/
     (r_count st <> 0 /\ reason = R_NO_ROUTING_FOUND)).
Proof.
  unfold calc_reverse. intros H.
  destruct (rev_scan d p k false) as [st|r| | | | | | |] eqn:Hscan; try discriminate H.
  2:{ exfalso. unfold rev_scan in Hscan.
      destruct (rev_entry (k_set k) (hour_of (k_arr k) + 1)); discriminate Hscan. }
  cbn [bind] in H. exists st. split; [reflexivity|].
  destruct (Z.eqb_spec (r_count st) 0) as [E|E].
  - left. inversion H. split; [exact E|reflexivity].
  - right. split; [exact E|]. apply (rev_journey_noroute d p k st _ reason H).
Qed.

Lemma calc_reverse_zero d p k st :
  rev_scan d p k false = Ok st -> r_count st = 0 -> calc_reverse d p k = NoRouting R_NO_SERVICE_TO_DESTINATION.
Proof.
  intros Hs H0. unfold calc_reverse. rewrite Hs. cbn [bind]. rewrite H0. reflexivity.
Qed.

(* Properties/Properties_C07.v, verbatim *)
Definition expected_reason (d : data) (s : scenario) (p : params) (acc egr : list fprow) : nat :=
  match acc, egr with
  | [], [] => R_NO_ACCESS_AT_ORIGIN_AND_DESTINATION
  | [], _ => R_NO_ACCESS_AT_ORIGIN
  | _, [] => R_NO_ACCESS_AT_DESTINATION
  | _, _ => if q_fwd p then (if service_from_origin_b d s p acc then R_NO_ROUTING_FOUND else R_NO_SERVICE_FROM_ORIGIN)
            else (if service_to_destination_b d s p egr false then R_NO_ROUTING_FOUND else R_NO_SERVICE_TO_DESTINATION)
  end.

Lemma access_reason_nonempty {A B} (acc : list A) (egr : list B) :
  acc <> [] -> egr <> [] -> access_reason (negb true || nonempty acc) (negb true || nonempty egr) = None.
Proof.
  intros Ha He. destruct acc as [|a acc]; [contradiction|]. destruct egr as [|e egr]; [contradiction|]. reflexivity.
Qed.

(* both tables non-empty, departure query *)
Lemma calc_single_reason_fwd d s p acc egr reason :
  wf_data_b d = true -> wf_params_b p = true -> wf_tables_b d p acc egr = true ->
  acc <> [] -> egr <> [] -> q_fwd p = true ->
  calc_single d (conn_set d s) p acc egr true = NoRouting reason ->
  reason = if service_from_origin_b d s p acc then R_NO_ROUTING_FOUND else R_NO_SERVICE_FROM_ORIGIN.
Proof.
  intros Hwf Hp Htab Ha He Hfwd H.
  destruct (wf_tables_parts d p acc egr Htab) as (N1 & N2 & N3 & N4).
  destruct (wf_params_parts p Hp) as (Htime & _ & _).
  unfold calc_single in H. rewrite (access_reason_nonempty acc egr Ha He) in H. cbv zeta in H.
  set (k := mk_calc d p (conn_set d s) acc egr true true) in *.
  assert (Ek : k_dep k = q_time p) by (apply fk_dep; exact Hfwd).
  assert (Eg : (k_dep k >? -1) = true) by (apply Z.gtb_lt; lia).
  rewrite Eg, Hfwd in H. cbn [andb] in H.
  pose proof (fwd_scan_full d s p acc egr true Hwf Hp N3 Hfwd false) as Hscan. fold k in Hscan.
  rewrite Hscan in H. cbn [bind] in H.
  set (fs := fold_left (fwd_step d p k false) (cs_fwd (conn_set d s)) (fwd_init k)) in *.
  pose proof (fwd_count_zero_gen d s p acc egr true Hwf Hp N1 N3 Hfwd false fs Hscan) as Hiff.
  destruct (Z.eqb_spec (f_count fs) 0) as [E|E].
  - rewrite (proj1 Hiff E). inversion H. reflexivity.
  - destruct (service_from_origin_b d s p acc) eqn:Es; [|exfalso; apply E; apply Hiff; reflexivity].
    destruct (best_egress p k fs) as [[best n]|] eqn:Hbest; [|inversion H; reflexivity].
    destruct (calc_reverse_noroute d p _ reason H) as (st & Hrev & [[H0 _]|[_ Hr]]); [|exact Hr].
    pose proof (dep_reverse_counts d s p acc egr fs best n st Hwf Hp Htab Hfwd Hscan Hbest Hrev). lia.
Qed.

(* both tables non-empty, arrival query *)
Lemma calc_single_reason_rev d s p acc egr reason :
  wf_data_b d = true -> wf_params_b p = true -> wf_tables_b d p acc egr = true ->
  acc <> [] -> egr <> [] -> q_fwd p = false ->
  calc_single d (conn_set d s) p acc egr true = NoRouting reason ->
  reason = if service_to_destination_b d s p egr false then R_NO_ROUTING_FOUND else R_NO_SERVICE_TO_DESTINATION.
Proof.
  intros Hwf Hp Htab Ha He Hfwd H.
  destruct (wf_tables_parts d p acc egr Htab) as (N1 & N2 & N3 & N4).
  destruct (wf_params_parts p Hp) as (Htime & _ & _).
  unfold calc_single in H. rewrite (access_reason_nonempty acc egr Ha He) in H. cbv zeta in H.
  set (k := mk_calc d p (conn_set d s) acc egr true true) in *.
  assert (Ek : k_arr k = q_time p) by (unfold k, mk_calc; cbn [k_arr]; rewrite Hfwd; reflexivity).
  assert (Eg : (k_arr k >? -1) = true) by (apply Z.gtb_lt; lia).
  rewrite Hfwd, andb_false_r, Eg in H.
  destruct (calc_reverse_noroute d p _ reason H) as (st & Hrev & Hcases).
  pose proof (rev_count_zero_arrival d s p acc egr true false false st Hwf Hp N2 N4 Hfwd Hrev) as Hiff.
  destruct Hcases as [[H0 Hr]|[H0 Hr]].
  - rewrite (proj1 Hiff H0). exact Hr.
  - destruct (service_to_destination_b d s p egr false) eqn:Es; [exact Hr|].
    exfalso. apply H0. apply Hiff. reflexivity.
Qed.

(* C07 for calculateSingle: the reason of a no_routing_found answer is the most specific true one *)
Theorem C07_reason : forall d s p acc egr,
  wf_data_b d = true -> find_scenario d (q_scenario p) = Some s -> wf_params_b p = true ->
  wf_tables_b d p acc egr = true ->
  forall reason, calc_single d (conn_set d s) p acc egr true = NoRouting reason ->
                 reason = expected_reason d s p acc egr.
Proof.
  intros d s p acc egr Hwf _ Hp Htab reason H.
  destruct acc as [|a acc'] eqn:Eacc; destruct egr as [|e egr'] eqn:Eegr.
  - unfold calc_single, access_reason in H. cbn [negb orb andb nonempty] in H. inversion H. reflexivity.
  - unfold calc_single, access_reason in H. cbn [negb orb andb nonempty] in H. inversion H. reflexivity.
  - unfold calc_single, access_reason in H. cbn [negb orb andb nonempty] in H. inversion H. reflexivity.
  - unfold expected_reason. destruct (q_fwd p) eqn:Hfwd.
    + apply (calc_single_reason_fwd d s p (a :: acc') (e :: egr') reason Hwf Hp Htab); try assumption; discriminate.
    + apply (calc_single_reason_rev d s p (a :: acc') (e :: egr') reason Hwf Hp Htab); try assumption; discriminate.
Qed.

(* converses: a false fact is always reported *)
Theorem C07_no_service_from_origin : forall d s p acc egr,
  wf_data_b d = true -> wf_params_b p = true -> wf_tables_b d p acc egr = true ->
  acc <> [] -> egr <> [] -> q_fwd p = true -> service_from_origin_b d s p acc = false ->
  calc_single d (conn_set d s) p acc egr true = NoRouting R_NO_SERVICE_FROM_ORIGIN.
Proof.
  intros d s p acc egr Hwf Hp Htab Ha He Hfwd Hs.
  destruct (wf_tables_parts d p acc egr Htab) as (N1 & N2 & N3 & N4).
  destruct (wf_params_parts p Hp) as (Htime & _ & _).
  unfold calc_single. rewrite (access_reason_nonempty acc egr Ha He). cbv zeta.
  set (k := mk_calc d p (conn_set d s) acc egr true true).
  assert (Ek : k_dep k = q_time p) by (apply fk_dep; exact Hfwd).
  assert (Eg : (k_dep k >? -1) = true) by (apply Z.gtb_lt; lia).
  rewrite Eg, Hfwd. cbn [andb].
  pose proof (fwd_scan_full d s p acc egr true Hwf Hp N3 Hfwd false) as Hscan. fold k in Hscan.
  pose proof (fwd_count_zero_gen d s p acc egr true Hwf Hp N1 N3 Hfwd false _ Hscan) as Hiff.
  rewrite Hscan. cbn [bind]. rewrite (proj2 Hiff Hs). reflexivity.
Qed.

Theorem C07_no_service_to_destination : forall d s p acc egr,
  wf_data_b d = true -> wf_params_b p = true -> wf_tables_b d p acc egr = true ->
  acc <> [] -> egr <> [] -> q_fwd p = false -> service_to_destination_b d s p egr false = false ->
  calc_single d (conn_set d s) p acc egr true = NoRouting R_NO_SERVICE_TO_DESTINATION.
Proof.
  intros d s p acc egr Hwf Hp Htab Ha He Hfwd Hs.
  destruct (wf_tables_parts d p acc egr Htab) as (N1 & N2 & N3 & N4).
  destruct (wf_params_parts p Hp) as (Htime & _ & _).
  unfold calc_single. rewrite (access_reason_nonempty acc egr Ha He). cbv zeta.
  set (k := mk_calc d p (conn_set d s) acc egr true true).
  assert (Ek : k_arr k = q_time p) by (unfold k, mk_calc; cbn [k_arr]; rewrite Hfwd; reflexivity).
  assert (Eg : (k_arr k >? -1) = true) by (apply Z.gtb_lt; lia).
  rewrite Hfwd, andb_false_r, Eg.
  set (k' := with_rev k (k_arr k) (-1) (k_taur k) (set_usable (k_ov k))).
  assert (Hpre : rev_pre d s p acc egr k') by (apply (rev_pre_arrival_gen d s p acc egr true N2)).
  assert (Harr : 0 <= k_arr k') by (unfold k', with_rev; cbn [k_arr]; lia).
  pose proof (rev_scan_full d s p acc egr k' Hpre eq_refl N4 Harr false) as Hscan.
  pose proof (rev_count_zero_arrival d s p acc egr true false false _ Hwf Hp N2 N4 Hfwd Hscan) as Hiff.
  apply (calc_reverse_zero d p k' _ Hscan). apply Hiff. exact Hs.
Qed.

Print Assumptions dep_reverse_counts.
Print Assumptions C07_reason.
Print Assumptions C07_no_service_from_origin.
Print Assumptions C07_no_service_to_destination.

(* ---------------------------------------------------------------------------------------------- *)
(* 9. the reasons of calculateAllNodes (accessibility)                                              *)

Lemma fwd_allnodes_loop_not_noroute d p k fs : forall nodes reason,
  fwd_allnodes_loop d p k fs nodes <> NoRouting reason.
Proof.
  induction nodes as [|n r IH]; intros reason H; cbn [fwd_allnodes_loop] in H; [discriminate H|].
  destruct (f_egr fs n) as [j|]; [|exact (IH reason H)].
  destruct (count_transfers_fwd (REBUILD_FUEL d) d (f_steps fs) j (-1)) as [ntr|]; [|discriminate H].
  destruct (fwd_allnodes_loop d p k fs r) as [rest|r0| | | | | | |] eqn:E; cbn [bind] in H; try discriminate H.
  - destruct (js_enter j); [|discriminate H]. destruct (js_exit j) as [e|]; [|discriminate H].
    destruct (c_arr e - k_dep k <=? q_maxtt p); discriminate H.
  - exact (IH r0 eq_refl).
Qed.

Lemma rev_allnodes_loop_not_noroute d p k st : forall nodes reason,
  rev_allnodes_loop d p k st nodes <> NoRouting reason.
Proof.
  induction nodes as [|n r IH]; intros reason H; cbn [rev_allnodes_loop] in H; [discriminate H|].
  destruct (r_acc st n) as [start|]; [|exact (IH reason H)].
  destruct (rebuild (REBUILD_FUEL d) (r_steps st) start [] None) as [[legs last]|]; [|discriminate H].
  destruct last as [ln|]; [|discriminate H].
  destruct (row_of ln (k_egrfp k)) as [er|]; [|discriminate H].
  destruct (optimize (OPT_FUEL d) d (legs ++ [walk_step er]) [] []) as [js1 used| |]; try discriminate H.
  destruct (rev_allnodes_loop d p k st r) as [rest|r0| | | | | | |] eqn:E; cbn [bind] in H; try discriminate H.
  - destruct (js_enter start) as [b|]; [|discriminate H].
    destruct (k_arr k - (c_dep b - minw_eff p b) <=? q_maxtt p); discriminate H.
  - exact (IH r0 eq_refl).
Qed.

(* the fact behind the service reason of an accessibility query *)
Definition access_service_b (d : data) (s : scenario) (p : params) (rows : list fprow) : bool :=
  if q_fwd p then service_from_origin_b d s p rows else service_to_destination_b d s p rows true.

Definition expected_access_reason (p : params) (rows : list fprow) : nat :=
  match rows with
  | [] => if q_fwd p then R_NO_ACCESS_AT_ORIGIN else R_NO_ACCESS_AT_DESTINATION
  | _ => if q_fwd p then R_NO_SERVICE_FROM_ORIGIN else R_NO_SERVICE_TO_DESTINATION
  end.

Lemma calc_allnodes_fwd_nonempty d s p rows :
  wf_data_b d = true -> wf_params_b p = true -> wf_tables_b d p rows [] = true ->
  rows <> [] -> q_fwd p = true ->
  (service_from_origin_b d s p rows = false ->
   calc_allnodes d (conn_set d s) p rows = NoRouting R_NO_SERVICE_FROM_ORIGIN) /\
  (service_from_origin_b d s p rows = true ->
   forall reason, calc_allnodes d (conn_set d s) p rows <> NoRouting reason).
Proof.
  intros Hwf Hp Htab Hne Hfwd.
  destruct (wf_tables_parts d p rows [] Htab) as (N1 & _ & N3 & _).
  destruct (wf_params_parts p Hp) as (Htime & _ & _).
  unfold calc_allnodes. rewrite Hfwd. cbv zeta.
  assert (Ear : access_reason (nonempty rows) true = None) by (destruct rows; [contradiction|reflexivity]).
  rewrite Ear.
  set (k := mk_calc d p (conn_set d s) rows [] true false).
  assert (Ek : k_dep k = q_time p) by (apply fk_dep; exact Hfwd).
  assert (Eg : (k_dep k >? -1) = true) by (apply Z.gtb_lt; lia).
  rewrite Eg.
  pose proof (fwd_scan_full d s p rows [] false Hwf Hp N3 Hfwd true) as Hscan. fold k in Hscan.
  pose proof (fwd_count_zero_gen d s p rows [] false Hwf Hp N1 N3 Hfwd true _ Hscan) as Hiff. fold k in Hiff.
  rewrite Hscan. cbn [bind].
  set (fs := fold_left (fwd_step d p k true) (cs_fwd (conn_set d s)) (fwd_init k)) in *.
  split.
  - intros Hs. rewrite (proj2 Hiff Hs). reflexivity.
  - intros Hs reason H.
    destruct (Z.eqb_spec (f_count fs) 0) as [E|E]; [rewrite (proj1 Hiff E) in Hs; discriminate Hs|].
    destruct (fwd_allnodes_loop d p k fs (d_nodes d)) as [l|r0| | | | | | |] eqn:El; cbn [bind] in H;
      try discriminate H.
    exact (fwd_allnodes_loop_not_noroute d p k fs (d_nodes d) r0 El).
Qed.

Lemma calc_allnodes_rev_nonempty d s p rows :
  wf_data_b d = true -> wf_params_b p = true -> wf_tables_b d p [] rows = true ->
  rows <> [] -> q_fwd p = false ->
  (service_to_destination_b d s p rows true = false ->
   calc_allnodes d (conn_set d s) p rows = NoRouting R_NO_SERVICE_TO_DESTINATION) /\
  (service_to_destination_b d s p rows true = true ->
   forall reason, calc_allnodes d (conn_set d s) p rows <> NoRouting reason).
Proof.
  intros Hwf Hp Htab Hne Hfwd.
  destruct (wf_tables_parts d p [] rows Htab) as (_ & N2 & _ & N4).
  destruct (wf_params_parts p Hp) as (Htime & _ & _).
  unfold calc_allnodes. rewrite Hfwd. cbv zeta.
  assert (Ear : access_reason true (nonempty rows) = None) by (destruct rows; [contradiction|reflexivity]).
  rewrite Ear.
  set (k0 := mk_calc d p (conn_set d s) [] rows false true).
  set (k := with_rev k0 (k_arr k0) (-1) (k_taur k0) (set_usable (k_ov k0))).
  assert (Ek : k_arr k = q_time p) by (unfold k, with_rev, k0, mk_calc; cbn [k_arr]; rewrite Hfwd; reflexivity).
  assert (Eg : (k_arr k >? -1) = true) by (apply Z.gtb_lt; lia).
  rewrite Eg.
  assert (Hpre : rev_pre d s p [] rows k) by (apply (rev_pre_arrival_gen d s p [] rows false N2)).
  assert (Harr : 0 <= k_arr k) by lia.
  pose proof (rev_scan_full d s p [] rows k Hpre eq_refl N4 Harr true) as Hscan.
  pose proof (rev_count_zero_arrival d s p [] rows false true true _ Hwf Hp N2 N4 Hfwd Hscan) as Hiff.
  rewrite Hscan. cbn [bind].
  set (st := fold_left (rev_step d p k true) (cs_rev (conn_set d s)) (rev_init k)) in *.
  split.
  - intros Hs. rewrite (proj2 Hiff Hs). reflexivity.
  - intros Hs reason H.
    destruct (Z.eqb_spec (r_count st) 0) as [E|E]; [rewrite (proj1 Hiff E) in Hs; discriminate Hs|].
    destruct (rev_allnodes_loop d p k st (d_nodes d)) as [l|r0| | | | | | |] eqn:El; cbn [bind] in H;
      try discriminate H.
    exact (rev_allnodes_loop_not_noroute d p k st (d_nodes d) r0 El).
Qed.

(* C07 for calculateAllNodes: a no-routing answer is given exactly when the table is empty or the service fact
   is false, and its reason says which *)
Theorem C07_access_reason : forall d s p rows,
  wf_data_b d = true -> find_scenario d (q_scenario p) = Some s -> wf_params_b p = true ->
  (if q_fwd p then wf_tables_b d p rows [] else wf_tables_b d p [] rows) = true ->
  forall reason,
    calc_allnodes d (conn_set d s) p rows = NoRouting reason <->
    (rows = [] \/ access_service_b d s p rows = false) /\ reason = expected_access_reason p rows.
Proof.
  intros d s p rows Hwf _ Hp Htab reason.
  destruct rows as [|a rows'] eqn:Erows.
  - (* empty table: NO_ACCESS *)
    assert (E : calc_allnodes d (conn_set d s) p [] = NoRouting (expected_access_reason p [])).
    { unfold calc_allnodes, expected_access_reason, access_reason.
      destruct (q_fwd p); cbn [nonempty negb andb]; reflexivity. }
    rewrite E. split.
    + intros H. inversion H. split; [left; reflexivity|reflexivity].
    + intros [_ H]. rewrite H. reflexivity.
  - assert (Hne : a :: rows' <> []) by discriminate.
    unfold access_service_b, expected_access_reason. destruct (q_fwd p) eqn:Hfwd.
    + destruct (calc_allnodes_fwd_nonempty d s p (a :: rows') Hwf Hp Htab Hne Hfwd) as [H1 H2].
      destruct (service_from_origin_b d s p (a :: rows')) eqn:Es.
      * split; [intros H; exfalso; exact (H2 eq_refl reason H)|].
        intros [[H|H] _]; discriminate H.
      * rewrite (H1 eq_refl). split.
        -- intros H. inversion H. split; [right; reflexivity|reflexivity].
        -- intros [_ H]. rewrite H. reflexivity.
    + destruct (calc_allnodes_rev_nonempty d s p (a :: rows') Hwf Hp Htab Hne Hfwd) as [H1 H2].
      destruct (service_to_destination_b d s p (a :: rows') true) eqn:Es.
      * split; [intros H; exfalso; exact (H2 eq_refl reason H)|].
        intros [[H|H] _]; discriminate H.
      * rewrite (H1 eq_refl). split.
        -- intros H. inversion H. split; [right; reflexivity|reflexivity].
        -- intros [_ H]. rewrite H. reflexivity.
Qed.

Print Assumptions C07_access_reason.

(* ---------------------------------------------------------------------------------------------- *)
(* 10. "exactly when": the two service reasons of calculateSingle characterised                      *)

Corollary C07_from_origin_exactly : forall d s p acc egr,
  wf_data_b d = true -> find_scenario d (q_scenario p) = Some s -> wf_params_b p = true ->
  wf_tables_b d p acc egr = true -> acc <> [] -> egr <> [] ->
  (calc_single d (conn_set d s) p acc egr true = NoRouting R_NO_SERVICE_FROM_ORIGIN <->
   q_fwd p = true /\ service_from_origin_b d s p acc = false).
Proof.
  intros d s p acc egr Hwf Hs Hp Htab Ha He. split.
  - intros H. pose proof (C07_reason d s p acc egr Hwf Hs Hp Htab _ H) as E.
    unfold expected_reason in E.
    destruct acc as [|a acc']; [contradiction|]. destruct egr as [|e egr']; [contradiction|].
    destruct (q_fwd p).
    + destruct (service_from_origin_b d s p (a :: acc')); [discriminate E|split; reflexivity].
    + destruct (service_to_destination_b d s p (e :: egr') false); discriminate E.
  - intros [Hfwd Hf]. apply C07_no_service_from_origin; assumption.
Qed.

Corollary C07_to_destination_exactly : forall d s p acc egr,
  wf_data_b d = true -> find_scenario d (q_scenario p) = Some s -> wf_params_b p = true ->
  wf_tables_b d p acc egr = true -> acc <> [] -> egr <> [] ->
  (calc_single d (conn_set d s) p acc egr true = NoRouting R_NO_SERVICE_TO_DESTINATION <->
   q_fwd p = false /\ service_to_destination_b d s p egr false = false).
Proof.
  intros d s p acc egr Hwf Hs Hp Htab Ha He. split.
  - intros H. pose proof (C07_reason d s p acc egr Hwf Hs Hp Htab _ H) as E.
    unfold expected_reason in E.
    destruct acc as [|a acc']; [contradiction|]. destruct egr as [|e egr']; [contradiction|].
    destruct (q_fwd p).
    + destruct (service_from_origin_b d s p (a :: acc')); discriminate E.
    + destruct (service_to_destination_b d s p (e :: egr') false); [discriminate E|split; reflexivity].
  - intros [Hfwd Hf]. apply C07_no_service_to_destination; assumption.
Qed.

Print Assumptions C07_from_origin_exactly.
Print Assumptions C07_to_destination_exactly.

(* ---------------------------------------------------------------------------------------------- *)
(* 11. evaluated instances: every hypothesis is satisfiable and every reason occurs; the table
       hypothesis is needed                                                                          *)
From TrV Require Import Examples.

(* the three non-access reasons, each with wf_data_b / wf_params_b / wf_tables_b true *)
Example C07_instances :
  wf_data_b ex_data = true /\
  (* departure at 37000: the last vehicle has left *)
  (wf_params_b (ex_params true 37000) = true /\ wf_tables_b ex_data (ex_params true 37000) ex_acc ex_egr = true /\
   calc_single ex_data (conn_set ex_data scen_all) (ex_params true 37000) ex_acc ex_egr true
     = NoRouting R_NO_SERVICE_FROM_ORIGIN /\
   expected_reason ex_data scen_all (ex_params true 37000) ex_acc ex_egr = R_NO_SERVICE_FROM_ORIGIN) /\
  (* arrival by 36000: no vehicle has reached stop 4 yet *)
  (wf_params_b (ex_params false 36000) = true /\
   calc_single ex_data (conn_set ex_data scen_all) (ex_params false 36000) ex_acc ex_egr true
     = NoRouting R_NO_SERVICE_TO_DESTINATION /\
   expected_reason ex_data scen_all (ex_params false 36000) ex_acc ex_egr = R_NO_SERVICE_TO_DESTINATION) /\
  (* departure at 36250 from stop 2 towards stop 1: vehicles leave stop 2, none reaches stop 1 *)
  (calc_single ex_data (conn_set ex_data scen_all) (ex_params true 36250) [row 2 0 0] [row 1 0 0] true
     = NoRouting R_NO_ROUTING_FOUND /\
   wf_tables_b ex_data (ex_params true 36250) [row 2 0 0] [row 1 0 0] = true /\
   expected_reason ex_data scen_all (ex_params true 36250) [row 2 0 0] [row 1 0 0] = R_NO_ROUTING_FOUND).
Proof. vm_compute. repeat split; reflexivity. Qed.

(* without wf_tables_b the statement C07_full_statement of Properties/Properties_C07.v is false of the model:
   with two access rows for the same stop the tentative-time seed keeps the LAST row (resets.cpp loop) while
   nodesAccess / the C07 fact read the FIRST one (emplace) *)
Example C07_needs_distinct_table_stops :
  let p := ex_params true 35000 in
  let acc := [row 1 100 120; row 1 20000 0] in
  wf_data_b ex_data = true /\ find_scenario ex_data (q_scenario p) = Some scen_all /\ wf_params_b p = true /\
  wf_tables_b ex_data p acc ex_egr = false /\
  calc_single ex_data (conn_set ex_data scen_all) p acc ex_egr true = NoRouting R_NO_SERVICE_FROM_ORIGIN /\
  expected_reason ex_data scen_all p acc ex_egr = R_NO_ROUTING_FOUND.
Proof. vm_compute. repeat split; reflexivity. Qed.

(* ---------------------------------------------------------------------------------------------- *)
(* Summary.
   Proved (all Closed under the global context):
     fwd_count_zero_iff, fwd_count_zero_iff_allnodes   (generic form: fwd_count_zero_gen)
     rev_count_zero_iff, rev_count_zero_iff_allnodes   (generic form: rev_count_zero_gen / rev_count_zero_arrival)
     dep_reverse_counts      a departure query never answers NO_SERVICE_TO_DESTINATION: after best_egress = Some
                             the reverse scan counts the exit connection that produced `best`
     C07_reason              calc_single ... = NoRouting reason -> reason = expected_reason d s p acc egr
     C07_no_service_from_origin, C07_no_service_to_destination, C07_from_origin_exactly, C07_to_destination_exactly
     C07_access_reason       calc_allnodes ... = NoRouting reason <-> (rows = [] \/ fact false) /\ reason = expected
   Extra hypothesis with respect to C07_full_statement of Properties/Properties_C07.v: wf_tables_b d p acc egr = true
   (used: distinct stops in each table, times >= 0).  It is needed: C07_needs_distinct_table_stops.
   No first-guard / minimum-waiting / first-waiting-cap corner was found: the iffs hold for every q_minw >= 0 and
   every normalised q_maxfw.
   OPEN: nothing of the task; not attempted: the reasons of `alternatives` (its first calculation is calc_single,
   so C07_reason applies to the reason it propagates through `bind`). *)
