(* CollLoadersTie.v — Loader2.v's collection loaders ARE the interpretation (CollCode.v) of the loader descriptions that
   tools/gen_coll_loaders.py translated from the current C++ sources (gen/CollLoaders.v, regenerated on every run).

     frames      for each of the seven loaders: running the regenerated statement tree of the function body - clear, open,
                 the failed-open block, try / handlers in source order, loop, close, return - from ANY previous map contents,
                 ANY initial value of `ret` gives exactly `load_coll step (cleared state) file`: (empty, -ENOENT) for a missing
                 file, (empty, -errno) for another open failure, -EBADMSG when the decoder throws after a prefix, -EINVAL when
                 an entry throws, 0 otherwise; entries consumed before an exception stay (`*_frame`)
     entries     agency_step / service_step / nodecoll_step (stops, data sources) / line_step / path_step / scenario_step =
                 the interpretation of the regenerated loop body (`*_step_tie`)
     loaders     load_agencies / load_services / load_nodecoll / load_datasources / load_lines / load_paths / load_scenarios
                 = run of the regenerated loader (`load_*_is_code`), for every initial content of the C++ locals
     duplicates  agencies, services, data sources are stored with `ts[uuid] = t` (last wins), stops with emplace (first
                 wins): on id-only collections the two coincide (`ins_last_id`); lines and paths: emplace = ins_first;
                 scenarios: `ts[uuid].member = ...` = one ins_last of the entry found or created (`upsert_chain`)
     scenarios   `scenario_lists_code`: each of the nine members is assigned from a vector that is declared in the same
                 entry and filled by exactly one loop over the capnp list of the same name, behind `count`, from the
                 collection of that kind

   What stays hand-written: the getter table of the interpreters (CollCode.v header), the abstraction of the messages
   (Loader2.v: `*_rest_ok`, `seg`), and the per-stop phase of getNodes (`FRest`; LoaderGuardsTie.v). *)
From Coq Require Import List ZArith Bool Arith Lia.
Import ListNotations.
From TrV Require Import Loader2 CollCode.
From TrV Require gen.CollLoaders.
Module CL := TrV.gen.CollLoaders.

(* ---- generic facts ---------------------------------------------------------------------------------------- *)
Lemma ins_last_id : forall x l, ins_last (fun a : nat => a) x l = ins_first (fun a : nat => a) x l.
Proof.
  intros x l. induction l as [|y r IH]; simpl; [reflexivity|].
  destruct (Nat.ltb x y); [reflexivity|].
  destruct (Nat.eqb x y) eqn:E; [apply Nat.eqb_eq in E; subst; reflexivity|].
  rewrite IH. reflexivity.
Qed.

Lemma ins_by_id : forall k x l, ins_by (fun a : nat => a) k x l = set_add x l.
Proof. intros [|] x l; simpl; [reflexivity|apply ins_last_id]. Qed.

Lemma fold_entries_ext {S M} (f g : S -> M -> S * bool) :
  (forall s m, f s m = g s m) -> forall l s, fold_entries f l s = fold_entries g l s.
Proof.
  intros H l. induction l as [|m r IH]; intros s; simpl; [reflexivity|].
  rewrite H. destruct (g s m) as [s1 [|]]; [apply IH|reflexivity].
Qed.

Lemma load_coll_ext {S M} (f g : S -> M -> S * bool) empty file :
  (forall s m, f s m = g s m) -> load_coll f empty file = load_coll g empty file.
Proof. intros H. destruct file; simpl; try reflexivity; rewrite (fold_entries_ext f g H); reflexivity. Qed.

(* a loop whose state carries C++ locals next to the map: the map component evolves as the model's loop *)
Lemma fold_entries_sim {A B M} (proj : A -> B) (f : A -> M -> A * bool) (g : B -> M -> B * bool) :
  (forall a m, proj (fst (f a m)) = fst (g (proj a) m) /\ snd (f a m) = snd (g (proj a) m)) ->
  forall l a, proj (fst (fold_entries f l a)) = fst (fold_entries g l (proj a)) /\
              snd (fold_entries f l a) = snd (fold_entries g l (proj a)).
Proof.
  intros H l. induction l as [|m r IH]; intros a; simpl; [split; reflexivity|].
  destruct (H a m) as [H1 H2].
  destruct (f a m) as [a1 ok] eqn:Ef. destruct (g (proj a) m) as [b1 ok'] eqn:Eg. simpl in *. subst.
  destruct ok'; [apply IH|split; reflexivity].
Qed.

Lemma load_coll_sim {A B M} (proj : A -> B) (f : A -> M -> A * bool) (g : B -> M -> B * bool) a file :
  (forall a m, proj (fst (f a m)) = fst (g (proj a) m) /\ snd (f a m) = snd (g (proj a) m)) ->
  (proj (fst (load_coll f a file)), snd (load_coll f a file)) = load_coll g (proj a) file.
Proof.
  intros H. destruct file as [| |p|msg]; simpl; try reflexivity.
  - destruct (fold_entries_sim proj f g H p a) as [H1 H2].
    destruct (fold_entries f p a) as [a1 ok]. destruct (fold_entries g p (proj a)) as [b1 ok']. simpl in *. subst. reflexivity.
  - destruct (fold_entries_sim proj f g H msg a) as [H1 H2].
    destruct (fold_entries f msg a) as [a1 ok]. destruct (fold_entries g msg (proj a)) as [b1 ok']. simpl in *. subst. reflexivity.
Qed.

(* ---- frames ------------------------------------------------------------------------------------------------- *)
Ltac frame_tac Hpre :=
  intros; unfold run_frame;
  match goal with |- context [run_fs _ _ _ _ ?file _ _ _] => destruct file as [| |garbled|decoded] end;
  cbn; rewrite ?Hpre; try reflexivity;
  match goal with |- context [fold_entries ?f ?l ?s] => destruct (fold_entries f l s) as [s1 [|]] end; reflexivity.

Section Frames.
  Context {S M : Type}.
  Variables (clear pre : S -> S) (step : S -> M -> S * bool).
  Hypothesis Hpre : forall s, pre s = s.

  Lemma agencies_frame : forall file s0 r0,
    run_frame CAgencies clear pre step file (lc_frame CL.gen_agencies_loader) s0 r0 = Some (load_coll step (clear s0) file).
  Proof. frame_tac Hpre. Qed.
  Lemma services_frame : forall file s0 r0,
    run_frame CServices clear pre step file (lc_frame CL.gen_services_loader) s0 r0 = Some (load_coll step (clear s0) file).
  Proof. frame_tac Hpre. Qed.
  Lemma nodes_frame : forall file s0 r0,
    run_frame CNodes clear pre step file (lc_frame CL.gen_nodes_loader) s0 r0 = Some (load_coll step (clear s0) file).
  Proof. frame_tac Hpre. Qed.
  Lemma lines_frame : forall file s0 r0,
    run_frame CLines clear pre step file (lc_frame CL.gen_lines_loader) s0 r0 = Some (load_coll step (clear s0) file).
  Proof. frame_tac Hpre. Qed.
  Lemma paths_frame : forall file s0 r0,
    run_frame CPaths clear pre step file (lc_frame CL.gen_paths_loader) s0 r0 = Some (load_coll step (clear s0) file).
  Proof. frame_tac Hpre. Qed.
  Lemma scenarios_frame : forall file s0 r0,
    run_frame CScenarios clear pre step file (lc_frame CL.gen_scenarios_loader) s0 r0 = Some (load_coll step (clear s0) file).
  Proof. frame_tac Hpre. Qed.
  Lemma datasources_frame : forall file s0 r0,
    run_frame CDataSources clear pre step file (lc_frame CL.gen_datasources_loader) s0 r0 = Some (load_coll step (clear s0) file).
  Proof. frame_tac Hpre. Qed.
End Frames.

(* ---- id-only collections -------------------------------------------------------------------------------------- *)
Lemma agency_step_tie : forall s m,
  agency_step s m = simple_step (am_id m) (am_rest_ok m) (lc_item CL.gen_agencies_loader) s.
Proof.
  intros s m. unfold agency_step, simple_step. destruct (am_id m) as [a|]; destruct (am_rest_ok m); cbn;
    rewrite ?ins_last_id, ?ins_by_id; reflexivity.
Qed.

Lemma service_step_tie : forall s m,
  service_step s m = simple_step (vm_id m) (vm_rest_ok m) (lc_item CL.gen_services_loader) s.
Proof.
  intros s m. unfold service_step, simple_step. destruct (vm_id m) as [a|]; destruct (vm_rest_ok m); cbn;
    rewrite ?ins_last_id, ?ins_by_id; reflexivity.
Qed.

Lemma nodecoll_step_tie : forall s m,
  nodecoll_step s m = simple_step m true (lc_item CL.gen_nodes_loader) s.
Proof.
  intros s m. unfold nodecoll_step, simple_step. destruct m as [a|]; cbn; rewrite ?ins_last_id, ?ins_by_id; reflexivity.
Qed.

Lemma datasource_step_tie : forall s m,
  nodecoll_step s m = simple_step m true (lc_item CL.gen_datasources_loader) s.
Proof.
  intros s m. unfold nodecoll_step, simple_step. destruct m as [a|]; cbn; rewrite ?ins_last_id, ?ins_by_id; reflexivity.
Qed.

Theorem load_agencies_is_code : forall f s0 r0,
  run_simple CAgencies am_id am_rest_ok CL.gen_agencies_loader f s0 r0 = Some (load_agencies f).
Proof.
  intros. unfold run_simple. rewrite agencies_frame by reflexivity. unfold load_agencies.
  f_equal. apply load_coll_ext. intros; symmetry; apply agency_step_tie.
Qed.

Theorem load_services_is_code : forall f s0 r0,
  run_simple CServices vm_id vm_rest_ok CL.gen_services_loader f s0 r0 = Some (load_services f).
Proof.
  intros. unfold run_simple. rewrite services_frame by reflexivity. unfold load_services.
  f_equal. apply load_coll_ext. intros; symmetry; apply service_step_tie.
Qed.

(* the collection file of the stops: `FRest` stands for the per-stop phase, entered exactly when the model's code is RC_OK *)
Theorem load_nodecoll_is_code : forall f s0 r0,
  run_simple CNodes (fun m : uref => m) (fun _ => true) CL.gen_nodes_loader f s0 r0 = Some (load_nodecoll f).
Proof.
  intros. unfold run_simple. rewrite nodes_frame by reflexivity. unfold load_nodecoll.
  f_equal. apply load_coll_ext. intros; symmetry; apply nodecoll_step_tie.
Qed.

Theorem load_datasources_is_code : forall f s0 r0,
  option_map snd (run_simple CDataSources (fun m : uref => m) (fun _ => true) CL.gen_datasources_loader f s0 r0)
  = Some (load_datasources f).
Proof.
  intros. unfold run_simple. rewrite datasources_frame by reflexivity. unfold load_datasources. simpl.
  f_equal. f_equal. apply load_coll_ext. intros; symmetry; apply datasource_step_tie.
Qed.

(* ---- lines -------------------------------------------------------------------------------------------------- *)
Lemma line_step_tie : forall agencies s m,
  line_step agencies s m = line_item (lc_item CL.gen_lines_loader) agencies s m.
Proof.
  intros agencies s m. unfold line_step, line_item.
  destruct (lm_id m) as [l|] eqn:El; destruct (lm_agency m) as [a|] eqn:Ea; cbn; rewrite ?El, ?Ea; cbn; try reflexivity.
  destruct (memb a agencies); cbn; [|reflexivity].
  unfold mode_known, NMODES, Nat.ltb; cbn.
  destruct (Nat.leb (lm_mode m) 14); reflexivity.
Qed.

Theorem load_lines_is_code : forall agencies f s0 r0,
  run_lines CL.gen_lines_loader agencies f s0 r0 = Some (load_lines agencies f).
Proof.
  intros. unfold run_lines. rewrite lines_frame by reflexivity. unfold load_lines.
  f_equal. apply load_coll_ext. intros; symmetry; apply line_step_tie.
Qed.

(* ---- look-up loops ------------------------------------------------------------------------------------------ *)
Lemma for_push_all : forall known guard at_ok l,
  (forall n, guard n = true) -> (forall n, at_ok n = memb n known) ->
  for_push (elem_eval true (VUuidOf VElem)) (elem_eval true (VUuidOf VElem)) guard at_ok l = refs_all_known known l.
Proof.
  intros known guard at_ok l Hg Ha. induction l as [|[n|] r IH]; simpl; [reflexivity| |reflexivity].
  rewrite Hg, Ha. destruct (memb n known); [rewrite IH; reflexivity|reflexivity].
Qed.

Lemma for_push_filter : forall known guard at_ok l,
  (forall n, guard n = memb n known) -> (forall n, at_ok n = memb n known) ->
  for_push (elem_eval true (VUuidOf VElem)) (elem_eval true (VUuidOf VElem)) guard at_ok l = refs_filter_known known l.
Proof.
  intros known guard at_ok l Hg Ha. induction l as [|[n|] r IH]; simpl; [reflexivity| |reflexivity].
  rewrite IH, Hg, Ha. destruct (memb n known); destruct (refs_filter_known known r); reflexivity.
Qed.

Lemma for_push_modes : forall guard at_ok l,
  (forall n, guard n = mode_known n) -> (forall n, at_ok n = mode_known n) ->
  for_push (elem_eval false VElem) (elem_eval false VElem) guard at_ok (map (@Some nat) l) = Some (filter mode_known l).
Proof.
  intros guard at_ok l Hg Ha. induction l as [|n r IH]; simpl; [reflexivity|].
  rewrite IH, Hg, Ha. destruct (mode_known n); reflexivity.
Qed.

(* ---- paths -------------------------------------------------------------------------------------------------- *)
Lemma path_step_tie : forall lines nodes st m,
  ps_map (fst (path_item (lc_item CL.gen_paths_loader) lines nodes st m)) = fst (path_step lines nodes (ps_map st) m) /\
  snd (path_item (lc_item CL.gen_paths_loader) lines nodes st m) = snd (path_step lines nodes (ps_map st) m).
Proof.
  intros lines nodes st m. unfold path_item, path_step.
  destruct (pm_id m) as [p|] eqn:Ep; cbn; rewrite ?Ep; cbn; [|split; reflexivity].
  rewrite (for_push_all nodes) by (intros; reflexivity).
  destruct (refs_all_known nodes (pm_nodes m)) as [ns|]; cbn; [|split; reflexivity].
  destruct (pm_segs m) as [segs|] eqn:Es; cbn; [|split; reflexivity].
  destruct (seg_dists (length ns) segs) as [ds|]; cbn; rewrite ?Ep; cbn.
  - destruct (pm_line m) as [l|] eqn:Eline; cbn; [|split; reflexivity].
    destruct (memb l lines); cbn; split; reflexivity.
  - destruct (pm_line m); split; reflexivity.
Qed.

Theorem load_paths_is_code : forall lines nodes f s0 vn0 vz0 r0,
  run_paths CL.gen_paths_loader lines nodes f s0 vn0 vz0 r0 = Some (load_paths lines nodes f).
Proof.
  intros. unfold run_paths. rewrite paths_frame by reflexivity. unfold load_paths.
  pose proof (load_coll_sim ps_map (path_item (lc_item CL.gen_paths_loader) lines nodes) (path_step lines nodes)
                            {| ps_vn := vn0; ps_vz := vz0; ps_json := None; ps_map := [] |} f
                            (path_step_tie lines nodes)) as H.
  simpl in H |- *.
  destruct (load_coll _ _ f) as [st r]. simpl in H. rewrite <- H. reflexivity.
Qed.

(* ---- scenarios ---------------------------------------------------------------------------------------------- *)
Definition keeps_id (g : scenario -> scenario) : Prop := forall c, s_id (g c) = s_id c.

Lemma find_ins_last : forall (x : scenario) s,
  find (fun c => Nat.eqb (s_id c) (s_id x)) (ins_last s_id x s) = Some x.
Proof.
  intros x s. induction s as [|y r IH]; simpl.
  - rewrite Nat.eqb_refl. reflexivity.
  - destruct (Nat.ltb (s_id x) (s_id y)) eqn:L; simpl.
    + rewrite Nat.eqb_refl. reflexivity.
    + destruct (Nat.eqb (s_id x) (s_id y)) eqn:E; simpl.
      * rewrite Nat.eqb_refl. reflexivity.
      * rewrite Nat.eqb_sym, E. exact IH.
Qed.

Lemma find_ins_last_k : forall (x : scenario) s k, s_id x = k ->
  find (fun c => Nat.eqb (s_id c) k) (ins_last s_id x s) = Some x.
Proof. intros x s k H. subst k. apply find_ins_last. Qed.

Lemma ins_last_twice : forall (x y : scenario) s, s_id x = s_id y -> ins_last s_id x (ins_last s_id y s) = ins_last s_id x s.
Proof.
  intros x y s H. induction s as [|z r IH]; simpl.
  - rewrite H, Nat.ltb_irrefl, Nat.eqb_refl. reflexivity.
  - rewrite <- H. destruct (Nat.ltb (s_id x) (s_id z)) eqn:L; simpl.
    + rewrite H, Nat.ltb_irrefl, Nat.eqb_refl. reflexivity.
    + destruct (Nat.eqb (s_id x) (s_id z)) eqn:E; simpl.
      * rewrite H, Nat.ltb_irrefl, Nat.eqb_refl. reflexivity.
      * rewrite L, E, IH. reflexivity.
Qed.

Lemma entry_or_blank_id : forall k s, s_id (entry_or_blank k s) = k.
Proof.
  intros k s. unfold entry_or_blank. destruct (find _ s) as [c|] eqn:F; [|reflexivity].
  apply find_some in F. destruct F as [_ F]. apply Nat.eqb_eq in F. exact F.
Qed.

Lemma upsert_upsert : forall k g1 g2 s, keeps_id g1 -> keeps_id g2 ->
  upsert k g2 (upsert k g1 s) = upsert k (fun c => g2 (g1 c)) s.
Proof.
  intros k g1 g2 s H1 H2. unfold upsert.
  assert (E : entry_or_blank k (ins_last s_id (g1 (entry_or_blank k s)) s) = g1 (entry_or_blank k s)).
  { unfold entry_or_blank at 1.
    rewrite (find_ins_last_k (g1 (entry_or_blank k s)) s k) by (rewrite H1; apply entry_or_blank_id). reflexivity. }
  rewrite E. apply ins_last_twice. rewrite H2. reflexivity.
Qed.

Lemma keeps_id_id : keeps_id (fun c => c).  Proof. intros c; reflexivity. Qed.
Lemma keeps_id_comp : forall g1 g2, keeps_id g1 -> keeps_id g2 -> keeps_id (fun c => g2 (g1 c)).
Proof. intros g1 g2 H1 H2 c. rewrite H2, H1. reflexivity. Qed.
Lemma keeps_id_set : forall set v, In set [set_s_services; set_s_onlyLines; set_s_onlyModes; set_s_onlyAgencies; set_s_onlyNodes;
                                            set_s_exceptLines; set_s_exceptModes; set_s_exceptAgencies; set_s_exceptNodes] ->
  keeps_id (fun c => set c v).
Proof. intros set v H c. simpl in H. repeat (destruct H as [H|H]; [subst; reflexivity|]). destruct H. Qed.

Ltac keeps := repeat first [ apply keeps_id_id | apply keeps_id_comp
                           | (apply keeps_id_set; simpl; tauto) ].

Ltac norm_push e :=
  repeat (progress (rewrite ?(for_push_filter (se_services e)), ?(for_push_filter (se_lines e)),
                            ?(for_push_filter (se_agencies e)), ?(for_push_filter (se_nodes e)), ?for_push_modes
                      by (intros; reflexivity); cbn)).

Lemma scenario_step_tie : forall e vs s m,
  snd (fst (scen_item (lc_item CL.gen_scenarios_loader) e (vs, s) m)) = fst (scenario_step e s m) /\
  snd (scen_item (lc_item CL.gen_scenarios_loader) e (vs, s) m) = snd (scenario_step e s m).
Proof.
  intros e vs s m. unfold scen_item, scenario_step.
  destruct m as [cid sim sv ol oa on om xl xa xn xm].
  destruct cid as [id|]; cbn; [|split; reflexivity].
  unfold scenario_fields; cbn.
  destruct sim; cbn.
  2:{ rewrite !upsert_upsert by keeps. split; reflexivity. }
  repeat (norm_push e;
          match goal with
          | |- context [refs_filter_known ?k ?l] => destruct (refs_filter_known k l); cbn
          end;
          [|norm_push e; rewrite !upsert_upsert by keeps; split; reflexivity]).
  norm_push e.
  rewrite !upsert_upsert by keeps. split; reflexivity.
Qed.

Theorem load_scenarios_is_code : forall e f s0 vs0 r0,
  run_scenarios CL.gen_scenarios_loader e f s0 vs0 r0 = Some (load_scenarios e f).
Proof.
  intros. unfold run_scenarios. rewrite scenarios_frame by reflexivity. unfold load_scenarios.
  pose proof (load_coll_sim (@snd (nat -> list nat) (list scenario)) (scen_item (lc_item CL.gen_scenarios_loader) e)
                            (scenario_step e) (vs0, []) f) as H.
  simpl in H |- *.
  destruct (load_coll _ _ f) as [st r]. simpl in H. rewrite <- H; [reflexivity|].
  intros [vs s] m. apply scenario_step_tie.
Qed.

(* what the regenerated entry code says about the nine lists *)
Theorem scenario_lists_code :
  list_feeds (lc_pre CL.gen_scenarios_loader ++ lc_item CL.gen_scenarios_loader) (lc_item CL.gen_scenarios_loader) =
    [ (MServicesList, [(GServicesUuids, Some CServices, CServices)]);
      (MOnlyLines, [(GOnlyLinesUuids, Some CLines, CLines)]);
      (MOnlyAgencies, [(GOnlyAgenciesUuids, Some CAgencies, CAgencies)]);
      (MOnlyNodes, [(GOnlyNodesUuids, Some CNodes, CNodes)]);
      (MOnlyModes, [(GOnlyModesShortnames, Some CModes, CModes)]);
      (MExceptLines, [(GExceptLinesUuids, Some CLines, CLines)]);
      (MExceptAgencies, [(GExceptAgenciesUuids, Some CAgencies, CAgencies)]);
      (MExceptNodes, [(GExceptNodesUuids, Some CNodes, CNodes)]);
      (MExceptModes, [(GExceptModesShortnames, Some CModes, CModes)]) ] /\
  vecs_fresh [] (lc_item CL.gen_scenarios_loader) = true.
Proof. split; reflexivity. Qed.

(* ---- return codes ------------------------------------------------------------------------------------------- *)
(* the frame lemmas, read for the files that cannot be decoded: whatever the entry code *)
Theorem loader_error_codes : forall (S M : Type) (clear : S -> S) (step : S -> M -> S * bool) (s0 : S) (r0 : rval),
  let run := fun self code file => run_frame self clear (fun s => s) step file (lc_frame code) s0 r0 in
  let all := [ run CAgencies CL.gen_agencies_loader; run CServices CL.gen_services_loader; run CNodes CL.gen_nodes_loader;
               run CLines CL.gen_lines_loader; run CPaths CL.gen_paths_loader; run CScenarios CL.gen_scenarios_loader;
               run CDataSources CL.gen_datasources_loader ] in
  forall r, In r all ->
    r FMissing = Some (clear s0, RC_ENOENT) /\
    r FUnreadable = Some (clear s0, RC_EOTHER) /\
    r (FGarbled []) = Some (clear s0, RC_EBADMSG) /\
    (forall p, option_map snd (r (FGarbled p)) = Some (if snd (fold_entries step p (clear s0)) then RC_EBADMSG else RC_EINVAL)) /\
    (forall msg, option_map snd (r (FDecoded msg)) = Some (if snd (fold_entries step msg (clear s0)) then RC_OK else RC_EINVAL)).
Proof.
  intros S M clear step s0 r0 run all r Hin.
  assert (Hr : forall file, r file = Some (load_coll step (clear s0) file)).
  { simpl in Hin.
    destruct Hin as [H|[H|[H|[H|[H|[H|[H|[]]]]]]]]; subst r; intros file; unfold run.
    - apply agencies_frame; reflexivity.
    - apply services_frame; reflexivity.
    - apply nodes_frame; reflexivity.
    - apply lines_frame; reflexivity.
    - apply paths_frame; reflexivity.
    - apply scenarios_frame; reflexivity.
    - apply datasources_frame; reflexivity. }
  repeat split; try (rewrite Hr; reflexivity); intros x; rewrite Hr; simpl;
    destruct (fold_entries step x (clear s0)) as [s1 [|]]; reflexivity.
Qed.

(* ---- the statements the property files quote ------------------------------------------------------------------- *)
Theorem coll_loaders_are_code :
  (forall f s0 r0, run_simple CAgencies am_id am_rest_ok CL.gen_agencies_loader f s0 r0 = Some (load_agencies f)) /\
  (forall f s0 r0, run_simple CServices vm_id vm_rest_ok CL.gen_services_loader f s0 r0 = Some (load_services f)) /\
  (forall f s0 r0, run_simple CNodes (fun m : uref => m) (fun _ => true) CL.gen_nodes_loader f s0 r0 = Some (load_nodecoll f)) /\
  (forall f s0 r0, option_map snd (run_simple CDataSources (fun m : uref => m) (fun _ => true) CL.gen_datasources_loader f s0 r0)
                   = Some (load_datasources f)) /\
  (forall agencies f s0 r0, run_lines CL.gen_lines_loader agencies f s0 r0 = Some (load_lines agencies f)) /\
  (forall lines nodes f s0 vn0 vz0 r0, run_paths CL.gen_paths_loader lines nodes f s0 vn0 vz0 r0 = Some (load_paths lines nodes f)) /\
  (forall e f s0 vs0 r0, run_scenarios CL.gen_scenarios_loader e f s0 vs0 r0 = Some (load_scenarios e f)).
Proof.
  repeat split.
  - exact load_agencies_is_code.
  - exact load_services_is_code.
  - exact load_nodecoll_is_code.
  - exact load_datasources_is_code.
  - exact load_lines_is_code.
  - exact load_paths_is_code.
  - exact load_scenarios_is_code.
Qed.

Theorem coll_entries_are_code :
  (forall s m, agency_step s m = simple_step (am_id m) (am_rest_ok m) (lc_item CL.gen_agencies_loader) s) /\
  (forall s m, service_step s m = simple_step (vm_id m) (vm_rest_ok m) (lc_item CL.gen_services_loader) s) /\
  (forall s m, nodecoll_step s m = simple_step m true (lc_item CL.gen_nodes_loader) s) /\
  (forall s m, nodecoll_step s m = simple_step m true (lc_item CL.gen_datasources_loader) s) /\
  (forall agencies s m, line_step agencies s m = line_item (lc_item CL.gen_lines_loader) agencies s m) /\
  (forall lines nodes st m,
     ps_map (fst (path_item (lc_item CL.gen_paths_loader) lines nodes st m)) = fst (path_step lines nodes (ps_map st) m) /\
     snd (path_item (lc_item CL.gen_paths_loader) lines nodes st m) = snd (path_step lines nodes (ps_map st) m)) /\
  (forall e vs s m,
     snd (fst (scen_item (lc_item CL.gen_scenarios_loader) e (vs, s) m)) = fst (scenario_step e s m) /\
     snd (scen_item (lc_item CL.gen_scenarios_loader) e (vs, s) m) = snd (scenario_step e s m)).
Proof.
  repeat apply conj.
  - exact agency_step_tie.
  - exact service_step_tie.
  - exact nodecoll_step_tie.
  - exact datasource_step_tie.
  - exact line_step_tie.
  - exact path_step_tie.
  - exact scenario_step_tie.
Qed.

(* C11: the nine lists - what the code says (which capnp list, behind which `count`, from which collection, through a
   vector declared in the same entry) and what it computes, whatever the vectors held before the entry *)
Theorem scenario_lists_are_code :
  (list_feeds (lc_pre CL.gen_scenarios_loader ++ lc_item CL.gen_scenarios_loader) (lc_item CL.gen_scenarios_loader) =
    [ (MServicesList, [(GServicesUuids, Some CServices, CServices)]);
      (MOnlyLines, [(GOnlyLinesUuids, Some CLines, CLines)]);
      (MOnlyAgencies, [(GOnlyAgenciesUuids, Some CAgencies, CAgencies)]);
      (MOnlyNodes, [(GOnlyNodesUuids, Some CNodes, CNodes)]);
      (MOnlyModes, [(GOnlyModesShortnames, Some CModes, CModes)]);
      (MExceptLines, [(GExceptLinesUuids, Some CLines, CLines)]);
      (MExceptAgencies, [(GExceptAgenciesUuids, Some CAgencies, CAgencies)]);
      (MExceptNodes, [(GExceptNodesUuids, Some CNodes, CNodes)]);
      (MExceptModes, [(GExceptModesShortnames, Some CModes, CModes)]) ] /\
   vecs_fresh [] (lc_item CL.gen_scenarios_loader) = true) /\
  (forall e vs s m,
     snd (fst (scen_item (lc_item CL.gen_scenarios_loader) e (vs, s) m)) = fst (scenario_step e s m) /\
     snd (scen_item (lc_item CL.gen_scenarios_loader) e (vs, s) m) = snd (scenario_step e s m)) /\
  (forall e f s0 vs0 r0, run_scenarios CL.gen_scenarios_loader e f s0 vs0 r0 = Some (load_scenarios e f)).
Proof. exact (conj scenario_lists_code (conj scenario_step_tie load_scenarios_is_code)). Qed.
