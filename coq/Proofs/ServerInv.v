(* ServerInv.v — invariants of the server state machine of Server.v.
   C13: answers do not depend on the request history (either cache mode).
   C15: after a refresh the server behaves as one freshly started on the new data.
   C14: under any thread schedule every completed request got its fresh answer; the cache invariant
        holds at all times; a round-robin schedule completes every request. *)
From TrV Require Import Server.
From Coq Require Import List Arith Bool Lia.
Import ListNotations.
Local Open Scope nat_scope.

(* ================================================================================================ *)
(* 1. with an empty table the calculation returns before the connection set is looked at            *)

Lemma calc_single_no_access : forall d p acc egr,
  nonempty acc && nonempty egr = false ->
  exists rs, forall cs, calc_single d cs p acc egr true = NoRouting rs.
Proof.
  intros d p acc egr H.
  destruct (access_reason (negb true || nonempty acc) (negb true || nonempty egr)) as [rs|] eqn:E.
  - exists rs. intro cs. unfold calc_single. rewrite E. reflexivity.
  - exfalso. destruct acc as [|a acc]; destruct egr as [|e egr];
      cbn [nonempty andb] in H; try discriminate H;
      unfold access_reason in E; cbn [nonempty negb orb andb] in E; discriminate E.
Qed.

Lemma access_reason_ft : exists rs, access_reason false true = Some rs.
Proof. unfold access_reason. cbn [negb andb]. eexists. reflexivity. Qed.

Lemma access_reason_tf : exists rs, access_reason true false = Some rs.
Proof. unfold access_reason. cbn [negb andb]. eexists. reflexivity. Qed.

Lemma calc_allnodes_no_access : forall d p cs1 cs2,
  calc_allnodes d cs1 p [] = calc_allnodes d cs2 p [].
Proof.
  intros d p cs1 cs2. unfold calc_allnodes.
  change (nonempty (@nil fprow)) with false.
  destruct (q_fwd p).
  - destruct access_reason_ft as [rs Hrs]. rewrite Hrs. reflexivity.
  - destruct access_reason_tf as [rs Hrs]. rewrite Hrs. reflexivity.
Qed.

Lemma respond_no_filters : forall d cs1 cs2 r,
  reaches_filters r = false -> respond d cs1 r = respond d cs2 r.
Proof.
  intros d cs1 cs2 r H. destruct r as [p alt acc egr | p rows | c].
  - cbn [reaches_filters] in H.
    destruct (calc_single_no_access d p acc egr H) as [rs Hrs].
    destruct alt; cbn [respond].
    + unfold alternatives. rewrite (Hrs cs1), (Hrs cs2). cbn [bind]. reflexivity.
    + rewrite (Hrs cs1), (Hrs cs2). reflexivity.
  - cbn [reaches_filters] in H. destruct rows as [|x rows]; [|discriminate H].
    cbn [respond]. rewrite (calc_allnodes_no_access d p cs1 cs2). reflexivity.
  - reflexivity.
Qed.

(* ================================================================================================ *)
(* 2. fresh_answer, case by case                                                                    *)

Lemma fresh_answer_found : forall d r sid s,
  req_scenario r = Some sid -> find_scenario d sid = Some s ->
  fresh_answer d r = respond d (conn_set d s) r.
Proof. intros d r sid s Hr Hf. unfold fresh_answer. rewrite Hr, Hf. reflexivity. Qed.

Lemma fresh_answer_missing : forall d r sid,
  req_scenario r = Some sid -> find_scenario d sid = None -> fresh_answer d r = AError 0.
Proof. intros d r sid Hr Hf. unfold fresh_answer. rewrite Hr, Hf. reflexivity. Qed.

Lemma fresh_answer_noscen : forall d r,
  req_scenario r = None -> fresh_answer d r = respond d (mk_connset [] [] []) r.
Proof. intros d r Hr. unfold fresh_answer. rewrite Hr. reflexivity. Qed.

Lemma fresh_answer_nofilter : forall d r sid s cs,
  req_scenario r = Some sid -> find_scenario d sid = Some s -> reaches_filters r = false ->
  fresh_answer d r = respond d cs r.
Proof.
  intros d r sid s cs Hr Hf Hrf. rewrite (fresh_answer_found d r sid s Hr Hf).
  apply respond_no_filters. exact Hrf.
Qed.

(* the scenario that is found carries the id that was asked for *)
Lemma find_scenario_id : forall d sid s, find_scenario d sid = Some s -> s_id s = sid.
Proof.
  intros d sid s H. unfold find_scenario in H. apply find_some in H. destruct H as [_ H].
  apply Nat.eqb_eq in H. exact H.
Qed.

(* ================================================================================================ *)
(* 3. the cache invariant                                                                           *)

(* every cached entry is the connection set of its scenario in the current data *)
Definition cache_inv (d : data) (c : cache) : Prop :=
  forall sid cs, cache_get c sid = Some cs ->
    exists s, find_scenario d sid = Some s /\ cs = conn_set d s.

Lemma cache_inv_empty : forall d all, cache_inv d (cache_empty all).
Proof. intros d all sid cs H. destruct all; cbn in H; discriminate H. Qed.

Lemma cache_inv_clear : forall d c, cache_inv d (cache_clear c).
Proof. intros d c sid cs H. destruct c as [e|l]; cbn in H; discriminate H. Qed.

Lemma cache_inv_set : forall d c sid cs,
  cache_inv d c ->
  (exists s, find_scenario d sid = Some s /\ cs = conn_set d s) ->
  cache_inv d (cache_set c sid cs).
Proof.
  intros d c sid cs Hc Hs sid' cs' Hg. destruct c as [e|l]; cbn [cache_set cache_get assoc] in Hg.
  - destruct (Nat.eqb sid sid') eqn:E; [|discriminate Hg].
    apply Nat.eqb_eq in E. subst sid'. injection Hg as <-. exact Hs.
  - destruct (Nat.eqb sid' sid) eqn:E.
    + apply Nat.eqb_eq in E. subst sid'. injection Hg as <-. exact Hs.
    + apply (Hc sid' cs'). exact Hg.
Qed.

(* ================================================================================================ *)
(* 4. sequential server: C13                                                                        *)

Lemma serve_fresh : forall sv r, cache_inv (sv_data sv) (sv_cache sv) ->
  fst (serve sv r) = fresh_answer (sv_data sv) r /\
  sv_data (snd (serve sv r)) = sv_data sv /\
  cache_inv (sv_data sv) (sv_cache (snd (serve sv r))).
Proof.
  intros [d c] r Hc. cbn [sv_data sv_cache] in *. unfold serve. cbn [sv_data sv_cache].
  destruct (req_scenario r) as [sid|] eqn:Er.
  - destruct (find_scenario d sid) as [s|] eqn:Ef.
    + destruct (reaches_filters r) eqn:Erf.
      * destruct (cache_get c sid) as [cs|] eqn:Eg.
        -- cbn [fst snd sv_data sv_cache].
           destruct (Hc sid cs Eg) as [s' [Hs' Hcs]]. rewrite Ef in Hs'. injection Hs' as <-.
           subst cs. rewrite (fresh_answer_found d r sid s Er Ef). auto.
        -- cbn [fst snd sv_data sv_cache].
           rewrite (fresh_answer_found d r sid s Er Ef).
           split; [reflexivity|]. split; [reflexivity|].
           apply cache_inv_set; [exact Hc|]. exists s. auto.
      * cbn [fst snd sv_data sv_cache].
        rewrite (fresh_answer_nofilter d r sid s (mk_connset [] [] []) Er Ef Erf). auto.
    + cbn [fst snd sv_data sv_cache]. rewrite (fresh_answer_missing d r sid Er Ef). auto.
  - cbn [fst snd sv_data sv_cache]. rewrite (fresh_answer_noscen d r Er). auto.
Qed.

Lemma run_fresh : forall h sv, cache_inv (sv_data sv) (sv_cache sv) ->
  fst (run sv h) = map (fresh_answer (sv_data sv)) h /\
  sv_data (snd (run sv h)) = sv_data sv /\
  cache_inv (sv_data sv) (sv_cache (snd (run sv h))).
Proof.
  induction h as [|r h IH]; intros sv Hc.
  - cbn [run map fst snd]. auto.
  - cbn [run map]. destruct (serve_fresh sv r Hc) as [H1 [H2 H3]].
    destruct (serve sv r) as [a sv1] eqn:Es. cbn [fst snd] in H1, H2, H3.
    rewrite <- H2 in H3. destruct (IH sv1 H3) as [I1 [I2 I3]].
    destruct (run sv1 h) as [l sv2] eqn:Er. cbn [fst snd] in *.
    rewrite H2 in I1, I2, I3. subst a l. auto.
Qed.

Lemma start_inv : forall all d, cache_inv (sv_data (start all d)) (sv_cache (start all d)).
Proof. intros all d. cbn [start sv_data sv_cache]. apply cache_inv_empty. Qed.

(* C13: every answer equals the answer of a freshly started server *)
Theorem C13_every_position : forall all d h, fst (run (start all d) h) = map (fresh_answer d) h.
Proof. intros all d h. destruct (run_fresh h (start all d) (start_inv all d)) as [H _]. exact H. Qed.

Theorem C13_history_independent : forall (all : bool) (d : data) (h : list request) (r : request),
  last (fst (run (start all d) (h ++ [r]))) (AError 0) = fresh_answer d r.
Proof.
  intros all d h r. rewrite C13_every_position, map_app. cbn [map]. apply last_last.
Qed.

Corollary C13_modes_agree : forall d h, fst (run (start true d) h) = fst (run (start false d) h).
Proof. intros d h. rewrite !C13_every_position. reflexivity. Qed.

(* the server after any history still satisfies the invariant (so the three facts compose) *)
Corollary C13_inv_after : forall all d h,
  sv_data (snd (run (start all d) h)) = d /\ cache_inv d (sv_cache (snd (run (start all d) h))).
Proof.
  intros all d h. destruct (run_fresh h (start all d) (start_inv all d)) as [_ [H2 H3]]. auto.
Qed.

(* ================================================================================================ *)
(* 5. refresh: C15                                                                                  *)

(* specification: each request is answered with the fresh answer on the data in force *)
Fixpoint spec_ops (d : data) (ops : list op) : list (option response) :=
  match ops with
  | [] => []
  | OReq r :: rest => Some (fresh_answer d r) :: spec_ops d rest
  | ORefresh d' :: rest => None :: spec_ops d' rest
  end.

Definition apply_refresh (d : data) (o : op) : data :=
  match o with ORefresh d' => d' | OReq _ => d end.

(* the data in force after the first k operations *)
Definition data_at (d : data) (ops : list op) (k : nat) : data :=
  fold_left apply_refresh (firstn k ops) d.

Lemma run_ops_spec : forall ops sv, cache_inv (sv_data sv) (sv_cache sv) ->
  fst (run_ops sv ops) = spec_ops (sv_data sv) ops /\
  sv_data (snd (run_ops sv ops)) = fold_left apply_refresh ops (sv_data sv) /\
  cache_inv (sv_data (snd (run_ops sv ops))) (sv_cache (snd (run_ops sv ops))).
Proof.
  induction ops as [|o ops IH]; intros sv Hc.
  - cbn [run_ops spec_ops fold_left fst snd]. auto.
  - cbn [run_ops]. destruct o as [r|d'].
    + cbn [step spec_ops fold_left apply_refresh].
      destruct (serve_fresh sv r Hc) as [H1 [H2 H3]].
      destruct (serve sv r) as [a sv1] eqn:Es. cbn [fst snd] in H1, H2, H3.
      rewrite <- H2 in H3. destruct (IH sv1 H3) as [I1 [I2 I3]].
      destruct (run_ops sv1 ops) as [l sv2] eqn:Er. cbn [fst snd] in *.
      rewrite H2 in I1, I2. subst a l. auto.
    + cbn [step spec_ops fold_left apply_refresh].
      set (sv1 := {| sv_data := d'; sv_cache := cache_clear (sv_cache sv) |}).
      assert (H3 : cache_inv (sv_data sv1) (sv_cache sv1)).
      { unfold sv1. cbn [sv_data sv_cache]. apply cache_inv_clear. }
      destruct (IH sv1 H3) as [I1 [I2 I3]].
      destruct (run_ops sv1 ops) as [l sv2] eqn:Er. cbn [fst snd] in *.
      unfold sv1 in I1, I2. cbn [sv_data] in I1, I2. subst l. auto.
Qed.

(* C15, general form: whatever the sequence of requests and refreshes *)
Theorem C15_general : forall all d ops, fst (run_ops (start all d) ops) = spec_ops d ops.
Proof.
  intros all d ops. destruct (run_ops_spec ops (start all d) (start_inv all d)) as [H _]. exact H.
Qed.

Lemma spec_ops_nth_req : forall ops d k r, nth_error ops k = Some (OReq r) ->
  nth_error (spec_ops d ops) k = Some (Some (fresh_answer (data_at d ops k) r)).
Proof.
  induction ops as [|o ops IH]; intros d k r Hn.
  - destruct k; discriminate Hn.
  - destruct k as [|k].
    + cbn [nth_error] in Hn. injection Hn as ->. reflexivity.
    + cbn [nth_error] in Hn. unfold data_at. cbn [firstn fold_left].
      destruct o as [r0|d']; cbn [spec_ops nth_error apply_refresh]; apply (IH _ k r Hn).
Qed.

Lemma spec_ops_nth_refresh : forall ops d k d', nth_error ops k = Some (ORefresh d') ->
  nth_error (spec_ops d ops) k = Some None.
Proof.
  induction ops as [|o ops IH]; intros d k d' Hn.
  - destruct k; discriminate Hn.
  - destruct k as [|k].
    + cbn [nth_error] in Hn. injection Hn as ->. reflexivity.
    + cbn [nth_error] in Hn.
      destruct o as [r0|d0]; cbn [spec_ops nth_error]; apply (IH _ k d' Hn).
Qed.

Lemma spec_ops_length : forall ops d, length (spec_ops d ops) = length ops.
Proof.
  induction ops as [|o ops IH]; intros d; [reflexivity|].
  destruct o as [r|d']; cbn [spec_ops length]; rewrite IH; reflexivity.
Qed.

(* C15, pointwise form: the k-th response, when the k-th op is a request r, is the fresh answer on
   the data in force after the refreshes among the first k ops *)
Theorem C15_pointwise : forall all d ops k r, nth_error ops k = Some (OReq r) ->
  nth_error (fst (run_ops (start all d) ops)) k = Some (Some (fresh_answer (data_at d ops k) r)).
Proof. intros all d ops k r Hn. rewrite C15_general. apply spec_ops_nth_req. exact Hn. Qed.

Theorem C15_pointwise_refresh : forall all d ops k d', nth_error ops k = Some (ORefresh d') ->
  nth_error (fst (run_ops (start all d) ops)) k = Some None.
Proof. intros all d ops k d' Hn. rewrite C15_general. apply (spec_ops_nth_refresh ops d k d' Hn). Qed.

Theorem C15_length : forall all d ops, length (fst (run_ops (start all d) ops)) = length ops.
Proof. intros all d ops. rewrite C15_general. apply spec_ops_length. Qed.

Lemma spec_ops_reqs : forall h d, spec_ops d (map OReq h) = map Some (map (fresh_answer d) h).
Proof.
  induction h as [|r h IH]; intros d; [reflexivity|].
  cbn [map spec_ops]. rewrite IH. reflexivity.
Qed.

Lemma spec_ops_skip : forall h1 d rest,
  skipn (S (length h1)) (spec_ops d (map OReq h1 ++ rest)) = skipn 1 (spec_ops d rest).
Proof.
  induction h1 as [|r h1 IH]; intros d rest; [reflexivity|].
  cbn [map app spec_ops length]. rewrite <- (IH d rest). reflexivity.
Qed.

Theorem C15_refresh_equiv : forall all d h1 d' h2,
  skipn (S (length h1)) (fst (run_ops (start all d) (map OReq h1 ++ ORefresh d' :: map OReq h2)))
  = map Some (fst (run (start all d') h2)).
Proof.
  intros all d h1 d' h2. rewrite C15_general, C13_every_position.
  rewrite spec_ops_skip. cbn [spec_ops skipn].
  apply spec_ops_reqs.
Qed.

(* ================================================================================================ *)
(* 6. concurrent server: C14                                                                        *)

(* updating position i of a list, as cstep does *)
Definition upd_nth {A} (i : nat) (x : A) (l : list A) : list A := firstn i l ++ x :: skipn (S i) l.

Lemma upd_nth_length : forall A (l : list A) i x, i < length l -> length (upd_nth i x l) = length l.
Proof.
  intros A l. induction l as [|y l IH]; intros i x Hi; [cbn in Hi; lia|].
  destruct i as [|i]; unfold upd_nth; cbn [firstn skipn app length]; [reflexivity|].
  cbn [length] in Hi. f_equal. apply (IH i x). lia.
Qed.

Lemma upd_nth_same : forall A (l : list A) i x, i < length l -> nth_error (upd_nth i x l) i = Some x.
Proof.
  intros A l. induction l as [|y l IH]; intros i x Hi; [cbn in Hi; lia|].
  destruct i as [|i]; unfold upd_nth; cbn [firstn skipn app nth_error]; [reflexivity|].
  cbn [length] in Hi. apply (IH i x). lia.
Qed.

Lemma upd_nth_other : forall A (l : list A) i j x, i <> j ->
  nth_error (upd_nth i x l) j = nth_error l j \/ (length l <= i /\ nth_error l j = None).
Proof.
  intros A l. induction l as [|y l IH]; intros i j x Hij.
  - right. split; [cbn; lia|]. destruct j; reflexivity.
  - destruct i as [|i]; destruct j as [|j]; unfold upd_nth; cbn [firstn skipn app nth_error].
    + exfalso. apply Hij. reflexivity.
    + left. reflexivity.
    + left. reflexivity.
    + assert (Hij' : i <> j) by (intro E; apply Hij; f_equal; exact E).
      destruct (IH i j x Hij') as [H|[H1 H2]]; [left; exact H|].
      right. split; [cbn [length]; lia|exact H2].
Qed.

Lemma Forall2_upd_nth : forall (A B : Type) (R : A -> B -> Prop) l1 l2 i a t1,
  Forall2 R l1 l2 -> nth_error l1 i = Some a -> R a t1 ->
  Forall2 R l1 (firstn i l2 ++ t1 :: skipn (S i) l2).
Proof.
  intros A B R l1 l2 i a t1 H. revert i.
  induction H as [|x y l1 l2 Hxy H IH]; intros i Hn Hr.
  - destruct i; discriminate Hn.
  - destruct i as [|i]; cbn [nth_error] in Hn; cbn [firstn skipn app].
    + injection Hn as ->. constructor; assumption.
    + constructor; [assumption|]. apply IH; assumption.
Qed.

Lemma Forall2_nth_r : forall (A B : Type) (R : A -> B -> Prop) l1 l2 i b,
  Forall2 R l1 l2 -> nth_error l2 i = Some b -> exists a, nth_error l1 i = Some a /\ R a b.
Proof.
  intros A B R l1 l2 i b H. revert i.
  induction H as [|x y l1 l2 Hxy H IH]; intros i Hn.
  - destruct i; discriminate Hn.
  - destruct i as [|i]; cbn [nth_error] in *.
    + injection Hn as ->. exists x. auto.
    + apply IH. exact Hn.
Qed.

Lemma Forall2_len : forall (A B : Type) (R : A -> B -> Prop) l1 l2,
  Forall2 R l1 l2 -> length l1 = length l2.
Proof.
  intros A B R l1 l2 H. induction H as [|x y l1 l2 Hxy H IH]; [reflexivity|].
  cbn [length]. rewrite IH. reflexivity.
Qed.

(* the per-thread invariant: thread i is in a state built from its request *)
Inductive tinv (d : data) (r : request) : tstate -> Prop :=
| TI_start : tinv d r (TStart r)
| TI_built : forall sid s, req_scenario r = Some sid -> find_scenario d sid = Some s ->
    tinv d r (TBuilt r sid (conn_set d s))
| TI_have : forall sid s, req_scenario r = Some sid -> find_scenario d sid = Some s ->
    tinv d r (THave r (conn_set d s))
| TI_done : tinv d r (TDone (fresh_answer d r)).

Lemma tinv_done_eq : forall d r a, a = fresh_answer d r -> tinv d r (TDone a).
Proof. intros d r a ->. constructor. Qed.

Lemma tstep_inv : forall d c r t, cache_inv d c -> tinv d r t ->
  tinv d r (fst (tstep d c t)) /\ cache_inv d (snd (tstep d c t)).
Proof.
  intros d c r t Hc Ht. destruct Ht as [ | sid s Hr Hf | sid s Hr Hf | ]; cbn [tstep].
  - destruct (req_scenario r) as [sid|] eqn:Er.
    + destruct (find_scenario d sid) as [s|] eqn:Ef.
      * destruct (reaches_filters r) eqn:Erf.
        -- destruct (cache_get c sid) as [cs|] eqn:Eg; cbn [fst snd].
           ++ destruct (Hc sid cs Eg) as [s' [Hs' Hcs]]. subst cs.
              split; [|exact Hc]. apply (TI_have d r sid s' Er Hs').
           ++ split; [|exact Hc]. apply (TI_built d r sid s Er Ef).
        -- cbn [fst snd]. split; [|exact Hc]. apply tinv_done_eq. symmetry.
           apply (fresh_answer_nofilter d r sid s _ Er Ef Erf).
      * cbn [fst snd]. split; [|exact Hc]. apply tinv_done_eq. symmetry.
        apply (fresh_answer_missing d r sid Er Ef).
    + cbn [fst snd]. split; [|exact Hc]. apply tinv_done_eq. symmetry.
      apply (fresh_answer_noscen d r Er).
  - cbn [fst snd]. split; [apply (TI_have d r sid s Hr Hf)|].
    apply cache_inv_set; [exact Hc|]. exists s. auto.
  - cbn [fst snd]. split; [|exact Hc]. apply tinv_done_eq. symmetry.
    apply (fresh_answer_found d r sid s Hr Hf).
  - cbn [fst snd]. split; [constructor|exact Hc].
Qed.

(* the global invariant *)
Definition cinv (d : data) (reqs : list request) (st : cstate) : Prop :=
  cs_data st = d /\ cache_inv d (cs_cache st) /\ Forall2 (tinv d) reqs (cs_threads st).

Lemma cinit_inv : forall all d reqs, cinv d reqs (cinit all d reqs).
Proof.
  intros all d reqs. unfold cinv, cinit. cbn [cs_data cs_cache cs_threads].
  split; [reflexivity|]. split; [apply cache_inv_empty|].
  induction reqs as [|r reqs IH]; cbn [map]; constructor; [constructor|exact IH].
Qed.

Lemma cstep_inv : forall d reqs st i, cinv d reqs st -> cinv d reqs (cstep st i).
Proof.
  intros d reqs [d0 c ths] i [Hd [Hc Hf]]. cbn [cs_data cs_cache cs_threads] in Hd, Hc, Hf.
  subst d0. unfold cstep. cbn [cs_data cs_cache cs_threads].
  destruct (nth_error ths i) as [t|] eqn:En.
  - destruct (Forall2_nth_r _ _ _ _ _ _ _ Hf En) as [r [Hr Ht]].
    destruct (tstep_inv d c r t Hc Ht) as [H1 H2].
    destruct (tstep d c t) as [t1 c1]. cbn [fst snd] in H1, H2.
    unfold cinv. cbn [cs_data cs_cache cs_threads].
    split; [reflexivity|]. split; [exact H2|].
    apply (Forall2_upd_nth _ _ _ _ _ _ r t1 Hf Hr H1).
  - unfold cinv. cbn [cs_data cs_cache cs_threads]. auto.
Qed.

Lemma crun_inv : forall d reqs sched st, cinv d reqs st -> cinv d reqs (crun st sched).
Proof.
  intros d reqs sched. unfold crun. induction sched as [|i sched IH]; intros st H.
  - exact H.
  - cbn [fold_left]. apply IH. apply cstep_inv. exact H.
Qed.

(* C14: under any schedule, a completed request got its fresh answer *)
Theorem C14_any_schedule : forall all d reqs sched i a,
  nth_error (cs_threads (crun (cinit all d reqs) sched)) i = Some (TDone a) ->
  exists r, nth_error reqs i = Some r /\ a = fresh_answer d r.
Proof.
  intros all d reqs sched i a Hn.
  destruct (crun_inv d reqs sched _ (cinit_inv all d reqs)) as [_ [_ Hf]].
  destruct (Forall2_nth_r _ _ _ _ _ _ _ Hf Hn) as [r [Hr Ht]].
  exists r. split; [exact Hr|]. inversion Ht. reflexivity.
Qed.

Theorem C14_cache_inv_after : forall all d reqs sched,
  cache_inv d (cs_cache (crun (cinit all d reqs) sched)).
Proof.
  intros all d reqs sched.
  destruct (crun_inv d reqs sched _ (cinit_inv all d reqs)) as [_ [Hc _]]. exact Hc.
Qed.

(* the data is untouched and there is exactly one thread per request, in whatever state *)
Theorem C14_shape_after : forall all d reqs sched,
  cs_data (crun (cinit all d reqs) sched) = d /\
  length (cs_threads (crun (cinit all d reqs) sched)) = length reqs.
Proof.
  intros all d reqs sched.
  destruct (crun_inv d reqs sched _ (cinit_inv all d reqs)) as [Hd [_ Hf]].
  split; [exact Hd|]. symmetry. apply (Forall2_len _ _ _ _ _ Hf).
Qed.

(* the full per-thread invariant, for use by later developments *)
Theorem C14_thread_inv : forall all d reqs sched,
  Forall2 (tinv d) reqs (cs_threads (crun (cinit all d reqs) sched)).
Proof.
  intros all d reqs sched.
  destruct (crun_inv d reqs sched _ (cinit_inv all d reqs)) as [_ [_ Hf]]. exact Hf.
Qed.

(* ---- progress ---------------------------------------------------------------------------------- *)

Definition is_done (t : tstate) : bool := match t with TDone _ => true | _ => false end.

Definition tstep' (d : data) (p : tstate * cache) : tstate * cache := tstep d (snd p) (fst p).

Definition mk_at (d : data) (dl tl : list tstate) (p : tstate * cache) : cstate :=
  {| cs_data := d; cs_cache := snd p; cs_threads := dl ++ fst p :: tl |}.

Lemma firstn_len_app : forall A (l1 l2 : list A), firstn (length l1) (l1 ++ l2) = l1.
Proof.
  intros A l1 l2. induction l1 as [|x l1 IH]; [reflexivity|].
  cbn [length app firstn]. rewrite IH. reflexivity.
Qed.

Lemma skipn_S_len_app : forall A (l1 : list A) x l2, skipn (S (length l1)) (l1 ++ x :: l2) = l2.
Proof.
  intros A l1 x l2. induction l1 as [|y l1 IH]; [reflexivity|].
  cbn [length app skipn]. cbn [skipn] in IH. exact IH.
Qed.

Lemma nth_error_len_app : forall A (l1 : list A) x l2, nth_error (l1 ++ x :: l2) (length l1) = Some x.
Proof.
  intros A l1 x l2. induction l1 as [|y l1 IH]; [reflexivity|].
  cbn [length app nth_error]. exact IH.
Qed.

Lemma cstep_mk_at : forall d dl tl p,
  cstep (mk_at d dl tl p) (length dl) = mk_at d dl tl (tstep' d p).
Proof.
  intros d dl tl [t c]. unfold mk_at, cstep, tstep'. cbn [cs_data cs_cache cs_threads fst snd].
  rewrite nth_error_len_app. destruct (tstep d c t) as [t1 c1]. cbn [fst snd].
  rewrite firstn_len_app, skipn_S_len_app. reflexivity.
Qed.

Lemma three_steps : forall d c r,
  exists a, fst (tstep' d (tstep' d (tstep' d (TStart r, c)))) = TDone a.
Proof.
  intros d c r. unfold tstep'. cbn [fst snd tstep].
  destruct (req_scenario r) as [sid|] eqn:Er.
  - destruct (find_scenario d sid) as [s|] eqn:Ef.
    + destruct (reaches_filters r) eqn:Erf.
      * destruct (cache_get c sid) as [cs|] eqn:Eg; cbn [fst snd tstep]; eexists; reflexivity.
      * cbn [fst snd tstep]. eexists. reflexivity.
    + cbn [fst snd tstep]. eexists. reflexivity.
  - cbn [fst snd tstep]. eexists. reflexivity.
Qed.

Lemma progress_gen : forall d reqs dl c, forallb is_done dl = true ->
  all_done (crun {| cs_data := d; cs_cache := c; cs_threads := dl ++ map TStart reqs |}
                 (flat_map (fun i => [i; i; i]) (seq (length dl) (length reqs)))) = true.
Proof.
  intros d. unfold crun. induction reqs as [|r reqs IH]; intros dl c Hd.
  - cbn [length seq flat_map fold_left map]. unfold all_done. cbn [cs_threads].
    rewrite app_nil_r. exact Hd.
  - cbn [length seq flat_map map app fold_left].
    change {| cs_data := d; cs_cache := c; cs_threads := dl ++ TStart r :: map TStart reqs |}
      with (mk_at d dl (map TStart reqs) (TStart r, c)).
    rewrite !cstep_mk_at.
    destruct (three_steps d c r) as [a Ha].
    destruct (tstep' d (tstep' d (tstep' d (TStart r, c)))) as [t3 c3]. cbn [fst] in Ha. subst t3.
    unfold mk_at. cbn [fst snd].
    replace (dl ++ TDone a :: map TStart reqs) with ((dl ++ [TDone a]) ++ map TStart reqs)
      by (rewrite <- app_assoc; reflexivity).
    replace (S (length dl)) with (length (dl ++ [TDone a]))
      by (rewrite app_length; cbn [length]; lia).
    apply IH. rewrite forallb_app, Hd. reflexivity.
Qed.

(* C14, progress: the round-robin schedule naming every thread three times completes everything *)
Theorem C14_progress : forall all d reqs,
  all_done (crun (cinit all d reqs) (flat_map (fun i => [i; i; i]) (seq 0 (length reqs)))) = true.
Proof.
  intros all d reqs. exact (progress_gen d reqs [] (cache_empty all) eq_refl).
Qed.

(* together: after the round-robin schedule every thread holds the fresh answer of its request *)
Corollary C14_round_robin_answers : forall all d reqs,
  cs_threads (crun (cinit all d reqs) (flat_map (fun i => [i; i; i]) (seq 0 (length reqs))))
  = map (fun r => TDone (fresh_answer d r)) reqs.
Proof.
  intros all d reqs.
  pose proof (C14_progress all d reqs) as Hp. pose proof (C14_thread_inv all d reqs
    (flat_map (fun i => [i; i; i]) (seq 0 (length reqs)))) as Hf.
  unfold all_done in Hp.
  induction Hf as [|r t reqs' ths Hrt Hf IH]; [reflexivity|].
  cbn [forallb] in Hp. apply andb_true_iff in Hp. destruct Hp as [Hp1 Hp2].
  cbn [map]. f_equal; [|apply IH; exact Hp2].
  destruct Hrt; try discriminate Hp1. reflexivity.
Qed.

Print Assumptions respond_no_filters.
Print Assumptions serve_fresh.
Print Assumptions C13_history_independent.
Print Assumptions C13_every_position.
Print Assumptions C13_modes_agree.
Print Assumptions C13_inv_after.
Print Assumptions C15_refresh_equiv.
Print Assumptions C15_general.
Print Assumptions C15_pointwise.
Print Assumptions C15_pointwise_refresh.
Print Assumptions C15_length.
Print Assumptions C14_any_schedule.
Print Assumptions C14_cache_inv_after.
Print Assumptions C14_shape_after.
Print Assumptions C14_thread_inv.
Print Assumptions C14_progress.
Print Assumptions C14_round_robin_answers.
