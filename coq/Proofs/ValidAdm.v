(* Proofs/ValidAdm.v — every returned route is witnessed by a declarative admissible journey
   (the "attained" halves of C03 / C04 / C05 of Optimal.v), plus a toolkit of general facts about the
   declarative relation [reaches] of Admissible.v.

   Contents
     0. dataset helpers     find_conn_in_all, find_conn_key, conn_to_node, self_row, linkb_row, minw_true_nonneg
     1. reaches toolkit     reaches_mono_start, reaches_app, reaches_snoc, reaches_single_inv, reaches_app_inv,
                            reaches_snoc_inv, reaches_rides_nonempty, reaches_first, reaches_last_ride,
                            reaches_rides_ok, reaches_conns_in, reaches_trips_admitted, reaches_end_node,
                            reaches_start_node, ride_dep_le_arr, reaches_arrival_ge, reaches_first_dep_le,
                            reaches_restart, reaches_prefix, reaches_suffix
     2. journeys            journey_mono_dep, journey_rides_nonempty, journey_rides_ok, journey_arrival_ge,
                            journey_latest_dep (the latest departure for the rides is departure_of)
     3. deque -> journey    jleg_ride, jchain_reaches, journey_ok_journey  (journey_ok_b ==> journey)
     4. route -> journey    leg_ride, chain_reaches, valid_itinerary_journey (valid_itinerary_b ==> journey),
                            parse_legs_inv, steps_last_arr, totals_parse (what totals_ok_b says about rt_dep / rt_arr),
                            valid_totals_journey, limits_span, route_admissible_fwd / _rev, alternatives_journeys
     5. calculateSingle     calc_single_journey, calc_single_fwd_best, route_attained_fwd, route_attained_rev,
                            C03_attained, C04_attained, C05_attained, C03_optimum_le, C04_optimum_ge,
                            C03_decl_from_bound, C04_decl_from_bound, C05_decl_from_bound *)
From Coq Require Import List ZArith Bool Arith Lia.
From TrV Require Import Spec Admissible Optimal.
From TrV Require Import Proofs.SortFilter Proofs.Totals Proofs.EmitValid Proofs.Rewrites Proofs.RevInv Proofs.Termination
                        Proofs.RouteValid Proofs.Limits Proofs.Compose.
Import ListNotations.
Local Open Scope Z_scope.

Local Tactic Notation "peelv" hyp(H) ident(W) := apply andb_true_iff in H; destruct H as [H W].

(* ============================================================================================== *)
(* 0. dataset helpers                                                                               *)

Lemma find_conn_in_all : forall d t sq c, find_conn d t sq = Some c -> In c (all_conns d).
Proof.
  intros d t sq c H. unfold find_conn in H.
  destruct (find_trip d t) as [tr|] eqn:Ft; [|discriminate].
  apply find_some in H. destruct H as [Hin _].
  destruct (RevInv.find_trip_some d t tr Ft) as [Htr _].
  unfold all_conns. apply in_flat_map. exists tr. split; assumption.
Qed.

Lemma find_conn_key : forall d t sq c, find_conn d t sq = Some c -> c_trip c = t /\ c_seq c = sq.
Proof.
  intros d t sq c H. unfold find_conn in H.
  destruct (find_trip d t) as [tr|] eqn:Ft; [|discriminate].
  apply find_some in H. destruct H as [Hin Hs]. apply Nat.eqb_eq in Hs.
  destruct (RevInv.find_trip_some d t tr Ft) as [_ Hid].
  split; [|exact Hs]. rewrite (trip_conns_trip d tr c Hin). exact Hid.
Qed.

Lemma conn_in_data_in_all : forall d c, conn_in_data d c = true -> In c (all_conns d).
Proof.
  intros d c H. apply EmitValid.conn_in_data_inv in H. apply (find_conn_in_all d _ _ c H).
Qed.

Lemma mk_conns_to_node : forall tid minw nodes sq times c,
  In c (mk_conns tid minw sq nodes times) -> In (c_to c) nodes.
Proof.
  intros tid minw. induction nodes as [|n0 ns IH]; intros sq times c H.
  - destruct H.
  - destruct ns as [|n1 ns']; [destruct H|].
    destruct times as [|s0 [|s1 ss]]; [destruct H|destruct H|].
    rewrite mk_conns_cons in H. destruct H as [H|H].
    + subst c. cbn [c_to]. right. left. reflexivity.
    + right. apply (IH (S sq) (s1 :: ss) c H).
Qed.

Lemma conn_to_node : forall d c, wf_data_b d = true -> In c (all_conns d) -> In (c_to c) (d_nodes d).
Proof.
  intros d c Hwf Hc. destruct (all_conns_in d c Hc) as (tr & Htr & Hin).
  destruct (RevInv.wf_trip d Hwf tr Htr) as (pth & Hp & _ & _).
  unfold trip_conns in Hin. apply mk_conns_to_node in Hin.
  unfold trip_nodes in Hin. rewrite Hp in Hin.
  unfold find_path in Hp. apply find_some in Hp. destruct Hp as [Hp _].
  apply (wf_path_nodes d Hwf pth Hp). exact Hin.
Qed.

(* every stop lists itself at 0 s *)
Lemma self_row : forall d n, wf_data_b d = true -> In n (d_nodes d) -> has_row (fp_of d n) n 0 = true.
Proof.
  intros d n H Hn. apply wf_data_parts in H. destruct H as (_ & W & _ & _).
  unfold footpaths_ok in W. rewrite forallb_forall in W. specialize (W n Hn).
  peelv W F8. peelv W F7. peelv W F6. peelv W F5. peelv W F4. peelv W F3. exact F3.
Qed.

(* the transfer test of the boolean chains gives a footpath row of the alighting stop within the maximum *)
Lemma link_row : forall d w n m, wf_data_b d = true -> In n (d_nodes d) ->
  (if Nat.eqb n m then w =? 0 else has_row (fp_of d n) m w) = true ->
  has_row (fp_of d n) m w = true.
Proof.
  intros d w n m Hwf Hn H. destruct (Nat.eqb n m) eqn:E; [|exact H].
  apply Nat.eqb_eq in E. subst m. apply Z.eqb_eq in H. subst w. apply self_row; assumption.
Qed.

Lemma linkb_row : forall d p w n m, wf_data_b d = true -> In n (d_nodes d) ->
  linkb d p w n m = true -> has_row (fp_of d n) m w = true /\ w <= q_maxtr p.
Proof.
  intros d p w n m Hwf Hn H. unfold linkb in H. peelv H H2. apply Z.leb_le in H2.
  split; [|exact H2]. apply (link_row d w n m Hwf Hn H).
Qed.

Lemma minw_true_nonneg : forall p c, 0 <= q_minw p -> 0 <= minw_true p c.
Proof. intros p c H. rewrite <- minw_eff_true. apply minw_eff_nonneg. exact H. Qed.

(* ============================================================================================== *)
(* 1. reaches toolkit                                                                               *)
(* ============================================================================================== *)

Section ReachesToolkit.
Variables (d : data) (s : scenario) (p : params).

(* (a) standing at the stop earlier does not hurt *)
Lemma reaches_mono_start : forall n t rides m t' t0,
  reaches d s p n t rides m t' -> t0 <= t -> reaches d s p n t0 rides m t'.
Proof.
  intros n t rides m t' t0 H Hle. destruct H as [n t b e Hr Hn Hw | n t b e w n' rest m t' Hr Hn Hw Hrow Hmax Hrest].
  - apply reaches_last; [exact Hr|exact Hn|lia].
  - apply (reaches_cons d s p n t0 b e w n' rest m t'); try assumption. lia.
Qed.

(* (d) a journey rides at least once *)
Lemma reaches_rides_nonempty : forall n t rides m t', reaches d s p n t rides m t' -> rides <> [].
Proof. intros n t rides m t' H. destruct H; discriminate. Qed.

(* the first ride: boards at the start stop, after the minimum waiting time *)
Lemma reaches_first : forall n t rides m t', reaches d s p n t rides m t' ->
  exists b e rest, rides = (b, e) :: rest /\ ride_ok d s p b e /\ c_from b = n /\ t + minw_true p b <= c_dep b.
Proof.
  intros n t rides m t' H. destruct H as [n t b e Hr Hn Hw | n t b e w n' rest m t' Hr Hn Hw Hrow Hmax Hrest].
  - exists b, e, []. auto.
  - exists b, e, rest. auto.
Qed.

Lemma reaches_single_inv : forall n t b e m t', reaches d s p n t [(b, e)] m t' ->
  ride_ok d s p b e /\ c_from b = n /\ t + minw_true p b <= c_dep b /\ m = c_to e /\ t' = c_arr e.
Proof.
  intros n t b e m t' H. inversion H as [n0 t0 b0 e0 Hr Hn Hw | n0 t0 b0 e0 w n' rest m0 t0' Hr Hn Hw Hrow Hmax Hrest]; subst.
  - auto.
  - apply reaches_rides_nonempty in Hrest. exfalso. apply Hrest. reflexivity.
Qed.

Lemma reaches_cons_inv : forall n t b e r0 rest m t', reaches d s p n t ((b, e) :: r0 :: rest) m t' ->
  ride_ok d s p b e /\ c_from b = n /\ t + minw_true p b <= c_dep b /\
  exists w n', has_row (fp_of d (c_to e)) n' w = true /\ w <= q_maxtr p /\
               reaches d s p n' (c_arr e + w) (r0 :: rest) m t'.
Proof.
  intros n t b e r0 rest m t' H.
  inversion H as [ | n0 t0 b0 e0 w n' rest0 m0 t0' Hr Hn Hw Hrow Hmax Hrest]; subst.
  split; [exact Hr|]. split; [reflexivity|]. split; [exact Hw|]. exists w, n'. auto.
Qed.

(* (b) concatenation: two journeys joined by one footpath row of the stop where the first ends *)
Lemma reaches_app : forall n t r1 m1 t1 n' w r2 m t',
  reaches d s p n t r1 m1 t1 ->
  has_row (fp_of d m1) n' w = true -> w <= q_maxtr p ->
  reaches d s p n' (t1 + w) r2 m t' ->
  reaches d s p n t (r1 ++ r2) m t'.
Proof.
  intros n t r1 m1 t1 n' w r2 m t' H1. revert n' w r2 m t'.
  induction H1 as [n t b e Hr Hn Hw | n t b e w0 n0 rest m1 t1 Hr Hn Hw Hrow Hmax Hrest IH];
    intros n' w r2 m t' Hrow' Hmax' H2.
  - cbn [app]. apply (reaches_cons d s p n t b e w n' r2 m t'); assumption.
  - rewrite <- app_comm_cons.
    apply (reaches_cons d s p n t b e w0 n0 (rest ++ r2) m t'); try assumption.
    apply (IH n' w r2 m t' Hrow' Hmax' H2).
Qed.

(* one more ride at the end *)
Lemma reaches_snoc : forall n t rides m1 t1 w b e,
  reaches d s p n t rides m1 t1 ->
  ride_ok d s p b e ->
  has_row (fp_of d m1) (c_from b) w = true -> w <= q_maxtr p ->
  t1 + w + minw_true p b <= c_dep b ->
  reaches d s p n t (rides ++ [(b, e)]) (c_to e) (c_arr e).
Proof.
  intros n t rides m1 t1 w b e H Hr Hrow Hmax Hw.
  apply (reaches_app n t rides m1 t1 (c_from b) w [(b, e)] (c_to e) (c_arr e) H Hrow Hmax).
  apply reaches_last; [exact Hr|reflexivity|exact Hw].
Qed.

(* inverse of reaches_app *)
Lemma reaches_app_inv : forall r1 r2 n t m t',
  r1 <> [] -> r2 <> [] ->
  reaches d s p n t (r1 ++ r2) m t' ->
  exists m1 t1 n' w,
    reaches d s p n t r1 m1 t1 /\ has_row (fp_of d m1) n' w = true /\ w <= q_maxtr p /\
    reaches d s p n' (t1 + w) r2 m t'.
Proof.
  induction r1 as [|[b e] r1 IH]; intros r2 n t m t' Hne1 Hne2 H; [exfalso; apply Hne1; reflexivity|].
  destruct r1 as [|x r1'].
  - cbn [app] in H. destruct r2 as [|y r2']; [exfalso; apply Hne2; reflexivity|].
    apply reaches_cons_inv in H. destruct H as (Hr & Hn & Hw & w & n' & Hrow & Hmax & Hrest).
    exists (c_to e), (c_arr e), n', w. split; [|auto]. apply reaches_last; assumption.
  - rewrite <- !app_comm_cons in H. apply reaches_cons_inv in H.
    destruct H as (Hr & Hn & Hw & w & n' & Hrow & Hmax & Hrest).
    rewrite app_comm_cons in Hrest.
    destruct (IH r2 n' (c_arr e + w) m t') as (m1 & t1 & n2 & w2 & H1 & Hrow2 & Hmax2 & H2);
      [discriminate|exact Hne2|exact Hrest|].
    exists m1, t1, n2, w2. split; [|auto].
    apply (reaches_cons d s p n t b e w n' (x :: r1') m1 t1); assumption.
Qed.

(* inverse of reaches_snoc: a journey of two rides or more is a journey followed by a last ride *)
Lemma reaches_snoc_inv : forall rides b e n t m t',
  rides <> [] ->
  reaches d s p n t (rides ++ [(b, e)]) m t' ->
  exists m1 t1 w,
    reaches d s p n t rides m1 t1 /\ ride_ok d s p b e /\
    has_row (fp_of d m1) (c_from b) w = true /\ w <= q_maxtr p /\
    t1 + w + minw_true p b <= c_dep b /\ m = c_to e /\ t' = c_arr e.
Proof.
  intros rides b e n t m t' Hne H.
  destruct (reaches_app_inv rides [(b, e)] n t m t' Hne) as (m1 & t1 & n' & w & H1 & Hrow & Hmax & H2);
    [discriminate|exact H|].
  apply reaches_single_inv in H2. destruct H2 as (Hr & Hn & Hw & Hm & Ht). subst n'.
  exists m1, t1, w. auto 10.
Qed.

(* the last ride gives the end stop and the end time *)
Lemma reaches_last_ride : forall n t rides m t', reaches d s p n t rides m t' ->
  exists pre b e, rides = pre ++ [(b, e)] /\ ride_ok d s p b e /\ m = c_to e /\ t' = c_arr e.
Proof.
  intros n t rides m t' H.
  induction H as [n t b e Hr Hn Hw | n t b e w n' rest m t' Hr Hn Hw Hrow Hmax Hrest IH].
  - exists [], b, e. auto.
  - destruct IH as (pre & b' & e' & E & Hr' & Hm & Ht). subst rest.
    exists ((b, e) :: pre), b', e'. auto.
Qed.

(* (e) every ride of a journey is a ride of the data on an admitted trip *)
Lemma reaches_rides_ok : forall n t rides m t', reaches d s p n t rides m t' ->
  forall b e, In (b, e) rides -> ride_ok d s p b e.
Proof.
  intros n t rides m t' H.
  induction H as [n t b e Hr Hn Hw | n t b e w n' rest m t' Hr Hn Hw Hrow Hmax Hrest IH]; intros b0 e0 Hin.
  - destruct Hin as [Hin|[]]. inversion Hin; subst. exact Hr.
  - destruct Hin as [Hin|Hin]; [inversion Hin; subst; exact Hr|apply IH; exact Hin].
Qed.

Lemma reaches_conns_in : forall n t rides m t', reaches d s p n t rides m t' ->
  forall b e, In (b, e) rides -> In b (all_conns d) /\ In e (all_conns d).
Proof.
  intros n t rides m t' H b e Hin.
  destruct (reaches_rides_ok n t rides m t' H b e Hin) as (Hb & He & _). split; assumption.
Qed.

Lemma reaches_trips_admitted : forall n t rides m t', reaches d s p n t rides m t' ->
  forall b e, In (b, e) rides ->
  exists tr, find_trip d (c_trip b) = Some tr /\ find_trip d (c_trip e) = Some tr /\ trip_admitted d s p tr = true.
Proof.
  intros n t rides m t' H b e Hin.
  destruct (reaches_rides_ok n t rides m t' H b e Hin) as (_ & _ & Et & _ & _ & _ & tr & Ft & Ha).
  exists tr. split; [exact Ft|]. split; [rewrite <- Et; exact Ft|exact Ha].
Qed.

(* the journey starts and ends at stops of the data *)
Lemma reaches_start_node : forall n t rides m t', wf_data_b d = true ->
  reaches d s p n t rides m t' -> In n (d_nodes d).
Proof.
  intros n t rides m t' Hwf H.
  destruct (reaches_first n t rides m t' H) as (b & e & rest & _ & (Hb & _) & Hn & _).
  subst n. apply conn_from_node; assumption.
Qed.

Lemma reaches_end_node : forall n t rides m t', wf_data_b d = true ->
  reaches d s p n t rides m t' -> In m (d_nodes d).
Proof.
  intros n t rides m t' Hwf H.
  destruct (reaches_last_ride n t rides m t' H) as (pre & b & e & _ & (_ & He & _) & Hm & _).
  subst m. apply conn_to_node; assumption.
Qed.

(* one ride does not go back in time *)
Lemma ride_dep_le_arr : forall b e, wf_data_b d = true -> ride_ok d s p b e -> c_dep b <= c_arr e.
Proof.
  intros b e Hwf (Hb & He & Et & Hseq & _).
  apply (conn_dep_le_arr d b e Hwf Hb He); [symmetry; exact Et|exact Hseq].
Qed.

(* (c) the clock does not go back along a journey *)
Lemma reaches_arrival_ge : forall n t rides m t', wf_data_b d = true -> 0 <= q_minw p ->
  reaches d s p n t rides m t' -> t <= t'.
Proof.
  intros n t rides m t' Hwf Hmw H.
  induction H as [n t b e Hr Hn Hw | n t b e w n' rest m t' Hr Hn Hw Hrow Hmax Hrest IH].
  - pose proof (ride_dep_le_arr b e Hwf Hr). pose proof (minw_true_nonneg p b Hmw). lia.
  - pose proof (ride_dep_le_arr b e Hwf Hr). pose proof (minw_true_nonneg p b Hmw).
    assert (0 <= w).
    { apply (wf_fp_nonneg d (c_to e) n' w Hwf); [|exact Hrow].
      destruct Hr as (_ & He & _). apply conn_to_node; assumption. }
    lia.
Qed.

(* sharper: the first boarding is not before the start (plus minimum waiting), the end not before it *)
Lemma reaches_first_dep_le : forall n t b e rest m t', wf_data_b d = true -> 0 <= q_minw p ->
  reaches d s p n t ((b, e) :: rest) m t' -> t + minw_true p b <= c_dep b /\ c_dep b <= t'.
Proof.
  intros n t b e rest m t' Hwf Hmw H.
  inversion H as [n0 t0 b0 e0 Hr Hn Hw | n0 t0 b0 e0 w n' rest0 m0 t0' Hr Hn Hw Hrow Hmax Hrest]; subst.
  - split; [exact Hw|]. apply (ride_dep_le_arr b e Hwf Hr).
  - split; [exact Hw|]. pose proof (ride_dep_le_arr b e Hwf Hr).
    pose proof (reaches_arrival_ge _ _ _ _ _ Hwf Hmw Hrest).
    assert (0 <= w).
    { apply (wf_fp_nonneg d (c_to e) n' w Hwf); [|exact Hrow].
      destruct Hr as (_ & He & _). apply conn_to_node; assumption. }
    lia.
Qed.

(* the start time of a journey can be replaced by anything that still meets the first boarding *)
Lemma reaches_restart : forall n t b e rest m t' t0,
  reaches d s p n t ((b, e) :: rest) m t' -> t0 + minw_true p b <= c_dep b ->
  reaches d s p n t0 ((b, e) :: rest) m t'.
Proof.
  intros n t b e rest m t' t0 H Hw0.
  inversion H as [n0 t1 b0 e0 Hr Hn Hw | n0 t1 b0 e0 w n' rest0 m0 t0' Hr Hn Hw Hrow Hmax Hrest]; subst.
  - apply reaches_last; auto.
  - apply (reaches_cons d s p (c_from b) t0 b e w n' rest m t'); auto.
Qed.

End ReachesToolkit.

(* reaches toolkit, continued *)
(* prefixes and suffixes of a journey (for the accessibility maps: alights_at / boards_at) *)
Lemma reaches_prefix : forall d s p r1 r2 n t m t', r1 <> [] ->
  reaches d s p n t (r1 ++ r2) m t' -> exists m1 t1, reaches d s p n t r1 m1 t1.
Proof.
  intros d s p r1 r2 n t m t' Hne H. destruct r2 as [|x r2].
  - rewrite app_nil_r in H. exists m, t'. exact H.
  - destruct (reaches_app_inv d s p r1 (x :: r2) n t m t' Hne) as (m1 & t1 & _ & _ & H1 & _);
      [discriminate|exact H|]. exists m1, t1. exact H1.
Qed.

Lemma reaches_suffix : forall d s p r1 r2 n t m t', r2 <> [] ->
  reaches d s p n t (r1 ++ r2) m t' -> exists n2 t2, reaches d s p n2 t2 r2 m t'.
Proof.
  intros d s p r1 r2 n t m t' Hne H. destruct r1 as [|x r1].
  - exists n, t. exact H.
  - destruct (reaches_app_inv d s p (x :: r1) r2 n t m t') as (m1 & t1 & n' & w & _ & _ & _ & H2);
      [discriminate|exact Hne|exact H|]. exists n', (t1 + w). exact H2.
Qed.

(* ============================================================================================== *)
(* 2. journeys                                                                                      *)

(* leaving the origin earlier does not hurt: the same rides, the same arrival *)
Lemma journey_mono_dep : forall d s p acc egr dep0 dep0' rides arr,
  journey d s p acc egr dep0 rides arr -> dep0' <= dep0 -> journey d s p acc egr dep0' rides arr.
Proof.
  intros d s p acc egr dep0 dep0' rides arr (ra & re & m & t' & Ha & He & Hr & Hm & Harr) Hle.
  exists ra, re, m, t'. split; [exact Ha|]. split; [exact He|]. split; [|split; assumption].
  apply (reaches_mono_start d s p _ _ _ _ _ _ Hr). lia.
Qed.

Lemma journey_rides_nonempty : forall d s p acc egr dep0 rides arr,
  journey d s p acc egr dep0 rides arr -> rides <> [].
Proof.
  intros d s p acc egr dep0 rides arr (ra & re & m & t' & _ & _ & Hr & _).
  apply (reaches_rides_nonempty d s p _ _ _ _ _ Hr).
Qed.

Lemma journey_rides_ok : forall d s p acc egr dep0 rides arr,
  journey d s p acc egr dep0 rides arr -> forall b e, In (b, e) rides -> ride_ok d s p b e.
Proof.
  intros d s p acc egr dep0 rides arr (ra & re & m & t' & _ & _ & Hr & _).
  apply (reaches_rides_ok d s p _ _ _ _ _ Hr).
Qed.

(* a journey does not arrive before it leaves *)
Lemma journey_arrival_ge : forall d s p acc egr dep0 rides arr,
  wf_data_b d = true -> wf_tables_b d p acc egr = true -> 0 <= q_minw p ->
  journey d s p acc egr dep0 rides arr -> dep0 <= arr.
Proof.
  intros d s p acc egr dep0 rides arr Hwf Htab Hmw (ra & re & m & t' & Ha & He & Hr & _ & Harr).
  destruct (wf_tables_nonneg d p acc egr Htab) as [Na Ne].
  pose proof (Na ra Ha). pose proof (Ne re He).
  pose proof (reaches_arrival_ge d s p _ _ _ _ _ Hwf Hmw Hr). lia.
Qed.

(* the latest moment to leave the origin for the rides of a journey is [departure_of] of its access row:
   a journey leaving at dep0 leaves no later than that, and leaving exactly then is still a journey *)
Lemma journey_latest_dep : forall d s p acc egr dep0 rides arr,
  journey d s p acc egr dep0 rides arr ->
  exists ra, In ra acc /\ dep0 <= departure_of p ra rides /\
             journey d s p acc egr (departure_of p ra rides) rides arr.
Proof.
  intros d s p acc egr dep0 rides arr (ra & re & m & t' & Ha & He & Hr & Hm & Harr).
  destruct (reaches_first d s p _ _ _ _ _ Hr) as (b & e & rest & E & _ & _ & Hw). subst rides.
  exists ra. split; [exact Ha|]. cbn [departure_of]. split; [lia|].
  exists ra, re, m, t'. split; [exact Ha|]. split; [exact He|]. split; [|split; assumption].
  apply (reaches_restart d s p _ _ _ _ _ _ _ _ Hr). lia.
Qed.

(* ============================================================================================== *)
(* 3. the journey deque (access walk . legs . egress walk) as a declarative journey                  *)

Definition rides_of (legs : list jstep) : list (conn * conn) := map (fun j => (jb j, je j)) legs.

Lemma jleg_ride : forall d s p j b e, jleg_ok d s p j = true ->
  js_enter j = Some b -> js_exit j = Some e -> ride_ok d s p b e.
Proof.
  intros d s p j b0 e0 H Hb0 He0.
  destruct (jleg_ok_inv d s p j H)
    as (b & e & t & tr & Hb & He & Ht & Tb & Te & Db & De & Ft & Ad & Cb & Cu & Le).
  rewrite Hb in Hb0. injection Hb0 as <-. rewrite He in He0. injection He0 as <-.
  unfold ride_ok.
  split; [apply conn_in_data_in_all; exact Db|].
  split; [apply conn_in_data_in_all; exact De|].
  split; [rewrite Tb, Te; reflexivity|].
  split; [exact Le|]. split; [exact Cb|]. split; [exact Cu|].
  exists tr. split; [rewrite Tb; exact Ft|exact Ad].
Qed.

Lemma jchain_reaches : forall d s p, wf_data_b d = true ->
  forall legs ready b1 el,
    forallb (jleg_ok d s p) legs = true -> jchain_ok d p ready legs = true ->
    first_board legs = Some b1 -> last_alight legs = Some el ->
    reaches d s p (c_from b1) ready (rides_of legs) (c_to el) (c_arr el).
Proof.
  intros d s p Hwf. induction legs as [|x R IH]; intros ready b1 el Hall Hch Hfb Hla.
  - discriminate Hfb.
  - cbn [forallb] in Hall. peelv Hall HR.
    apply jchain_step in Hch. destruct Hch as (b & e & Hb & He & Hbd & Hrest).
    cbn [first_board] in Hfb. rewrite Hb in Hfb. injection Hfb as <-.
    pose proof (jleg_ride d s p x b e Hall Hb He) as Hride.
    assert (Ex : (jb x, je x) = (b, e)) by (unfold jb, je; rewrite Hb, He; reflexivity).
    unfold rides_of. cbn [map]. rewrite Ex. fold (rides_of R).
    destruct Hrest as [->|(b' & Hfb' & Hl & Hc)].
    + rewrite last_alight_one in Hla. rewrite He in Hla. injection Hla as <-.
      cbn [rides_of map]. apply reaches_last; [exact Hride|reflexivity|exact Hbd].
    + assert (HRne : R <> []) by (intros E; subst R; discriminate Hfb').
      rewrite (last_alight_cons x R HRne) in Hla.
      assert (Hn : In (c_to e) (d_nodes d)).
      { destruct Hride as (_ & Hein & _). apply conn_to_node; assumption. }
      destruct (linkb_row d p (js_walk x) (c_to e) (c_from b') Hwf Hn Hl) as [Hrow Hmax].
      apply (reaches_cons d s p (c_from b) ready b e (js_walk x) (c_from b') (rides_of R) (c_to el) (c_arr el));
        try assumption; [reflexivity|].
      apply (IH (c_arr e + js_walk x) b' el HR Hc Hfb' Hla).
Qed.

Lemma rides_of_first : forall legs b1, (forall j, In j legs -> is_leg j) -> first_board legs = Some b1 ->
  exists e1 rest, rides_of legs = (b1, e1) :: rest.
Proof.
  intros legs b1 Hlegs Hfb. destruct legs as [|x R]; [discriminate Hfb|].
  cbn [first_board] in Hfb. unfold rides_of. cbn [map]. unfold jb at 1. rewrite Hfb.
  eexists. eexists. reflexivity.
Qed.

(* journey_ok_b of the deque ==> a declarative journey with the deque's rides, leaving at bestdep and
   arriving at (arrival of the last alighting connection) + egress walk *)
Theorem journey_ok_journey : forall d s p acc egr bd a legs e,
  wf_data_b d = true ->
  journey_ok_b d s p acc egr bd (a :: legs ++ [e]) = true ->
  exists b1 el e1 rest,
    first_board legs = Some b1 /\ last_alight legs = Some el /\ rides_of legs = (b1, e1) :: rest /\
    journey d s p acc egr bd (rides_of legs) (c_arr el + js_walk e) /\
    (exists ra, In ra acc /\ fp_node ra = c_from b1 /\ fp_time ra = js_walk a /\
                bd + fp_time ra + minw_true p b1 <= c_dep b1).
Proof.
  intros d s p acc egr bd a legs e Hwf Hok.
  apply journey_ok_iff in Hok.
  destruct Hok as (Ha & He & Hall & b1 & el & Hfb & Hla & Hra & Hre & Hch).
  assert (Hlegs : forall j, In j legs -> is_leg j).
  { intros j Hj. rewrite forallb_forall in Hall.
    destruct (jleg_ok_inv d s p j (Hall j Hj)) as (b & x & t & tr & Hb & Hx & Ht & _).
    exists b, x, t. auto. }
  destruct (rides_of_first legs b1 Hlegs Hfb) as (e1 & rest & Erides).
  destruct (has_row_inv _ _ _ Hra) as (ra & Hina & Hna & Hta).
  destruct (has_row_inv _ _ _ Hre) as (re & Hine & Hne & Hte).
  pose proof (jchain_reaches d s p Hwf legs (bd + js_walk a) b1 el Hall Hch Hfb Hla) as Hr.
  exists b1, el, e1, rest. split; [exact Hfb|]. split; [exact Hla|]. split; [exact Erides|]. split.
  - exists ra, re, (c_to el), (c_arr el).
    split; [exact Hina|]. split; [exact Hine|]. rewrite Hna, Hta, Hne, Hte.
    split; [exact Hr|]. split; reflexivity.
  - exists ra. split; [exact Hina|]. split; [exact Hna|]. split; [exact Hta|].
    rewrite Hta. rewrite Erides in Hr.
    destruct (reaches_first d s p _ _ _ _ _ Hr) as (b & e0 & rest0 & E & _ & _ & Hw).
    inversion E; subst. exact Hw.
Qed.

(* ============================================================================================== *)
(* 4. a valid route (valid_itinerary_b) as a declarative journey                                     *)

(* the connections a leg names *)
Definition ride_of_leg (d : data) (l : leg) : conn * conn :=
  match find_conn d (lg_trip l) (lg_bseq l), find_conn d (lg_trip l) (lg_useq l) with
  | Some b, Some e => (b, e)
  | _, _ => (dconn, dconn)
  end.
Definition rides_of_legs (d : data) (legs : list leg) : list (conn * conn) := map (ride_of_leg d) legs.

Lemma leg_ride : forall d s p l, leg_ok d s p l = true ->
  exists b e, ride_of_leg d l = (b, e) /\ ride_ok d s p b e /\
              c_from b = lg_bnode l /\ c_dep b = lg_bdep l /\ c_to e = lg_unode l /\ c_arr e = lg_uarr l /\
              leg_minw d p l = minw_true p b.
Proof.
  intros d s p l H. unfold leg_ok in H. unfold ride_of_leg, leg_minw.
  destruct (find_trip d (lg_trip l)) as [tr|] eqn:Ft; [|discriminate].
  destruct (find_conn d (lg_trip l) (lg_bseq l)) as [b|] eqn:Fb; [|discriminate].
  destruct (find_conn d (lg_trip l) (lg_useq l)) as [e|] eqn:Fe; [|discriminate].
  peelv H L8. peelv H L7. peelv H L6. peelv H L5. peelv H L4. peelv H L3. peelv H L2.
  apply Nat.eqb_eq in L2, L5. apply Z.eqb_eq in L3, L6. apply Nat.leb_le in L8.
  destruct (find_conn_key d _ _ b Fb) as [Tb Sb]. destruct (find_conn_key d _ _ e Fe) as [Te Se].
  exists b, e. split; [reflexivity|]. split.
  - unfold ride_ok.
    split; [apply (find_conn_in_all d _ _ b Fb)|]. split; [apply (find_conn_in_all d _ _ e Fe)|].
    split; [rewrite Tb, Te; reflexivity|]. split; [rewrite Sb, Se; exact L8|].
    split; [exact L4|]. split; [exact L7|].
    exists tr. split; [rewrite Tb; exact Ft|exact H].
  - repeat (split; [assumption|]). reflexivity.
Qed.

Lemma last_leg_one : forall x, last_leg [x] = Some x.
Proof. intros x. reflexivity. Qed.
Lemma last_leg_cons2 : forall x y l, last_leg (x :: y :: l) = last_leg (y :: l).
Proof. intros x y l. reflexivity. Qed.

Lemma chain_reaches : forall d s p, wf_data_b d = true ->
  forall R x ready lastl,
    forallb (leg_ok d s p) (x :: R) = true -> chain_ok d p ready (x :: R) = true ->
    last_leg (x :: R) = Some lastl ->
    reaches d s p (lg_bnode x) ready (rides_of_legs d (x :: R)) (lg_unode lastl) (lg_uarr lastl).
Proof.
  intros d s p Hwf. induction R as [|y R' IH]; intros x ready lastl Hall Hch Hla.
  - cbn [forallb] in Hall. peelv Hall HR.
    destruct (leg_ride d s p x Hall) as (b & e & Er & Hride & Hfrom & Hdep & Hto & Harr & Hmw).
    rewrite last_leg_one in Hla. injection Hla as <-.
    unfold rides_of_legs. cbn [map]. rewrite Er.
    cbn [chain_ok] in Hch. peelv Hch Hrest. apply Z.leb_le in Hch.
    rewrite <- Hfrom, <- Hto, <- Harr. apply reaches_last; [exact Hride|reflexivity|].
    rewrite <- Hmw, Hdep. exact Hch.
  - cbn [forallb] in Hall. peelv Hall HR.
    destruct (leg_ride d s p x Hall) as (b & e & Er & Hride & Hfrom & Hdep & Hto & Harr & Hmw).
    rewrite last_leg_cons2 in Hla.
    unfold rides_of_legs. cbn [map]. rewrite Er. fold (rides_of_legs d (y :: R')).
    change (chain_ok d p ready (x :: y :: R')) with
      ((ready + leg_minw d p x <=? lg_bdep x) &&
       match lg_walk x with
       | Some (w, _) =>
           (if Nat.eqb (lg_unode x) (lg_bnode y) then (w =? 0)
            else has_row (fp_of d (lg_unode x)) (lg_bnode y) w) &&
           (w <=? q_maxtr p) && chain_ok d p (lg_uarr x + w) (y :: R')
       | None => false
       end) in Hch.
    peelv Hch Hrest. apply Z.leb_le in Hch.
    destruct (lg_walk x) as [[w dd]|]; [|discriminate Hrest].
    peelv Hrest Hc. peelv Hrest Hmax. apply Z.leb_le in Hmax.
    assert (Hn : In (lg_unode x) (d_nodes d)).
    { rewrite <- Hto. destruct Hride as (_ & Hein & _). apply conn_to_node; assumption. }
    pose proof (link_row d w (lg_unode x) (lg_bnode y) Hwf Hn Hrest) as Hrow.
    rewrite <- Hfrom.
    apply (reaches_cons d s p (c_from b) ready b e w (lg_bnode y) (rides_of_legs d (y :: R'))
                        (lg_unode lastl) (lg_uarr lastl)); try assumption.
    + reflexivity.
    + rewrite <- Hmw, Hdep. exact Hch.
    + rewrite Hto. exact Hrow.
    + rewrite Harr. apply (IH y (lg_uarr x + w) lastl HR Hc Hla).
Qed.

(* valid_itinerary_b ==> a declarative journey leaving at the access walk's departure clock and arriving
   at the last alighting time plus the egress walk *)
Theorem valid_itinerary_journey : forall d s p acc egr r,
  wf_data_b d = true -> valid_itinerary_b d s p acc egr r = true ->
  exists aw adep first rest ew lastl,
    parse_route r = Some (aw, adep, first :: rest, ew) /\ last_leg (first :: rest) = Some lastl /\
    journey d s p acc egr adep (rides_of_legs d (first :: rest)) (lg_uarr lastl + ew) /\
    (exists b1 e1, ride_of_leg d first = (b1, e1) /\ c_from b1 = lg_bnode first /\ c_dep b1 = lg_bdep first).
Proof.
  intros d s p acc egr r Hwf H. unfold valid_itinerary_b in H.
  destruct (parse_route r) as [[[[aw adep] legs] ew]|]; [|discriminate].
  destruct legs as [|first rest]; [discriminate|].
  destruct (last_leg (first :: rest)) as [lastl|] eqn:Hla; [|discriminate].
  peelv H Hch. peelv H Hall. peelv H Hre.
  destruct (has_row_inv _ _ _ H) as (ra & Hina & Hna & Hta).
  destruct (has_row_inv _ _ _ Hre) as (re & Hine & Hne & Hte).
  pose proof (chain_reaches d s p Hwf rest first (adep + aw) lastl Hall Hch Hla) as Hr.
  exists aw, adep, first, rest, ew, lastl. split; [reflexivity|]. split; [exact Hla|]. split.
  - exists ra, re, (lg_unode lastl), (lg_uarr lastl).
    split; [exact Hina|]. split; [exact Hine|]. rewrite Hna, Hta, Hne, Hte.
    split; [exact Hr|]. split; reflexivity.
  - cbn [forallb] in Hall. peelv Hall HR.
    destruct (leg_ride d s p first Hall) as (b & e & Er & _ & Hfrom & Hdep & _).
    exists b, e. auto.
Qed.

(* what totals_ok_b says about rt_dep and rt_arr, read against parse_route *)
Lemma steps_chain_walk_inv : forall d p prev bdep first k w dist dep arr rdy r a a',
  steps_chain d p prev bdep first (SWalk k w dist dep arr rdy :: r) a = Some a' ->
  dep = prev /\ arr = dep + w /\ exists a1, steps_chain d p arr bdep first r a1 = Some a'.
Proof.
  intros d p prev bdep first k w dist dep arr rdy r a a' H. cbn [steps_chain] in H.
  match type of H with (if ?c then _ else _) = _ => destruct c eqn:E end; [|discriminate].
  peelv E E3. peelv E E2. apply Z.eqb_eq in E, E2.
  split; [exact E|]. split; [exact E2|]. eexists. exact H.
Qed.

Lemma steps_chain_board_inv : forall d p prev bdep first t sq sq2 n dep wt r a a',
  steps_chain d p prev bdep first (SBoard t sq sq2 n dep wt :: r) a = Some a' ->
  exists a1, steps_chain d p prev dep false r a1 = Some a'.
Proof.
  intros d p prev bdep first t sq sq2 n dep wt r a a' H. cbn [steps_chain] in H.
  match type of H with (if ?c then _ else _) = _ => destruct c eqn:E end; [|discriminate].
  eexists. exact H.
Qed.

Lemma steps_chain_unboard_inv : forall d p prev bdep first t sq sq2 m arr ivt ivd r a a',
  steps_chain d p prev bdep first (SUnboard t sq sq2 m arr ivt ivd :: r) a = Some a' ->
  exists a1, steps_chain d p arr bdep first r a1 = Some a'.
Proof.
  intros d p prev bdep first t sq sq2 m arr ivt ivd r a a' H. cbn [steps_chain] in H.
  match type of H with (if ?c then _ else _) = _ => destruct c eqn:E end; [|discriminate].
  eexists. exact H.
Qed.

Definition mk_leg (t sq n : nat) (dep : Z) (sq' m : nat) (arr : Z) (w : option (Z * Z)) : leg :=
  {| lg_trip := t; lg_bseq := sq; lg_bnode := n; lg_bdep := dep; lg_useq := sq'; lg_unode := m; lg_uarr := arr;
     lg_walk := w |}.

(* the shape parse_legs accepts: board, unboard, then either the egress walk (end) or a transfer walk
   followed by a non-empty parse *)
Lemma parse_legs_inv : forall l legs ew, parse_legs l = Some (legs, ew) ->
  exists t sq n dep wt t' sq' sq2' m arr ivt ivd rest,
    l = SBoard t sq sq n dep wt :: SUnboard t' sq' sq2' m arr ivt ivd :: rest /\
    ((exists dist x y z, rest = [SWalk 1 ew dist x y z] /\ legs = [mk_leg t sq n dep sq' m arr None]) \/
     (exists w dist x y z r2 lg,
        rest = SWalk 2 w dist x y z :: r2 /\ parse_legs r2 = Some (lg, ew) /\ lg <> [] /\
        legs = mk_leg t sq n dep sq' m arr (Some (w, dist)) :: lg)).
Proof.
  intros l legs ew H.
  destruct l as [|s1 l1]; [discriminate H|].
  destruct s1 as [k1 w1 d1 x1 y1 z1 | t sq sq2 n dep wt | t0 a0 b0 m0 arr0 i0 j0]; [discriminate H| |discriminate H].
  destruct l1 as [|s2 l2]; [discriminate H|].
  destruct s2 as [k1 w1 d1 x1 y1 z1 | t0 a0 b0 n0 dep0 wt0 | t' sq' sq2' m arr ivt ivd]; [discriminate H|discriminate H|].
  cbn [parse_legs] in H.
  destruct (Nat.eqb t t' && Nat.eqb sq sq2 && Nat.eqb sq2' (S sq')) eqn:E; [|discriminate H].
  peelv E E3. peelv E E2. apply Nat.eqb_eq in E2. subst sq2.
  exists t, sq, n, dep, wt, t', sq', sq2', m, arr, ivt, ivd, l2. split; [reflexivity|].
  destruct l2 as [|s3 l3]; [discriminate H|].
  destruct s3 as [k w dist x y z | t0 a0 b0 n0 dep0 wt0 | t0 a0 b0 m0 arr0 i0 j0]; [|discriminate H|discriminate H].
  destruct k as [|[|[|k]]]; [discriminate H| | |discriminate H].
  - (* egress walk *)
    destruct l3 as [|s4 l4]; [|discriminate H].
    injection H as <- <-. left. exists dist, x, y, z. split; reflexivity.
  - (* transfer walk *)
    destruct (parse_legs l3) as [[lg e]|] eqn:P; [|discriminate H].
    destruct lg as [|g lg']; [discriminate H|].
    injection H as <- <-. right. exists w, dist, x, y, z, l3, (g :: lg').
    split; [reflexivity|]. split; [exact P|]. split; [discriminate|reflexivity].
Qed.

Lemma steps_last_arr : forall d p legs l ew lastl prev bdep first a a',
  parse_legs l = Some (legs, ew) -> last_leg legs = Some lastl ->
  steps_chain d p prev bdep first l a = Some a' ->
  last_arr_of l = lg_uarr lastl + ew.
Proof.
  intros d p. induction legs as [|g legs IH]; intros l ew lastl prev bdep first a a' Hp Hla Hsc.
  - discriminate Hla.
  - destruct (parse_legs_inv l (g :: legs) ew Hp)
      as (t & sq & n & dep & wt & t' & sq' & sq2' & m & arr & ivt & ivd & rest & El & Hcase).
    subst l.
    apply steps_chain_board_inv in Hsc. destruct Hsc as (a1 & Hsc).
    apply steps_chain_unboard_inv in Hsc. destruct Hsc as (a2 & Hsc).
    destruct Hcase as [(dist & x & y & z & Er & Elegs)|(w & dist & x & y & z & r2 & lg & Er & Hp2 & Hne & Elegs)].
    + subst rest. injection Elegs as -> ->. rewrite last_leg_one in Hla. injection Hla as <-.
      apply steps_chain_walk_inv in Hsc. destruct Hsc as (Hx & Hy & _).
      unfold last_arr_of. cbn [map last mk_leg lg_uarr]. lia.
    + subst rest. injection Elegs as -> ->.
      destruct lg as [|g2 lg2]; [exfalso; apply Hne; reflexivity|].
      rewrite last_leg_cons2 in Hla.
      apply steps_chain_walk_inv in Hsc. destruct Hsc as (_ & _ & a3 & Hsc).
      assert (Hr2 : r2 <> []) by (intros E; subst r2; discriminate Hp2).
      rewrite last_arr_cons by discriminate. rewrite last_arr_cons by discriminate.
      rewrite last_arr_cons by exact Hr2.
      apply (IH r2 ew lastl _ _ _ _ _ Hp2 Hla Hsc).
Qed.

Theorem totals_parse : forall d p r aw adep legs ew,
  totals_ok_b d p r = true -> parse_route r = Some (aw, adep, legs, ew) ->
  adep = rt_dep r /\ forall lastl, last_leg legs = Some lastl -> rt_arr r = lg_uarr lastl + ew.
Proof.
  intros d p r aw adep legs ew Ht Hp. unfold totals_ok_b in Ht. unfold parse_route in Hp.
  destruct (rt_steps r) as [|s0 rest] eqn:Es; [discriminate Hp|].
  destruct s0 as [k w dist dep arr rdy | t0 a0 b0 n0 dep0 wt0 | t0 a0 b0 m0 arr0 i0 j0];
    [|discriminate Hp|discriminate Hp].
  destruct k as [|k]; [|discriminate Hp].
  destruct (parse_legs rest) as [[lg e]|] eqn:P; [|discriminate Hp].
  injection Hp as <- <- <- <-.
  match type of Ht with match ?x with _ => _ end = _ => destruct x as [a'|] eqn:Hsc end; [|discriminate Ht].
  apply steps_chain_walk_inv in Hsc. destruct Hsc as (Hdep & _ & a1 & Hsc).
  split; [exact Hdep|]. intros lastl Hla.
  peelv Ht T11. peelv Ht T10. peelv Ht T9. peelv Ht T8. peelv Ht T7. peelv Ht T6. peelv Ht T5. peelv Ht T4.
  peelv Ht T3. peelv Ht T2. apply Z.eqb_eq in Ht. rewrite Ht.
  assert (Hrest : rest <> []) by (intros E; subst rest; discriminate P).
  fold (last_arr_of (SWalk 0 w dist dep arr rdy :: rest)).
  rewrite last_arr_cons by exact Hrest.
  apply (steps_last_arr d p lg rest e lastl _ _ _ _ _ P Hla Hsc).
Qed.

(* a route that is valid and has consistent totals is a journey from its reported departure to its
   reported arrival *)
Theorem valid_totals_journey : forall d s p acc egr r,
  wf_data_b d = true -> valid_itinerary_b d s p acc egr r = true -> totals_ok_b d p r = true ->
  exists b1 e1 rest, journey d s p acc egr (rt_dep r) ((b1, e1) :: rest) (rt_arr r).
Proof.
  intros d s p acc egr r Hwf Hv Ht.
  destruct (valid_itinerary_journey d s p acc egr r Hwf Hv)
    as (aw & adep & first & rest & ew & lastl & Hp & Hla & Hj & (b1 & e1 & Er & _)).
  destruct (totals_parse d p r aw adep (first :: rest) ew Ht Hp) as [Hd Ha].
  rewrite (Ha lastl Hla), <- Hd.
  exists b1, e1, (rides_of_legs d rest).
  unfold rides_of_legs in Hj. cbn [map] in Hj. rewrite Er in Hj. exact Hj.
Qed.

(* the span part of limits_ok_b *)
Lemma limits_span : forall d s p r, limits_ok_b d s p r = true ->
  if q_fwd p then q_time p <= rt_dep r /\ rt_arr r - q_time p <= q_maxtt p
  else rt_arr r <= q_time p /\ q_time p - rt_dep r <= q_maxtt p.
Proof.
  intros d s p r H. unfold limits_ok_b in H.
  destruct (parse_route r) as [[[[aw adep] legs] ew]|]; [|discriminate].
  peelv H L6. peelv H L5. peelv H L4. peelv H L3. peelv H L2.
  destruct (q_fwd p); peelv H H2; split;
    try (apply Z.leb_le; assumption).
Qed.

(* valid + limits + totals ==> admissible (both directions); the arrival query also needs the route not to
   leave before 0:00, which none of the three boolean predicates says *)
Theorem route_admissible_fwd : forall d s p acc egr r,
  wf_data_b d = true -> valid_itinerary_b d s p acc egr r = true -> limits_ok_b d s p r = true ->
  totals_ok_b d p r = true -> q_fwd p = true ->
  exists rides, admissible_fwd d s p acc egr rides (rt_arr r).
Proof.
  intros d s p acc egr r Hwf Hv Hl Ht Hf.
  destruct (valid_totals_journey d s p acc egr r Hwf Hv Ht) as (b1 & e1 & rest & Hj).
  pose proof (limits_span d s p r Hl) as Hs. rewrite Hf in Hs. destruct Hs as [Hq Hm].
  exists ((b1, e1) :: rest). split; [|exact Hm].
  apply (journey_mono_dep d s p acc egr (rt_dep r) (q_time p) _ _ Hj Hq).
Qed.

Theorem route_admissible_rev : forall d s p acc egr r,
  wf_data_b d = true -> valid_itinerary_b d s p acc egr r = true -> limits_ok_b d s p r = true ->
  totals_ok_b d p r = true -> q_fwd p = false -> 0 <= rt_dep r ->
  exists rides, admissible_rev d s p acc egr (rt_dep r) rides.
Proof.
  intros d s p acc egr r Hwf Hv Hl Ht Hf H0.
  destruct (valid_totals_journey d s p acc egr r Hwf Hv Ht) as (b1 & e1 & rest & Hj).
  pose proof (limits_span d s p r Hl) as Hs. rewrite Hf in Hs. destruct Hs as [Hq Hm].
  exists ((b1, e1) :: rest), (rt_arr r). auto.
Qed.

(* every route of alternativesRouting is a journey of the original query *)
Theorem alternatives_journeys : forall d s p acc egr rs total,
  wf_data_b d = true -> wf_tables_b d p acc egr = true -> wf_params_b p = true ->
  alternatives d (conn_set d s) p acc egr = Ok (rs, total) ->
  forall r, In r rs ->
    (exists b1 e1 rest, journey d s p acc egr (rt_dep r) ((b1, e1) :: rest) (rt_arr r)) /\
    (q_fwd p = true -> exists rides, admissible_fwd d s p acc egr rides (rt_arr r)).
Proof.
  intros d s p acc egr rs total Hwf Htab Hp H r Hin.
  destruct (alternatives_all_ok d s p acc egr rs total Hwf Htab Hp H r Hin) as (Hv & Hl & Ht).
  split; [apply (valid_totals_journey d s p acc egr r Hwf Hv Ht)|].
  intros Hf. apply (route_admissible_fwd d s p acc egr r Hwf Hv Hl Ht Hf).
Qed.

(* ============================================================================================== *)
(* 5. calculateSingle: the answer is attained by a declarative journey                               *)

(* the witness: a journey leaving at the reported departure and arriving at the reported arrival,
   with the span facts of the direction and the first-waiting cap of its first boarding *)
Theorem calc_single_journey : forall d s p acc egr fresh r used,
  wf_data_b d = true -> wf_tables_b d p acc egr = true -> wf_params_b p = true ->
  calc_single d (conn_set d s) p acc egr fresh = Ok (r, used) ->
  exists b1 e1 rest,
    journey d s p acc egr (rt_dep r) ((b1, e1) :: rest) (rt_arr r) /\
    0 <= rt_dep r /\
    (if q_fwd p then q_time p <= rt_dep r /\ rt_arr r - q_time p <= q_maxtt p
     else rt_arr r <= q_time p /\ q_time p - rt_dep r <= q_maxtt p) /\
    (exists ra, In ra acc /\ fp_node ra = c_from b1 /\
                rt_dep r + fp_time ra + minw_true p b1 <= c_dep b1 /\
                (q_fwd p = true -> q_maxfw p <= 0 \/ c_dep b1 - q_time p - fp_time ra <= q_maxfw p)).
Proof.
  intros d s p acc egr fresh r used Hwf Htab Hp Hcalc.
  destruct (calc_single_ok_cap d s p acc egr fresh (r, used) Hwf Htab Hp Hcalc)
    as (arr & bestdep & ar & legs & er & el & js1 & used' & Hj & Hopt & Hres & H0 & Hspan & Har & Her &
        Hla & Harr & Hdir & (b1 & Hfb & Hfrom & Hcap)).
  inversion Hres; subst r used'. clear Hres.
  pose proof (RouteValid.wf_params_minw p Hp) as Hmw.
  destruct (optimize_ends (OPT_FUEL d) d s p acc egr bestdep (walk_step ar) legs (walk_step er) b1 el js1 used
                          Hwf Hmw Hj Hfb Hla Hopt)
    as (legs' & el' & Ejs & Hfb' & Hla' & Harr' & Hto').
  pose proof (optimize_preserves (OPT_FUEL d) d s p acc egr bestdep _ js1 used Hwf Hmw Hj Hopt) as Hj'.
  subst js1.
  destruct (journey_ok_journey d s p acc egr bestdep (walk_step ar) legs' (walk_step er) Hwf Hj')
    as (b1' & el'' & e1 & rest & Hfb'' & Hla'' & Erides & Hjour & (ra & Hra & Hnra & Htra & Hwra)).
  rewrite Hfb' in Hfb''. injection Hfb'' as <-. rewrite Hla' in Hla''. injection Hla'' as <-.
  pose proof Hj' as Hj2. apply journey_ok_iff in Hj2.
  destruct Hj2 as (Ha & He & Hall & _).
  assert (Hlegs : forall j, In j legs' -> is_leg j).
  { intros j Hj0. rewrite forallb_forall in Hall.
    destruct (jleg_ok_inv d s p j (Hall j Hj0)) as (b & x & t & tr & Hb & Hx & Ht & _).
    exists b, x, t. auto. }
  destruct (emit_shape d p bestdep (walk_step ar) legs' (walk_step er) el' Ha He Hlegs Hla')
    as (_ & Hdep & Harr2).
  rewrite Hdep, Harr2. rewrite Erides in Hjour.
  cbn [walk_step js_walk] in *.
  exists b1, e1, rest. split; [exact Hjour|]. split; [exact H0|]. split.
  - destruct (q_fwd p) eqn:Hf.
    + destruct Hdir as (Hq & fs & n0 & Hscan & Hbest).
      apply best_egress_bound in Hbest.
      unfold mk_calc in Hbest. cbn [k_dep] in Hbest. rewrite Hf in Hbest.
      split; [exact Hq|lia].
    + subst arr. split; lia.
  - exists ra. split; [exact Hra|]. split; [exact Hnra|]. split; [exact Hwra|].
    intros Hf. rewrite Htra. apply Hcap. exact Hf.
Qed.

(* a departure-time answer does not arrive after the arrival the forward pass selected (best_egress):
   the reverse pass is seeded with it, and the clean-up rewrites only make the last alighting earlier.
   With the optimality of best_egress (Proofs/FwdOpt.v, F_best_optimal) this is the bounding half of
   C03_decl for an Ok answer. *)
Theorem calc_single_fwd_best : forall d s p acc egr fresh r used,
  wf_data_b d = true -> wf_tables_b d p acc egr = true -> wf_params_b p = true ->
  calc_single d (conn_set d s) p acc egr fresh = Ok (r, used) ->
  q_fwd p = true ->
  exists fs best n0,
    fwd_scan d p (mk_calc d p (conn_set d s) acc egr true true) false = Ok fs /\
    best_egress p (mk_calc d p (conn_set d s) acc egr true true) fs = Some (best, n0) /\
    rt_arr r <= best.
Proof.
  intros d s p acc egr fresh r used Hwf Htab Hp Hcalc Hf.
  destruct (calc_single_ok_cap d s p acc egr fresh (r, used) Hwf Htab Hp Hcalc)
    as (arr & bestdep & ar & legs & er & el & js1 & used' & Hj & Hopt & Hres & H0 & Hspan & Har & Her &
        Hla & Harr & Hdir & (b1 & Hfb & Hfrom & Hcap)).
  inversion Hres; subst r used'. clear Hres.
  pose proof (RouteValid.wf_params_minw p Hp) as Hmw.
  destruct (optimize_ends (OPT_FUEL d) d s p acc egr bestdep (walk_step ar) legs (walk_step er) b1 el js1 used
                          Hwf Hmw Hj Hfb Hla Hopt)
    as (legs' & el' & Ejs & Hfb' & Hla' & Harr' & Hto').
  pose proof (optimize_preserves (OPT_FUEL d) d s p acc egr bestdep _ js1 used Hwf Hmw Hj Hopt) as Hj'.
  subst js1.
  pose proof Hj' as Hj2. apply journey_ok_iff in Hj2.
  destruct Hj2 as (Ha & He & Hall & _).
  assert (Hlegs : forall j, In j legs' -> is_leg j).
  { intros j Hj0. rewrite forallb_forall in Hall.
    destruct (jleg_ok_inv d s p j (Hall j Hj0)) as (b & x & t & tr & Hb & Hx & Ht & _).
    exists b, x, t. auto. }
  destruct (emit_shape d p bestdep (walk_step ar) legs' (walk_step er) el' Ha He Hlegs Hla')
    as (_ & _ & Harr2).
  rewrite Harr2. cbn [walk_step js_walk].
  rewrite Hf in Hdir. destruct Hdir as (_ & fs & n0 & Hscan & Hbest).
  exists fs, arr, n0. split; [exact Hscan|]. split; [exact Hbest|]. lia.
Qed.

(* C03, attained half: a departure-time answer's arrival is the arrival of an admissible journey *)
Theorem route_attained_fwd : forall d s p acc egr fresh r used,
  wf_data_b d = true -> wf_tables_b d p acc egr = true -> wf_params_b p = true ->
  calc_single d (conn_set d s) p acc egr fresh = Ok (r, used) ->
  q_fwd p = true ->
  (exists rides, admissible_fwd d s p acc egr rides (rt_arr r)) /\
  (exists rides arr, journey d s p acc egr (rt_dep r) rides arr /\ arr <= rt_arr r) /\
  q_time p <= rt_dep r.
Proof.
  intros d s p acc egr fresh r used Hwf Htab Hp Hcalc Hf.
  destruct (calc_single_journey d s p acc egr fresh r used Hwf Htab Hp Hcalc)
    as (b1 & e1 & rest & Hj & H0 & Hspan & _).
  rewrite Hf in Hspan. destruct Hspan as [Hq Hmax].
  split; [|split; [|exact Hq]].
  - exists ((b1, e1) :: rest). split; [|exact Hmax].
    apply (journey_mono_dep d s p acc egr (rt_dep r) (q_time p) _ _ Hj Hq).
  - exists ((b1, e1) :: rest), (rt_arr r). split; [exact Hj|lia].
Qed.

(* C04, attained half: an arrival-time answer's departure is the departure of an admissible journey *)
Theorem route_attained_rev : forall d s p acc egr fresh r used,
  wf_data_b d = true -> wf_tables_b d p acc egr = true -> wf_params_b p = true ->
  calc_single d (conn_set d s) p acc egr fresh = Ok (r, used) ->
  q_fwd p = false ->
  exists rides, admissible_rev d s p acc egr (rt_dep r) rides.
Proof.
  intros d s p acc egr fresh r used Hwf Htab Hp Hcalc Hf.
  destruct (calc_single_journey d s p acc egr fresh r used Hwf Htab Hp Hcalc)
    as (b1 & e1 & rest & Hj & H0 & Hspan & _).
  rewrite Hf in Hspan. destruct Hspan as [Hq Hmax].
  exists ((b1, e1) :: rest), (rt_arr r). auto.
Qed.

(* the same, in the shape of the first conjuncts of C03_decl / C04_decl / C05_decl of Optimal.v *)
Definition C03_attained_prop (d : data) (s : scenario) (p : params) (acc egr : list fprow) : Prop :=
  match route_answer d s p acc egr with
  | Ok (r, _) => exists rides, admissible_fwd d s p acc egr rides (rt_arr r)
  | _ => True
  end.
Definition C04_attained_prop (d : data) (s : scenario) (p : params) (acc egr : list fprow) : Prop :=
  match route_answer d s p acc egr with
  | Ok (r, _) => exists rides, admissible_rev d s p acc egr (rt_dep r) rides
  | _ => True
  end.
Definition C05_attained_prop (d : data) (s : scenario) (p : params) (acc egr : list fprow) : Prop :=
  forall r used, route_answer d s p acc egr = Ok (r, used) ->
    q_time p <= rt_dep r /\
    (exists rides arr, journey d s p acc egr (rt_dep r) rides arr /\ arr <= rt_arr r).

Theorem C03_attained : forall d s p acc egr,
  opt_domain d s p acc egr -> q_fwd p = true -> C03_attained_prop d s p acc egr.
Proof.
  intros d s p acc egr (Hwf & _ & Htab & Hp & _) Hf. unfold C03_attained_prop.
  destruct (route_answer d s p acc egr) as [[r used]| | | | | | | |] eqn:E; try exact I.
  unfold route_answer in E.
  exact (proj1 (route_attained_fwd d s p acc egr true r used Hwf Htab Hp E Hf)).
Qed.

Theorem C04_attained : forall d s p acc egr,
  opt_domain d s p acc egr -> q_fwd p = false -> C04_attained_prop d s p acc egr.
Proof.
  intros d s p acc egr (Hwf & _ & Htab & Hp & _) Hf. unfold C04_attained_prop.
  destruct (route_answer d s p acc egr) as [[r used]| | | | | | | |] eqn:E; try exact I.
  unfold route_answer in E.
  exact (route_attained_rev d s p acc egr true r used Hwf Htab Hp E Hf).
Qed.

Theorem C05_attained : forall d s p acc egr,
  opt_domain d s p acc egr -> q_fwd p = true -> C05_attained_prop d s p acc egr.
Proof.
  intros d s p acc egr (Hwf & _ & Htab & Hp & _) Hf r used E.
  unfold route_answer in E.
  destruct (route_attained_fwd d s p acc egr true r used Hwf Htab Hp E Hf) as (_ & H2 & H3).
  split; assumption.
Qed.

(* hence: any lower bound of the admissible arrivals is below the answer, any upper bound of the
   admissible departures is above it *)
Corollary C03_optimum_le : forall d s p acc egr r used optimum,
  opt_domain d s p acc egr -> q_fwd p = true ->
  route_answer d s p acc egr = Ok (r, used) ->
  (forall rides t, admissible_fwd d s p acc egr rides t -> optimum <= t) -> optimum <= rt_arr r.
Proof.
  intros d s p acc egr r used optimum Hdom Hf E Hopt.
  pose proof (C03_attained d s p acc egr Hdom Hf) as H. unfold C03_attained_prop in H. rewrite E in H.
  destruct H as (rides & Hr). apply (Hopt rides _ Hr).
Qed.

Corollary C04_optimum_ge : forall d s p acc egr r used optimum,
  opt_domain d s p acc egr -> q_fwd p = false ->
  route_answer d s p acc egr = Ok (r, used) ->
  (forall dep0 rides, admissible_rev d s p acc egr dep0 rides -> dep0 <= optimum) -> rt_dep r <= optimum.
Proof.
  intros d s p acc egr r used optimum Hdom Hf E Hopt.
  pose proof (C04_attained d s p acc egr Hdom Hf) as H. unfold C04_attained_prop in H. rewrite E in H.
  destruct H as (rides & Hr). apply (Hopt _ rides Hr).
Qed.

(* the full statements follow from the attained halves and the bounding halves (the latter are the
   subject of Proofs/FwdOpt.v / RevOpt.v): packaging lemmas for the composition *)
Lemma C03_decl_from_bound : forall d s p acc egr,
  opt_domain d s p acc egr -> q_fwd p = true ->
  (forall r used, route_answer d s p acc egr = Ok (r, used) ->
     forall rides t, admissible_fwd d s p acc egr rides t -> rt_arr r <= t) ->
  (forall reason, route_answer d s p acc egr = NoRouting reason ->
     forall rides t, ~ admissible_fwd d s p acc egr rides t) ->
  C03_decl d s p acc egr.
Proof.
  intros d s p acc egr Hdom Hf Hbound Hnone.
  pose proof (C03_attained d s p acc egr Hdom Hf) as Hatt. unfold C03_attained_prop in Hatt.
  destruct Hdom as (Hwf & _ & Htab & Hp & _).
  unfold C03_decl.
  destruct (calc_single_outcome d s p acc egr true Hwf Htab Hp) as [(r & used & E)|(reason & E)];
    fold (route_answer d s p acc egr) in E; rewrite E in *.
  - split; [exact Hatt|]. apply (Hbound r used eq_refl).
  - apply (Hnone reason eq_refl).
Qed.

Lemma C04_decl_from_bound : forall d s p acc egr,
  opt_domain d s p acc egr -> q_fwd p = false ->
  (forall r used, route_answer d s p acc egr = Ok (r, used) ->
     forall dep0 rides, admissible_rev d s p acc egr dep0 rides -> dep0 <= rt_dep r) ->
  (forall reason, route_answer d s p acc egr = NoRouting reason ->
     forall dep0 rides, ~ admissible_rev d s p acc egr dep0 rides) ->
  C04_decl d s p acc egr.
Proof.
  intros d s p acc egr Hdom Hf Hbound Hnone.
  pose proof (C04_attained d s p acc egr Hdom Hf) as Hatt. unfold C04_attained_prop in Hatt.
  destruct Hdom as (Hwf & _ & Htab & Hp & _).
  unfold C04_decl.
  destruct (calc_single_outcome d s p acc egr true Hwf Htab Hp) as [(r & used & E)|(reason & E)];
    fold (route_answer d s p acc egr) in E; rewrite E in *.
  - split; [exact Hatt|]. apply (Hbound r used eq_refl).
  - apply (Hnone reason eq_refl).
Qed.

Lemma C05_decl_from_bound : forall d s p acc egr,
  opt_domain d s p acc egr -> q_fwd p = true ->
  (forall r used, route_answer d s p acc egr = Ok (r, used) ->
     forall dep0 rides arr, journey d s p acc egr dep0 rides arr -> arr <= rt_arr r -> q_time p <= dep0 ->
                            dep0 <= rt_dep r) ->
  C05_decl d s p acc egr.
Proof.
  intros d s p acc egr Hdom Hf Hbound r used E.
  destruct (C05_attained d s p acc egr Hdom Hf r used E) as [H1 H2].
  split; [exact H1|]. split; [exact H2|]. apply (Hbound r used E).
Qed.

Print Assumptions reaches_snoc_inv.
Print Assumptions reaches_arrival_ge.
Print Assumptions journey_ok_journey.
Print Assumptions valid_totals_journey.
Print Assumptions alternatives_journeys.
Print Assumptions calc_single_journey.
Print Assumptions calc_single_fwd_best.
Print Assumptions route_attained_fwd.
Print Assumptions route_attained_rev.
Print Assumptions C03_attained.
Print Assumptions C04_attained.
Print Assumptions C05_attained.
Print Assumptions C03_decl_from_bound.
Print Assumptions C04_decl_from_bound.
Print Assumptions C05_decl_from_bound.

(* non-vacuity: the domain of the attained statements is inhabited and the router answers, both directions *)
From TrV Require Import Examples.
Example attained_nonvacuous :
  opt_domain ex_data scen_all (ex_params true 35000) ex_acc ex_egr /\
  opt_domain ex_data scen_all (ex_params false 37000) ex_acc ex_egr /\
  match route_answer ex_data scen_all (ex_params true 35000) ex_acc ex_egr with
  | Ok (r, _) => rt_dep r = 35840 /\ rt_arr r = 36750 | _ => False end /\
  match route_answer ex_data scen_all (ex_params false 37000) ex_acc ex_egr with
  | Ok (r, _) => rt_dep r = 35840 /\ rt_arr r = 36950 | _ => False end.
Proof. unfold opt_domain. vm_compute. repeat split; reflexivity. Qed.

(* OPEN: nothing of the assignment is open.  Not addressed here (other files): the bounding halves of
   C03_decl / C04_decl / C05_decl (no admissible journey beats the answer; NoRouting only when no admissible
   journey exists) -- C03_decl_from_bound / C04_decl_from_bound / C05_decl_from_bound reduce the full
   statements to exactly those.
   Remark: route_admissible_rev / alternatives_journeys do not give admissible_rev for alternative routes
   because none of valid_itinerary_b / limits_ok_b / totals_ok_b says 0 <= rt_dep r; for calculateSingle it
   comes from calc_single_ok_cap (the `t >=? 0` test of best_access). *)
