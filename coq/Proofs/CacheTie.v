(* CacheTie.v — Server.v's cache operations ARE the six methods of src/connection_cache.cpp as tools/gen_scenario.py reads
   them NOW (gen/Scenario.v: gen_cache_one_get/set/clear, gen_cache_all_get/set/clear), each run as ONE atomic step by the
   interpreter of coq/ScenCode.v.

   The interpreter gives a thread two views of the members: `pre`, their state at some moment before it holds the lock
   (stale by the time it does: other threads run), and `cur`, their state while it holds it.  A member read in front of the
   lock statement sees `pre`; a write there is not a step at all.  Every tie below is stated FOR ALL `pre`: the result of the
   method is a function of the state under the lock only - which is what entitles Server.v (tstep, C14) to treat a method
   call as atomic.  Moving the uuid comparison of ScenarioConnectionCacheOne::get in front of the lock (stored change
   C14_cache_uuid_compare_before_lock) makes the answer depend on `pre`: one_get_is_code and the discipline facts fail.

     one_get_is_code, one_set_is_code, one_clear_is_code, all_get_is_code, all_set_is_code, all_clear_is_code
     cache_methods_are_code     the three operations of Server.v, for either class
     lock_discipline_*          per method: the first statement that is not logging takes the lock, on `mutex`, of the right
                                kind (shared for get, exclusive for set / clear), exactly one lock statement, and no statement
                                in front of it reads or writes a member (in get: the comparison / look-up and the copy that is
                                returned are both behind the same lock) *)
From Coq Require Import List ZArith Bool Arith Lia.
From TrV Require Import Render.
Require Import TrV.ScenCode.
Require TrV.gen.Scenario.
Import ListNotations.

Module GS := TrV.gen.Scenario.

Definition gen_cache_one : cache_code :=
  {| cc_get := GS.gen_cache_one_get; cc_set := GS.gen_cache_one_set; cc_clear := GS.gen_cache_one_clear |}.
Definition gen_cache_all : cache_code :=
  {| cc_get := GS.gen_cache_all_get; cc_set := GS.gen_cache_all_set; cc_clear := GS.gen_cache_all_clear |}.
(* the class behind the ScenarioConnectionCache pointer (--cacheAllConnectionSets) *)
Definition gen_cache_code (c : cache) : cache_code :=
  match c with COne _ => gen_cache_one | CAll _ => gen_cache_all end.

(* std::optional<std::shared_ptr<ConnectionSet>> as the model's option *)
Definition lift (o : option connset) : mret :=
  match o with Some v => MSome (Some v) | None => MNullopt end.

Theorem one_get_is_code : forall pre e k arg,
  run_method GS.gen_cache_one_get pre (repr (COne e)) k arg = Some (lift (cache_get (COne e) k), repr (COne e)).
Proof.
  intros pre e k arg. unfold run_method, GS.gen_cache_one_get.
  destruct e as [[k0 v0]|]; cbn.
  - rewrite (Nat.eqb_sym k0 k). destruct (Nat.eqb k k0); reflexivity.
  - reflexivity.
Qed.

Theorem one_set_is_code : forall pre e k v arg,
  arg = Some v ->
  run_method GS.gen_cache_one_set pre (repr (COne e)) k arg = Some (MVoid, repr (cache_set (COne e) k v)).
Proof.
  intros pre e k v arg ->. unfold run_method, GS.gen_cache_one_set. destruct e as [[k0 v0]|]; reflexivity.
Qed.

Theorem one_clear_is_code : forall pre e k arg,
  run_method GS.gen_cache_one_clear pre (repr (COne e)) k arg = Some (MVoid, repr (cache_clear (COne e))).
Proof.
  intros pre e k arg. unfold run_method, GS.gen_cache_one_clear. destruct e as [[k0 v0]|]; reflexivity.
Qed.

Theorem all_get_is_code : forall pre l k arg,
  run_method GS.gen_cache_all_get pre (repr (CAll l)) k arg = Some (lift (cache_get (CAll l) k), repr (CAll l)).
Proof.
  intros pre l k arg. unfold run_method, GS.gen_cache_all_get. cbn.
  destruct (assoc k l); reflexivity.
Qed.

Theorem all_set_is_code : forall pre l k v arg,
  arg = Some v ->
  run_method GS.gen_cache_all_set pre (repr (CAll l)) k arg = Some (MVoid, repr (cache_set (CAll l) k v)).
Proof. intros pre l k v arg ->. reflexivity. Qed.

Theorem all_clear_is_code : forall pre l k arg,
  run_method GS.gen_cache_all_clear pre (repr (CAll l)) k arg = Some (MVoid, repr (cache_clear (CAll l))).
Proof. intros. reflexivity. Qed.

Theorem cache_methods_are_code : forall pre c k v arg,
  run_method (cc_get (gen_cache_code c)) pre (repr c) k arg = Some (lift (cache_get c k), repr c) /\
  run_method (cc_set (gen_cache_code c)) pre (repr c) k (Some v) = Some (MVoid, repr (cache_set c k v)) /\
  run_method (cc_clear (gen_cache_code c)) pre (repr c) k arg = Some (MVoid, repr (cache_clear c)).
Proof.
  intros pre c k v arg. destruct c as [e|l]; cbn [gen_cache_code gen_cache_one gen_cache_all cc_get cc_set cc_clear].
  - split; [apply one_get_is_code | split; [now apply one_set_is_code | apply one_clear_is_code]].
  - split; [apply all_get_is_code | split; [now apply all_set_is_code | apply all_clear_is_code]].
Qed.

(* the abstraction is faithful: two caches with the same members are the same cache *)
Lemma repr_inj_one : forall e e', repr (COne e) = repr (COne e') -> e = e'.
Proof. intros [[k v]|] [[k' v']|]; cbn; intro H; congruence. Qed.
Lemma repr_inj_all : forall l l', repr (CAll l) = repr (CAll l') -> l = l'.
Proof. cbn. intros l l' H. congruence. Qed.

(* ---------------------------------------------------------------------------------------------- *)
(* the lock discipline, read off the regenerated statement lists                                   *)

Theorem lock_discipline_one_get : lock_discipline GS.gen_cache_one_get LkShared = true.
Proof. reflexivity. Qed.
Theorem lock_discipline_one_set : lock_discipline GS.gen_cache_one_set LkUnique = true.
Proof. reflexivity. Qed.
Theorem lock_discipline_one_clear : lock_discipline GS.gen_cache_one_clear LkUnique = true.
Proof. reflexivity. Qed.
Theorem lock_discipline_all_get : lock_discipline GS.gen_cache_all_get LkShared = true.
Proof. reflexivity. Qed.
Theorem lock_discipline_all_set : lock_discipline GS.gen_cache_all_set LkUnique = true.
Proof. reflexivity. Qed.
Theorem lock_discipline_all_clear : lock_discipline GS.gen_cache_all_clear LkUnique = true.
Proof. reflexivity. Qed.

Theorem lock_first_all :
  forallb lock_first [GS.gen_cache_one_get; GS.gen_cache_one_set; GS.gen_cache_one_clear;
                      GS.gen_cache_all_get; GS.gen_cache_all_set; GS.gen_cache_all_clear] = true.
Proof. reflexivity. Qed.

(* in `get`, the statement that compares / looks up and the statement that copies the pointer out are both behind the
   one lock statement: nothing in front of it touches a member, and the rest of the body does *)
Definition after_lock (b : list cstmt) : list cstmt :=
  match skip_logs b with CLock _ :: r => r | _ => [] end.
Theorem get_compare_and_copy_under_one_lock :
  blk_touches stmt_touches (after_lock GS.gen_cache_one_get) = true /\
  blk_touches stmt_touches (after_lock GS.gen_cache_all_get) = true /\
  locks_in GS.gen_cache_one_get = 1%nat /\ locks_in GS.gen_cache_all_get = 1%nat /\
  members_under_lock GS.gen_cache_one_get = true /\ members_under_lock GS.gen_cache_all_get = true.
Proof. repeat split; reflexivity. Qed.

