(* LoaderGuardsTie.v — the model's loaders (Loader.v, Loader2.v) ARE the loaders instantiated with the skip rules, field
   choices and status tests that tools/gen_loader_guards.py translated from the current C++ sources (gen/LoaderGuards.v,
   regenerated on every run):

     trips_and_connections_cache_fetcher.cpp  CacheFetcher::getSchedules
       1. per-fragment lemmas `gen_*_spec`; the stop-time loop of the D13 repair as the source writes it (`order_loop`:
          start value, loop condition, per-index test, flag) = `trip_times_in_order`; `load_trip` = `load_trip_code`
          (unknown path, count test, order test, in source order, each with the generated condition)
       2. the i-th connection of a loaded trip has the fields the source's constructor call gives it
          (`loaded_conn_fields_code`), the loop runs over exactly the generated range, minimum waiting time by mode
     nodes_cache_fetcher.cpp  CacheFetcher::getNodes, per-stop files
       3. the row filter of `node_rows` / `node_rows_p` is the two generated skip tests, the rows pushed carry the
          generated fields, the self row is the generated one, pushed after the rows into the list of the file's stop;
          the length test of the three parallel lists (D14) - which the model does not have, its message type being a
          list of rows - is tied through the mapping the harness uses (tools/loadmodel.py: such a file is a garbled
          file with an empty prefix): `stop_file_of_lists`
     transit_data.cpp  TransitData::getDataStatus
       4. `data_status` = the generated decision list, the status codes = the enumerators of transit_data.hpp

   A changed operator, a dropped test, a shifted index or two swapped tests in the source change gen/LoaderGuards.v and
   one of these lemmas stops compiling; harmless rewrites (reordered disjuncts, `a > b` for `b < a`, renamed locals,
   comments, log lines) still pass. *)
From Coq Require Import List ZArith Bool Lia ZifyBool Arith.
Import ListNotations.
From TrV Require Import Loader2 Proofs.LoaderProofs.
From TrV Require gen.LoaderGuards.
Local Open Scope Z_scope.
Local Open Scope bool_scope.

Module G := TrV.gen.LoaderGuards.

Ltac ltie := intros; cbv beta delta [
  G.gen_sched_unknown_service G.gen_trip_unknown_path G.gen_trip_counts_bad G.gen_trip_order_flag_init
  G.gen_trip_order_flag_on_bad G.gen_trip_order_start G.gen_trip_order_cond G.gen_trip_order_bad G.gen_trip_order_skip
  G.gen_conn_loop_start G.gen_conn_loop_cond G.gen_conn_from_idx G.gen_conn_to_idx G.gen_conn_dep G.gen_conn_arr
  G.gen_conn_can_board G.gen_conn_can_unboard G.gen_conn_seq G.gen_conn_minw G.gen_stop_lists_bad G.gen_stop_lists_bad_ret
  G.gen_stop_rows_start G.gen_stop_rows_cond G.gen_node_unknown G.gen_node_time_bad G.gen_node_row_time G.gen_node_row_dist
  G.gen_node_rev_time G.gen_node_rev_dist G.gen_node_row_names_target G.gen_node_rev_owner_is_target
  G.gen_node_rev_names_current G.gen_node_self_time G.gen_node_self_dist G.gen_node_self_owner_is_current
  G.gen_node_self_names_current G.gen_node_self_after_rows G.EBADMSG G.EINVAL G.ENOENT];
  first [reflexivity | lia | (repeat match goal with |- context [if ?b then _ else _] => destruct b end); first [reflexivity | lia]].

(* ============================================================================================== *)
(* 0. every generated fragment is (extensionally) the expression the model uses                     *)

Lemma gen_sched_unknown_service_spec found : G.gen_sched_unknown_service found = negb found. Proof. ltie. Qed.
Lemma gen_trip_unknown_path_spec found : G.gen_trip_unknown_path found = negb found. Proof. ltie. Qed.
Lemma gen_trip_counts_bad_spec n np nd nb nu :
  G.gen_trip_counts_bad n np nd nb nu = (Nat.ltb n 2 || Nat.ltb np n || Nat.ltb nd n || Nat.ltb nb n || Nat.ltb nu n).
Proof. ltie. Qed.
Lemma gen_trip_order_flag_init_spec : G.gen_trip_order_flag_init = true. Proof. ltie. Qed.
Lemma gen_trip_order_flag_on_bad_spec : G.gen_trip_order_flag_on_bad = false. Proof. ltie. Qed.
Lemma gen_trip_order_start_spec : G.gen_trip_order_start = 0%nat. Proof. ltie. Qed.
Lemma gen_trip_order_cond_spec i n nd : G.gen_trip_order_cond i n nd = Nat.ltb (i + 1) n. Proof. ltie. Qed.
Lemma gen_trip_order_bad_spec di dn ai an i :
  G.gen_trip_order_bad di dn ai an i = ((di <? 0) || (an <? di) || (negb (Nat.eqb i 0) && (di <? ai))).
Proof. ltie. Qed.
Lemma gen_trip_order_skip_spec ok : G.gen_trip_order_skip ok = negb ok. Proof. ltie. Qed.
Lemma gen_conn_loop_start_spec : G.gen_conn_loop_start = 0%nat. Proof. ltie. Qed.
Lemma gen_conn_loop_cond_spec i n : G.gen_conn_loop_cond i n = Nat.ltb i (n - 1). Proof. ltie. Qed.
Lemma gen_conn_from_idx_spec i : G.gen_conn_from_idx i = i. Proof. ltie. Qed.
Lemma gen_conn_to_idx_spec i : G.gen_conn_to_idx i = S i. Proof. ltie. Qed.
Lemma gen_conn_dep_spec di dn ai an : G.gen_conn_dep di dn ai an = di. Proof. ltie. Qed.
Lemma gen_conn_arr_spec di dn ai an : G.gen_conn_arr di dn ai an = an. Proof. ltie. Qed.
Lemma gen_conn_can_board_spec bi bn ui un : G.gen_conn_can_board bi bn ui un = (bi =? 1). Proof. ltie. Qed.
Lemma gen_conn_can_unboard_spec bi bn ui un : G.gen_conn_can_unboard bi bn ui un = (un =? 1). Proof. ltie. Qed.
Lemma gen_conn_seq_spec i : G.gen_conn_seq i = (1 + i)%nat. Proof. ltie. Qed.
Lemma gen_conn_minw_spec tr : G.gen_conn_minw tr = (if tr then 0 else -1). Proof. ltie. Qed.
Lemma gen_stop_lists_bad_spec nu nt nd : G.gen_stop_lists_bad nu nt nd = (Nat.ltb nt nu || Nat.ltb nd nu). Proof. ltie. Qed.
Lemma gen_stop_lists_bad_ret_spec : G.gen_stop_lists_bad_ret = - G.EBADMSG. Proof. ltie. Qed.
Lemma gen_stop_rows_start_spec : G.gen_stop_rows_start = 0%nat. Proof. ltie. Qed.
Lemma gen_stop_rows_cond_spec j nu : G.gen_stop_rows_cond j nu = Nat.ltb j nu. Proof. ltie. Qed.
Lemma gen_node_unknown_spec k : G.gen_node_unknown k = Nat.eqb k 0. Proof. ltie. Qed.
Lemma gen_node_time_bad_spec t d : G.gen_node_time_bad t d = (t <? 0). Proof. ltie. Qed.
Lemma gen_node_row_time_spec t d : G.gen_node_row_time t d = t. Proof. ltie. Qed.
Lemma gen_node_row_dist_spec t d : G.gen_node_row_dist t d = d. Proof. ltie. Qed.
Lemma gen_node_rev_time_spec t d : G.gen_node_rev_time t d = t. Proof. ltie. Qed.
Lemma gen_node_rev_dist_spec t d : G.gen_node_rev_dist t d = d. Proof. ltie. Qed.
Lemma gen_node_self_time_spec : G.gen_node_self_time = 0. Proof. ltie. Qed.
Lemma gen_node_self_dist_spec : G.gen_node_self_dist = 0. Proof. ltie. Qed.
(* who gets which row: the forward row names the stop of the entry; the reverse row goes to the list OF that stop and
   names the stop of the file; the self row goes to the list of the file's stop, names it, and is pushed after the rows *)
Lemma gen_node_row_placement_spec :
  G.gen_node_row_names_target = true /\ G.gen_node_rev_owner_is_target = true /\ G.gen_node_rev_names_current = true /\
  G.gen_node_self_owner_is_current = true /\ G.gen_node_self_names_current = true /\ G.gen_node_self_after_rows = true.
Proof. repeat split; ltie. Qed.

(* from here on the fragments are used through their `_spec` lemmas only.  `rewrite` compares closed subterms modulo
   conversion and several fragments are convertible to a bare `negb` or `orb` of the model's own text: `gspec H`, for
   H : t = r, replaces the SYNTACTIC occurrences of t by r *)
Ltac gspec H :=
  match type of H with
  | ?t = _ => generalize H; generalize t; let x := fresh "g" in let Hx := fresh "Hg" in intros x Hx; subst x
  end.

(* ============================================================================================== *)
(* 1. getSchedules: which trips are skipped                                                        *)


(* the schedule loop: a schedule of an unknown service is skipped *)
Lemma sched_skip_code : forall sv services,
  memb sv services = negb (G.gen_sched_unknown_service (memb sv services)).
Proof. intros sv services. gspec (gen_sched_unknown_service_spec (memb sv services)). rewrite negb_involutive. reflexivity. Qed.

(* the model's per-index test is the generated one on the elements the source reads *)
Lemma time_step_bad_code : forall arr dep i,
  time_step_bad arr dep i = G.gen_trip_order_bad (nth i dep 0) (nth (S i) dep 0) (nth i arr 0) (nth (S i) arr 0) i.
Proof.
  intros arr dep i. gspec (gen_trip_order_bad_spec (nth i dep 0) (nth (S i) dep 0) (nth i arr 0) (nth (S i) arr 0) i). reflexivity.
Qed.

(* the loop of the D13 repair as the source writes it: `flag = init; for (i = start; cond i; i++) if (bad i) { flag =
   on_bad; break; }`, result: the flag.  fuel: the loop is entered at most n times *)
Section OrderLoop.
  Variables (cond bad : nat -> bool) (init on_bad : bool).
  Fixpoint order_loop (fuel i : nat) : bool :=
    match fuel with
    | O => init
    | S f => if cond i then (if bad i then on_bad else order_loop f (S i)) else init
    end.
End OrderLoop.

Definition order_loop_code (arr dep : list Z) (n nd : nat) : bool :=
  order_loop (fun i => G.gen_trip_order_cond i n nd)
             (fun i => G.gen_trip_order_bad (nth i dep 0) (nth (S i) dep 0) (nth i arr 0) (nth (S i) arr 0) i)
             G.gen_trip_order_flag_init G.gen_trip_order_flag_on_bad n G.gen_trip_order_start.

Lemma order_loop_forallb : forall (bad : nat -> bool) n k s f,
  (s + k = n - 1)%nat -> (k < f)%nat ->
  order_loop (fun i => Nat.ltb (i + 1) n) bad true false f s = forallb (fun i => negb (bad i)) (seq s k).
Proof.
  intros bad n k. induction k as [|k IHk]; intros s f Hsk Hf.
  - destruct f as [|f]; [lia|]. cbn [order_loop seq forallb].
    destruct (Nat.ltb (s + 1) n) eqn:Hc; [apply Nat.ltb_lt in Hc; lia|reflexivity].
  - destruct f as [|f]; [lia|]. cbn [order_loop seq forallb].
    destruct (Nat.ltb (s + 1) n) eqn:Hc; [|apply Nat.ltb_ge in Hc; lia].
    destruct (bad s) eqn:Hb; cbn [negb andb]; [reflexivity|].
    apply IHk; lia.
Qed.

Lemma order_loop_ext : forall c1 c2 b1 b2 i1 i2 o1 o2, (forall i, c1 i = c2 i) -> (forall i, b1 i = b2 i) -> i1 = i2 -> o1 = o2 ->
  forall f s, order_loop c1 b1 i1 o1 f s = order_loop c2 b2 i2 o2 f s.
Proof.
  intros c1 c2 b1 b2 i1 i2 o1 o2 Hc Hb Hi Ho f. subst i2 o2.
  induction f as [|f IHf]; intros s; cbn [order_loop]; [reflexivity|].
  rewrite Hc, Hb, IHf. reflexivity.
Qed.

Theorem trip_times_in_order_code : forall arr dep n nd,
  trip_times_in_order arr dep n = order_loop_code arr dep n nd.
Proof.
  intros arr dep n nd. unfold order_loop_code, trip_times_in_order.
  rewrite (order_loop_ext _ (fun i => Nat.ltb (i + 1) n) _ (time_step_bad arr dep) _ true _ false).
  - gspec gen_trip_order_start_spec.
    destruct n as [|n].
    + reflexivity.
    + symmetry. apply (order_loop_forallb (time_step_bad arr dep) (S n) (S n - 1) 0 (S n)); lia.
  - intros i. apply gen_trip_order_cond_spec.
  - intros i. symmetry. apply time_step_bad_code.
  - exact gen_trip_order_flag_init_spec.
  - exact gen_trip_order_flag_on_bad_spec.
Qed.

(* the same as a statement about indices: the trip passes iff no index the loop visits fails the generated test *)
Theorem trip_times_in_order_code_iff : forall arr dep n nd,
  trip_times_in_order arr dep n = true <->
  (forall i, G.gen_trip_order_cond i n nd = true ->
             G.gen_trip_order_bad (nth i dep 0) (nth (S i) dep 0) (nth i arr 0) (nth (S i) arr 0) i = false).
Proof.
  intros arr dep n nd. rewrite trip_times_in_order_iff. split.
  - intros Hall i Hc. rewrite (gen_trip_order_cond_spec i n nd) in Hc. apply Nat.ltb_lt in Hc.
    rewrite <- time_step_bad_code. apply time_step_bad_false. apply Hall. exact Hc.
  - intros Hall i Hi. apply time_step_bad_false. rewrite time_step_bad_code. apply Hall.
    rewrite (gen_trip_order_cond_spec i n nd). apply Nat.ltb_lt. exact Hi.
Qed.

(* one trip entry as the source processes it: the three `continue` tests in source order *)
Definition load_trip_code (paths : list path) (service : nat) (m : trip_msg) : option (option trip) :=
  match tm_id m, tm_path m with
  | Some tid, Some pid =>
      let found := find (fun p => Nat.eqb (p_id p) pid) paths in
      if G.gen_trip_unknown_path (is_some found) then Some None else
      let np := match found with Some p => length (p_nodes p) | None => 0%nat end in
      let n := length (tm_arr m) in
      if G.gen_trip_counts_bad n np (length (tm_dep m)) (length (tm_cb m)) (length (tm_cu m)) then Some None else
      if G.gen_trip_order_skip (order_loop_code (tm_arr m) (tm_dep m) n (length (tm_dep m))) then Some None else
      Some (Some {| t_id := tid; t_path := pid; t_service := service;
                    t_times := zip_times (tm_arr m) (firstn n (tm_dep m)) (firstn n (tm_cb m)) (firstn n (tm_cu m)) |})
  | _, _ => None
  end.

Theorem load_trip_tie : forall paths service m, load_trip paths service m = load_trip_code paths service m.
Proof.
  intros paths service m. unfold load_trip, load_trip_code.
  destruct (tm_id m) as [tid|]; [|reflexivity].
  destruct (tm_path m) as [pid|]; [|reflexivity].
  cbv zeta.
  destruct (find (fun p => Nat.eqb (p_id p) pid) paths) as [p|]; cbn [is_some].
  - gspec (gen_trip_unknown_path_spec true). cbn [negb].
    gspec (gen_trip_counts_bad_spec (length (tm_arr m)) (length (p_nodes p)) (length (tm_dep m)) (length (tm_cb m)) (length (tm_cu m))).
    gspec (gen_trip_order_skip_spec (order_loop_code (tm_arr m) (tm_dep m) (length (tm_arr m)) (length (tm_dep m)))).
    gspec (eq_sym (trip_times_in_order_code (tm_arr m) (tm_dep m) (length (tm_arr m)) (length (tm_dep m)))).
    reflexivity.
  - gspec (gen_trip_unknown_path_spec false). reflexivity.
Qed.

(* the skip condition alone, on the lengths the source compares *)
Corollary load_trip_skip_rules_code : forall paths service m tid pid p,
  tm_id m = Some tid -> tm_path m = Some pid -> find (fun p => Nat.eqb (p_id p) pid) paths = Some p ->
  (load_trip paths service m = Some None <->
   G.gen_trip_counts_bad (length (tm_arr m)) (length (p_nodes p)) (length (tm_dep m)) (length (tm_cb m)) (length (tm_cu m))
   || G.gen_trip_order_skip (order_loop_code (tm_arr m) (tm_dep m) (length (tm_arr m)) (length (tm_dep m))) = true).
Proof.
  intros paths service m tid pid p Hid Hpid Hfind. rewrite load_trip_tie. unfold load_trip_code.
  rewrite Hid, Hpid, Hfind. cbv zeta. cbn [is_some]. gspec (gen_trip_unknown_path_spec true). cbn [negb].
  destruct (G.gen_trip_counts_bad _ _ _ _ _); cbn [orb]; [split; reflexivity|].
  destruct (G.gen_trip_order_skip _); split; intros H; try reflexivity; discriminate H.
Qed.

(* ============================================================================================== *)
(* 2. getSchedules: how a connection is built from index i                                         *)


Definition st0 : stoptime := {| st_arr := 0; st_dep := 0; st_cb := false; st_cu := false |}.

Lemma mk_conns_step : forall tid minw seq n0 n1 ns s0 s1 ss,
  mk_conns tid minw seq (n0 :: n1 :: ns) (s0 :: s1 :: ss) =
  {| c_trip := tid; c_seq := seq; c_from := n0; c_to := n1; c_dep := st_dep s0; c_arr := st_arr s1;
     c_cb := st_cb s0; c_cu := st_cu s1; c_minw := minw |} :: mk_conns tid minw (S seq) (n1 :: ns) (s1 :: ss).
Proof. reflexivity. Qed.

Lemma mk_conns_nth : forall tid minw nodes times seq i,
  (i + 1 < length times)%nat -> (i + 1 < length nodes)%nat ->
  nth_error (mk_conns tid minw seq nodes times) i =
  Some {| c_trip := tid; c_seq := (seq + i)%nat; c_from := nth i nodes 0%nat; c_to := nth (S i) nodes 0%nat;
          c_dep := st_dep (nth i times st0); c_arr := st_arr (nth (S i) times st0);
          c_cb := st_cb (nth i times st0); c_cu := st_cu (nth (S i) times st0); c_minw := minw |}.
Proof.
  intros tid minw nodes. induction nodes as [|n0 ns IHn]; intros times seq i Ht Hn.
  - cbn [length] in Hn. lia.
  - destruct ns as [|n1 ns']; [cbn [length] in Hn; lia|].
    destruct times as [|s0 ss]; [cbn [length] in Ht; lia|].
    destruct ss as [|s1 ss']; [cbn [length] in Ht; lia|].
    rewrite mk_conns_step.
    destruct i as [|i].
    + cbn [nth_error nth]. rewrite Nat.add_0_r. reflexivity.
    + cbn [nth_error]. cbn [length] in Ht, Hn.
      rewrite (IHn (s1 :: ss') (S seq) i) by (cbn [length]; lia).
      replace (S seq + i)%nat with (seq + S i)%nat by lia.
      reflexivity.
Qed.

Lemma zip_times_nth : forall arr dep cb cu i,
  (length arr <= length dep)%nat -> (length arr <= length cb)%nat -> (length arr <= length cu)%nat -> (i < length arr)%nat ->
  nth i (zip_times arr dep cb cu) st0 =
  {| st_arr := nth i arr 0; st_dep := nth i dep 0; st_cb := (nth i cb 0 =? 1); st_cu := (nth i cu 0 =? 1) |}.
Proof.
  induction arr as [|a ar IHarr]; intros dep cb cu i Hd Hb Hu Hi.
  - cbn [length] in Hi. lia.
  - destruct dep as [|d dr]; [cbn [length] in Hd; lia|].
    destruct cb as [|b br]; [cbn [length] in Hb; lia|].
    destruct cu as [|u ur]; [cbn [length] in Hu; lia|].
    cbn [length] in Hd, Hb, Hu, Hi. cbn [zip_times].
    destruct i as [|i]; [reflexivity|].
    cbn [nth]. apply IHarr; lia.
Qed.

(* the connections of a trip the loader accepted (its stop times are zip_times of the message arrays, load_trip_accepts):
   connection number i - for exactly the i the source's loop visits - has the fields of the source's constructor call *)
Theorem loaded_conn_fields_code : forall tid minw nodes arr dep cb cu i,
  (length arr <= length dep)%nat -> (length arr <= length cb)%nat -> (length arr <= length cu)%nat ->
  (length arr <= length nodes)%nat ->
  G.gen_conn_loop_cond i (length arr) = true ->
  nth_error (mk_conns tid minw 1 nodes (zip_times arr (firstn (length arr) dep) (firstn (length arr) cb) (firstn (length arr) cu))) i =
  Some {| c_trip := tid; c_seq := G.gen_conn_seq i;
          c_from := nth (G.gen_conn_from_idx i) nodes 0%nat; c_to := nth (G.gen_conn_to_idx i) nodes 0%nat;
          c_dep := G.gen_conn_dep (nth i dep 0) (nth (S i) dep 0) (nth i arr 0) (nth (S i) arr 0);
          c_arr := G.gen_conn_arr (nth i dep 0) (nth (S i) dep 0) (nth i arr 0) (nth (S i) arr 0);
          c_cb := G.gen_conn_can_board (nth i cb 0) (nth (S i) cb 0) (nth i cu 0) (nth (S i) cu 0);
          c_cu := G.gen_conn_can_unboard (nth i cb 0) (nth (S i) cb 0) (nth i cu 0) (nth (S i) cu 0);
          c_minw := minw |}.
Proof.
  intros tid minw nodes arr dep cb cu i Hd Hb Hu Hn Hc.
  rewrite (gen_conn_loop_cond_spec i (length arr)) in Hc. apply Nat.ltb_lt in Hc.
  set (n := length arr) in *.
  assert (Hd' : (length arr <= length (firstn n dep))%nat) by (rewrite firstn_length; lia).
  assert (Hb' : (length arr <= length (firstn n cb))%nat) by (rewrite firstn_length; lia).
  assert (Hu' : (length arr <= length (firstn n cu))%nat) by (rewrite firstn_length; lia).
  rewrite mk_conns_nth.
  - rewrite !zip_times_nth by (try assumption; fold n; lia).
    cbn [st_arr st_dep st_cb st_cu].
    rewrite !nth_firstn_lt by lia.
    gspec (gen_conn_seq_spec i). gspec (gen_conn_from_idx_spec i). gspec (gen_conn_to_idx_spec i).
    gspec (gen_conn_dep_spec (nth i dep 0) (nth (S i) dep 0) (nth i arr 0) (nth (S i) arr 0)).
    gspec (gen_conn_arr_spec (nth i dep 0) (nth (S i) dep 0) (nth i arr 0) (nth (S i) arr 0)).
    gspec (gen_conn_can_board_spec (nth i cb 0) (nth (S i) cb 0) (nth i cu 0) (nth (S i) cu 0)).
    gspec (gen_conn_can_unboard_spec (nth i cb 0) (nth (S i) cb 0) (nth i cu 0) (nth (S i) cu 0)).
    reflexivity.
  - rewrite zip_times_length by assumption. fold n. lia.
  - lia.
Qed.

(* ... and there is no connection for any other i: the loop runs from the generated start while the generated condition
   holds (n >= 2 by the count test: Nat.sub and the source's unsigned `n - 1` agree) *)
Theorem loaded_conn_range_code : forall tid minw nodes arr dep cb cu i,
  (length arr <= length dep)%nat -> (length arr <= length cb)%nat -> (length arr <= length cu)%nat ->
  (length arr <= length nodes)%nat ->
  G.gen_conn_loop_start = 0%nat /\
  (G.gen_conn_loop_cond i (length arr) = false ->
   nth_error (mk_conns tid minw 1 nodes (zip_times arr (firstn (length arr) dep) (firstn (length arr) cb) (firstn (length arr) cu))) i = None).
Proof.
  intros tid minw nodes arr dep cb cu i Hd Hb Hu Hn. split; [exact gen_conn_loop_start_spec|].
  intros Hc. rewrite (gen_conn_loop_cond_spec i (length arr)) in Hc. apply Nat.ltb_ge in Hc.
  apply nth_error_None. rewrite mk_conns_length.
  - rewrite zip_times_length; [exact Hc| | |]; rewrite firstn_length; lia.
  - rewrite zip_times_length; [exact Hn| | |]; rewrite firstn_length; lia.
Qed.

(* minimum waiting time: 0 for lines of the transferable mode, -1 (= take the request's) for the others *)
Theorem trip_conns_minw_code : forall d t,
  trip_conns d t = mk_conns (t_id t) (G.gen_conn_minw (Nat.eqb (trip_mode d t) TRANSFERABLE_MODE)) 1%nat (trip_nodes d t) (t_times t).
Proof. intros d t. unfold trip_conns. gspec (gen_conn_minw_spec (Nat.eqb (trip_mode d t) TRANSFERABLE_MODE)). reflexivity. Qed.

(* ============================================================================================== *)
(* 3. getNodes: per-stop files                                                                      *)


(* std::map::count *)
Definition map_count (n : nat) (known : list nat) : nat := if memb n known then 1%nat else 0%nat.

Theorem node_keep_code : forall known n t d,
  (memb n known && (0 <=? t)) = negb (G.gen_node_unknown (map_count n known)) && negb (G.gen_node_time_bad t d).
Proof.
  intros known n t d. gspec (gen_node_unknown_spec (map_count n known)). gspec (gen_node_time_bad_spec t d). unfold map_count.
  destruct (memb n known); cbn [Nat.eqb negb andb]; lia.
Qed.

(* one entry of a stop file as the source processes it: two `continue` tests in source order, then the row *)
Definition node_entry_code (known : list nat) (n : nat) (t d : Z) (rows : list fprow) : list fprow :=
  if G.gen_node_unknown (map_count n known) then rows
  else if G.gen_node_time_bad t d then rows
  else {| fp_node := n; fp_time := G.gen_node_row_time t d; fp_dist := G.gen_node_row_dist t d |} :: rows.

Lemma node_entry_code_spec : forall known n t d rows,
  node_entry_code known n t d rows =
  (if memb n known && (0 <=? t) then {| fp_node := n; fp_time := t; fp_dist := d |} :: rows else rows).
Proof.
  intros known n t d rows. unfold node_entry_code. rewrite (node_keep_code known n t d).
  gspec (gen_node_row_time_spec t d). gspec (gen_node_row_dist_spec t d).
  destruct (G.gen_node_unknown (map_count n known)); cbn [negb andb]; [reflexivity|].
  destruct (G.gen_node_time_bad t d); reflexivity.
Qed.

Fixpoint node_rows_code (known : list nat) (l : list fp_msg) : option (list fprow) :=
  match l with
  | [] => Some []
  | m :: r =>
      match fm_node m with
      | None => None
      | Some n => match node_rows_code known r with
                  | None => None
                  | Some rows => Some (node_entry_code known n (fm_time m) (fm_dist m) rows)
                  end
      end
  end.

Theorem node_rows_tie : forall known l, node_rows known l = node_rows_code known l.
Proof.
  intros known l. induction l as [|m r IHl]; [reflexivity|].
  cbn [node_rows node_rows_code]. destruct (fm_node m) as [n|]; [|reflexivity].
  rewrite IHl. destruct (node_rows_code known r) as [rows|]; [|reflexivity].
  rewrite node_entry_code_spec. reflexivity.
Qed.

Fixpoint node_rows_p_code (known : list nat) (l : list fp_msg) : list fprow * bool :=
  match l with
  | [] => ([], true)
  | m :: r =>
      match fm_node m with
      | None => ([], false)
      | Some n => let '(rows, ok) := node_rows_p_code known r in (node_entry_code known n (fm_time m) (fm_dist m) rows, ok)
      end
  end.

Theorem node_rows_p_tie : forall known l, node_rows_p known l = node_rows_p_code known l.
Proof.
  intros known l. induction l as [|m r IHl]; [reflexivity|].
  cbn [node_rows_p node_rows_p_code]. destruct (fm_node m) as [n|]; [|reflexivity].
  rewrite IHl. destruct (node_rows_p_code known r) as [rows ok].
  rewrite node_entry_code_spec. reflexivity.
Qed.

(* the reverse rows and the self row *)
Definition rev_row_code (t : nat) (r : fprow) : fprow :=
  {| fp_node := t; fp_time := G.gen_node_rev_time (fp_time r) (fp_dist r); fp_dist := G.gen_node_rev_dist (fp_time r) (fp_dist r) |}.
Definition self_row_code (t : nat) : fprow := {| fp_node := t; fp_time := G.gen_node_self_time; fp_dist := G.gen_node_self_dist |}.

Lemma rev_row_code_spec : forall t r, rev_row_code t r = {| fp_node := t; fp_time := fp_time r; fp_dist := fp_dist r |}.
Proof.
  intros t r. unfold rev_row_code. gspec (gen_node_rev_time_spec (fp_time r) (fp_dist r)). gspec (gen_node_rev_dist_spec (fp_time r) (fp_dist r)).
  reflexivity.
Qed.
Lemma self_row_code_spec : forall t, self_row_code t = {| fp_node := t; fp_time := 0; fp_dist := 0 |}.
Proof. intros t. unfold self_row_code. gspec gen_node_self_time_spec. gspec gen_node_self_dist_spec. reflexivity. Qed.

Lemma fold_left_ext_l {A B} (f g : A -> B -> A) : (forall a b, f a b = g a b) -> forall l a, fold_left f l a = fold_left g l a.
Proof. intros H l. induction l as [|x l IH]; intros a; cbn [fold_left]; [reflexivity|]. rewrite H. apply IH. Qed.

Theorem push_rev_code : forall t rows rfp,
  push_rev t rows rfp = fold_left (fun m r => app_at m (fp_node r) [rev_row_code t r]) rows rfp.
Proof.
  intros t rows rfp. unfold push_rev. apply fold_left_ext_l. intros a b. rewrite rev_row_code_spec. reflexivity.
Qed.

(* a healthy stop file, start-up loader (Loader2) and the C16 loader (Loader): rows filtered by the generated tests, the
   reverse rows, then the generated self row *)
Theorem load_node_files_p_step_code : forall known t rest files fp rfp msg,
  files t = FDecoded msg -> snd (node_rows_p_code known msg) = true ->
  load_node_files_p known (t :: rest) files fp rfp =
  load_node_files_p known rest files (app_at fp t (fst (node_rows_p_code known msg)))
    (app_at (fold_left (fun m r => app_at m (fp_node r) [rev_row_code t r]) (fst (node_rows_p_code known msg)) rfp) t [self_row_code t]).
Proof.
  intros known t rest files fp rfp msg Hf Hok. cbn [load_node_files_p]. rewrite Hf.
  rewrite node_rows_p_tie. destruct (node_rows_p_code known msg) as [rows ok]. cbn [fst snd] in *. subst ok.
  rewrite push_rev_code, self_row_code_spec. reflexivity.
Qed.

Theorem load_node_files_step_code : forall known t rest files fp rfp msg rows,
  files t = FDecoded msg -> node_rows_code known msg = Some rows ->
  load_node_files known (t :: rest) files fp rfp =
  load_node_files known rest files (app_at fp t rows)
    (app_at (fold_left (fun m r => app_at m (fp_node r) [rev_row_code t r]) rows rfp) t [self_row_code t]).
Proof.
  intros known t rest files fp rfp msg rows Hf Hrows. cbn [load_node_files]. rewrite Hf.
  rewrite node_rows_tie, Hrows. cbv zeta.
  rewrite self_row_code_spec.
  rewrite <- (push_rev_code t rows rfp). reflexivity.
Qed.

(* D14.  The C++ reads three parallel lists; Loader.fp_msg has one list of rows.  The decoded message of a per-stop file
   as the C++ sees it, and the file state it stands for in the model: when the generated length test fires the loader
   returns before the first row - a garbled file with an empty prefix (the mapping tools/loadmodel.py applies) *)
Record stop_lists := { sl_uuids : list uref; sl_times : list Z; sl_dists : list Z }.

Fixpoint rows_of_lists (us : list uref) (ts ds : list Z) : list fp_msg :=
  match us, ts, ds with
  | u :: ur, t :: tr, d :: dr => {| fm_node := u; fm_time := t; fm_dist := d |} :: rows_of_lists ur tr dr
  | _, _, _ => []
  end.

Definition stop_file_of_lists (s : stop_lists) : fstate (list fp_msg) :=
  if G.gen_stop_lists_bad (length (sl_uuids s)) (length (sl_times s)) (length (sl_dists s))
  then FGarbled []
  else FDecoded (rows_of_lists (sl_uuids s) (sl_times s) (sl_dists s)).

(* the codes the loaders return (Loader2.rc) as the ints of the source; RC_EOTHER is -errno of a failed open() *)
Definition rc_int (r : rc) : option Z :=
  match r with RC_OK => Some 0 | RC_ENOENT => Some (- G.ENOENT) | RC_EBADMSG => Some (- G.EBADMSG)
             | RC_EINVAL => Some (- G.EINVAL) | RC_EOTHER => None end.

(* when the test does not fire every row index the loop visits is inside the three lists, and row j is made of the
   j-th elements *)
Lemma rows_of_lists_nth : forall us ts ds j,
  (length us <= length ts)%nat -> (length us <= length ds)%nat -> (j < length us)%nat ->
  length (rows_of_lists us ts ds) = length us /\
  nth_error (rows_of_lists us ts ds) j = Some {| fm_node := nth j us None; fm_time := nth j ts 0; fm_dist := nth j ds 0 |}.
Proof.
  induction us as [|u ur IHu]; intros ts ds j Ht Hd Hj.
  - cbn [length] in Hj. lia.
  - destruct ts as [|t tr]; [cbn [length] in Ht; lia|].
    destruct ds as [|d dr]; [cbn [length] in Hd; lia|].
    cbn [length] in Ht, Hd, Hj. cbn [rows_of_lists length].
    destruct j as [|j].
    + split; [|reflexivity].
      destruct ur as [|u' ur']; [reflexivity|].
      destruct (IHu tr dr 0%nat) as [Hl _]; [lia|lia|cbn [length]; lia|]. rewrite Hl. reflexivity.
    + destruct (IHu tr dr j) as [Hl Hn]; [lia|lia|lia|].
      split; [rewrite Hl; reflexivity|]. cbn [nth_error nth]. exact Hn.
Qed.

Theorem stop_file_lists_ok_code : forall s j,
  G.gen_stop_lists_bad (length (sl_uuids s)) (length (sl_times s)) (length (sl_dists s)) = false ->
  G.gen_stop_rows_start = 0%nat /\
  (G.gen_stop_rows_cond j (length (sl_uuids s)) = true ->
   exists msg, stop_file_of_lists s = FDecoded msg /\ length msg = length (sl_uuids s) /\
               nth_error msg j = Some {| fm_node := nth j (sl_uuids s) None; fm_time := nth j (sl_times s) 0; fm_dist := nth j (sl_dists s) 0 |}).
Proof.
  intros s j Hok. split; [exact gen_stop_rows_start_spec|]. intros Hj.
  unfold stop_file_of_lists. rewrite Hok.
  rewrite (gen_stop_lists_bad_spec (length (sl_uuids s)) (length (sl_times s)) (length (sl_dists s))) in Hok.
  apply orb_false_elim in Hok. destruct Hok as [Ht Hd].
  apply Nat.ltb_ge in Ht, Hd. rewrite (gen_stop_rows_cond_spec j (length (sl_uuids s))) in Hj. apply Nat.ltb_lt in Hj.
  destruct (rows_of_lists_nth (sl_uuids s) (sl_times s) (sl_dists s) j Ht Hd Hj) as [Hl Hn].
  exists (rows_of_lists (sl_uuids s) (sl_times s) (sl_dists s)). split; [reflexivity|]. split; [exact Hl|exact Hn].
Qed.

(* when it fires: loading stops with the generated return code, nothing of the file was pushed *)
Theorem stop_file_lists_bad_code : forall s known t rest files fp rfp,
  G.gen_stop_lists_bad (length (sl_uuids s)) (length (sl_times s)) (length (sl_dists s)) = true ->
  files t = stop_file_of_lists s ->
  load_node_files_p known (t :: rest) files fp rfp = ((fp, rfp), RC_EBADMSG) /\
  rc_int RC_EBADMSG = Some G.gen_stop_lists_bad_ret /\
  load_node_files known (t :: rest) files fp rfp = NLBadMsg.
Proof.
  intros s known t rest files fp rfp Hbad Hf. unfold stop_file_of_lists in Hf. rewrite Hbad in Hf.
  split; [|split].
  - cbn [load_node_files_p]. rewrite Hf. reflexivity.
  - cbn [rc_int]. gspec gen_stop_lists_bad_ret_spec. reflexivity.
  - cbn [load_node_files]. rewrite Hf. reflexivity.
Qed.

(* ============================================================================================== *)
(* 4. getDataStatus                                                                                 *)

Theorem status_codes_code :
  G.gen_ST_READY = ST_READY /\ G.gen_ST_NO_AGENCIES = ST_NO_AGENCIES /\ G.gen_ST_NO_LINES = ST_NO_LINES /\
  G.gen_ST_NO_PATHS = ST_NO_PATHS /\ G.gen_ST_NO_SERVICES = ST_NO_SERVICES /\ G.gen_ST_NO_SCENARIOS = ST_NO_SCENARIOS /\
  G.gen_ST_NO_SCHEDULES = ST_NO_SCHEDULES /\ G.gen_ST_NO_NODES = ST_NO_NODES.
Proof. repeat split; reflexivity. Qed.

(* the tests in source order, the first that holds decides *)
Theorem data_status_code : forall z,
  data_status z = G.gen_data_status (z_agencies z) (z_services z) (z_nodes z) (z_lines z) (z_paths z) (z_scenarios z) (z_trips z).
Proof.
  intros [a s n l p c t].
  cbv [data_status G.gen_data_status G.gen_data_status_rules G.gen_data_status_default G.first_rule
       z_agencies z_services z_nodes z_lines z_paths z_scenarios z_trips].
  destruct a as [|a]; destruct s as [|s]; destruct n as [|n]; destruct l as [|l]; destruct p as [|p];
    destruct c as [|c]; destruct t as [|t]; reflexivity.
Qed.

Print Assumptions load_trip_tie.
Print Assumptions trip_times_in_order_code_iff.
Print Assumptions loaded_conn_fields_code.
Print Assumptions node_rows_tie.
Print Assumptions stop_file_lists_bad_code.
Print Assumptions data_status_code.
