(* OsrmTie.v — the reply handling of the walking-router client AS THE SOURCE WRITES IT NOW (gen/OsrmReply.v: the statement
   tree read by tools/gen_osrm.py from src/osrmgeofilter.cpp, everything after the pre-filter loop) interpreted by
   coq/OsrmCode.v is the model of property C20 (Osrm.osrm_rows), and what can be read off the tree:

   reply_tie                    osrm_rows x asked maxt = run_reply gen_osrm_reply x asked maxt for EVERY exchange, candidate
                                list, maximum, direction and every value `other` a foreign `return` might return;
   short_circuit_reply_regression   the reply {"durations":[null],"distances":5}: the empty list on both sides (the first
                                version of this tie needed a hypothesis excluding that shape: Osrm.osrm_rows read
                                durations[0] and distances[0] together and answered Exn 3 there, the source's `&&` never
                                evaluates distances[0]; Osrm.v was repaired);
   row_loop_tie                 the loop over the reply = Osrm.osrm_loop (first index 1, `i < numberOfDurations`, the
                                distance read only under the guard, stop i - 1, rows appended in order);
   failures_return_empty        a non-200 status and a thrown request both return the EMPTY list (for every `other`);
   parse_error_propagates       a body that is not JSON: the exception leaves the function (Exn 3);
   frame_in_try / frame_parse_outside / frame_null_tests / frame_distance_guarded / frame_sizes_first / frame_query
                                the structural facts of C20_reply_frame_is_code, computed on the regenerated tree. *)
From Coq Require Import List ZArith Bool Arith Lia.
From TrV Require Import Osrm.
Require Import TrV.OsrmCode.
Require TrV.gen.OsrmReply.
Import ListNotations.
Local Open Scope Z_scope.

Module GO := TrV.gen.OsrmReply.

(* ---------------------------------------------------------------------------------------------- *)
(* the reply shape that separated an earlier Osrm.v from the source                                 *)

(* {"durations":[null],"distances":5}: durations and distances are both present and not null, entry 0 of durations is
   null, distances is not an array.  The source's `&&` stops at `responseJson["durations"][0] != nullptr` (false) and
   never evaluates `responseJson["distances"][0]`, which would throw: the answer is the empty list. *)
Definition short_circuit_reply : exchange :=
  XStatus true (Some (JObj [(K_DURATIONS, JArr [JNull]); (K_DISTANCES, JNum 50)])).

(* ---------------------------------------------------------------------------------------------- *)
(* small facts                                                                                      *)

Lemma jat_nat (j : json) (i : nat) :
  jat j (Z.of_nat i) = match jidx j i with Some v => EV v | None => EThrow end.
Proof.
  unfold jat. replace (Z.of_nat i <? 0) with false by (symmetry; apply Z.ltb_ge; lia).
  rewrite Nat2Z.id. reflexivity.
Qed.

(* operator[](key) throws by the TYPE of the value it is applied to, not by the key *)
Lemma jget_some_any (j : json) (k k' : nat) (v : json) : jget j k = Some v -> exists w, jget j k' = Some w.
Proof. destruct j; cbn [jget]; try discriminate; intros _; [eexists; reflexivity|]. destruct (assoc k' fields); eexists; reflexivity. Qed.

Lemma jget_none_any (j : json) (k k' : nat) : jget j k = None -> jget j k' = None.
Proof. destruct j; cbn [jget]; try reflexivity; try discriminate. destruct (assoc k fields); discriminate. Qed.

Lemma bind_nil_id (o : outcome (list fprow)) : bind o (fun rest => Ok ([] ++ rest)) = o.
Proof. destruct o; reflexivity. Qed.

Lemma jat_0 (j : json) : jat j 0 = match jidx j 0 with Some v => EV v | None => EThrow end.
Proof. exact (jat_nat j 0). Qed.

Lemma ltb0_of_nat (k : nat) : (0 <? Z.of_nat k) = Nat.ltb 0 k.
Proof. destruct k; reflexivity. Qed.

Lemma bind_bind {A B C} (o : outcome A) (f : A -> outcome B) (g : B -> outcome C) :
  bind (bind o f) g = bind o (fun a => bind (f a) g).
Proof. destruct o; reflexivity. Qed.

(* what the statements after the loop make of its result: nothing but the final `return <rows>` follows *)
Definition after_loop (r : ores) : outcome (list fprow) :=
  match r with
  | RNorm st => Ok (os_rows st)
  | RRet rows => Ok rows
  | RThrow _ => Exn 3
  | RBad o => o
  end.

Ltac run_eval :=
  cbn [run seq fold_right eval_exp eval_cond ebind root status_ok cmp_z catches finish
       os_rows os_vars os_row os_got os_stream os_json set_rows set_vars set_row set_got set_stream set_json next_row
       os_init unset assoc Nat.eqb negb].

Ltac st_eval :=
  unfold next_row, set_rows, set_vars, set_row; cbn [os_rows os_vars os_row os_got os_stream os_json].
Ltac read_eval := cbn [jread jstep_read ebind].

(* ---------------------------------------------------------------------------------------------- *)
(* the loop over the reply                                                                          *)

Section Loop.
  Variable other : list fprow.
  Variable reversed : bool.
  Variable x : exchange.
  Variable asked : list nat.
  Variable maxt : Z.
  Variables (j du di d0 x0 : json) (n : nat).
  Hypothesis Hdu : jget j K_DURATIONS = Some du.
  Hypothesis Hdi : jget j K_DISTANCES = Some di.
  Hypothesis Hd0 : jidx du 0 = Some d0.
  Hypothesis Hx0 : jidx di 0 = Some x0.

  Definition loop_state (rows : list fprow) (vars : list (nat * Z)) (i : nat) (g s : bool) : ostate :=
    {| os_rows := rows; os_vars := vars; os_row := Some (Z.of_nat i); os_got := g; os_stream := s; os_json := Some j |}.

  Lemma read_dur_row (i : nat) :
    jread (Some (Z.of_nat i)) j [JKey K_DURATIONS; JAt 0; JRow] = match jidx d0 i with Some v => EV v | None => EThrow end.
  Proof.
    cbn [jread jstep_read ebind]. rewrite Hdu. cbn [ebind].
    change 0 with (Z.of_nat 0). rewrite jat_nat, Hd0. cbn [ebind]. rewrite jat_nat.
    destruct (jidx d0 i); reflexivity.
  Qed.

  Lemma read_dist_row (i : nat) :
    jread (Some (Z.of_nat i)) j [JKey K_DISTANCES; JAt 0; JRow] = match jidx x0 i with Some v => EV v | None => EThrow end.
  Proof.
    cbn [jread jstep_read ebind]. rewrite Hdi. cbn [ebind].
    change 0 with (Z.of_nat 0). rewrite jat_nat, Hx0. cbn [ebind]. rewrite jat_nat.
    destruct (jidx x0 i); reflexivity.
  Qed.

  (* first index i >= 1, bound = the int local 0 (numberOfDurations) holding n; the rows already pushed stay in front *)
  Lemma row_loop_tie : forall fuel fuel2 i rows vars g s,
    (1 <= i)%nat -> (n - i < fuel)%nat -> (n - i < fuel2)%nat ->
    assoc 0%nat vars = Some (Z.of_nat n) ->
    after_loop (loop reversed x asked maxt (run other reversed x asked maxt GO.gen_osrm_row_body) OLt (OVar 0) fuel
                     (loop_state rows vars i g s))
    = bind (osrm_loop d0 x0 asked i n maxt fuel2) (fun rest => Ok (rows ++ rest)).
  Proof.
    induction fuel as [|f IH]; intros fuel2 i rows vars g s Hi Hf Hf2 Hn; [lia|].
    destruct fuel2 as [|f2]; [lia|].
    set (B := run other reversed x asked maxt GO.gen_osrm_row_body) in *.
    cbn [loop osrm_loop]. unfold loop_state.
    run_eval. rewrite Hn. cbn [ebind cmp_z].
    destruct (Nat.leb n i) eqn:Hle.
    - apply Nat.leb_le in Hle. replace (Z.of_nat i <? Z.of_nat n) with false by (symmetry; apply Z.ltb_ge; lia).
      cbn [after_loop os_rows set_row bind]. rewrite app_nil_r. reflexivity.
    - apply Nat.leb_gt in Hle. replace (Z.of_nat i <? Z.of_nat n) with true by (symmetry; apply Z.ltb_lt; lia).
      unfold B at 1. unfold GO.gen_osrm_row_body. run_eval.
      rewrite read_dur_row.
      destruct (jidx d0 i) as [dv|]; cbn [ebind]; [|reflexivity].
      destruct (jfloat_ceil dv) as [t|]; [|reflexivity].
      run_eval.
      destruct (t <=? maxt) eqn:Hmax.
      + rewrite read_dist_row.
        destruct (jidx x0 i) as [xv|]; cbn [ebind]; [|reflexivity].
        destruct (jfloat_ceil xv) as [m|]; [|reflexivity].
        run_eval.
        replace (Z.of_nat i - 1 <? 0) with false by (symmetry; apply Z.ltb_ge; lia).
        replace (Z.to_nat (Z.of_nat i - 1)) with (i - 1)%nat by lia.
        destruct (nth_error asked (i - 1)) as [node|]; [|reflexivity].
        run_eval. st_eval.
        replace (Z.of_nat i + 1) with (Z.of_nat (S i)) by lia.
        match goal with |- after_loop (loop _ _ _ _ _ _ _ _ ?st) = _ =>
          change st with (loop_state (rows ++ [{| fp_node := node; fp_time := t; fp_dist := m |}]) ((3%nat, m) :: (2%nat, t) :: vars) (S i) g s) end.
        rewrite (IH f2); [|lia|lia|lia|exact Hn].
        rewrite bind_bind. destruct (osrm_loop d0 x0 asked (S i) n maxt f2); cbn [bind]; try reflexivity.
        rewrite <- app_assoc. reflexivity.
      + run_eval. st_eval.
        replace (Z.of_nat i + 1) with (Z.of_nat (S i)) by lia.
        match goal with |- after_loop (loop _ _ _ _ _ _ _ _ ?st) = _ =>
          change st with (loop_state rows ((2%nat, t) :: vars) (S i) g s) end.
        apply IH; [lia|lia|lia|exact Hn].
  Qed.
End Loop.

(* ---------------------------------------------------------------------------------------------- *)
(* the whole reply handling                                                                         *)

Ltac reply_tie_script other reversed x asked maxt :=
  unfold run_reply, GO.gen_osrm_reply;
  destruct asked as [|a0 asked']; [run_eval; reflexivity|];
  set (asked := a0 :: asked') in *;
  run_eval;
  replace (Z.of_nat (length asked) =? 0) with false by reflexivity;
  run_eval;
  destruct x as [|ok body]; [run_eval; reflexivity|];
  run_eval; destruct ok; run_eval; [|reflexivity];
  destruct body as [j|]; [|reflexivity];
  run_eval;
  unfold osrm_rows; fold asked;
  change (match asked with [] => Ok [] | _ :: _ => ?e end) with e;
  read_eval;
  destruct (jget j K_DURATIONS) as [du|] eqn:Hdu; cbn [ebind];
    [|try rewrite (jget_none_any j K_DURATIONS K_DISTANCES Hdu); reflexivity];
  destruct (jget_some_any j K_DURATIONS K_DISTANCES du Hdu) as [di Hdi]; rewrite Hdi in *; cbn [ebind];
  destruct (is_null du) eqn:Ndu; cbn [negb orb andb]; [reflexivity|];
  destruct (is_null di) eqn:Ndi; cbn [negb orb andb]; [reflexivity|];
  rewrite ?jat_0;
  destruct (jidx du 0) as [d0|] eqn:Hd0; cbn [ebind]; [|reflexivity];
  destruct (is_null d0) eqn:Nd0; cbn [negb orb andb]; [reflexivity|];
  destruct (jidx di 0) as [x0|] eqn:Hx0; cbn [ebind]; [|reflexivity];
  destruct (is_null x0) eqn:Nx0; cbn [negb orb andb]; [reflexivity|];
  do 3 (run_eval; read_eval; rewrite ?Hdu, ?Hdi; cbn [ebind]; rewrite ?jat_0, ?Hd0, ?Hx0; cbn [ebind]);
  st_eval; run_eval; rewrite !ltb0_of_nat;
  destruct (Nat.ltb 0 (jsize d0)) eqn:Hn; cbn [andb]; [|reflexivity];
  destruct (Nat.ltb 0 (jsize x0)) eqn:Hm; [|reflexivity];
  run_eval; st_eval;
  apply Nat.ltb_lt in Hn;
  match goal with |- ?L = _ => rewrite <- (bind_nil_id L) end;
  rewrite <- (row_loop_tie other reversed (XStatus true (Some j)) asked maxt j du di d0 x0 (jsize d0) Hdu Hdi Hd0 Hx0
                (Z.to_nat (Z.of_nat (jsize d0) - 1) + 2) (jsize d0) 1 []
                [(1%nat, Z.of_nat (jsize x0)); (0%nat, Z.of_nat (jsize d0))] true true);
    [|lia|lia|lia|reflexivity];
  unfold loop_state; change (Z.of_nat 1) with 1;
  match goal with |- _ = finish ?T =>
    match T with context [loop ?a ?b ?c ?d ?e ?f ?g ?h ?st] => destruct (loop a b c d e f g h st); reflexivity end end.

Theorem reply_tie : forall other reversed x asked maxt,
  osrm_rows x asked maxt = run_reply other reversed x asked maxt GO.gen_osrm_reply.
Proof.
  intros other reversed x asked maxt.
  destruct reversed.
  - reply_tie_script other true x asked maxt.
  - reply_tie_script other false x asked maxt.
Qed.

(* ---------------------------------------------------------------------------------------------- *)
(* examples                                                                                         *)

(* a healthy reply: three entries, the second stop is too far *)
Definition healthy_reply : exchange :=
  XStatus true (Some (JObj [(K_DURATIONS, JArr [JArr [JNum 0; JNum 123; JNum 9000]]);
                            (K_DISTANCES, JArr [JArr [JNum 0; JNum 1000; JNum 50000]])])).

Example healthy_reply_rows :
  osrm_rows healthy_reply [7%nat; 8%nat] 600 = Ok [{| fp_node := 7%nat; fp_time := 13; fp_dist := 100 |}] /\
  run_reply [] false healthy_reply [7%nat; 8%nat] 600 GO.gen_osrm_reply = Ok [{| fp_node := 7%nat; fp_time := 13; fp_dist := 100 |}].
Proof. split; vm_compute; reflexivity. Qed.

(* regression: on {"durations":[null],"distances":5} the model and the source (through the regenerated tree) both answer
   the empty list.  (Before the repair of Osrm.osrm_rows the model answered `Exn 3` here - a query error instead of a
   no-access answer - and reply_tie carried the hypothesis that the reply is not of this shape.) *)
Example short_circuit_reply_regression :
  osrm_rows short_circuit_reply [7%nat] 600 = Ok [] /\
  run_reply [] false short_circuit_reply [7%nat] 600 GO.gen_osrm_reply = Ok [] /\
  run_reply [] true short_circuit_reply [7%nat] 600 GO.gen_osrm_reply = Ok [].
Proof. repeat split. Qed.

(* the same with a missing entry 0 and an object for distances:  {"durations":[],"distances":{"a":1}} *)
Example short_circuit_reply_regression_2 :
  osrm_rows (XStatus true (Some (JObj [(K_DURATIONS, JArr []); (K_DISTANCES, JObj [(7%nat, JNum 10)])]))) [7%nat] 600 = Ok [].
Proof. reflexivity. Qed.

(* ... while distances[0] still throws when durations[0] is there:  {"durations":[[0,1]],"distances":5} *)
Example scalar_distances_still_throw :
  osrm_rows (XStatus true (Some (JObj [(K_DURATIONS, JArr [JArr [JNum 0; JNum 10]]); (K_DISTANCES, JNum 50)]))) [7%nat] 600 = Exn 3.
Proof. reflexivity. Qed.

(* ---------------------------------------------------------------------------------------------- *)
(* the frame                                                                                        *)

(* a non-200 status and a request that throws both return the EMPTY list - whatever a foreign `return` would return *)
Theorem failures_return_empty : forall other reversed asked maxt,
  (forall b, run_reply other reversed (XStatus false b) asked maxt GO.gen_osrm_reply = Ok []) /\
  run_reply other reversed XThrow asked maxt GO.gen_osrm_reply = Ok [].
Proof.
  intros other reversed asked maxt. unfold run_reply, GO.gen_osrm_reply.
  destruct asked as [|a0 asked']; [split; [intro b|]; run_eval; reflexivity|].
  split; [intro b|]; run_eval;
    (replace (Z.of_nat (length (a0 :: asked')) =? 0) with false by reflexivity);
    destruct reversed; run_eval; reflexivity.
Qed.

(* a body that is not JSON: the parse error is NOT caught in the function *)
Theorem parse_error_propagates : forall other reversed asked maxt, asked <> [] ->
  run_reply other reversed (XStatus true None) asked maxt GO.gen_osrm_reply = Exn 3.
Proof.
  intros other reversed asked maxt Hne. unfold run_reply, GO.gen_osrm_reply.
  destruct asked as [|a0 asked']; [congruence|].
  run_eval. (replace (Z.of_nat (length (a0 :: asked')) =? 0) with false by reflexivity).
  destruct reversed; run_eval; reflexivity.
Qed.

(* the request and the status test are inside the try - and nowhere else *)
Theorem frame_in_try :
  in_try is_request GO.gen_osrm_reply = true /\ out_of_try is_request GO.gen_osrm_reply = false /\
  in_try is_status_test GO.gen_osrm_reply = true /\ out_of_try is_status_test GO.gen_osrm_reply = false.
Proof. repeat split. Qed.

(* the parse is outside the try *)
Theorem frame_parse_outside :
  in_try is_parse GO.gen_osrm_reply = false /\ out_of_try is_parse GO.gen_osrm_reply = true.
Proof. repeat split. Qed.

(* every size / indexed / converted read of the reply stands under an `if` whose condition is exactly
   durations != null && distances != null && durations[0] != null && distances[0] != null, in this order;
   no other null test exists *)
Theorem frame_null_tests :
  reads_guarded false GO.gen_osrm_reply = true /\ null_tests_only_in_four GO.gen_osrm_reply = true /\
  has_loop GO.gen_osrm_reply = true.
Proof. repeat split. Qed.

(* the distance is converted only under `if (<time> <= maxWalkingTravelTime)` *)
Theorem frame_distance_guarded :
  distance_guarded false GO.gen_osrm_reply = true /\ distance_guarded false GO.gen_osrm_row_body = true /\
  no_distance_read (exp_ceils (OCeil [JKey K_DISTANCES; JAt 0; JRow])) = false.
Proof. repeat split. Qed.

(* sizes are read before the loop and not in it: the null-insertion of the non-const operator[] is never observed *)
Theorem frame_sizes_first : sizes_first GO.gen_osrm_reply = true /\ sizes_first GO.gen_osrm_row_body = true.
Proof. repeat split. Qed.

(* the query string: annotations, then destinations=0 when reversed and sources=0 otherwise; it is what the GET sends *)
Theorem frame_query :
  query_parts true GO.gen_osrm_reply = [QAnnotations; QDestinations0] /\
  query_parts false GO.gen_osrm_reply = [QAnnotations; QSources0] /\
  in_try request_is_get_of_query GO.gen_osrm_reply = true.
Proof. repeat split. Qed.

(* all of it *)
Theorem reply_frame :
  (in_try is_request GO.gen_osrm_reply = true /\ out_of_try is_request GO.gen_osrm_reply = false /\
   in_try is_status_test GO.gen_osrm_reply = true /\ out_of_try is_status_test GO.gen_osrm_reply = false) /\
  (forall other reversed asked maxt,
     (forall b, run_reply other reversed (XStatus false b) asked maxt GO.gen_osrm_reply = Ok []) /\
     run_reply other reversed XThrow asked maxt GO.gen_osrm_reply = Ok []) /\
  (in_try is_parse GO.gen_osrm_reply = false /\ out_of_try is_parse GO.gen_osrm_reply = true) /\
  (forall other reversed asked maxt, asked <> [] ->
     run_reply other reversed (XStatus true None) asked maxt GO.gen_osrm_reply = Exn 3) /\
  (reads_guarded false GO.gen_osrm_reply = true /\ null_tests_only_in_four GO.gen_osrm_reply = true /\
   has_loop GO.gen_osrm_reply = true) /\
  (distance_guarded false GO.gen_osrm_reply = true /\ distance_guarded false GO.gen_osrm_row_body = true) /\
  (sizes_first GO.gen_osrm_reply = true /\ sizes_first GO.gen_osrm_row_body = true) /\
  (query_parts true GO.gen_osrm_reply = [QAnnotations; QDestinations0] /\
   query_parts false GO.gen_osrm_reply = [QAnnotations; QSources0] /\
   in_try request_is_get_of_query GO.gen_osrm_reply = true).
Proof.
  split; [exact frame_in_try|]. split; [exact failures_return_empty|]. split; [exact frame_parse_outside|].
  split; [exact parse_error_propagates|]. split; [exact frame_null_tests|].
  split; [split; apply frame_distance_guarded|]. split; [exact frame_sizes_first|]. exact frame_query.
Qed.
