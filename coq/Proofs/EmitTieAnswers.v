(* EmitTieAnswers.v — the hypothesis of Proofs/EmitTie.v (`seq_ok`: stop sequences of a ridden leg are 1-based) holds
   for every journey the model emits, so every route `calc_single` / `alternatives` return is the route the
   step-emission loop of reverse_journey.cpp AS IT IS WRITTEN NOW (gen/Emit.v) computes:

   1. `mk_conns` numbers sequences from 1: every connection of a trip, of `all_conns d`, of a connection set has
      `1 <= c_seq c`; so has every connection `conn_in_data` accepts.
   2. a journey that satisfies `journey_ok_b` (what the reverse scan + rebuild loop produce, RevInv.calc_single_ok, and
      what optimizeJourney preserves, Rewrites.optimize_preserves) satisfies `Forall seq_ok`.
   3. `calc_single_emit_is_code`, `alternatives_emit_is_code`. *)
From Coq Require Import List ZArith Bool Arith Lia.
From TrV Require Import Spec Calc.
Require Import TrV.Emit.
From TrV Require Import Proofs.EmitValid Proofs.Rewrites Proofs.RevInv Proofs.RouteValid Proofs.AltProofs Proofs.Compose
                        Proofs.EmitTie.
Import ListNotations.
Local Open Scope Z_scope.

(* 1. sequences are 1-based *)
Lemma trip_conns_seq_ge1 d tr c : In c (trip_conns d tr) -> (1 <= c_seq c)%nat.
Proof. intros H. unfold trip_conns in H. exact (proj1 (mk_conns_seq_from _ _ _ _ _ _ H)). Qed.

Lemma all_conns_seq_ge1 d c : In c (all_conns d) -> (1 <= c_seq c)%nat.
Proof. intros H. destruct (all_conns_in d c H) as (tr & _ & Hc). exact (trip_conns_seq_ge1 d tr c Hc). Qed.

Lemma conn_set_fwd_seq_ge1 d s c : In c (cs_fwd (conn_set d s)) -> (1 <= c_seq c)%nat.
Proof. intros H. apply (all_conns_seq_ge1 d). apply (cs_fwd_in d s). exact H. Qed.

Lemma conn_set_rev_seq_ge1 d s c : In c (cs_rev (conn_set d s)) -> (1 <= c_seq c)%nat.
Proof. intros H. apply (all_conns_seq_ge1 d). exact (proj1 (cs_rev_in d s c H)). Qed.

Lemma conn_in_data_seq_ge1 d c : conn_in_data d c = true -> (1 <= c_seq c)%nat.
Proof.
  intros H. apply conn_in_data_inv in H. unfold find_conn in H.
  destruct (find_trip d (c_trip c)) as [tr|]; [|discriminate].
  apply find_some in H. exact (trip_conns_seq_ge1 d tr c (proj1 H)).
Qed.

(* 2. journeys *)
Lemma walk_seq_ok j : is_walk j = true -> seq_ok j.
Proof.
  intros H. unfold is_walk in H. unfold seq_ok.
  destruct (js_enter j); [discriminate|]. exact I.
Qed.

Lemma jleg_seq_ok d s p j : jleg_ok d s p j = true -> seq_ok j.
Proof.
  intros H. destruct (jleg_ok_inv d s p j H) as (b & e & t & tr & Hb & He & _ & _ & _ & Cb & Ce & _).
  unfold seq_ok. rewrite Hb, He. split; apply (conn_in_data_seq_ge1 d); assumption.
Qed.

Lemma journey_ok_seq_ok d s p acc egr bd js : journey_ok_b d s p acc egr bd js = true -> Forall seq_ok js.
Proof.
  intros H. unfold journey_ok_b in H.
  destruct js as [|a rest]; [discriminate|].
  apply andb_true_iff in H. destruct H as [Ha H].
  destruct (rev rest) as [|e legs_rev] eqn:Er; [discriminate|].
  cbv zeta in H.
  apply andb_true_iff in H. destruct H as [H _].
  apply andb_true_iff in H. destruct H as [He Hl].
  assert (Erest : rest = rev legs_rev ++ [e]).
  { rewrite <- (rev_involutive rest), Er. reflexivity. }
  subst rest. constructor; [exact (walk_seq_ok a Ha)|].
  apply Forall_app. split.
  - apply Forall_forall. intros j Hj. rewrite forallb_forall in Hl. exact (jleg_seq_ok d s p j (Hl j Hj)).
  - constructor; [exact (walk_seq_ok e He)|constructor].
Qed.

(* 3. every returned route is the one the source's loop computes *)
Theorem calc_single_emit_is_code : forall d s p acc egr fresh r used,
  wf_data_b d = true -> wf_tables_b d p acc egr = true -> wf_params_b p = true ->
  calc_single d (conn_set d s) p acc egr fresh = Ok (r, used) ->
  exists bestdep js, r = emit d p bestdep js /\ forall tmp, r = emit_code d p bestdep js tmp.
Proof.
  intros d s p acc egr fresh r used Hwf Htab Hp Hcalc.
  destruct (calc_single_ok d s p acc egr fresh (r, used) Hwf Htab Hp Hcalc)
    as (arr & bestdep & ar & legs & er & el & js1 & used' & Hj & Hopt & Hres & _).
  inversion Hres; subst r used'.
  pose proof (optimize_preserves (OPT_FUEL d) d s p acc egr bestdep _ js1 used Hwf
                (RouteValid.wf_params_minw p Hp) Hj Hopt) as Hj1.
  exists bestdep, js1. split; [reflexivity|].
  intros tmp. apply emit_skel_tie. exact (journey_ok_seq_ok d s p acc egr bestdep js1 Hj1).
Qed.

(* the alternatives are calculated with the request's parameters and, from the second on, with a tightened maximum
   travel time and more excluded lines: `p'` *)
Theorem alternatives_emit_is_code : forall d s p acc egr rs total,
  wf_data_b d = true -> wf_tables_b d p acc egr = true -> wf_params_b p = true ->
  alternatives d (conn_set d s) p acc egr = Ok (rs, total) ->
  forall r, In r rs ->
  exists p' bestdep js, r = emit d p' bestdep js /\ forall tmp, r = emit_code d p' bestdep js tmp.
Proof.
  intros d s p acc egr rs total Hwf Htab Hp H r Hin.
  apply alt_ok_inv in H. destruct H as (r1 & used1 & st & Hc & HI & Hrs & _).
  destruct (inv_routes _ _ _ _ _ _ _ _ _ HI) as (tl1 & Hr & Htl).
  subst rs. rewrite Hr in Hin. destruct Hin as [Heq|Hin].
  - subst r. destruct (calc_single_emit_is_code d s p acc egr true r1 used1 Hwf Htab Hp Hc) as (bd & js & E1 & E2).
    exists p, bd, js. split; assumption.
  - pose proof (Htl r Hin) as Hrc. unfold recalc in Hrc. destruct Hrc as (comb & used & Hcalc & _).
    destruct (recalc_wf d s p acc egr r1 used1 comb Hwf Htab Hp Hc) as [Htab' Hp'].
    destruct (calc_single_emit_is_code d s _ acc egr false r used Hwf Htab' Hp' Hcalc) as (bd & js & E1 & E2).
    eexists _, bd, js. split; eassumption.
Qed.
