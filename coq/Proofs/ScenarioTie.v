(* ScenarioTie.v — the model's scenario filter, connection-set construction and cache use ARE what the interpreters of
   coq/ScenCode.v compute from the data tools/gen_scenario.py reads from TransitData::getConnectionsForScenario and
   Calculator::resetFilters AS THEY ARE NOW (gen/Scenario.v, regenerated on every run).

     scen_filter_is_code         Data.trip_enabled d s t = run_filter gen_scen_filter d s t
                                 (the chain is read as a conjunction of per-test verdicts, so the ORDER of the tests does not
                                 matter to this proof; a changed polarity, searched attribute, searched list, a dropped
                                 size() > 0 guard, a written `true` does)
     reset_filter_same_chain     resetFilters' chain carries, besides its exceptServices test, exactly the tests of
                                 getConnectionsForScenario's chain (as sets: the order does not enter a verdict)
     reset_filter_on_scenario    ... and on a scenario's lists the two chains decide the same
     disabled_of_is_code         Scan.disabled_of = membership in the set's trips && not (resetFilters' chain on the request's lists)
     reset_loop_is_code          the map the loop of resetFilters leaves = that
     conn_set_is_code            Data.conn_set d s = run_build gen_scen_code d s   (trip ids distinct: getTrips() is a std::map)
     protocol_is_code            run_protocol gen_scen_code d s c = look up s_id s, hit -> cached, miss -> build, store under s_id s
     serve_is_protocol           Server.serve does exactly that with the request's scenario
     tstep_is_protocol           ... and so does the thread protocol of C14 in two steps (look-up+build, publish) *)
From Coq Require Import List ZArith Bool Arith Lia.
From TrV Require Import Spec Render.
Require Import TrV.ScenCode.
Require TrV.gen.Scenario.
Import ListNotations.

Module GS := TrV.gen.Scenario.

Definition gen_scen_code : scen_code :=
  {| sc_filter := GS.gen_scen_filter; sc_tail := GS.gen_scen_tail; sc_loops := GS.gen_scen_loops;
     sc_ctor := GS.gen_scen_ctor; sc_protocol := GS.gen_scen_protocol |}.

(* ---------------------------------------------------------------------------------------------- *)
(* the chain as a conjunction                                                                      *)

(* the verdict of one test taken alone: it does not fire *)
Definition test_pass (d : data) (ls : slist -> list nat) (t : trip) (ft : ftest) : bool :=
  negb (match ft_guard ft with Some l => nonempty (ls l) | None => true end
        && is_some (body_fires d ls t (ft_body ft))).

(* every search writes `false` *)
Definition writes_false (ft : ftest) : bool :=
  match ft_body ft with FNothing => true | FFind _ _ _ v => negb v end.

Lemma run_test_pass : forall d ls t e ft,
  writes_false ft = true -> run_test d ls t e ft = e && test_pass d ls t ft.
Proof.
  intros d ls t e [conj g b] Hw. unfold run_test, test_pass, guard_holds, writes_false in *. cbn [ft_conj ft_guard ft_body] in *.
  destruct b as [|l a p v].
  - cbn [body_fires is_some]. rewrite andb_false_r. cbn [negb]. rewrite andb_true_r.
    destruct ((if conj then e else true) && match g with Some l => nonempty (ls l) | None => true end); reflexivity.
  - destruct v; [discriminate|].
    destruct (body_fires d ls t (FFind l a p false)) as [v|] eqn:Hb.
    + assert (v = false) as ->.
      { unfold body_fires in Hb. destruct (match p with MustBeIn => _ | MustNotBeIn => _ end); congruence. }
      cbn [is_some]. rewrite andb_true_r.
      destruct conj, e, (match g with Some l0 => nonempty (ls l0) | None => true end); reflexivity.
    + cbn [is_some]. rewrite andb_false_r. cbn [negb]. rewrite andb_true_r.
      destruct ((if conj then e else true) && match g with Some l0 => nonempty (ls l0) | None => true end); reflexivity.
Qed.

Lemma fold_tests : forall d ls t fts e,
  forallb writes_false fts = true ->
  fold_left (run_test d ls t) fts e = e && forallb (test_pass d ls t) fts.
Proof.
  induction fts as [|ft r IH]; intros e Hw; cbn [fold_left forallb] in *.
  - now rewrite andb_true_r.
  - apply andb_true_iff in Hw as [Hw1 Hw2]. rewrite IH by assumption. rewrite run_test_pass by assumption.
    now rewrite andb_assoc.
Qed.

Lemma run_filter_on_forallb : forall fts d ls t,
  forallb writes_false fts = true -> run_filter_on fts d ls t = forallb (test_pass d ls t) fts.
Proof. intros. unfold run_filter_on. now rewrite fold_tests. Qed.

(* the three shapes of a test *)
Lemma test_pass_only : forall d ls t c l a,
  test_pass d ls t {| ft_conj := c; ft_guard := Some l; ft_body := FFind l a MustBeIn false |} = only_ok (ls l) (attr_of d t a).
Proof.
  intros. unfold test_pass, only_ok. cbn [ft_guard ft_body body_fires].
  destruct (ls l) as [|x r]; [reflexivity|]. cbn [nonempty andb].
  destruct (memb (attr_of d t a) (x :: r)); reflexivity.
Qed.
Lemma test_pass_except : forall d ls t c l a,
  test_pass d ls t {| ft_conj := c; ft_guard := Some l; ft_body := FFind l a MustNotBeIn false |} = except_ok (ls l) (attr_of d t a).
Proof.
  intros. unfold test_pass, except_ok. cbn [ft_guard ft_body body_fires].
  destruct (ls l) as [|x r]; [reflexivity|]. cbn [nonempty andb].
  destruct (memb (attr_of d t a) (x :: r)); reflexivity.
Qed.
Lemma test_pass_nothing : forall d ls t c g,
  test_pass d ls t {| ft_conj := c; ft_guard := g; ft_body := FNothing |} = true.
Proof. intros. unfold test_pass. cbn [ft_guard ft_body body_fires is_some]. now rewrite andb_false_r. Qed.

Ltac chain_to_conj :=
  rewrite ?run_filter_on_forallb by reflexivity;
  unfold GS.gen_scen_filter, GS.gen_reset_filter; cbn [forallb];
  rewrite ?test_pass_only, ?test_pass_except, ?test_pass_nothing;
  cbn [scen_lists param_lists attr_of].

Ltac split_verdicts :=
  repeat match goal with
         | |- context [only_ok ?l ?x] => destruct (only_ok l x)
         | |- context [except_ok ?l ?x] => destruct (except_ok l x)
         end.

(* ---------------------------------------------------------------------------------------------- *)
(* 1. the model's rule is the regenerated chain                                                    *)

Theorem scen_filter_is_code : forall d s t,
  trip_enabled d s t = run_filter GS.gen_scen_filter d s t.
Proof.
  intros. unfold run_filter, trip_enabled. chain_to_conj. split_verdicts; reflexivity.
Qed.

(* the two copies *)
Definition tests_except_services (ft : ftest) : bool :=
  match ft_guard ft, ft_body ft with
  | Some LExceptServices, _ | _, FFind LExceptServices _ _ _ => true
  | _, _ => false
  end.

(* equality of tests, decided *)
Definition slist_code (l : slist) : nat :=
  match l with
  | LServices => 0 | LOnlyLines => 1 | LOnlyModes => 2 | LOnlyAgencies => 3 | LOnlyNodes => 4
  | LExceptServices => 5 | LExceptLines => 6 | LExceptModes => 7 | LExceptAgencies => 8 | LExceptNodes => 9
  end.
Definition tattr_code (a : tattr) : nat := match a with AService => 0 | ALine => 1 | AMode => 2 | AAgency => 3 end.
Definition fbody_eqb (a b : fbody) : bool :=
  match a, b with
  | FNothing, FNothing => true
  | FFind l1 a1 p1 v1, FFind l2 a2 p2 v2 =>
      Nat.eqb (slist_code l1) (slist_code l2) && Nat.eqb (tattr_code a1) (tattr_code a2) &&
      match p1, p2 with MustBeIn, MustBeIn | MustNotBeIn, MustNotBeIn => true | _, _ => false end && Bool.eqb v1 v2
  | _, _ => false
  end.
Definition ftest_eqb (a b : ftest) : bool :=
  Bool.eqb (ft_conj a) (ft_conj b) &&
  match ft_guard a, ft_guard b with
  | Some x, Some y => Nat.eqb (slist_code x) (slist_code y)
  | None, None => true
  | _, _ => false
  end && fbody_eqb (ft_body a) (ft_body b).

(* the two copies carry the same tests (the copy in resetFilters has one more, on exceptServices); the ORDER is not part
   of this statement: the verdict of a chain does not depend on it (run_filter_on_forallb) *)
Theorem reset_filter_same_chain :
  forallb (fun ft => existsb (ftest_eqb ft) GS.gen_reset_filter) GS.gen_scen_filter = true /\
  forallb (fun ft => tests_except_services ft || existsb (ftest_eqb ft) GS.gen_scen_filter) GS.gen_reset_filter = true /\
  length GS.gen_reset_filter = S (length GS.gen_scen_filter).
Proof. repeat split; reflexivity. Qed.

Theorem reset_filter_on_scenario : forall d s t,
  run_filter_on GS.gen_reset_filter d (scen_lists s) t = run_filter GS.gen_scen_filter d s t.
Proof.
  intros. unfold run_filter. chain_to_conj. cbn [except_ok only_ok]. split_verdicts; reflexivity.
Qed.

(* what resetFilters decides for a trip of the set, from the request's lists *)
Definition code_disabled (d : data) (p : params) (cs : connset) (t : nat) : bool :=
  memb t (cs_trips cs) &&
  match find_trip d t with
  | Some tr => negb (run_filter_on GS.gen_reset_filter d (param_lists p) tr)
  | None => false
  end.

Theorem disabled_of_is_code : forall d p cs t, disabled_of d p cs t = code_disabled d p cs t.
Proof.
  intros. unfold disabled_of, code_disabled.
  destruct (find_trip d t) as [tr|].
  - chain_to_conj. cbn [except_ok only_ok andb].
    destruct (q_except_lines p) as [|x r]; cbn [except_ok].
    + cbn [negb]. now rewrite andb_false_r.
    + rewrite andb_true_r. now rewrite negb_involutive.
  - destruct (q_except_lines p); now rewrite andb_false_r.
Qed.

(* the loop of resetFilters: `tripsDisabled.clear(); for (trip : connectionSet->getTrips()) { chain; tail }` over the ids the
   set carries (an id the data does not know cannot occur: the set was built from the data) *)
Definition run_reset_iter (d : data) (p : params) (st : bstate) (id : nat) : bstate :=
  match find_trip d id with
  | Some tr => fold_left (run_tstmt (run_filter_on GS.gen_reset_filter d (param_lists p) tr) id) GS.gen_reset_tail st
  | None => st
  end.
Definition run_reset_loop (d : data) (p : params) (cs : connset) : bstate :=
  fold_left (run_reset_iter d p) (cs_trips cs) b_init.

Lemma reset_iter_map : forall d p st id x,
  b_maps (run_reset_iter d p st id) 0%nat x =
  b_maps st 0%nat x || (Nat.eqb x id && match find_trip d id with
                                       | Some tr => negb (run_filter_on GS.gen_reset_filter d (param_lists p) tr)
                                       | None => false
                                       end).
Proof.
  intros. unfold run_reset_iter. destruct (find_trip d id) as [tr|].
  - unfold GS.gen_reset_tail. cbn [fold_left run_tstmt eval_b].
    destruct (run_filter_on GS.gen_reset_filter d (param_lists p) tr); cbn [negb].
    + now rewrite andb_false_r, orb_false_r.
    + cbn [b_maps]. unfold upd. cbn [Nat.eqb]. rewrite andb_true_r.
      destruct (Nat.eqb x id); [now rewrite orb_true_r | now rewrite orb_false_r].
  - now rewrite andb_false_r, orb_false_r.
Qed.

Lemma reset_fold_map : forall d p ids st x,
  b_maps (fold_left (run_reset_iter d p) ids st) 0%nat x =
  b_maps st 0%nat x || (memb x ids && match find_trip d x with
                                      | Some tr => negb (run_filter_on GS.gen_reset_filter d (param_lists p) tr)
                                      | None => false
                                      end).
Proof.
  induction ids as [|id r IH]; intros st x; cbn [fold_left].
  - unfold memb. cbn [existsb andb]. now rewrite orb_false_r.
  - rewrite IH, reset_iter_map. unfold memb. cbn [existsb]. fold (memb x r).
    destruct (Nat.eqb x id) eqn:E.
    + apply Nat.eqb_eq in E. subst id. cbn [andb orb].
      destruct (b_maps st 0%nat x), (memb x r), (match find_trip d x with Some tr => _ | None => false end); reflexivity.
    + cbn [andb orb]. now rewrite orb_false_r.
Qed.

Theorem reset_loop_is_code : forall d p cs t,
  b_maps (run_reset_loop d p cs) 0%nat t = disabled_of d p cs t.
Proof.
  intros. rewrite disabled_of_is_code. unfold run_reset_loop, code_disabled. rewrite reset_fold_map. reflexivity.
Qed.

(* ---------------------------------------------------------------------------------------------- *)
(* 2. the construction                                                                             *)

Definition std_tail : list tstmt := [TSetMap 0 BEnabled; TPushIf BEnabled 0].
Definition tstep_std (en : trip -> bool) (st : bstate) (t : trip) : bstate :=
  fold_left (run_tstmt (en t) (t_id t)) std_tail st.

Lemma memb_cons : forall x a l, memb x (a :: l) = Nat.eqb x a || memb x l.
Proof. reflexivity. Qed.

Lemma memb_filter_sub : forall (en : trip -> bool) x l,
  memb x (map t_id (filter en l)) = true -> memb x (map t_id l) = true.
Proof.
  induction l as [|t r IH]; cbn [filter map]; [easy|].
  destruct (en t); cbn [map]; rewrite ?memb_cons; intro H.
  - apply orb_true_iff in H as [H|H]; [now rewrite H | rewrite IH by assumption; apply orb_true_r].
  - rewrite IH by assumption. apply orb_true_r.
Qed.

Lemma tstep_std_maps : forall en st t id,
  b_maps (tstep_std en st t) 0%nat id = if Nat.eqb id (t_id t) then en t else b_maps st 0%nat id.
Proof.
  intros. unfold tstep_std, std_tail. cbn [fold_left run_tstmt eval_b].
  destruct (en t); cbn [b_maps]; unfold upd; reflexivity.
Qed.
Lemma tstep_std_tvecs : forall en st t,
  b_tvecs (tstep_std en st t) 0%nat = b_tvecs st 0%nat ++ (if en t then [t_id t] else []).
Proof.
  intros. unfold tstep_std, std_tail. cbn [fold_left run_tstmt eval_b].
  destruct (en t); cbn [b_tvecs]; unfold upd; cbn [Nat.eqb]; [reflexivity | now rewrite app_nil_r].
Qed.
Lemma tstep_std_cvecs : forall en st t, b_cvecs (tstep_std en st t) = b_cvecs st.
Proof.
  intros. unfold tstep_std, std_tail. cbn [fold_left run_tstmt eval_b]. destruct (en t); reflexivity.
Qed.

Lemma trip_loop_spec : forall en trips st,
  let st' := fold_left (tstep_std en) trips st in
  b_tvecs st' 0%nat = b_tvecs st 0%nat ++ map t_id (filter en trips) /\
  b_cvecs st' = b_cvecs st /\
  (NoDup (map t_id trips) ->
   forall id, b_maps st' 0%nat id =
              if memb id (map t_id trips) then memb id (map t_id (filter en trips)) else b_maps st 0%nat id).
Proof.
  intros en trips. induction trips as [|t r IH]; intros st; cbn zeta; cbn [fold_left].
  - cbn [filter map]. rewrite app_nil_r. repeat split.
  - specialize (IH (tstep_std en st t)). cbn zeta in IH. destruct IH as (IHt & IHc & IHm).
    split; [|split].
    + rewrite IHt, tstep_std_tvecs, <- app_assoc. cbn [filter]. destruct (en t); reflexivity.
    + now rewrite IHc, tstep_std_cvecs.
    + intros Hnd id. cbn [map] in Hnd. inversion Hnd as [|a l Hnotin Hnd']; subst.
      rewrite (IHm Hnd' id), tstep_std_maps. cbn [map]. rewrite memb_cons.
      destruct (Nat.eqb id (t_id t)) eqn:E.
      * apply Nat.eqb_eq in E. subst id. cbn [orb].
        assert (Hr : memb (t_id t) (map t_id r) = false).
        { destruct (memb (t_id t) (map t_id r)) eqn:M; [|reflexivity]. exfalso. apply Hnotin.
          unfold memb in M. apply existsb_exists in M as (y & Hy & Ey). apply Nat.eqb_eq in Ey. now subst y. }
        rewrite Hr. cbn [filter]. destruct (en t) eqn:Een.
        -- cbn [map]. rewrite memb_cons, Nat.eqb_refl. reflexivity.
        -- destruct (memb (t_id t) (map t_id (filter en r))) eqn:M; [|reflexivity].
           apply memb_filter_sub in M. congruence.
      * cbn [orb]. destruct (memb id (map t_id r)) eqn:M; [|reflexivity].
        cbn [filter]. destruct (en t); [|reflexivity]. cbn [map]. rewrite memb_cons, E. reflexivity.
Qed.

Lemma cloop_spec : forall x m out conns st,
  let cl := {| cl_src := x; cl_keep := BMap m; cl_out := out |} in
  let st' := fold_left (run_cloop_iter cl) conns st in
  b_maps st' = b_maps st /\ b_tvecs st' = b_tvecs st /\
  b_cvecs st' out = b_cvecs st out ++ filter (fun c => b_maps st m (c_trip c)) conns /\
  (forall o, o <> out -> b_cvecs st' o = b_cvecs st o).
Proof.
  intros x m out conns. induction conns as [|c r IH]; intros st; cbn zeta; cbn [fold_left].
  - cbn [filter]. rewrite app_nil_r. repeat split.
  - specialize (IH (run_cloop_iter {| cl_src := x; cl_keep := BMap m; cl_out := out |} st c)). cbn zeta in IH.
    destruct IH as (IHm & IHt & IHc & IHo).
    unfold run_cloop_iter in *. cbn [cl_keep cl_out eval_b] in *. cbn [filter].
    destruct (b_maps st m (c_trip c)); cbn [b_maps b_tvecs b_cvecs] in *.
    + repeat split; try assumption.
      * rewrite IHc. unfold upd. rewrite Nat.eqb_refl. now rewrite <- app_assoc.
      * intros o Ho. rewrite (IHo o Ho). unfold upd. apply Nat.eqb_neq in Ho. now rewrite Ho.
    + repeat split; assumption.
Qed.

Theorem conn_set_is_code : forall d s,
  NoDup (map t_id (d_trips d)) -> conn_set d s = run_build gen_scen_code d s.
Proof.
  intros d s Hnd. unfold run_build, gen_scen_code. cbn [sc_filter sc_tail sc_loops sc_ctor].
  unfold GS.gen_scen_tail, GS.gen_scen_loops, GS.gen_scen_ctor. cbn [fold_left].
  unfold run_trip_loop.
  change (run_trip_iter GS.gen_scen_filter [TSetMap 0 BEnabled; TPushIf BEnabled 0] d s)
    with (tstep_std (run_filter GS.gen_scen_filter d s)).
  set (en := run_filter GS.gen_scen_filter d s).
  destruct (trip_loop_spec en (d_trips d) b_init) as (Ht & Hc & Hm). specialize (Hm Hnd).
  set (st1 := fold_left (tstep_std en) (d_trips d) b_init) in *.
  unfold run_cloop. cbn [cl_src src_conns].
  destruct (cloop_spec SForward 0 0 (sorted_fwd d) st1) as (F1 & F2 & F3 & F4). cbn zeta in *.
  set (st2 := fold_left (run_cloop_iter {| cl_src := SForward; cl_keep := BMap 0; cl_out := 0 |}) (sorted_fwd d) st1) in *.
  destruct (cloop_spec SReverse 0 1 (sorted_rev d) st2) as (R1 & R2 & R3 & R4). cbn zeta in *.
  set (st3 := fold_left (run_cloop_iter {| cl_src := SReverse; cl_keep := BMap 0; cl_out := 1 |}) (sorted_rev d) st2) in *.
  assert (Een : forall t, en t = trip_enabled d s t) by (intro t; unfold en; now rewrite <- scen_filter_is_code).
  assert (Hfil : filter en (d_trips d) = filter (trip_enabled d s) (d_trips d)) by (apply filter_ext; exact Een).
  assert (Hmap : forall id, b_maps st1 0%nat id = memb id (enabled_trips d s)).
  { intro id. rewrite Hm. unfold enabled_trips. rewrite <- Hfil. cbn [b_init b_maps].
    destruct (memb id (map t_id (d_trips d))) eqn:M; [reflexivity|].
    destruct (memb id (map t_id (filter en (d_trips d)))) eqn:M2; [|reflexivity].
    apply memb_filter_sub in M2. congruence. }
  unfold conn_set. f_equal.
  - rewrite R2, F2, Ht. cbn [b_init b_tvecs app]. unfold enabled_trips. now rewrite Hfil.
  - rewrite (R4 0%nat) by discriminate. rewrite F3, Hc. cbn [b_init b_cvecs app].
    apply filter_ext. intro c. now rewrite Hmap.
  - rewrite R3, (F4 1%nat) by discriminate. rewrite Hc. cbn [b_init b_cvecs app].
    rewrite F1. apply filter_ext. intro c. now rewrite Hmap.
Qed.

Lemma nodup_nat_is_NoDup : forall l, nodup_nat l = true -> NoDup l.
Proof.
  induction l as [|a l IH]; cbn [nodup_nat]; intro H; constructor.
  - apply andb_true_iff in H as [H _]. apply negb_true_iff in H. intro Hin.
    assert (memb a l = true) by (apply existsb_exists; exists a; split; [exact Hin | apply Nat.eqb_refl]). congruence.
  - apply andb_true_iff in H as [_ H]. now apply IH.
Qed.

Lemma wf_data_trip_ids : forall d, wf_data_b d = true -> NoDup (map t_id (d_trips d)).
Proof.
  intros d H. unfold wf_data_b in H. do 8 (apply andb_true_iff in H as [H _]).
  apply andb_true_iff in H as [_ H]. now apply nodup_nat_is_NoDup.
Qed.

(* ---------------------------------------------------------------------------------------------- *)
(* 3. the cache protocol                                                                           *)

(* what the model does with the cache for a request on scenario s *)
Definition serve_cache (d : data) (s : scenario) (c : cache) : connset * cache :=
  match cache_get c (s_id s) with
  | Some cs => (cs, c)
  | None => let cs := conn_set d s in (cs, cache_set c (s_id s) cs)
  end.

Theorem protocol_keys :
  get_keys GS.gen_scen_protocol = [KScenarioUuid] /\ set_keys GS.gen_scen_protocol = [KScenarioUuid].
Proof. split; reflexivity. Qed.

Theorem protocol_is_code : forall d s c,
  NoDup (map t_id (d_trips d)) ->
  run_protocol gen_scen_code d s c = Some (serve_cache d s c).
Proof.
  intros d s c Hnd. unfold run_protocol, serve_cache. cbn [sc_protocol gen_scen_code].
  unfold GS.gen_scen_protocol. cbn [run_protocol_from key_of].
  destruct (cache_get c (s_id s)) as [cs|]; [reflexivity|].
  cbn [run_protocol_from key_of]. now rewrite <- conn_set_is_code.
Qed.

Theorem serve_is_protocol : forall sv r s,
  req_scenario r = Some (s_id s) -> find_scenario (sv_data sv) (s_id s) = Some s -> reaches_filters r = true ->
  serve sv r = (respond (sv_data sv) (fst (serve_cache (sv_data sv) s (sv_cache sv))) r,
                {| sv_data := sv_data sv; sv_cache := snd (serve_cache (sv_data sv) s (sv_cache sv)) |}).
Proof.
  intros [d c] r s Hr Hs Hf. unfold serve, serve_cache. cbn [sv_data sv_cache] in *. rewrite Hr, Hs, Hf.
  destruct (cache_get c (s_id s)); reflexivity.
Qed.

(* the thread protocol: TStart = look-up (+ construction on a miss), TBuilt = publication under the same key *)
Theorem tstep_is_protocol : forall d c r s,
  req_scenario r = Some (s_id s) -> find_scenario d (s_id s) = Some s -> reaches_filters r = true ->
  tstep d c (TStart r) =
    (match cache_get c (s_id s) with Some cs => THave r cs | None => TBuilt r (s_id s) (conn_set d s) end, c) /\
  forall cs, tstep d c (TBuilt r (s_id s) cs) = (THave r cs, cache_set c (s_id s) cs).
Proof.
  intros d c r s Hr Hs Hf. split; [|reflexivity].
  cbn [tstep]. rewrite Hr, Hs, Hf. destruct (cache_get c (s_id s)); reflexivity.
Qed.

(* ---------------------------------------------------------------------------------------------- *)
(* corollaries in the vocabulary of the properties                                                 *)

Theorem reset_filter_on_params : forall d p t,
  run_filter_on GS.gen_reset_filter d (param_lists p) t = negb (memb (trip_line d t) (q_except_lines p)).
Proof.
  intros. chain_to_conj. cbn [except_ok only_ok andb]. rewrite andb_true_r.
  unfold except_ok. destruct (q_except_lines p); reflexivity.
Qed.

(* the trips a request may ride (the notion of Spec.v that C02 is stated with, unfolded) = both regenerated chains pass *)
Theorem request_filter_is_code : forall d s p t,
  trip_enabled d s t && negb (memb (trip_line d t) (q_except_lines p)) =
  run_filter GS.gen_scen_filter d s t && run_filter_on GS.gen_reset_filter d (param_lists p) t.
Proof. intros. now rewrite scen_filter_is_code, reset_filter_on_params. Qed.

(* the dataset C11 compares with: the trips on which the regenerated chain ends with `enabled` *)
Theorem delete_excluded_is_code : forall d s,
  d_trips (delete_excluded d s) = filter (run_filter GS.gen_scen_filter d s) (d_trips d).
Proof. intros. cbn [delete_excluded d_trips]. apply filter_ext. intro t. apply scen_filter_is_code. Qed.

Theorem cache_key_is_scenario_uuid :
  get_keys GS.gen_scen_protocol = [KScenarioUuid] /\ set_keys GS.gen_scen_protocol = [KScenarioUuid] /\
  (forall s, key_of s KScenarioUuid = Some (s_id s)) /\
  forall sv r s,
    req_scenario r = Some (s_id s) -> find_scenario (sv_data sv) (s_id s) = Some s -> reaches_filters r = true ->
    (forall cs, cache_get (sv_cache sv) (s_id s) = Some cs -> serve sv r = (respond (sv_data sv) cs r, sv)) /\
    (cache_get (sv_cache sv) (s_id s) = None ->
     serve sv r = (respond (sv_data sv) (conn_set (sv_data sv) s) r,
                   {| sv_data := sv_data sv; sv_cache := cache_set (sv_cache sv) (s_id s) (conn_set (sv_data sv) s) |})) /\
    (NoDup (map t_id (d_trips (sv_data sv))) ->
     exists cs c', run_protocol gen_scen_code (sv_data sv) s (sv_cache sv) = Some (cs, c') /\
                   serve sv r = (respond (sv_data sv) cs r, {| sv_data := sv_data sv; sv_cache := c' |})).
Proof.
  split; [reflexivity|]. split; [reflexivity|]. split; [reflexivity|].
  intros sv r s Hr Hs Hf. pose proof (serve_is_protocol sv r s Hr Hs Hf) as H. unfold serve_cache in H.
  split; [|split].
  - intros cs Hc. rewrite Hc in H. rewrite H. destruct sv; reflexivity.
  - intro Hc. rewrite Hc in H. exact H.
  - intro Hnd. exists (fst (serve_cache (sv_data sv) s (sv_cache sv))), (snd (serve_cache (sv_data sv) s (sv_cache sv))).
    split; [|apply serve_is_protocol; assumption].
    rewrite protocol_is_code by assumption. now destruct (serve_cache (sv_data sv) s (sv_cache sv)).
Qed.
