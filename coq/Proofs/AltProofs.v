(* AltProofs.v — structural theorems about the alternatives search (Calc.alternatives).
   calc_single is treated as opaque: only the control structure of alt_loop / push_combs is used. *)
From TrV Require Import Spec.
From Coq Require Import List ZArith Bool Lia.
Import ListNotations.
Local Open Scope Z_scope.

(* ---------------------------------------------------------------------------------------------- *)
(* list_eqb decides equality; mem_list decides membership                                          *)

Lemma list_eqb_eq : forall a b, list_eqb a b = true <-> a = b.
Proof.
  unfold list_eqb.
  induction a as [|x a IHa]; intros [|y b]; cbn [length combine forallb fst snd Nat.eqb andb].
  - split; intros _; reflexivity.
  - split; intros Hc; discriminate Hc.
  - split; intros Hc; discriminate Hc.
  - split.
    + intros Hc.
      apply andb_true_iff in Hc. destruct Hc as [Hlen Hrest].
      apply andb_true_iff in Hrest. destruct Hrest as [Hxy Hall].
      apply Nat.eqb_eq in Hxy. subst y.
      f_equal. apply IHa. rewrite Hlen, Hall. reflexivity.
    + intros Hc. injection Hc as Hxy Hab. subst y.
      apply IHa in Hab. apply andb_true_iff in Hab. destruct Hab as [Hlen Hall].
      rewrite Hlen, Hall, Nat.eqb_refl. reflexivity.
Qed.

Lemma list_eqb_refl : forall a, list_eqb a a = true.
Proof. intros a. apply list_eqb_eq. reflexivity. Qed.

Lemma mem_list_in : forall x l, mem_list x l = true <-> In x l.
Proof.
  intros x l. unfold mem_list. rewrite existsb_exists. split.
  - intros [y [Hin Hy]]. apply list_eqb_eq in Hy. subst y. exact Hin.
  - intros Hin. exists x. split; [exact Hin | apply list_eqb_refl].
Qed.

Lemma mem_list_false : forall x l, mem_list x l = false -> ~ In x l.
Proof.
  intros x l Hm Hin. apply mem_list_in in Hin. rewrite Hin in Hm. discriminate Hm.
Qed.

Lemma ins_nat_not_nil : forall x l, ins_nat x l <> [].
Proof.
  intros x [|y l]; cbn [ins_nat].
  - discriminate.
  - destruct (Nat.ltb x y) eqn:Elt; discriminate.
Qed.

Lemma sort_nat_nil : forall l, sort_nat l = [] -> l = [].
Proof.
  intros [|x l] Hs; [reflexivity|].
  unfold sort_nat in Hs. cbn [fold_right] in Hs.
  exfalso. exact (ins_nat_not_nil _ _ Hs).
Qed.

Lemma nonempty_true : forall (A : Type) (l : list A), nonempty l = true -> l <> [].
Proof. intros A [|x l] Hn; [discriminate Hn | discriminate]. Qed.

(* ---------------------------------------------------------------------------------------------- *)
(* push_combs touches only a_all and a_calculated                                                  *)

Definition same_core (s t : alt_st) : Prop :=
  a_routes t = a_routes s /\ a_found t = a_found s /\ a_failed t = a_failed s /\
  a_seq t = a_seq s /\ a_count t = a_count s.

Lemma push_combs_core : forall st found comb, same_core st (push_combs st found comb).
Proof.
  intros st found comb. unfold push_combs.
  generalize (all_combs found) as l. intros l. revert st.
  induction l as [|nc0 l IHl]; intros st; cbn [fold_left].
  - unfold same_core. repeat split; reflexivity.
  - match goal with |- same_core st (fold_left ?f l ?s1) => specialize (IHl s1); remember s1 as s' eqn:Es' end.
    assert (Hs : same_core st s').
    { subst s'. destruct (mem_list (sort_nat (nc0 ++ comb)) (a_calculated st)) eqn:Em;
        unfold same_core; cbn [a_routes a_found a_failed a_seq a_count]; repeat split; reflexivity. }
    clear Es'. unfold same_core in *.
    destruct IHl as [H1 [H2 [H3 [H4 H5]]]]. destruct Hs as [G1 [G2 [G3 [G4 G5]]]].
    rewrite H1, H2, H3, H4, H5. repeat split; assumption.
Qed.

(* ---------------------------------------------------------------------------------------------- *)
(* the loop invariant                                                                              *)

Section Loop.
  Variables (d : data) (cs : connset) (p : params) (altp : Z) (acc egr : list fprow)
            (base_ex : list nat) (first : route).

  Definition key (r : route) : list nat := sort_nat (route_lines d r).

  Definition recalc (r : route) : Prop :=
    exists comb used,
      calc_single d cs (with_alt p altp (base_ex ++ comb)) acc egr false = Ok (r, used) /\
      route_lines d r <> [].

  Record Inv (st : alt_st) : Prop := {
    inv_routes : exists tl, a_routes st = first :: tl /\ forall r, In r tl -> recalc r;
    inv_found : a_found st = map key (a_routes st);
    inv_nodup : NoDup (a_found st);
    inv_len : Z.of_nat (length (a_routes st)) = a_seq st - 1;
    inv_seq_count : a_seq st <= a_count st;
    inv_count : a_count st <= 200;
    inv_seq : a_seq st - 1 <= 50 }.

  Lemma NoDup_snoc : forall (A : Type) (l : list A) (x : A), NoDup l -> ~ In x l -> NoDup (l ++ [x]).
  Proof.
    intros A l x Hnd Hni. induction Hnd as [|y l Hy Hnd IH]; cbn [app].
    - constructor; [intros Hf; exact Hf | constructor].
    - constructor.
      + intros Hin. apply in_app_or in Hin. destruct Hin as [Hin|Hin].
        * exact (Hy Hin).
        * cbn [In] in Hin. destruct Hin as [Hxy|Hf]; [|exact Hf].
          apply Hni. subst y. left. reflexivity.
      + apply IH. intros Hin. apply Hni. right. exact Hin.
  Qed.

  Lemma alt_loop_inv : forall fuel st i st',
    Inv st -> alt_loop fuel d cs p altp acc egr base_ex st i = Ok st' -> Inv st'.
  Proof.
    induction fuel as [|f IHf]; intros st i st' HI H; cbn [alt_loop] in H.
    - injection H as H. subst st'. exact HI.
    - destruct (nth_error (a_all st) i) as [comb|] eqn:En.
      2:{ injection H as H. subst st'. exact HI. }
      destruct ((a_count st <? MAX_ALTERNATIVES) && (a_seq st - 1 <? MAX_VALID_ALTERNATIVES))%bool eqn:Eg.
      2:{ injection H as H. subst st'. exact HI. }
      apply andb_true_iff in Eg. destruct Eg as [Egc Egs].
      apply Z.ltb_lt in Egc. apply Z.ltb_lt in Egs.
      unfold MAX_ALTERNATIVES, GEN_MAX_ALTERNATIVES in Egc.
      unfold MAX_VALID_ALTERNATIVES, GEN_MAX_VALID_ALTERNATIVES in Egs.
      destruct HI as [[tl [Hr Htl]] Hfound Hnd Hlen Hsc Hcnt Hseq].
      destruct (calc_single d cs (with_alt p altp (base_ex ++ comb)) acc egr false)
        as [[r used]|rs|c|c|t| | |t|] eqn:Ec; try discriminate H.
      + (* a route *)
        apply IHf in H; [exact H|]. clear H IHf.
        destruct (nonempty (sort_nat (route_lines d r)) &&
                  negb (mem_list (sort_nat (route_lines d r)) (a_found st)))%bool eqn:Et.
        * apply andb_true_iff in Et. destruct Et as [Ene Enm].
          apply nonempty_true in Ene. apply negb_true_iff in Enm. apply mem_list_false in Enm.
          match goal with |- context [push_combs ?s1 ?fl ?cb] =>
            pose proof (push_combs_core s1 fl cb) as Hcore;
            remember (push_combs s1 fl cb) as s2 eqn:Es2 end.
          clear Es2. unfold same_core in Hcore.
          cbn [a_routes a_found a_failed a_seq a_count] in Hcore.
          destruct Hcore as [C1 [C2 [C3 [C4 C5]]]].
          constructor; cbn [a_routes a_found a_failed a_seq a_count]; rewrite ?C1, ?C2, ?C4, ?C5.
          -- exists (tl ++ [r]). split.
             ++ rewrite Hr. reflexivity.
             ++ intros r0 Hin. apply in_app_or in Hin. destruct Hin as [Hin|Hin].
                ** apply Htl. exact Hin.
                ** cbn [In] in Hin. destruct Hin as [Heq|Hf]; [|contradiction Hf]. subst r0.
                   exists comb, used. split; [exact Ec|].
                   intros Hnil. apply Ene. rewrite Hnil. reflexivity.
          -- rewrite map_app, Hfound. reflexivity.
          -- apply NoDup_snoc; assumption.
          -- rewrite app_length. cbn [length]. lia.
          -- lia.
          -- lia.
          -- lia.
        * constructor; cbn [a_routes a_found a_failed a_seq a_count].
          -- exists tl. split; assumption.
          -- exact Hfound.
          -- exact Hnd.
          -- exact Hlen.
          -- lia.
          -- lia.
          -- exact Hseq.
      + (* NoRouting: the combination failed *)
        apply IHf in H; [exact H|]. clear H IHf.
        constructor; cbn [a_routes a_found a_failed a_seq a_count].
        * exists tl. split; assumption.
        * exact Hfound.
        * exact Hnd.
        * exact Hlen.
        * lia.
        * lia.
        * exact Hseq.
  Qed.
End Loop.

(* ---------------------------------------------------------------------------------------------- *)
(* alternatives = plain query, then the loop from the initial state                                *)

Definition alt_st0 (d : data) (r : route) : alt_st :=
  let fl := sort_nat (route_lines d r) in
  let combs0 := map sort_nat (all_combs fl) in
  {| a_routes := [r]; a_all := combs0; a_failed := []; a_calculated := combs0;
     a_found := [fl]; a_seq := 2; a_count := 2 |}.

Lemma alt_st0_inv : forall d cs p altp acc egr base_ex r,
  Inv d cs p altp acc egr base_ex r (alt_st0 d r).
Proof.
  intros d cs p altp acc egr base_ex r. unfold alt_st0.
  constructor; cbn [a_routes a_found a_failed a_seq a_count].
  - exists []. split; [reflexivity|]. intros r0 Hin. contradiction Hin.
  - reflexivity.
  - constructor; [intros Hf; exact Hf | constructor].
  - cbn [length]. lia.
  - lia.
  - lia.
  - lia.
Qed.

Lemma bind_ok : forall (A B : Type) (o : outcome A) (f : A -> outcome B) (y : B),
  bind o f = Ok y -> exists x, o = Ok x /\ f x = Ok y.
Proof.
  intros A B o f y H.
  destruct o as [x|rs0|c|c|t| | |t|]; cbn [bind] in H; try discriminate H.
  exists x. split; [reflexivity | exact H].
Qed.

(* alternatives, with the initial state named (no reduction of the loop is ever needed).
   NOTE: do not `destruct (calc_single ...)` / `cbn [bind] in H` directly on the unfolded alternatives:
   the kernel then has to convert `bind (Ok _) F` with `bind (alt_loop ALT_FUEL ...) G` at Qed, unfolds
   the 256-fuel loop and calc_single inside it, and does not terminate in practice (>10 min).  Going
   through bind_ok keeps every conversion syntactic. *)
Lemma alternatives_unfold : forall d cs p acc egr,
  alternatives d cs p acc egr =
  bind (calc_single d cs p acc egr true) (fun first =>
    bind (alt_loop ALT_FUEL d cs p (alt_maxtt p (fst first)) acc egr (q_except_lines p)
            (alt_st0 d (fst first)) 0%nat)
         (fun st => Ok (a_routes st, a_count st))).
Proof. intros d cs p acc egr. reflexivity. Qed.

(* the decomposition every theorem below starts from *)
Lemma alt_ok_inv : forall d cs p acc egr rs total,
  alternatives d cs p acc egr = Ok (rs, total) ->
  exists r used st,
    calc_single d cs p acc egr true = Ok (r, used) /\
    Inv d cs p (alt_maxtt p r) acc egr (q_except_lines p) r st /\
    rs = a_routes st /\ total = a_count st.
Proof.
  intros d cs p acc egr rs total H. rewrite alternatives_unfold in H.
  apply bind_ok in H. destruct H as [first [Hc H]].
  apply bind_ok in H. destruct H as [st [El H]].
  destruct first as [r used]. cbn [fst] in El.
  injection H as Hrs Htot.
  exists r, used, st. split; [exact Hc|]. split.
  - eapply alt_loop_inv; [|exact El]. apply alt_st0_inv.
  - split; symmetry; assumption.
Qed.

(* ---------------------------------------------------------------------------------------------- *)
(* 1. fails exactly like the plain query *)
Theorem alt_fails_like_plain : forall d cs p acc egr,
  (forall x, calc_single d cs p acc egr true <> Ok x) ->
  alternatives d cs p acc egr = match calc_single d cs p acc egr true with
                                | Ok _ => Hang (* unreachable *) | NoRouting r => NoRouting r | ParamErr c => ParamErr c
                                | DataErr c => DataErr c | Exn t => Exn t | NoReply => NoReply | Crash => Crash
                                | UB t => UB t | Hang => Hang end.
Proof.
  intros d cs p acc egr Hno. unfold alternatives.
  destruct (calc_single d cs p acc egr true) as [x|rs0|c|c|t| | |t|] eqn:E; cbn [bind]; try reflexivity.
  exfalso. apply (Hno x). reflexivity.
Qed.

(* 2. the first route is the plain route *)
Theorem alt_first_is_plain : forall d cs p acc egr rs total,
  alternatives d cs p acc egr = Ok (rs, total) ->
  exists r used tl, calc_single d cs p acc egr true = Ok (r, used) /\ rs = r :: tl.
Proof.
  intros d cs p acc egr rs total H.
  apply alt_ok_inv in H. destruct H as [r [used [st [Hc [HI [Hrs Htot]]]]]].
  destruct HI as [[tl [Hr Htl]] Hfound Hnd Hlen Hsc Hcnt Hseq].
  exists r, used, tl. split; [exact Hc|]. rewrite Hrs. exact Hr.
Qed.

(* 3. caps and counters *)
Theorem alt_caps : forall d cs p acc egr rs total,
  alternatives d cs p acc egr = Ok (rs, total) ->
  (1 <= length rs)%nat /\ Z.of_nat (length rs) <= 50 /\ Z.of_nat (length rs) < total /\ total <= 200.
Proof.
  intros d cs p acc egr rs total H.
  apply alt_ok_inv in H. destruct H as [r [used [st [Hc [HI [Hrs Htot]]]]]].
  destruct HI as [[tl [Hr Htl]] Hfound Hnd Hlen Hsc Hcnt Hseq].
  subst rs total. split.
  - rewrite Hr. cbn [length]. lia.
  - lia.
Qed.

(* 4. no two returned routes board the same multiset of lines *)
Theorem alt_distinct : forall d cs p acc egr rs total,
  alternatives d cs p acc egr = Ok (rs, total) ->
  NoDup (map (fun r => sort_nat (route_lines d r)) rs).
Proof.
  intros d cs p acc egr rs total H.
  apply alt_ok_inv in H. destruct H as [r [used [st [Hc [HI [Hrs Htot]]]]]].
  destruct HI as [[tl [Hr Htl]] Hfound Hnd Hlen Hsc Hcnt Hseq].
  subst rs. unfold key in Hfound. rewrite <- Hfound. exact Hnd.
Qed.

(* 5. every further route is the answer of a recalculation of the SAME query with a smaller-or-equal
      max travel time and a superset of excluded lines, on the same rows without a new router lookup *)
Theorem alt_each_is_recalculation : forall d cs p acc egr rs total r,
  alternatives d cs p acc egr = Ok (rs, total) -> In r (tl rs) ->
  exists maxtt ex used, maxtt <= q_maxtt p /\ incl (q_except_lines p) ex /\
    calc_single d cs (with_alt p maxtt ex) acc egr false = Ok (r, used) /\ route_lines d r <> [].
Proof.
  intros d cs p acc egr rs total r H Hin.
  apply alt_ok_inv in H. destruct H as [r1 [used1 [st [Hc [HI [Hrs Htot]]]]]].
  destruct HI as [[tl1 [Hr Htl]] Hfound Hnd Hlen Hsc Hcnt Hseq].
  subst rs. rewrite Hr in Hin. cbn [tl] in Hin.
  apply Htl in Hin. destruct Hin as [comb [used [Hcalc Hne]]].
  exists (alt_maxtt p r1), (q_except_lines p ++ comb), used.
  split; [unfold alt_maxtt; apply Z.le_min_r|].
  split; [apply incl_appl; apply incl_refl|].
  split; assumption.
Qed.

Print Assumptions alt_fails_like_plain.
Print Assumptions alt_first_is_plain.
Print Assumptions alt_caps.
Print Assumptions alt_distinct.
Print Assumptions alt_each_is_recalculation.
