(* Proofs/Totals.v — C06: the totals and clock-chaining identities of every route produced by [emit]
   are the ones [steps_chain] recomputes from the emitted step list alone.

   Structure of the proof
   - [minw_eff] is used only through [minw_eff_ext] (it depends on the connection only via [c_minw]);
     [wrap16] is never unfolded.
   - [emit_access] / [emit_leg] / [emit_egress] characterise [emit_step] field by field for the three
     kinds of journey step, so the record expressions of Journey.v are unfolded exactly once each.
   - [chain_walk] / [chain_ride] do the same for [steps_chain].
   - [legs_loop] is the loop invariant, by induction on the legs that remain: the steps appended by
     the rest of the loop ([news]) are accepted by [steps_chain] from the current clock, and every
     running total grows by exactly what the checker accumulates over [news] ([delta_ok]).
   - [C06_totals] peels the access walk and closes the arithmetic with [lia]. *)
From TrV Require Import Spec.
Local Open Scope Z_scope.

(* ---------------------------------------------------------------------------------------------- *)
(* small inversions                                                                                *)

Lemma minw_eff_ext : forall (p : params) (c1 c2 : conn),
  c_minw c1 = c_minw c2 -> minw_eff p c1 = minw_eff p c2.
Proof. intros p c1 c2 H. unfold minw_eff. rewrite H. reflexivity. Qed.

Lemma is_walk_inv : forall j, is_walk j = true -> js_enter j = None /\ js_exit j = None.
Proof.
  intros j. unfold is_walk.
  destruct (js_enter j), (js_exit j); cbn; intro H; try discriminate; auto.
Qed.

Lemma leg_in_data_inv : forall d j, leg_in_data d j = true ->
  exists en ex t b, js_enter j = Some en /\ js_exit j = Some ex /\ js_trip j = Some t /\
    find_conn d t (c_seq en) = Some b /\ c_minw b = c_minw en.
Proof.
  intros d j. unfold leg_in_data.
  destruct (js_enter j) as [en|]; [|discriminate].
  destruct (js_exit j) as [ex|]; [|discriminate].
  destruct (js_trip j) as [t|]; [|discriminate].
  intro H. apply andb_true_iff in H. destruct H as [_ H].
  destruct (find_conn d t (c_seq en)) as [b|] eqn:Hf; [|discriminate].
  apply Z.eqb_eq in H. exists en, ex, t, b. auto.
Qed.

(* ---------------------------------------------------------------------------------------------- *)
(* the checker, one emitted group at a time                                                        *)

Definition tr_step (d : data) (s : step) : bool :=
  match s with SBoard t _ _ _ _ _ => is_transferable_trip d t | _ => false end.

Definition nextw_of (d : data) (p : params) (l : list step) : Z :=
  match l with
  | SBoard t s _ _ _ _ :: _ => match find_conn d t s with Some b => minw_eff p b | None => 0 end
  | _ => 0
  end.

Definition last_arr_of (l : list step) : Z :=
  match last (map Some l) None with Some (SWalk _ _ _ _ arr _) => arr | _ => -1 end.

Lemma last_arr_cons : forall x l, l <> [] -> last_arr_of (x :: l) = last_arr_of l.
Proof. intros x l H. destruct l; [congruence|reflexivity]. Qed.

Definition sums_walk (a : sums) (k : nat) (w : Z) : sums :=
  {| sm_walk := sm_walk a + w; sm_trwalk := (if Nat.eqb k 2 then sm_trwalk a + w else sm_trwalk a);
     sm_ivt := sm_ivt a; sm_wait := sm_wait a; sm_trwait := sm_trwait a; sm_boards := sm_boards a;
     sm_acc := (if Nat.eqb k 0 then w else sm_acc a); sm_egr := (if Nat.eqb k 1 then w else sm_egr a);
     sm_fwait := sm_fwait a |}.

Definition sums_board (a : sums) (first : bool) (wait : Z) : sums :=
  {| sm_walk := sm_walk a; sm_trwalk := sm_trwalk a; sm_ivt := sm_ivt a; sm_wait := sm_wait a + wait;
     sm_trwait := (if first then sm_trwait a else sm_trwait a + wait); sm_boards := sm_boards a + 1;
     sm_acc := sm_acc a; sm_egr := sm_egr a; sm_fwait := (if first then wait else sm_fwait a) |}.

Definition sums_unboard (a : sums) (ivt : Z) : sums :=
  {| sm_walk := sm_walk a; sm_trwalk := sm_trwalk a; sm_ivt := sm_ivt a + ivt; sm_wait := sm_wait a;
     sm_trwait := sm_trwait a; sm_boards := sm_boards a; sm_acc := sm_acc a; sm_egr := sm_egr a;
     sm_fwait := sm_fwait a |}.

Lemma chain_walk : forall d p prev bdep first k w dist dep arr rdy r a,
  dep = prev -> arr = dep + w -> (k <> 1%nat -> rdy = arr + nextw_of d p r) ->
  steps_chain d p prev bdep first (SWalk k w dist dep arr rdy :: r) a =
  steps_chain d p arr bdep first r (sums_walk a k w).
Proof.
  intros d p prev bdep first k w dist dep arr rdy r a H1 H2 H3.
  assert (C : (dep =? prev) && (arr =? dep + w) &&
              (if Nat.eqb k 1 then true else rdy =? arr + nextw_of d p r) = true).
  { apply andb_true_iff; split; [apply andb_true_iff; split|].
    - apply Z.eqb_eq; exact H1.
    - apply Z.eqb_eq; exact H2.
    - destruct (Nat.eqb k 1) eqn:E; [reflexivity|].
      apply Z.eqb_eq. apply H3. apply Nat.eqb_neq. exact E. }
  change (steps_chain d p prev bdep first (SWalk k w dist dep arr rdy :: r) a)
    with (if (dep =? prev) && (arr =? dep + w) &&
             (if Nat.eqb k 1 then true else rdy =? arr + nextw_of d p r)
          then steps_chain d p arr bdep first r (sums_walk a k w) else None).
  rewrite C. reflexivity.
Qed.

Lemma chain_ride : forall d p prev bdep first t s s2 n dep wait t' u u2 m arr ivt ivd r a,
  wait = dep - prev -> ivt = arr - dep ->
  steps_chain d p prev bdep first
    (SBoard t s s2 n dep wait :: SUnboard t' u u2 m arr ivt ivd :: r) a =
  steps_chain d p arr dep false r (sums_unboard (sums_board a first wait) ivt).
Proof.
  intros d p prev bdep first t s s2 n dep wait t' u u2 m arr ivt ivd r a H1 H2.
  change (steps_chain d p prev bdep first
            (SBoard t s s2 n dep wait :: SUnboard t' u u2 m arr ivt ivd :: r) a)
    with (if wait =? dep - prev
          then (if ivt =? arr - dep
                then steps_chain d p arr dep false r (sums_unboard (sums_board a first wait) ivt)
                else None)
          else None).
  apply Z.eqb_eq in H1. apply Z.eqb_eq in H2. rewrite H1, H2. reflexivity.
Qed.

(* ---------------------------------------------------------------------------------------------- *)
(* [emit_step], one kind of journey step at a time                                                 *)

Ltac split_all := repeat match goal with |- _ /\ _ => split end.

Lemma emit_access : forall d p bd count j nxt,
  is_walk j = true ->
  let st' := emit_step d p bd count emit_init 0 j nxt in
  let w := js_walk j in
  e_steps st' = [SWalk 0 w (js_dist j) bd (bd + w) (bd + w + next_minw p nxt)] /\
  e_tivt st' = 0 /\ e_twalk st' = w /\ e_twait st' = 0 /\ e_ttrwalk st' = 0 /\ e_ttrwait st' = 0 /\
  e_tarr st' = bd + w /\ e_ntr st' = -1 /\ e_accw st' = w /\ e_accwait st' = -1.
Proof.
  intros d p bd count j nxt Hw st' w. subst st' w.
  destruct (is_walk_inv j Hw) as [Hen _].
  unfold emit_step. rewrite Hen. split_all; reflexivity.
Qed.

Lemma emit_egress : forall d p bd count st i j nxt,
  is_walk j = true -> i <> 0%nat ->
  let st' := emit_step d p bd count st i j nxt in
  let w := js_walk j in
  e_steps st' = e_steps st ++ [SWalk 1 w (js_dist j) (e_arr st) (e_arr st + w) (-1)] /\
  e_tivt st' = e_tivt st /\ e_twalk st' = e_twalk st + w /\ e_twait st' = e_twait st /\
  e_ttrwalk st' = e_ttrwalk st /\ e_ttrwait st' = e_ttrwait st /\
  e_arr st' = e_arr st + w /\ e_ntr st' = e_ntr st /\ e_accw st' = e_accw st /\
  e_egrw st' = w /\ e_accwait st' = e_accwait st.
Proof.
  intros d p bd count st i j nxt Hw Hi st' w. subst st' w.
  destruct (is_walk_inv j Hw) as [Hen _].
  apply Nat.eqb_neq in Hi.
  unfold emit_step. rewrite Hen, Hi. split_all; reflexivity.
Qed.

Lemma emit_leg : forall d p bd count st i j nxt en ex t,
  js_enter j = Some en -> js_exit j = Some ex -> js_trip j = Some t ->
  let st' := emit_step d p bd count st i j nxt in
  let nl := Nat.ltb (S (S i)) count in
  let wait := c_dep en - e_tarr st in
  let ivt := c_arr ex - c_dep en in
  let w := js_walk j in
  exists ivd,
    e_steps st' = e_steps st ++
       SBoard t (c_seq en) (c_seq en) (c_from en) (c_dep en) wait ::
       SUnboard t (c_seq ex) (S (c_seq ex)) (c_to ex) (c_arr ex) ivt ivd ::
       (if nl then [SWalk 2 w (js_dist j) (c_arr ex) (c_arr ex + w) (c_arr ex + w + next_minw p nxt)]
        else []) /\
    e_tivt st' = e_tivt st + ivt /\
    e_twait st' = e_twait st + wait /\
    e_accwait st' = (if Nat.eqb i 1 then wait else e_accwait st) /\
    e_ttrwait st' = (if Nat.eqb i 1 then e_ttrwait st else e_ttrwait st + wait) /\
    e_arr st' = c_arr ex /\
    e_tarr st' = c_arr ex + w /\
    e_accw st' = e_accw st /\
    e_egrw st' = e_egrw st /\
    (is_transferable_trip d t = false ->
       e_twalk st' = e_twalk st + (if nl then w else 0) /\
       e_ttrwalk st' = e_ttrwalk st + (if nl then w else 0) /\
       e_ntr st' = e_ntr st + 1).
Proof.
  intros d p bd count st i j nxt en ex t Hen Hex Htr st' nl wait ivt w.
  subst st' nl wait ivt w.
  unfold emit_step. rewrite Hen, Hex, Htr. cbv beta iota zeta.
  eexists.
  destruct (Nat.ltb (S (S i)) count);
    cbn [e_steps e_tivt e_twait e_accwait e_ttrwait e_arr e_tarr e_accw e_egrw e_twalk e_ttrwalk e_ntr];
    split_all; try reflexivity.
  - rewrite <- app_assoc. reflexivity.
  - intros Htf. rewrite Htf, !andb_false_r. split_all; reflexivity.
  - intros Htf. rewrite Htf, !andb_false_r. split_all; try reflexivity; lia.
Qed.

(* ---------------------------------------------------------------------------------------------- *)
(* the loop invariant                                                                              *)

(* what the rest of the loop (from state [st] to the final state [st'], emitting [news]) adds to
   the running totals is what the checker (from accumulator [a] to [a'] over [news]) adds *)
Definition delta_ok (d : data) (first : bool) (nlegs : nat) (prev : Z) (news : list step)
           (st st' : emit_st) (a a' : sums) : Prop :=
  e_tivt st' - e_tivt st = sm_ivt a' - sm_ivt a /\
  e_twait st' - e_twait st = sm_wait a' - sm_wait a /\
  e_ttrwait st' - e_ttrwait st = sm_trwait a' - sm_trwait a /\
  e_arr st' - prev = (sm_walk a' - sm_walk a) + (sm_ivt a' - sm_ivt a) + (sm_wait a' - sm_wait a) /\
  e_accw st' = e_accw st /\ sm_acc a' = sm_acc a /\
  e_egrw st' = sm_egr a' /\
  (if first
   then (nlegs <> 0%nat ->
         e_accwait st' = sm_fwait a' /\
         e_twait st' - e_twait st = e_accwait st' + (e_ttrwait st' - e_ttrwait st))
   else e_accwait st' = e_accwait st /\ sm_fwait a' = sm_fwait a /\
        e_twait st' - e_twait st = e_ttrwait st' - e_ttrwait st) /\
  (existsb (tr_step d) news = false ->
     e_twalk st' - e_twalk st = sm_walk a' - sm_walk a /\
     e_ttrwalk st' - e_ttrwalk st = sm_trwalk a' - sm_trwalk a /\
     e_ntr st' - e_ntr st = sm_boards a' - sm_boards a /\
     sm_boards a' - sm_boards a = Z.of_nat nlegs).

Definition clock_of (legs : list jstep) (st : emit_st) : Z :=
  match legs with [] => e_arr st | _ => e_tarr st end.

Lemma legs_loop : forall d p bd count e, is_walk e = true ->
  forall legs st i,
    forallb (leg_in_data d) legs = true ->
    (1 <= i)%nat -> (i + length legs + 1 = count)%nat ->
    exists news,
      e_steps (emit_loop d p bd count st i (legs ++ [e])) = e_steps st ++ news /\
      news <> [] /\
      nextw_of d p news = next_minw p (hd_error (legs ++ [e])) /\
      last_arr_of news = e_arr (emit_loop d p bd count st i (legs ++ [e])) /\
      forall bdep a,
        exists a',
          steps_chain d p (clock_of legs st) bdep (Nat.eqb i 1) news a = Some a' /\
          delta_ok d (Nat.eqb i 1) (length legs) (clock_of legs st) news
                   st (emit_loop d p bd count st i (legs ++ [e])) a a'.
Proof.
  intros d p bd count e He.
  induction legs as [|j legs IH]; intros st i Hall Hi Hcnt.
  - (* only the egress walk is left *)
    cbn [app emit_loop hd_error clock_of length].
    destruct (emit_egress d p bd count st i e None He ltac:(lia))
      as (Hs & Htivt & Htwalk & Htwait & Httrwalk & Httrwait & Harr & Hntr & Haccw & Hegrw & Haccwait).
    remember (emit_step d p bd count st i e None) as st' eqn:Est'.
    eexists. split; [exact Hs|]. split; [discriminate|]. split; [|split].
    + cbn [nextw_of next_minw]. destruct (is_walk_inv e He) as [Hen _]. rewrite Hen. reflexivity.
    + unfold last_arr_of. cbn [map last]. symmetry. exact Harr.
    + intros bdep a. eexists. split.
      * rewrite chain_walk; [reflexivity|reflexivity|reflexivity|intro H; exfalso; apply H; reflexivity].
      * unfold delta_ok.
        cbn [sums_walk sm_walk sm_trwalk sm_ivt sm_wait sm_trwait sm_boards sm_acc sm_egr sm_fwait
             Nat.eqb existsb tr_step orb].
        destruct (Nat.eqb i 1); split_all; try lia; intros; split_all; try lia; try congruence.
  - (* a leg *)
    cbn [forallb] in Hall. apply andb_true_iff in Hall. destruct Hall as [Hj Hall].
    destruct (leg_in_data_inv d j Hj) as (en & ex & t & b & Hen & Hex & Htr & Hfc & Hmw).
    cbn [app emit_loop]. cbn [length] in Hcnt.
    remember (hd_error (legs ++ [e])) as nxt eqn:Enxt.
    destruct (emit_leg d p bd count st i j nxt en ex t Hen Hex Htr)
      as (ivd & Hs & Htivt & Htwait & Haccwait & Httrwait & Harr & Htarr & Haccw & Hegrw & Hntf).
    remember (emit_step d p bd count st i j nxt) as st1 eqn:Est1.
    destruct (IH st1 (S i) Hall ltac:(lia) ltac:(lia)) as (news1 & Hs1 & Hne1 & Hnw1 & Hla1 & Hch1).
    remember (emit_loop d p bd count st1 (S i) (legs ++ [e])) as st' eqn:Est'.
    assert (Hi1 : Nat.eqb (S i) 1 = false) by (apply Nat.eqb_neq; lia).
    rewrite Hi1 in Hch1.
    assert (Hminw : nextw_of d p
              (SBoard t (c_seq en) (c_seq en) (c_from en) (c_dep en) (c_dep en - e_tarr st) :: [])
            = next_minw p (Some j)).
    { cbn [nextw_of next_minw]. rewrite Hfc, Hen. apply minw_eff_ext. exact Hmw. }
    destruct legs as [|j2 legs2].
    + (* the last leg: no transfer walk *)
      assert (Hnl : Nat.ltb (S (S i)) count = false)
        by (apply Nat.ltb_ge; cbn [length] in Hcnt; lia).
      rewrite Hnl in Hs, Hntf. cbn [clock_of length] in *.
      exists (SBoard t (c_seq en) (c_seq en) (c_from en) (c_dep en) (c_dep en - e_tarr st) ::
              SUnboard t (c_seq ex) (S (c_seq ex)) (c_to ex) (c_arr ex) (c_arr ex - c_dep en) ivd ::
              news1).
      split; [rewrite Hs1, Hs, <- app_assoc; reflexivity|].
      split; [discriminate|]. split; [exact Hminw|]. split.
      * rewrite last_arr_cons by discriminate. rewrite last_arr_cons by exact Hne1. exact Hla1.
      * intros bdep a.
        destruct (Hch1 (c_dep en)
                    (sums_unboard (sums_board a (Nat.eqb i 1) (c_dep en - e_tarr st))
                                  (c_arr ex - c_dep en))) as (a' & Hc & Hd).
        exists a'. split.
        -- rewrite chain_ride by reflexivity. rewrite Harr in Hc. exact Hc.
        -- unfold delta_ok in *.
           cbn [sums_board sums_unboard sm_walk sm_trwalk sm_ivt sm_wait sm_trwait sm_boards
                sm_acc sm_egr sm_fwait existsb tr_step orb] in *.
           destruct Hd as (D1 & D2 & D3 & D4 & D5 & D6 & D7 & D8 & D9).
           destruct D8 as (D8a & D8b & D8c).
           destruct (Nat.eqb i 1); split_all; try lia;
             try (intros _; split; lia);
             (intros Hx; apply orb_false_iff in Hx; destruct Hx as [Htf Hx];
              destruct (Hntf Htf) as (N1 & N2 & N3); destruct (D9 Hx) as (E1 & E2 & E3 & E4);
              split_all; lia).
    + (* a leg followed by a transfer walk *)
      assert (Hnl : Nat.ltb (S (S i)) count = true)
        by (apply Nat.ltb_lt; cbn [length] in Hcnt; lia).
      rewrite Hnl in Hs, Hntf. cbn [clock_of] in *.
      exists (SBoard t (c_seq en) (c_seq en) (c_from en) (c_dep en) (c_dep en - e_tarr st) ::
              SUnboard t (c_seq ex) (S (c_seq ex)) (c_to ex) (c_arr ex) (c_arr ex - c_dep en) ivd ::
              SWalk 2 (js_walk j) (js_dist j) (c_arr ex) (c_arr ex + js_walk j)
                    (c_arr ex + js_walk j + next_minw p nxt) ::
              news1).
      split; [rewrite Hs1, Hs, <- app_assoc; reflexivity|].
      split; [discriminate|]. split; [exact Hminw|]. split.
      * rewrite last_arr_cons by discriminate. rewrite last_arr_cons by discriminate.
        rewrite last_arr_cons by exact Hne1. exact Hla1.
      * intros bdep a.
        destruct (Hch1 (c_dep en)
                    (sums_walk (sums_unboard (sums_board a (Nat.eqb i 1) (c_dep en - e_tarr st))
                                             (c_arr ex - c_dep en)) 2 (js_walk j)))
          as (a' & Hc & Hd).
        exists a'. split.
        -- rewrite chain_ride by reflexivity.
           rewrite chain_walk; [|reflexivity|reflexivity|intros _; rewrite Hnw1, Enxt; reflexivity].
           rewrite Htarr in Hc. exact Hc.
        -- unfold delta_ok in *.
           cbn [sums_board sums_unboard sums_walk sm_walk sm_trwalk sm_ivt sm_wait sm_trwait sm_boards
                sm_acc sm_egr sm_fwait existsb tr_step orb Nat.eqb length] in *.
           destruct Hd as (D1 & D2 & D3 & D4 & D5 & D6 & D7 & D8 & D9).
           destruct D8 as (D8a & D8b & D8c).
           destruct (Nat.eqb i 1); split_all; try lia;
             try (intros _; split; lia);
             (intros Hx; apply orb_false_iff in Hx; destruct Hx as [Htf Hx];
              destruct (Hntf Htf) as (N1 & N2 & N3); destruct (D9 Hx) as (E1 & E2 & E3 & E4);
              split_all; lia).
Qed.

(* ---------------------------------------------------------------------------------------------- *)
(* C06                                                                                             *)

Lemma shape_ok_inv : forall d js, shape_ok d js = true ->
  exists a legs e, js = a :: legs ++ [e] /\ is_walk a = true /\ is_walk e = true /\
                   legs <> [] /\ forallb (leg_in_data d) legs = true.
Proof.
  intros d js H. unfold shape_ok in H.
  destruct js as [|a rest]; [discriminate|].
  apply andb_true_iff in H. destruct H as [Ha H].
  destruct (rev rest) as [|e lr] eqn:Hrev; [discriminate|].
  apply andb_true_iff in H. destruct H as [H Hall].
  apply andb_true_iff in H. destruct H as [He Hne].
  exists a, (rev lr), e.
  split; [|split; [exact Ha|split; [exact He|split]]].
  - f_equal. rewrite <- (rev_involutive rest), Hrev. reflexivity.
  - destruct lr as [|x lr]; [discriminate|]. cbn [rev]. intro H.
    apply app_eq_nil in H. destruct H as [_ H]. discriminate.
  - rewrite forallb_forall in *. intros x Hx. apply Hall. apply in_rev. exact Hx.
Qed.

Theorem C06_totals : forall (d : data) (p : params) (bestdep : Z) (js : list jstep),
  shape_ok d js = true -> totals_ok_b d p (emit d p bestdep js) = true.
Proof.
  intros d p bd js Hshape.
  destruct (shape_ok_inv d js Hshape) as (a & legs & e & Ejs & Ha & He & Hne & Hall).
  subst js. unfold emit.
  remember (length (a :: legs ++ [e])) as count eqn:Ecount.
  assert (Hcount : (1 + length legs + 1 = count)%nat).
  { subst count. cbn [length]. rewrite app_length. cbn [length]. lia. }
  cbn [emit_loop].
  destruct (emit_access d p bd count a (hd_error (legs ++ [e])) Ha)
    as (Hs0 & Ativt & Atwalk & Atwait & Attrwalk & Attrwait & Atarr & Antr & Aaccw & Aaccwait).
  remember (emit_step d p bd count emit_init 0 a (hd_error (legs ++ [e]))) as st1 eqn:Est1.
  destruct (legs_loop d p bd count e He legs st1 1%nat Hall ltac:(lia) Hcount)
    as (news & Hs & Hnews & Hnw & Hla & Hch).
  remember (emit_loop d p bd count st1 1 (legs ++ [e])) as st' eqn:Est'.
  cbv zeta.
  set (a0 := {| sm_walk := 0; sm_trwalk := 0; sm_ivt := 0; sm_wait := 0; sm_trwait := 0;
                sm_boards := 0; sm_acc := 0; sm_egr := 0; sm_fwait := 0 |}).
  destruct (Hch 0 (sums_walk a0 0 (js_walk a))) as (a' & Hc & Hd).
  destruct legs as [|j1 legs1]; [congruence|].
  cbn [clock_of Nat.eqb length] in *.
  unfold totals_ok_b, rides_transferable.
  cbn [rt_dep rt_arr rt_ttt rt_tdist rt_tivt rt_tivd rt_tnt rt_tntd rt_nboard rt_ntransf rt_trwalk
       rt_trdist rt_acc rt_accd rt_egr rt_egrd rt_trwait rt_fwait rt_twait rt_steps].
  fold a0.
  change (match last (map Some (e_steps st')) None with
          | Some (SWalk _ _ _ _ arr _) => arr
          | _ => -1
          end) with (last_arr_of (e_steps st')).
  change (existsb (fun s : step => match s with
                                   | SBoard t _ _ _ _ _ => is_transferable_trip d t
                                   | _ => false
                                   end) (e_steps st'))
    with (existsb (tr_step d) (e_steps st')).
  rewrite Hs, Hs0. cbn [app].
  rewrite chain_walk; [|reflexivity|reflexivity|intros _; rewrite Hnw; reflexivity].
  rewrite <- Atarr, Hc.
  rewrite last_arr_cons by exact Hnews. rewrite Hla.
  cbn [existsb tr_step orb].
  unfold delta_ok in Hd.
  cbn [sums_walk a0 sm_walk sm_trwalk sm_ivt sm_wait sm_trwait sm_boards sm_acc sm_egr sm_fwait Nat.eqb] in Hd.
  destruct Hd as (D1 & D2 & D3 & D4 & D5 & D6 & D7 & D8 & D9).
  destruct (D8 ltac:(discriminate)) as (D8a & D8b).
  repeat (apply andb_true_iff; split); try (apply Z.eqb_eq; lia).
  destruct (existsb (tr_step d) news) eqn:Hx; [reflexivity|].
  destruct (D9 eq_refl) as (E1 & E2 & E3 & E4).
  repeat (apply andb_true_iff; split); try (apply Z.eqb_eq; lia).
  destruct (e_ntr st' =? -1) eqn:En; apply Z.eqb_eq; [apply Z.eqb_eq in En|]; lia.
Qed.

Print Assumptions C06_totals.
