(* ResetTie.v — the model's reset (Scan.mk_calc for the tables, Calc.access_reason for the NO_ACCESS_* reasons, as
   calc_single / calc_allnodes use them) is what the interpreter of Reset.v computes on the statement tree tools/gen_loops.py
   reads from Calculator::reset / resetAccessFootpaths / resetEgressFootpaths AS THEY ARE NOW (gen/Reset.v).

   `reset_tie`: for a request that is not an odTrip request, whose access lookup (from the origin, within the request's
   maximum ACCESS walking time) returns `acc` and whose egress lookup (from the destination, within the maximum EGRESS
   walking time) returns `egr` - or, when the paths are kept (resetAccessPaths = false), whose kept paths are `acc` and
   `egr` -, reset() throws the reason Calc.access_reason gives, and otherwise leaves the Calculator in the state
   Scan.mk_calc describes (`calc_of`).  The tables of an end that the request does not have are not touched by reset();
   the model gives them their initial values: `absent_clean`. *)
From Coq Require Import List ZArith Bool Lia ZifyBool.
From TrV Require Import Scan Journey Calc.
Require Import TrV.Reset.
Require TrV.gen.Reset.
Import ListNotations.
Local Open Scope Z_scope.
Local Open Scope bool_scope.

Module GZ := TrV.gen.Reset.

Ltac zeval :=
  lazy beta iota zeta delta
    [zrun set_zvar set_zflag get_zrows set_zrows get_ztab set_ztab get_zsteps set_zsteps
     zs_dep zs_arr zs_minacc zs_maxacc zs_minegr zs_maxegr zs_t zs_dist zs_accfp zs_egrfp zs_nacc zs_negr zs_tau zs_taur
     zs_fsteps zs_rsteps zs_ov zs_accok zs_egrok zs_filters zs_row
     z_dep z_arr z_minacc z_maxacc z_minegr z_maxegr z_t z_dist z_accfp z_egrfp z_nacc z_negr z_tau z_taur
     z_fsteps z_rsteps z_ov z_accok z_egrok z_filters z_row].

Definition row_run (e : zenv) (body : zskel) : zmach -> outcome zmach := fun mm => zrun e body zmach (fun m2 => Ok m2) mm.

(* one row of the access loop / of the egress loop, as the model's folds do it *)
Definition acc_step (m : zmach) (r : fprow) : zmach :=
  {| z_dep := z_dep m; z_arr := z_arr m;
     z_minacc := if fp_time r <? z_minacc m then fp_time r else z_minacc m;
     z_maxacc := if fp_time r >? z_maxacc m then fp_time r else z_maxacc m;
     z_minegr := z_minegr m; z_maxegr := z_maxegr m; z_t := fp_time r; z_dist := fp_dist r;
     z_accfp := z_accfp m; z_egrfp := z_egrfp m;
     z_nacc := z_nacc m ++ [{| fp_node := fp_node r; fp_time := fp_time r; fp_dist := fp_dist r |}]; z_negr := z_negr m;
     z_tau := upd (z_tau m) (fp_node r) (z_dep m + fp_time r); z_taur := z_taur m;
     z_fsteps := upd (z_fsteps m) (fp_node r) (x_walk (fp_time r) false (fp_dist r)); z_rsteps := z_rsteps m;
     z_ov := z_ov m; z_accok := z_accok m; z_egrok := z_egrok m; z_filters := z_filters m; z_row := r |}.
Definition egr_step (m : zmach) (r : fprow) : zmach :=
  {| z_dep := z_dep m; z_arr := z_arr m; z_minacc := z_minacc m; z_maxacc := z_maxacc m;
     z_minegr := if fp_time r <? z_minegr m then fp_time r else z_minegr m;
     z_maxegr := if fp_time r >? z_maxegr m then fp_time r else z_maxegr m;
     z_t := fp_time r; z_dist := fp_dist r;
     z_accfp := z_accfp m; z_egrfp := z_egrfp m; z_nacc := z_nacc m;
     z_negr := z_negr m ++ [{| fp_node := fp_node r; fp_time := fp_time r; fp_dist := fp_dist r |}];
     z_tau := z_tau m; z_taur := upd (z_taur m) (fp_node r) (z_arr m - fp_time r);
     z_fsteps := z_fsteps m; z_rsteps := upd (z_rsteps m) (fp_node r) (x_walk (fp_time r) false (fp_dist r));
     z_ov := z_ov m; z_accok := z_accok m; z_egrok := z_egrok m; z_filters := z_filters m; z_row := r |}.

Lemma acc_row_tie e m r : row_run e GZ.gen_reset_access_row (zs_row r m) = Ok (acc_step m r).
Proof.
  destruct m as [dp ar mna mxa mne mxe tt ds afp efp nac neg ta tr fs rs ov aok eok fil rw]. unfold row_run, GZ.gen_reset_access_row, acc_step. zeval.
  destruct (fp_time r <? mna); destruct (fp_time r >? mxa); reflexivity.
Qed.
Lemma egr_row_tie e m r : row_run e GZ.gen_reset_egress_row (zs_row r m) = Ok (egr_step m r).
Proof.
  destruct m as [dp ar mna mxa mne mxe tt ds afp efp nac neg ta tr fs rs ov aok eok fil rw]. unfold row_run, GZ.gen_reset_egress_row, egr_step. zeval.
  destruct (fp_time r >? mxe); destruct (fp_time r <? mne); reflexivity.
Qed.

Lemma zrow_step_ok f m r : zrow_step f (Ok m) r = f (zs_row r m).
Proof. reflexivity. Qed.

Lemma acc_fold_tie e : forall rows m,
  fold_left (zrow_step (row_run e GZ.gen_reset_access_row)) rows (Ok m) = Ok (fold_left acc_step rows m).
Proof.
  generalize (row_run e GZ.gen_reset_access_row) (acc_row_tie e). intros f Hf.
  induction rows as [|r rows IH]; intros m; cbn [fold_left]; [reflexivity|]. rewrite zrow_step_ok, Hf. apply IH.
Qed.
Lemma egr_fold_tie e : forall rows m,
  fold_left (zrow_step (row_run e GZ.gen_reset_egress_row)) rows (Ok m) = Ok (fold_left egr_step rows m).
Proof.
  generalize (row_run e GZ.gen_reset_egress_row) (egr_row_tie e). intros f Hf.
  induction rows as [|r rows IH]; intros m; cbn [fold_left]; [reflexivity|]. rewrite zrow_step_ok, Hf. apply IH.
Qed.

Definition eta_row (r : fprow) : fprow := {| fp_node := fp_node r; fp_time := fp_time r; fp_dist := fp_dist r |}.
Lemma map_eta_row rows : map eta_row rows = rows.
Proof. induction rows as [|r rows IH]; [reflexivity|]. cbn [map]. rewrite IH. destruct r. reflexivity. Qed.

(* what the access loop leaves: the model's folds on the access side, nothing else touched *)
Lemma acc_fold_spec : forall rows m, let m' := fold_left acc_step rows m in
  z_dep m' = z_dep m /\ z_arr m' = z_arr m /\
  z_minacc m' = fold_left (fun a r => if fp_time r <? a then fp_time r else a) rows (z_minacc m) /\
  z_maxacc m' = fold_left (fun a r => if fp_time r >? a then fp_time r else a) rows (z_maxacc m) /\
  z_minegr m' = z_minegr m /\ z_maxegr m' = z_maxegr m /\ z_accfp m' = z_accfp m /\ z_egrfp m' = z_egrfp m /\
  z_nacc m' = z_nacc m ++ map eta_row rows /\ z_negr m' = z_negr m /\
  z_tau m' = fold_left (fun t r => upd t (fp_node r) (z_dep m + fp_time r)) rows (z_tau m) /\ z_taur m' = z_taur m /\
  z_fsteps m' = fold_left (fun t r => upd t (fp_node r) (walk_step r)) rows (z_fsteps m) /\ z_rsteps m' = z_rsteps m /\
  z_ov m' = z_ov m /\ z_accok m' = z_accok m /\ z_egrok m' = z_egrok m /\ z_filters m' = z_filters m.
Proof.
  induction rows as [|r rows IH]; intros m; cbn [fold_left map].
  - rewrite app_nil_r. repeat split.
  - specialize (IH (acc_step m r)). cbv zeta in IH.
    destruct IH as (H1 & H2 & H3 & H4 & H5 & H6 & H7 & H8 & H9 & H10 & H11 & H12 & H13 & H14 & H15 & H16 & H17 & H18).
    cbv zeta. rewrite H1, H2, H3, H4, H5, H6, H7, H8, H9, H10, H11, H12, H13, H14, H15, H16, H17, H18.
    destruct m as [dp ar mna mxa mne mxe tt ds afp efp nac neg ta tr fs rs ov aok eok fil rw]. cbn [acc_step z_dep z_arr z_minacc z_maxacc z_minegr z_maxegr z_accfp z_egrfp z_nacc z_negr z_tau z_taur
                     z_fsteps z_rsteps z_ov z_accok z_egrok z_filters].
    rewrite <- app_assoc. repeat split.
Qed.
Lemma egr_fold_spec : forall rows m, let m' := fold_left egr_step rows m in
  z_dep m' = z_dep m /\ z_arr m' = z_arr m /\ z_minacc m' = z_minacc m /\ z_maxacc m' = z_maxacc m /\
  z_minegr m' = fold_left (fun a r => if fp_time r <? a then fp_time r else a) rows (z_minegr m) /\
  z_maxegr m' = fold_left (fun a r => if fp_time r >? a then fp_time r else a) rows (z_maxegr m) /\
  z_accfp m' = z_accfp m /\ z_egrfp m' = z_egrfp m /\
  z_nacc m' = z_nacc m /\ z_negr m' = z_negr m ++ map eta_row rows /\
  z_tau m' = z_tau m /\ z_taur m' = fold_left (fun t r => upd t (fp_node r) (z_arr m - fp_time r)) rows (z_taur m) /\
  z_fsteps m' = z_fsteps m /\ z_rsteps m' = fold_left (fun t r => upd t (fp_node r) (walk_step r)) rows (z_rsteps m) /\
  z_ov m' = z_ov m /\ z_accok m' = z_accok m /\ z_egrok m' = z_egrok m /\ z_filters m' = z_filters m.
Proof.
  induction rows as [|r rows IH]; intros m; cbn [fold_left map].
  - rewrite app_nil_r. repeat split.
  - specialize (IH (egr_step m r)). cbv zeta in IH.
    destruct IH as (H1 & H2 & H3 & H4 & H5 & H6 & H7 & H8 & H9 & H10 & H11 & H12 & H13 & H14 & H15 & H16 & H17 & H18).
    cbv zeta. rewrite H1, H2, H3, H4, H5, H6, H7, H8, H9, H10, H11, H12, H13, H14, H15, H16, H17, H18.
    destruct m as [dp ar mna mxa mne mxe tt ds afp efp nac neg ta tr fs rs ov aok eok fil rw]. cbn [egr_step z_dep z_arr z_minacc z_maxacc z_minegr z_maxegr z_accfp z_egrfp z_nacc z_negr z_tau z_taur
                     z_fsteps z_rsteps z_ov z_accok z_egrok z_filters].
    rewrite <- app_assoc. repeat split.
Qed.

(* the Calculator after reset(), as the part of it the scans read (Scan.calc) *)
Definition calc_of (d : data) (p : params) (cs : connset) (m : zmach) : calc :=
  {| k_dep := z_dep m; k_arr := z_arr m; k_minAcc := z_minacc m; k_maxAcc := z_maxacc m;
     k_minEgr := z_minegr m; k_maxEgr := z_maxegr m; k_accfp := z_nacc m; k_egrfp := z_negr m;
     k_tau := z_tau m; k_taur := z_taur m; k_fsteps := z_fsteps m; k_rsteps := z_rsteps m; k_ov := z_ov m;
     k_disabled := disabled_of d p cs; k_set := cs |}.

(* reset() does not touch nodesAccess / nodesTentativeTime when the request has no origin (nodesEgress /
   nodesReverseTentativeTime when it has no destination); the model gives them their initial values *)
Definition absent_clean (e : zenv) (m : zmach) : Prop :=
  (ze_origin e = false -> z_nacc m = [] /\ z_tau m = (fun _ => MAX_INT)) /\
  (ze_dest e = false -> z_negr m = [] /\ z_taur m = (fun _ => -1)).

(* what the lookups return, or what was kept *)
Definition rows_are (e : zenv) (m : zmach) (acc egr : list fprow) : Prop :=
  if ze_fresh e
  then (ze_origin e = true -> ze_lookup e true (q_maxacc (ze_p e)) = acc) /\
       (ze_dest e = true -> ze_lookup e false (q_maxegr (ze_p e)) = egr)
  else z_accfp m = acc /\ z_egrfp m = egr.

Definition reset_acc_ok (e : zenv) (acc : list fprow) : bool := negb (ze_origin e && ze_fresh e) || nonempty acc.
Definition reset_egr_ok (e : zenv) (egr : list fprow) : bool := negb (ze_dest e && ze_fresh e) || nonempty egr.

Tactic Notation "zfields" "in" hyp(H) :=
  cbn [z_dep z_arr z_minacc z_maxacc z_minegr z_maxegr z_t z_dist z_accfp z_egrfp z_nacc z_negr z_tau z_taur
       z_fsteps z_rsteps z_ov z_accok z_egrok z_filters z_row] in H.

(* the interpreter, statement by statement *)
Section ZrunEq.
  Variables (e : zenv) (R : Type) (kont : zmach -> outcome R) (m : zmach).
  Lemma zrun_ZSetZ x f k : zrun e (ZSetZ x f k) R kont m = zrun e k R kont (set_zvar x (f e m) m). Proof. reflexivity. Qed.
  Lemma zrun_ZSetFlag x f k : zrun e (ZSetFlag x f k) R kont m = zrun e k R kont (set_zflag x (f e m) m). Proof. reflexivity. Qed.
  Lemma zrun_ZSetRows x f k : zrun e (ZSetRows x f k) R kont m = zrun e k R kont (set_zrows x (f e m) m). Proof. reflexivity. Qed.
  Lemma zrun_ZAssignTable x f k : zrun e (ZAssignTable x f k) R kont m = zrun e k R kont (set_ztab x (fun _ => f e m) m). Proof. reflexivity. Qed.
  Lemma zrun_ZAssignSteps x k : zrun e (ZAssignSteps x k) R kont m = zrun e k R kont (set_zsteps x (fun _ => js_default) m). Proof. reflexivity. Qed.
  Lemma zrun_ZResetOverlay k : zrun e (ZResetOverlay k) R kont m = zrun e k R kont (zs_ov (fun _ => tqd_default) m). Proof. reflexivity. Qed.
  Lemma zrun_ZResetFilters k : zrun e (ZResetFilters k) R kont m = zrun e k R kont (zs_filters true m). Proof. reflexivity. Qed.
  Lemma zrun_ZUnmodelled k : zrun e (ZUnmodelled k) R kont m = zrun e k R kont m. Proof. reflexivity. Qed.
  Lemma zrun_ZIf g th el k : zrun e (ZIf g th el k) R kont m =
    if g e m then zrun e th R (zrun e k R kont) m else zrun e el R (zrun e k R kont) m. Proof. reflexivity. Qed.
  Lemma zrun_ZForRows x body k : zrun e (ZForRows x body k) R kont m =
    match fold_left (zrow_step (row_run e body)) (get_zrows x m) (Ok m) with
    | Ok m' => zrun e k R kont m'
    | o => zpass o
    end. Proof. reflexivity. Qed.
  Lemma zrun_ZThrow r : zrun e (ZThrow r) R kont m = NoRouting r. Proof. reflexivity. Qed.
  Lemma zrun_ZDone : zrun e ZDone R kont m = kont m. Proof. reflexivity. Qed.
End ZrunEq.

Ltac zstep :=
  repeat first [rewrite zrun_ZSetZ | rewrite zrun_ZSetFlag | rewrite zrun_ZSetRows | rewrite zrun_ZAssignTable
               | rewrite zrun_ZAssignSteps | rewrite zrun_ZResetOverlay | rewrite zrun_ZResetFilters | rewrite zrun_ZUnmodelled
               | rewrite zrun_ZThrow | rewrite zrun_ZDone].
(* machines, without the interpreter *)
Ltac zcbn :=
  cbn [set_zvar set_zflag get_zrows set_zrows get_ztab set_ztab get_zsteps set_zsteps
       zs_dep zs_arr zs_minacc zs_maxacc zs_minegr zs_maxegr zs_t zs_dist zs_accfp zs_egrfp zs_nacc zs_negr zs_tau zs_taur
       zs_fsteps zs_rsteps zs_ov zs_accok zs_egrok zs_filters zs_row
       z_dep z_arr z_minacc z_maxacc z_minegr z_maxegr z_t z_dist z_accfp z_egrfp z_nacc z_negr z_tau z_taur
       z_fsteps z_rsteps z_ov z_accok z_egrok z_filters z_row].

(* replaces the machine a row loop leaves by its fields, as the `spec` lemma gives them *)
Ltac open_fold tie spec step :=
  rewrite zrun_ZForRows; zcbn; rewrite tie;
  match goal with |- context [fold_left step ?rows ?m1] =>
    let S := fresh "S" in
    pose proof (spec rows m1) as S; cbv zeta in S;
    destruct (fold_left step rows m1) as [? ? ? ? ? ? ? ? ? ? ? ? ? ? ? ? ? ? ? ? ?];
    zfields in S;
    destruct S as (-> & -> & -> & -> & -> & -> & -> & -> & -> & -> & -> & -> & -> & -> & -> & -> & -> & ->)
  end.

Theorem reset_tie : forall d cs e m0 acc egr,
  ze_odtrip e = false -> rows_are e m0 acc egr -> absent_clean e m0 ->
  match run_reset GZ.gen_reset_skel e m0 with
  | Ok m' => access_reason (reset_acc_ok e acc) (reset_egr_ok e egr) = None /\
             calc_of d (ze_p e) cs m' = mk_calc d (ze_p e) cs acc egr (ze_origin e) (ze_dest e)
  | NoRouting r => access_reason (reset_acc_ok e acc) (reset_egr_ok e egr) = Some r
  | _ => False
  end.
Proof.
  intros d cs e m0 acc egr Hod Hrows Hclean.
  unfold rows_are, absent_clean, reset_acc_ok, reset_egr_ok in *.
  destruct m0 as [dp0 ar0 mna0 mxa0 mne0 mxe0 tt0 ds0 afp0 efp0 nac0 neg0 ta0 tr0 fs0 rs0 ov0 aok0 eok0 fil0 rw0].
  zfields in Hrows. zfields in Hclean. destruct Hclean as [Hca Hce].
  unfold run_reset, GZ.gen_reset_skel.
  assert (Hlen0 : (Z.of_nat (length (@nil fprow)) =? 0) = true) by reflexivity.
  assert (Hlen1 : forall (x : fprow) l, (Z.of_nat (length (x :: l)) =? 0) = false) by (intros; cbn [length]; lia).
  destruct (q_fwd (ze_p e)) eqn:Hf; destruct (ze_origin e) eqn:Ho; destruct (ze_dest e) eqn:Hd; destruct (ze_fresh e) eqn:Hfr.
  all: destruct Hrows as [Ha He]; try (specialize (Ha eq_refl)); try (specialize (He eq_refl)).
  all: try (subst afp0); try (subst efp0).
  all: try (destruct (Hca eq_refl) as [-> ->]); try (destruct (Hce eq_refl) as [-> ->]).
  all: destruct acc as [|a0 acc0]; destruct egr as [|e0 egr0].
  all: repeat first
         [ progress zstep
         | rewrite zrun_ZIf; cbv beta; zcbn; rewrite ?Hf, ?Ho, ?Hd, ?Hfr, ?Hod, ?Ha, ?He, ?Hlen0, ?Hlen1; cbn [andb negb orb]; cbv iota
         | open_fold acc_fold_tie acc_fold_spec acc_step
         | open_fold egr_fold_tie egr_fold_spec egr_step ].
  all: try reflexivity.
  all: destruct (ze_dofilters e); zstep.
  all: (split; [reflexivity|]).
  all: unfold calc_of, mk_calc, min_time, max_time, seed_tau, seed_taur, seed_steps; zcbn; rewrite ?Hf, ?map_eta_row; cbn [app];
       reflexivity.
Qed.

(* the NO_ACCESS_* reasons of reset() are Calc.access_reason's, in the same order *)
Corollary reset_reasons_tie : forall e m0 acc egr r,
  ze_odtrip e = false -> rows_are e m0 acc egr -> absent_clean e m0 ->
  (run_reset GZ.gen_reset_skel e m0 = NoRouting r <-> access_reason (reset_acc_ok e acc) (reset_egr_ok e egr) = Some r).
Proof.
  intros e m0 acc egr r H1 H2 H3.
  pose proof (reset_tie {| d_nodes := []; d_fp := []; d_rfp := []; d_lines := []; d_paths := []; d_trips := []; d_scenarios := [] |}
                        (mk_connset [] [] []) e m0 acc egr H1 H2 H3) as H.
  destruct (run_reset GZ.gen_reset_skel e m0) as [m'|r0| | | | | | |]; try contradiction.
  - destruct H as [H _]. rewrite H. split; discriminate.
  - rewrite H. split; intros E; inversion E; reflexivity.
Qed.

(* ... and when it throws none, the Calculator is seeded as Scan.mk_calc says *)
Corollary reset_seeding_tie : forall d cs e m0 acc egr m',
  ze_odtrip e = false -> rows_are e m0 acc egr -> absent_clean e m0 ->
  run_reset GZ.gen_reset_skel e m0 = Ok m' ->
  calc_of d (ze_p e) cs m' = mk_calc d (ze_p e) cs acc egr (ze_origin e) (ze_dest e).
Proof.
  intros d cs e m0 acc egr m' H1 H2 H3 Hr.
  pose proof (reset_tie d cs e m0 acc egr H1 H2 H3) as H. rewrite Hr in H. exact (proj2 H).
Qed.

(* for a route request (both ends present) the reasons are those of Calc.calc_single *)
Corollary reset_reasons_single : forall e m0 acc egr r,
  ze_odtrip e = false -> ze_origin e = true -> ze_dest e = true -> rows_are e m0 acc egr -> absent_clean e m0 ->
  (run_reset GZ.gen_reset_skel e m0 = NoRouting r <->
   access_reason (negb (ze_fresh e) || nonempty acc) (negb (ze_fresh e) || nonempty egr) = Some r).
Proof.
  intros e m0 acc egr r H1 Ho Hd H2 H3. rewrite (reset_reasons_tie e m0 acc egr r H1 H2 H3).
  unfold reset_acc_ok, reset_egr_ok. rewrite Ho, Hd. reflexivity.
Qed.
