(* OsrmProofs.v — C20: handling of the walking router's reply (Osrm.v).
   Whatever the router sends back, a lookup yields rows or an exception (never undefined behaviour) provided
   durations[0] has at most one entry more than stops were asked for; the rows name asked stops in the order
   asked and respect the maximum; the surplus-entry case is undefined behaviour in the model. *)
From Coq Require Import List ZArith Bool Arith Lia Sorting.Sorted.
From TrV Require Import Osrm.
Import ListNotations.
Local Open Scope Z_scope.

(* number of entries of durations[0] in a reply (0 when the shape is different) *)
Definition reply_width (x : exchange) : nat :=
  match x with
  | XStatus true (Some j) =>
      match jget j K_DURATIONS with
      | Some (JArr (JArr l :: _)) => length l
      | _ => 0%nat
      end
  | _ => 0%nat
  end.

(* ---------- the loop ---------- *)

(* durations[0] is not an array: the loop ends at once or throws *)
Lemma osrm_loop_nonarray : forall dur dist asked i n maxt fuel,
  (forall l, dur <> JArr l) ->
  osrm_loop dur dist asked i n maxt fuel = Ok [] \/ osrm_loop dur dist asked i n maxt fuel = Exn 3%nat.
Proof.
  intros dur dist asked i n maxt fuel Hna.
  destruct fuel as [|f]; cbn [osrm_loop]; [left; reflexivity|].
  destruct (Nat.leb n i) eqn:Hle; [left; reflexivity|].
  destruct dur as [|b|t|  |l|fs]; cbn [jidx jfloat_ceil]; try (right; reflexivity).
  exfalso. apply (Hna l). reflexivity.
Qed.

(* with at most |asked| + 1 entries the index into the asked stops is in range *)
Lemma osrm_loop_documented : forall dur dist asked n maxt fuel i,
  (1 <= i)%nat -> (n <= S (length asked))%nat ->
  (exists rows, osrm_loop dur dist asked i n maxt fuel = Ok rows) \/
  (exists t, osrm_loop dur dist asked i n maxt fuel = Exn t).
Proof.
  intros dur dist asked n maxt fuel.
  induction fuel as [|f IH]; intros i Hi Hn; cbn [osrm_loop].
  - left. exists []. reflexivity.
  - destruct (Nat.leb n i) eqn:Hle; [left; exists []; reflexivity|].
    apply Nat.leb_gt in Hle.
    destruct (jidx dur i) as [dv|] eqn:Hdv; [|right; exists 3%nat; reflexivity].
    destruct (jfloat_ceil dv) as [t|] eqn:Ht; [|right; exists 3%nat; reflexivity].
    destruct (t <=? maxt) eqn:Hmax.
    + destruct (jidx dist i) as [xv|] eqn:Hxv; [|right; exists 3%nat; reflexivity].
      destruct (jfloat_ceil xv) as [m|] eqn:Hm; [|right; exists 3%nat; reflexivity].
      destruct (nth_error asked (i - 1)) as [node|] eqn:Hnode.
      * destruct (IH (S i)) as [[rows Hr]|[t' Hr]]; [lia|exact Hn| |].
        -- rewrite Hr. cbn [bind]. left. eexists. reflexivity.
        -- rewrite Hr. cbn [bind]. right. exists t'. reflexivity.
      * exfalso. apply nth_error_None in Hnode. lia.
    + apply IH; [lia|exact Hn].
Qed.

(* what the rows are: entries i-1 .. of asked, increasing, within the maximum *)
Lemma osrm_loop_sound : forall dur dist asked n maxt fuel i rows,
  (1 <= i)%nat ->
  osrm_loop dur dist asked i n maxt fuel = Ok rows ->
  Forall (fun r => fp_time r <= maxt) rows /\
  exists idxs, map fp_node rows = map (fun j => nth j asked 0%nat) idxs /\
               StronglySorted lt idxs /\
               Forall (fun j => (i - 1 <= j < length asked)%nat) idxs.
Proof.
  intros dur dist asked n maxt fuel.
  induction fuel as [|f IH]; intros i rows Hi H; cbn [osrm_loop] in H.
  - inversion H. subst rows. split; [constructor|]. exists []. repeat split; constructor.
  - destruct (Nat.leb n i) eqn:Hle.
    { inversion H. subst rows. split; [constructor|]. exists []. repeat split; constructor. }
    destruct (jidx dur i) as [dv|] eqn:Hdv; [|discriminate H].
    destruct (jfloat_ceil dv) as [t|] eqn:Ht; [|discriminate H].
    destruct (t <=? maxt) eqn:Hmax.
    + destruct (jidx dist i) as [xv|] eqn:Hxv; [|discriminate H].
      destruct (jfloat_ceil xv) as [m|] eqn:Hm; [|discriminate H].
      destruct (nth_error asked (i - 1)) as [node|] eqn:Hnode; [|discriminate H].
      destruct (osrm_loop dur dist asked (S i) n maxt f) as [rest|rr|cc|cc|tt| | |tt| ] eqn:Hrest;
        cbn [bind] in H; try discriminate H.
      inversion H. subst rows. clear H.
      destruct (IH (S i) rest) as [Hall [idxs [Hmap [Hsort Hrange]]]]; [lia|exact Hrest|].
      split.
      * constructor; [cbn [fp_time]; apply Z.leb_le; exact Hmax|exact Hall].
      * exists ((i - 1)%nat :: idxs).
        assert (Hlt : (i - 1 < length asked)%nat).
        { apply nth_error_Some. rewrite Hnode. discriminate. }
        split; [|split].
        -- cbn [map fp_node]. rewrite Hmap. f_equal. symmetry.
           apply nth_error_nth. exact Hnode.
        -- constructor; [exact Hsort|].
           eapply Forall_impl; [|exact Hrange]. intros j Hj. cbn beta in Hj. lia.
        -- constructor; [lia|].
           eapply Forall_impl; [|exact Hrange]. intros j Hj. cbn beta in Hj. lia.
    + destruct (IH (S i) rows) as [Hall [idxs [Hmap [Hsort Hrange]]]]; [lia|exact H|].
      split; [exact Hall|]. exists idxs. split; [exact Hmap|]. split; [exact Hsort|].
      eapply Forall_impl; [|exact Hrange]. intros j Hj. cbn beta in Hj. lia.
Qed.

(* ---------- one lookup ---------- *)

(* C20, reply handling: whatever the router sends back — refused, dropped, truncated, an error status, an empty or
   non-JSON body, a table without durations, null entries, fewer entries than requested — the lookup yields rows or
   an exception that the handler turns into a query error; it is NEVER undefined behaviour, PROVIDED the reply has
   at most one entry (the origin itself) more than stops were asked for *)
Theorem osrm_rows_documented : forall x asked maxt,
  (reply_width x <= S (length asked))%nat ->
  (exists rows, osrm_rows x asked maxt = Ok rows) \/ (exists t, osrm_rows x asked maxt = Exn t).
Proof.
  intros x asked maxt Hw. unfold osrm_rows.
  destruct asked as [|a0 asked']; [left; exists []; reflexivity|].
  remember (a0 :: asked') as asked eqn:Hasked. clear Hasked.
  destruct x as [|ok body]; [left; exists []; reflexivity|].
  destruct ok; [|left; exists []; reflexivity].
  destruct body as [j|]; [|right; exists 3%nat; reflexivity].
  unfold reply_width in Hw.
  destruct (jget j K_DURATIONS) as [du|] eqn:Hdu; [|right; exists 3%nat; reflexivity].
  destruct (jget j K_DISTANCES) as [di|] eqn:Hdi; [|right; exists 3%nat; reflexivity].
  destruct (is_null du || is_null di) eqn:Hnull; [left; exists []; reflexivity|].
  destruct (jidx du 0) as [d0|] eqn:Hd0; [|right; exists 3%nat; reflexivity].
  destruct (is_null d0) eqn:Hnull0; [left; exists []; reflexivity|].
  destruct (jidx di 0) as [x0|] eqn:Hx0; [|right; exists 3%nat; reflexivity].
  destruct (is_null x0) eqn:Hnull1; [left; exists []; reflexivity|].
  cbv zeta.
  destruct (Nat.ltb 0 (jsize d0) && Nat.ltb 0 (jsize x0)) eqn:Hsz; [|left; exists []; reflexivity].
  (* is durations[0] an array? *)
  assert (Hcase : (exists l, d0 = JArr l) \/ (forall l, d0 <> JArr l)).
  { destruct d0 as [|b|t| |l|fs]; try (right; intros l' Hl'; discriminate Hl').
    left. exists l. reflexivity. }
  destruct Hcase as [[l Hl]|Hna].
  - subst d0. apply osrm_loop_documented; [lia|].
    cbn [jsize].
    (* du is an array whose element 0 is JArr l *)
    destruct du as [|b|t| |dl|fs]; cbn [jidx] in Hd0; try discriminate Hd0.
    inversion Hd0 as [Hnth]. clear Hd0.
    destruct dl as [|e dl']; cbn [nth] in Hnth; [discriminate Hnth|].
    subst e. exact Hw.
  - destruct (osrm_loop_nonarray d0 x0 asked 1 (jsize d0) maxt (jsize d0) Hna) as [Hr|Hr]; rewrite Hr.
    + left. exists []. reflexivity.
    + right. exists 3%nat. reflexivity.
Qed.

(* the rows returned name asked stops only, respect the maximum, and come in the order asked: their
   stops are the entries of [asked] at a strictly increasing list of valid positions (a subsequence) *)
Theorem osrm_rows_sound : forall x asked maxt rows, osrm_rows x asked maxt = Ok rows ->
  (forall r, In r rows -> In (fp_node r) asked /\ fp_time r <= maxt) /\
  (exists idxs, map fp_node rows = map (fun i => nth i asked 0%nat) idxs /\ StronglySorted lt idxs /\
                Forall (fun i => (i < length asked)%nat) idxs).
Proof.
  intros x asked maxt rows H.
  assert (Hloop : Forall (fun r => fp_time r <= maxt) rows /\
                  exists idxs, map fp_node rows = map (fun j => nth j asked 0%nat) idxs /\
                               StronglySorted lt idxs /\
                               Forall (fun j => (1 - 1 <= j < length asked)%nat) idxs).
  { assert (Hnil : rows = [] ->
                   Forall (fun r => fp_time r <= maxt) rows /\
                   exists idxs, map fp_node rows = map (fun j => nth j asked 0%nat) idxs /\
                                StronglySorted lt idxs /\
                                Forall (fun j => (1 - 1 <= j < length asked)%nat) idxs).
    { intros Hr. subst rows. split; [constructor|]. exists []. repeat split; constructor. }
    unfold osrm_rows in H.
    destruct asked as [|a0 asked']; [apply Hnil; inversion H; reflexivity|].
    remember (a0 :: asked') as asked eqn:Hasked. clear Hasked.
    destruct x as [|ok body]; [apply Hnil; inversion H; reflexivity|].
    destruct ok; [|apply Hnil; inversion H; reflexivity].
    destruct body as [j|]; [|discriminate H].
    destruct (jget j K_DURATIONS) as [du|] eqn:Hdu; [|discriminate H].
    destruct (jget j K_DISTANCES) as [di|] eqn:Hdi; [|discriminate H].
    destruct (is_null du || is_null di) eqn:Hnull; [apply Hnil; inversion H; reflexivity|].
    destruct (jidx du 0) as [d0|] eqn:Hd0; [|discriminate H].
    destruct (is_null d0) eqn:Hnull0; [apply Hnil; inversion H; reflexivity|].
    destruct (jidx di 0) as [x0|] eqn:Hx0; [|discriminate H].
    destruct (is_null x0) eqn:Hnull1; [apply Hnil; inversion H; reflexivity|].
    cbv zeta in H.
    destruct (Nat.ltb 0 (jsize d0) && Nat.ltb 0 (jsize x0)) eqn:Hsz;
      [|apply Hnil; inversion H; reflexivity].
    eapply osrm_loop_sound; [|exact H]. lia. }
  destruct Hloop as [Hall [idxs [Hmap [Hsort Hrange]]]].
  assert (Hrange' : Forall (fun i => (i < length asked)%nat) idxs).
  { eapply Forall_impl; [|exact Hrange]. intros j Hj. cbn beta in Hj. lia. }
  split.
  - intros r Hin. split.
    + assert (Hn : In (fp_node r) (map fp_node rows)) by (apply in_map; exact Hin).
      rewrite Hmap in Hn. apply in_map_iff in Hn. destruct Hn as [j [Hj Hjin]].
      rewrite <- Hj. apply nth_In.
      rewrite Forall_forall in Hrange'. apply Hrange'. exact Hjin.
    + rewrite Forall_forall in Hall. apply Hall. exact Hin.
  - exists idxs. split; [exact Hmap|]. split; [exact Hsort|exact Hrange'].
Qed.

(* and the surplus-entry case really is undefined behaviour in the model (documents why the proviso is there):
   one stop asked, three entries in durations[0] and distances[0] *)
Definition surplus_reply : exchange :=
  XStatus true (Some (JObj [(K_DURATIONS, JArr [JArr [JNum 0; JNum 10; JNum 20]]);
                            (K_DISTANCES, JArr [JArr [JNum 0; JNum 10; JNum 20]])])).

Example osrm_more_entries_is_ub : exists x asked maxt, osrm_rows x asked maxt = UB U_INDEX.
Proof. exists surplus_reply, [7%nat], 100. vm_compute. reflexivity. Qed.

(* the proviso is tight: exactly |asked| + 1 entries is fine, |asked| + 2 is not *)
Example surplus_reply_width : reply_width surplus_reply = 3%nat.
Proof. reflexivity. Qed.
Example surplus_reply_two_asked :
  osrm_rows surplus_reply [7%nat; 8%nat] 100 =
  Ok [{| fp_node := 7; fp_time := 1; fp_dist := 1 |}; {| fp_node := 8; fp_time := 2; fp_dist := 2 |}].
Proof. vm_compute. reflexivity. Qed.

(* ---------- handler level ---------- *)

Theorem C20_documented : forall xo xd ao ad ma me,
  (reply_width xo <= S (length ao))%nat -> (reply_width xd <= S (length ad))%nat ->
  handle_lookups xo xd ao ad ma me <> C20Bad.
Proof.
  intros xo xd ao ad ma me Ho Hd. unfold handle_lookups.
  destruct (osrm_rows_documented xo ao ma Ho) as [[acc Ha]|[t Ha]]; rewrite Ha; [|discriminate].
  destruct (osrm_rows_documented xd ad me Hd) as [[egr He]|[t He]]; rewrite He; [|discriminate].
  destruct (access_reason (nonempty acc) (nonempty egr)) as [r|]; discriminate.
Qed.

Lemma osrm_rows_failed : forall x asked maxt,
  (x = XThrow \/ exists b, x = XStatus false b) -> osrm_rows x asked maxt = Ok [].
Proof.
  intros x asked maxt [Hx|[b Hx]]; subst x; unfold osrm_rows; destruct asked; reflexivity.
Qed.

(* a failed exchange at the origin is a NO_ACCESS answer or a query error, never a calculation on garbage *)
Theorem C20_failures_degrade : forall xd ao ad ma me,
  forall xo, (xo = XThrow \/ exists b, xo = XStatus false b) ->
  (reply_width xd <= S (length ad))%nat ->
  (exists r, handle_lookups xo xd ao ad ma me = C20NoAccess r /\
             (r = R_NO_ACCESS_AT_ORIGIN \/ r = R_NO_ACCESS_AT_ORIGIN_AND_DESTINATION))
  \/ handle_lookups xo xd ao ad ma me = C20QueryError.
Proof.
  intros xd ao ad ma me xo Hxo Hd. unfold handle_lookups.
  rewrite (osrm_rows_failed xo ao ma Hxo).
  destruct (osrm_rows_documented xd ad me Hd) as [[egr He]|[t He]]; rewrite He.
  - left. destruct egr as [|e egr']; cbn [nonempty access_reason negb andb].
    + exists R_NO_ACCESS_AT_ORIGIN_AND_DESTINATION. split; [reflexivity|right; reflexivity].
    + exists R_NO_ACCESS_AT_ORIGIN. split; [reflexivity|left; reflexivity].
  - right. reflexivity.
Qed.

(* the same at the destination, given a well-formed origin exchange *)
Theorem C20_failures_degrade_dest : forall xo ao ad ma me,
  forall xd, (xd = XThrow \/ exists b, xd = XStatus false b) ->
  (reply_width xo <= S (length ao))%nat ->
  (exists r, handle_lookups xo xd ao ad ma me = C20NoAccess r /\
             (r = R_NO_ACCESS_AT_DESTINATION \/ r = R_NO_ACCESS_AT_ORIGIN_AND_DESTINATION))
  \/ handle_lookups xo xd ao ad ma me = C20QueryError.
Proof.
  intros xo ao ad ma me xd Hxd Ho. unfold handle_lookups.
  rewrite (osrm_rows_failed xd ad me Hxd).
  destruct (osrm_rows_documented xo ao ma Ho) as [[acc Ha]|[t Ha]]; rewrite Ha.
  - left. destruct acc as [|e acc']; cbn [nonempty access_reason negb andb].
    + exists R_NO_ACCESS_AT_ORIGIN_AND_DESTINATION. split; [reflexivity|right; reflexivity].
    + exists R_NO_ACCESS_AT_DESTINATION. split; [reflexivity|left; reflexivity].
  - right. reflexivity.
Qed.

(* a calculation runs only on two non-empty tables that satisfy osrm_rows_sound *)
Theorem C20_calculated_tables : forall xo xd ao ad ma me acc egr,
  handle_lookups xo xd ao ad ma me = C20Calculated acc egr ->
  osrm_rows xo ao ma = Ok acc /\ osrm_rows xd ad me = Ok egr /\ acc <> [] /\ egr <> [].
Proof.
  intros xo xd ao ad ma me acc egr H. unfold handle_lookups in H.
  destruct (osrm_rows xo ao ma) as [acc'|rr|cc|cc|tt| | |tt| ] eqn:Ha; try discriminate H.
  destruct (osrm_rows xd ad me) as [egr'|rr|cc|cc|tt| | |tt| ] eqn:He; try discriminate H.
  destruct (access_reason (nonempty acc') (nonempty egr')) as [r|] eqn:Hr; [discriminate H|].
  inversion H. subst acc' egr'.
  split; [reflexivity|]. split; [reflexivity|].
  destruct acc as [|a acc']; destruct egr as [|e egr'];
    cbn [nonempty access_reason negb andb] in Hr; try discriminate Hr.
  split; discriminate.
Qed.

(* no memory: the lookup is a function of the exchange alone (trivial by construction, stated for the record):
   a healthy exchange after any sequence of faulty ones gives the same rows as without them *)
Theorem C20_no_memory : forall (faults : list exchange) x asked maxt,
  last (map (fun e => osrm_rows e asked maxt) (faults ++ [x])) (Ok []) = osrm_rows x asked maxt.
Proof.
  intros faults x asked maxt. rewrite map_app. cbn [map]. apply last_last.
Qed.

Print Assumptions osrm_rows_documented.
Print Assumptions osrm_rows_sound.
Print Assumptions osrm_more_entries_is_ub.
Print Assumptions C20_documented.
Print Assumptions C20_failures_degrade.
Print Assumptions C20_failures_degrade_dest.
Print Assumptions C20_calculated_tables.
Print Assumptions C20_no_memory.
