(* Proofs/OptTotal.v — optimizeJourney is total on valid journeys of well-formed data:

     optimize_total     : wf_data_b d = true -> 0 <= q_minw p -> journey_ok_b d s p acc egr bestdep js = true ->
                          length js <= S (S (length (d_nodes d))) ->
                          exists js' used, optimize (OPT_FUEL d) d js [] [] = OptDone js' used
     optimize_fuel_mono : more fuel never changes an OptDone result

   i.e. on such inputs no index into a trip's connection list runs past its end (no OptUB), every
   detected case finds the connection it searches for (the loop never spins on an unchanged state)
   and the fuel of Calc.v is enough (no OptHang).

   Layers
   A. fuel monotonicity.
   B. data: the departure stop of position k+1 of a trip is the arrival stop of position k;
      a trip's connection list is no longer than all_conns.
   C. totality of the index computations: between_nodes / leg_summary / detect never return None on
      a valid journey, leg_range returns every connection of the ridden range.
   D. what a detected node is: a departure stop strictly inside the ride of leg `from` (and of leg
      `to` for CSS), not in the ignore list.
   E. the measure: mu js ign = (#stops - #ign) + sum over legs (seq exit - seq enter + 1); every
      round that continues decreases it ([round]); [optimize_total_gen]; the arithmetic. *)
From Coq Require Import List ZArith Bool Arith Lia.
From TrV Require Import Spec Proofs.SortFilter Proofs.EmitValid Proofs.Rewrites.
Import ListNotations.
Local Open Scope Z_scope.

(* ============================================================================================== *)
(* A. fuel monotonicity                                                                             *)

Theorem optimize_fuel_mono : forall f1 f2 d js used ign js' used',
  (f1 <= f2)%nat -> optimize f1 d js used ign = OptDone js' used' -> optimize f2 d js used ign = OptDone js' used'.
Proof.
  induction f1 as [|f1 IH]; intros f2 d js used ign js' used' Hle H; [discriminate|].
  destruct f2 as [|f2]; [lia|].
  assert (Hle' : (f1 <= f2)%nat) by lia.
  cbn [optimize] in H |- *.
  destruct (detect d ign js 0 []) as [[[[[cs X] i] j]|]|]; [|exact H|discriminate].
  destruct (Nat.eqb cs 1).
  { destruct (leg_range d (nth_js js i)) as [rng|]; [|discriminate].
    destruct (find (fun c => Nat.eqb X (c_to c)) rng) as [c|]; [|apply (IH _ _ _ _ _ _ _ Hle' H)].
    destruct (negb (c_cu c)); apply (IH _ _ _ _ _ _ _ Hle' H). }
  destruct (Nat.eqb cs 2); [exact H|].
  destruct (Nat.eqb cs 3).
  { destruct (leg_range d (nth_js js i)) as [rng|]; [|discriminate].
    destruct (find (fun c => Nat.eqb X (c_to c)) rng) as [c|]; [|apply (IH _ _ _ _ _ _ _ Hle' H)].
    destruct (negb (c_cu c)); apply (IH _ _ _ _ _ _ _ Hle' H). }
  destruct (leg_range d (nth_js js i)) as [rf|]; [|discriminate].
  destruct (leg_range d (nth_js js j)) as [rt|]; [|discriminate].
  cbv zeta in H |- *.
  destruct (css_second X (css_first X rf None) rt js i j used ign) as [[js1 used1] ign1].
  apply (IH _ _ _ _ _ _ _ Hle' H).
Qed.

(* ============================================================================================== *)
(* B. data                                                                                          *)

Lemma mk_conns_from : forall tid minw nodes times seq k c,
  nth_error (mk_conns tid minw seq nodes times) k = Some c -> nth_error nodes k = Some (c_from c).
Proof.
  intros tid minw. induction nodes as [|n0 ns IH]; intros times seq k c H.
  - destruct k; discriminate.
  - destruct ns as [|n1 ns']; [destruct k; discriminate|].
    destruct times as [|s0 [|s1 ss]]; [destruct k; discriminate|destruct k; discriminate|].
    change (mk_conns tid minw seq (n0 :: n1 :: ns') (s0 :: s1 :: ss))
      with ({| c_trip := tid; c_seq := seq; c_from := n0; c_to := n1; c_dep := st_dep s0; c_arr := st_arr s1;
               c_cb := st_cb s0; c_cu := st_cu s1; c_minw := minw |}
            :: mk_conns tid minw (S seq) (n1 :: ns') (s1 :: ss)) in H.
    destruct k as [|k]; cbn [nth_error] in H.
    + injection H as <-. reflexivity.
    + cbn [nth_error]. apply (IH (s1 :: ss) (S seq) k c H).
Qed.

Lemma at_pos_len : forall d tr k c, at_pos d tr k c -> (k < length (trip_conns d tr))%nat.
Proof. intros d tr k c H. apply nth_error_Some. unfold at_pos in H. congruence. Qed.

Lemma at_pos_fun : forall d tr k c c', at_pos d tr k c -> at_pos d tr k c' -> c = c'.
Proof. intros d tr k c c' H H'. unfold at_pos in *. congruence. Qed.

(* the vehicle leaves position k+1 from the stop where position k arrives *)
Lemma at_pos_prev : forall d tr k c, at_pos d tr (S k) c ->
  exists c', at_pos d tr k c' /\ c_to c' = c_from c.
Proof.
  intros d tr k c H. pose proof (at_pos_len d tr (S k) c H) as Hlen.
  destruct (nth_error (trip_conns d tr) k) as [c'|] eqn:E.
  - exists c'. split; [exact E|].
    unfold at_pos, trip_conns in *.
    destruct (mk_conns_nth _ _ _ _ _ _ _ E) as (_ & _ & _ & Hto & _).
    pose proof (mk_conns_from _ _ _ _ _ _ _ H) as Hfrom. congruence.
  - apply nth_error_None in E. lia.
Qed.

Lemma flat_map_length_le : forall {A B} (f : A -> list B) (l : list A) x,
  In x l -> (length (f x) <= length (flat_map f l))%nat.
Proof.
  intros A B f. induction l as [|y l IH]; intros x H; [destruct H|].
  cbn [flat_map]. rewrite app_length. destruct H as [->|H]; [lia|].
  specialize (IH x H). lia.
Qed.

Lemma trip_conns_le_all : forall d t tr, find_trip d t = Some tr ->
  (length (trip_conns d tr) <= length (all_conns d))%nat.
Proof.
  intros d t tr Ft. destruct (find_trip_some d t tr Ft) as [Hin _].
  unfold all_conns. apply flat_map_length_le. exact Hin.
Qed.

Lemma nth_error_rev_to : forall {A} (l : list A) k c, nth_error l k = Some c ->
  nth_error (rev l) (length l - 1 - k) = Some c.
Proof.
  intros A l k c H.
  assert (Hk : (k < length l)%nat) by (apply nth_error_Some; congruence).
  apply nth_error_rev_pos; [rewrite rev_length; lia|].
  rewrite rev_length, rev_involutive.
  replace (length l - 1 - (length l - 1 - k))%nat with k by lia. exact H.
Qed.

(* ============================================================================================== *)
(* C. the index computations are total                                                              *)

Lemma between_nodes_total : forall tf cnt s first last, (s + cnt <= length tf)%nat ->
  exists r, between_nodes tf s cnt first last = Some r.
Proof.
  intros tf. induction cnt as [|cnt IH]; intros s first last H.
  - exists []. reflexivity.
  - cbn [between_nodes]. destruct (nth_error tf s) as [c|] eqn:E.
    + destruct (IH (S s) first last ltac:(lia)) as [r Hr]. rewrite Hr. eexists. reflexivity.
    + apply nth_error_None in E. lia.
Qed.

Lemma between_nodes_in : forall tf cnt s first last r n,
  between_nodes tf s cnt first last = Some r -> In n r ->
  exists k c, (s <= k < s + cnt)%nat /\ nth_error tf k = Some c /\ c_from c = n /\ n <> first /\ n <> last.
Proof.
  intros tf. induction cnt as [|cnt IH]; intros s first last r n H Hn.
  - cbn [between_nodes] in H. injection H as <-. destruct Hn.
  - cbn [between_nodes] in H.
    destruct (nth_error tf s) as [c|] eqn:E; [|discriminate].
    destruct (between_nodes tf (S s) cnt first last) as [r'|] eqn:Er; [|discriminate].
    injection H as <-.
    assert (Hrec : In n r' -> exists k c0, (s <= k < s + S cnt)%nat /\ nth_error tf k = Some c0 /\
                                          c_from c0 = n /\ n <> first /\ n <> last).
    { intros Hin. destruct (IH _ _ _ _ _ Er Hin) as (k & c0 & Hk & Hc0 & Hrest).
      exists k, c0. split; [lia|]. split; [exact Hc0|exact Hrest]. }
    destruct (negb (Nat.eqb (c_from c) first) && negb (Nat.eqb (c_from c) last)) eqn:Ec.
    + destruct Hn as [<-|Hn]; [|apply Hrec; exact Hn].
      apply andb_true_iff in Ec. destruct Ec as [E1 E2].
      apply negb_true_iff in E1. apply negb_true_iff in E2.
      apply Nat.eqb_neq in E1. apply Nat.eqb_neq in E2.
      exists s, c. split; [lia|]. auto.
    + apply Hrec. exact Hn.
Qed.

Lemma leg_summary_walk : forall d j, is_walk j = true -> leg_summary d j = Some None.
Proof.
  intros d j H. apply Totals.is_walk_inv in H. destruct H as [He _].
  unfold leg_summary. rewrite He. destruct (js_trip j); reflexivity.
Qed.

(* a leg's summary exists, and its in-between stops are departure stops strictly inside the ride *)
Lemma leg_summary_leg : forall d s p j b e t tr kb ke, wf_data_b d = true ->
  leg_at d s p j b e t tr kb ke ->
  exists sj, leg_summary d j = Some (Some sj) /\
    forall X, In X (ls_between sj) ->
      exists k c, (kb < k <= ke)%nat /\ at_pos d tr k c /\ c_from c = X /\ X <> c_to e.
Proof.
  intros d s p j b e t tr kb ke Hwf (Hb & He & Ht & Ft & Pb & Pe & Hk & _).
  destruct (at_pos_basic d tr kb b Pb) as [_ Sb]. destruct (at_pos_basic d tr ke e Pe) as [_ Se].
  pose proof (at_pos_len d tr ke e Pe) as Hlen.
  unfold leg_summary. rewrite Ht, Hb, He. cbv zeta.
  rewrite (trip_fwd_eq d t tr Hwf Ft), Sb, Se.
  replace (S kb - 1)%nat with kb by lia. replace (S ke - 1)%nat with ke by lia.
  destruct (between_nodes_total (trip_conns d tr) (ke - kb) (S kb) (c_from b) (c_to e) ltac:(lia)) as [r Hr].
  rewrite Hr. eexists. split; [reflexivity|].
  cbn [ls_between]. intros X HX.
  destruct (between_nodes_in _ _ _ _ _ _ _ Hr HX) as (k & c & Hkr & Hc & Hfrom & _ & Hlast).
  exists k, c. split; [lia|]. auto.
Qed.

Lemma detect_total : forall d ign js idx prev,
  (forall j, In j js -> leg_summary d j <> None) -> detect d ign js idx prev <> None.
Proof.
  intros d ign. induction js as [|j0 r IH]; intros idx prev H; cbn [detect]; [discriminate|].
  assert (Hr : forall j, In j r -> leg_summary d j <> None) by (intros j Hj; apply H; right; exact Hj).
  destruct (leg_summary d j0) as [[sj|]|] eqn:E.
  - destruct (detect_inner ign prev 0 sj) as [[[cs n] i]|]; [discriminate|]. apply IH. exact Hr.
  - apply IH. exact Hr.
  - exfalso. apply (H j0 (or_introl eq_refl) E).
Qed.

Lemma rev_range_total : forall tr sz cnt e, (cnt <= S e)%nat -> (e < sz)%nat -> sz = length tr ->
  exists r, rev_range tr sz e cnt = Some r /\
            forall k c, (e + 1 - cnt <= k <= e)%nat -> nth_error tr (sz - 1 - k) = Some c -> In c r.
Proof.
  intros tr sz. induction cnt as [|cnt IH]; intros e Hc He Hsz.
  - exists []. split; [destruct e; reflexivity|]. intros k c Hk _. lia.
  - destruct e as [|e']; cbn [rev_range].
    + destruct (nth_error tr (sz - 1 - 0)) as [c0|] eqn:E0.
      2:{ apply nth_error_None in E0. lia. }
      destruct cnt; [|lia]. exists [c0]. split; [reflexivity|].
      intros k c Hk Hn. assert (k = 0%nat) by lia. subst k. left. congruence.
    + destruct (nth_error tr (sz - 1 - S e')) as [c0|] eqn:E0.
      2:{ apply nth_error_None in E0. lia. }
      destruct (IH e' ltac:(lia) ltac:(lia) Hsz) as (r' & Hr' & Hall).
      rewrite Hr'. exists (c0 :: r'). split; [reflexivity|].
      intros k c Hk Hn. destruct (Nat.eq_dec k (S e')) as [->|Hne].
      * left. congruence.
      * right. apply (Hall k c); [lia|exact Hn].
Qed.

(* leg_range succeeds and hands over every connection of the ridden range *)
Lemma leg_range_total : forall d s p j b e t tr kb ke, wf_data_b d = true ->
  leg_at d s p j b e t tr kb ke ->
  exists rng, leg_range d j = Some rng /\
              forall k c, (kb <= k <= ke)%nat -> at_pos d tr k c -> In c rng.
Proof.
  intros d s p j b e t tr kb ke Hwf (Hb & He & Ht & Ft & Pb & Pe & Hk & _).
  destruct (at_pos_basic d tr kb b Pb) as [_ Sb]. destruct (at_pos_basic d tr ke e Pe) as [_ Se].
  pose proof (at_pos_len d tr ke e Pe) as Hlen.
  unfold leg_range. rewrite Hb, He, Ht. cbv zeta.
  rewrite (trip_rev_eq d t tr Hwf Ft), Sb, Se.
  replace (S kb - 1)%nat with kb by lia. replace (S ke - 1)%nat with ke by lia.
  assert (Hlt : Nat.ltb ke kb = false) by (apply Nat.ltb_ge; exact Hk).
  rewrite Hlt, rev_length.
  destruct (rev_range_total (rev (trip_conns d tr)) (length (trip_conns d tr)) (ke - kb + 1) ke
              ltac:(lia) Hlen ltac:(rewrite rev_length; reflexivity)) as (r & Hr & Hall).
  exists r. split; [exact Hr|].
  intros k c Hkr Pc. apply (Hall k c); [lia|]. apply nth_error_rev_to. exact Pc.
Qed.

(* ============================================================================================== *)
(* D. what a detected node is                                                                       *)

Lemma detect_pair_inv2 : forall ign si sj cs X, detect_pair ign si sj = Some (cs, X) ->
  (cs = 1%nat /\ In X (ls_between si) /\ ~ In X ign) \/ cs = 2%nat \/
  (cs = 3%nat /\ In X (ls_between si) /\ ~ In X ign) \/
  (cs = 4%nat /\ In X (ls_between si) /\ In X (ls_between sj) /\ ~ In X ign).
Proof.
  intros ign si sj cs X H. unfold detect_pair in H. cbv beta zeta in H.
  assert (Hsplit : forall (b1 : bool) n l, b1 && memb n l && negb (memb n ign) = true -> In n l /\ ~ In n ign).
  { intros b1 n l E. apply andb_true_iff in E. destruct E as [E E3].
    apply andb_true_iff in E. destruct E as [_ E2]. split; [apply memb_In; exact E2|].
    intro Hin. apply memb_In in Hin. rewrite Hin in E3. discriminate. }
  destruct (ls_last sj) as [lj|]; [|discriminate].
  match type of H with (if ?c then _ else _) = _ => destruct c eqn:E1 end.
  { injection H as <- <-. left. split; [reflexivity|]. apply (Hsplit _ _ _ E1). }
  match type of H with (match ?c with _ => _ end) = _ => destruct c as [li|] end.
  { injection H as <- _. right. left. reflexivity. }
  match type of H with (if ?c then _ else _) = _ => destruct c eqn:E3 end.
  { injection H as <- <-. right. right. left. split; [reflexivity|]. apply (Hsplit _ _ _ E3). }
  match type of H with (if ?c then _ else _) = _ => destruct c end; [|discriminate].
  match type of H with (match ?c with _ => _ end) = _ => destruct c as [n|] eqn:Ef end; [|discriminate].
  injection H as <- <-. right. right. right. split; [reflexivity|].
  apply find_some in Ef. destruct Ef as [Hin Hc].
  apply andb_true_iff in Hc. destruct Hc as [Hc1 Hc2].
  split; [exact Hin|]. split; [apply memb_In; exact Hc1|].
  intro Hi. apply memb_In in Hi. rewrite Hi in Hc2. discriminate.
Qed.

Lemma detect_full : forall d ign js cs X i j,
  detect d ign js 0 [] = Some (Some (cs, X, i, j)) ->
  exists si sj, leg_summary d (nth_js js i) = Some (Some si) /\
                leg_summary d (nth_js js j) = Some (Some sj) /\
                detect_pair ign si sj = Some (cs, X).
Proof.
  intros d ign js cs X i j H.
  destruct (detect_spec d ign js [] cs X i j H) as (sj & _ & Hj & Hp).
  cbn [app] in *. unfold sum_of in Hp.
  destruct (leg_summary d (nth_js js i)) as [[si|]|] eqn:Hi;
    [|rewrite detect_pair_empty in Hp; discriminate|rewrite detect_pair_empty in Hp; discriminate].
  exists si, sj. auto.
Qed.

(* the second CSS loop, when some connection of the range leaves the node: either the node is put on
   the ignore list or the journey is rewritten *)
Lemma css_second_total : forall node exitc rng js from to used ign,
  (exists c, In c rng /\ c_from c = node) ->
  css_second node exitc rng js from to used ign = (js, used, ign ++ [node]) \/
  exists ex c, exitc = Some ex /\ In c rng /\ c_from c = node /\ c_cb c = true /\
    css_second node exitc rng js from to used ign =
      (erase_range (set_nth (set_nth js from (fun j => set_walk (set_exit j ex) 0 0)) to
                            (fun j => set_enter j c)) (S from) to, used ++ [4%nat], ign).
Proof.
  intros node exitc. induction rng as [|c r IH]; intros js from to used ign (c0 & Hin & Hc0).
  - destruct Hin.
  - cbn [css_second]. destruct (Nat.eqb node (c_from c)) eqn:En.
    + destruct exitc as [ex|]; [|left; reflexivity].
      destruct (c_cb c) eqn:Ec; [|left; reflexivity].
      right. exists ex, c. apply Nat.eqb_eq in En.
      split; [reflexivity|]. split; [left; reflexivity|]. auto.
    + destruct Hin as [->|Hin]; [apply Nat.eqb_neq in En; congruence|].
      destruct (IH js from to used ign (ex_intro _ c0 (conj Hin Hc0)))
        as [H|(ex & c' & H1 & H2 & H3 & H4 & H5)]; [left; exact H|].
      right. exists ex, c'. split; [exact H1|]. split; [right; exact H2|]. auto.
Qed.

(* ============================================================================================== *)
(* E. the measure                                                                                   *)

Definition leg_w (j : jstep) : nat :=
  match js_enter j, js_exit j with
  | Some b, Some e => (c_seq e - c_seq b + 1)%nat
  | _, _ => 0%nat
  end.

Definition Mjs (js : list jstep) : nat := list_sum (map leg_w js).

Lemma leg_w_eq : forall j b e, js_enter j = Some b -> js_exit j = Some e ->
  leg_w j = (c_seq e - c_seq b + 1)%nat.
Proof. intros j b e Hb He. unfold leg_w. rewrite Hb, He. reflexivity. Qed.

Lemma Mjs_app : forall l1 l2, Mjs (l1 ++ l2) = (Mjs l1 + Mjs l2)%nat.
Proof. intros l1 l2. unfold Mjs. rewrite map_app, list_sum_app. reflexivity. Qed.

Lemma Mjs_cons : forall x l, Mjs (x :: l) = (leg_w x + Mjs l)%nat.
Proof. reflexivity. Qed.

Lemma Mjs_two : forall P x M y S,
  Mjs (P ++ x :: M ++ y :: S) = (Mjs P + leg_w x + Mjs M + leg_w y + Mjs S)%nat.
Proof. intros P x M y S. rewrite Mjs_app, Mjs_cons, Mjs_app, Mjs_cons. lia. Qed.

Lemma Mjs_pair : forall P x y S, Mjs (P ++ x :: y :: S) = (Mjs P + leg_w x + leg_w y + Mjs S)%nat.
Proof. intros P x y S. rewrite Mjs_app, !Mjs_cons. lia. Qed.

Lemma Mjs_one : forall P x S, Mjs (P ++ x :: S) = (Mjs P + leg_w x + Mjs S)%nat.
Proof. intros P x S. rewrite Mjs_app, Mjs_cons. lia. Qed.

Lemma Mjs_le : forall C l, (forall j, In j l -> (leg_w j <= C)%nat) -> (Mjs l <= length l * C)%nat.
Proof.
  intros C. induction l as [|x l IH]; intros H; [cbn; lia|].
  rewrite Mjs_cons. cbn [length].
  pose proof (H x (or_introl eq_refl)) as Hx.
  assert (Hl : (Mjs l <= length l * C)%nat) by (apply IH; intros j Hj; apply H; right; exact Hj).
  lia.
Qed.

Lemma NoDup_snoc : forall {A} (l : list A) x, NoDup l -> ~ In x l -> NoDup (l ++ [x]).
Proof.
  intros A. induction l as [|y l IH]; intros x Hnd Hx.
  - constructor; [intros []|constructor].
  - cbn [app]. inversion Hnd as [|y' l' Hy Hl]; subst. constructor.
    + intro Hin. apply in_app_or in Hin. destruct Hin as [Hin|[<-|[]]]; [exact (Hy Hin)|].
      apply Hx. left. reflexivity.
    + apply IH; [exact Hl|]. intro Hin. apply Hx. right. exact Hin.
Qed.

Section Round.
  Variables (d : data) (s : scenario) (p : params) (acc egr : list fprow) (bd : Z).
  Hypothesis Hwf : wf_data_b d = true.
  Hypothesis Hmw : 0 <= q_minw p.

  (* loop invariant: the journey is valid, the ignore list holds distinct stops of the data *)
  Definition inv (js : list jstep) (ign : list nat) : Prop :=
    journey_ok_b d s p acc egr bd js = true /\ NoDup ign /\ incl ign (d_nodes d).

  Definition mu (js : list jstep) (ign : list nat) : nat :=
    (length (d_nodes d) - length ign + Mjs js)%nat.

  Lemma inv_add_ign : forall js ign X, inv js ign -> ~ In X ign -> In X (d_nodes d) ->
    inv js (ign ++ [X]) /\ (mu js (ign ++ [X]) < mu js ign)%nat.
  Proof.
    intros js ign X (Hok & Hnd & Hincl) HX Hn.
    assert (Hnd' : NoDup (ign ++ [X])) by (apply NoDup_snoc; assumption).
    assert (Hincl' : incl (ign ++ [X]) (d_nodes d)).
    { apply incl_app; [exact Hincl|]. intros z [<-|[]]. exact Hn. }
    split; [unfold inv; auto|].
    pose proof (NoDup_incl_length Hnd' Hincl') as Hlen.
    unfold mu. rewrite app_length in *. cbn [length] in *. lia.
  Qed.

  Lemma leg_w_bound : forall j, jleg_ok d s p j = true -> (leg_w j <= length (all_conns d))%nat.
  Proof.
    intros j H. destruct (jleg_ok_at d s p j H) as (b & e & t & tr & kb & ke & Hat).
    destruct Hat as (Hb & He & _ & Ft & Pb & Pe & Hk & _).
    destruct (at_pos_basic d tr kb b Pb) as [_ Sb]. destruct (at_pos_basic d tr ke e Pe) as [_ Se].
    pose proof (at_pos_len d tr ke e Pe) as Hlen.
    pose proof (trip_conns_le_all d t tr Ft) as Hall.
    rewrite (leg_w_eq j b e Hb He), Sb, Se. lia.
  Qed.

  Lemma leg_w_walk : forall j, is_walk j = true -> leg_w j = 0%nat.
  Proof.
    intros j H. apply Totals.is_walk_inv in H. destruct H as [He _].
    unfold leg_w. rewrite He. reflexivity.
  Qed.

  Lemma mu_start : forall js, journey_ok_b d s p acc egr bd js = true ->
    (mu js [] <= length (d_nodes d) + (length js - 2) * length (all_conns d))%nat.
  Proof.
    intros js Hok. destruct (journey_ok_inv d s p acc egr bd js Hok) as (a & legs & e & -> & HP).
    destruct HP as (Ha & He & Hall & _).
    unfold mu. cbn [length]. rewrite Mjs_cons, Mjs_app, Mjs_cons, app_length. cbn [length].
    rewrite (leg_w_walk a Ha), (leg_w_walk e He).
    change (Mjs []) with 0%nat.
    assert (Hl : (Mjs legs <= length legs * length (all_conns d))%nat).
    { apply Mjs_le. intros j Hj. apply leg_w_bound. rewrite forallb_forall in Hall. apply Hall. exact Hj. }
    replace (S (length legs + 1) - 2)%nat with (length legs) by lia. lia.
  Qed.

  (* one round of the while loop: it ends, or it goes on from a valid state of smaller measure *)
  Lemma round : forall f js used ign, inv js ign ->
    (exists js' used', optimize (S f) d js used ign = OptDone js' used') \/
    (exists js' used' ign', optimize (S f) d js used ign = optimize f d js' used' ign' /\
                            inv js' ign' /\ (mu js' ign' < mu js ign)%nat).
  Proof.
    intros f js used ign Hinv. pose proof Hinv as (Hok & Hnd & Hincl).
    destruct (journey_ok_inv d s p acc egr bd js Hok) as (a & legs & e & Ejs & HP).
    assert (Hsum : forall j0, In j0 js -> leg_summary d j0 <> None).
    { intros j0 Hj0. rewrite Ejs in Hj0. destruct HP as (Ha & He & Hall & _).
      destruct Hj0 as [<-|Hj0]; [rewrite (leg_summary_walk d a Ha); discriminate|].
      apply in_app_or in Hj0. destruct Hj0 as [Hj0|[<-|[]]].
      - rewrite forallb_forall in Hall. specialize (Hall j0 Hj0).
        destruct (jleg_ok_at d s p j0 Hall) as (b0 & e0 & t0 & tr0 & kb0 & ke0 & Hat0).
        destruct (leg_summary_leg d s p j0 b0 e0 t0 tr0 kb0 ke0 Hwf Hat0) as (s0 & Hs0 & _).
        rewrite Hs0. discriminate.
      - rewrite (leg_summary_walk d e He). discriminate. }
    cbn [optimize].
    destruct (detect d ign js 0 []) as [[[[[cs X] i] j]|]|] eqn:Hdet.
    3:{ exfalso. apply (detect_total d ign js 0%nat [] Hsum Hdet). }
    2:{ left. eauto. }
    destruct (detect_top d ign js cs X i j Hdet)
      as (Hr & bi & ei & bj & ej & Hbi & Hei & Hbj & Hej & Hcase).
    destruct (detect_full d ign js cs X i j Hdet) as (si & sj & Hsi & Hsj & Hpair).
    clear Hdet Hsum.
    destruct (split_two js i j Hr) as (P & x & M & y & S & EQ & LP & LJ).
    rewrite EQ in Hbi, Hei, Hbj, Hej, Hsi, Hsj.
    rewrite (nth_js_from P M S x y i LP) in Hbi, Hei, Hsi.
    rewrite (nth_js_to P M S x y i j LP LJ) in Hbj, Hej, Hsj.
    pose proof HP as (Ha & He & _).
    apply Totals.is_walk_inv in Ha. apply Totals.is_walk_inv in He.
    pose proof EQ as EQ2. rewrite Ejs in EQ2.
    destruct (split_legs a e legs P x M y S EQ2 (proj1 Ha) (proj1 He)
                ltac:(congruence) ltac:(congruence)) as (L1 & L2 & EP & ES & EL).
    clear EQ2 Ejs. subst P S legs. subst js. clear Ha He.
    destruct (journey_legs_split d s p acc egr bd a e L1 x M y L2 HP) as (Hxok & Hyok & _).
    destruct (jleg_ok_at d s p x Hxok) as (bx & ex & tx & trx & kbx & kex & Hatx).
    destruct (jleg_ok_at d s p y Hyok) as (by_ & ey & ty & try & kby & key & Haty).
    pose proof Hatx as (Hbx & Hex & Htx & Ftx & Pbx & Pex & Hkx & _ & Cbx & Cux).
    pose proof Haty as (Hby & Hey & Hty & Fty & Pby & Pey & Hky & _ & Cby & Cuy).
    destruct (at_pos_basic d trx kbx bx Pbx) as [_ Sbx]. destruct (at_pos_basic d trx kex ex Pex) as [_ Sex].
    destruct (at_pos_basic d try kby by_ Pby) as [_ Sby]. destruct (at_pos_basic d try key ey Pey) as [_ Sey].
    rewrite Hbx in Hbi. injection Hbi as <-. rewrite Hex in Hei. injection Hei as <-.
    rewrite Hby in Hbj. injection Hbj as <-. rewrite Hey in Hej. injection Hej as <-.
    destruct (leg_summary_leg d s p x bx ex tx trx kbx kex Hwf Hatx) as (si' & Hsi' & Hbetx).
    rewrite Hsi in Hsi'. injection Hsi' as <-.
    destruct (leg_summary_leg d s p y by_ ey ty try kby key Hwf Haty) as (sj' & Hsj' & Hbety).
    rewrite Hsj in Hsj'. injection Hsj' as <-.
    destruct (leg_range_total d s p x bx ex tx trx kbx kex Hwf Hatx) as (rf & Hrf & Hrfall).
    destruct (leg_range_total d s p y by_ ey ty try kby key Hwf Haty) as (rt & Hrt & Hrtall).
    (* a node among the in-between stops of x is where some connection of x's range arrives, and
       no connection arriving there is the one x alights from *)
    assert (Harrives : In X (ls_between si) ->
              In X (d_nodes d) /\ (exists c1, In c1 rf /\ c_to c1 = X) /\
              forall c k, at_pos d trx k c -> (kbx <= k <= kex)%nat -> c_to c = X -> (k < kex)%nat).
    { intros HXi. destruct (Hbetx X HXi) as (k0 & c0 & Hk0 & Pc0 & Hfrom0 & Hnl).
      destruct k0 as [|k0]; [lia|].
      destruct (at_pos_prev d trx k0 c0 Pc0) as (c1 & Pc1 & Hto1).
      split; [|split].
      - rewrite <- Hfrom0, <- Hto1. apply (at_pos_node d tx trx k0 c1 Hwf Ftx Pc1).
      - exists c1. split; [apply (Hrfall k0 c1); [lia|exact Pc1]|congruence].
      - intros c k Pc Hk Hc. destruct (Nat.eq_dec k kex) as [->|Hne]; [|lia].
        exfalso. rewrite (at_pos_fun d trx kex c ex Pc Pex) in Hc. congruence. }
    set (PP := a :: L1) in *. set (SS := L2 ++ [e]) in *.
    rewrite !(nth_js_from PP M SS x y i LP), !(nth_js_to PP M SS x y i j LP LJ).
    rewrite !Hrf, !Hrt.
    destruct (detect_pair_inv2 ign si sj cs X Hpair)
      as [(-> & HXi & Hni)|[->|[(-> & HXi & Hni)|(-> & HXi & HXj & Hni)]]]; cbn [Nat.eqb].
    - (* CSL *)
      destruct Hcase as [[_ HX]|[[C _]|[[C _]|C]]]; try discriminate.
      destruct (Harrives HXi) as (HXn & (c1 & Hin1 & Hto1) & Hstrict).
      destruct (find (fun c => Nat.eqb X (c_to c)) rf) as [c|] eqn:Hf.
      2:{ exfalso. pose proof (find_none _ _ Hf c1 Hin1) as Hn. cbv beta in Hn.
          apply Nat.eqb_neq in Hn. congruence. }
      apply find_some in Hf. destruct Hf as [Hin Hc]. apply Nat.eqb_eq in Hc.
      destruct (leg_range_in d s p x bx ex tx trx kbx kex rf c Hwf Hatx Hrf Hin) as (k & Hk & Pc).
      pose proof (Hstrict c k Pc Hk (eq_sym Hc)) as Hklt.
      destruct (at_pos_basic d trx k c Pc) as [_ Sc].
      right. destruct (c_cu c) eqn:Hcu; cbn [negb].
      + cbv zeta.
        rewrite (surgery_from _ PP M SS x y i LP).
        rewrite (surgery_erase_closed _ PP M SS _ y i j LP LJ).
        eexists _, _, _. split; [reflexivity|]. split.
        * split; [|split; assumption].
          apply (finish d s p acc egr bd a e _ L1 [] L2).
          apply (rewrite_single d s p acc egr bd Hwf Hmw a e L1 x M y L2 _
                   bx ex tx trx kbx kex by_ ey ty try kby key c k HP Hatx Haty Pc Hk Hcu);
            try assumption; try reflexivity. congruence.
        * unfold mu. rewrite Mjs_one, Mjs_two.
          rewrite (leg_w_eq x bx ex Hbx Hex).
          rewrite (leg_w_eq (set_exit (set_walk x (js_walk y) (js_dist y)) c) bx c Hbx eq_refl).
          rewrite Sbx, Sex, Sc. lia.
      + exists (PP ++ x :: M ++ y :: SS), used, (ign ++ [X]). split; [reflexivity|].
        apply inv_add_ign; assumption.
    - (* BTS *)
      left.
      destruct (find (fun c => Nat.eqb X (c_from c)) rt) as [c|]; [|eexists _, _; reflexivity].
      destruct (negb (c_cb c)); eexists _, _; reflexivity.
    - (* GTF *)
      destruct (Harrives HXi) as (HXn & (c1 & Hin1 & Hto1) & Hstrict).
      destruct (find (fun c => Nat.eqb X (c_to c)) rf) as [c|] eqn:Hf.
      2:{ exfalso. pose proof (find_none _ _ Hf c1 Hin1) as Hn. cbv beta in Hn.
          apply Nat.eqb_neq in Hn. congruence. }
      apply find_some in Hf. destruct Hf as [Hin Hc]. apply Nat.eqb_eq in Hc.
      destruct (leg_range_in d s p x bx ex tx trx kbx kex rf c Hwf Hatx Hrf Hin) as (k & Hk & Pc).
      pose proof (Hstrict c k Pc Hk (eq_sym Hc)) as Hklt.
      destruct (at_pos_basic d trx k c Pc) as [_ Sc].
      destruct Hcase as [[C _]|[[C _]|[[_ HX]|C]]]; try discriminate.
      right. destruct (c_cu c) eqn:Hcu; cbn [negb].
      + rewrite (surgery_from _ PP M SS x y i LP).
        rewrite (surgery_erase_open _ PP M SS _ y i j LP LJ).
        eexists _, _, _. split; [reflexivity|]. split.
        * split; [|split; assumption].
          apply (finish d s p acc egr bd a e _ L1 [_] L2).
          apply (rewrite_pair d s p acc egr bd Hwf Hmw a e L1 x M y L2 _ _
                   bx ex tx trx kbx kex by_ ey ty try kby key c k by_ kby HP Hatx Haty Pc Hk Hcu Pby
                   ltac:(lia) Cby);
            try assumption; try reflexivity. congruence.
        * unfold mu. rewrite Mjs_pair, Mjs_two.
          rewrite (leg_w_eq x bx ex Hbx Hex).
          rewrite (leg_w_eq (set_walk (set_exit x c) 0 0) bx c Hbx eq_refl).
          rewrite Sbx, Sex, Sc. lia.
      + exists (PP ++ x :: M ++ y :: SS), used, (ign ++ [X]). split; [reflexivity|].
        apply inv_add_ign; assumption.
    - (* CSS *)
      destruct (Harrives HXi) as (HXn & _ & Hstrict).
      assert (Hleaves : exists c, In c rt /\ c_from c = X).
      { destruct (Hbety X HXj) as (k0 & c0 & Hk0 & Pc0 & Hfrom0 & _).
        exists c0. split; [apply (Hrtall k0 c0); [lia|exact Pc0]|exact Hfrom0]. }
      right.
      destruct (css_second_total X (css_first X rf None) rt (PP ++ x :: M ++ y :: SS) i j used ign Hleaves)
        as [E|(cx & cy & Hfirst & Hin2 & Hfrom & Hcb & E)]; rewrite E; cbv beta iota zeta.
      + exists (PP ++ x :: M ++ y :: SS), used, (ign ++ [X]). split; [reflexivity|].
        apply inv_add_ign; assumption.
      + destruct (css_first_in _ _ _ _ Hfirst) as [Hno|(Hin1 & Hto & Hcu)]; [discriminate|].
        rewrite (surgery_from _ PP M SS x y i LP).
        rewrite (surgery_to _ PP M SS _ y i j LP LJ).
        rewrite (surgery_erase_open _ PP M SS _ _ i j LP LJ).
        destruct (leg_range_in d s p x bx ex tx trx kbx kex rf cx Hwf Hatx Hrf Hin1) as (k1 & Hk1 & Pc1).
        destruct (leg_range_in d s p y by_ ey ty try kby key rt cy Hwf Haty Hrt Hin2) as (k2 & Hk2 & Pc2).
        pose proof (Hstrict cx k1 Pc1 Hk1 Hto) as Hklt.
        destruct (at_pos_basic d trx k1 cx Pc1) as [_ Sc1].
        destruct (at_pos_basic d try k2 cy Pc2) as [_ Sc2].
        eexists _, _, _. split; [reflexivity|]. split.
        * split; [|split; assumption].
          apply (finish d s p acc egr bd a e _ L1 [_] L2).
          apply (rewrite_pair d s p acc egr bd Hwf Hmw a e L1 x M y L2 _ _
                   bx ex tx trx kbx kex by_ ey ty try kby key cx k1 cy k2 HP Hatx Haty Pc1 Hk1 Hcu Pc2 Hk2 Hcb);
            try assumption; try reflexivity. congruence.
        * unfold mu. rewrite Mjs_pair, Mjs_two.
          rewrite (leg_w_eq x bx ex Hbx Hex), (leg_w_eq y by_ ey Hby Hey).
          rewrite (leg_w_eq (set_walk (set_exit x cx) 0 0) bx cx Hbx eq_refl).
          rewrite (leg_w_eq (set_enter y cy) cy ey eq_refl Hey).
          rewrite Sbx, Sex, Sby, Sey, Sc1, Sc2. lia.
  Qed.

  Lemma optimize_total_gen : forall fuel js used ign, inv js ign -> (mu js ign < fuel)%nat ->
    exists js' used', optimize fuel d js used ign = OptDone js' used'.
  Proof.
    induction fuel as [|f IH]; intros js used ign Hinv Hlt; [lia|].
    destruct (round f js used ign Hinv) as [H|(js1 & used1 & ign1 & E & Hinv1 & Hmu)]; [exact H|].
    rewrite E. apply IH; [exact Hinv1|lia].
  Qed.
End Round.

(* ---- the theorems ---- *)

(* explicit sufficient fuel: one round per stop that can be ignored, one per connection a leg can
   lose, and the round that finds nothing *)
Theorem optimize_total_fuel : forall fuel d s p acc egr bestdep js,
  wf_data_b d = true -> 0 <= q_minw p ->
  journey_ok_b d s p acc egr bestdep js = true ->
  (length (d_nodes d) + (length js - 2) * length (all_conns d) < fuel)%nat ->
  exists js' used, optimize fuel d js [] [] = OptDone js' used.
Proof.
  intros fuel d s p acc egr bd js Hwf Hmw Hok Hfuel.
  apply (optimize_total_gen d s p acc egr bd Hwf Hmw fuel js [] []).
  - split; [exact Hok|]. split; [constructor|]. intros z [].
  - pose proof (mu_start d s p acc egr bd js Hok) as Hmu. lia.
Qed.

(* OPT_FUEL is enough for journeys of up to 4 * (stops + 1) legs *)
Theorem optimize_total_wide : forall d s p acc egr bestdep js,
  wf_data_b d = true -> 0 <= q_minw p ->
  journey_ok_b d s p acc egr bestdep js = true ->
  (length js <= 4 * S (length (d_nodes d)) + 2)%nat ->
  exists js' used, optimize (OPT_FUEL d) d js [] [] = OptDone js' used.
Proof.
  intros d s p acc egr bd js Hwf Hmw Hok Hlen.
  apply (optimize_total_fuel (OPT_FUEL d) d s p acc egr bd js Hwf Hmw Hok).
  unfold OPT_FUEL.
  set (N := length (d_nodes d)) in *. set (C := length (all_conns d)).
  assert (H1 : ((length js - 2) * C <= (4 * S N) * C)%nat) by (apply Nat.mul_le_mono_r; lia).
  lia.
Qed.

Theorem optimize_total : forall d s p acc egr bestdep js,
  wf_data_b d = true -> 0 <= q_minw p ->
  journey_ok_b d s p acc egr bestdep js = true ->
  (length js <= S (S (length (d_nodes d))))%nat ->
  exists js' used, optimize (OPT_FUEL d) d js [] [] = OptDone js' used.
Proof.
  intros d s p acc egr bd js Hwf Hmw Hok Hlen.
  apply (optimize_total_wide d s p acc egr bd js Hwf Hmw Hok). lia.
Qed.

(* with Rewrites.v: the result is again a valid journey *)
Corollary optimize_total_valid : forall d s p acc egr bestdep js,
  wf_data_b d = true -> 0 <= q_minw p ->
  journey_ok_b d s p acc egr bestdep js = true ->
  (length js <= S (S (length (d_nodes d))))%nat ->
  exists js' used, optimize (OPT_FUEL d) d js [] [] = OptDone js' used /\
                   journey_ok_b d s p acc egr bestdep js' = true.
Proof.
  intros d s p acc egr bd js Hwf Hmw Hok Hlen.
  destruct (optimize_total d s p acc egr bd js Hwf Hmw Hok Hlen) as (js' & used & H).
  exists js', used. split; [exact H|].
  apply (optimize_preserves (OPT_FUEL d) d s p acc egr bd js js' used Hwf Hmw Hok H).
Qed.

Print Assumptions optimize_total.
Print Assumptions optimize_fuel_mono.
