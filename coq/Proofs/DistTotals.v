(* Proofs/DistTotals.v — C06, walking DISTANCE totals: for every route produced by [emit] from a journey of the
   shape  access . legs+ . egress  that rides no line of mode 'transferable', totalNonTransitDistance, accessDistance,
   egressDistance and transferWalkingDistance are the sums of the distances of the corresponding walking steps ([SpecDist.walk_dists_ok_b]).

   Structure of the proof (mirrors Totals.v)
   - [emit_access_d] / [emit_leg_d] / [emit_egress_d] characterise the four distance accumulators
     [e_twalkd], [e_accd], [e_egrd], [e_ttrd] of [emit_step] for the three kinds of journey step; the step lists come from
     [Totals.emit_access] / [Totals.emit_leg] / [Totals.emit_egress].
   - [legs_loop_d] is the loop invariant, by induction on the legs that remain: folding [walk_dist_step] over the
     steps appended by the rest of the loop adds to the first component what the loop adds to [e_twalkd], leaves the
     access component alone (and the loop leaves [e_accd] alone), adds the final [e_egrd] to the third, and adds to the fourth what the loop adds to [e_ttrd] (transfer walks only).
   - [C06_walk_dists] peels the access walk; [calc_single_walk_dists] / [alternatives_walk_dists] lift it through
     [Compose.journey_ok_shape], [RevInv.calc_single_ok], [Rewrites.optimize_preserves] and the invariant of
     alternativesRouting ([AltProofs.alt_ok_inv], [inv_routes]), exactly as Compose.v does for the time totals.

   Remarks on the model's distance bookkeeping (reverse_journey.cpp as it is)
   - accessDistance / egressDistance are ASSIGNED, not accumulated; the identity needs exactly one access and one
     egress walk, which [shape_ok] gives.
   - a leg on a transferable line adds its in-vehicle distance to totalWalkingDistance (and to the transfer distance)
     only when the path has segment distances; hence the exclusion of [rides_transferable] routes.
   - [e_ttrd] (transferDistance) used to start at -1, so transferDistance = (sum of transfer walk distances) - 1
     (defect D16, found here, fixed in the C++; [emit_init] now has [e_ttrd := 0]) and is now the fourth component of
     [walk_dists_ok_b].  No extra hypothesis beyond [shape_ok] is needed. *)
From Coq Require Import List ZArith Bool Arith Lia.
From TrV Require Import Spec SpecDist Proofs.Totals.
Import ListNotations.
Local Open Scope Z_scope.

(* ---------------------------------------------------------------------------------------------- *)
(* [emit_step]: the distance accumulators, one kind of journey step at a time                       *)

Lemma emit_access_d : forall d p bd count j nxt,
  is_walk j = true ->
  let st' := emit_step d p bd count emit_init 0 j nxt in
  e_twalkd st' = js_dist j /\ e_accd st' = js_dist j /\ e_egrd st' = 0 /\ e_ttrd st' = 0.
Proof.
  intros d p bd count j nxt Hw st'. subst st'.
  destruct (is_walk_inv j Hw) as [Hen _].
  unfold emit_step. rewrite Hen. split_all; reflexivity.
Qed.

Lemma emit_egress_d : forall d p bd count st i j nxt,
  is_walk j = true -> i <> 0%nat ->
  let st' := emit_step d p bd count st i j nxt in
  e_twalkd st' = e_twalkd st + js_dist j /\ e_accd st' = e_accd st /\ e_egrd st' = js_dist j /\
  e_ttrd st' = e_ttrd st.
Proof.
  intros d p bd count st i j nxt Hw Hi st'. subst st'.
  destruct (is_walk_inv j Hw) as [Hen _].
  apply Nat.eqb_neq in Hi.
  unfold emit_step. rewrite Hen, Hi. split_all; reflexivity.
Qed.

Lemma emit_leg_d : forall d p bd count st i j nxt en ex t,
  js_enter j = Some en -> js_exit j = Some ex -> js_trip j = Some t ->
  let st' := emit_step d p bd count st i j nxt in
  let nl := Nat.ltb (S (S i)) count in
  e_accd st' = e_accd st /\ e_egrd st' = e_egrd st /\
  (is_transferable_trip d t = false ->
     e_twalkd st' = e_twalkd st + (if nl then js_dist j else 0) /\
     e_ttrd st' = e_ttrd st + (if nl then js_dist j else 0)).
Proof.
  intros d p bd count st i j nxt en ex t Hen Hex Htr st' nl. subst st' nl.
  unfold emit_step. rewrite Hen, Hex, Htr. cbv beta iota zeta.
  destruct (Nat.ltb (S (S i)) count); cbn [e_accd e_egrd e_twalkd e_ttrd]; split_all; try reflexivity.
  - intros Htf. rewrite Htf, !andb_false_r. split; reflexivity.
  - intros Htf. rewrite Htf, !andb_false_r. split; lia.
Qed.

(* ---------------------------------------------------------------------------------------------- *)
(* the loop invariant                                                                               *)

Lemma quad_eq : forall (a a' b b' c c' e e' : Z),
  a = a' -> b = b' -> c = c' -> e = e' -> (a, b, c, e) = (a', b', c', e').
Proof. intros a a' b b' c c' e e' H1 H2 H3 H4. subst. reflexivity. Qed.

Lemma legs_loop_d : forall d p bd count e, is_walk e = true ->
  forall legs st i,
    forallb (leg_in_data d) legs = true ->
    (1 <= i)%nat -> (i + length legs + 1 = count)%nat ->
    exists news,
      e_steps (emit_loop d p bd count st i (legs ++ [e])) = e_steps st ++ news /\
      e_accd (emit_loop d p bd count st i (legs ++ [e])) = e_accd st /\
      (existsb (tr_step d) news = false ->
       forall w a g t,
         fold_left walk_dist_step news (w, a, g, t) =
         (w + (e_twalkd (emit_loop d p bd count st i (legs ++ [e])) - e_twalkd st), a,
          g + e_egrd (emit_loop d p bd count st i (legs ++ [e])),
          t + (e_ttrd (emit_loop d p bd count st i (legs ++ [e])) - e_ttrd st))).
Proof.
  intros d p bd count e He.
  induction legs as [|j legs IH]; intros st i Hall Hi Hcnt.
  - (* only the egress walk is left *)
    cbn [app emit_loop hd_error].
    destruct (emit_egress d p bd count st i e None He ltac:(lia)) as (Hs & _).
    destruct (emit_egress_d d p bd count st i e None He ltac:(lia)) as (Hw & Ha & Hg & Ht).
    remember (emit_step d p bd count st i e None) as st' eqn:Est'.
    eexists. split; [exact Hs|]. split; [exact Ha|].
    intros _ w a g t. cbn [fold_left walk_dist_step Nat.eqb].
    rewrite Hw, Hg, Ht. apply quad_eq; lia.
  - (* a leg *)
    cbn [forallb] in Hall. apply andb_true_iff in Hall. destruct Hall as [Hj Hall].
    destruct (leg_in_data_inv d j Hj) as (en & ex & t & b & Hen & Hex & Htr & _ & _).
    cbn [app emit_loop]. cbn [length] in Hcnt.
    remember (hd_error (legs ++ [e])) as nxt eqn:Enxt.
    destruct (emit_leg d p bd count st i j nxt en ex t Hen Hex Htr) as (ivd & Hs & _).
    destruct (emit_leg_d d p bd count st i j nxt en ex t Hen Hex Htr) as (Ha & Hg & Hntf).
    remember (emit_step d p bd count st i j nxt) as st1 eqn:Est1.
    destruct (IH st1 (S i) Hall ltac:(lia) ltac:(lia)) as (news1 & Hs1 & Ha1 & Hf1).
    remember (emit_loop d p bd count st1 (S i) (legs ++ [e])) as st' eqn:Est'.
    exists ((SBoard t (c_seq en) (c_seq en) (c_from en) (c_dep en) (c_dep en - e_tarr st) ::
             SUnboard t (c_seq ex) (S (c_seq ex)) (c_to ex) (c_arr ex) (c_arr ex - c_dep en) ivd ::
             (if Nat.ltb (S (S i)) count
              then [SWalk 2 (js_walk j) (js_dist j) (c_arr ex) (c_arr ex + js_walk j)
                          (c_arr ex + js_walk j + next_minw p nxt)]
              else [])) ++ news1).
    split; [rewrite Hs1, Hs, <- app_assoc; reflexivity|].
    split; [rewrite Ha1; exact Ha|].
    intros Hx w a g t0.
    rewrite existsb_app in Hx. apply orb_false_iff in Hx. destruct Hx as [Hx Hx1].
    cbn [existsb tr_step] in Hx. apply orb_false_iff in Hx. destruct Hx as [Htf _].
    destruct (Hntf Htf) as [Hw Ht]. specialize (Hf1 Hx1).
    rewrite fold_left_app.
    destruct (Nat.ltb (S (S i)) count);
      cbn [fold_left walk_dist_step Nat.eqb]; rewrite Hf1; apply quad_eq; lia.
Qed.

(* ---------------------------------------------------------------------------------------------- *)
(* C06, walking distances                                                                           *)

Theorem C06_walk_dists : forall (d : data) (p : params) (bestdep : Z) (js : list jstep),
  shape_ok d js = true -> walk_dists_ok_b d (emit d p bestdep js) = true.
Proof.
  intros d p bd js Hshape.
  destruct (shape_ok_inv d js Hshape) as (a & legs & e & Ejs & Ha & He & Hne & Hall).
  subst js. unfold emit.
  remember (length (a :: legs ++ [e])) as count eqn:Ecount.
  assert (Hcount : (1 + length legs + 1 = count)%nat).
  { subst count. cbn [length]. rewrite app_length. cbn [length]. lia. }
  cbn [emit_loop].
  destruct (emit_access d p bd count a (hd_error (legs ++ [e])) Ha) as (Hs0 & _).
  destruct (emit_access_d d p bd count a (hd_error (legs ++ [e])) Ha) as (Aw & Aa & Ag & At).
  remember (emit_step d p bd count emit_init 0 a (hd_error (legs ++ [e]))) as st1 eqn:Est1.
  destruct (legs_loop_d d p bd count e He legs st1 1%nat Hall ltac:(lia) Hcount)
    as (news & Hs & Hacc & Hfold).
  remember (emit_loop d p bd count st1 1 (legs ++ [e])) as st' eqn:Est'.
  cbv zeta.
  unfold walk_dists_ok_b, rides_transferable, walk_dist_sums.
  cbn [rt_dep rt_arr rt_ttt rt_tdist rt_tivt rt_tivd rt_tnt rt_tntd rt_nboard rt_ntransf rt_trwalk
       rt_trdist rt_acc rt_accd rt_egr rt_egrd rt_trwait rt_fwait rt_twait rt_steps].
  change (existsb (fun s : step => match s with
                                   | SBoard t _ _ _ _ _ => is_transferable_trip d t
                                   | _ => false
                                   end) (e_steps st'))
    with (existsb (tr_step d) (e_steps st')).
  rewrite Hs, Hs0. cbn [app existsb tr_step orb fold_left walk_dist_step Nat.eqb].
  destruct (existsb (tr_step d) news) eqn:Hx; [reflexivity|].
  rewrite (Hfold eq_refl).
  repeat (apply andb_true_iff; split); apply Z.eqb_eq; lia.
Qed.

(* ---------------------------------------------------------------------------------------------- *)
(* the lifts: every route of calculateSingle / alternativesRouting                                  *)

From TrV Require Import Proofs.Rewrites Proofs.RevInv Proofs.RouteValid Proofs.AltProofs Proofs.Compose.

Theorem calc_single_walk_dists : forall d s p acc egr fresh r used,
  wf_data_b d = true -> wf_tables_b d p acc egr = true -> wf_params_b p = true ->
  calc_single d (conn_set d s) p acc egr fresh = Ok (r, used) -> walk_dists_ok_b d r = true.
Proof.
  intros d s p acc egr fresh r used Hwf Htab Hp Hcalc.
  destruct (calc_single_ok d s p acc egr fresh (r, used) Hwf Htab Hp Hcalc)
    as (arr & bestdep & ar & legs & er & el & js1 & used' & Hj & Hopt & Hres & _).
  inversion Hres; subst r used'.
  apply C06_walk_dists. apply (journey_ok_shape d s p acc egr bestdep).
  apply (optimize_preserves (OPT_FUEL d) d s p acc egr bestdep _ js1 used Hwf
           (RouteValid.wf_params_minw p Hp) Hj Hopt).
Qed.

Theorem alternatives_walk_dists : forall d s p acc egr rs total,
  wf_data_b d = true -> wf_tables_b d p acc egr = true -> wf_params_b p = true ->
  alternatives d (conn_set d s) p acc egr = Ok (rs, total) ->
  forall r, In r rs -> walk_dists_ok_b d r = true.
Proof.
  intros d s p acc egr rs total Hwf Htab Hp H r Hin.
  apply alt_ok_inv in H. destruct H as (r1 & used1 & st & Hc & HI & Hrs & _).
  destruct (inv_routes _ _ _ _ _ _ _ _ _ HI) as (tl1 & Hr & Htl).
  subst rs. rewrite Hr in Hin. destruct Hin as [Heq|Hin].
  - subst r. apply (calc_single_walk_dists d s p acc egr true r1 used1 Hwf Htab Hp Hc).
  - pose proof (Htl r Hin) as Hrc. unfold recalc in Hrc. destruct Hrc as (comb & used & Hcalc & _).
    destruct (recalc_wf d s p acc egr r1 used1 comb Hwf Htab Hp Hc) as [Htab' Hp'].
    apply (calc_single_walk_dists d s _ acc egr false r used Hwf Htab' Hp' Hcalc).
Qed.

(* ---------------------------------------------------------------------------------------------- *)
(* non-vacuity: the route of the example query rides no transferable line, walks 120 m + 0 m + 60 m,
   and the checker accepts it *)
From TrV Require Import Examples Calc.
Example walk_dists_nonvacuous :
  match calc_single ex_data (conn_set ex_data scen_all) (ex_params true 35000) ex_acc ex_egr true with
  | Ok (r, _) =>
      rides_transferable ex_data r = false /\
      walk_dist_sums (rt_steps r) = (rt_tntd r, rt_accd r, rt_egrd r, rt_trdist r) /\
      walk_dists_ok_b ex_data r = true
  | _ => False
  end.
Proof. vm_compute. repeat split; reflexivity. Qed.

(* the checker is not trivially true: the same route with accessDistance off by one is rejected *)
Definition bump_accd (r : route) : route :=
  {| rt_dep := rt_dep r; rt_arr := rt_arr r; rt_ttt := rt_ttt r; rt_tdist := rt_tdist r; rt_tivt := rt_tivt r;
     rt_tivd := rt_tivd r; rt_tnt := rt_tnt r; rt_tntd := rt_tntd r; rt_nboard := rt_nboard r;
     rt_ntransf := rt_ntransf r; rt_trwalk := rt_trwalk r; rt_trdist := rt_trdist r; rt_acc := rt_acc r;
     rt_accd := rt_accd r + 1; rt_egr := rt_egr r; rt_egrd := rt_egrd r; rt_trwait := rt_trwait r;
     rt_fwait := rt_fwait r; rt_twait := rt_twait r; rt_steps := rt_steps r |}.
Example walk_dists_rejects :
  match calc_single ex_data (conn_set ex_data scen_all) (ex_params true 35000) ex_acc ex_egr true with
  | Ok (r, _) => walk_dists_ok_b ex_data (bump_accd r) = false
  | _ => False
  end.
Proof. vm_compute. reflexivity. Qed.

(* [shape_ok] is used, not decoration: accessDistance / egressDistance are ASSIGNED by the emission loop, so a
   journey that ended in two walks (which rebuild never produces) would report only the last one as egress.
   With no transfer walk the transfer distance is 0 (it was -1 before the D16 fix). *)
Example walk_dists_needs_shape :
  let c1 := {| c_trip := 1; c_seq := 1; c_from := 1; c_to := 2; c_dep := 36000; c_arr := 36300;
               c_cb := true; c_cu := true; c_minw := -1 |} in
  let good := [walk_step (row 1 100 120); mk_js (Some c1) (Some c1) 1 0 true 0; walk_step (row 2 50 60)] in
  let bad := good ++ [walk_step (row 2 30 40)] in
  shape_ok ex_data good = true /\
  walk_dists_ok_b ex_data (emit ex_data (ex_params true 35000) 35900 good) = true /\
  rt_trdist (emit ex_data (ex_params true 35000) 35900 good) = 0 /\
  shape_ok ex_data bad = false /\
  walk_dists_ok_b ex_data (emit ex_data (ex_params true 35000) 35900 bad) = false /\
  rt_egrd (emit ex_data (ex_params true 35000) 35900 bad) = 40.
Proof. vm_compute. repeat split; reflexivity. Qed.

(* a route with a non-zero transfer walk (30 s, 70 m between the two rides): transferWalkingDistance is exactly that
   walk's distance, the total walking distance is 120 + 70 + 60, and the checker accepts the route; with the transfer
   total off by one (the pre-D16 value) it is rejected *)
Definition set_trdist (r : route) (v : Z) : route :=
  {| rt_dep := rt_dep r; rt_arr := rt_arr r; rt_ttt := rt_ttt r; rt_tdist := rt_tdist r; rt_tivt := rt_tivt r;
     rt_tivd := rt_tivd r; rt_tnt := rt_tnt r; rt_tntd := rt_tntd r; rt_nboard := rt_nboard r;
     rt_ntransf := rt_ntransf r; rt_trwalk := rt_trwalk r; rt_trdist := v; rt_acc := rt_acc r;
     rt_accd := rt_accd r; rt_egr := rt_egr r; rt_egrd := rt_egrd r; rt_trwait := rt_trwait r;
     rt_fwait := rt_fwait r; rt_twait := rt_twait r; rt_steps := rt_steps r |}.
Example walk_dists_transfer_walk :
  let c1 := {| c_trip := 1; c_seq := 1; c_from := 1; c_to := 2; c_dep := 36000; c_arr := 36300;
               c_cb := true; c_cu := true; c_minw := -1 |} in
  let c2 := {| c_trip := 2; c_seq := 1; c_from := 2; c_to := 4; c_dep := 36400; c_arr := 36700;
               c_cb := true; c_cu := true; c_minw := -1 |} in
  let js := [walk_step (row 1 100 120); mk_js (Some c1) (Some c1) 1 30 false 70;
             mk_js (Some c2) (Some c2) 2 0 false 0; walk_step (row 4 50 60)] in
  let r := emit ex_data (ex_params true 35000) 35900 js in
  shape_ok ex_data js = true /\ rides_transferable ex_data r = false /\
  In (SWalk 2 30 70 36300 36330 36390) (rt_steps r) /\
  walk_dist_sums (rt_steps r) = (250, 120, 60, 70) /\
  rt_trdist r = 70 /\ rt_tntd r = 250 /\ rt_accd r = 120 /\ rt_egrd r = 60 /\
  walk_dists_ok_b ex_data r = true /\
  walk_dists_ok_b ex_data (set_trdist r 69) = false.
Proof. vm_compute. repeat split; try reflexivity. tauto. Qed.

Print Assumptions C06_walk_dists.
Print Assumptions calc_single_walk_dists.
Print Assumptions alternatives_walk_dists.
Print Assumptions walk_dists_nonvacuous.
Print Assumptions walk_dists_transfer_walk.
