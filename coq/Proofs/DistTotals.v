(* Proofs/DistTotals.v — C06, walking DISTANCE totals: for every route produced by [emit] from a journey of the
   shape  access . legs+ . egress  that rides no line of mode 'transferable', totalNonTransitDistance, accessDistance,
   egressDistance and transferWalkingDistance are the sums of the distances of the corresponding walking steps ([SpecDist.walk_dists_ok_b]).

   Structure of the proof (mirrors Totals.v)
   - [emit_access_d] / [emit_leg_d] / [emit_egress_d] characterise the four distance accumulators
     [e_twalkd], [e_accd], [e_egrd], [e_ttrd] of [emit_step] for the three kinds of journey step; the step lists come from
     [Totals.emit_access] / [Totals.emit_leg] / [Totals.emit_egress].
   - [legs_loop_d] is the loop invariant, by induction on the legs that remain: folding [walk_dist_step] over the
     steps appended by the rest of the loop adds to the first component what the loop adds to [e_twalkd], leaves the
     access component alone (and the loop leaves [e_accd] alone), adds the final [e_egrd] to the third, and adds to the fourth what the loop adds to [e_ttrd] (transfer walks only).
   - [C06_walk_dists] peels the access walk; [calc_single_walk_dists] / [alternatives_walk_dists] lift it through
     [Compose.journey_ok_shape], [RevInv.calc_single_ok], [Rewrites.optimize_preserves] and the invariant of
     alternativesRouting ([AltProofs.alt_ok_inv], [inv_routes]), exactly as Compose.v does for the time totals.

   Remarks on the model's distance bookkeeping (reverse_journey.cpp as it is)
   - accessDistance / egressDistance are ASSIGNED, not accumulated; the identity needs exactly one access and one
     egress walk, which [shape_ok] gives.
   - a leg on a transferable line adds its in-vehicle distance to totalWalkingDistance (and to the transfer distance)
     only when the path has segment distances; hence the exclusion of [rides_transferable] routes.
   - [e_ttrd] (transferDistance) used to start at -1, so transferDistance = (sum of transfer walk distances) - 1
     (defect D16, found here, fixed in the C++; [emit_init] now has [e_ttrd := 0]) and is now the fourth component of
     [walk_dists_ok_b].  No extra hypothesis beyond [shape_ok] is needed.

   Second part: the in-vehicle and overall distance totals ([SpecDist.vehicle_dists_ok_b], -1 = unknown)
   - [C06_vehicle_dists] (loop invariant [legs_loop_v] over the relation [vinv]) needs the genuine sums to stay away
     from the -1 marker: [seg_dists_nonneg_b d] (segment distances >= 0) and [walk_dists_nonneg_b js] (walking
     distances of the journey >= 0).  Both are necessary at this level ([vehicle_dists_wf_data_not_enough],
     [vehicle_dists_needs_walk_dists]).
   - [wf_data_b] only gives -1 <= x for segment distances, so [seg_dists_nonneg_b d] stays an explicit hypothesis of
     [calc_single_vehicle_dists] / [alternatives_vehicle_dists]; the walking distances are derived
     ([calc_single_journey]: reverse scan labels, rebuild loop and optimizeJourney only ever store the distance of a
     table row or 0). *)
From Coq Require Import List ZArith Bool Arith Lia.
From TrV Require Import Spec SpecDist Proofs.Totals.
Import ListNotations.
Local Open Scope Z_scope.

(* ---------------------------------------------------------------------------------------------- *)
(* [emit_step]: the distance accumulators, one kind of journey step at a time                       *)

Lemma emit_access_d : forall d p bd count j nxt,
  is_walk j = true ->
  let st' := emit_step d p bd count emit_init 0 j nxt in
  e_twalkd st' = js_dist j /\ e_accd st' = js_dist j /\ e_egrd st' = 0 /\ e_ttrd st' = 0.
Proof.
  intros d p bd count j nxt Hw st'. subst st'.
  destruct (is_walk_inv j Hw) as [Hen _].
  unfold emit_step. rewrite Hen. split_all; reflexivity.
Qed.

Lemma emit_egress_d : forall d p bd count st i j nxt,
  is_walk j = true -> i <> 0%nat ->
  let st' := emit_step d p bd count st i j nxt in
  e_twalkd st' = e_twalkd st + js_dist j /\ e_accd st' = e_accd st /\ e_egrd st' = js_dist j /\
  e_ttrd st' = e_ttrd st.
Proof.
  intros d p bd count st i j nxt Hw Hi st'. subst st'.
  destruct (is_walk_inv j Hw) as [Hen _].
  apply Nat.eqb_neq in Hi.
  unfold emit_step. rewrite Hen, Hi. split_all; reflexivity.
Qed.

Lemma emit_leg_d : forall d p bd count st i j nxt en ex t,
  js_enter j = Some en -> js_exit j = Some ex -> js_trip j = Some t ->
  let st' := emit_step d p bd count st i j nxt in
  let nl := Nat.ltb (S (S i)) count in
  e_accd st' = e_accd st /\ e_egrd st' = e_egrd st /\
  (is_transferable_trip d t = false ->
     e_twalkd st' = e_twalkd st + (if nl then js_dist j else 0) /\
     e_ttrd st' = e_ttrd st + (if nl then js_dist j else 0)).
Proof.
  intros d p bd count st i j nxt en ex t Hen Hex Htr st' nl. subst st' nl.
  unfold emit_step. rewrite Hen, Hex, Htr. cbv beta iota zeta.
  destruct (Nat.ltb (S (S i)) count); cbn [e_accd e_egrd e_twalkd e_ttrd]; split_all; try reflexivity.
  - intros Htf. rewrite Htf, !andb_false_r. split; reflexivity.
  - intros Htf. rewrite Htf, !andb_false_r. split; lia.
Qed.

(* ---------------------------------------------------------------------------------------------- *)
(* the loop invariant                                                                               *)

Lemma quad_eq : forall (a a' b b' c c' e e' : Z),
  a = a' -> b = b' -> c = c' -> e = e' -> (a, b, c, e) = (a', b', c', e').
Proof. intros a a' b b' c c' e e' H1 H2 H3 H4. subst. reflexivity. Qed.

Lemma legs_loop_d : forall d p bd count e, is_walk e = true ->
  forall legs st i,
    forallb (leg_in_data d) legs = true ->
    (1 <= i)%nat -> (i + length legs + 1 = count)%nat ->
    exists news,
      e_steps (emit_loop d p bd count st i (legs ++ [e])) = e_steps st ++ news /\
      e_accd (emit_loop d p bd count st i (legs ++ [e])) = e_accd st /\
      (existsb (tr_step d) news = false ->
       forall w a g t,
         fold_left walk_dist_step news (w, a, g, t) =
         (w + (e_twalkd (emit_loop d p bd count st i (legs ++ [e])) - e_twalkd st), a,
          g + e_egrd (emit_loop d p bd count st i (legs ++ [e])),
          t + (e_ttrd (emit_loop d p bd count st i (legs ++ [e])) - e_ttrd st))).
Proof.
  intros d p bd count e He.
  induction legs as [|j legs IH]; intros st i Hall Hi Hcnt.
  - (* only the egress walk is left *)
    cbn [app emit_loop hd_error].
    destruct (emit_egress d p bd count st i e None He ltac:(lia)) as (Hs & _).
    destruct (emit_egress_d d p bd count st i e None He ltac:(lia)) as (Hw & Ha & Hg & Ht).
    remember (emit_step d p bd count st i e None) as st' eqn:Est'.
    eexists. split; [exact Hs|]. split; [exact Ha|].
    intros _ w a g t. cbn [fold_left walk_dist_step Nat.eqb].
    rewrite Hw, Hg, Ht. apply quad_eq; lia.
  - (* a leg *)
    cbn [forallb] in Hall. apply andb_true_iff in Hall. destruct Hall as [Hj Hall].
    destruct (leg_in_data_inv d j Hj) as (en & ex & t & b & Hen & Hex & Htr & _ & _).
    cbn [app emit_loop]. cbn [length] in Hcnt.
    remember (hd_error (legs ++ [e])) as nxt eqn:Enxt.
    destruct (emit_leg d p bd count st i j nxt en ex t Hen Hex Htr) as (ivd & Hs & _).
    destruct (emit_leg_d d p bd count st i j nxt en ex t Hen Hex Htr) as (Ha & Hg & Hntf).
    remember (emit_step d p bd count st i j nxt) as st1 eqn:Est1.
    destruct (IH st1 (S i) Hall ltac:(lia) ltac:(lia)) as (news1 & Hs1 & Ha1 & Hf1).
    remember (emit_loop d p bd count st1 (S i) (legs ++ [e])) as st' eqn:Est'.
    exists ((SBoard t (c_seq en) (c_seq en) (c_from en) (c_dep en) (c_dep en - e_tarr st) ::
             SUnboard t (c_seq ex) (S (c_seq ex)) (c_to ex) (c_arr ex) (c_arr ex - c_dep en) ivd ::
             (if Nat.ltb (S (S i)) count
              then [SWalk 2 (js_walk j) (js_dist j) (c_arr ex) (c_arr ex + js_walk j)
                          (c_arr ex + js_walk j + next_minw p nxt)]
              else [])) ++ news1).
    split; [rewrite Hs1, Hs, <- app_assoc; reflexivity|].
    split; [rewrite Ha1; exact Ha|].
    intros Hx w a g t0.
    rewrite existsb_app in Hx. apply orb_false_iff in Hx. destruct Hx as [Hx Hx1].
    cbn [existsb tr_step] in Hx. apply orb_false_iff in Hx. destruct Hx as [Htf _].
    destruct (Hntf Htf) as [Hw Ht]. specialize (Hf1 Hx1).
    rewrite fold_left_app.
    destruct (Nat.ltb (S (S i)) count);
      cbn [fold_left walk_dist_step Nat.eqb]; rewrite Hf1; apply quad_eq; lia.
Qed.

(* ---------------------------------------------------------------------------------------------- *)
(* C06, walking distances                                                                           *)

Theorem C06_walk_dists : forall (d : data) (p : params) (bestdep : Z) (js : list jstep),
  shape_ok d js = true -> walk_dists_ok_b d (emit d p bestdep js) = true.
Proof.
  intros d p bd js Hshape.
  destruct (shape_ok_inv d js Hshape) as (a & legs & e & Ejs & Ha & He & Hne & Hall).
  subst js. unfold emit.
  remember (length (a :: legs ++ [e])) as count eqn:Ecount.
  assert (Hcount : (1 + length legs + 1 = count)%nat).
  { subst count. cbn [length]. rewrite app_length. cbn [length]. lia. }
  cbn [emit_loop].
  destruct (emit_access d p bd count a (hd_error (legs ++ [e])) Ha) as (Hs0 & _).
  destruct (emit_access_d d p bd count a (hd_error (legs ++ [e])) Ha) as (Aw & Aa & Ag & At).
  remember (emit_step d p bd count emit_init 0 a (hd_error (legs ++ [e]))) as st1 eqn:Est1.
  destruct (legs_loop_d d p bd count e He legs st1 1%nat Hall ltac:(lia) Hcount)
    as (news & Hs & Hacc & Hfold).
  remember (emit_loop d p bd count st1 1 (legs ++ [e])) as st' eqn:Est'.
  cbv zeta.
  unfold walk_dists_ok_b, rides_transferable, walk_dist_sums.
  cbn [rt_dep rt_arr rt_ttt rt_tdist rt_tivt rt_tivd rt_tnt rt_tntd rt_nboard rt_ntransf rt_trwalk
       rt_trdist rt_acc rt_accd rt_egr rt_egrd rt_trwait rt_fwait rt_twait rt_steps].
  change (existsb (fun s : step => match s with
                                   | SBoard t _ _ _ _ _ => is_transferable_trip d t
                                   | _ => false
                                   end) (e_steps st'))
    with (existsb (tr_step d) (e_steps st')).
  rewrite Hs, Hs0. cbn [app existsb tr_step orb fold_left walk_dist_step Nat.eqb].
  destruct (existsb (tr_step d) news) eqn:Hx; [reflexivity|].
  rewrite (Hfold eq_refl).
  repeat (apply andb_true_iff; split); apply Z.eqb_eq; lia.
Qed.

(* ---------------------------------------------------------------------------------------------- *)
(* the lifts: every route of calculateSingle / alternativesRouting                                  *)

From TrV Require Import Proofs.Rewrites Proofs.RevInv Proofs.RouteValid Proofs.AltProofs Proofs.Compose.

Theorem calc_single_walk_dists : forall d s p acc egr fresh r used,
  wf_data_b d = true -> wf_tables_b d p acc egr = true -> wf_params_b p = true ->
  calc_single d (conn_set d s) p acc egr fresh = Ok (r, used) -> walk_dists_ok_b d r = true.
Proof.
  intros d s p acc egr fresh r used Hwf Htab Hp Hcalc.
  destruct (calc_single_ok d s p acc egr fresh (r, used) Hwf Htab Hp Hcalc)
    as (arr & bestdep & ar & legs & er & el & js1 & used' & Hj & Hopt & Hres & _).
  inversion Hres; subst r used'.
  apply C06_walk_dists. apply (journey_ok_shape d s p acc egr bestdep).
  apply (optimize_preserves (OPT_FUEL d) d s p acc egr bestdep _ js1 used Hwf
           (RouteValid.wf_params_minw p Hp) Hj Hopt).
Qed.

Theorem alternatives_walk_dists : forall d s p acc egr rs total,
  wf_data_b d = true -> wf_tables_b d p acc egr = true -> wf_params_b p = true ->
  alternatives d (conn_set d s) p acc egr = Ok (rs, total) ->
  forall r, In r rs -> walk_dists_ok_b d r = true.
Proof.
  intros d s p acc egr rs total Hwf Htab Hp H r Hin.
  apply alt_ok_inv in H. destruct H as (r1 & used1 & st & Hc & HI & Hrs & _).
  destruct (inv_routes _ _ _ _ _ _ _ _ _ HI) as (tl1 & Hr & Htl).
  subst rs. rewrite Hr in Hin. destruct Hin as [Heq|Hin].
  - subst r. apply (calc_single_walk_dists d s p acc egr true r1 used1 Hwf Htab Hp Hc).
  - pose proof (Htl r Hin) as Hrc. unfold recalc in Hrc. destruct Hrc as (comb & used & Hcalc & _).
    destruct (recalc_wf d s p acc egr r1 used1 comb Hwf Htab Hp Hc) as [Htab' Hp'].
    apply (calc_single_walk_dists d s _ acc egr false r used Hwf Htab' Hp' Hcalc).
Qed.

(* ============================================================================================== *)
(* C06, in-vehicle and overall distance totals ([SpecDist.vehicle_dists_ok_b])                        *)
(* ============================================================================================== *)

(* The running totals use -1 as the "unknown" marker, so the identity needs every genuine partial sum to stay away
   from -1.  The natural sufficient condition: segment distances of the ridden paths and the walking distances of the
   journey are non-negative.  [wf_data_b] does NOT give the first (it only asks -1 <= x of every segment distance:
   see [vehicle_dists_wf_data_not_enough] below); the second follows, for the journeys calc_single builds, from
   [rows_ok] of the access / egress / transfer tables ([calc_single_journey] below). *)
Definition seg_dists_nonneg_b (d : data) : bool :=
  forallb (fun pth => forallb (fun x => 0 <=? x) (p_dists pth)) (d_paths d).

Definition walk_dists_nonneg_b (js : list jstep) : bool := forallb (fun j => 0 <=? js_dist j) js.

Definition dists_of (d : data) (t : nat) : list Z :=
  match find_trip d t with Some tr => trip_dists d tr | None => [] end.

Definition leg_have (d : data) (t : nat) (ex : conn) : bool := Nat.ltb (c_seq ex - 1) (length (dists_of d t)).

Definition leg_ivd (d : data) (t : nat) (en ex : conn) : Z :=
  if leg_have d t ex
  then sum_dists (dists_of d t) (c_seq en - 1)%nat (c_seq ex - (c_seq en - 1))%nat else -1.

Lemma dists_of_nonneg : forall d, seg_dists_nonneg_b d = true -> forall t i, 0 <= nth i (dists_of d t) 0.
Proof.
  intros d H t i. unfold dists_of.
  assert (Hnil : 0 <= nth i (@nil Z) 0) by (destruct i; cbn [nth]; lia).
  destruct (find_trip d t) as [tr|]; [|exact Hnil].
  unfold trip_dists. destruct (find_path d (t_path tr)) as [pth|] eqn:Ef; [|exact Hnil].
  unfold find_path in Ef. apply find_some in Ef. destruct Ef as [Hin _].
  unfold seg_dists_nonneg_b in H. rewrite forallb_forall in H. specialize (H pth Hin).
  rewrite forallb_forall in H.
  destruct (nth_in_or_default i (p_dists pth) 0) as [Hn|Hn].
  - apply Z.leb_le. apply H. exact Hn.
  - rewrite Hn. lia.
Qed.

Lemma sum_dists_nonneg : forall l, (forall i, 0 <= nth i l 0) -> forall cnt from, 0 <= sum_dists l from cnt.
Proof.
  intros l H. induction cnt as [|c IH]; intros from; cbn [sum_dists]; [lia|].
  pose proof (H from). pose proof (IH (S from)). lia.
Qed.

Lemma leg_ivd_cases : forall d t en ex, seg_dists_nonneg_b d = true ->
  (leg_have d t ex = true /\ 0 <= leg_ivd d t en ex) \/ (leg_have d t ex = false /\ leg_ivd d t en ex = -1).
Proof.
  intros d t en ex H. unfold leg_ivd. destruct (leg_have d t ex); [left|right]; split; try reflexivity.
  apply sum_dists_nonneg. apply dists_of_nonneg. exact H.
Qed.

(* [emit_step]: the two totals and the emitted in-vehicle distance *)
Lemma emit_access_v : forall d p bd count j nxt,
  is_walk j = true ->
  let st' := emit_step d p bd count emit_init 0 j nxt in
  e_tivd st' = 0 /\ e_tdist st' = js_dist j.
Proof.
  intros d p bd count j nxt Hw st'. subst st'.
  destruct (is_walk_inv j Hw) as [Hen _].
  unfold emit_step. rewrite Hen. split; reflexivity.
Qed.

Lemma emit_egress_v : forall d p bd count st i j nxt,
  is_walk j = true -> i <> 0%nat ->
  let st' := emit_step d p bd count st i j nxt in
  e_tivd st' = e_tivd st /\
  e_tdist st' = (if e_tdist st =? -1 then e_tdist st else e_tdist st + js_dist j).
Proof.
  intros d p bd count st i j nxt Hw Hi st'. subst st'.
  destruct (is_walk_inv j Hw) as [Hen _].
  apply Nat.eqb_neq in Hi.
  unfold emit_step. rewrite Hen, Hi. split; reflexivity.
Qed.

Lemma emit_leg_v : forall d p bd count st i j nxt en ex t,
  js_enter j = Some en -> js_exit j = Some ex -> js_trip j = Some t ->
  is_transferable_trip d t = false ->
  let st' := emit_step d p bd count st i j nxt in
  let nl := Nat.ltb (S (S i)) count in
  let have := leg_have d t ex in
  let ivd := leg_ivd d t en ex in
  let td := if have then (if e_tdist st =? -1 then e_tdist st else e_tdist st + ivd) else -1 in
  e_steps st' = e_steps st ++
     SBoard t (c_seq en) (c_seq en) (c_from en) (c_dep en) (c_dep en - e_tarr st) ::
     SUnboard t (c_seq ex) (S (c_seq ex)) (c_to ex) (c_arr ex) (c_arr ex - c_dep en) ivd ::
     (if nl then [SWalk 2 (js_walk j) (js_dist j) (c_arr ex) (c_arr ex + js_walk j)
                        (c_arr ex + js_walk j + next_minw p nxt)]
      else []) /\
  e_tivd st' = (if have then (if e_tivd st =? -1 then e_tivd st else e_tivd st + ivd) else -1) /\
  e_tdist st' = (if nl then (if td =? -1 then td else td + js_dist j) else td).
Proof.
  intros d p bd count st i j nxt en ex t Hen Hex Htr Htf st' nl have ivd td.
  subst st' nl td ivd have. unfold leg_ivd, leg_have, dists_of.
  unfold emit_step. rewrite Hen, Hex, Htr. cbv beta iota zeta. rewrite Htf.
  destruct (Nat.ltb (S (S i)) count); cbn [e_steps e_tivd e_tdist]; split_all; try reflexivity.
  rewrite <- app_assoc. reflexivity.
Qed.

(* the relation between the running totals and what the checker has accumulated so far:
   [sv] in-vehicle sum, [unk] an unknown leg was seen, [w] sum of the walking distances *)
Definition vinv (st : emit_st) (sv : Z) (unk : bool) (w : Z) : Prop :=
  if unk then e_tivd st = -1 /\ e_tdist st = -1
  else e_tivd st = sv /\ e_tdist st = sv + w /\ 0 <= sv /\ 0 <= w.

Definition wd1 (q : Z * Z * Z * Z) : Z := let '(w, _, _, _) := q in w.

Lemma legs_loop_v : forall d p bd count e,
  is_walk e = true -> seg_dists_nonneg_b d = true -> 0 <= js_dist e ->
  forall legs st i,
    forallb (leg_in_data d) legs = true -> walk_dists_nonneg_b legs = true ->
    (1 <= i)%nat -> (i + length legs + 1 = count)%nat ->
    exists news,
      e_steps (emit_loop d p bd count st i (legs ++ [e])) = e_steps st ++ news /\
      (existsb (tr_step d) news = false ->
       forall sv unk q, vinv st sv unk (wd1 q) ->
         vinv (emit_loop d p bd count st i (legs ++ [e]))
              (fst (fold_left ivd_step news (sv, unk))) (snd (fold_left ivd_step news (sv, unk)))
              (wd1 (fold_left walk_dist_step news q))).
Proof.
  intros d p bd count e He Hseg Hde.
  induction legs as [|j legs IH]; intros st i Hall Hnn Hi Hcnt.
  - cbn [app emit_loop hd_error].
    destruct (emit_egress d p bd count st i e None He ltac:(lia)) as (Hs & _).
    destruct (emit_egress_v d p bd count st i e None He ltac:(lia)) as (Hv & Hd).
    remember (emit_step d p bd count st i e None) as st' eqn:Est'.
    eexists. split; [exact Hs|].
    intros _ sv unk q HI. destruct q as [[[w a] g] t].
    cbn [fold_left ivd_step walk_dist_step wd1 fst snd] in *.
    unfold vinv in *. destruct unk.
    + destruct HI as [I1 I2]. rewrite Hv, Hd, I2. cbn [Z.eqb Pos.eqb]. split; [exact I1|reflexivity].
    + destruct HI as (I1 & I2 & I3 & I4). rewrite Hv, Hd.
      destruct (e_tdist st =? -1) eqn:E; [apply Z.eqb_eq in E; lia|]. split_all; lia.
  - cbn [forallb] in Hall. apply andb_true_iff in Hall. destruct Hall as [Hj Hall].
    unfold walk_dists_nonneg_b in Hnn. cbn [forallb] in Hnn. apply andb_true_iff in Hnn.
    destruct Hnn as [Hdj Hnn]. apply Z.leb_le in Hdj.
    destruct (leg_in_data_inv d j Hj) as (en & ex & t & b & Hen & Hex & Htr & _ & _).
    cbn [app emit_loop]. cbn [length] in Hcnt.
    remember (hd_error (legs ++ [e])) as nxt eqn:Enxt.
    remember (emit_step d p bd count st i j nxt) as st1 eqn:Est1.
    destruct (IH st1 (S i) Hall Hnn ltac:(lia) ltac:(lia)) as (news1 & Hs1 & Hf1).
    remember (emit_loop d p bd count st1 (S i) (legs ++ [e])) as st' eqn:Est'.
    destruct (is_transferable_trip d t) eqn:Htf.
    + (* a transferable leg: the claim is vacuous, any step list with this boarding will do *)
      destruct (emit_leg d p bd count st i j nxt en ex t Hen Hex Htr) as (ivd & Hs & _).
      rewrite <- Est1 in Hs.
      eexists. split; [rewrite Hs1, Hs, <- app_assoc; reflexivity|].
      intros Hx. cbn [app existsb tr_step] in Hx. rewrite Htf in Hx. discriminate Hx.
    + destruct (emit_leg_v d p bd count st i j nxt en ex t Hen Hex Htr Htf) as (Hs & Hv & Hd).
      rewrite <- Est1 in Hs, Hv, Hd.
      exists ((SBoard t (c_seq en) (c_seq en) (c_from en) (c_dep en) (c_dep en - e_tarr st) ::
               SUnboard t (c_seq ex) (S (c_seq ex)) (c_to ex) (c_arr ex) (c_arr ex - c_dep en)
                        (leg_ivd d t en ex) ::
               (if Nat.ltb (S (S i)) count
                then [SWalk 2 (js_walk j) (js_dist j) (c_arr ex) (c_arr ex + js_walk j)
                            (c_arr ex + js_walk j + next_minw p nxt)]
                else [])) ++ news1).
      split; [rewrite Hs1, Hs, <- app_assoc; reflexivity|].
      intros Hx sv unk q HI.
      rewrite existsb_app in Hx. apply orb_false_iff in Hx. destruct Hx as [_ Hx1].
      specialize (Hf1 Hx1).
      rewrite !fold_left_app. destruct q as [[[w a] g] t0].
      destruct (leg_ivd_cases d t en ex Hseg) as [[Hh Hiv]|[Hh Hiv]]; rewrite Hh in Hv, Hd.
      * (* the path has segment distances *)
        assert (Eu : (leg_ivd d t en ex =? -1) = false) by (apply Z.eqb_neq; lia).
        destruct (Nat.ltb (S (S i)) count);
          cbn [fold_left ivd_step walk_dist_step Nat.eqb]; rewrite Eu, orb_false_r;
          apply Hf1; unfold vinv in *; cbn [wd1] in *; destruct unk.
        -- destruct HI as [I1 I2]. rewrite Hv, Hd, I1, I2. cbn [Z.eqb Pos.eqb]. split; reflexivity.
        -- destruct HI as (I1 & I2 & I3 & I4). rewrite Hv, Hd.
           destruct (e_tivd st =? -1) eqn:E1; [apply Z.eqb_eq in E1; lia|].
           destruct (e_tdist st =? -1) eqn:E2; [apply Z.eqb_eq in E2; lia|].
           destruct (e_tdist st + leg_ivd d t en ex =? -1) eqn:E3; [apply Z.eqb_eq in E3; lia|].
           split_all; lia.
        -- destruct HI as [I1 I2]. rewrite Hv, Hd, I1, I2. cbn [Z.eqb Pos.eqb]. split; reflexivity.
        -- destruct HI as (I1 & I2 & I3 & I4). rewrite Hv, Hd.
           destruct (e_tivd st =? -1) eqn:E1; [apply Z.eqb_eq in E1; lia|].
           destruct (e_tdist st =? -1) eqn:E2; [apply Z.eqb_eq in E2; lia|].
           split_all; lia.
      * (* no segment distances: both totals become unknown *)
        assert (Eu : (leg_ivd d t en ex =? -1) = true) by (apply Z.eqb_eq; exact Hiv).
        destruct (Nat.ltb (S (S i)) count);
          cbn [fold_left ivd_step walk_dist_step Nat.eqb]; rewrite Eu, orb_true_r;
          apply Hf1; unfold vinv; rewrite Hv, Hd; cbn [Z.eqb Pos.eqb]; split; reflexivity.
Qed.

Theorem C06_vehicle_dists : forall (d : data) (p : params) (bestdep : Z) (js : list jstep),
  shape_ok d js = true -> seg_dists_nonneg_b d = true -> walk_dists_nonneg_b js = true ->
  vehicle_dists_ok_b d (emit d p bestdep js) = true.
Proof.
  intros d p bd js Hshape Hseg Hnn.
  destruct (shape_ok_inv d js Hshape) as (a & legs & e & Ejs & Ha & He & Hne & Hall).
  subst js. unfold walk_dists_nonneg_b in Hnn. cbn [forallb] in Hnn.
  apply andb_true_iff in Hnn. destruct Hnn as [Hda Hnn]. apply Z.leb_le in Hda.
  rewrite forallb_app in Hnn. apply andb_true_iff in Hnn. destruct Hnn as [Hnl Hde].
  cbn [forallb] in Hde. rewrite andb_true_r in Hde. apply Z.leb_le in Hde.
  unfold emit.
  remember (length (a :: legs ++ [e])) as count eqn:Ecount.
  assert (Hcount : (1 + length legs + 1 = count)%nat).
  { subst count. cbn [length]. rewrite app_length. cbn [length]. lia. }
  cbn [emit_loop].
  destruct (emit_access d p bd count a (hd_error (legs ++ [e])) Ha) as (Hs0 & _).
  destruct (emit_access_v d p bd count a (hd_error (legs ++ [e])) Ha) as (Av & Ad).
  remember (emit_step d p bd count emit_init 0 a (hd_error (legs ++ [e]))) as st1 eqn:Est1.
  destruct (legs_loop_v d p bd count e He Hseg Hde legs st1 1%nat Hall Hnl ltac:(lia) Hcount)
    as (news & Hs & Hfold).
  remember (emit_loop d p bd count st1 1 (legs ++ [e])) as st' eqn:Est'.
  cbv zeta.
  unfold vehicle_dists_ok_b, rides_transferable, walk_dist_sums.
  cbn [rt_dep rt_arr rt_ttt rt_tdist rt_tivt rt_tivd rt_tnt rt_tntd rt_nboard rt_ntransf rt_trwalk
       rt_trdist rt_acc rt_accd rt_egr rt_egrd rt_trwait rt_fwait rt_twait rt_steps].
  change (existsb (fun s : step => match s with
                                   | SBoard t _ _ _ _ _ => is_transferable_trip d t
                                   | _ => false
                                   end) (e_steps st'))
    with (existsb (tr_step d) (e_steps st')).
  rewrite Hs, Hs0. cbn [app existsb tr_step orb fold_left ivd_step walk_dist_step Nat.eqb].
  destruct (existsb (tr_step d) news) eqn:Hx; [reflexivity|].
  assert (HI : vinv st1 0 false (wd1 (0 + js_dist a, 0 + js_dist a, 0, 0))).
  { unfold vinv. cbn [wd1]. split_all; lia. }
  pose proof (Hfold eq_refl 0 false _ HI) as HF.
  destruct (fold_left ivd_step news (0, false)) as [sv unk].
  destruct (fold_left walk_dist_step news (0 + js_dist a, 0 + js_dist a, 0, 0)) as [[[w a'] g'] t'].
  cbn [fst snd wd1] in HF. unfold vinv in HF.
  destruct unk.
  - destruct HF as [F1 F2]. rewrite F1, F2. reflexivity.
  - destruct HF as (F1 & F2 & _ & _). apply andb_true_iff. split; apply Z.eqb_eq; lia.
Qed.

(* ---------------------------------------------------------------------------------------------- *)
(* the journeys calc_single hands to [emit] have non-negative walking distances: every distance is that of an
   access / egress row, of a reverse footpath row of the dataset, or the 0 of a rewrite.  A fresh (small) invariant
   of the reverse scan, the rebuild loop and optimizeJourney; [journey_ok_b] says nothing about distances. *)

Definition dok (j : jstep) : Prop := 0 <= js_dist j.
Definition lab_ok (steps : nat -> jstep) : Prop := forall n, js_enter (steps n) = None \/ dok (steps n).
Definition acc_lab_ok (racc : nat -> option jstep) : Prop := forall n j, racc n = Some j -> dok j.

Lemma rows_ok_dist : forall d rows r, rows_ok d rows = true -> In r rows -> 0 <= fp_dist r.
Proof.
  intros d rows r H Hr. unfold rows_ok in H. rewrite forallb_forall in H. specialize (H r Hr).
  apply andb_true_iff in H. destruct H as [_ H]. apply Z.leb_le. exact H.
Qed.

Lemma wf_rfp_dist : forall d, wf_data_b d = true -> forall n, In n (d_nodes d) -> forall r, In r (rfp_of d n) ->
  0 <= fp_dist r.
Proof.
  intros d H n Hn r Hr. apply wf_data_parts in H. destruct H as (_ & W & _ & _).
  unfold footpaths_ok in W. rewrite forallb_forall in W. specialize (W n Hn).
  peel W F8. peel W F7. peel W F6. peel W F5. peel W F4. peel W F3. peel W F2.
  apply (rows_ok_dist d (rfp_of d n) r F2 Hr).
Qed.

Lemma wf_tables_rows : forall d p acc egr, wf_tables_b d p acc egr = true ->
  rows_ok d acc = true /\ rows_ok d egr = true.
Proof.
  intros d p acc egr H. unfold wf_tables_b in H. peel H T6. peel H T5. peel H T4. peel H T3. peel H T2.
  split; assumption.
Qed.

Lemma lab_ok_upd : forall steps n j, lab_ok steps -> dok j -> lab_ok (upd steps n j).
Proof.
  intros steps n j H Hj x. unfold upd. destruct (Nat.eqb x n); [right; exact Hj|apply H].
Qed.

Lemma acc_lab_ok_upd : forall racc n j, acc_lab_ok racc -> dok j -> acc_lab_ok (upd racc n (Some j)).
Proof.
  intros racc n j H Hj x y. unfold upd. destruct (Nat.eqb x n); [|apply H].
  intros E. injection E as <-. exact Hj.
Qed.

Lemma rev_fp_fold_dist : forall p k c minw exitc rows,
  (forall r, In r rows -> 0 <= fp_dist r) ->
  forall taur steps racc taur' steps' racc',
    fold_left (rev_fp_step p k c minw exitc) rows (taur, steps, racc) = (taur', steps', racc') ->
    lab_ok steps -> acc_lab_ok racc -> lab_ok steps' /\ acc_lab_ok racc'.
Proof.
  intros p k c minw exitc. induction rows as [|r rows IH]; intros Hrows taur steps racc taur' steps' racc' H HL HA.
  - cbn [fold_left] in H. injection H as _ <- <-. split; assumption.
  - cbn [fold_left] in H.
    destruct (rev_fp_step_cases p k c minw exitc taur steps racc r) as (t1 & s1 & a1 & E & HS & HR).
    rewrite E in H.
    apply (IH (fun x Hx => Hrows x (or_intror Hx)) t1 s1 a1 taur' steps' racc' H).
    + destruct HS as [[_ ->]|(_ & _ & _ & ->)]; [exact HL|].
      apply lab_ok_upd; [exact HL|]. unfold dok, new_label, mk_js. cbn [js_dist].
      apply Hrows. left. reflexivity.
    + destruct HR as [->|(_ & _ & _ & ->)]; [exact HA|].
      apply acc_lab_ok_upd; [exact HA|]. unfold dok, acc_label, mk_js. cbn [js_dist]. lia.
Qed.

Lemma rev_step_dist : forall d p k st c,
  (forall r, In r (rfp_of d (c_from c)) -> 0 <= fp_dist r) ->
  lab_ok (r_steps st) /\ acc_lab_ok (r_acc st) ->
  lab_ok (r_steps (rev_step d p k false st c)) /\ acc_lab_ok (r_acc (rev_step d p k false st c)).
Proof.
  intros d p k st c Hrows [HL HA].
  destruct (rev_step_spec d p k st c) as [(_ & E2 & _ & E4)|(_ & _ & _ & [(_ & E2 & E4)|(_ & e & _ & E)])].
  - rewrite E2, E4. split; assumption.
  - rewrite E2, E4. split; assumption.
  - symmetry in E.
    apply (rev_fp_fold_dist p k c (minw_eff p c) (Some e) (rfp_of d (c_from c)) Hrows _ _ _ _ _ _ E HL HA).
Qed.

Lemma rev_fold_dist : forall d p k L,
  (forall c, In c L -> forall r, In r (rfp_of d (c_from c)) -> 0 <= fp_dist r) ->
  forall st, lab_ok (r_steps st) /\ acc_lab_ok (r_acc st) ->
    lab_ok (r_steps (fold_left (rev_step d p k false) L st)) /\
    acc_lab_ok (r_acc (fold_left (rev_step d p k false) L st)).
Proof.
  intros d p k. induction L as [|c L IH]; intros HL st Hst; cbn [fold_left]; [exact Hst|].
  apply IH; [intros c' Hc'; apply HL; right; exact Hc'|].
  apply rev_step_dist; [apply HL; left; reflexivity|exact Hst].
Qed.

Lemma rev_scan_dist : forall d s p acc egr k st,
  wf_data_b d = true -> rev_pre d s p acc egr k -> rev_scan d p k false = Ok st ->
  lab_ok (r_steps st) /\ acc_lab_ok (r_acc st).
Proof.
  intros d s p acc egr k st Hwf Hpre Hscan. unfold rev_scan in Hscan.
  destruct (rev_entry (k_set k) (hour_of (k_arr k) + 1)) as [i|]; [|discriminate].
  rewrite (rp_set _ _ _ _ _ _ Hpre) in Hscan. injection Hscan as <-.
  apply rev_fold_dist.
  - intros c Hc r Hr. apply in_skipn in Hc. apply cs_rev_in in Hc. destruct Hc as [Hc _].
    apply (wf_rfp_dist d Hwf (c_from c) (conn_from_node d c Hwf Hc) r Hr).
  - unfold rev_init. cbn [r_steps r_acc]. split.
    + intros n. left. rewrite (rp_steps _ _ _ _ _ _ Hpre). apply seed_steps_enter.
    + intros n j Hj. discriminate Hj.
Qed.

Lemma set_last_walk_dist : forall l w dd, 0 <= dd -> Forall dok l -> Forall dok (set_last_walk l w dd).
Proof.
  induction l as [|x l IH]; intros w dd Hd H; [constructor|].
  inversion H as [|x' l' Hx Hl]; subst.
  cbn [set_last_walk]. destruct l as [|y l2].
  - constructor; [unfold dok, set_walk; cbn [js_dist]; exact Hd|constructor].
  - constructor; [exact Hx|]. apply IH; assumption.
Qed.

Lemma rebuild_dist : forall steps, lab_ok steps ->
  forall fuel cur acc last legs last',
    rebuild fuel steps cur acc last = Some (legs, last') ->
    (js_enter cur = None \/ dok cur) -> Forall dok acc -> Forall dok legs.
Proof.
  intros steps HL. induction fuel as [|f IH]; intros cur acc last legs last' H Hcur Hacc.
  - destruct (js_enter cur) as [b|] eqn:Eb; [destruct (js_exit cur) as [e|] eqn:Ee|].
    + rewrite (rebuild_zero steps cur acc last b e Eb Ee) in H. discriminate H.
    + rewrite rebuild_stop in H by (right; exact Ee). injection H as <- _. exact Hacc.
    + rewrite rebuild_stop in H by (left; exact Eb). injection H as <- _. exact Hacc.
  - destruct (js_enter cur) as [b|] eqn:Eb; [destruct (js_exit cur) as [e|] eqn:Ee|].
    + rewrite (rebuild_step f steps cur acc last b e Eb Ee) in H.
      destruct Hcur as [Hcur|Hcur]; [discriminate Hcur|].
      apply (IH _ _ _ _ _ H (HL (c_to e))).
      apply Forall_app. split; [|constructor; [exact Hcur|constructor]].
      destruct acc as [|a0 acc0]; [constructor|].
      apply set_last_walk_dist; [exact Hcur|exact Hacc].
    + rewrite rebuild_stop in H by (right; exact Ee). injection H as <- _. exact Hacc.
    + rewrite rebuild_stop in H by (left; exact Eb). injection H as <- _. exact Hacc.
Qed.

(* optimizeJourney *)
Lemma Forall_set_nth : forall {A} (P : A -> Prop) (f : A -> A), (forall x, P x -> P (f x)) ->
  forall l i, Forall P l -> Forall P (set_nth l i f).
Proof.
  intros A P f Hf. induction l as [|x l IH]; intros i H; [destruct i; constructor|].
  inversion H as [|x' l' Hx Hl]; subst.
  destruct i as [|i]; cbn [set_nth]; constructor; auto.
Qed.

Lemma Forall_erase_range : forall {A} (P : A -> Prop) (l : list A) a b, Forall P l -> Forall P (erase_range l a b).
Proof.
  intros A P l a b H. unfold erase_range. apply Forall_app. split.
  - rewrite <- (firstn_skipn a l) in H. apply Forall_app in H. exact (proj1 H).
  - rewrite <- (firstn_skipn b l) in H. apply Forall_app in H. exact (proj2 H).
Qed.

Lemma nth_js_dok : forall js i, Forall dok js -> (i < length js)%nat -> dok (nth_js js i).
Proof.
  intros js i H Hi. unfold nth_js. rewrite Forall_forall in H. apply H. apply nth_In. exact Hi.
Qed.

Lemma dok_set_exit : forall j c, dok j -> dok (set_exit j c).
Proof. intros j c H. exact H. Qed.
Lemma dok_set_enter : forall j c, dok j -> dok (set_enter j c).
Proof. intros j c H. exact H. Qed.
Lemma dok_set_walk : forall j w dd, 0 <= dd -> dok (set_walk j w dd).
Proof. intros j w dd H. exact H. Qed.

Lemma optimize_dist : forall d fuel js used ign js' used',
  Forall dok js -> optimize fuel d js used ign = OptDone js' used' -> Forall dok js'.
Proof.
  intros d. induction fuel as [|f IH]; intros js used ign js' used' Hok H; [discriminate|].
  cbn [optimize] in H.
  destruct (detect d ign js 0 []) as [[[[[cs X] i] j]|]|] eqn:Hdet; [| |discriminate].
  2:{ injection H as <- _. exact Hok. }
  destruct (detect_top d ign js cs X i j Hdet) as (Hr & _).
  destruct (Nat.eqb cs 1).
  { destruct (leg_range d (nth_js js i)) as [rng|]; [|discriminate].
    destruct (find (fun c => Nat.eqb X (c_to c)) rng) as [c|]; [|apply (IH _ _ _ _ _ Hok H)].
    destruct (negb (c_cu c)); [apply (IH _ _ _ _ _ Hok H)|].
    cbv zeta in H. refine (IH _ _ _ _ _ _ H).
    apply Forall_erase_range. apply Forall_set_nth; [|exact Hok].
    intros x _. apply dok_set_exit. apply dok_set_walk. apply (nth_js_dok js j Hok). lia. }
  destruct (Nat.eqb cs 2).
  { destruct (leg_range d (nth_js js j)) as [rng|]; [|discriminate].
    destruct (find (fun c => Nat.eqb X (c_from c)) rng) as [c|]; [|injection H as <- _; exact Hok].
    destruct (negb (c_cb c)); [injection H as <- _; exact Hok|].
    injection H as <- _.
    apply Forall_erase_range. apply Forall_set_nth; [intros x _; apply dok_set_walk; lia|].
    apply Forall_set_nth; [intros x Hx; apply dok_set_enter; exact Hx|exact Hok]. }
  destruct (Nat.eqb cs 3).
  { destruct (leg_range d (nth_js js i)) as [rng|]; [|discriminate].
    destruct (find (fun c => Nat.eqb X (c_to c)) rng) as [c|]; [|apply (IH _ _ _ _ _ Hok H)].
    destruct (negb (c_cu c)); [apply (IH _ _ _ _ _ Hok H)|].
    refine (IH _ _ _ _ _ _ H).
    apply Forall_erase_range. apply Forall_set_nth; [intros x _; apply dok_set_walk; lia|exact Hok]. }
  destruct (leg_range d (nth_js js i)) as [rf|]; [|discriminate].
  destruct (leg_range d (nth_js js j)) as [rt|]; [|discriminate].
  cbv zeta in H.
  destruct (css_second X (css_first X rf None) rt js i j used ign) as [[js1 used1] ign1] eqn:Hcs.
  refine (IH _ _ _ _ _ _ H).
  destruct (css_second_spec _ _ _ _ _ _ _ _ _ _ _ Hcs) as [->|(cx & cy & _ & _ & _ & _ & ->)]; [exact Hok|].
  apply Forall_erase_range. apply Forall_set_nth; [intros x Hx; apply dok_set_enter; exact Hx|].
  apply Forall_set_nth; [intros x _; apply dok_set_walk; lia|exact Hok].
Qed.

Lemma Forall_dok_b : forall js, Forall dok js -> walk_dists_nonneg_b js = true.
Proof.
  intros js H. unfold walk_dists_nonneg_b. apply forallb_forall. intros j Hj.
  rewrite Forall_forall in H. apply Z.leb_le. apply (H j Hj).
Qed.

(* what calc_reverse hands to [emit] *)
Lemma calc_reverse_journey : forall d s p acc egr k res,
  wf_data_b d = true -> wf_params_b p = true -> rows_ok d acc = true -> rows_ok d egr = true ->
  rev_pre d s p acc egr k ->
  calc_reverse d p k = Ok res ->
  exists bestdep js1 used,
    res = (emit d p bestdep js1, used) /\ shape_ok d js1 = true /\ walk_dists_nonneg_b js1 = true.
Proof.
  intros d s p acc egr k res Hwf Hp Racc Regr Hpre Hcalc. unfold calc_reverse in Hcalc.
  destruct (rev_scan d p k false) as [st| | | | | | | |] eqn:Hscan; try discriminate.
  cbn [bind] in Hcalc. destruct (r_count st =? 0); [discriminate|].
  unfold rev_journey in Hcalc.
  destruct (best_access p k st) as [[bestdep node]|] eqn:Hbest; [|discriminate].
  destruct (r_acc st node) as [start|] eqn:Hstart; [|discriminate].
  destruct (rebuild (REBUILD_FUEL d) (r_steps st) start [] None) as [[legs last0]|] eqn:Hreb; [|discriminate].
  destruct (rev_journey_ok_gen_cap d s p acc egr k st bestdep node start (REBUILD_FUEL d) legs last0
                                   Hwf Hp Hpre Hscan Hbest Hstart Hreb)
    as (ar & er & ln & L1 & L2 & L3 & L4 & _).
  rewrite (rp_acc _ _ _ _ _ _ Hpre), (rp_egr _ _ _ _ _ _ Hpre), L1, L2, L3 in Hcalc.
  destruct (optimize (OPT_FUEL d) d (walk_step ar :: legs ++ [walk_step er]) [] []) as [js1 used| |] eqn:Hopt;
    try discriminate.
  injection Hcalc as <-.
  exists bestdep, js1, used. split; [reflexivity|]. split.
  - apply (journey_ok_shape d s p acc egr bestdep).
    apply (optimize_preserves (OPT_FUEL d) d s p acc egr bestdep _ js1 used Hwf
             (RouteValid.wf_params_minw p Hp) L4 Hopt).
  - apply Forall_dok_b. apply (optimize_dist d (OPT_FUEL d) (walk_step ar :: legs ++ [walk_step er]) [] [] js1 used); [|exact Hopt].
    destruct (rev_scan_dist d s p acc egr k st Hwf Hpre Hscan) as [HL HA].
    constructor.
    + unfold dok, walk_step. cbn [js_dist].
      apply (rows_ok_dist d acc ar Racc (proj2 (row_of_some _ _ _ L2))).
    + apply Forall_app. split.
      * apply (rebuild_dist (r_steps st) HL (REBUILD_FUEL d) start [] None legs last0 Hreb);
          [right; apply (HA node start Hstart)|constructor].
      * constructor; [|constructor]. unfold dok, walk_step. cbn [js_dist].
        apply (rows_ok_dist d egr er Regr (proj2 (row_of_some _ _ _ L3))).
Qed.

Lemma calc_single_journey : forall d s p acc egr fresh r used,
  wf_data_b d = true -> wf_tables_b d p acc egr = true -> wf_params_b p = true ->
  calc_single d (conn_set d s) p acc egr fresh = Ok (r, used) ->
  exists bestdep js1,
    r = emit d p bestdep js1 /\ shape_ok d js1 = true /\ walk_dists_nonneg_b js1 = true.
Proof.
  intros d s p acc egr fresh r used Hwf Htab Hp Hcalc.
  destruct (wf_tables_rows d p acc egr Htab) as [Racc Regr].
  pose proof (wf_params_time p Hp) as Htime.
  unfold calc_single in Hcalc.
  destruct (access_reason (negb fresh || nonempty acc) (negb fresh || nonempty egr)); [discriminate|].
  cbv zeta in Hcalc. set (k := mk_calc d p (conn_set d s) acc egr true true) in *.
  assert (Hfin : forall k', rev_pre d s p acc egr k' -> calc_reverse d p k' = Ok (r, used) ->
            exists bestdep js1, r = emit d p bestdep js1 /\ shape_ok d js1 = true /\ walk_dists_nonneg_b js1 = true).
  { intros k' Hpre Hc.
    destruct (calc_reverse_journey d s p acc egr k' (r, used) Hwf Hp Racc Regr Hpre Hc)
      as (bestdep & js1 & used' & E & Hs & Hn).
    injection E as -> _. exists bestdep, js1. auto. }
  destruct (q_fwd p) eqn:Hf.
  - assert (Ek : k_dep k = q_time p) by (unfold k, mk_calc; cbn [k_dep]; rewrite Hf; reflexivity).
    assert (Eg : (k_dep k >? -1) = true) by (apply Z.gtb_lt; lia).
    rewrite Eg in Hcalc. cbn [andb] in Hcalc.
    destruct (fwd_scan d p k false) as [fs| | | | | | | |] eqn:Hscan; try discriminate.
    cbn [bind] in Hcalc. destruct (f_count fs =? 0); [discriminate|].
    destruct (best_egress p k fs) as [[best n0]|] eqn:Hbest; [|discriminate].
    apply (Hfin _ (calc_single_rev_pre_departure d s p acc egr fs best Htab Hf Hscan) Hcalc).
  - rewrite andb_false_r in Hcalc.
    destruct (k_arr k >? -1); [|discriminate].
    pose proof (calc_single_rev_pre_arrival d s p acc egr Htab) as Hpre. cbv zeta in Hpre. fold k in Hpre.
    apply (Hfin _ Hpre Hcalc).
Qed.

Theorem calc_single_vehicle_dists : forall d s p acc egr fresh r used,
  wf_data_b d = true -> wf_tables_b d p acc egr = true -> wf_params_b p = true ->
  seg_dists_nonneg_b d = true ->
  calc_single d (conn_set d s) p acc egr fresh = Ok (r, used) -> vehicle_dists_ok_b d r = true.
Proof.
  intros d s p acc egr fresh r used Hwf Htab Hp Hseg Hcalc.
  destruct (calc_single_journey d s p acc egr fresh r used Hwf Htab Hp Hcalc) as (bestdep & js1 & -> & Hs & Hn).
  apply C06_vehicle_dists; assumption.
Qed.

Theorem alternatives_vehicle_dists : forall d s p acc egr rs total,
  wf_data_b d = true -> wf_tables_b d p acc egr = true -> wf_params_b p = true ->
  seg_dists_nonneg_b d = true ->
  alternatives d (conn_set d s) p acc egr = Ok (rs, total) ->
  forall r, In r rs -> vehicle_dists_ok_b d r = true.
Proof.
  intros d s p acc egr rs total Hwf Htab Hp Hseg H r Hin.
  apply alt_ok_inv in H. destruct H as (r1 & used1 & st & Hc & HI & Hrs & _).
  destruct (inv_routes _ _ _ _ _ _ _ _ _ HI) as (tl1 & Hr & Htl).
  subst rs. rewrite Hr in Hin. destruct Hin as [Heq|Hin].
  - subst r. apply (calc_single_vehicle_dists d s p acc egr true r1 used1 Hwf Htab Hp Hseg Hc).
  - pose proof (Htl r Hin) as Hrc. unfold recalc in Hrc. destruct Hrc as (comb & used & Hcalc & _).
    destruct (recalc_wf d s p acc egr r1 used1 comb Hwf Htab Hp Hc) as [Htab' Hp'].
    apply (calc_single_vehicle_dists d s _ acc egr false r used Hwf Htab' Hp' Hseg Hcalc).
Qed.

(* ---------------------------------------------------------------------------------------------- *)
(* non-vacuity: the route of the example query rides no transferable line, walks 120 m + 0 m + 60 m,
   and the checker accepts it *)
From TrV Require Import Examples Calc.
Example walk_dists_nonvacuous :
  match calc_single ex_data (conn_set ex_data scen_all) (ex_params true 35000) ex_acc ex_egr true with
  | Ok (r, _) =>
      rides_transferable ex_data r = false /\
      walk_dist_sums (rt_steps r) = (rt_tntd r, rt_accd r, rt_egrd r, rt_trdist r) /\
      walk_dists_ok_b ex_data r = true
  | _ => False
  end.
Proof. vm_compute. repeat split; reflexivity. Qed.

(* the checker is not trivially true: the same route with accessDistance off by one is rejected *)
Definition bump_accd (r : route) : route :=
  {| rt_dep := rt_dep r; rt_arr := rt_arr r; rt_ttt := rt_ttt r; rt_tdist := rt_tdist r; rt_tivt := rt_tivt r;
     rt_tivd := rt_tivd r; rt_tnt := rt_tnt r; rt_tntd := rt_tntd r; rt_nboard := rt_nboard r;
     rt_ntransf := rt_ntransf r; rt_trwalk := rt_trwalk r; rt_trdist := rt_trdist r; rt_acc := rt_acc r;
     rt_accd := rt_accd r + 1; rt_egr := rt_egr r; rt_egrd := rt_egrd r; rt_trwait := rt_trwait r;
     rt_fwait := rt_fwait r; rt_twait := rt_twait r; rt_steps := rt_steps r |}.
Example walk_dists_rejects :
  match calc_single ex_data (conn_set ex_data scen_all) (ex_params true 35000) ex_acc ex_egr true with
  | Ok (r, _) => walk_dists_ok_b ex_data (bump_accd r) = false
  | _ => False
  end.
Proof. vm_compute. reflexivity. Qed.

(* [shape_ok] is used, not decoration: accessDistance / egressDistance are ASSIGNED by the emission loop, so a
   journey that ended in two walks (which rebuild never produces) would report only the last one as egress.
   With no transfer walk the transfer distance is 0 (it was -1 before the D16 fix). *)
Example walk_dists_needs_shape :
  let c1 := {| c_trip := 1; c_seq := 1; c_from := 1; c_to := 2; c_dep := 36000; c_arr := 36300;
               c_cb := true; c_cu := true; c_minw := -1 |} in
  let good := [walk_step (row 1 100 120); mk_js (Some c1) (Some c1) 1 0 true 0; walk_step (row 2 50 60)] in
  let bad := good ++ [walk_step (row 2 30 40)] in
  shape_ok ex_data good = true /\
  walk_dists_ok_b ex_data (emit ex_data (ex_params true 35000) 35900 good) = true /\
  rt_trdist (emit ex_data (ex_params true 35000) 35900 good) = 0 /\
  shape_ok ex_data bad = false /\
  walk_dists_ok_b ex_data (emit ex_data (ex_params true 35000) 35900 bad) = false /\
  rt_egrd (emit ex_data (ex_params true 35000) 35900 bad) = 40.
Proof. vm_compute. repeat split; reflexivity. Qed.

(* a route with a non-zero transfer walk (30 s, 70 m between the two rides): transferWalkingDistance is exactly that
   walk's distance, the total walking distance is 120 + 70 + 60, and the checker accepts the route; with the transfer
   total off by one (the pre-D16 value) it is rejected *)
Definition set_trdist (r : route) (v : Z) : route :=
  {| rt_dep := rt_dep r; rt_arr := rt_arr r; rt_ttt := rt_ttt r; rt_tdist := rt_tdist r; rt_tivt := rt_tivt r;
     rt_tivd := rt_tivd r; rt_tnt := rt_tnt r; rt_tntd := rt_tntd r; rt_nboard := rt_nboard r;
     rt_ntransf := rt_ntransf r; rt_trwalk := rt_trwalk r; rt_trdist := v; rt_acc := rt_acc r;
     rt_accd := rt_accd r; rt_egr := rt_egr r; rt_egrd := rt_egrd r; rt_trwait := rt_trwait r;
     rt_fwait := rt_fwait r; rt_twait := rt_twait r; rt_steps := rt_steps r |}.
Example walk_dists_transfer_walk :
  let c1 := {| c_trip := 1; c_seq := 1; c_from := 1; c_to := 2; c_dep := 36000; c_arr := 36300;
               c_cb := true; c_cu := true; c_minw := -1 |} in
  let c2 := {| c_trip := 2; c_seq := 1; c_from := 2; c_to := 4; c_dep := 36400; c_arr := 36700;
               c_cb := true; c_cu := true; c_minw := -1 |} in
  let js := [walk_step (row 1 100 120); mk_js (Some c1) (Some c1) 1 30 false 70;
             mk_js (Some c2) (Some c2) 2 0 false 0; walk_step (row 4 50 60)] in
  let r := emit ex_data (ex_params true 35000) 35900 js in
  shape_ok ex_data js = true /\ rides_transferable ex_data r = false /\
  In (SWalk 2 30 70 36300 36330 36390) (rt_steps r) /\
  walk_dist_sums (rt_steps r) = (250, 120, 60, 70) /\
  rt_trdist r = 70 /\ rt_tntd r = 250 /\ rt_accd r = 120 /\ rt_egrd r = 60 /\
  walk_dists_ok_b ex_data r = true /\
  walk_dists_ok_b ex_data (set_trdist r 69) = false.
Proof. vm_compute. repeat split; try reflexivity. tauto. Qed.

(* ---------------------------------------------------------------------------------------------- *)
(* in-vehicle / overall distance: examples                                                          *)

Definition with_paths (d : data) (ps : list path) : data :=
  {| d_nodes := d_nodes d; d_fp := d_fp d; d_rfp := d_rfp d; d_lines := d_lines d; d_paths := ps;
     d_trips := d_trips d; d_scenarios := d_scenarios d |}.

(* non-vacuity: the example route rides 500 m + 900 m and walks 180 m *)
Example vehicle_dists_nonvacuous :
  seg_dists_nonneg_b ex_data = true /\
  match calc_single ex_data (conn_set ex_data scen_all) (ex_params true 35000) ex_acc ex_egr true with
  | Ok (r, _) =>
      rides_transferable ex_data r = false /\ fold_left ivd_step (rt_steps r) (0, false) = (1400, false) /\
      rt_tivd r = 1400 /\ rt_tdist r = 1580 /\ vehicle_dists_ok_b ex_data r = true
  | _ => False
  end.
Proof. vm_compute. repeat split; reflexivity. Qed.

(* D17 regression: the path of the first ride has no segment distances, the path of the second has (900 m): both
   totals are "unknown" (-1); before the fix the second ride added its metres to the marker (899 / 959) *)
Definition ex_data_unknown_first : data :=
  with_paths ex_data [{| p_id := 1; p_line := 1; p_nodes := [1; 2; 3]%nat; p_dists := [] |};
                      {| p_id := 2; p_line := 2; p_nodes := [2; 4]%nat; p_dists := [900] |}].
Example vehicle_dists_unknown_then_known :
  wf_data_b ex_data_unknown_first = true /\ seg_dists_nonneg_b ex_data_unknown_first = true /\
  match calc_single ex_data_unknown_first (conn_set ex_data_unknown_first scen_all) (ex_params true 35000)
                    ex_acc ex_egr true with
  | Ok (r, _) =>
      map (fun s => match s with SUnboard _ _ _ _ _ _ ivd => ivd | _ => 0 end) (rt_steps r)
        = [0; 0; -1; 0; 0; 900; 0] /\
      rt_tivd r = -1 /\ rt_tdist r = -1 /\ vehicle_dists_ok_b ex_data_unknown_first r = true
  | _ => False
  end.
Proof. vm_compute. repeat split; reflexivity. Qed.

(* FINDING: [wf_data_b] is not enough.  It admits a segment distance of -1 ([-1 <=? x] for every element of
   [p_dists]); with the first segment of path 1 at -1 the dataset is well-formed, calc_single answers, the ride's
   in-vehicle distance is the -1 that the step list shows as "unknown", the in-vehicle total stays at -1 but the
   overall total is 120 - 1 + 0 + 900 + 60 = 1079, not -1: the checker rejects the route.  Hence
   [seg_dists_nonneg_b] is an explicit hypothesis of the two lifts. *)
Definition ex_data_seg_m1 : data :=
  with_paths ex_data [{| p_id := 1; p_line := 1; p_nodes := [1; 2; 3]%nat; p_dists := [-1; 700] |};
                      {| p_id := 2; p_line := 2; p_nodes := [2; 4]%nat; p_dists := [900] |}].
Example vehicle_dists_wf_data_not_enough :
  wf_data_b ex_data_seg_m1 = true /\ seg_dists_nonneg_b ex_data_seg_m1 = false /\
  wf_tables_b ex_data_seg_m1 (ex_params true 35000) ex_acc ex_egr = true /\
  match calc_single ex_data_seg_m1 (conn_set ex_data_seg_m1 scen_all) (ex_params true 35000) ex_acc ex_egr true with
  | Ok (r, _) =>
      rides_transferable ex_data_seg_m1 r = false /\
      rt_tivd r = -1 /\ rt_tdist r = 1079 /\ vehicle_dists_ok_b ex_data_seg_m1 r = false
  | _ => False
  end.
Proof. vm_compute. repeat split; reflexivity. Qed.

(* the walking distances matter as well at the level of [emit]: an access walk of distance -1 puts the overall total
   on the marker, where it stays (calc_single never builds such a journey: [calc_single_journey]) *)
Example vehicle_dists_needs_walk_dists :
  let c1 := {| c_trip := 1; c_seq := 1; c_from := 1; c_to := 2; c_dep := 36000; c_arr := 36300;
               c_cb := true; c_cu := true; c_minw := -1 |} in
  let js := [walk_step (row 1 100 (-1)); mk_js (Some c1) (Some c1) 1 0 true 0; walk_step (row 2 50 60)] in
  let r := emit ex_data (ex_params true 35000) 35900 js in
  shape_ok ex_data js = true /\ seg_dists_nonneg_b ex_data = true /\ walk_dists_nonneg_b js = false /\
  rt_tivd r = 500 /\ rt_tdist r = -1 /\ vehicle_dists_ok_b ex_data r = false.
Proof. vm_compute. repeat split; reflexivity. Qed.

Print Assumptions C06_walk_dists.
Print Assumptions calc_single_walk_dists.
Print Assumptions alternatives_walk_dists.
Print Assumptions walk_dists_nonvacuous.
Print Assumptions walk_dists_transfer_walk.
Print Assumptions C06_vehicle_dists.
Print Assumptions calc_single_journey.
Print Assumptions calc_single_vehicle_dists.
Print Assumptions alternatives_vehicle_dists.
Print Assumptions vehicle_dists_wf_data_not_enough.
