(* Proofs/EndToEnd.v — the properties hold of what the SERVER answers, in any history, on data LOADED from files.

   The layers of the development each have their own theorems:
     loading      Loader2 / Loader2Proofs   load_all (encode_all d) gives the memory of `canon d`
     serving      Server / ServerInv        every response is the fresh answer (C13), also after a refresh (C15)
                                            and under any thread schedule (C14)
     calculating  Calc + Proofs/*           C01 .. C10 about calc_single / alternatives / calc_allnodes
   This file composes them: a dataset `d` is written to cache files, the server is started on the files, serves ANY
   finite history of requests, then a request of the properties' domain; the response satisfies the properties
   C01-C10 stated against `d` ITSELF (its trips, its footpaths, its declarative journeys), not against the loader's
   re-laid-out copy `canon d`.

   Contents
     1. canon preserves well-formedness and every notion the property statements use
          canon_wf, canon_fp_of, canon_valid_itinerary, canon_limits, canon_totals, canon_reaches,
          canon_journey, canon_admissible_fwd / _rev, canon_alights_at, canon_boards_at
     2. the property statements as predicates over an answer (C03_of .. C09_of), the predicates
        route_response_correct / alt_response_correct / access_response_correct over a RESPONSE, and the theorems
        fresh_route_correct / fresh_alt_correct / fresh_access_correct about fresh answers on the loaded copy
     3. the server started on the loaded files, any history: served_is_fresh, served_every_position,
        served_route_answers_are_correct (the bundle) and, clause by clause, served_route_not_bad, served_route_valid,
        served_route_optimal_fwd, served_route_optimal_rev, served_noroute_reason, served_alternatives_ok,
        served_access_ok / _departure (C08) / _arrival (C09), served_unknown_scenario, served_invalid
     4. after a refresh to the files of another dataset (C15): update_all_installs_loaded, refreshed_is_fresh,
        refreshed_route_answers_are_correct, refreshed_alternatives_ok, refreshed_access_ok
     5. concurrent requests (C14): concurrent_is_fresh, concurrent_route_answers_are_correct,
        concurrent_alternatives_ok, concurrent_access_ok, concurrent_fair_schedule_answers
     6. non-vacuity on Examples.ex_data: served_example, served_example_properties, refresh_concurrent_example *)
From Coq Require Import List ZArith Bool Arith Lia.
From TrV Require Import Spec Admissible Optimal Server Loader2 Examples.
From TrV Require Import Properties.Common.
From TrV.Proofs Require Import LoaderProofs Loader2Proofs ServerInv.
From TrV Require Proofs.SortFilter Proofs.RevInv Proofs.ValidAdm Proofs.Assemble Proofs.Compose Proofs.ReasonIff
                 Proofs.FwdOpt Proofs.C03Ok Proofs.RevOptCompose Proofs.OptCompose.
Import ListNotations.
Local Open Scope Z_scope.

Local Tactic Notation "peele" hyp(H) ident(W) := apply andb_true_iff in H; destruct H as [H W].

(* ============================================================================================== *)
(* 1. canon: same routing data, same footpaths at every stop, well-formed                           *)

Lemma canon_fp_of : forall d n, In n (d_nodes d) -> fp_of (canon d) n = fp_of d n.
Proof. intros d n Hn. exact (proj1 (canon_footpaths d n Hn)). Qed.

Lemma canon_rfp_of : forall d n, In n (d_nodes d) -> rfp_of (canon d) n = derive_rfp (d_nodes d) (fp_of d) n.
Proof. intros d n Hn. exact (proj2 (canon_footpaths d n Hn)). Qed.

(* all ten clauses of wf_data_b *)
Lemma wf_data_all : forall d, wf_data_b d = true ->
  nodup_nat (d_nodes d) = true /\ nodup_nat (map t_id (d_trips d)) = true /\ nodup_nat (map p_id (d_paths d)) = true /\
  nodup_nat (map l_id (d_lines d)) = true /\ nodup_nat (map s_id (d_scenarios d)) = true /\
  nodup_nat (map fst (d_fp d)) = true /\ nodup_nat (map fst (d_rfp d)) = true /\
  footpaths_ok d = true /\
  forallb (fun p => is_some (find_line d (p_line p)) && forallb (fun n => memb n (d_nodes d)) (p_nodes p)
                    && forallb (fun x => -1 <=? x) (p_dists p)) (d_paths d) = true /\
  forallb (fun t => match find_path d (t_path t) with
                    | Some p => Nat.eqb (length (p_nodes p)) (length (t_times t)) && Nat.leb 2 (length (t_times t))
                    | None => false
                    end && times_ok (t_times t)) (d_trips d) = true.
Proof.
  unfold wf_data_b. intros d H.
  peele H X10. peele H X9. peele H X8. peele H X7. peele H X6. peele H X5. peele H X4. peele H X3. peele H X2.
  repeat split; assumption.
Qed.

Lemma has_row_exists : forall rows n w, has_row rows n w = true <->
  exists r, In r rows /\ fp_node r = n /\ fp_time r = w.
Proof.
  intros rows n w. unfold has_row. rewrite existsb_exists. split.
  - intros [r [Hin Hr]]. peele Hr Ht. apply Nat.eqb_eq in Hr. apply Z.eqb_eq in Ht. exists r. auto.
  - intros [r [Hin [Hn Ht]]]. exists r. split; [exact Hin|].
    apply andb_true_iff. split; [apply Nat.eqb_eq; exact Hn|apply Z.eqb_eq; exact Ht].
Qed.

(* the clauses of footpaths_ok at one stop, as Props *)
Lemma footpaths_ok_at : forall d n, footpaths_ok d = true -> In n (d_nodes d) ->
  rows_ok d (fp_of d n) = true /\ rows_ok d (rfp_of d n) = true /\
  has_row (fp_of d n) n 0 = true /\ has_row (rfp_of d n) n 0 = true /\
  (forall r, In r (fp_of d n) -> has_row (rfp_of d (fp_node r)) n (fp_time r) = true) /\
  (forall r, In r (rfp_of d n) -> has_row (fp_of d (fp_node r)) n (fp_time r) = true) /\
  (forall r, In r (fp_of d n) -> fp_node r = n -> fp_time r = 0) /\
  (forall r, In r (rfp_of d n) -> fp_node r = n -> fp_time r = 0).
Proof.
  intros d n W Hn. unfold footpaths_ok in W. rewrite forallb_forall in W. specialize (W n Hn).
  peele W F8. peele W F7. peele W F6. peele W F5. peele W F4. peele W F3. peele W F2.
  rewrite forallb_forall in F5, F6, F7, F8.
  repeat split; try assumption.
  - intros r Hr E. specialize (F7 r Hr). apply orb_prop in F7. destruct F7 as [F|F].
    + apply negb_true_iff in F. apply Nat.eqb_neq in F. contradiction.
    + apply Z.eqb_eq in F. exact F.
  - intros r Hr E. specialize (F8 r Hr). apply orb_prop in F8. destruct F8 as [F|F].
    + apply negb_true_iff in F. apply Nat.eqb_neq in F. contradiction.
    + apply Z.eqb_eq in F. exact F.
Qed.

Lemma rows_ok_forall : forall d rows, rows_ok d rows = true <->
  forall r, In r rows -> In (fp_node r) (d_nodes d) /\ 0 <= fp_time r /\ fp_time r < 32768 /\ 0 <= fp_dist r.
Proof.
  intros d rows. unfold rows_ok. rewrite forallb_forall. split.
  - intros H r Hr. specialize (H r Hr). peele H H4. peele H H3. peele H H2.
    apply SortFilter.memb_In in H. apply Z.leb_le in H2, H4. apply Z.ltb_lt in H3. auto.
  - intros H r Hr. destruct (H r Hr) as (H1 & H2 & H3 & H4).
    rewrite !andb_true_iff. repeat split.
    + apply SortFilter.memb_In. exact H1.
    + apply Z.leb_le. exact H2.
    + apply Z.ltb_lt. exact H3.
    + apply Z.leb_le. exact H4.
Qed.

(* a row of a derived reverse list: its stop is a stop of the dataset, time and distance are those of a forward
   row, or it is the added self row *)
Lemma derive_rfp_row : forall nodes fp n r, In r (derive_rfp nodes fp n) ->
  In (fp_node r) nodes /\
  ((exists r0, In r0 (fp (fp_node r)) /\ fp_node r0 = n /\ fp_time r0 = fp_time r /\ fp_dist r0 = fp_dist r) \/
   (fp_node r = n /\ fp_time r = 0 /\ fp_dist r = 0)).
Proof.
  intros nodes fp n r Hin. unfold derive_rfp in Hin. apply in_flat_map in Hin. destruct Hin as [t [Ht Hin]].
  apply in_app_or in Hin. destruct Hin as [Hin|Hin].
  - apply in_flat_map in Hin. destruct Hin as [r0 [Hr0 Hin]].
    destruct (Nat.eqb (fp_node r0) n) eqn:Hr0n; [|destruct Hin].
    destruct Hin as [Heq|Hnil]; [|destruct Hnil].
    subst r. cbn [fp_node fp_time fp_dist]. split; [exact Ht|]. left. exists r0.
    apply Nat.eqb_eq in Hr0n. auto.
  - destruct (Nat.eqb t n) eqn:Htn; [|destruct Hin].
    destruct Hin as [Heq|Hnil]; [|destruct Hnil].
    subst r. cbn [fp_node fp_time fp_dist]. apply Nat.eqb_eq in Htn. split; [exact Ht|]. right. auto.
Qed.

Lemma canon_footpaths_ok : forall d, nodup_nat (d_nodes d) = true -> footpaths_ok d = true ->
  footpaths_ok (canon d) = true.
Proof.
  intros d Hnd W. unfold footpaths_ok. apply forallb_forall. intros n Hn.
  change (d_nodes (canon d)) with (d_nodes d) in Hn.
  destruct (footpaths_ok_at d n W Hn) as (A1 & _ & A3 & _ & _ & _ & A7 & _).
  pose proof (proj1 (rows_ok_forall d _) A1) as A1'.
  rewrite (canon_fp_of d n Hn), (canon_rfp_of d n Hn).
  assert (R2 : rows_ok (canon d) (derive_rfp (d_nodes d) (fp_of d) n) = true).
  { apply rows_ok_forall. change (d_nodes (canon d)) with (d_nodes d). intros r Hr.
    destruct (derive_rfp_row _ _ _ _ Hr) as [Hnode [[r0 (Hr0 & _ & Ht & Hd)]|(_ & Ht & Hd)]].
    - destruct (footpaths_ok_at d (fp_node r) W Hnode) as (B1 & _).
      destruct (proj1 (rows_ok_forall d _) B1 r0 Hr0) as (_ & C2 & C3 & C4).
      rewrite <- Ht, <- Hd. auto.
    - rewrite Ht, Hd. split; [exact Hnode|]. lia. }
  assert (R4 : has_row (derive_rfp (d_nodes d) (fp_of d) n) n 0 = true).
  { apply (derive_rfp_transpose (d_nodes d) (fp_of d) n n 0 Hnd Hn Hn). right. auto. }
  assert (R5 : forallb (fun r => has_row (rfp_of (canon d) (fp_node r)) n (fp_time r)) (fp_of d n) = true).
  { apply forallb_forall. intros r Hr. destruct (A1' r Hr) as (Hnode & _).
    rewrite (canon_rfp_of d _ Hnode).
    apply (derive_rfp_transpose (d_nodes d) (fp_of d) (fp_node r) n (fp_time r) Hnd Hnode Hn). left.
    apply has_row_exists. exists r. auto. }
  assert (R6 : forallb (fun r => has_row (fp_of (canon d) (fp_node r)) n (fp_time r))
                       (derive_rfp (d_nodes d) (fp_of d) n) = true).
  { apply forallb_forall. intros r Hr.
    destruct (derive_rfp_row _ _ _ _ Hr) as [Hnode [[r0 (Hr0 & Hn0 & Ht & _)]|(Hnn & Ht & _)]].
    - rewrite (canon_fp_of d _ Hnode). apply has_row_exists. exists r0. auto.
    - rewrite (canon_fp_of d _ Hnode). rewrite Hnn, Ht. exact A3. }
  assert (R7 : forallb (fun r => negb (Nat.eqb (fp_node r) n) || (fp_time r =? 0)) (fp_of d n) = true).
  { apply forallb_forall. intros r Hr. destruct (Nat.eqb (fp_node r) n) eqn:E; [|reflexivity].
    apply Nat.eqb_eq in E. cbn [negb orb]. apply Z.eqb_eq. apply (A7 r Hr E). }
  assert (R8 : forallb (fun r => negb (Nat.eqb (fp_node r) n) || (fp_time r =? 0))
                       (derive_rfp (d_nodes d) (fp_of d) n) = true).
  { apply forallb_forall. intros r Hr. destruct (Nat.eqb (fp_node r) n) eqn:E; [|reflexivity].
    apply Nat.eqb_eq in E. cbn [negb orb]. apply Z.eqb_eq.
    destruct (derive_rfp_row _ _ _ _ Hr) as [Hnode [[r0 (Hr0 & Hn0 & Ht & _)]|(_ & Ht & _)]]; [|exact Ht].
    rewrite <- Ht. rewrite E in Hr0. apply (A7 r0 Hr0 Hn0). }
  change (rows_ok (canon d) (fp_of d n)) with (rows_ok d (fp_of d n)).
  rewrite A1, R2, A3, R4, R5, R6, R7, R8. reflexivity.
Qed.

Lemma map_fst_keyed : forall (A : Type) (F : nat -> A) l, map fst (map (fun n => (n, F n)) l) = l.
Proof. intros A F l. rewrite map_map. cbn [fst]. apply map_id. Qed.

(* the loaded image of a well-formed dataset is well-formed *)
Theorem canon_wf : forall d, wf_data_b d = true -> wf_data_b (canon d) = true.
Proof.
  intros d H. destruct (wf_data_all d H) as (W1 & W2 & W3 & W4 & W5 & _ & _ & W8 & W9 & W10).
  pose proof (canon_footpaths_ok d W1 W8) as F.
  unfold wf_data_b.
  change (d_nodes (canon d)) with (d_nodes d). change (d_trips (canon d)) with (d_trips d).
  change (d_paths (canon d)) with (d_paths d). change (d_lines (canon d)) with (d_lines d).
  change (d_scenarios (canon d)) with (d_scenarios d).
  change (d_fp (canon d)) with (map (fun n => (n, fp_of d n)) (d_nodes d)).
  change (d_rfp (canon d)) with (map (fun n => (n, derive_rfp (d_nodes d) (fp_of d) n)) (d_nodes d)).
  rewrite !map_fst_keyed.
  rewrite W1, W2, W3, W4, W5, F. cbn [andb].
  apply andb_true_iff. split; [exact W9|exact W10].
Qed.

(* ---------------------------------------------------------------------------------------------- *)
(* the boolean specifications read the same from d and from canon d                                 *)

Lemma canon_limits : forall d s p r, limits_ok_b (canon d) s p r = limits_ok_b d s p r.
Proof. reflexivity. Qed.

Lemma canon_steps_chain : forall d p l prev bdep first a,
  steps_chain (canon d) p prev bdep first l a = steps_chain d p prev bdep first l a.
Proof.
  intros d p. induction l as [|x l IH]; intros prev bdep first a; [reflexivity|].
  destruct x; cbn [steps_chain]; rewrite IH; reflexivity.
Qed.

Lemma canon_totals : forall d p r, totals_ok_b (canon d) p r = totals_ok_b d p r.
Proof.
  intros d p r. unfold totals_ok_b. rewrite canon_steps_chain.
  change (rides_transferable (canon d) r) with (rides_transferable d r). reflexivity.
Qed.

Lemma canon_wf_tables : forall d p acc egr, wf_tables_b (canon d) p acc egr = wf_tables_b d p acc egr.
Proof. reflexivity. Qed.

Lemma canon_pos_hops : forall d, pos_hops_b (canon d) = pos_hops_b d.
Proof. reflexivity. Qed.

Lemma canon_uniform_wait : forall d, uniform_wait_b (canon d) = uniform_wait_b d.
Proof. reflexivity. Qed.

Lemma canon_expected_reason : forall d s p acc egr,
  ReasonIff.expected_reason (canon d) s p acc egr = ReasonIff.expected_reason d s p acc egr.
Proof. reflexivity. Qed.

Lemma canon_leg_ok : forall d s p l, leg_ok (canon d) s p l = leg_ok d s p l.
Proof. reflexivity. Qed.

Lemma leg_ok_unode : forall d s p l, wf_data_b d = true -> leg_ok d s p l = true -> In (lg_unode l) (d_nodes d).
Proof.
  intros d s p l Hwf H. unfold leg_ok in H.
  destruct (find_trip d (lg_trip l)) as [tr|]; [|discriminate H].
  destruct (find_conn d (lg_trip l) (lg_bseq l)) as [b|]; [|discriminate H].
  destruct (find_conn d (lg_trip l) (lg_useq l)) as [e|] eqn:Fe; [|discriminate H].
  peele H H8. peele H H7. peele H H6. peele H H5. apply Nat.eqb_eq in H5. rewrite <- H5.
  apply (ValidAdm.conn_to_node d e Hwf). apply (ValidAdm.find_conn_in_all d _ _ e Fe).
Qed.

Lemma canon_chain_ok : forall d s p, wf_data_b d = true -> forall legs ready,
  forallb (leg_ok d s p) legs = true -> chain_ok (canon d) p ready legs = chain_ok d p ready legs.
Proof.
  intros d s p Hwf. induction legs as [|x r IH]; intros ready Hl; [reflexivity|].
  cbn [forallb] in Hl. peele Hl Hr.
  cbn [chain_ok]. change (leg_minw (canon d) p x) with (leg_minw d p x).
  destruct (lg_walk x) as [[w dist]|]; [|reflexivity].
  destruct r as [|y r']; [reflexivity|].
  rewrite (IH (lg_uarr x + w) Hr).
  rewrite (canon_fp_of d (lg_unode x) (leg_ok_unode d s p x Hwf Hl)). reflexivity.
Qed.

(* C01's predicate *)
Theorem canon_valid_itinerary : forall d s p acc egr r, wf_data_b d = true ->
  valid_itinerary_b (canon d) s p acc egr r = valid_itinerary_b d s p acc egr r.
Proof.
  intros d s p acc egr r Hwf. unfold valid_itinerary_b.
  destruct (parse_route r) as [[[[aw adep] legs] ew]|]; [|reflexivity].
  destruct legs as [|first rest]; [reflexivity|].
  destruct (last_leg (first :: rest)) as [lastl|]; [|reflexivity].
  change (forallb (leg_ok (canon d) s p) (first :: rest)) with (forallb (leg_ok d s p) (first :: rest)).
  destruct (forallb (leg_ok d s p) (first :: rest)) eqn:Hl.
  - rewrite (canon_chain_ok d s p Hwf (first :: rest) (adep + aw) Hl). reflexivity.
  - rewrite !andb_false_r. reflexivity.
Qed.

(* ---------------------------------------------------------------------------------------------- *)
(* the declarative journeys of d and of canon d are the same                                        *)

Lemma canon_ride_ok : forall d s p b e, ride_ok (canon d) s p b e <-> ride_ok d s p b e.
Proof. intros d s p b e. split; intros H; exact H. Qed.

Lemma ride_ok_to_node : forall d s p b e, wf_data_b d = true -> ride_ok d s p b e -> In (c_to e) (d_nodes d).
Proof. intros d s p b e Hwf (_ & He & _). apply (ValidAdm.conn_to_node d e Hwf He). Qed.

Theorem canon_reaches : forall d s p n t rides m t', wf_data_b d = true ->
  (reaches (canon d) s p n t rides m t' <-> reaches d s p n t rides m t').
Proof.
  intros d s p n t rides m t' Hwf. split; intros H.
  - induction H as [n t b e Hr Hn Ht|n t b e w n' rest m t' Hr Hn Ht Hrow Hw Hrest IH].
    + apply reaches_last; assumption.
    + apply (reaches_cons d s p n t b e w n' rest m t'); try assumption.
      rewrite <- (canon_fp_of d (c_to e) (ride_ok_to_node d s p b e Hwf Hr)). exact Hrow.
  - induction H as [n t b e Hr Hn Ht|n t b e w n' rest m t' Hr Hn Ht Hrow Hw Hrest IH].
    + apply reaches_last; assumption.
    + apply (reaches_cons (canon d) s p n t b e w n' rest m t'); try assumption.
      rewrite (canon_fp_of d (c_to e) (ride_ok_to_node d s p b e Hwf Hr)). exact Hrow.
Qed.

Theorem canon_journey : forall d s p acc egr dep0 rides arr, wf_data_b d = true ->
  (journey (canon d) s p acc egr dep0 rides arr <-> journey d s p acc egr dep0 rides arr).
Proof.
  intros d s p acc egr dep0 rides arr Hwf. unfold journey. split.
  - intros (ra & re & m & t' & H1 & H2 & H3 & H4). exists ra, re, m, t'.
    rewrite <- (canon_reaches d s p _ _ rides m t' Hwf). auto.
  - intros (ra & re & m & t' & H1 & H2 & H3 & H4). exists ra, re, m, t'.
    rewrite (canon_reaches d s p _ _ rides m t' Hwf). auto.
Qed.

Theorem canon_admissible_fwd : forall d s p acc egr rides arr, wf_data_b d = true ->
  (admissible_fwd (canon d) s p acc egr rides arr <-> admissible_fwd d s p acc egr rides arr).
Proof. intros d s p acc egr rides arr Hwf. unfold admissible_fwd. rewrite (canon_journey d s p acc egr _ rides arr Hwf). tauto. Qed.

Theorem canon_admissible_rev : forall d s p acc egr dep0 rides, wf_data_b d = true ->
  (admissible_rev (canon d) s p acc egr dep0 rides <-> admissible_rev d s p acc egr dep0 rides).
Proof.
  intros d s p acc egr dep0 rides Hwf. unfold admissible_rev. split.
  - intros (arr & H & R). exists arr. rewrite <- (canon_journey d s p acc egr dep0 rides arr Hwf). auto.
  - intros (arr & H & R). exists arr. rewrite (canon_journey d s p acc egr dep0 rides arr Hwf). auto.
Qed.

Theorem canon_alights_at : forall d s p acc n t, wf_data_b d = true ->
  (alights_at (canon d) s p acc n t <-> alights_at d s p acc n t).
Proof.
  intros d s p acc n t Hwf. unfold alights_at. split.
  - intros (ra & rides & H & R). exists ra, rides. rewrite <- (canon_reaches d s p _ _ rides n t Hwf). auto.
  - intros (ra & rides & H & R). exists ra, rides. rewrite (canon_reaches d s p _ _ rides n t Hwf). auto.
Qed.

Theorem canon_boards_at : forall d s p egr n t, wf_data_b d = true ->
  (boards_at (canon d) s p egr n t <-> boards_at d s p egr n t).
Proof.
  intros d s p egr n t Hwf. unfold boards_at. split.
  - intros (re & rides & m & t' & H & R & Q). exists re, rides, m, t'.
    rewrite <- (canon_reaches d s p n t rides m t' Hwf). auto.
  - intros (re & rides & m & t' & H & R & Q). exists re, rides, m, t'.
    rewrite (canon_reaches d s p n t rides m t' Hwf). auto.
Qed.

Lemma canon_earliest_alight : forall d s p acc n t, wf_data_b d = true ->
  (earliest_alight (canon d) s p acc n t <-> earliest_alight d s p acc n t).
Proof.
  intros d s p acc n t Hwf. unfold earliest_alight. rewrite (canon_alights_at d s p acc n t Hwf). split.
  - intros [H M]. split; [exact H|]. intros t' H'. apply M. apply (canon_alights_at d s p acc n t' Hwf). exact H'.
  - intros [H M]. split; [exact H|]. intros t' H'. apply M. apply (canon_alights_at d s p acc n t' Hwf). exact H'.
Qed.

Lemma canon_latest_board : forall d s p egr n t, wf_data_b d = true ->
  (latest_board (canon d) s p egr n t <-> latest_board d s p egr n t).
Proof.
  intros d s p egr n t Hwf. unfold latest_board. rewrite (canon_boards_at d s p egr n t Hwf). split.
  - intros [H M]. split; [exact H|]. intros t' H'. apply M. apply (canon_boards_at d s p egr n t' Hwf). exact H'.
  - intros [H M]. split; [exact H|]. intros t' H'. apply M. apply (canon_boards_at d s p egr n t' Hwf). exact H'.
Qed.

Lemma canon_in_domain : forall d s p acc egr, in_domain d s p acc egr -> in_domain (canon d) s p acc egr.
Proof.
  intros d s p acc egr (H1 & H2 & H3 & H4 & H5). unfold in_domain.
  split; [exact (canon_wf d H1)|]. split; [exact H2|]. split; [exact H3|]. split; [exact H4|exact H5].
Qed.

Lemma canon_opt_domain : forall d s p acc egr, opt_domain d s p acc egr -> opt_domain (canon d) s p acc egr.
Proof. exact canon_in_domain. Qed.

(* ============================================================================================== *)
(* 2. the property statements as predicates over an ANSWER                                          *)

(* Optimal.C03_decl .. C09_decl speak of the answer `route_answer d s p ..` computed on the very dataset whose
   journeys they quantify over.  A served answer is computed on the loaded copy `canon d`; the journeys are those
   of `d`.  So the statements are restated with the answer as an argument; C03_decl d .. is C03_of d .. applied to
   route_answer d .. (C03_decl_is_of below), nothing else changes. *)
Definition C03_of (d : data) (s : scenario) (p : params) (acc egr : list fprow) (o : outcome (route * list nat)) : Prop :=
  match o with
  | Ok (r, _) => (exists rides, admissible_fwd d s p acc egr rides (rt_arr r)) /\
                 (forall rides t, admissible_fwd d s p acc egr rides t -> rt_arr r <= t)
  | NoRouting _ => forall rides t, ~ admissible_fwd d s p acc egr rides t
  | _ => False
  end.

Definition C04_of (d : data) (s : scenario) (p : params) (acc egr : list fprow) (o : outcome (route * list nat)) : Prop :=
  match o with
  | Ok (r, _) => (exists rides, admissible_rev d s p acc egr (rt_dep r) rides) /\
                 (forall dep0 rides, admissible_rev d s p acc egr dep0 rides -> dep0 <= rt_dep r)
  | NoRouting _ => forall dep0 rides, ~ admissible_rev d s p acc egr dep0 rides
  | _ => False
  end.

Definition C05_of (d : data) (s : scenario) (p : params) (acc egr : list fprow) (o : outcome (route * list nat)) : Prop :=
  forall r used, o = Ok (r, used) ->
    q_time p <= rt_dep r /\
    (exists rides arr, journey d s p acc egr (rt_dep r) rides arr /\ arr <= rt_arr r) /\
    (forall dep0 rides arr, journey d s p acc egr dep0 rides arr -> arr <= rt_arr r -> q_time p <= dep0 ->
                            dep0 <= rt_dep r).

Definition C08_of (d : data) (s : scenario) (p : params) (rows : list fprow) (o : outcome (list accnode * Z)) : Prop :=
  match o with
  | Ok (l, total) =>
      total = Z.of_nat (length (d_nodes d)) /\ NoDup (map an_node l) /\
      (forall a, In a l -> an_ttt a = an_time a - q_time p) /\
      (forall n t, In (n, t) (map (fun a => (an_node a, an_time a)) l) <->
                   (earliest_alight d s p rows n t /\ t - q_time p <= q_maxtt p))
  | NoRouting _ => forall n t, alights_at d s p rows n t -> ~ (t - q_time p <= q_maxtt p)
  | _ => False
  end.

Definition C09_of (d : data) (s : scenario) (p : params) (rows : list fprow) (o : outcome (list accnode * Z)) : Prop :=
  match o with
  | Ok (l, total) =>
      total = Z.of_nat (length (d_nodes d)) /\ NoDup (map an_node l) /\
      (forall a, In a l -> an_time a = q_time p) /\
      (forall n t, In (n, t) (map (fun a => (an_node a, an_time a - an_ttt a)) l) <->
                   (latest_board d s p rows n t /\ q_time p - t <= q_maxtt p))
  | NoRouting _ => forall n t, boards_at d s p rows n t -> ~ (q_time p - t <= q_maxtt p)
  | _ => False
  end.

Lemma C03_decl_is_of : forall d s p acc egr, C03_decl d s p acc egr = C03_of d s p acc egr (route_answer d s p acc egr).
Proof. reflexivity. Qed.
Lemma C04_decl_is_of : forall d s p acc egr, C04_decl d s p acc egr = C04_of d s p acc egr (route_answer d s p acc egr).
Proof. reflexivity. Qed.
Lemma C05_decl_is_of : forall d s p acc egr, C05_decl d s p acc egr = C05_of d s p acc egr (route_answer d s p acc egr).
Proof. reflexivity. Qed.
Lemma C08_decl_is_of : forall d s p rows, C08_decl d s p rows = C08_of d s p rows (access_answer d s p rows).
Proof. reflexivity. Qed.
Lemma C09_decl_is_of : forall d s p rows, C09_decl d s p rows = C09_of d s p rows (access_answer d s p rows).
Proof. reflexivity. Qed.

(* the statements about the journeys of canon d are statements about the journeys of d *)
Lemma canon_C03_of : forall d s p acc egr o, wf_data_b d = true ->
  C03_of (canon d) s p acc egr o -> C03_of d s p acc egr o.
Proof.
  intros d s p acc egr o Hwf H. destruct o as [[r used]|reason| | | | | | |]; cbn [C03_of] in *; try exact H.
  - destruct H as [[rides Hex] Hmin]. split.
    + exists rides. apply (canon_admissible_fwd d s p acc egr rides _ Hwf). exact Hex.
    + intros rides' t Ha. apply (Hmin rides' t). apply (canon_admissible_fwd d s p acc egr rides' t Hwf). exact Ha.
  - intros rides t Ha. apply (H rides t). apply (canon_admissible_fwd d s p acc egr rides t Hwf). exact Ha.
Qed.

Lemma canon_C04_of : forall d s p acc egr o, wf_data_b d = true ->
  C04_of (canon d) s p acc egr o -> C04_of d s p acc egr o.
Proof.
  intros d s p acc egr o Hwf H. destruct o as [[r used]|reason| | | | | | |]; cbn [C04_of] in *; try exact H.
  - destruct H as [[rides Hex] Hmax]. split.
    + exists rides. apply (canon_admissible_rev d s p acc egr _ rides Hwf). exact Hex.
    + intros dep0 rides' Ha. apply (Hmax dep0 rides'). apply (canon_admissible_rev d s p acc egr dep0 rides' Hwf). exact Ha.
  - intros dep0 rides Ha. apply (H dep0 rides). apply (canon_admissible_rev d s p acc egr dep0 rides Hwf). exact Ha.
Qed.

Lemma canon_C05_of : forall d s p acc egr o, wf_data_b d = true ->
  C05_of (canon d) s p acc egr o -> C05_of d s p acc egr o.
Proof.
  intros d s p acc egr o Hwf H r used Ho. destruct (H r used Ho) as (H1 & [rides [arr [Hj Ha]]] & H3).
  split; [exact H1|]. split.
  - exists rides, arr. split; [|exact Ha]. apply (canon_journey d s p acc egr _ rides arr Hwf). exact Hj.
  - intros dep0 rides' arr' Hj' Ha' Hd. apply (H3 dep0 rides' arr'); try assumption.
    apply (canon_journey d s p acc egr dep0 rides' arr' Hwf). exact Hj'.
Qed.

Lemma canon_C08_of : forall d s p rows o, wf_data_b d = true ->
  C08_of (canon d) s p rows o -> C08_of d s p rows o.
Proof.
  intros d s p rows o Hwf H. destruct o as [[l total]|reason| | | | | | |]; cbn [C08_of] in *; try exact H.
  - destruct H as (H1 & H2 & H3 & H4). split; [exact H1|]. split; [exact H2|]. split; [exact H3|].
    intros n t. rewrite (H4 n t). rewrite (canon_earliest_alight d s p rows n t Hwf). tauto.
  - intros n t Ha. apply (H n t). apply (canon_alights_at d s p rows n t Hwf). exact Ha.
Qed.

Lemma canon_C09_of : forall d s p rows o, wf_data_b d = true ->
  C09_of (canon d) s p rows o -> C09_of d s p rows o.
Proof.
  intros d s p rows o Hwf H. destruct o as [[l total]|reason| | | | | | |]; cbn [C09_of] in *; try exact H.
  - destruct H as (H1 & H2 & H3 & H4). split; [exact H1|]. split; [exact H2|]. split; [exact H3|].
    intros n t. rewrite (H4 n t). rewrite (canon_latest_board d s p rows n t Hwf). tauto.
  - intros n t Ha. apply (H n t). apply (canon_boards_at d s p rows n t Hwf). exact Ha.
Qed.

(* ---------------------------------------------------------------------------------------------- *)
(* what "the response is correct" means, for the three kinds of calculation requests                *)

(* /v2/route without alternatives.  All clauses speak of d: its trips, connections, footpaths and journeys. *)
Definition route_response_correct (d : data) (s : scenario) (p : params) (acc egr : list fprow) (a : response) : Prop :=
  exists o, a = ARoute o /\
    (* a route or a no-routing reason, never a crash / undefined behaviour / endless loop / missing reply *)
    ((exists r used, o = Ok (r, used)) \/ (exists reason, o = NoRouting reason)) /\ is_bad o = false /\
    (* C01, C02, C06 *)
    (forall r used, o = Ok (r, used) ->
       valid_itinerary_b d s p acc egr r = true /\ limits_ok_b d s p r = true /\ totals_ok_b d p r = true) /\
    (* C07 *)
    (forall reason, o = NoRouting reason -> reason = ReasonIff.expected_reason d s p acc egr) /\
    (* C03, C05: departure queries without a first-waiting cap *)
    (pos_hops_b d = true -> q_fwd p = true -> q_maxfw p <= 0 -> C03_of d s p acc egr o /\ C05_of d s p acc egr o) /\
    (* C04: arrival queries *)
    (pos_hops_b d = true -> q_fwd p = false -> C04_of d s p acc egr o).

(* /v2/route with alternatives; `plain` is the response to the same query without alternatives *)
Definition alt_response_correct (d : data) (s : scenario) (p : params) (acc egr : list fprow)
           (plain a : response) : Prop :=
  match a with
  | AAlt (Ok (rs, total)) =>
      (exists used, plain = ARoute (Ok (hd (emit d p 0 []) rs, used))) /\
      (forall r, In r rs -> valid_itinerary_b d s p acc egr r = true /\ limits_ok_b d s p r = true /\
                            totals_ok_b d p r = true) /\
      NoDup (map (fun r => sort_nat (route_lines d r)) rs) /\
      Z.of_nat (length rs) <= 50 /\ Z.of_nat (length rs) <= total /\
      (pos_hops_b d = true -> (q_fwd p = true -> q_maxfw p <= 0) ->
       forall r0 r, In r rs -> if q_fwd p then rt_arr (hd r0 rs) <= rt_arr r else rt_dep r <= rt_dep (hd r0 rs))
  | AAlt (NoRouting reason) => plain = ARoute (NoRouting reason)
  | _ => False
  end.

(* the domain of the accessibility properties *)
Definition access_domain (d : data) (s : scenario) (p : params) (rows : list fprow) : Prop :=
  wf_data_b d = true /\ find_scenario d (q_scenario p) = Some s /\
  wf_tables_b d p (if q_fwd p then rows else []) (if q_fwd p then [] else rows) = true /\
  wf_params_b p = true /\ q_except_lines p = [] /\ pos_hops_b d = true /\ (q_fwd p = true -> q_maxfw p <= 0) /\
  (q_fwd p = false -> uniform_wait_b d = true).   (* C09_decl_statement carries this hypothesis (its proof does not use it) *)

(* /v2/accessibility: C08 for departure queries, C09 for arrival queries *)
Definition access_response_correct (d : data) (s : scenario) (p : params) (rows : list fprow) (a : response) : Prop :=
  exists o, a = AAccess o /\ is_bad o = false /\
            if q_fwd p then C08_of d s p rows o else C09_of d s p rows o.

(* ---------------------------------------------------------------------------------------------- *)
(* the fresh answers on the loaded copy satisfy them                                                 *)

Lemma fresh_route_is : forall D s p acc egr, find_scenario D (q_scenario p) = Some s ->
  fresh_answer D (QRoute p false acc egr) = ARoute (answer_route D s p acc egr).
Proof.
  intros D s p acc egr Hs.
  rewrite (fresh_answer_found D (QRoute p false acc egr) (q_scenario p) s eq_refl Hs). reflexivity.
Qed.

Lemma fresh_alt_is : forall D s p acc egr, find_scenario D (q_scenario p) = Some s ->
  fresh_answer D (QRoute p true acc egr) = AAlt (answer_alt D s p acc egr).
Proof.
  intros D s p acc egr Hs.
  rewrite (fresh_answer_found D (QRoute p true acc egr) (q_scenario p) s eq_refl Hs). reflexivity.
Qed.

Lemma fresh_access_is : forall D s p rows, find_scenario D (q_scenario p) = Some s ->
  fresh_answer D (QAccess p rows) = AAccess (access_answer D s p rows).
Proof.
  intros D s p rows Hs.
  rewrite (fresh_answer_found D (QAccess p rows) (q_scenario p) s eq_refl Hs). reflexivity.
Qed.

Theorem fresh_route_correct : forall d s p acc egr, in_domain d s p acc egr ->
  route_response_correct d s p acc egr (fresh_answer (canon d) (QRoute p false acc egr)).
Proof.
  intros d s p acc egr Hdom.
  pose proof (canon_in_domain d s p acc egr Hdom) as HD.
  pose proof Hdom as (Hwf & Hs & Htab & Hp & Hex).
  pose proof HD as (HwfD & HsD & HtabD & HpD & _).
  rewrite (fresh_route_is (canon d) s p acc egr HsD).
  exists (answer_route (canon d) s p acc egr). split; [reflexivity|].
  split; [exact (Compose.calc_single_outcome (canon d) s p acc egr true HwfD HtabD HpD)|].
  split; [exact (proj2 (proj2 (Assemble.C01_assembled (canon d) s p acc egr HD)))|].
  split; [|split; [|split]].
  - intros r used Ho. split; [|split].
    + rewrite <- (canon_valid_itinerary d s p acc egr r Hwf).
      exact (proj1 (Assemble.C01_assembled (canon d) s p acc egr HD) r used Ho).
    + rewrite <- (canon_limits d s p r).
      exact (proj1 (Assemble.C02_assembled (canon d) s p acc egr HD) r used Ho).
    + rewrite <- (canon_totals d p r).
      exact (Compose.calc_single_totals (canon d) s p acc egr true r used HwfD HtabD HpD Ho).
  - intros reason Ho. rewrite <- (canon_expected_reason d s p acc egr).
    exact (ReasonIff.C07_reason (canon d) s p acc egr HwfD HsD HpD HtabD reason Ho).
  - intros Hpos Hf Hfw. split.
    + apply (canon_C03_of d s p acc egr _ Hwf).
      exact (RevOptCompose.C03_decl_proved (canon d) s p acc egr HD Hpos Hf Hfw).
    + apply (canon_C05_of d s p acc egr _ Hwf).
      exact (RevOptCompose.C05_decl_strong (canon d) s p acc egr HD Hpos Hf Hfw).
  - intros Hpos Hf. apply (canon_C04_of d s p acc egr _ Hwf).
    exact (RevOptCompose.C04_decl_strong (canon d) s p acc egr HD Hpos Hf).
Qed.

Theorem fresh_alt_correct : forall d s p acc egr, in_domain d s p acc egr ->
  alt_response_correct d s p acc egr (fresh_answer (canon d) (QRoute p false acc egr))
                       (fresh_answer (canon d) (QRoute p true acc egr)).
Proof.
  intros d s p acc egr Hdom.
  pose proof (canon_in_domain d s p acc egr Hdom) as HD.
  pose proof Hdom as (Hwf & Hs & Htab & Hp & Hex).
  pose proof HD as (HwfD & HsD & HtabD & HpD & _).
  rewrite (fresh_route_is (canon d) s p acc egr HsD), (fresh_alt_is (canon d) s p acc egr HsD).
  pose proof (Assemble.C10_assembled (canon d) s p acc egr HD) as H10.
  unfold alt_response_correct.
  destruct (answer_alt (canon d) s p acc egr) as [[rs total]|reason| | | | | | |] eqn:Ea; try exact H10.
  - destruct H10 as ([used Hfirst] & Hall & Hdist & Hcap & Htot).
    split; [|split; [|split; [|split; [|split]]]].
    + exists used. change (emit d p 0 []) with (emit (canon d) p 0 []). rewrite Hfirst. reflexivity.
    + intros r Hr. destruct (Hall r Hr) as (V & L & T).
      rewrite (canon_valid_itinerary d s p acc egr r Hwf) in V. rewrite (canon_limits d s p r) in L.
      rewrite (canon_totals d p r) in T. auto.
    + exact Hdist.
    + exact Hcap.
    + exact Htot.
    + intros Hpos Hfw r0 r Hr.
      exact (OptCompose.C10_no_better_proved (canon d) s p acc egr rs total r0 HD Hpos Hfw Ea r Hr).
  - rewrite H10. reflexivity.
Qed.

Theorem fresh_access_correct : forall d s p rows, access_domain d s p rows ->
  access_response_correct d s p rows (fresh_answer (canon d) (QAccess p rows)).
Proof.
  intros d s p rows (Hwf & Hs & Htab & Hp & Hex & Hpos & Hfw & Huw).
  pose proof (canon_wf d Hwf) as HwfD.
  rewrite (fresh_access_is (canon d) s p rows Hs).
  exists (access_answer (canon d) s p rows). split; [reflexivity|].
  destruct (q_fwd p) eqn:Hf.
  - pose proof (FwdOpt.C08_decl_proved (canon d) s p rows HwfD Hs Htab Hp Hex Hpos Hf (Hfw eq_refl)) as H8.
    rewrite C08_decl_is_of in H8. split.
    + destruct (access_answer (canon d) s p rows); try reflexivity; destruct H8.
    + apply (canon_C08_of d s p rows _ Hwf). exact H8.
  - pose proof (RevOptCompose.C09_decl_proved (canon d) s p rows HwfD Hs Htab Hp Hex Hpos (Huw eq_refl) Hf) as H9.
    rewrite C09_decl_is_of in H9. split.
    + destruct (access_answer (canon d) s p rows); try reflexivity; destruct H9.
    + apply (canon_C09_of d s p rows _ Hwf). exact H9.
Qed.

(* ============================================================================================== *)
(* 3. the server started on the cache files of d                                                    *)

(* what the server holds in memory after start-up on the files encode_all d *)
Definition loaded (d : data) : data := data_of (fst (load_all (encode_all d))).

(* the response to `req` after the history `h` (C13_last_response's expression) *)
Definition served (all : bool) (d : data) (h : list request) (req : request) : response :=
  last (fst (run (start all (loaded d)) (h ++ [req]))) (AError 0).

Lemma served_unfold : forall all d h req,
  served all d h req
  = last (fst (run (start all (data_of (fst (load_all (encode_all d))))) (h ++ [req]))) (AError 0).
Proof. reflexivity. Qed.

Theorem loaded_is_canon : forall d, wf_data_b d = true -> encodable_b d = true -> loaded d = canon d.
Proof. intros d Hwf Hen. exact (proj1 (proj2 (load_all_roundtrip d Hwf Hen))). Qed.

(* start-up reads every file without a read error and, on a non-empty dataset, reports READY: requests are served *)
Theorem loaded_ready : forall d, wf_data_b d = true -> encodable_b d = true ->
  snd (load_steps (encode_all d)) = false /\
  (nonempty_data_b d = true -> snd (load_all (encode_all d)) = ST_READY).
Proof. intros d Hwf Hen. exact (proj2 (proj2 (load_all_roundtrip d Hwf Hen))). Qed.

Theorem loaded_wf : forall d, wf_data_b d = true -> encodable_b d = true -> wf_data_b (loaded d) = true.
Proof. intros d Hwf Hen. rewrite (loaded_is_canon d Hwf Hen). exact (canon_wf d Hwf). Qed.

(* whatever was served before — other scenarios, other endpoints, invalid requests, repeats — in either cache mode *)
Theorem served_is_fresh : forall all d h req, wf_data_b d = true -> encodable_b d = true ->
  served all d h req = fresh_answer (canon d) req.
Proof.
  intros all d h req Hwf Hen. unfold served. rewrite (loaded_is_canon d Hwf Hen).
  apply C13_history_independent.
Qed.

(* ... and every response inside the history *)
Theorem served_every_position : forall all d h k req, wf_data_b d = true -> encodable_b d = true ->
  nth_error h k = Some req ->
  nth_error (fst (run (start all (loaded d)) h)) k = Some (fresh_answer (canon d) req).
Proof.
  intros all d h k req Hwf Hen Hk. rewrite (loaded_is_canon d Hwf Hen), C13_every_position.
  apply map_nth_error. exact Hk.
Qed.

(* ---- /v2/route ------------------------------------------------------------------------------- *)
(* MAIN THEOREM.  Any well-formed encodable dataset d, written to cache files; the server started on them in
   either cache mode; ANY finite history h of requests; then a /v2/route request of the properties' domain:
   the response is a route or a no-routing reason (never a bad outcome) and satisfies C01, C02, C06, C07 and —
   on datasets whose hops take time — C03, C04, C05, all stated against d. *)
Theorem served_route_answers_are_correct : forall all d h s p acc egr,
  in_domain d s p acc egr -> encodable_b d = true ->
  route_response_correct d s p acc egr (served all d h (QRoute p false acc egr)).
Proof.
  intros all d h s p acc egr Hdom Hen. rewrite (served_is_fresh all d h _ (proj1 Hdom) Hen).
  exact (fresh_route_correct d s p acc egr Hdom).
Qed.

(* the same, clause by clause, in the form "if the response is ..., then ..." *)
Section RouteClauses.
  Variables (d : data) (s : scenario) (p : params) (acc egr : list fprow) (a : response).
  Hypothesis Hok : route_response_correct d s p acc egr a.

  Lemma rrc_shape : exists o, a = ARoute o /\ is_bad o = false /\
    ((exists r used, o = Ok (r, used)) \/ (exists reason, o = NoRouting reason)).
  Proof. destruct Hok as (o & Ha & Ho & Hb & _). exists o. auto. Qed.

  Lemma rrc_valid : forall r used, a = ARoute (Ok (r, used)) ->
    valid_itinerary_b d s p acc egr r = true /\ limits_ok_b d s p r = true /\ totals_ok_b d p r = true.
  Proof.
    intros r used Ha. destruct Hok as (o & Ha' & _ & _ & Hv & _). rewrite Ha in Ha'. inversion Ha' as [Ho].
    apply (Hv r used). symmetry. exact Ho.
  Qed.

  Lemma rrc_optimal_fwd : pos_hops_b d = true -> q_fwd p = true -> q_maxfw p <= 0 ->
    forall r used, a = ARoute (Ok (r, used)) ->
      (* C03: an admissible journey with this arrival exists and none arrives earlier *)
      (exists rides, admissible_fwd d s p acc egr rides (rt_arr r)) /\
      (forall rides t, admissible_fwd d s p acc egr rides t -> rt_arr r <= t) /\
      (* C05: the departure is the latest one, not before the requested time, that still meets the arrival *)
      q_time p <= rt_dep r /\
      (exists rides arr, journey d s p acc egr (rt_dep r) rides arr /\ arr <= rt_arr r) /\
      (forall dep0 rides arr, journey d s p acc egr dep0 rides arr -> arr <= rt_arr r -> q_time p <= dep0 ->
                              dep0 <= rt_dep r).
  Proof.
    intros Hpos Hf Hfw r used Ha. destruct Hok as (o & Ha' & _ & _ & _ & _ & Hfwd & _).
    rewrite Ha in Ha'. inversion Ha' as [Ho]. destruct (Hfwd Hpos Hf Hfw) as [H3 H5]. rewrite <- Ho in H3, H5.
    cbn [C03_of] in H3. destruct H3 as [H3a H3b]. destruct (H5 r used eq_refl) as (H5a & H5b & H5c).
    split; [exact H3a|]. split; [exact H3b|]. split; [exact H5a|]. split; [exact H5b|exact H5c].
  Qed.

  Lemma rrc_optimal_rev : pos_hops_b d = true -> q_fwd p = false ->
    forall r used, a = ARoute (Ok (r, used)) ->
      (* C04: an admissible journey with this departure exists and none leaves later *)
      (exists rides, admissible_rev d s p acc egr (rt_dep r) rides) /\
      (forall dep0 rides, admissible_rev d s p acc egr dep0 rides -> dep0 <= rt_dep r).
  Proof.
    intros Hpos Hf r used Ha. destruct Hok as (o & Ha' & _ & _ & _ & _ & _ & Hrev).
    rewrite Ha in Ha'. inversion Ha' as [Ho]. pose proof (Hrev Hpos Hf) as H4. rewrite <- Ho in H4. exact H4.
  Qed.

  Lemma rrc_noroute : forall reason, a = ARoute (NoRouting reason) ->
    (* C07 *)
    reason = ReasonIff.expected_reason d s p acc egr /\
    (* C03 / C04: no admissible journey exists *)
    (pos_hops_b d = true -> q_fwd p = true -> q_maxfw p <= 0 -> forall rides t, ~ admissible_fwd d s p acc egr rides t) /\
    (pos_hops_b d = true -> q_fwd p = false -> forall dep0 rides, ~ admissible_rev d s p acc egr dep0 rides).
  Proof.
    intros reason Ha. destruct Hok as (o & Ha' & _ & _ & _ & H7 & Hfwd & Hrev).
    rewrite Ha in Ha'. inversion Ha' as [Ho]. split; [apply H7; symmetry; exact Ho|]. split.
    - intros Hpos Hf Hfw. destruct (Hfwd Hpos Hf Hfw) as [H3 _]. rewrite <- Ho in H3. exact H3.
    - intros Hpos Hf. pose proof (Hrev Hpos Hf) as H4. rewrite <- Ho in H4. exact H4.
  Qed.
End RouteClauses.

Theorem served_route_not_bad : forall all d h s p acc egr,
  in_domain d s p acc egr -> encodable_b d = true ->
  exists o, served all d h (QRoute p false acc egr) = ARoute o /\ is_bad o = false /\
            ((exists r used, o = Ok (r, used)) \/ (exists reason, o = NoRouting reason)).
Proof.
  intros all d h s p acc egr Hdom Hen.
  exact (rrc_shape d s p acc egr _ (served_route_answers_are_correct all d h s p acc egr Hdom Hen)).
Qed.

Theorem served_route_valid : forall all d h s p acc egr r used,
  in_domain d s p acc egr -> encodable_b d = true ->
  served all d h (QRoute p false acc egr) = ARoute (Ok (r, used)) ->
  valid_itinerary_b d s p acc egr r = true /\ limits_ok_b d s p r = true /\ totals_ok_b d p r = true.
Proof.
  intros all d h s p acc egr r used Hdom Hen.
  exact (rrc_valid d s p acc egr _ (served_route_answers_are_correct all d h s p acc egr Hdom Hen) r used).
Qed.

Theorem served_route_optimal_fwd : forall all d h s p acc egr r used,
  in_domain d s p acc egr -> encodable_b d = true ->
  pos_hops_b d = true -> q_fwd p = true -> q_maxfw p <= 0 ->
  served all d h (QRoute p false acc egr) = ARoute (Ok (r, used)) ->
  (exists rides, admissible_fwd d s p acc egr rides (rt_arr r)) /\
  (forall rides t, admissible_fwd d s p acc egr rides t -> rt_arr r <= t) /\
  q_time p <= rt_dep r /\
  (exists rides arr, journey d s p acc egr (rt_dep r) rides arr /\ arr <= rt_arr r) /\
  (forall dep0 rides arr, journey d s p acc egr dep0 rides arr -> arr <= rt_arr r -> q_time p <= dep0 ->
                          dep0 <= rt_dep r).
Proof.
  intros all d h s p acc egr r used Hdom Hen Hpos Hf Hfw.
  exact (rrc_optimal_fwd d s p acc egr _ (served_route_answers_are_correct all d h s p acc egr Hdom Hen)
                         Hpos Hf Hfw r used).
Qed.

Theorem served_route_optimal_rev : forall all d h s p acc egr r used,
  in_domain d s p acc egr -> encodable_b d = true ->
  pos_hops_b d = true -> q_fwd p = false ->
  served all d h (QRoute p false acc egr) = ARoute (Ok (r, used)) ->
  (exists rides, admissible_rev d s p acc egr (rt_dep r) rides) /\
  (forall dep0 rides, admissible_rev d s p acc egr dep0 rides -> dep0 <= rt_dep r).
Proof.
  intros all d h s p acc egr r used Hdom Hen Hpos Hf.
  exact (rrc_optimal_rev d s p acc egr _ (served_route_answers_are_correct all d h s p acc egr Hdom Hen)
                         Hpos Hf r used).
Qed.

Theorem served_noroute_reason : forall all d h s p acc egr reason,
  in_domain d s p acc egr -> encodable_b d = true ->
  served all d h (QRoute p false acc egr) = ARoute (NoRouting reason) ->
  reason = ReasonIff.expected_reason d s p acc egr /\
  (pos_hops_b d = true -> q_fwd p = true -> q_maxfw p <= 0 -> forall rides t, ~ admissible_fwd d s p acc egr rides t) /\
  (pos_hops_b d = true -> q_fwd p = false -> forall dep0 rides, ~ admissible_rev d s p acc egr dep0 rides).
Proof.
  intros all d h s p acc egr reason Hdom Hen.
  exact (rrc_noroute d s p acc egr _ (served_route_answers_are_correct all d h s p acc egr Hdom Hen) reason).
Qed.

(* alternatives: C10 in full; the plain response may come from any other history h0 *)
Theorem served_alternatives_ok : forall all d h h0 s p acc egr,
  in_domain d s p acc egr -> encodable_b d = true ->
  alt_response_correct d s p acc egr (served all d h0 (QRoute p false acc egr)) (served all d h (QRoute p true acc egr)).
Proof.
  intros all d h h0 s p acc egr Hdom Hen. rewrite !(served_is_fresh all d _ _ (proj1 Hdom) Hen).
  exact (fresh_alt_correct d s p acc egr Hdom).
Qed.

(* ---- /v2/accessibility: C08 (departure) and C09 (arrival) -------------------------------------- *)
Theorem served_access_ok : forall all d h s p rows,
  access_domain d s p rows -> encodable_b d = true ->
  access_response_correct d s p rows (served all d h (QAccess p rows)).
Proof.
  intros all d h s p rows Hdom Hen. rewrite (served_is_fresh all d h _ (proj1 Hdom) Hen).
  exact (fresh_access_correct d s p rows Hdom).
Qed.

Theorem served_access_departure : forall all d h s p rows,
  access_domain d s p rows -> encodable_b d = true -> q_fwd p = true ->
  exists o, served all d h (QAccess p rows) = AAccess o /\ is_bad o = false /\ C08_of d s p rows o.
Proof.
  intros all d h s p rows Hdom Hen Hf.
  destruct (served_access_ok all d h s p rows Hdom Hen) as (o & Ha & Hb & H). rewrite Hf in H. exists o. auto.
Qed.

Theorem served_access_arrival : forall all d h s p rows,
  access_domain d s p rows -> encodable_b d = true -> q_fwd p = false ->
  exists o, served all d h (QAccess p rows) = AAccess o /\ is_bad o = false /\ C09_of d s p rows o.
Proof.
  intros all d h s p rows Hdom Hen Hf.
  destruct (served_access_ok all d h s p rows Hdom Hen) as (o & Ha & Hb & H). rewrite Hf in H. exists o. auto.
Qed.

(* requests outside the domain are answered as the request handlers document: an unknown scenario is the
   MISSING_SCENARIO error, a request the parameter factories reject is its error code *)
Theorem served_unknown_scenario : forall all d h req sid, wf_data_b d = true -> encodable_b d = true ->
  req_scenario req = Some sid -> find_scenario d sid = None -> served all d h req = AError 0.
Proof.
  intros all d h req sid Hwf Hen Hr Hs. rewrite (served_is_fresh all d h req Hwf Hen).
  apply (fresh_answer_missing (canon d) req sid Hr). exact Hs.
Qed.

Theorem served_invalid : forall all d h c, wf_data_b d = true -> encodable_b d = true ->
  served all d h (QInvalid c) = AError c.
Proof. intros all d h c Hwf Hen. rewrite (served_is_fresh all d h _ Hwf Hen). reflexivity. Qed.

(* ============================================================================================== *)
(* 4. after a refresh (C15)                                                                         *)

(* the response to `req` after any sequence of requests and refreshes `ops` on a server started on ANY data d0 *)
Definition served_ops (all : bool) (d0 : data) (ops : list op) (req : request) : option response :=
  last (fst (run_ops (start all d0) (ops ++ [OReq req]))) None.

Lemma spec_ops_snoc : forall ops d r,
  spec_ops d (ops ++ [OReq r]) = spec_ops d ops ++ [Some (fresh_answer (fold_left apply_refresh ops d) r)].
Proof.
  induction ops as [|o ops IH]; intros d r; [reflexivity|].
  destruct o as [r0|d']; cbn [app spec_ops fold_left apply_refresh]; rewrite IH; reflexivity.
Qed.

Theorem ops_last_is_fresh : forall all d0 ops req,
  served_ops all d0 ops req = Some (fresh_answer (fold_left apply_refresh ops d0) req).
Proof. intros all d0 ops req. unfold served_ops. rewrite C15_general, spec_ops_snoc. apply last_last. Qed.

Lemma in_force_after_refresh : forall ops1 d' h2 d0,
  fold_left apply_refresh (ops1 ++ ORefresh d' :: map OReq h2) d0 = d'.
Proof.
  intros ops1 d' h2 d0. rewrite fold_left_app. cbn [fold_left apply_refresh].
  induction h2 as [|r h2 IH]; [reflexivity|]. cbn [map fold_left apply_refresh]. exact IH.
Qed.

(* the /updateCache?names=all handler of the loader model, run on the files of d2 from ANY server state, leaves
   exactly the memory `loaded d2` with no dangling reference: this is the data the refresh operation installs *)
Theorem update_all_installs_loaded : forall d2 sv0, wf_data_b d2 = true -> encodable_b d2 = true ->
  data_of (sv_mem (update (encode_all d2) [CAll] sv0)) = loaded d2 /\
  sv_dangling (update (encode_all d2) [CAll] sv0) = [] /\
  loaded d2 = canon d2.
Proof.
  intros d2 sv0 Hwf Hen. destruct (loaded_ready d2 Hwf Hen) as [Hok _].
  destruct (update_all_is_restart (encode_all d2) sv0 Hok) as [Hm _].
  split; [rewrite Hm; reflexivity|]. split; [apply update_all_no_dangling|exact (loaded_is_canon d2 Hwf Hen)].
Qed.

(* a server started on anything (d0), after ANY operations ops1, refreshed to the files of d2, then any requests h2,
   then req: answered like a server freshly started on the files of d2 *)
Theorem refreshed_is_fresh : forall all d0 ops1 d2 h2 req, wf_data_b d2 = true -> encodable_b d2 = true ->
  served_ops all d0 (ops1 ++ ORefresh (loaded d2) :: map OReq h2) req = Some (fresh_answer (canon d2) req).
Proof.
  intros all d0 ops1 d2 h2 req Hwf Hen. rewrite ops_last_is_fresh, in_force_after_refresh.
  rewrite (loaded_is_canon d2 Hwf Hen). reflexivity.
Qed.

(* the same with the refresh performed by the loader model's handler from the server state sv0 *)
Corollary refreshed_by_handler_is_fresh : forall all d0 ops1 d2 sv0 h2 req, wf_data_b d2 = true -> encodable_b d2 = true ->
  served_ops all d0 (ops1 ++ ORefresh (data_of (sv_mem (update (encode_all d2) [CAll] sv0))) :: map OReq h2) req
  = Some (fresh_answer (canon d2) req).
Proof.
  intros all d0 ops1 d2 sv0 h2 req Hwf Hen.
  rewrite (proj1 (update_all_installs_loaded d2 sv0 Hwf Hen)). apply refreshed_is_fresh; assumption.
Qed.

Theorem refreshed_route_answers_are_correct : forall all d0 ops1 d2 h2 s p acc egr,
  in_domain d2 s p acc egr -> encodable_b d2 = true ->
  exists a, served_ops all d0 (ops1 ++ ORefresh (loaded d2) :: map OReq h2) (QRoute p false acc egr) = Some a /\
            route_response_correct d2 s p acc egr a.
Proof.
  intros all d0 ops1 d2 h2 s p acc egr Hdom Hen. eexists. split.
  - apply (refreshed_is_fresh all d0 ops1 d2 h2 _ (proj1 Hdom) Hen).
  - exact (fresh_route_correct d2 s p acc egr Hdom).
Qed.

Theorem refreshed_alternatives_ok : forall all d0 ops1 d2 h2 h2' s p acc egr,
  in_domain d2 s p acc egr -> encodable_b d2 = true ->
  exists plain a,
    served_ops all d0 (ops1 ++ ORefresh (loaded d2) :: map OReq h2') (QRoute p false acc egr) = Some plain /\
    served_ops all d0 (ops1 ++ ORefresh (loaded d2) :: map OReq h2) (QRoute p true acc egr) = Some a /\
    alt_response_correct d2 s p acc egr plain a.
Proof.
  intros all d0 ops1 d2 h2 h2' s p acc egr Hdom Hen. eexists. eexists. split; [|split].
  - apply (refreshed_is_fresh all d0 ops1 d2 h2' _ (proj1 Hdom) Hen).
  - apply (refreshed_is_fresh all d0 ops1 d2 h2 _ (proj1 Hdom) Hen).
  - exact (fresh_alt_correct d2 s p acc egr Hdom).
Qed.

Theorem refreshed_access_ok : forall all d0 ops1 d2 h2 s p rows,
  access_domain d2 s p rows -> encodable_b d2 = true ->
  exists a, served_ops all d0 (ops1 ++ ORefresh (loaded d2) :: map OReq h2) (QAccess p rows) = Some a /\
            access_response_correct d2 s p rows a.
Proof.
  intros all d0 ops1 d2 h2 s p rows Hdom Hen. eexists. split.
  - apply (refreshed_is_fresh all d0 ops1 d2 h2 _ (proj1 Hdom) Hen).
  - exact (fresh_access_correct d2 s p rows Hdom).
Qed.

(* ============================================================================================== *)
(* 5. concurrently served requests (C14)                                                            *)

(* any number of threads, any schedule over the yield points of lookup / build / publish / calculate, either cache
   mode: a request that completed got the fresh answer on the loaded data *)
Theorem concurrent_is_fresh : forall all d reqs sched i a, wf_data_b d = true -> encodable_b d = true ->
  nth_error (cs_threads (crun (cinit all (loaded d) reqs) sched)) i = Some (TDone a) ->
  exists r, nth_error reqs i = Some r /\ a = fresh_answer (canon d) r.
Proof.
  intros all d reqs sched i a Hwf Hen H. rewrite (loaded_is_canon d Hwf Hen) in H.
  exact (C14_any_schedule all (canon d) reqs sched i a H).
Qed.

Theorem concurrent_route_answers_are_correct : forall all d reqs sched i a s p acc egr,
  in_domain d s p acc egr -> encodable_b d = true ->
  nth_error reqs i = Some (QRoute p false acc egr) ->
  nth_error (cs_threads (crun (cinit all (loaded d) reqs) sched)) i = Some (TDone a) ->
  route_response_correct d s p acc egr a.
Proof.
  intros all d reqs sched i a s p acc egr Hdom Hen Hreq Hdone.
  destruct (concurrent_is_fresh all d reqs sched i a (proj1 Hdom) Hen Hdone) as (r & Hr & Ha).
  rewrite Hreq in Hr. inversion Hr as [Er]. subst a. rewrite <- Er.
  exact (fresh_route_correct d s p acc egr Hdom).
Qed.

(* the plain query may be another thread of the same run, or of any other run *)
Theorem concurrent_alternatives_ok : forall all d reqs sched i a reqs0 sched0 i0 a0 s p acc egr,
  in_domain d s p acc egr -> encodable_b d = true ->
  nth_error reqs i = Some (QRoute p true acc egr) ->
  nth_error (cs_threads (crun (cinit all (loaded d) reqs) sched)) i = Some (TDone a) ->
  nth_error reqs0 i0 = Some (QRoute p false acc egr) ->
  nth_error (cs_threads (crun (cinit all (loaded d) reqs0) sched0)) i0 = Some (TDone a0) ->
  alt_response_correct d s p acc egr a0 a.
Proof.
  intros all d reqs sched i a reqs0 sched0 i0 a0 s p acc egr Hdom Hen Hreq Hdone Hreq0 Hdone0.
  destruct (concurrent_is_fresh all d reqs sched i a (proj1 Hdom) Hen Hdone) as (r & Hr & Ha).
  destruct (concurrent_is_fresh all d reqs0 sched0 i0 a0 (proj1 Hdom) Hen Hdone0) as (r0 & Hr0 & Ha0).
  rewrite Hreq in Hr. inversion Hr as [Er]. rewrite Hreq0 in Hr0. inversion Hr0 as [Er0].
  subst a a0. rewrite <- Er, <- Er0.
  exact (fresh_alt_correct d s p acc egr Hdom).
Qed.

Theorem concurrent_access_ok : forall all d reqs sched i a s p rows,
  access_domain d s p rows -> encodable_b d = true ->
  nth_error reqs i = Some (QAccess p rows) ->
  nth_error (cs_threads (crun (cinit all (loaded d) reqs) sched)) i = Some (TDone a) ->
  access_response_correct d s p rows a.
Proof.
  intros all d reqs sched i a s p rows Hdom Hen Hreq Hdone.
  destruct (concurrent_is_fresh all d reqs sched i a (proj1 Hdom) Hen Hdone) as (r & Hr & Ha).
  rewrite Hreq in Hr. inversion Hr as [Er]. subst a. rewrite <- Er.
  exact (fresh_access_correct d s p rows Hdom).
Qed.

(* not vacuous: under the round-robin schedule of C14_progress every thread completes, so every in-domain route
   request of the batch has a (correct) response *)
Theorem concurrent_fair_schedule_answers : forall all d reqs i s p acc egr,
  in_domain d s p acc egr -> encodable_b d = true ->
  nth_error reqs i = Some (QRoute p false acc egr) ->
  exists a,
    nth_error (cs_threads (crun (cinit all (loaded d) reqs) (flat_map (fun i => [i; i; i]) (seq 0 (length reqs))))) i
    = Some (TDone a) /\ route_response_correct d s p acc egr a.
Proof.
  intros all d reqs i s p acc egr Hdom Hen Hreq.
  set (sched := flat_map (fun i => [i; i; i]) (seq 0 (length reqs))).
  pose proof (C14_progress all (loaded d) reqs) as Hdone. fold sched in Hdone.
  destruct (C14_shape_after all (loaded d) reqs sched) as [_ Hlen].
  assert (Hi : (i < length reqs)%nat) by (apply nth_error_Some; rewrite Hreq; discriminate).
  destruct (nth_error (cs_threads (crun (cinit all (loaded d) reqs) sched)) i) as [t|] eqn:Ht.
  2:{ apply nth_error_None in Ht. lia. }
  unfold all_done in Hdone. rewrite forallb_forall in Hdone.
  specialize (Hdone t (nth_error_In _ _ Ht)).
  destruct t as [r0|r0 sid cs|r0 cs|a]; try discriminate Hdone.
  exists a. split; [reflexivity|].
  exact (concurrent_route_answers_are_correct all d reqs sched i a s p acc egr Hdom Hen Hreq Ht).
Qed.

(* ============================================================================================== *)
(* 6. non-vacuity                                                                                   *)

Definition ex_history : list request :=
  [QInvalid 3; QAccess (ex_params true 35000) ex_acc; QRoute (ex_params false 37000) true ex_acc ex_egr].

(* the hypotheses hold of Examples.ex_data (LoaderProofs has an ex_data of its own, hence the qualified name); after a history of three requests (an invalid one, an accessibility
   request, an arrival-time alternatives request) the departure-time route request is answered with the route
   arriving at 36750 (Examples.ex_forward_answer) *)
Example served_example :
  in_domain Examples.ex_data scen_all (ex_params true 35000) ex_acc ex_egr /\ encodable_b Examples.ex_data = true /\
  nonempty_data_b Examples.ex_data = true /\ snd (load_all (encode_all Examples.ex_data)) = ST_READY /\
  pos_hops_b Examples.ex_data = true /\ q_fwd (ex_params true 35000) = true /\ q_maxfw (ex_params true 35000) <= 0 /\
  length ex_history = 3%nat /\
  match served true Examples.ex_data ex_history (QRoute (ex_params true 35000) false ex_acc ex_egr) with
  | ARoute (Ok (r, _)) => rt_dep r = 35840 /\ rt_arr r = 36750 /\ rt_nboard r = 2
  | _ => False
  end /\
  match served false Examples.ex_data ex_history (QRoute (ex_params true 35000) false ex_acc ex_egr) with
  | ARoute (Ok (r, _)) => rt_arr r = 36750
  | _ => False
  end.
Proof. unfold in_domain. vm_compute. repeat split; try reflexivity; discriminate. Qed.

(* the example through the theorems: the served route is valid and optimal for Examples.ex_data *)
Example served_example_properties :
  forall r used, served true Examples.ex_data ex_history (QRoute (ex_params true 35000) false ex_acc ex_egr) = ARoute (Ok (r, used)) ->
    valid_itinerary_b Examples.ex_data scen_all (ex_params true 35000) ex_acc ex_egr r = true /\
    (forall rides t, admissible_fwd Examples.ex_data scen_all (ex_params true 35000) ex_acc ex_egr rides t -> rt_arr r <= t).
Proof.
  intros r used H.
  assert (Hdom : in_domain Examples.ex_data scen_all (ex_params true 35000) ex_acc ex_egr)
    by (unfold in_domain; vm_compute; repeat split; reflexivity).
  assert (Hen : encodable_b Examples.ex_data = true) by (vm_compute; reflexivity).
  split.
  - exact (proj1 (served_route_valid true Examples.ex_data ex_history scen_all _ ex_acc ex_egr r used Hdom Hen H)).
  - assert (Hpos : pos_hops_b Examples.ex_data = true) by (vm_compute; reflexivity).
    assert (Hfw : q_maxfw (ex_params true 35000) <= 0) by (vm_compute; discriminate).
    exact (proj1 (proj2 (served_route_optimal_fwd true Examples.ex_data ex_history scen_all _ ex_acc ex_egr r used
                           Hdom Hen Hpos eq_refl Hfw H))).
Qed.

(* after a refresh from a server started on an EMPTY dataset, and for two threads under an interleaved schedule *)
Definition empty_data : data :=
  {| d_nodes := []; d_fp := []; d_rfp := []; d_lines := []; d_paths := []; d_trips := []; d_scenarios := [] |}.

Example refresh_concurrent_example :
  (* before the refresh the scenario is unknown; after it the route is served *)
  served_ops true empty_data [] (QRoute (ex_params true 35000) false ex_acc ex_egr) = Some (AError 0) /\
  match served_ops true empty_data
          [OReq (QRoute (ex_params true 35000) false ex_acc ex_egr); ORefresh (loaded Examples.ex_data); OReq (QInvalid 3)]
          (QRoute (ex_params true 35000) false ex_acc ex_egr) with
  | Some (ARoute (Ok (r, _))) => rt_arr r = 36750
  | _ => False
  end /\
  (* two threads, both missing the cache, steps interleaved *)
  match cs_threads (crun (cinit true (loaded Examples.ex_data)
                                [QRoute (ex_params true 35000) false ex_acc ex_egr;
                                 QRoute (ex_params false 37000) false ex_acc ex_egr])
                         [0; 1; 0; 1; 1; 0]%nat) with
  | [TDone (ARoute (Ok (r1, _))); TDone (ARoute (Ok (r2, _)))] => rt_arr r1 = 36750 /\ rt_dep r2 = 35840
  | _ => False
  end.
Proof. vm_compute. repeat split; reflexivity. Qed.

Print Assumptions canon_wf.
Print Assumptions canon_valid_itinerary.
Print Assumptions canon_reaches.
Print Assumptions served_is_fresh.
Print Assumptions served_every_position.
Print Assumptions served_route_answers_are_correct.
Print Assumptions served_route_not_bad.
Print Assumptions served_route_valid.
Print Assumptions served_route_optimal_fwd.
Print Assumptions served_route_optimal_rev.
Print Assumptions served_noroute_reason.
Print Assumptions served_alternatives_ok.
Print Assumptions served_access_ok.
Print Assumptions served_access_departure.
Print Assumptions served_access_arrival.
Print Assumptions update_all_installs_loaded.
Print Assumptions refreshed_is_fresh.
Print Assumptions refreshed_route_answers_are_correct.
Print Assumptions refreshed_alternatives_ok.
Print Assumptions refreshed_access_ok.
Print Assumptions concurrent_is_fresh.
Print Assumptions concurrent_route_answers_are_correct.
Print Assumptions concurrent_alternatives_ok.
Print Assumptions concurrent_access_ok.
Print Assumptions concurrent_fair_schedule_answers.
Print Assumptions served_example.
Print Assumptions served_example_properties.
Print Assumptions refresh_concurrent_example.

(* OPEN: nothing of the requested statements is open.
   Remarks.
   - The arrival-time accessibility clause (C09) is stated under uniform_wait_b d = true (access_domain), because
     RevOptCompose.C09_decl_proved : C09_decl_statement carries that hypothesis; its proof does not use it, so an
     exported "strong" variant there would remove the hypothesis here without any other change.
   - The served answer is the calculation on `canon d` (the loader's layout: forward rows as written, reverse rows
     derived).  calc_single (canon d) and calc_single d need not be the same term when d_rfp d lists its rows in
     another order or with extra self rows (the reverse scan folds over rfp_of); every statement above is therefore
     about the answer actually served, with validity / limits / totals / reasons / journeys read from d.
   - fp_of (canon d) n = fp_of d n only for stops n of the dataset (d_fp may hold rows for keys that are not stops;
     the loader never sees them).  valid_itinerary_b still coincides on ALL routes (canon_valid_itinerary) because
     a transfer row is only looked up at the alighting stop of a leg that leg_ok has tied to a connection of d. *)
