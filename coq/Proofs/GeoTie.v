(* GeoTie.v — the arithmetic of the geographic filters AS THE SOURCE WRITES IT NOW (gen/Geo.v: typed expression trees read
   by tools/gen_geo.py from src/geofilter.cpp, src/euclideangeofilter.cpp, src/osrmgeofilter.cpp) evaluated by coq/Geo.v
   (int operations wrap to 32 bits, floating operations are exact rationals, conversions are explicit) is the small hand
   model of coq/Geo.v, and what follows from it:

   max_dist_sq_is_code          calculateMaxDistanceSquared(t, v) = (t*v)^2 for EVERY int t: no 32-bit intermediate.  Breaks
                                when the body becomes `t * t * v * v` (int product first) or squares an int radius.
   walk_radius_monotone         a larger maximum gives a larger radius; candidate_monotone / candidate_no_limit: a stop
                                that is a candidate stays one under any larger maximum and under "no limit" (MAX_INT)
   node_dist_sq_is_code         calculateNodeDistanceSquared = dx^2 + dy^2, dx = (lon_n - lon_p) * len_lon, dy likewise
   euclid_guard_is_code         the Euclidean filter lists a stop iff d2 <= (t*v)^2
   euclid_row_within_maximum    a listed stop gets distance floor(sqrt d2) >= 0 and time trunc(distance / v), 0 <= time <= t
   osrm_prefilter_is_code       a stop is sent to the walking router iff d2 <= (t*v)^2
   osrm_empty_is_code           no candidate: no row, and the router is not asked (Osrm.osrm_rows _ [] _ = Ok [])
   osrm_row_guard_is_code       a row of the reply is kept iff ceil(duration) <= t;  osrm_row_values_are_code,
                                osrm_row_loop_is_code: the values of the row, first index 1, `i < n`, stop i - 1

   Rationals are compared with == (Qeq) and <= (Qle), never with Leibniz equality.  Float rounding is outside the model
   (coq/Geo.v); trigonometry (the two degree lengths) is an input. *)
From Coq Require Import ZArith QArith Qround Lia Lqa Bool List.
From TrV Require Import Osrm.
Require Import TrV.Geo.
Require TrV.gen.Geo.
Import ListNotations.
Local Open Scope Z_scope.

Module GG := TrV.gen.Geo.

(* evaluation of a tree: the interpreter only, no arithmetic; `in_int` of a literal is computed *)
Ltac geo_lit :=
  repeat match goal with
         | |- context [in_int (Zpos ?p)] => let b := eval vm_compute in (in_int (Zpos p)) in change (in_int (Zpos p)) with b
         | |- context [in_int (Zneg ?p)] => let b := eval vm_compute in (in_int (Zneg p)) in change (in_int (Zneg p)) with b
         | |- context [in_int Z0] => change (in_int Z0) with true
         end.
Ltac geo_eval := repeat (progress (cbn [eval obind as_int as_flt iop fop icmp fcmp]; geo_lit)).

(* ---------------------------------------------------------------------------------------------- *)
(* rationals                                                                                        *)

Lemma Qle_bool_comp (a a' b b' : Q) : (a == a')%Q -> (b == b')%Q -> Qle_bool a b = Qle_bool a' b'.
Proof.
  intros Ha Hb. destruct (Qle_bool a b) eqn:H1, (Qle_bool a' b') eqn:H2; auto.
  - apply Qle_bool_iff in H1. rewrite Ha, Hb in H1. apply Qle_bool_iff in H1. congruence.
  - apply Qle_bool_iff in H2. rewrite <- Ha, <- Hb in H2. apply Qle_bool_iff in H2. congruence.
Qed.

Lemma Qsq_nonneg (a : Q) : (0 <= a * a)%Q.
Proof. nra. Qed.

Lemma Qsq_le_inv (a b : Q) : (0 <= a)%Q -> (0 <= b)%Q -> (a * a <= b * b)%Q -> (a <= b)%Q.
Proof. intros. nra. Qed.

Lemma Qeq_bool_pos (v : Q) : (0 < v)%Q -> Qeq_bool v 0 = false.
Proof.
  intro H. destruct (Qeq_bool v 0) eqn:E; auto. apply Qeq_bool_iff in E. rewrite E in H. exfalso. revert H. apply Qlt_irrefl.
Qed.

Lemma Qtrunc_nonneg (q : Q) : (0 <= q)%Q -> Qtrunc q = Qfloor q /\ 0 <= Qfloor q.
Proof.
  intro H. unfold Qtrunc. apply Qle_bool_iff in H. rewrite H. split; auto.
  apply Qle_bool_iff in H. change 0 with (Qfloor 0). apply Qfloor_resp_le. exact H.
Qed.

Lemma Qtrunc_inject_Z (z : Z) : Qtrunc (inject_Z z) = z.
Proof. unfold Qtrunc. destruct (Qle_bool 0 (inject_Z z)); [apply Qfloor_Z | apply Qceiling_Z]. Qed.

Lemma f2i_inject_Z (z : Z) : in_int z = true -> f2i (inject_Z z) = Some z.
Proof. intro H. unfold f2i. rewrite Qtrunc_inject_Z, H. reflexivity. Qed.

Lemma in_int_iff (z : Z) : in_int z = true <-> - 2 ^ 31 <= z < 2 ^ 31.
Proof. unfold in_int. rewrite andb_true_iff, Z.leb_le, Z.ltb_lt. tauto. Qed.

(* ---------------------------------------------------------------------------------------------- *)
(* the radius                                                                                       *)

(* for EVERY int t and every rational v.  The proof evaluates the tree the translator read: were there an int product in
   it, `wrap32` would appear in the value and `ring` could not close the equation. *)
Theorem max_dist_sq_is_code : forall ie fe, in_int (ie IMaxT) = true ->
  exists q, eval ie fe GG.gen_geo_max_dist_sq = Some (VF q) /\ (q == max_dist_sq (ie IMaxT) (fe FSpeed))%Q.
Proof.
  intros ie fe _. unfold GG.gen_geo_max_dist_sq. geo_eval.
  eexists. split; [reflexivity|]. unfold max_dist_sq. ring.
Qed.

(* the same, as the square it is *)
Corollary max_dist_sq_is_code_square : forall ie fe, in_int (ie IMaxT) = true ->
  exists q, eval ie fe GG.gen_geo_max_dist_sq = Some (VF q) /\ (q == (inject_Z (ie IMaxT) * fe FSpeed) ^ 2)%Q.
Proof.
  intros ie fe H. destruct (max_dist_sq_is_code ie fe H) as [q [H1 H2]]. exists q. split; [exact H1|].
  rewrite H2. apply max_dist_sq_power.
Qed.

Theorem walk_radius_monotone : forall t1 t2 v, 0 <= t1 <= t2 -> (0 <= v)%Q ->
  (max_dist_sq t1 v <= max_dist_sq t2 v)%Q.
Proof.
  intros t1 t2 v [H0 H12] Hv. unfold max_dist_sq.
  assert (A : (0 <= inject_Z t1)%Q) by (rewrite Zle_Qle in H0; exact H0).
  assert (B : (inject_Z t1 <= inject_Z t2)%Q) by (rewrite Zle_Qle in H12; exact H12).
  assert (C : (0 <= inject_Z t1 * v)%Q) by nra.
  assert (D : (inject_Z t1 * v <= inject_Z t2 * v)%Q) by nra.
  nra.
Qed.

Corollary candidate_monotone : forall d2 t1 t2 v, 0 <= t1 <= t2 -> (0 <= v)%Q ->
  candidate d2 t1 v = true -> candidate d2 t2 v = true.
Proof.
  intros d2 t1 t2 v Ht Hv. unfold candidate. rewrite !Qle_bool_iff. intro H.
  eapply Qle_trans; [exact H | apply walk_radius_monotone; assumption].
Qed.

(* "no limit" is sent as MAX_INT: every candidate under an int maximum is one under no limit *)
Corollary candidate_no_limit : forall d2 t v, 0 <= t -> in_int t = true -> (0 <= v)%Q ->
  candidate d2 t v = true -> candidate d2 INT_MAX v = true.
Proof.
  intros d2 t v H0 Hi Hv. apply candidate_monotone; auto. apply in_int_iff in Hi. unfold INT_MAX. lia.
Qed.

(* ---------------------------------------------------------------------------------------------- *)
(* the squared distance                                                                             *)

Definition env_d2 (fe : fvar -> Q) : Q :=
  node_dist_sq (fe FLonN) (fe FLatN) (fe FLonP) (fe FLatP) (fe FLenLon) (fe FLenLat).

Theorem node_dist_sq_is_code : forall ie fe,
  exists q, eval ie fe GG.gen_geo_node_dist_sq = Some (VF q) /\
    (q == ((fe FLonN - fe FLonP) * fe FLenLon) ^ 2 + ((fe FLatN - fe FLatP) * fe FLenLat) ^ 2)%Q /\ (q == env_d2 fe)%Q.
Proof.
  intros ie fe. unfold GG.gen_geo_node_dist_sq. geo_eval.
  eexists. split; [reflexivity|]. unfold env_d2, node_dist_sq. split; simpl; ring.
Qed.

Lemma env_d2_nonneg fe : (0 <= env_d2 fe)%Q.
Proof.
  unfold env_d2, node_dist_sq.
  pose proof (Qsq_nonneg ((fe FLonN - fe FLonP) * fe FLenLon)). pose proof (Qsq_nonneg ((fe FLatN - fe FLatP) * fe FLenLat)).
  cbv zeta. nra.
Qed.

(* on Earth the hypothesis `d2 < 2^62` of euclid_row_within_maximum holds with a lot of room: coordinates are degrees,
   a degree is at most some 111.7 km *)
Lemma env_d2_on_earth fe :
  (-180 <= fe FLonN <= 180)%Q -> (-180 <= fe FLonP <= 180)%Q -> (-90 <= fe FLatN <= 90)%Q -> (-90 <= fe FLatP <= 90)%Q ->
  (0 <= fe FLenLon <= 111600)%Q -> (0 <= fe FLenLat <= 111700)%Q ->
  (env_d2 fe < inject_Z (2 ^ 62))%Q.
Proof.
  intros H1 H2 H3 H4 H5 H6. unfold env_d2, node_dist_sq. cbv zeta.
  set (a := (fe FLonN - fe FLonP)%Q). set (b := (fe FLatN - fe FLatP)%Q).
  assert (Ha : (-360 <= a <= 360)%Q) by (unfold a; lra).
  assert (Hb : (-180 <= b <= 180)%Q) by (unfold b; lra).
  assert (Hx : (-40176000 <= a * fe FLenLon <= 40176000)%Q) by nra.
  assert (Hy : (-20106000 <= b * fe FLenLat <= 20106000)%Q) by nra.
  assert (Hxx : (a * fe FLenLon * (a * fe FLenLon) <= 40176000 * 40176000)%Q) by nra.
  assert (Hyy : (b * fe FLenLat * (b * fe FLenLat) <= 20106000 * 20106000)%Q) by nra.
  apply Qle_lt_trans with (40176000 * 40176000 + 20106000 * 20106000)%Q; [lra|].
  reflexivity.
Qed.

(* ---------------------------------------------------------------------------------------------- *)
(* the Euclidean filter                                                                             *)

(* the candidate test, with both calls inlined by the translator *)
Theorem euclid_guard_is_code : forall ie fe, in_int (ie IMaxT) = true ->
  eval ie fe GG.gen_geo_euclid_guard = Some (VB (candidate (env_d2 fe) (ie IMaxT) (fe FSpeed))).
Proof.
  intros ie fe _. unfold GG.gen_geo_euclid_guard. geo_eval. unfold candidate. apply (f_equal Some). apply (f_equal VB).
  apply Qle_bool_comp; unfold env_d2, node_dist_sq, max_dist_sq; ring.
Qed.

Lemma euclid_distance_eval ie fe z : isqrt_trunc (env_d2 fe) = Some z ->
  eval ie fe GG.gen_geo_euclid_distance = Some (VI z).
Proof.
  intro Hz. unfold GG.gen_geo_euclid_distance. geo_eval.
  match goal with |- context [isqrt_trunc ?e] =>
    replace (isqrt_trunc e) with (isqrt_trunc (env_d2 fe))
      by (apply isqrt_trunc_comp; unfold env_d2, node_dist_sq; ring) end.
  rewrite Hz. reflexivity.
Qed.

Lemma euclid_time_eval ie fe z tm : isqrt_trunc (env_d2 fe) = Some z -> (0 < fe FSpeed)%Q ->
  f2i (inject_Z z / fe FSpeed) = Some tm ->
  eval ie fe GG.gen_geo_euclid_time = Some (VI tm).
Proof.
  intros Hz Hv Ht. unfold GG.gen_geo_euclid_time. geo_eval.
  match goal with |- context [isqrt_trunc ?e] =>
    replace (isqrt_trunc e) with (isqrt_trunc (env_d2 fe))
      by (apply isqrt_trunc_comp; unfold env_d2, node_dist_sq; ring) end.
  rewrite Hz. geo_eval. rewrite (Qeq_bool_pos _ Hv). geo_eval. rewrite Ht. reflexivity.
Qed.

(* every walk the Euclidean filter offers respects the maximum it was asked for.
   Hypotheses: the maximum is a non-negative int, the speed positive, and the stop is less than 2^31 m away (d2 < 2^62;
   env_d2_on_earth) — further away `int distanceMeters = sqrt(..)` is undefined behaviour, which a maximum of MAX_INT
   seconds ("no limit": a radius of 2.98e9 m at 5 km/h) does not exclude by itself. *)
Theorem euclid_row_within_maximum : forall ie fe,
  0 <= ie IMaxT -> in_int (ie IMaxT) = true -> (0 < fe FSpeed)%Q -> (env_d2 fe < inject_Z (2 ^ 62))%Q ->
  eval ie fe GG.gen_geo_euclid_guard = Some (VB true) ->
  exists dist time,
    eval ie fe GG.gen_geo_euclid_distance = Some (VI dist) /\ dist = euclid_dist (env_d2 fe) /\ 0 <= dist /\
    eval ie fe GG.gen_geo_euclid_time = Some (VI time) /\ time = euclid_time (env_d2 fe) (fe FSpeed) /\
    0 <= time <= ie IMaxT /\
    euclid_row (env_d2 fe) (ie IMaxT) (fe FSpeed) = Some {| gr_time := time; gr_dist := dist |}.
Proof.
  intros ie fe Ht0 Hti Hv Hfar Hg.
  rewrite (euclid_guard_is_code ie fe Hti) in Hg. injection Hg as Hc.
  set (d2 := env_d2 fe) in *. set (t := ie IMaxT) in *. set (v := fe FSpeed) in *.
  pose proof (env_d2_nonneg fe) as Hd0. fold d2 in Hd0.
  destruct (isqrt_floor_spec d2 Hd0) as [Hz0 [Hzlo _]]. fold (euclid_dist d2) in Hz0, Hzlo.
  set (dist := euclid_dist d2) in *.
  (* the distance is an int *)
  assert (Hfl : Qfloor d2 < 2 ^ 62).
  { rewrite Zlt_Qlt. eapply Qle_lt_trans; [apply Qfloor_le | exact Hfar]. }
  assert (Hdi : dist < 2 ^ 31).
  { unfold dist, euclid_dist. apply Z.sqrt_lt_square; [|lia|].
    - change 0 with (Qfloor 0). apply Qfloor_resp_le. exact Hd0.
    - change (2 ^ 31 * 2 ^ 31) with (2 ^ 62). exact Hfl. }
  assert (Hsq : isqrt_trunc d2 = Some dist).
  { unfold isqrt_trunc. apply Qle_bool_iff in Hd0. rewrite Hd0. fold (euclid_dist d2). fold dist.
    replace (in_int dist) with true; [reflexivity|]. symmetry. apply in_int_iff. lia. }
  (* the time *)
  unfold candidate in Hc. apply Qle_bool_iff in Hc. unfold max_dist_sq in Hc. fold t v in Hc.
  assert (HT : (0 <= inject_Z t)%Q) by (rewrite Zle_Qle in Ht0; exact Ht0).
  assert (HD : (0 <= inject_Z dist)%Q) by (rewrite Zle_Qle in Hz0; exact Hz0).
  assert (Htv : (0 <= inject_Z t * v)%Q) by nra.
  assert (Hle : (inject_Z dist <= inject_Z t * v)%Q).
  { apply Qsq_le_inv; auto. eapply Qle_trans; [exact Hzlo | exact Hc]. }
  assert (Hq0 : (0 <= inject_Z dist / v)%Q).
  { apply Qle_shift_div_l; [exact Hv|]. nra. }
  assert (Hqt : (inject_Z dist / v <= inject_Z t)%Q).
  { apply Qle_shift_div_r; [exact Hv | exact Hle]. }
  destruct (Qtrunc_nonneg _ Hq0) as [Htr Hfl0].
  assert (Hflt : Qfloor (inject_Z dist / v) <= t).
  { rewrite <- (Qfloor_Z t). apply Qfloor_resp_le. exact Hqt. }
  set (time := euclid_time d2 v).
  assert (Htime : time = Qfloor (inject_Z dist / v)) by (unfold time, euclid_time; fold dist; exact Htr).
  assert (Hf2i : f2i (inject_Z dist / v) = Some time).
  { unfold f2i. fold (euclid_time d2 v) in *. unfold euclid_time in time. fold dist in time. fold time.
    replace (in_int time) with true; [reflexivity|]. symmetry. apply in_int_iff. apply in_int_iff in Hti. fold t in Hti. lia. }
  exists dist, time. repeat split.
  - exact (euclid_distance_eval ie fe dist Hsq).
  - exact Hz0.
  - exact (euclid_time_eval ie fe dist time Hsq Hv Hf2i).
  - lia.
  - lia.
  - unfold euclid_row, candidate. apply Qle_bool_iff in Hc. unfold max_dist_sq. fold t v. rewrite Hc. reflexivity.
Qed.

(* ---------------------------------------------------------------------------------------------- *)
(* the walking-router filter                                                                        *)

Theorem osrm_prefilter_is_code : forall ie fe, in_int (ie IMaxT) = true ->
  eval ie fe GG.gen_geo_osrm_prefilter_guard = Some (VB (candidate (env_d2 fe) (ie IMaxT) (fe FSpeed))).
Proof.
  intros ie fe _. unfold GG.gen_geo_osrm_prefilter_guard. geo_eval. unfold candidate. apply (f_equal Some). apply (f_equal VB).
  apply Qle_bool_comp; unfold env_d2, node_dist_sq, max_dist_sq; ring.
Qed.

(* both filters test the same thing *)
Corollary osrm_prefilter_is_euclid_guard : forall ie fe, in_int (ie IMaxT) = true ->
  eval ie fe GG.gen_geo_osrm_prefilter_guard = eval ie fe GG.gen_geo_euclid_guard.
Proof. intros ie fe H. rewrite osrm_prefilter_is_code, euclid_guard_is_code; auto. Qed.

(* no stop within bird distance: the source returns its (still empty) row vector before anything talks to the router —
   the model's `osrm_rows _ [] _ = Ok []`, whatever the router would have done *)
Theorem osrm_empty_is_code : forall ie fe (asked : list nat),
  ie ICandidates = Z.of_nat (length asked) ->
  GG.gen_geo_osrm_empty_returns_nothing = true /\
  eval ie fe GG.gen_geo_osrm_empty_test = Some (VB (match asked with [] => true | _ => false end)) /\
  (eval ie fe GG.gen_geo_osrm_empty_test = Some (VB true) -> forall x maxt, osrm_rows x asked maxt = Ok []).
Proof.
  intros ie fe asked Hn. split; [reflexivity|].
  assert (E : eval ie fe GG.gen_geo_osrm_empty_test = Some (VB (match asked with [] => true | _ => false end))).
  { unfold GG.gen_geo_osrm_empty_test. geo_eval. rewrite Hn. destruct asked; reflexivity. }
  split; [exact E|]. rewrite E. destruct asked; [reflexivity | discriminate].
Qed.

Theorem osrm_row_guard_is_code : forall ie fe,
  in_int (ie IMaxT) = true -> in_int (Qceiling (fe FDuration)) = true ->
  eval ie fe GG.gen_geo_osrm_row_guard = Some (VB (osrm_row_kept (fe FDuration) (ie IMaxT))).
Proof.
  intros ie fe _ Hd. unfold GG.gen_geo_osrm_row_guard. geo_eval. rewrite (f2i_inject_Z _ Hd). geo_eval. reflexivity.
Qed.

Theorem osrm_row_values_are_code : forall ie fe,
  in_int (Qceiling (fe FDuration)) = true -> in_int (Qceiling (fe FDistance)) = true ->
  eval ie fe GG.gen_geo_osrm_row_time = Some (VI (osrm_ceil (fe FDuration))) /\
  eval ie fe GG.gen_geo_osrm_row_distance = Some (VI (osrm_ceil (fe FDistance))).
Proof.
  intros ie fe H1 H2. unfold GG.gen_geo_osrm_row_time, GG.gen_geo_osrm_row_distance. geo_eval.
  rewrite (f2i_inject_Z _ H1), (f2i_inject_Z _ H2). split; reflexivity.
Qed.

(* Osrm.v carries the reply in tenths of a unit; its `jfloat_ceil` is this ceil *)
Lemma osrm_ceil_tenths (tenths : Z) (q : Q) : (q == tenths # 10)%Q -> jfloat_ceil (JNum tenths) = Some (osrm_ceil q).
Proof.
  intro H. unfold osrm_ceil, jfloat_ceil. rewrite (Qceiling_comp _ _ H). f_equal.
  unfold Qceiling, Qfloor, Qopp, Qnum, Qden.
  pose proof (Z_div_mod_eq_full (tenths + 9) 10). pose proof (Z.mod_pos_bound (tenths + 9) 10 ltac:(lia)).
  pose proof (Z_div_mod_eq_full (- tenths) 10). pose proof (Z.mod_pos_bound (- tenths) 10 ltac:(lia)).
  change (Z.pos 10) with 10. lia.
Qed.

(* the loop over the reply: starts at 1 (entry 0 is the point itself), runs while i < n, row i is about the stop sent i-th *)
Theorem osrm_row_loop_is_code : forall ie fe (i n : nat),
  ie IRow = Z.of_nat i -> ie INumDurations = Z.of_nat n -> in_int (ie IRow) = true ->
  eval ie fe GG.gen_geo_osrm_row_first = Some (VI 1) /\
  eval ie fe GG.gen_geo_osrm_row_continue = Some (VB (negb (Nat.leb n i))) /\
  ((1 <= i)%nat -> eval ie fe GG.gen_geo_osrm_row_node_index = Some (VI (Z.of_nat (i - 1)))).
Proof.
  intros ie fe i n Hi Hn Hr. split; [reflexivity|]. split.
  - unfold GG.gen_geo_osrm_row_continue. geo_eval. rewrite Hi, Hn. do 2 f_equal.
    destruct (Nat.leb n i) eqn:E; [apply Nat.leb_le in E | apply Nat.leb_gt in E]; cbn [negb]; lia.
  - intro H1. unfold GG.gen_geo_osrm_row_node_index. geo_eval.
    apply in_int_iff in Hr. rewrite wrap32_id; [|apply in_int_iff; lia]. do 2 f_equal. lia.
Qed.

(* ---------------------------------------------------------------------------------------------- *)
(* the hypotheses can be met; what a wrong tree does                                                *)

(* 20 minutes at 5 km/h = 5/3.6 m/s; a stop 0.01 degree east where a degree of longitude is 78 km: 780 m, 561 s *)
Definition ex_ie (x : ivar) : Z := match x with IMaxT => 1200 | _ => 0 end.
Definition ex_fe (x : fvar) : Q :=
  match x with
  | FSpeed => 25 # 18 | FLonN => -7299 # 100 | FLonP => -73 | FLatN => 455 # 10 | FLatP => 455 # 10
  | FLenLon => 78000 | FLenLat => 111133 | _ => 0
  end.

Example euclid_hypotheses_satisfiable :
  0 <= ex_ie IMaxT /\ in_int (ex_ie IMaxT) = true /\ (0 < ex_fe FSpeed)%Q /\ (env_d2 ex_fe < inject_Z (2 ^ 62))%Q /\
  eval ex_ie ex_fe GG.gen_geo_euclid_guard = Some (VB true) /\
  eval ex_ie ex_fe GG.gen_geo_euclid_distance = Some (VI 780) /\
  eval ex_ie ex_fe GG.gen_geo_euclid_time = Some (VI 561).
Proof.
  split; [vm_compute; discriminate|]. split; [reflexivity|]. split; [reflexivity|]. split; [reflexivity|].
  split; [|split].
  - rewrite euclid_guard_is_code by reflexivity. reflexivity.
  - apply euclid_distance_eval. reflexivity.
  - apply (euclid_time_eval ex_ie ex_fe 780 561); reflexivity.
Qed.

(* the tree of `t * t * v * v`: ((t * t in int) -> float) * v * v *)
Definition wrong_max_dist_sq : gexp :=
  GFop OMul (GFop OMul (GI2F (GIop OMul (GInt IMaxT) (GInt IMaxT))) (GFlt FSpeed)) (GFlt FSpeed).

(* under "no limit" (MAX_INT seconds) the int product wraps to 1: the squared radius is v^2 — a radius of 1.39 m at
   5 km/h instead of 2.98e9 m *)
Example wrong_tree_no_limit : forall ie fe, ie IMaxT = INT_MAX ->
  exists q, eval ie fe wrong_max_dist_sq = Some (VF q) /\ (q == fe FSpeed * fe FSpeed)%Q /\
    (fe FSpeed == 25 # 18 -> q < 2 /\ 8000000000000000000 < max_dist_sq (ie IMaxT) (fe FSpeed))%Q.
Proof.
  intros ie fe Ht. unfold wrong_max_dist_sq. geo_eval. rewrite Ht.
  change (wrap32 (INT_MAX * INT_MAX)) with 1.
  eexists. split; [reflexivity|]. split; [ring|]. intro Hv. unfold max_dist_sq. rewrite Hv. split; reflexivity.
Qed.

(* ... and the same maximum through the source's tree *)
Example right_tree_no_limit : forall ie fe, ie IMaxT = INT_MAX -> (fe FSpeed == 25 # 18)%Q ->
  exists q, eval ie fe GG.gen_geo_max_dist_sq = Some (VF q) /\ (8000000000000000000 < q)%Q.
Proof.
  intros ie fe Ht Hv. destruct (max_dist_sq_is_code ie fe) as [q [H1 H2]]; [rewrite Ht; reflexivity|].
  exists q. split; [exact H1|]. rewrite H2, Ht. unfold max_dist_sq. rewrite Hv. reflexivity.
Qed.
