(* Proofs/FwdOpt.v — soundness AND completeness (optimality) of the forward connection scan.

   Setting: wf_data_b d, wf_tables_b d p acc egr, wf_params_b p, pos_hops_b d (every hop has c_dep < c_arr),
   q_fwd p = true, q_maxfw p <= 0 (first-waiting cap off); any q_except_lines (RevInv.admitted_bridge).
   Calculators: mk_calc d p (conn_set d s) acc egr true has_dest, i.e. the one of calc_single (has_dest = true)
   and the one of calc_allnodes (egr = [], has_dest = false).

   Layers:
     0. list / table helpers, dataset facts (wf_data_b, pos_hops_b), order facts of cs_fwd;
     1. characterisation of fwd_fp_step / fwd_step by outcome (fwd_fp_step_cases, fwd_step_spec; the step
        functions are never unfolded afterwards), best_egress as a fold of be_step;
     2. declarative side: Alight e (a journey prefix steps off the vehicle of connection e), Ready, Boardable and
        their equivalence with reaches / alights_at of Admissible.v;
     3. the transferable-nodes loop (fold of fwd_fp_step): soundness, monotonicity, completeness, label chain;
     4. the invariant Inv over a processed prefix of cs_fwd: soundness (labels are witnessed by journey
        prefixes), completeness (every boardable / alighting connection of the prefix is dominated by the
        labels), the label chain (strictly decreasing times) -- preserved by fwd_step (step_inv);
     5. the whole scan with its two breaks (Final, final_cases): a connection that was not processed departs
        after q_time + q_maxtt, or after f_tent + k_maxEgr once an egress stop was reached;
     6. the theorems for the calculators of calc_single / calc_allnodes:
          F_sound_egr, F_complete_allnodes, F_allnodes_count_zero, F_allnodes_exact,
          F_sound_best, F_complete_best, F_best_optimal, F_no_route, F_usable, F_count_terminates;
     7. C08_decl_proved : C08_decl_statement (Optimal.v) -- calculateAllNodes for departure queries, in full;
     8. calc_single_fwd_phase / calc_single_fwd_none / calc_single_fwd_noroute: the forward pass's share of C03;
     9. F_usable_journey: the forward pass's share of C05 (journeys leaving at or after the requested time and
        arriving by the selected arrival ride usable trips only). *)
From Coq Require Import List ZArith Bool Arith Lia Sorted.
From TrV Require Import Spec Admissible Optimal.
From TrV.Proofs Require Import SortFilter Index Rewrites RevInv Limits Compose.
Import ListNotations.
Local Open Scope Z_scope.

(* ---------------------------------------------------------------------------------------------- *)
(* 0. helpers                                                                                       *)

Lemma ss_app_r {A} (R : A -> A -> Prop) (l1 l2 : list A) :
  StronglySorted R (l1 ++ l2) -> StronglySorted R l2.
Proof.
  induction l1 as [|a l1 IH]; intros H; [exact H|].
  cbn [app] in H. apply StronglySorted_inv in H. apply IH. exact (proj1 H).
Qed.

Lemma ss_app_rel {A} (R : A -> A -> Prop) (l1 l2 : list A) a b :
  StronglySorted R (l1 ++ l2) -> In a l1 -> In b l2 -> R a b.
Proof.
  induction l1 as [|x l1 IH]; intros H Ha Hb; [destruct Ha|].
  cbn [app] in H. apply StronglySorted_inv in H. destruct H as [H1 H2].
  destruct Ha as [Ha|Ha].
  - subst x. rewrite Forall_forall in H2. apply H2. apply in_or_app. right. exact Hb.
  - apply IH; assumption.
Qed.

Lemma ss_head_rel {A} (R : A -> A -> Prop) (c : A) (l : list A) b :
  StronglySorted R (c :: l) -> In b l -> R c b.
Proof.
  intros H Hb. apply StronglySorted_inv in H. destruct H as [_ H]. rewrite Forall_forall in H. apply H. exact Hb.
Qed.

Lemma has_row_In rows n w : has_row rows n w = true -> exists r, In r rows /\ fp_node r = n /\ fp_time r = w.
Proof.
  unfold has_row. intros H. apply existsb_exists in H. destruct H as (r & Hr & E).
  apply andb_prop in E. destruct E as [E1 E2]. apply Nat.eqb_eq in E1. apply Z.eqb_eq in E2.
  exists r. repeat split; assumption.
Qed.

Lemma row_of_nodup : forall rows r, nodup_nat (map fp_node rows) = true -> In r rows ->
  row_of (fp_node r) rows = Some r.
Proof.
  induction rows as [|a rows IH]; intros r Hnd Hr; [destruct Hr|].
  cbn [map nodup_nat] in Hnd. apply andb_prop in Hnd. destruct Hnd as [Hn Hnd].
  cbn [row_of]. destruct Hr as [Hr|Hr].
  - subst a. rewrite Nat.eqb_refl. reflexivity.
  - destruct (Nat.eqb (fp_node a) (fp_node r)) eqn:E.
    + apply Nat.eqb_eq in E. apply negb_true_iff in Hn.
      assert (M : memb (fp_node a) (map fp_node rows) = true).
      { apply memb_In. rewrite E. apply in_map. exact Hr. }
      congruence.
    + apply IH; assumption.
Qed.

Lemma min_time_fold : forall rows a,
  let m := fold_left (fun a r => if fp_time r <? a then fp_time r else a) rows a in
  m <= a /\ forall r, In r rows -> m <= fp_time r.
Proof.
  induction rows as [|r0 rows IH]; intros a m.
  - subst m. cbn [fold_left]. split; [lia|intros r []].
  - subst m. cbn [fold_left].
    destruct (IH (if fp_time r0 <? a then fp_time r0 else a)) as [I1 I2].
    assert (Ha : (if fp_time r0 <? a then fp_time r0 else a) <= a /\
                 (if fp_time r0 <? a then fp_time r0 else a) <= fp_time r0).
    { destruct (Z.ltb_spec (fp_time r0) a); lia. }
    split; [lia|]. intros r [Hr|Hr]; [subst r; lia|apply I2; exact Hr].
Qed.

Lemma min_time_le rows r : In r rows -> min_time rows <= fp_time r.
Proof. intros H. unfold min_time. apply (proj2 (min_time_fold rows MAX_INT)). exact H. Qed.

Lemma min_time_nonneg rows : (forall r, In r rows -> 0 <= fp_time r) -> 0 <= min_time rows.
Proof.
  unfold min_time. assert (G : forall rows a, 0 <= a -> (forall r, In r rows -> 0 <= fp_time r) ->
    0 <= fold_left (fun a r => if fp_time r <? a then fp_time r else a) rows a).
  { induction rows0 as [|r0 rows0 IH]; intros a Ha H; cbn [fold_left]; [exact Ha|].
    apply IH; [|intros r Hr; apply H; right; exact Hr].
    destruct (Z.ltb_spec (fp_time r0) a); [apply H; left; reflexivity|exact Ha]. }
  intros H. apply G; [unfold MAX_INT; lia|exact H].
Qed.

Lemma max_time_fold : forall rows a,
  let m := fold_left (fun a r => if fp_time r >? a then fp_time r else a) rows a in
  a <= m /\ forall r, In r rows -> fp_time r <= m.
Proof.
  induction rows as [|r0 rows IH]; intros a m.
  - subst m. cbn [fold_left]. split; [lia|intros r []].
  - subst m. cbn [fold_left].
    destruct (IH (if fp_time r0 >? a then fp_time r0 else a)) as [I1 I2].
    assert (Ha : a <= (if fp_time r0 >? a then fp_time r0 else a) /\
                 fp_time r0 <= (if fp_time r0 >? a then fp_time r0 else a)).
    { destruct (Z.gtb_spec (fp_time r0) a); lia. }
    split; [lia|]. intros r [Hr|Hr]; [subst r; lia|apply I2; exact Hr].
Qed.

Lemma max_time_ge rows r : In r rows -> fp_time r <= max_time rows.
Proof. intros H. unfold max_time. apply (proj2 (max_time_fold rows (-1))). exact H. Qed.

(* ---------------------------------------------------------------------------------------------- *)
(* dataset facts                                                                                    *)

Lemma mk_conns_to : forall tid minw nodes seq times c,
  In c (mk_conns tid minw seq nodes times) -> In (c_to c) nodes.
Proof.
  intros tid minw. induction nodes as [|n0 ns IH]; intros seq times c H.
  - destruct H.
  - destruct ns as [|n1 ns']; [destruct H|].
    destruct times as [|s0 [|s1 ss]]; [destruct H|destruct H|].
    rewrite mk_conns_cons in H. destruct H as [H|H].
    + subst c. cbn [c_to]. right. left. reflexivity.
    + right. apply (IH (S seq) (s1 :: ss) c H).
Qed.

Lemma conn_to_node d c : wf_data_b d = true -> In c (all_conns d) -> In (c_to c) (d_nodes d).
Proof.
  intros Hwf Hc. destruct (all_conns_in d c Hc) as (tr & Htr & Hin).
  destruct (wf_trip d Hwf tr Htr) as (pth & Hp & _ & _).
  unfold trip_conns in Hin. apply mk_conns_to in Hin.
  unfold trip_nodes in Hin. rewrite Hp in Hin.
  unfold find_path in Hp. apply find_some in Hp. destruct Hp as [Hp _].
  apply (wf_path_nodes d Hwf pth Hp). exact Hin.
Qed.

Lemma conn_arr_clock d c : wf_data_b d = true -> In c (all_conns d) -> c_arr c < 115200.
Proof.
  intros Hwf Hc. destruct (all_conns_in d c Hc) as (tr & Htr & Hin).
  destruct (wf_trip d Hwf tr Htr) as (pth & _ & _ & Ht).
  apply In_nth_error in Hin. destruct Hin as (i & Hi). unfold trip_conns in Hi.
  destruct (mk_conns_nth _ _ _ _ _ _ _ Hi) as (_ & _ & _ & _ & s0 & s1 & _ & H1 & _ & Ha).
  destruct (times_ok_nth _ _ _ Ht H1) as (A & B & C). unfold CLOCK_MAX in C. lia.
Qed.

Lemma conn_pos d c : pos_hops_b d = true -> In c (all_conns d) -> c_dep c < c_arr c.
Proof.
  unfold pos_hops_b. intros H Hc. rewrite forallb_forall in H. apply Z.ltb_lt. apply H. exact Hc.
Qed.

Lemma same_trip_conns d a b : wf_data_b d = true -> In a (all_conns d) -> In b (all_conns d) ->
  c_trip a = c_trip b ->
  exists tr, In tr (d_trips d) /\ In a (trip_conns d tr) /\ In b (trip_conns d tr) /\
             times_ok (t_times tr) = true.
Proof.
  intros Hwf Ha Hb Et.
  destruct (all_conns_in d a Ha) as (tra & Htra & Hina).
  destruct (all_conns_in d b Hb) as (trb & Htrb & Hinb).
  assert (E : tra = trb).
  { apply (nodup_nat_inj (d_trips d) (wf_nodup_trips d Hwf)); try assumption.
    rewrite <- (trip_conns_trip d tra a Hina), <- (trip_conns_trip d trb b Hinb). exact Et. }
  subst trb. destruct (wf_trip d Hwf tra Htra) as (pth & _ & _ & Ht).
  exists tra. repeat split; assumption.
Qed.

Lemma seq_lt_times d a b : wf_data_b d = true -> In a (all_conns d) -> In b (all_conns d) ->
  c_trip a = c_trip b -> (c_seq a < c_seq b)%nat -> c_arr a <= c_dep b.
Proof.
  intros Hwf Ha Hb Et Hlt. destruct (same_trip_conns d a b Hwf Ha Hb Et) as (tr & _ & Hina & Hinb & Ht).
  unfold trip_conns in Hina, Hinb. apply (mk_conns_mono _ _ _ _ _ a b Ht Hina Hinb Hlt).
Qed.

Lemma seq_eq_conn d a b : wf_data_b d = true -> In a (all_conns d) -> In b (all_conns d) ->
  c_trip a = c_trip b -> c_seq a = c_seq b -> a = b.
Proof.
  intros Hwf Ha Hb Et Es. destruct (same_trip_conns d a b Hwf Ha Hb Et) as (tr & _ & Hina & Hinb & Ht).
  unfold trip_conns in Hina, Hinb.
  pose proof (mk_conns_find _ _ _ _ _ a Hina) as Fa. pose proof (mk_conns_find _ _ _ _ _ b Hinb) as Fb.
  rewrite Es in Fa. rewrite Fa in Fb. inversion Fb. reflexivity.
Qed.

Lemma conn_dep_le_arr d c : wf_data_b d = true -> In c (all_conns d) -> c_dep c <= c_arr c.
Proof.
  intros Hwf Hc. destruct (all_conns_in d c Hc) as (tr & Htr & Hin).
  destruct (wf_trip d Hwf tr Htr) as (pth & _ & _ & Ht).
  unfold trip_conns in Hin. apply (mk_conns_times _ _ _ _ _ _ Ht) in Hin. lia.
Qed.

(* inside one trip the forward order ascends in sequence *)
Lemma fwd_seq_order d a b : wf_data_b d = true -> In a (all_conns d) -> In b (all_conns d) ->
  c_trip a = c_trip b -> fwd_lt b a = false -> (c_seq a <= c_seq b)%nat.
Proof.
  intros Hwf Ha Hb Et Hlt.
  destruct (le_lt_dec (c_seq a) (c_seq b)) as [Hle|Hgt]; [exact Hle|exfalso].
  pose proof (seq_lt_times d b a Hwf Hb Ha (eq_sym Et) Hgt) as M.
  pose proof (conn_dep_le_arr d b Hwf Hb) as M2.
  assert (T : fwd_lt b a = true) by (apply fwd_lt_iff; lia).
  congruence.
Qed.

Lemma wf_fp_rows d : wf_data_b d = true -> forall n, In n (d_nodes d) ->
  (forall r, In r (fp_of d n) -> 0 <= fp_time r) /\ has_row (fp_of d n) n 0 = true.
Proof.
  intros H n Hn. apply wf_data_parts in H. destruct H as (_ & W & _ & _).
  unfold footpaths_ok in W. rewrite forallb_forall in W. specialize (W n Hn).
  peel W F8. peel W F7. peel W F6. peel W F5. peel W F4. peel W F3. peel W F2.
  split; [|exact F3].
  intros r Hr. unfold rows_ok in W. rewrite forallb_forall in W. specialize (W r Hr).
  peel W R4. peel W R3. peel W R2. apply Z.leb_le in R2. exact R2.
Qed.

(* ---------------------------------------------------------------------------------------------- *)
(* the forward connection list of a scenario                                                        *)

Lemma cs_fwd_iff d s c : In c (cs_fwd (conn_set d s)) <->
  (In c (all_conns d) /\ memb (c_trip c) (enabled_trips d s) = true).
Proof.
  unfold conn_set, mk_connset. cbn [cs_fwd]. rewrite filter_In. unfold sorted_fwd. rewrite in_isort. reflexivity.
Qed.

Lemma cs_fwd_lt_sorted d s : StronglySorted (le_of fwd_lt) (cs_fwd (conn_set d s)).
Proof.
  unfold conn_set, mk_connset, sorted_fwd. cbn [cs_fwd]. rewrite filter_isort_fwd.
  apply (isort_sorted fwd_lt fwd_lt_asym fwd_lt_negtrans).
Qed.

(* ---------------------------------------------------------------------------------------------- *)
(* 1. the step functions by outcome                                                                 *)

Definition egr_label (c : conn) (enter : option conn) (r : fprow) : jstep :=
  mk_js enter (Some c) (c_trip c) (fp_time r) true (fp_dist r).
Definition tau_label (c : conn) (enter : option conn) (r : fprow) : jstep :=
  mk_js enter (Some c) (c_trip c) (fp_time r) (Nat.eqb (c_to c) (fp_node r)) (fp_dist r).

Lemma fwd_fp_step_cases p c enter tau steps egr r :
  exists tau' steps' egr',
    fwd_fp_step p c enter (tau, steps, egr) r = (tau', steps', egr') /\
    ((tau' = tau /\ steps' = steps) \/
     (fp_time r <= q_maxtr p /\ fp_time r + c_arr c < tau (fp_node r) /\
      tau' = upd tau (fp_node r) (fp_time r + c_arr c) /\
      steps' = upd steps (fp_node r) (tau_label c enter r))) /\
    (egr' = egr \/
     (fp_time r <= q_maxtr p /\ c_to c = fp_node r /\
      (forall j x, egr (fp_node r) = Some j -> js_exit j = Some x -> c_arr c < c_arr x) /\
      egr' = upd egr (fp_node r) (Some (egr_label c enter r)))) /\
    (fp_time r <= q_maxtr p -> 0 <= fp_time r -> tau' (fp_node r) <= c_arr c + fp_time r) /\
    (fp_time r <= q_maxtr p -> c_to c = fp_node r ->
     (forall j, egr (fp_node r) = Some j -> exists x, js_exit j = Some x) ->
     exists j x, egr' (fp_node r) = Some j /\ js_exit j = Some x /\ c_arr x <= c_arr c).
Proof.
  unfold fwd_fp_step.
  destruct (negb (Nat.eqb (c_to c) (fp_node r)) && (tau (fp_node r) <? c_arr c)) eqn:E1.
  { exists tau, steps, egr. split; [reflexivity|]. split; [left; split; reflexivity|]. split; [left; reflexivity|].
    apply andb_prop in E1. destruct E1 as [E1 E1']. apply negb_true_iff in E1. apply Nat.eqb_neq in E1.
    apply Z.ltb_lt in E1'. split.
    - intros _ H0. lia.
    - intros _ Hn. contradiction. }
  destruct (fp_time r <=? q_maxtr p) eqn:E2.
  2:{ exists tau, steps, egr. split; [reflexivity|]. split; [left; split; reflexivity|]. split; [left; reflexivity|].
      apply Z.leb_gt in E2. split; intros H; lia. }
  apply Z.leb_le in E2.
  set (EG := if Nat.eqb (c_to c) (fp_node r) &&
                match egr (fp_node r) with
                | None => true
                | Some j => match js_exit j with Some e => c_arr e >? c_arr c | None => false end
                end
             then upd egr (fp_node r) (Some (mk_js enter (Some c) (c_trip c) (fp_time r) true (fp_dist r)))
             else egr).
  assert (HE : (EG = egr \/
                (fp_time r <= q_maxtr p /\ c_to c = fp_node r /\
                 (forall j x, egr (fp_node r) = Some j -> js_exit j = Some x -> c_arr c < c_arr x) /\
                 EG = upd egr (fp_node r) (Some (egr_label c enter r)))) /\
               (fp_time r <= q_maxtr p -> c_to c = fp_node r ->
                (forall j, egr (fp_node r) = Some j -> exists x, js_exit j = Some x) ->
                exists j x, EG (fp_node r) = Some j /\ js_exit j = Some x /\ c_arr x <= c_arr c)).
  { subst EG. destruct (Nat.eqb (c_to c) (fp_node r)) eqn:En.
    2:{ cbn [andb]. split; [left; reflexivity|]. intros _ Hn. apply Nat.eqb_neq in En. contradiction. }
    apply Nat.eqb_eq in En. cbn [andb].
    destruct (egr (fp_node r)) as [j|] eqn:Ej.
    - destruct (js_exit j) as [e|] eqn:Ee.
      + destruct (Z.gtb_spec (c_arr e) (c_arr c)) as [Hgt|Hle].
        * split.
          -- right. split; [exact E2|]. split; [exact En|]. split; [|reflexivity].
             intros j0 x H0 Hx. inversion H0; subst j0. rewrite Ee in Hx. inversion Hx; subst x. lia.
          -- intros _ _ _. exists (egr_label c enter r), c. rewrite upd_same.
             split; [reflexivity|]. split; [reflexivity|lia].
        * split; [left; reflexivity|]. intros _ _ _. exists j, e. split; [exact Ej|]. split; [exact Ee|exact Hle].
      + split; [left; reflexivity|]. intros _ _ Hw. destruct (Hw j eq_refl) as (x & Hx). congruence.
    - split.
      + right. split; [exact E2|]. split; [exact En|]. split; [|reflexivity]. intros j x H0. discriminate.
      + intros _ _ _. exists (egr_label c enter r), c. rewrite upd_same.
        split; [reflexivity|]. split; [reflexivity|lia]. }
  destruct HE as [HE1 HE2].
  destruct (fp_time r + c_arr c <? tau (fp_node r)) eqn:E3.
  - apply Z.ltb_lt in E3.
    exists (upd tau (fp_node r) (fp_time r + c_arr c)),
           (upd steps (fp_node r)
                (mk_js enter (Some c) (c_trip c) (fp_time r) (Nat.eqb (c_to c) (fp_node r)) (fp_dist r))), EG.
    split; [reflexivity|]. split; [right; split; [exact E2|split; [exact E3|split; reflexivity]]|].
    split; [exact HE1|]. split; [|exact HE2].
    intros _ _. rewrite upd_same. lia.
  - apply Z.ltb_ge in E3. exists tau, steps, EG.
    split; [reflexivity|]. split; [left; split; reflexivity|]. split; [exact HE1|]. split; [|exact HE2].
    intros _ _. lia.
Qed.

Definition brk (all : bool) (p : params) (k : calc) (reached : bool) (tent : Z) (c : conn) : bool :=
  (negb all && reached && (k_maxEgr k >=? 0) && (tent <? MAX_INT) && (c_dep c >? tent + k_maxEgr k))
  || (c_dep c - k_dep k >? q_maxtt p).

Definition ov1_f (st : fstate) (c : conn) : tqd :=
  if c_cb c && negb (is_some (o_enter (f_ov st (c_trip c))))
  then {| o_usable := true; o_enter := Some c; o_enter_w := js_walk (f_steps st (c_from c));
          o_exit := o_exit (f_ov st (c_trip c)); o_exit_w := o_exit_w (f_ov st (c_trip c)) |}
  else f_ov st (c_trip c).

Lemma ov1_cases st c :
  (ov1_f st c = f_ov st (c_trip c) /\
   (is_some (o_enter (f_ov st (c_trip c))) = true \/ c_cb c = false)) \/
  (o_enter (f_ov st (c_trip c)) = None /\ c_cb c = true /\
   o_enter (ov1_f st c) = Some c /\ o_usable (ov1_f st c) = true).
Proof.
  unfold ov1_f. destruct (c_cb c) eqn:Ecb; cbn [andb].
  - destruct (o_enter (f_ov st (c_trip c))) as [b|] eqn:Eb; cbn [is_some negb].
    + left. split; [reflexivity|left; reflexivity].
    + right. repeat split; reflexivity.
  - left. split; [reflexivity|right; reflexivity].
Qed.

Definition fwd_step_post (d : data) (p : params) (k : calc) (all : bool) (st : fstate) (c : conn)
           (st' : fstate) : Prop :=
  (st' = st /\
     (f_stop st = true \/ c_dep c < k_dep k + k_minAcc k \/ k_disabled k (c_trip c) = true \/
      (o_enter (f_ov st (c_trip c)) = None /\ f_tau st (c_from c) > c_dep c - minw_eff p c))) \/
  (f_stop st = false /\ k_dep k + k_minAcc k <= c_dep c /\ k_disabled k (c_trip c) = false /\
   brk all p k (f_reached st) (f_tent st) c = true /\
   f_tau st' = f_tau st /\ f_steps st' = f_steps st /\ f_ov st' = f_ov st /\ f_egr st' = f_egr st /\
   f_count st' = f_count st /\
   f_reached st' = f_reached st /\ f_tent st' = f_tent st /\ f_stop st' = true) \/
  (f_stop st = false /\ k_dep k + k_minAcc k <= c_dep c /\ k_disabled k (c_trip c) = false /\
   brk all p k (f_reached st) (f_tent st) c = false /\
   (is_some (o_enter (f_ov st (c_trip c))) = true \/ f_tau st (c_from c) <= c_dep c - minw_eff p c) /\
   f_ov st' = upd (f_ov st) (c_trip c) (ov1_f st c) /\ f_count st' = f_count st + 1 /\ f_stop st' = false /\
   ((c_cu c && is_some (o_enter (ov1_f st c)) = false /\
     f_tau st' = f_tau st /\ f_steps st' = f_steps st /\ f_egr st' = f_egr st /\
     f_reached st' = f_reached st /\ f_tent st' = f_tent st) \/
    (c_cu c = true /\ exists b, o_enter (ov1_f st c) = Some b /\
     (f_tau st', f_steps st', f_egr st') =
        fold_left (fwd_fp_step p c (Some b)) (fp_of d (c_to c)) (f_tau st, f_steps st, f_egr st) /\
     ((all = false /\ f_reached st = false /\
       (exists r, row_of (c_to c) (k_egrfp k) = Some r) /\ f_reached st' = true /\ f_tent st' = c_arr c) \/
      (f_reached st' = f_reached st /\ f_tent st' = f_tent st))))).

Lemma fwd_step_spec_aux d p k all st c : q_maxfw p <= 0 ->
  forall st', st' = fwd_step d p k all st c -> fwd_step_post d p k all st c st'.
Proof.
  intros Hfw st'.
  assert (Hq : (q_maxfw p >? 0) = false) by (destruct (Z.gtb_spec (q_maxfw p) 0); [lia|reflexivity]).
  unfold fwd_step. cbv zeta.
  destruct (f_stop st) eqn:Es.
  { intros E. left. split; [exact E|left; exact Es]. }
  destruct (Z.geb_spec (c_dep c) (k_dep k + k_minAcc k)) as [Hg|Hg].
  2:{ intros E. left. split; [exact E|right; left; exact Hg]. }
  destruct (k_disabled k (c_trip c)) eqn:Ed.
  { intros E. left. split; [exact E|right; right; left; exact Ed]. }
  match goal with |- _ = (if ?b then _ else _) -> _ => destruct b eqn:Eb end.
  { intros E. subst st'. right. left. cbn [f_tau f_steps f_ov f_egr f_count f_reached f_tent f_stop].
    repeat (split; [first [reflexivity|assumption]|]). reflexivity. }
  match goal with |- _ = (if ?b then _ else _) -> _ => destruct b eqn:Ec end.
  2:{ intros E. left. split; [exact E|right; right; right].
      rewrite Hq in Ec. cbn [andb negb orb] in Ec. rewrite andb_true_r in Ec.
      apply orb_false_elim in Ec. destruct Ec as [Ec1 Ec2].
      destruct (o_enter (f_ov st (c_trip c))); [discriminate|]. split; [reflexivity|].
      apply Z.leb_gt in Ec2. lia. }
  rewrite Hq in Ec. cbn [andb negb orb] in Ec. rewrite andb_true_r in Ec.
  assert (Hc : is_some (o_enter (f_ov st (c_trip c))) = true \/
               f_tau st (c_from c) <= c_dep c - minw_eff p c).
  { apply orb_prop in Ec. destruct Ec as [Ec|Ec]; [left; exact Ec|right; apply Z.leb_le; exact Ec]. }
  clear Ec. fold (ov1_f st c).
  destruct (c_cu c && is_some (o_enter (ov1_f st c))) eqn:E6.
  2:{ intros E. subst st'. right. right. cbn [f_tau f_steps f_ov f_egr f_count f_reached f_tent f_stop].
      repeat (split; [first [reflexivity|assumption]|]). left. split; [exact E6|]. repeat split; reflexivity. }
  apply andb_prop in E6. destruct E6 as [Ecu E6].
  destruct (o_enter (ov1_f st c)) as [b|] eqn:Eb1; [|discriminate].
  destruct (fold_left (fwd_fp_step p c (Some b)) (fp_of d (c_to c)) (f_tau st, f_steps st, f_egr st))
    as [[t1 s1] e1] eqn:F.
  match goal with |- _ = (let '(_, _) := (if ?b then _ else _) in _) -> _ => destruct b eqn:E7 end.
  - intros E. subst st'. right. right. cbn [f_tau f_steps f_ov f_egr f_count f_reached f_tent f_stop].
    repeat (split; [first [reflexivity|assumption]|]). right. split; [exact Ecu|]. exists b.
    split; [exact Eb1|]. split; [symmetry; exact F|]. left.
    apply andb_prop in E7. destruct E7 as [E7 E8]. apply andb_prop in E7. destruct E7 as [E7 E9].
    apply negb_true_iff in E7, E9. split; [exact E7|]. split; [exact E9|]. split; [|split; reflexivity].
    destruct (row_of (c_to c) (k_egrfp k)) as [r|]; [exists r; reflexivity|discriminate].
  - intros E. subst st'. right. right. cbn [f_tau f_steps f_ov f_egr f_count f_reached f_tent f_stop].
    repeat (split; [first [reflexivity|assumption]|]). right. split; [exact Ecu|]. exists b.
    split; [exact Eb1|]. split; [symmetry; exact F|]. right. split; reflexivity.
Qed.

Lemma fwd_step_spec d p k all st c : q_maxfw p <= 0 ->
  fwd_step_post d p k all st c (fwd_step d p k all st c).
Proof. intros Hfw. apply fwd_step_spec_aux; [exact Hfw|reflexivity]. Qed.

Lemma fwd_step_stopped d p k all st c : f_stop st = true -> fwd_step d p k all st c = st.
Proof. intros H. unfold fwd_step. rewrite H. reflexivity. Qed.

Lemma fwd_fold_stopped d p k all : forall l st, f_stop st = true -> fold_left (fwd_step d p k all) l st = st.
Proof.
  induction l as [|c l IH]; intros st H; cbn [fold_left]; [reflexivity|].
  rewrite (fwd_step_stopped d p k all st c H). apply IH. exact H.
Qed.

#[local] Opaque fwd_step fwd_fp_step.

(* best_egress as a fold of a named step *)
Definition be_step (p : params) (k : calc) (st : fstate) (best : option (Z * nat)) (r : fprow) : option (Z * nat) :=
  match f_egr st (fp_node r) with
  | Some j =>
      match js_exit j, row_of (fp_node r) (k_egrfp k) with
      | Some e, Some er =>
          let t := c_arr e + fp_time er in
          let b := match best with Some (bt, _) => bt | None => MAX_INT end in
          if (t >=? 0) && (t - k_dep k <=? q_maxtt p) && (t <? b) && (t <? MAX_INT)
          then Some (t, fp_node er) else best
      | _, _ => best
      end
  | None => best
  end.

Lemma best_egress_fold p k st : best_egress p k st = fold_left (be_step p k st) (k_egrfp k) None.
Proof. reflexivity. Qed.

Definition best_time (best : option (Z * nat)) : Z := match best with Some (bt, _) => bt | None => MAX_INT end.

Lemma be_step_cases p k st best r :
  be_step p k st best r = best \/
  (exists j e er, f_egr st (fp_node r) = Some j /\ js_exit j = Some e /\
     row_of (fp_node r) (k_egrfp k) = Some er /\
     be_step p k st best r = Some (c_arr e + fp_time er, fp_node er) /\
     0 <= c_arr e + fp_time er /\ c_arr e + fp_time er - k_dep k <= q_maxtt p /\
     c_arr e + fp_time er < best_time best).
Proof.
  unfold be_step. destruct (f_egr st (fp_node r)) as [j|] eqn:Ej; [|left; reflexivity].
  destruct (js_exit j) as [e|] eqn:Ee; [|left; reflexivity].
  destruct (row_of (fp_node r) (k_egrfp k)) as [er|] eqn:Er; [|left; reflexivity].
  cbv zeta. fold (best_time best).
  destruct ((c_arr e + fp_time er >=? 0) && (c_arr e + fp_time er - k_dep k <=? q_maxtt p) &&
            (c_arr e + fp_time er <? best_time best) && (c_arr e + fp_time er <? MAX_INT)) eqn:E;
    [|left; reflexivity].
  right. exists j, e, er. peel E E4. peel E E3. peel E E2.
  apply Z.geb_le in E. apply Z.leb_le in E2. apply Z.ltb_lt in E3.
  repeat (split; [first [reflexivity|assumption]|]). exact E3.
Qed.

Lemma be_step_hit p k st best r j e er :
  f_egr st (fp_node r) = Some j -> js_exit j = Some e -> row_of (fp_node r) (k_egrfp k) = Some er ->
  0 <= c_arr e + fp_time er -> c_arr e + fp_time er - k_dep k <= q_maxtt p -> c_arr e + fp_time er < MAX_INT ->
  exists tb nb, be_step p k st best r = Some (tb, nb) /\ tb <= c_arr e + fp_time er.
Proof.
  intros Ej Ee Er H0 H1 H2. unfold be_step. rewrite Ej, Ee, Er. cbv zeta. fold (best_time best).
  destruct (Z.geb_spec (c_arr e + fp_time er) 0) as [_|N]; [|lia].
  destruct (Z.leb_spec (c_arr e + fp_time er - k_dep k) (q_maxtt p)) as [_|N]; [|lia].
  destruct (Z.ltb_spec (c_arr e + fp_time er) MAX_INT) as [_|N]; [|lia].
  destruct (Z.ltb_spec (c_arr e + fp_time er) (best_time best)) as [Hlt|Hge]; cbn [andb].
  - exists (c_arr e + fp_time er), (fp_node er). split; [reflexivity|lia].
  - destruct best as [[bt bn]|]; cbn [best_time] in Hge; [|lia].
    exists bt, bn. split; [reflexivity|exact Hge].
Qed.

Lemma be_fold_mono p k st : forall rows best tb nb, best = Some (tb, nb) ->
  exists tb' nb', fold_left (be_step p k st) rows best = Some (tb', nb') /\ tb' <= tb.
Proof.
  induction rows as [|r rows IH]; intros best tb nb Hb; cbn [fold_left].
  - exists tb, nb. split; [exact Hb|lia].
  - destruct (be_step_cases p k st best r) as [E|(j & e & er & _ & _ & _ & E & _ & _ & Hlt)].
    + rewrite E. apply (IH best tb nb Hb).
    + rewrite E. rewrite Hb in Hlt. cbn [best_time] in Hlt.
      destruct (IH (Some (c_arr e + fp_time er, fp_node er)) _ _ eq_refl) as (tb' & nb' & F & Hle).
      exists tb', nb'. split; [exact F|lia].
Qed.

Lemma be_fold_hit p k st : forall rows best r j e er, In r rows ->
  f_egr st (fp_node r) = Some j -> js_exit j = Some e -> row_of (fp_node r) (k_egrfp k) = Some er ->
  0 <= c_arr e + fp_time er -> c_arr e + fp_time er - k_dep k <= q_maxtt p -> c_arr e + fp_time er < MAX_INT ->
  exists tb nb, fold_left (be_step p k st) rows best = Some (tb, nb) /\ tb <= c_arr e + fp_time er.
Proof.
  induction rows as [|r0 rows IH]; intros best r j e er Hr Ej Ee Er H0 H1 H2; [destruct Hr|]. cbn [fold_left].
  destruct Hr as [Hr|Hr].
  - subst r0. destruct (be_step_hit p k st best r j e er Ej Ee Er H0 H1 H2) as (tb & nb & E & Hle).
    destruct (be_fold_mono p k st rows _ tb nb E) as (tb' & nb' & F & Hle'). exists tb', nb'. split; [exact F|lia].
  - apply (IH _ r j e er Hr Ej Ee Er H0 H1 H2).
Qed.

Lemma be_fold_sound p k st : forall rows best,
  (forall t n, best = Some (t, n) ->
     exists er j e, row_of n (k_egrfp k) = Some er /\ f_egr st n = Some j /\ js_exit j = Some e /\
                    t = c_arr e + fp_time er /\ 0 <= t /\ t - k_dep k <= q_maxtt p) ->
  forall t n, fold_left (be_step p k st) rows best = Some (t, n) ->
     exists er j e, row_of n (k_egrfp k) = Some er /\ f_egr st n = Some j /\ js_exit j = Some e /\
                    t = c_arr e + fp_time er /\ 0 <= t /\ t - k_dep k <= q_maxtt p.
Proof.
  induction rows as [|r rows IH]; intros best HB; cbn [fold_left]; [exact HB|].
  apply IH. intros t n Hb.
  destruct (be_step_cases p k st best r) as [E|(j & e & er & Ej & Ee & Er & E & H0 & H1 & _)].
  - rewrite E in Hb. apply (HB t n Hb).
  - rewrite E in Hb. inversion Hb; subst t n. destruct (row_of_some _ _ _ Er) as [En _].
    exists er, j, e. rewrite En. repeat (split; [first [reflexivity|assumption]|]). exact H1.
Qed.

Lemma wf_params_fields p : wf_params_b p = true ->
  0 <= q_time p < 115200 /\ 0 <= q_minw p /\ 0 < q_maxtt p /\ 0 < q_maxtr p.
Proof.
  unfold wf_params_b. intros H. peel H P8. peel H P7. peel H P6. peel H P5. peel H P4. peel H P3. peel H P2.
  apply Z.leb_le in H, P3. apply Z.ltb_lt in P2, P4, P5. unfold CLOCK_MAX in P2. lia.
Qed.

(* a connection some journey prefix can board: reached from an access row, or after alighting somewhere and
   walking one footpath row (within the transfer maximum), the minimum waiting time respected *)
Definition fwd_boardable (d : data) (s : scenario) (p : params) (acc : list fprow) (b : conn) : Prop :=
  In b (all_conns d) /\ c_cb b = true /\ tadm d s p (c_trip b) /\
  ((exists ra, In ra acc /\ fp_node ra = c_from b /\ q_time p + fp_time ra + minw_true p b <= c_dep b) \/
   (exists m t w, alights_at d s p acc m t /\ has_row (fp_of d m) (c_from b) w = true /\ w <= q_maxtr p /\
                  t + w + minw_true p b <= c_dep b)).

(* ---------------------------------------------------------------------------------------------- *)
(* 2. the declarative side                                                                          *)

Section Fwd.
  Variables (d : data) (s : scenario) (p : params) (acc : list fprow).
  Hypothesis Hwf : wf_data_b d = true.
  Hypothesis Hpar : wf_params_b p = true.
  Hypothesis Hpos : pos_hops_b d = true.
  Hypothesis Hacc0 : forall r, In r acc -> 0 <= fp_time r.
  Hypothesis Haccnd : nodup_nat (map fp_node acc) = true.

  (* some journey prefix from an access row steps off the vehicle of connection e (at c_to e, c_arr e) *)
  Inductive Alight : conn -> Prop :=
  | A_first : forall ra b e, In ra acc -> ride_ok d s p b e -> c_from b = fp_node ra ->
      q_time p + fp_time ra + minw_true p b <= c_dep b -> Alight e
  | A_next : forall e0 w b e, Alight e0 -> has_row (fp_of d (c_to e0)) (c_from b) w = true -> w <= q_maxtr p ->
      ride_ok d s p b e -> c_arr e0 + w + minw_true p b <= c_dep b -> Alight e.

  (* the traveller can stand at stop n at time t *)
  Definition Ready (n : nat) (t : Z) : Prop :=
    (exists ra, In ra acc /\ fp_node ra = n /\ t = q_time p + fp_time ra) \/
    (exists e0 w, Alight e0 /\ has_row (fp_of d (c_to e0)) n w = true /\ w <= q_maxtr p /\ t = c_arr e0 + w).

  Definition Boardable (b : conn) : Prop :=
    In b (all_conns d) /\ c_cb b = true /\ tadm d s p (c_trip b) /\
    exists t, Ready (c_from b) t /\ t + minw_true p b <= c_dep b.

  Lemma Hminw : 0 <= q_minw p.
  Proof. apply wf_params_minw. exact Hpar. Qed.

  Lemma minw_nonneg c : 0 <= minw_true p c.
  Proof. rewrite <- minw_eff_true. apply minw_eff_nonneg. exact Hminw. Qed.

  Lemma Alight_intro n t b e :
    Ready n t -> ride_ok d s p b e -> c_from b = n -> t + minw_true p b <= c_dep b -> Alight e.
  Proof.
    intros [(ra & Hra & Hn & Ht)|(e0 & w & H0 & Hrow & Hw & Ht)] Hr Hf Hle.
    - apply (A_first ra b e); [exact Hra|exact Hr|congruence|lia].
    - apply (A_next e0 w b e); [exact H0|rewrite Hf; exact Hrow|exact Hw|exact Hr|lia].
  Qed.

  Lemma Alight_inv e : Alight e ->
    exists n t b, Ready n t /\ ride_ok d s p b e /\ c_from b = n /\ t + minw_true p b <= c_dep b.
  Proof.
    intros H. destruct H as [ra b e Hra Hr Hf Ht|e0 w b e H0 Hrow Hw Hr Ht].
    - exists (c_from b), (q_time p + fp_time ra), b. split; [|split; [exact Hr|split; [reflexivity|lia]]].
      left. exists ra. split; [exact Hra|]. split; [symmetry; exact Hf|reflexivity].
    - exists (c_from b), (c_arr e0 + w), b. split; [|split; [exact Hr|split; [reflexivity|lia]]].
      right. exists e0, w. split; [exact H0|]. split; [exact Hrow|]. split; [exact Hw|reflexivity].
  Qed.

  Lemma ride_boardable n t b e :
    Ready n t -> ride_ok d s p b e -> c_from b = n -> t + minw_true p b <= c_dep b -> Boardable b.
  Proof.
    intros HR (Hb & He & Et & Hs & Hcb & Hcu & Hadm) Hf Hle.
    unfold Boardable. split; [exact Hb|]. split; [exact Hcb|]. split; [exact Hadm|].
    exists t. rewrite Hf. split; assumption.
  Qed.

  Lemma Alight_conn e : Alight e -> In e (all_conns d) /\ c_cu e = true /\ tadm d s p (c_trip e).
  Proof.
    intros H. destruct (Alight_inv e H) as (n & t & b & _ & (Hb & He & Et & Hs & Hcb & Hcu & Hadm) & _).
    split; [exact He|]. split; [exact Hcu|]. unfold tadm. rewrite <- Et. exact Hadm.
  Qed.

  Lemma ride_dep_le b e : ride_ok d s p b e -> c_dep b <= c_dep e.
  Proof.
    intros (Hb & He & Et & Hs & _).
    destruct (Nat.eq_dec (c_seq b) (c_seq e)) as [E|N].
    - rewrite (seq_eq_conn d b e Hwf Hb He Et E). lia.
    - pose proof (seq_lt_times d b e Hwf Hb He Et ltac:(lia)) as M.
      pose proof (conn_pos d b Hpos Hb). lia.
  Qed.

  Lemma ride_dep_lt b e : ride_ok d s p b e -> c_dep b < c_arr e.
  Proof.
    intros H. pose proof (ride_dep_le b e H) as M. destruct H as (_ & He & _).
    pose proof (conn_pos d e Hpos He). lia.
  Qed.

  Lemma walk_nonneg e n w : In e (all_conns d) -> has_row (fp_of d (c_to e)) n w = true -> 0 <= w.
  Proof.
    intros He Hrow. apply has_row_In in Hrow. destruct Hrow as (r & Hr & _ & Hw). subst w.
    apply (proj1 (wf_fp_rows d Hwf (c_to e) (conn_to_node d e Hwf He))). exact Hr.
  Qed.

  (* every ready time lies after the earliest possible arrival at a stop *)
  Lemma Alight_lb e : Alight e -> q_time p + min_time acc < c_arr e.
  Proof.
    intros H. induction H as [ra b e Hra Hr Hf Ht|e0 w b e H0 IH Hrow Hw Hr Ht].
    - pose proof (ride_dep_lt b e Hr). pose proof (min_time_le acc ra Hra). pose proof (minw_nonneg b). lia.
    - pose proof (ride_dep_lt b e Hr). pose proof (minw_nonneg b).
      pose proof (walk_nonneg e0 _ w (proj1 (Alight_conn e0 H0)) Hrow). lia.
  Qed.

  Lemma Ready_lb n t : Ready n t -> q_time p + min_time acc <= t.
  Proof.
    intros [(ra & Hra & Hn & Ht)|(e0 & w & H0 & Hrow & Hw & Ht)].
    - pose proof (min_time_le acc ra Hra). lia.
    - pose proof (Alight_lb e0 H0). pose proof (walk_nonneg e0 _ w (proj1 (Alight_conn e0 H0)) Hrow). lia.
  Qed.

  Lemma Boardable_dep b : Boardable b -> q_time p + min_time acc <= c_dep b.
  Proof.
    intros (_ & _ & _ & t & HR & Hle). pose proof (Ready_lb _ _ HR). pose proof (minw_nonneg b). lia.
  Qed.

  (* ---- equivalence with reaches / alights_at ---- *)

  Lemma reaches_snoc : forall n t rides m t', reaches d s p n t rides m t' ->
    forall n' w b e, has_row (fp_of d m) n' w = true -> w <= q_maxtr p -> ride_ok d s p b e -> c_from b = n' ->
      t' + w + minw_true p b <= c_dep b ->
      reaches d s p n t (rides ++ [(b, e)]) (c_to e) (c_arr e).
  Proof.
    intros n t rides m t' H.
    induction H as [n t b0 e0 Hr Hf Ht|n t b0 e0 w0 n0 rest m t' Hr Hf Ht Hrow Hw Hrest IH];
      intros n' w b e Hrow' Hw' Hr' Hf' Ht'.
    - cbn [app]. apply (reaches_cons d s p n t b0 e0 w n' [(b, e)] (c_to e) (c_arr e)); try assumption.
      apply reaches_last; [exact Hr'|exact Hf'|lia].
    - cbn [app]. apply (reaches_cons d s p n t b0 e0 w0 n0 (rest ++ [(b, e)]) (c_to e) (c_arr e)); try assumption.
      apply (IH n' w b e); assumption.
  Qed.

  Lemma Alight_alights e : Alight e -> alights_at d s p acc (c_to e) (c_arr e).
  Proof.
    intros H. induction H as [ra b e Hra Hr Hf Ht|e0 w b e H0 IH Hrow Hw Hr Ht].
    - exists ra, [(b, e)]. split; [exact Hra|]. apply reaches_last; [exact Hr|exact Hf|exact Ht].
    - destruct IH as (ra & rides & Hra & Hre). exists ra, (rides ++ [(b, e)]). split; [exact Hra|].
      apply (reaches_snoc _ _ _ _ _ Hre (c_from b) w b e); try assumption. reflexivity.
  Qed.

  Lemma Boardable_decl b : Boardable b -> fwd_boardable d s p acc b.
  Proof.
    intros (H1 & H2 & H3 & t & [(ra & Hra & Hn & Ht)|(e0 & w & H0 & Hrow & Hw & Ht)] & Hle).
    - split; [exact H1|]. split; [exact H2|]. split; [exact H3|]. left. exists ra.
      split; [exact Hra|]. split; [exact Hn|lia].
    - split; [exact H1|]. split; [exact H2|]. split; [exact H3|]. right. exists (c_to e0), (c_arr e0), w.
      split; [apply Alight_alights; exact H0|]. split; [exact Hrow|]. split; [exact Hw|lia].
  Qed.

  Lemma reaches_Alight : forall n t rides m t', reaches d s p n t rides m t' -> Ready n t ->
    exists e, Alight e /\ c_to e = m /\ c_arr e = t'.
  Proof.
    intros n t rides m t' H.
    induction H as [n t b0 e0 Hr Hf Ht|n t b0 e0 w0 n0 rest m t' Hr Hf Ht Hrow Hw Hrest IH]; intros HR.
    - exists e0. split; [|split; reflexivity]. apply (Alight_intro n t b0 e0); assumption.
    - apply IH. right. exists e0, w0. repeat split; try assumption.
      apply (Alight_intro n t b0 e0); assumption.
  Qed.

  Lemma alights_Alight n t : alights_at d s p acc n t -> exists e, Alight e /\ c_to e = n /\ c_arr e = t.
  Proof.
    intros (ra & rides & Hra & Hre). apply (reaches_Alight _ _ _ _ _ Hre).
    left. exists ra. repeat split. exact Hra.
  Qed.

  Lemma reaches_time : forall n t rides m t', reaches d s p n t rides m t' -> t < t'.
  Proof.
    intros n t rides m t' H.
    induction H as [n t b0 e0 Hr Hf Ht|n t b0 e0 w0 n0 rest m t' Hr Hf Ht Hrow Hw Hrest IH].
    - pose proof (ride_dep_lt b0 e0 Hr). pose proof (minw_nonneg b0). lia.
    - pose proof (ride_dep_lt b0 e0 Hr). pose proof (minw_nonneg b0).
      destruct Hr as (_ & He & _). pose proof (walk_nonneg e0 _ w0 He Hrow). lia.
  Qed.

  (* every ride of a journey boards a boardable connection, before the final alighting time *)
  Lemma reaches_rides : forall n t rides m t', reaches d s p n t rides m t' -> Ready n t ->
    Forall (fun be => Boardable (fst be) /\ c_dep (fst be) < t') rides.
  Proof.
    intros n t rides m t' H.
    induction H as [n t b0 e0 Hr Hf Ht|n t b0 e0 w0 n0 rest m t' Hr Hf Ht Hrow Hw Hrest IH]; intros HR.
    - constructor; [|constructor]. cbn [fst]. split; [apply (ride_boardable n t b0 e0); assumption|].
      apply (ride_dep_lt b0 e0 Hr).
    - constructor.
      + cbn [fst]. split; [apply (ride_boardable n t b0 e0); assumption|].
        pose proof (ride_dep_lt b0 e0 Hr). pose proof (reaches_time _ _ _ _ _ Hrest).
        destruct Hr as (_ & He & _). pose proof (walk_nonneg e0 _ w0 He Hrow). lia.
      + apply IH. right. exists e0, w0. repeat split; try assumption.
        apply (Alight_intro n t b0 e0); assumption.
  Qed.

  (* ---- membership in the scenario's forward list ---- *)

  Notation L := (cs_fwd (conn_set d s)).

  Lemma tadm_in_L c : In c (all_conns d) -> tadm d s p (c_trip c) -> In c L.
  Proof.
    intros Hc Ha. apply cs_fwd_iff. split; [exact Hc|].
    apply (admitted_bridge d s p (c_trip c) (wf_nodup_trips d Hwf)) in Ha. exact (proj1 Ha).
  Qed.

  Lemma Alight_in_L e : Alight e -> In e L.
  Proof. intros H. destruct (Alight_conn e H) as (H1 & _ & H3). apply tadm_in_L; assumption. Qed.

  Lemma Boardable_in_L b : Boardable b -> In b L.
  Proof. intros (H1 & _ & H3 & _). apply tadm_in_L; assumption. Qed.

  Lemma L_conn c : In c L -> In c (all_conns d).
  Proof. intros H. apply cs_fwd_iff in H. exact (proj1 H). Qed.

  (* position facts in a split of the sorted list *)
  Lemma before_dep pre c rest x : L = pre ++ c :: rest -> In x L -> c_dep x < c_dep c -> In x pre.
  Proof.
    intros EL Hx Hlt. rewrite EL in Hx. apply in_app_or in Hx. destruct Hx as [Hx|Hx]; [exact Hx|exfalso].
    destruct Hx as [Hx|Hx]; [subst x; lia|].
    pose proof (cs_fwd_lt_sorted d s) as HS. rewrite EL in HS. apply ss_app_r in HS.
    pose proof (ss_head_rel _ c rest x HS Hx) as R. unfold le_of in R.
    assert (T : fwd_lt x c = true) by (apply fwd_lt_iff; lia). congruence.
  Qed.

  Lemma before_seq pre c rest x : L = pre ++ c :: rest -> In x L ->
    c_trip x = c_trip c -> (c_seq x < c_seq c)%nat -> In x pre.
  Proof.
    intros EL Hx Et Hlt. pose proof Hx as HxL.
    rewrite EL in Hx. apply in_app_or in Hx. destruct Hx as [Hx|Hx]; [exact Hx|exfalso].
    destruct Hx as [Hx|Hx]; [subst x; lia|].
    pose proof (cs_fwd_lt_sorted d s) as HS. rewrite EL in HS. apply ss_app_r in HS.
    pose proof (ss_head_rel _ c rest x HS Hx) as R. unfold le_of in R.
    assert (Hc : In c L) by (rewrite EL; apply in_or_app; right; left; reflexivity).
    pose proof (fwd_seq_order d c x Hwf (L_conn c Hc) (L_conn x HxL) (eq_sym Et) R). lia.
  Qed.

  Lemma pre_seq_le pre c rest b : L = pre ++ c :: rest -> In b pre -> c_trip b = c_trip c ->
    (c_seq b <= c_seq c)%nat.
  Proof.
    intros EL Hb Et.
    pose proof (cs_fwd_lt_sorted d s) as HS. rewrite EL in HS.
    assert (R : le_of fwd_lt b c) by (apply (ss_app_rel _ pre (c :: rest) b c HS Hb); left; reflexivity).
    unfold le_of in R.
    assert (HbL : In b L) by (rewrite EL; apply in_or_app; left; exact Hb).
    assert (HcL : In c L) by (rewrite EL; apply in_or_app; right; left; reflexivity).
    apply (fwd_seq_order d b c Hwf (L_conn b HbL) (L_conn c HcL) Et R).
  Qed.

  Lemma rest_dep_ge pre c rest x : L = pre ++ c :: rest -> In x (c :: rest) -> c_dep c <= c_dep x.
  Proof.
    intros EL [Hx|Hx]; [subst x; lia|].
    pose proof (conn_set_fwd_sorted d s) as HS. rewrite EL in HS. apply ss_app_r in HS.
    apply (ss_head_rel _ c rest x HS Hx).
  Qed.

  (* -------------------------------------------------------------------------------------------- *)
  (* 3. the transferable-nodes loop                                                                 *)

  Definition triple : Type := ((nat -> Z) * (nat -> jstep) * (nat -> option jstep))%type.

  Definition TauOk (tau : nat -> Z) : Prop := forall n, tau n = MAX_INT \/ Ready n (tau n).
  Definition EgrOk (egr : nat -> option jstep) : Prop :=
    forall n j, egr n = Some j ->
      exists b x, js_enter j = Some b /\ js_exit j = Some x /\ c_to x = n /\ Alight x.
  Definition EgrWf (egr : nat -> option jstep) : Prop :=
    forall n j, egr n = Some j -> exists x, js_exit j = Some x.
  Definition Mono (x x' : triple) : Prop :=
    (forall n, fst (fst x') n <= fst (fst x) n) /\
    (forall n j e, snd x n = Some j -> js_exit j = Some e ->
       exists j' e', snd x' n = Some j' /\ js_exit j' = Some e' /\ c_arr e' <= c_arr e).

  Lemma EgrOk_Wf egr : EgrOk egr -> EgrWf egr.
  Proof. intros H n j Hj. destruct (H n j Hj) as (b & x & _ & Hx & _). exists x. exact Hx. Qed.

  Lemma Mono_refl x : Mono x x.
  Proof.
    split; [intros n; lia|]. intros n j e Hj He. exists j, e. split; [exact Hj|]. split; [exact He|lia].
  Qed.

  Lemma Mono_trans x y z : Mono x y -> Mono y z -> Mono x z.
  Proof.
    intros [A1 A2] [B1 B2]. split.
    - intros n. specialize (A1 n). specialize (B1 n). lia.
    - intros n j e Hj He. destruct (A2 n j e Hj He) as (j1 & e1 & H1 & H2 & H3).
      destruct (B2 n j1 e1 H1 H2) as (j2 & e2 & H4 & H5 & H6). exists j2, e2.
      split; [exact H4|]. split; [exact H5|lia].
  Qed.

  Lemma fp_step_mono c en r x : Mono x (fwd_fp_step p c en x r).
  Proof.
    destruct x as [[tau steps] egr].
    destruct (fwd_fp_step_cases p c en tau steps egr r) as (tau' & steps' & egr' & E & Ht & He & _ & _).
    rewrite E. split; cbn [fst snd].
    - intros n. destruct Ht as [(Ht & _)|(_ & Hlt & Ht & _)]; subst tau'; [lia|].
      unfold upd. destruct (Nat.eqb n (fp_node r)) eqn:En; [|lia]. apply Nat.eqb_eq in En. subst n. lia.
    - intros n j e Hj Hx. destruct He as [He|(_ & Hn & Hbet & He)]; subst egr'.
      + exists j, e. split; [exact Hj|]. split; [exact Hx|lia].
      + destruct (Nat.eq_dec n (fp_node r)) as [En|En].
        * subst n. rewrite upd_same. exists (egr_label c en r), c. split; [reflexivity|]. split; [reflexivity|].
          specialize (Hbet j e Hj Hx). lia.
        * rewrite upd_other by exact En. exists j, e. split; [exact Hj|]. split; [exact Hx|lia].
  Qed.

  Lemma fp_step_wf c en r x : EgrWf (snd x) -> EgrWf (snd (fwd_fp_step p c en x r)).
  Proof.
    destruct x as [[tau steps] egr].
    destruct (fwd_fp_step_cases p c en tau steps egr r) as (tau' & steps' & egr' & E & _ & He & _ & _).
    rewrite E. cbn [snd]. intros HW n j Hj. destruct He as [He|(_ & Hn & _ & He)]; subst egr'.
    - apply (HW n j Hj).
    - destruct (Nat.eq_dec n (fp_node r)) as [En|En].
      + subst n. rewrite upd_same in Hj. inversion Hj. exists c. reflexivity.
      + rewrite upd_other in Hj by exact En. apply (HW n j Hj).
  Qed.

  Lemma fp_step_sound c b r x : Alight c -> In r (fp_of d (c_to c)) ->
    TauOk (fst (fst x)) -> EgrOk (snd x) ->
    TauOk (fst (fst (fwd_fp_step p c (Some b) x r))) /\ EgrOk (snd (fwd_fp_step p c (Some b) x r)).
  Proof.
    destruct x as [[tau steps] egr]. intros HA Hr HT HE.
    destruct (fwd_fp_step_cases p c (Some b) tau steps egr r) as (tau' & steps' & egr' & E & Ht & He & _ & _).
    rewrite E. cbn [fst snd] in *. split.
    - intros n. destruct Ht as [(Ht & _)|(Hmax & _ & Ht & _)]; subst tau'; [apply HT|].
      destruct (Nat.eq_dec n (fp_node r)) as [En|En].
      + subst n. rewrite upd_same. right. right. exists c, (fp_time r).
        split; [exact HA|]. split; [apply has_row_intro; exact Hr|]. split; [exact Hmax|lia].
      + rewrite upd_other by exact En. apply HT.
    - intros n j Hj. destruct He as [He|(_ & Hn & _ & He)]; subst egr'; [apply (HE n j Hj)|].
      destruct (Nat.eq_dec n (fp_node r)) as [En|En].
      + subst n. rewrite upd_same in Hj. inversion Hj. exists b, c.
        split; [reflexivity|]. split; [reflexivity|]. split; [exact Hn|exact HA].
      + rewrite upd_other in Hj by exact En. apply (HE n j Hj).
  Qed.

  Lemma fp_fold_mono c en : forall rows x, Mono x (fold_left (fwd_fp_step p c en) rows x).
  Proof.
    induction rows as [|r rows IH]; intros x; cbn [fold_left]; [apply Mono_refl|].
    apply (Mono_trans x (fwd_fp_step p c en x r)); [apply fp_step_mono|apply IH].
  Qed.

  Lemma fp_fold_wf c en : forall rows x, EgrWf (snd x) -> EgrWf (snd (fold_left (fwd_fp_step p c en) rows x)).
  Proof.
    induction rows as [|r rows IH]; intros x H; cbn [fold_left]; [exact H|].
    apply IH. apply fp_step_wf. exact H.
  Qed.

  Lemma fp_fold_sound c b : Alight c -> forall rows x, (forall r, In r rows -> In r (fp_of d (c_to c))) ->
    TauOk (fst (fst x)) -> EgrOk (snd x) ->
    TauOk (fst (fst (fold_left (fwd_fp_step p c (Some b)) rows x))) /\
    EgrOk (snd (fold_left (fwd_fp_step p c (Some b)) rows x)).
  Proof.
    intros HA. induction rows as [|r rows IH]; intros x Hsub HT HE; cbn [fold_left]; [split; assumption|].
    destruct (fp_step_sound c b r x HA (Hsub r (or_introl eq_refl)) HT HE) as [HT1 HE1].
    apply IH; [intros r0 H0; apply Hsub; right; exact H0|exact HT1|exact HE1].
  Qed.

  Lemma fp_fold_tau c en : forall rows x, (forall r, In r rows -> 0 <= fp_time r) ->
    forall r, In r rows -> fp_time r <= q_maxtr p ->
    fst (fst (fold_left (fwd_fp_step p c en) rows x)) (fp_node r) <= c_arr c + fp_time r.
  Proof.
    induction rows as [|r0 rows IH]; intros x Hnn r Hr Hmax; [destruct Hr|]. cbn [fold_left].
    destruct Hr as [Hr|Hr].
    - subst r0. destruct (fp_fold_mono c en rows (fwd_fp_step p c en x r)) as [M _]. specialize (M (fp_node r)).
      destruct x as [[tau steps] egr].
      destruct (fwd_fp_step_cases p c en tau steps egr r) as (tau' & steps' & egr' & E & _ & _ & C1 & _).
      rewrite E in *. cbn [fst snd] in M. specialize (C1 Hmax (Hnn r (or_introl eq_refl))). lia.
    - apply IH; [intros r1 H1; apply Hnn; right; exact H1|exact Hr|exact Hmax].
  Qed.

  Lemma fp_fold_egr c en : forall rows x, EgrWf (snd x) ->
    (exists r, In r rows /\ fp_node r = c_to c /\ fp_time r <= q_maxtr p) ->
    exists j e, snd (fold_left (fwd_fp_step p c en) rows x) (c_to c) = Some j /\ js_exit j = Some e /\
                c_arr e <= c_arr c.
  Proof.
    induction rows as [|r0 rows IH]; intros x HW (r & Hr & Hn & Hmax); [destruct Hr|]. cbn [fold_left].
    destruct Hr as [Hr|Hr].
    - subst r0. destruct (fp_fold_mono c en rows (fwd_fp_step p c en x r)) as [_ M].
      destruct x as [[tau steps] egr].
      destruct (fwd_fp_step_cases p c en tau steps egr r) as (tau' & steps' & egr' & E & _ & _ & _ & C2).
      rewrite E in *. cbn [fst snd] in M, HW.
      destruct (C2 Hmax (eq_sym Hn) (HW (fp_node r))) as (j & e & H1 & H2 & H3).
      rewrite Hn in H1. destruct (M (c_to c) j e H1 H2) as (j' & e' & H4 & H5 & H6).
      exists j', e'. split; [exact H4|]. split; [exact H5|lia].
    - apply IH; [apply fp_step_wf; exact HW|]. exists r. repeat split; assumption.
  Qed.

  (* ---- the label chain (for the transfer count of forwardJourneyStepAllNodes): each labelled stop points
     to the boarding stop of its label, whose arrival time is strictly smaller ---- *)
  Definition ent_ok (tau : nat -> Z) (b : conn) : Prop :=
    In b (all_conns d) /\ tau (c_from b) + minw_true p b <= c_dep b.
  Definition StepsOk (tau : nat -> Z) (steps : nat -> jstep) : Prop :=
    forall m b, js_enter (steps m) = Some b ->
      exists e, js_exit (steps m) = Some e /\ ent_ok tau b /\ c_dep b < c_arr e /\ c_arr e <= tau m.
  Definition EgrEnt (tau : nat -> Z) (egr : nat -> option jstep) : Prop :=
    forall n j b, egr n = Some j -> js_enter j = Some b -> ent_ok tau b.
  Definition ChainOk (x : triple) : Prop :=
    StepsOk (fst (fst x)) (snd (fst x)) /\ EgrEnt (fst (fst x)) (snd x).

  Lemma ent_ok_mono (tau tau' : nat -> Z) b : (forall n, tau' n <= tau n) -> ent_ok tau b -> ent_ok tau' b.
  Proof. intros M [H1 H2]. split; [exact H1|]. specialize (M (c_from b)). lia. Qed.

  Lemma fp_step_chain c b0 r x : 0 <= fp_time r -> c_dep b0 < c_arr c -> ent_ok (fst (fst x)) b0 ->
    ChainOk x -> ChainOk (fwd_fp_step p c (Some b0) x r).
  Proof.
    intros Hnn Hride Hb0 [HS HE]. pose proof (fp_step_mono c (Some b0) r x) as [M _].
    destruct x as [[tau steps] egr].
    destruct (fwd_fp_step_cases p c (Some b0) tau steps egr r) as (tau' & steps' & egr' & E & Ht & He & _ & _).
    rewrite E in *. cbn [fst snd] in *. split; cbn [fst snd].
    - intros m b Hb. destruct Ht as [(Ht & Hs)|(_ & Hlt & Ht & Hs)]; subst tau' steps'.
      + apply (HS m b Hb).
      + destruct (Nat.eq_dec m (fp_node r)) as [Em|Em].
        * subst m. rewrite upd_same in Hb |- *. inversion Hb; subst b. exists c.
          split; [reflexivity|]. split; [apply (ent_ok_mono tau); assumption|]. split; [exact Hride|].
          rewrite upd_same. lia.
        * rewrite upd_other in Hb |- * by exact Em. destruct (HS m b Hb) as (e & H1 & H2 & H3 & H4).
          exists e. split; [exact H1|]. split; [apply (ent_ok_mono tau); assumption|]. split; [exact H3|].
          rewrite upd_other by exact Em. exact H4.
    - intros n j b Hj Hb. destruct He as [He|(_ & Hn & _ & He)]; subst egr'.
      + apply (ent_ok_mono tau); [exact M|]. apply (HE n j b Hj Hb).
      + destruct (Nat.eq_dec n (fp_node r)) as [En|En].
        * subst n. rewrite upd_same in Hj. inversion Hj; subst j. inversion Hb; subst b.
          apply (ent_ok_mono tau); assumption.
        * rewrite upd_other in Hj by exact En. apply (ent_ok_mono tau); [exact M|]. apply (HE n j b Hj Hb).
  Qed.

  Lemma fp_fold_chain c b0 : c_dep b0 < c_arr c -> forall rows x, (forall r, In r rows -> 0 <= fp_time r) ->
    ent_ok (fst (fst x)) b0 -> ChainOk x -> ChainOk (fold_left (fwd_fp_step p c (Some b0)) rows x).
  Proof.
    intros Hride. induction rows as [|r rows IH]; intros x Hnn Hb0 HC; cbn [fold_left]; [exact HC|].
    apply IH.
    - intros r0 H0. apply Hnn. right. exact H0.
    - apply (ent_ok_mono (fst (fst x))); [apply (proj1 (fp_step_mono c (Some b0) r x))|exact Hb0].
    - apply fp_step_chain; [apply Hnn; left; reflexivity|exact Hride|exact Hb0|exact HC].
  Qed.

  (* -------------------------------------------------------------------------------------------- *)
  (* 4. the invariant of the scan                                                                   *)

  Variables (k : calc) (all : bool).
  Hypothesis Hfw : q_maxfw p <= 0.

  (* what the scan needs to know about the calculator: satisfied by the calculators of calc_single and
     calc_allnodes (lemmas mk_calc_pre_* below) *)
  Record fwd_pre : Prop := {
    pk_set : k_set k = conn_set d s;
    pk_dep : k_dep k = q_time p;
    pk_minacc : k_minAcc k = min_time acc;
    pk_tau : forall n, k_tau k n = match row_of n acc with Some r => q_time p + fp_time r | None => MAX_INT end;
    pk_ov : forall t, o_enter (k_ov k t) = None;
    pk_steps : forall n, js_enter (k_fsteps k n) = None;
    pk_dis : forall t, k_disabled k t = disabled_of d p (conn_set d s) t;
    pk_maxegr : forall r, In r (k_egrfp k) -> fp_time r <= k_maxEgr k }.
  Hypothesis Hk : fwd_pre.

  Lemma tadm_not_disabled t : tadm d s p t -> k_disabled k t = false.
  Proof.
    intros H. rewrite (pk_dis Hk). apply (admitted_bridge d s p t (wf_nodup_trips d Hwf)) in H. exact (proj2 H).
  Qed.

  Lemma L_tadm c : In c L -> k_disabled k (c_trip c) = false -> tadm d s p (c_trip c).
  Proof.
    intros Hc Hd. apply cs_fwd_iff in Hc. apply (admitted_bridge d s p (c_trip c) (wf_nodup_trips d Hwf)).
    split; [exact (proj2 Hc)|]. rewrite <- (pk_dis Hk). exact Hd.
  Qed.

  Record Inv (pre : list conn) (st : fstate) : Prop := {
    (* soundness *)
    i_tau : TauOk (f_tau st);
    i_ov : forall t b, o_enter (f_ov st t) = Some b ->
             Boardable b /\ c_trip b = t /\ In b pre /\ o_usable (f_ov st t) = true;
    i_egr : EgrOk (f_egr st);
    i_cnt : 0 <= f_count st /\ ((exists t, is_some (o_enter (f_ov st t)) = true) -> 0 < f_count st);
    i_tent : f_reached st = true -> 0 < f_count st /\
             exists n er j x, row_of n (k_egrfp k) = Some er /\ f_egr st n = Some j /\ js_exit j = Some x /\
                              c_arr x <= f_tent st;
    (* the label chain *)
    i_steps : StepsOk (f_tau st) (f_steps st);
    i_egrent : EgrEnt (f_tau st) (f_egr st);
    i_ovent : forall t b, o_enter (f_ov st t) = Some b -> ent_ok (f_tau st) b;
    (* completeness with respect to the processed prefix *)
    i_acc : forall ra, In ra acc -> f_tau st (fp_node ra) <= q_time p + fp_time ra;
    i_ent : forall b, Boardable b -> In b pre -> is_some (o_enter (f_ov st (c_trip b))) = true;
    i_alt : forall e, Alight e -> In e pre ->
             (exists j x, f_egr st (c_to e) = Some j /\ js_exit j = Some x /\ c_arr x <= c_arr e) /\
             (forall r, In r (fp_of d (c_to e)) -> fp_time r <= q_maxtr p ->
                        f_tau st (fp_node r) <= c_arr e + fp_time r) }.

  Lemma Inv_ext pre st st' :
    f_tau st' = f_tau st -> f_steps st' = f_steps st -> f_ov st' = f_ov st -> f_egr st' = f_egr st ->
    f_count st' = f_count st ->
    f_reached st' = f_reached st -> f_tent st' = f_tent st -> Inv pre st -> Inv pre st'.
  Proof.
    intros E1 E0 E2 E3 E4 E5 E6 [I1 I2 I3 I4 I5 J1 J2 J3 I6 I7 I8].
    constructor; rewrite ?E1, ?E0, ?E2, ?E3, ?E4, ?E5, ?E6; assumption.
  Qed.

  Lemma tau_le_ready pre c rest st n t : L = pre ++ c :: rest -> Inv pre st -> Ready n t -> t <= c_dep c ->
    f_tau st n <= t.
  Proof.
    intros EL HI [(ra & Hra & Hn & Ht)|(e0 & w & H0 & Hrow & Hw & Ht)] Hle.
    - subst n t. apply (i_acc _ _ HI ra Hra).
    - destruct (Alight_conn e0 H0) as (He0 & _ & _).
      pose proof (walk_nonneg e0 n w He0 Hrow) as Hw0. pose proof (conn_pos d e0 Hpos He0) as Hp0.
      assert (Hin : In e0 pre) by (apply (before_dep pre c rest e0 EL (Alight_in_L e0 H0)); lia).
      destruct (i_alt _ _ HI e0 H0 Hin) as [_ Htau].
      apply has_row_In in Hrow. destruct Hrow as (r & Hr & Hrn & Hrw). subst n w t.
      apply Htau; assumption.
  Qed.

  Lemma Inv_skip pre st c : Inv pre st -> ~ Boardable c -> ~ Alight c -> Inv (pre ++ [c]) st.
  Proof.
    intros HI NB NA. constructor.
    - apply (i_tau _ _ HI).
    - intros t b Hb. destruct (i_ov _ _ HI t b Hb) as (B1 & B2 & B3 & B4).
      split; [exact B1|]. split; [exact B2|]. split; [apply in_or_app; left; exact B3|exact B4].
    - apply (i_egr _ _ HI).
    - apply (i_cnt _ _ HI).
    - apply (i_tent _ _ HI).
    - apply (i_steps _ _ HI).
    - apply (i_egrent _ _ HI).
    - apply (i_ovent _ _ HI).
    - apply (i_acc _ _ HI).
    - intros b HB Hin. apply in_app_or in Hin. destruct Hin as [Hin|[Hin|[]]].
      + apply (i_ent _ _ HI b HB Hin).
      + subst b. contradiction.
    - intros e HA Hin. apply in_app_or in Hin. destruct Hin as [Hin|[Hin|[]]].
      + apply (i_alt _ _ HI e HA Hin).
      + subst e. contradiction.
  Qed.

  (* a connection the step leaves alone is of no use to any journey *)
  Lemma noop_excl pre c rest st : L = pre ++ c :: rest -> Inv pre st ->
    (c_dep c < k_dep k + k_minAcc k \/ k_disabled k (c_trip c) = true \/
     (o_enter (f_ov st (c_trip c)) = None /\ f_tau st (c_from c) > c_dep c - minw_eff p c)) ->
    ~ Boardable c /\ ~ Alight c.
  Proof.
    intros EL HI Hcase.
    assert (HcL : In c L) by (rewrite EL; apply in_or_app; right; left; reflexivity).
    assert (NB : ~ Boardable c).
    { intros HB. destruct Hcase as [H|[H|[H1 H2]]].
      - pose proof (Boardable_dep c HB) as M. rewrite (pk_dep Hk), (pk_minacc Hk) in H. lia.
      - destruct HB as (_ & _ & Hadm & _). rewrite (tadm_not_disabled _ Hadm) in H. discriminate.
      - destruct HB as (_ & _ & _ & t & HR & Hle). pose proof (minw_nonneg c) as Hm.
        pose proof (tau_le_ready pre c rest st _ t EL HI HR ltac:(lia)) as M.
        rewrite minw_eff_true in H2. lia. }
    split; [exact NB|]. intros HA.
    destruct (Alight_inv c HA) as (n & t & b & HR & Hr & Hf & Hle).
    pose proof (ride_boardable n t b c HR Hr Hf Hle) as HB.
    pose proof (ride_dep_le b c Hr) as Hdep.
    destruct Hr as (Hb & Hc & Et & Hs & Hcb & Hcu & Hadm).
    destruct Hcase as [H|[H|[H1 H2]]].
    - pose proof (Boardable_dep b HB) as M. rewrite (pk_dep Hk), (pk_minacc Hk) in H. lia.
    - assert (Hadm' : tadm d s p (c_trip c)) by (unfold tadm; rewrite <- Et; exact Hadm).
      rewrite (tadm_not_disabled _ Hadm') in H. discriminate.
    - destruct (Nat.eq_dec (c_seq b) (c_seq c)) as [E|N].
      + apply NB. rewrite <- (seq_eq_conn d b c Hwf Hb Hc Et E). exact HB.
      + assert (Hin : In b pre).
        { apply (before_seq pre c rest b EL (Boardable_in_L b HB) Et). lia. }
        pose proof (i_ent _ _ HI b HB Hin) as M. rewrite Et, H1 in M. discriminate.
  Qed.

  (* the step on a connection that passes all guards *)
  Lemma pass_inv pre c rest st st' : L = pre ++ c :: rest -> Inv pre st ->
    k_disabled k (c_trip c) = false ->
    (is_some (o_enter (f_ov st (c_trip c))) = true \/ f_tau st (c_from c) <= c_dep c - minw_eff p c) ->
    f_ov st' = upd (f_ov st) (c_trip c) (ov1_f st c) -> f_count st' = f_count st + 1 ->
    ((c_cu c && is_some (o_enter (ov1_f st c)) = false /\
      f_tau st' = f_tau st /\ f_steps st' = f_steps st /\ f_egr st' = f_egr st /\
      f_reached st' = f_reached st /\ f_tent st' = f_tent st) \/
     (c_cu c = true /\ exists b, o_enter (ov1_f st c) = Some b /\
      (f_tau st', f_steps st', f_egr st') =
         fold_left (fwd_fp_step p c (Some b)) (fp_of d (c_to c)) (f_tau st, f_steps st, f_egr st) /\
      ((all = false /\ f_reached st = false /\
        (exists r, row_of (c_to c) (k_egrfp k) = Some r) /\ f_reached st' = true /\ f_tent st' = c_arr c) \/
       (f_reached st' = f_reached st /\ f_tent st' = f_tent st)))) ->
    Inv (pre ++ [c]) st'.
  Proof.
    intros EL HI Hdis Hcond Eov Ecnt D.
    assert (HcL : In c L) by (rewrite EL; apply in_or_app; right; left; reflexivity).
    pose proof (L_conn c HcL) as Hc. pose proof (L_tadm c HcL Hdis) as Hadm.
    (* the overlay of the trip after the boarding test *)
    assert (HOV : forall b, o_enter (ov1_f st c) = Some b ->
                  Boardable b /\ c_trip b = c_trip c /\ In b (pre ++ [c]) /\ o_usable (ov1_f st c) = true /\
                  (c_seq b <= c_seq c)%nat /\ ent_ok (f_tau st) b).
    { destruct (ov1_cases st c) as [(E1 & _)|(E0 & Ecb & E1 & E2)].
      - rewrite E1. intros b Hb. destruct (i_ov _ _ HI _ b Hb) as (B1 & B2 & B3 & B4).
        split; [exact B1|]. split; [exact B2|]. split; [apply in_or_app; left; exact B3|]. split; [exact B4|].
        split; [apply (pre_seq_le pre c rest b EL B3 B2)|apply (i_ovent _ _ HI _ b Hb)].
      - intros b Hb. rewrite E1 in Hb. inversion Hb; subst b. clear Hb.
        destruct Hcond as [Hcond|Hcond]; [rewrite E0 in Hcond; discriminate|].
        pose proof (conn_dep_clock d c Hwf Hc) as Hclk. pose proof (minw_nonneg c) as Hm.
        rewrite minw_eff_true in Hcond.
        split; [|split; [reflexivity|split; [apply in_or_app; right; left; reflexivity|split; [exact E2|split;
                 [lia|split; [exact Hc|lia]]]]]].
        destruct (i_tau _ _ HI (c_from c)) as [Hmx|HR]; [unfold MAX_INT in Hmx; lia|].
        split; [exact Hc|]. split; [exact Ecb|]. split; [exact Hadm|].
        exists (f_tau st (c_from c)). split; [exact HR|lia]. }
    assert (Iov : forall t b, o_enter (f_ov st' t) = Some b ->
                  Boardable b /\ c_trip b = t /\ In b (pre ++ [c]) /\ o_usable (f_ov st' t) = true).
    { intros t b Hb. rewrite Eov in Hb |- *. destruct (Nat.eq_dec t (c_trip c)) as [Et|Nt].
      - subst t. rewrite upd_same in Hb |- *. destruct (HOV b Hb) as (B1 & B2 & B3 & B4 & _).
        repeat (split; [assumption|]). exact B4.
      - rewrite upd_other in Hb |- * by exact Nt. destruct (i_ov _ _ HI t b Hb) as (B1 & B2 & B3 & B4).
        split; [exact B1|]. split; [exact B2|]. split; [apply in_or_app; left; exact B3|exact B4]. }
    assert (Ient : forall b, Boardable b -> In b (pre ++ [c]) ->
                   is_some (o_enter (f_ov st' (c_trip b))) = true).
    { intros b HB Hin. rewrite Eov. destruct (Nat.eq_dec (c_trip b) (c_trip c)) as [Et|Nt].
      - rewrite Et, upd_same. destruct (ov1_cases st c) as [(E1 & Hor)|(E0 & Ecb & E1 & E2)].
        + rewrite E1. apply in_app_or in Hin. destruct Hin as [Hin|[Hin|[]]].
          * rewrite <- Et. apply (i_ent _ _ HI b HB Hin).
          * subst b. destruct Hor as [Hor|Hor]; [exact Hor|]. destruct HB as (_ & Hcb & _). congruence.
        + rewrite E1. reflexivity.
      - rewrite upd_other by exact Nt. apply in_app_or in Hin. destruct Hin as [Hin|[Hin|[]]].
        + apply (i_ent _ _ HI b HB Hin).
        + subst b. contradiction Nt. reflexivity. }
    assert (Icnt : 0 <= f_count st' /\ ((exists t, is_some (o_enter (f_ov st' t)) = true) -> 0 < f_count st')).
    { destruct (i_cnt _ _ HI) as [C1 _]. rewrite Ecnt. split; [lia|intros _; lia]. }
    assert (Iovent0 : forall t b, o_enter (f_ov st' t) = Some b -> ent_ok (f_tau st) b).
    { intros t b Hb. rewrite Eov in Hb. destruct (Nat.eq_dec t (c_trip c)) as [Et|Nt].
      - subst t. rewrite upd_same in Hb. apply (HOV b Hb).
      - rewrite upd_other in Hb by exact Nt. apply (i_ovent _ _ HI t b Hb). }
    (* an alighting at c forces the transfer loop to run *)
    assert (HAc : Alight c -> c_cu c && is_some (o_enter (ov1_f st c)) = true).
    { intros HA. destruct (Alight_inv c HA) as (n & t & b & HR & Hr & Hf & Hle).
      pose proof (ride_boardable n t b c HR Hr Hf Hle) as HB.
      destruct Hr as (Hb & _ & Et & Hs & Hcb & Hcu & _).
      assert (Hin : In b (pre ++ [c])).
      { destruct (Nat.eq_dec (c_seq b) (c_seq c)) as [E|N].
        - rewrite (seq_eq_conn d b c Hwf Hb Hc Et E). apply in_or_app. right. left. reflexivity.
        - apply in_or_app. left. apply (before_seq pre c rest b EL (Boardable_in_L b HB) Et). lia. }
      pose proof (Ient b HB Hin) as M. rewrite Eov, Et, upd_same in M. rewrite Hcu, M. reflexivity. }
    destruct D as [(E6 & Etau & Esteps & Eegr & Ereach & Etent)|(Ecu & b & Eb1 & F & T)].
    - (* no alighting here *)
      assert (NA : ~ Alight c) by (intros HA; rewrite (HAc HA) in E6; discriminate).
      constructor.
      + rewrite Etau. apply (i_tau _ _ HI).
      + exact Iov.
      + rewrite Eegr. apply (i_egr _ _ HI).
      + exact Icnt.
      + rewrite Ereach, Etent, Eegr. intros Hr. destruct (i_tent _ _ HI Hr) as [_ W].
        split; [|exact W]. destruct (i_cnt _ _ HI) as [C1 _]. lia.
      + rewrite Etau, Esteps. apply (i_steps _ _ HI).
      + rewrite Etau, Eegr. apply (i_egrent _ _ HI).
      + rewrite Etau. exact Iovent0.
      + rewrite Etau. apply (i_acc _ _ HI).
      + exact Ient.
      + intros e HA Hin. rewrite Etau, Eegr. apply in_app_or in Hin. destruct Hin as [Hin|[Hin|[]]].
        * apply (i_alt _ _ HI e HA Hin).
        * subst e. contradiction.
    - (* the transfer loop runs from an entered trip *)
      destruct (HOV b Eb1) as (HB & Et & Hbin & Hus & Hseq & Hentb).
      assert (Hride : ride_ok d s p b c).
      { destruct HB as (Hb & Hcb & Hadmb & _). unfold ride_ok. repeat (split; [assumption|]). exact Hadmb. }
      assert (HA : Alight c).
      { destruct HB as (Hb & Hcb & Hadmb & t & HR & Hle).
        apply (Alight_intro (c_from b) t b c HR); [exact Hride|reflexivity|exact Hle]. }
      pose proof (conn_to_node d c Hwf Hc) as Hnode.
      destruct (wf_fp_rows d Hwf (c_to c) Hnode) as [Hnn Hself].
      set (x0 := (f_tau st, f_steps st, f_egr st)) in *.
      set (x' := fold_left (fwd_fp_step p c (Some b)) (fp_of d (c_to c)) x0) in *.
      pose proof (fp_fold_mono c (Some b) (fp_of d (c_to c)) x0) as [M1 M2]. fold x' in M1, M2.
      destruct (fp_fold_sound c b HA (fp_of d (c_to c)) x0 (fun r H => H) (i_tau _ _ HI) (i_egr _ _ HI))
        as [S1 S2]. fold x' in S1, S2.
      pose proof (fp_fold_tau c (Some b) (fp_of d (c_to c)) x0 Hnn) as C1. fold x' in C1.
      assert (C2 : exists j e, snd x' (c_to c) = Some j /\ js_exit j = Some e /\ c_arr e <= c_arr c).
      { apply (fp_fold_egr c (Some b) (fp_of d (c_to c)) x0).
        - apply EgrOk_Wf. apply (i_egr _ _ HI).
        - apply has_row_In in Hself. destruct Hself as (r & Hr & Hrn & Hrt). exists r.
          split; [exact Hr|]. split; [exact Hrn|]. rewrite Hrt.
          pose proof (wf_params_fields p Hpar). lia. }
      pose proof (fp_fold_chain c b (ride_dep_lt b c Hride) (fp_of d (c_to c)) x0 Hnn Hentb
                                (conj (i_steps _ _ HI) (i_egrent _ _ HI))) as [Q1 Q2]. fold x' in Q1, Q2.
      rewrite <- F in M1, M2, S1, S2, C1, C2, Q1, Q2. subst x0.
      cbn [fst snd] in M1, M2, S1, S2, C1, C2, Q1, Q2.
      constructor.
      + exact S1.
      + exact Iov.
      + exact S2.
      + exact Icnt.
      + destruct T as [(_ & _ & (r & Hrow) & Er & Ete)|(Er & Ete)].
        * intros _. rewrite Ete. split; [destruct (i_cnt _ _ HI) as [C0 _]; lia|].
          destruct C2 as (j & e & J1 & J2 & J3). exists (c_to c), r, j, e. repeat (split; [assumption|]). exact J3.
        * rewrite Er, Ete. intros Hr. destruct (i_tent _ _ HI Hr) as (_ & n & er & j & x & R1 & R2 & R3 & R4).
          split; [destruct (i_cnt _ _ HI) as [C0 _]; lia|].
          destruct (M2 n j x R2 R3) as (j' & e' & J1 & J2 & J3). exists n, er, j', e'.
          repeat (split; [assumption|]). lia.
      + exact Q1.
      + exact Q2.
      + intros t0 b0 Hb0. apply (ent_ok_mono (f_tau st)); [exact M1|apply (Iovent0 t0 b0 Hb0)].
      + intros ra Hra. pose proof (i_acc _ _ HI ra Hra). specialize (M1 (fp_node ra)). lia.
      + exact Ient.
      + intros e HAe Hin. apply in_app_or in Hin. destruct Hin as [Hin|[Hin|[]]].
        * destruct (i_alt _ _ HI e HAe Hin) as [(j & x & J1 & J2 & J3) A2]. split.
          -- destruct (M2 _ j x J1 J2) as (j' & e' & K1 & K2 & K3). exists j', e'.
             split; [exact K1|]. split; [exact K2|lia].
          -- intros r Hr Hmax. specialize (A2 r Hr Hmax). specialize (M1 (fp_node r)). lia.
        * subst e. split; [exact C2|]. intros r Hr Hmax. apply C1; assumption.
  Qed.

  Lemma step_inv pre c rest st : L = pre ++ c :: rest -> Inv pre st -> f_stop st = false ->
    (f_stop (fwd_step d p k all st c) = false /\ Inv (pre ++ [c]) (fwd_step d p k all st c)) \/
    (f_stop (fwd_step d p k all st c) = true /\ Inv pre (fwd_step d p k all st c) /\
     k_dep k + k_minAcc k <= c_dep c /\
     brk all p k (f_reached (fwd_step d p k all st c)) (f_tent (fwd_step d p k all st c)) c = true).
  Proof.
    intros EL HI Hs. pose proof (fwd_step_spec d p k all st c Hfw) as S.
    set (st' := fwd_step d p k all st c) in *.
    destruct S as [(E & A)|[B|C]].
    - left. rewrite E. split; [exact Hs|].
      destruct A as [A|A]; [congruence|].
      destruct (noop_excl pre c rest st EL HI A) as [NB NA]. apply Inv_skip; assumption.
    - destruct B as (_ & Hg & _ & Hb & E1 & E0 & E2 & E3 & E4 & E5 & E6 & E7).
      right. split; [exact E7|]. split; [apply (Inv_ext pre st st'); assumption|]. split; [exact Hg|].
      rewrite E5, E6. exact Hb.
    - destruct C as (_ & _ & Hdis & _ & Hcond & Eov & Ecnt & Es' & D).
      left. split; [exact Es'|]. apply (pass_inv pre c rest st st' EL HI Hdis Hcond Eov Ecnt D).
  Qed.

  (* -------------------------------------------------------------------------------------------- *)
  (* 5. the whole scan, with its two breaks                                                         *)

  Definition Final (st : fstate) : Prop :=
    exists pre rest, L = pre ++ rest /\ Inv pre st /\
      (rest = [] \/
       exists c0 r0, rest = c0 :: r0 /\ f_stop st = true /\ k_dep k + k_minAcc k <= c_dep c0 /\
                     brk all p k (f_reached st) (f_tent st) c0 = true).

  Lemma fold_inv : forall rest pre st, L = pre ++ rest -> Inv pre st -> f_stop st = false ->
    Final (fold_left (fwd_step d p k all) rest st).
  Proof.
    induction rest as [|c rest IH]; intros pre st EL HI Hs; cbn [fold_left].
    - exists pre, []. split; [exact EL|]. split; [exact HI|left; reflexivity].
    - destruct (step_inv pre c rest st EL HI Hs) as [(Hs' & HI')|(Hs' & HI' & Hg & Hb)].
      + apply (IH (pre ++ [c])); [rewrite <- app_assoc; exact EL|exact HI'|exact Hs'].
      + rewrite fwd_fold_stopped by exact Hs'. exists pre, (c :: rest).
        split; [exact EL|]. split; [exact HI'|]. right. exists c, rest.
        split; [reflexivity|]. split; [exact Hs'|]. split; [exact Hg|exact Hb].
  Qed.

  Lemma init_inv : Inv [] (fwd_init k).
  Proof.
    constructor; unfold fwd_init; cbn [f_tau f_steps f_ov f_egr f_count f_reached f_tent].
    - intros n. rewrite (pk_tau Hk). destruct (row_of n acc) as [r|] eqn:E; [|left; reflexivity].
      right. left. destruct (row_of_some _ _ _ E) as [E1 E2]. exists r.
      split; [exact E2|]. split; [exact E1|reflexivity].
    - intros t b Hb. rewrite (pk_ov Hk) in Hb. discriminate.
    - intros n j Hj. discriminate.
    - split; [lia|]. intros (t & Ht). rewrite (pk_ov Hk) in Ht. discriminate.
    - intros H. discriminate.
    - intros m b Hb. rewrite (pk_steps Hk) in Hb. discriminate.
    - intros n j b Hj. discriminate.
    - intros t b Hb. rewrite (pk_ov Hk) in Hb. discriminate.
    - intros ra Hra. rewrite (pk_tau Hk), (row_of_nodup acc ra Haccnd Hra). lia.
    - intros b _ [].
    - intros e _ [].
  Qed.

  Lemma scan_final fs : fwd_scan d p k all = Ok fs -> Final fs.
  Proof.
    intros H.
    assert (H1 : dep_sorted (cs_fwd (k_set k))) by (rewrite (pk_set Hk); apply conn_set_fwd_sorted).
    assert (H2 : forall c, In c (cs_fwd (k_set k)) -> 0 <= c_dep c < 115200).
    { rewrite (pk_set Hk). intros c Hc. apply (conn_dep_clock d c Hwf (L_conn c Hc)). }
    assert (H3 : cs_fidx (k_set k) = fwd_index (cs_fwd (k_set k))) by (rewrite (pk_set Hk); reflexivity).
    assert (H4 : 0 <= k_dep k < 115200) by (rewrite (pk_dep Hk); apply (wf_params_fields p Hpar)).
    assert (H5 : 0 <= k_minAcc k) by (rewrite (pk_minacc Hk); apply min_time_nonneg; exact Hacc0).
    rewrite (C12_index_fwd d p k all H1 H2 H3 H4 H5) in H. inversion H as [E]. clear H E.
    rewrite (pk_set Hk). apply (fold_inv L [] (fwd_init k)); [reflexivity|exact init_inv|reflexivity].
  Qed.

  (* every connection of the list was processed, or lies behind one of the two breaks *)
  Lemma final_cases fs : Final fs ->
    exists pre, Inv pre fs /\
      forall x, In x L ->
        In x pre \/ c_dep x - q_time p > q_maxtt p \/
        (all = false /\ f_reached fs = true /\ c_dep x > f_tent fs + k_maxEgr k).
  Proof.
    intros (pre & rest & EL & HI & Hrest). exists pre. split; [exact HI|]. intros x Hx.
    rewrite EL in Hx. apply in_app_or in Hx. destruct Hx as [Hx|Hx]; [left; exact Hx|right].
    destruct Hrest as [Hrest|(c0 & r0 & Hrest & _ & _ & Hb)]; [rewrite Hrest in Hx; destruct Hx|].
    rewrite Hrest in EL, Hx. pose proof (rest_dep_ge pre c0 r0 x EL Hx) as Hge.
    unfold brk in Hb. apply orb_prop in Hb. destruct Hb as [Hb|Hb].
    - right. peel Hb B5. peel Hb B4. peel Hb B3. peel Hb B2. apply negb_true_iff in Hb.
      apply Z.gtb_lt in B5. split; [exact Hb|]. split; [exact B2|lia].
    - left. apply Z.gtb_lt in Hb. rewrite (pk_dep Hk) in Hb. lia.
  Qed.

  (* ---- soundness ---- *)

  Theorem scan_egr_sound fs n j : fwd_scan d p k all = Ok fs -> f_egr fs n = Some j ->
    exists b e, js_enter j = Some b /\ js_exit j = Some e /\ c_to e = n /\ In e (all_conns d) /\
                alights_at d s p acc n (c_arr e).
  Proof.
    intros Hscan Hj. destruct (final_cases fs (scan_final fs Hscan)) as (pre & HI & _).
    destruct (i_egr _ _ HI n j Hj) as (b & x & J1 & J2 & J3 & J4). exists b, x.
    split; [exact J1|]. split; [exact J2|]. split; [exact J3|]. split; [exact (proj1 (Alight_conn x J4))|].
    rewrite <- J3. apply Alight_alights. exact J4.
  Qed.

  (* ---- the transfer count over the label chain ends within its fuel ---- *)

  Theorem scan_chain fs : fwd_scan d p k all = Ok fs ->
    StepsOk (f_tau fs) (f_steps fs) /\ EgrEnt (f_tau fs) (f_egr fs).
  Proof.
    intros Hscan. destruct (final_cases fs (scan_final fs Hscan)) as (pre & HI & _).
    split; [apply (i_steps _ _ HI)|apply (i_egrent _ _ HI)].
  Qed.

  Lemma ctf_stop fuel steps cur n0 :
    js_enter cur = None \/ js_exit cur = None -> count_transfers_fwd fuel d steps cur n0 = Some n0.
  Proof.
    intros H. destruct fuel; cbn [count_transfers_fwd]; destruct (js_enter cur); destruct (js_exit cur);
      try reflexivity; destruct H; discriminate.
  Qed.

  Lemma ctf_step f steps cur n0 b e : js_enter cur = Some b -> js_exit cur = Some e ->
    exists n1, count_transfers_fwd (S f) d steps cur n0 = count_transfers_fwd f d steps (steps (c_from b)) n1.
  Proof. intros H1 H2. cbn [count_transfers_fwd]. rewrite H1, H2. eexists. reflexivity. Qed.

  Lemma chain_terminates tau steps : StepsOk tau steps ->
    forall fuel visited m n0,
      NoDup visited -> (forall v, In v visited -> In v (d_nodes d) /\ tau m < tau v) -> In m (d_nodes d) ->
      (length (d_nodes d) < length visited + fuel)%nat ->
      count_transfers_fwd fuel d steps (steps m) n0 <> None.
  Proof.
    intros HS. induction fuel as [|f IH]; intros visited m n0 Hnd Hvis Hm Hlen.
    - exfalso. assert (Hnd' : NoDup (m :: visited)).
      { constructor; [|exact Hnd]. intros Hin. destruct (Hvis m Hin) as [_ Hlt]. lia. }
      assert (Hincl : incl (m :: visited) (d_nodes d)).
      { intros v [Hv|Hv]; [subst v; exact Hm|apply (Hvis v Hv)]. }
      pose proof (NoDup_incl_length Hnd' Hincl) as Hle. cbn [length] in Hle. lia.
    - destruct (js_enter (steps m)) as [b|] eqn:Eb.
      2:{ rewrite ctf_stop by (left; exact Eb). discriminate. }
      destruct (HS m b Eb) as (e & Ee & [Hb Hent] & Hride & Harr).
      destruct (ctf_step f steps (steps m) n0 b e Eb Ee) as (n1 & E). rewrite E.
      pose proof (minw_nonneg b) as Hmw.
      apply (IH (m :: visited) (c_from b) n1).
      + constructor; [|exact Hnd]. intros Hin. destruct (Hvis m Hin) as [_ Hlt]. lia.
      + intros v [Hv|Hv]; [subst v; split; [exact Hm|lia]|].
        destruct (Hvis v Hv) as [Hv1 Hv2]. split; [exact Hv1|lia].
      + apply (conn_from_node d b Hwf Hb).
      + cbn [length]. lia.
  Qed.

  Theorem scan_count_terminates fs n j : fwd_scan d p k all = Ok fs -> f_egr fs n = Some j ->
    count_transfers_fwd (REBUILD_FUEL d) d (f_steps fs) j (-1) <> None.
  Proof.
    intros Hscan Hj. destruct (scan_chain fs Hscan) as [HS HE].
    destruct (js_enter j) as [b|] eqn:Eb; [|rewrite ctf_stop by (left; exact Eb); discriminate].
    destruct (js_exit j) as [e|] eqn:Ee; [|rewrite ctf_stop by (right; exact Ee); discriminate].
    destruct (HE n j b Hj Eb) as [Hb _].
    unfold REBUILD_FUEL. replace (4 * length (d_nodes d) + 64)%nat with (S (4 * length (d_nodes d) + 63)) by lia.
    destruct (ctf_step (4 * length (d_nodes d) + 63) (f_steps fs) j (-1) b e Eb Ee) as (n1 & E). rewrite E.
    apply (chain_terminates (f_tau fs) (f_steps fs) HS _ [] (c_from b) n1).
    - constructor.
    - intros v [].
    - apply (conn_from_node d b Hwf Hb).
    - cbn [length]. lia.
  Qed.

  Theorem scan_best_sound fs t n : fwd_scan d p k all = Ok fs -> best_egress p k fs = Some (t, n) ->
    exists rides, admissible_fwd d s p acc (k_egrfp k) rides t.
  Proof.
    intros Hscan Hbest. destruct (final_cases fs (scan_final fs Hscan)) as (pre & HI & _).
    rewrite best_egress_fold in Hbest.
    destruct (be_fold_sound p k fs (k_egrfp k) None (fun t n H => ltac:(discriminate H)) t n Hbest)
      as (er & j & e & Er & Ej & Ee & Et & H0 & H1).
    destruct (i_egr _ _ HI n j Ej) as (b & x & J1 & J2 & J3 & J4).
    rewrite Ee in J2. inversion J2; subst x. clear J2.
    destruct (Alight_alights e J4) as (ra & rides & Hra & Hre).
    destruct (row_of_some _ _ _ Er) as [En Hin].
    exists rides. split.
    - exists ra, er, (c_to e), (c_arr e). split; [exact Hra|]. split; [exact Hin|]. split; [exact Hre|].
      split; [congruence|exact Et].
    - rewrite (pk_dep Hk) in H1. exact H1.
  Qed.

  (* ---- completeness: accessibility (no early-egress break) ---- *)

  Theorem scan_alight_complete fs n t : all = true -> fwd_scan d p k all = Ok fs ->
    alights_at d s p acc n t -> t - q_time p <= q_maxtt p ->
    0 < f_count fs /\ exists j e, f_egr fs n = Some j /\ js_exit j = Some e /\ c_arr e <= t.
  Proof.
    intros Hall Hscan Hal Hspan. destruct (final_cases fs (scan_final fs Hscan)) as (pre & HI & Hcov).
    destruct (alights_Alight n t Hal) as (e0 & HA & En & Et). subst n t.
    pose proof (Alight_conn e0 HA) as (He0 & _ & _). pose proof (conn_pos d e0 Hpos He0) as Hp0.
    split.
    - destruct (Alight_inv e0 HA) as (n & t & b & HR & Hr & Hf & Hle).
      pose proof (ride_boardable n t b e0 HR Hr Hf Hle) as HB. pose proof (ride_dep_le b e0 Hr) as Hd.
      destruct (Hcov b (Boardable_in_L b HB)) as [Hin|[Hgt|(Hf' & _)]]; [|lia|congruence].
      apply (proj2 (i_cnt _ _ HI)). exists (c_trip b). apply (i_ent _ _ HI b HB Hin).
    - destruct (Hcov e0 (Alight_in_L e0 HA)) as [Hin|[Hgt|(Hf' & _)]]; [|lia|congruence].
      apply (proj1 (i_alt _ _ HI e0 HA Hin)).
  Qed.

  (* ---- completeness: route queries (both breaks) ---- *)

  Hypothesis Hegrnd : nodup_nat (map fp_node (k_egrfp k)) = true.
  Hypothesis Hegrrng : forall r, In r (k_egrfp k) -> 0 <= fp_time r < 32768.

  (* a labelled egress stop bounds the selected arrival *)
  Lemma cand_best pre fs er j x T : Inv pre fs -> In er (k_egrfp k) ->
    f_egr fs (fp_node er) = Some j -> js_exit j = Some x -> c_arr x + fp_time er <= T -> T - q_time p <= q_maxtt p ->
    exists tb nb, best_egress p k fs = Some (tb, nb) /\ tb <= c_arr x + fp_time er.
  Proof.
    intros HI Her Ej Ex HT Hspan.
    destruct (i_egr _ _ HI _ j Ej) as (b & x' & _ & J2 & _ & J4). rewrite Ex in J2. inversion J2; subst x'.
    destruct (Alight_conn x J4) as (Hx & _ & _).
    pose proof (conn_arr_nonneg d x Hwf Hx). pose proof (conn_arr_clock d x Hwf Hx). pose proof (Hegrrng er Her).
    rewrite best_egress_fold.
    apply (be_fold_hit p k fs (k_egrfp k) None er j x er Her Ej Ex (row_of_nodup _ er Hegrnd Her)).
    - lia.
    - rewrite (pk_dep Hk). lia.
    - unfold MAX_INT. lia.
  Qed.

  (* once an egress stop was reached, its label bounds the selected arrival by f_tent + maximum egress *)
  Lemma tent_best pre fs T : Inv pre fs -> f_reached fs = true -> f_tent fs + k_maxEgr k < T ->
    T - q_time p <= q_maxtt p ->
    0 < f_count fs /\ exists tb nb, best_egress p k fs = Some (tb, nb) /\ tb <= f_tent fs + k_maxEgr k.
  Proof.
    intros HI Hr HT Hspan. destruct (i_tent _ _ HI Hr) as (Hc & n & er & j & x & R1 & R2 & R3 & R4).
    split; [exact Hc|]. destruct (row_of_some _ _ _ R1) as [En Her]. subst n.
    pose proof (pk_maxegr Hk er Her) as Hmax.
    destruct (cand_best pre fs er j x T HI Her R2 R3 ltac:(lia) Hspan) as (tb & nb & E & Hle).
    exists tb, nb. split; [exact E|lia].
  Qed.

  Theorem scan_best_complete fs rides t : fwd_scan d p k all = Ok fs ->
    admissible_fwd d s p acc (k_egrfp k) rides t ->
    0 < f_count fs /\ exists t' n', best_egress p k fs = Some (t', n') /\ t' <= t.
  Proof.
    intros Hscan [(ra & re & m & t' & Hra & Hre & Hreach & Hm & Ht) Hspan].
    destruct (final_cases fs (scan_final fs Hscan)) as (pre & HI & Hcov).
    assert (HR0 : Ready (fp_node ra) (q_time p + fp_time ra)).
    { left. exists ra. split; [exact Hra|]. split; reflexivity. }
    destruct (reaches_Alight _ _ _ _ _ Hreach HR0) as (e0 & HA & En & Et). subst m t' t.
    pose proof (Alight_conn e0 HA) as (He0 & _ & _). pose proof (conn_pos d e0 Hpos He0) as Hp0.
    pose proof (Hegrrng re Hre) as Hrng.
    destruct (Hcov e0 (Alight_in_L e0 HA)) as [Hin|[Hgt|(_ & Hr & Hgt)]]; [|lia|].
    - split.
      + destruct (Alight_inv e0 HA) as (n & t & b & HR & Hrd & Hf & Hle).
        pose proof (ride_boardable n t b e0 HR Hrd Hf Hle) as HB. pose proof (ride_dep_le b e0 Hrd) as Hd.
        destruct (Hcov b (Boardable_in_L b HB)) as [Hinb|[Hgtb|(_ & Hrb & Hgtb)]]; [|lia|].
        * apply (proj2 (i_cnt _ _ HI)). exists (c_trip b). apply (i_ent _ _ HI b HB Hinb).
        * apply (proj1 (i_tent _ _ HI Hrb)).
      + destruct (proj1 (i_alt _ _ HI e0 HA Hin)) as (j & x & J1 & J2 & J3). rewrite En in J1.
        destruct (cand_best pre fs re j x (c_arr e0 + fp_time re) HI Hre J1 J2 ltac:(lia) Hspan)
          as (tb & nb & E & Hle).
        exists tb, nb. split; [exact E|lia].
    - destruct (tent_best pre fs (c_arr e0 + fp_time re) HI Hr ltac:(lia) Hspan) as (Hc & tb & nb & E & Hle).
      split; [exact Hc|]. exists tb, nb. split; [exact E|lia].
  Qed.

  (* every trip ridden by a journey that arrives no later than the selected arrival was entered by the scan *)
  Theorem scan_usable fs tb nb rides t : fwd_scan d p k all = Ok fs ->
    best_egress p k fs = Some (tb, nb) -> admissible_fwd d s p acc (k_egrfp k) rides t -> t <= tb ->
    Forall (fun be => exists b', o_enter (f_ov fs (c_trip (fst be))) = Some b' /\
                                 o_usable (f_ov fs (c_trip (fst be))) = true /\
                                 c_trip b' = c_trip (fst be) /\ fwd_boardable d s p acc b') rides.
  Proof.
    intros Hscan Hbest [(ra & re & m & t' & Hra & Hre & Hreach & Hm & Ht) Hspan] Hle.
    destruct (final_cases fs (scan_final fs Hscan)) as (pre & HI & Hcov).
    assert (HR0 : Ready (fp_node ra) (q_time p + fp_time ra)).
    { left. exists ra. split; [exact Hra|]. split; reflexivity. }
    pose proof (reaches_rides _ _ _ _ _ Hreach HR0) as HF. pose proof (Hegrrng re Hre) as Hrng.
    revert HF. apply Forall_impl. intros [b e] [HB Hdep]. cbn [fst] in *.
    destruct (Hcov b (Boardable_in_L b HB)) as [Hin|[Hgt|(_ & Hr & Hgt)]]; [|lia|].
    - pose proof (i_ent _ _ HI b HB Hin) as M.
      destruct (o_enter (f_ov fs (c_trip b))) as [b'|] eqn:Eb; [|discriminate].
      destruct (i_ov _ _ HI _ b' Eb) as (B1 & B3 & _ & B4). exists b'.
      split; [reflexivity|]. split; [exact B4|]. split; [exact B3|]. apply Boardable_decl. exact B1.
    - exfalso. destruct (tent_best pre fs t HI Hr ltac:(lia) Hspan) as (_ & tb' & nb' & E & Hle').
      rewrite Hbest in E. inversion E; subst tb' nb'. lia.
  Qed.

End Fwd.

(* ---------------------------------------------------------------------------------------------- *)
(* 6. the calculators of calc_single (has_dest = true) and calc_allnodes (egr = [], has_dest = false)  *)

Lemma wf_tables_parts d p acc egr : wf_tables_b d p acc egr = true ->
  (forall r, In r acc -> 0 <= fp_time r) /\ nodup_nat (map fp_node acc) = true /\
  nodup_nat (map fp_node egr) = true /\ (forall r, In r egr -> 0 <= fp_time r < 32768).
Proof.
  unfold wf_tables_b. intros H. peel H T6. peel H T5. peel H T4. peel H T3. peel H T2.
  unfold rows_ok in H, T2. rewrite forallb_forall in H, T2.
  split; [|split; [exact T3|split; [exact T4|]]].
  - intros r Hr. specialize (H r Hr). peel H X4. peel H X3. peel H X2. apply Z.leb_le in X2. exact X2.
  - intros r Hr. specialize (T2 r Hr). peel T2 X4. peel T2 X3. peel T2 X2.
    apply Z.leb_le in X2. apply Z.ltb_lt in X3. lia.
Qed.

Lemma mk_calc_pre d s p acc egr has_dest :
  nodup_nat (map fp_node acc) = true -> q_fwd p = true ->
  fwd_pre d s p acc (mk_calc d p (conn_set d s) acc egr true has_dest).
Proof.
  intros Hnd Hf. constructor.
  - reflexivity.
  - unfold mk_calc. cbn [k_dep]. rewrite Hf. reflexivity.
  - reflexivity.
  - intros n. unfold mk_calc. cbn [k_tau]. rewrite Hf. unfold seed_tau.
    apply (fold_upd_row_of (fun r => q_time p + fp_time r) acc (fun _ => MAX_INT) n Hnd).
  - intros t. reflexivity.
  - intros n. apply seed_steps_enter.
  - intros t. reflexivity.
  - intros r Hr. unfold mk_calc in *. cbn [k_egrfp k_maxEgr] in *.
    destruct has_dest; [apply max_time_ge; exact Hr|destruct Hr].
Qed.

Lemma mk_calc_egrfp d p cs acc egr has_dest :
  k_egrfp (mk_calc d p cs acc egr true has_dest) = if has_dest then egr else [].
Proof. reflexivity. Qed.

Section Main.
  Variables (d : data) (s : scenario) (p : params) (acc egr : list fprow).
  Hypothesis Hwf : wf_data_b d = true.
  Hypothesis Htab : wf_tables_b d p acc egr = true.
  Hypothesis Hpar : wf_params_b p = true.
  Hypothesis Hpos : pos_hops_b d = true.
  Hypothesis Hfwd : q_fwd p = true.
  Hypothesis Hfw : q_maxfw p <= 0.

  (* the calculator of calc_single is K true, that of calc_allnodes (with egr = []) is K false *)
  Notation K := (fun has_dest : bool => mk_calc d p (conn_set d s) acc egr true has_dest).

  Let Hacc0 := proj1 (wf_tables_parts d p acc egr Htab).
  Let Haccnd := proj1 (proj2 (wf_tables_parts d p acc egr Htab)).
  Let Hegrnd := proj1 (proj2 (proj2 (wf_tables_parts d p acc egr Htab))).
  Let Hegrrng := proj2 (proj2 (proj2 (wf_tables_parts d p acc egr Htab))).

  (* (F-sound-egr) every stored egress label is an alighting of some journey prefix; holds for both scans *)
  Theorem F_sound_egr has_dest all fs n j :
    fwd_scan d p (K has_dest) all = Ok fs -> f_egr fs n = Some j ->
    exists b e, js_enter j = Some b /\ js_exit j = Some e /\ c_to e = n /\ In e (all_conns d) /\
                alights_at d s p acc n (c_arr e).
  Proof.
    intros Hscan Hj.
    apply (scan_egr_sound d s p acc Hwf Hpar Hpos Hacc0 Haccnd (K has_dest) all Hfw
                          (mk_calc_pre d s p acc egr has_dest Haccnd Hfwd) fs n j Hscan Hj).
  Qed.

  (* (F-complete-allnodes) forwardCalculationAllNodes labels every stop where a journey prefix alights within
     max_travel_time, with an arrival at least as early; and it counted a reachable connection *)
  Theorem F_complete_allnodes has_dest fs n t :
    fwd_scan d p (K has_dest) true = Ok fs ->
    alights_at d s p acc n t -> t - q_time p <= q_maxtt p ->
    f_count fs <> 0 /\ exists j e, f_egr fs n = Some j /\ js_exit j = Some e /\ c_arr e <= t.
  Proof.
    intros Hscan Hal Hspan.
    destruct (scan_alight_complete d s p acc Hwf Hpar Hpos Hacc0 Haccnd (K has_dest) true Hfw
                (mk_calc_pre d s p acc egr has_dest Haccnd Hfwd) fs n t eq_refl Hscan Hal Hspan) as [Hc Hx].
    split; [lia|exact Hx].
  Qed.

  Corollary F_allnodes_count_zero has_dest fs :
    fwd_scan d p (K has_dest) true = Ok fs -> f_count fs = 0 ->
    forall n t, alights_at d s p acc n t -> ~ (t - q_time p <= q_maxtt p).
  Proof.
    intros Hscan Hz n t Hal Hspan.
    destruct (F_complete_allnodes has_dest fs n t Hscan Hal Hspan) as [Hc _]. contradiction.
  Qed.

  (* the labels within max_travel_time are exactly the earliest alightings (the content of C08's map) *)
  Corollary F_allnodes_exact has_dest fs n t :
    fwd_scan d p (K has_dest) true = Ok fs ->
    ((exists j b e, f_egr fs n = Some j /\ js_enter j = Some b /\ js_exit j = Some e /\ c_arr e = t /\
                    t - q_time p <= q_maxtt p) <->
     (alights_at d s p acc n t /\ (forall t', alights_at d s p acc n t' -> t <= t') /\
      t - q_time p <= q_maxtt p)).
  Proof.
    intros Hscan. split.
    - intros (j & b & e & Hj & Hb & He & Et & Hspan).
      destruct (F_sound_egr has_dest true fs n j Hscan Hj) as (b' & e' & _ & He' & _ & _ & Hal).
      rewrite He in He'. inversion He'; subst e'. rewrite Et in Hal.
      split; [exact Hal|]. split; [|exact Hspan]. intros t' Hal'.
      destruct (Z_le_gt_dec (t' - q_time p) (q_maxtt p)) as [Hle|Hgt]; [|lia].
      destruct (F_complete_allnodes has_dest fs n t' Hscan Hal' Hle) as (_ & j2 & e2 & Hj2 & He2 & Hle2).
      rewrite Hj in Hj2. inversion Hj2; subst j2. rewrite He in He2. inversion He2; subst e2. lia.
    - intros (Hal & Hmin & Hspan).
      destruct (F_complete_allnodes has_dest fs n t Hscan Hal Hspan) as (_ & j & e & Hj & He & Hle).
      destruct (F_sound_egr has_dest true fs n j Hscan Hj) as (b' & e' & Hb' & He' & _ & _ & Hal').
      rewrite He in He'. inversion He'; subst e'. specialize (Hmin _ Hal').
      exists j, b', e. split; [exact Hj|]. split; [exact Hb'|]. split; [exact He|]. split; [lia|exact Hspan].
  Qed.

  (* (F-sound-best) the selected arrival is the arrival of an admissible journey *)
  Theorem F_sound_best all fs t n :
    fwd_scan d p (K true) all = Ok fs -> best_egress p (K true) fs = Some (t, n) ->
    exists rides, admissible_fwd d s p acc egr rides t.
  Proof.
    intros Hscan Hbest.
    apply (scan_best_sound d s p acc Hwf Hpar Hpos Hacc0 Haccnd (K true) all Hfw
                           (mk_calc_pre d s p acc egr true Haccnd Hfwd) fs t n Hscan Hbest).
  Qed.

  (* (F-complete-best) no admissible journey arrives before the selected arrival; neither break of the scan
     cuts a connection such a journey needs *)
  Theorem F_complete_best all fs rides t :
    fwd_scan d p (K true) all = Ok fs -> admissible_fwd d s p acc egr rides t ->
    f_count fs <> 0 /\ exists t' n', best_egress p (K true) fs = Some (t', n') /\ t' <= t.
  Proof.
    intros Hscan Hadm.
    destruct (scan_best_complete d s p acc Hwf Hpar Hpos Hacc0 Haccnd (K true) all Hfw
                (mk_calc_pre d s p acc egr true Haccnd Hfwd) Hegrnd Hegrrng fs rides t Hscan Hadm) as [Hc Hx].
    split; [lia|exact Hx].
  Qed.

  (* the two together: the selected arrival is the minimum over all admissible journeys *)
  Corollary F_best_optimal all fs tb nb :
    fwd_scan d p (K true) all = Ok fs -> best_egress p (K true) fs = Some (tb, nb) ->
    (exists rides, admissible_fwd d s p acc egr rides tb) /\
    (forall rides t, admissible_fwd d s p acc egr rides t -> tb <= t).
  Proof.
    intros Hscan Hbest. split; [apply (F_sound_best all fs tb nb Hscan Hbest)|].
    intros rides t Hadm. destruct (F_complete_best all fs rides t Hscan Hadm) as (_ & t' & n' & E & Hle).
    rewrite Hbest in E. inversion E; subst t' n'. exact Hle.
  Qed.

  (* no result of the forward pass means no admissible journey *)
  Corollary F_no_route all fs :
    fwd_scan d p (K true) all = Ok fs -> (f_count fs = 0 \/ best_egress p (K true) fs = None) ->
    forall rides t, ~ admissible_fwd d s p acc egr rides t.
  Proof.
    intros Hscan Hno rides t Hadm. destruct (F_complete_best all fs rides t Hscan Hadm) as (Hc & t' & n' & E & _).
    destruct Hno as [Hz|Hn]; [contradiction|congruence].
  Qed.

  (* (F-usable) every trip ridden by a journey arriving no later than the selected arrival was entered by the
     forward scan (at a boardable connection b' of that trip) and is marked usable for the reverse pass *)
  Theorem F_usable all fs tb nb rides t :
    fwd_scan d p (K true) all = Ok fs -> best_egress p (K true) fs = Some (tb, nb) ->
    admissible_fwd d s p acc egr rides t -> t <= tb ->
    Forall (fun be => exists b', o_enter (f_ov fs (c_trip (fst be))) = Some b' /\
                                 o_usable (f_ov fs (c_trip (fst be))) = true /\
                                 c_trip b' = c_trip (fst be) /\ fwd_boardable d s p acc b') rides.
  Proof.
    intros Hscan Hbest Hadm Hle.
    apply (scan_usable d s p acc Hwf Hpar Hpos Hacc0 Haccnd (K true) all Hfw
                       (mk_calc_pre d s p acc egr true Haccnd Hfwd) Hegrnd Hegrrng fs tb nb rides t
                       Hscan Hbest Hadm Hle).
  Qed.

  (* the transfer count of forwardJourneyStepAllNodes / the forward label chain never exhausts its fuel *)
  Theorem F_count_terminates has_dest all fs n j :
    fwd_scan d p (K has_dest) all = Ok fs -> f_egr fs n = Some j ->
    count_transfers_fwd (REBUILD_FUEL d) d (f_steps fs) j (-1) <> None.
  Proof.
    intros Hscan Hj.
    apply (scan_count_terminates d s p acc Hwf Hpar Hpos Hacc0 Haccnd (K has_dest) all Hfw
                                 (mk_calc_pre d s p acc egr has_dest Haccnd Hfwd) fs n j Hscan Hj).
  Qed.

  (* the scan itself always answers *)
  Lemma F_scan_total has_dest all : exists fs, fwd_scan d p (K has_dest) all = Ok fs.
  Proof.
    apply fwd_scan_total.
    - apply conn_set_fwd_sorted.
    - intros c Hc. apply (conn_dep_clock d c Hwf (cs_fwd_in d s c Hc)).
    - reflexivity.
  Qed.
End Main.

(* ---------------------------------------------------------------------------------------------- *)
(* 7. calculateAllNodes for a departure query: C08 (declarative form) in full                          *)

Lemma nodup_nat_NoDup : forall l, nodup_nat l = true -> NoDup l.
Proof.
  induction l as [|x l IH]; intros H; [constructor|].
  cbn [nodup_nat] in H. apply andb_prop in H. destruct H as [H1 H2]. constructor; [|apply IH; exact H2].
  intros Hin. apply memb_In in Hin. rewrite Hin in H1. discriminate.
Qed.

Lemma fwd_allnodes_loop_total d p k fs :
  (forall n j, f_egr fs n = Some j -> count_transfers_fwd (REBUILD_FUEL d) d (f_steps fs) j (-1) <> None) ->
  forall nodes, exists l, fwd_allnodes_loop d p k fs nodes = Ok l.
Proof.
  intros Hct. induction nodes as [|n r IH]; cbn [fwd_allnodes_loop]; [exists []; reflexivity|].
  destruct (f_egr fs n) as [j|] eqn:Ej; [|exact IH].
  destruct (count_transfers_fwd (REBUILD_FUEL d) d (f_steps fs) j (-1)) as [ntr|] eqn:Ec;
    [|exfalso; apply (Hct n j Ej); exact Ec].
  destruct IH as (rest & Er). rewrite Er. cbn [bind].
  destruct (js_enter j); [|exists rest; reflexivity]. destruct (js_exit j) as [e|]; [|exists rest; reflexivity].
  destruct (c_arr e - k_dep k <=? q_maxtt p); eexists; reflexivity.
Qed.

Lemma fwd_allnodes_loop_spec d p k fs : forall nodes l, fwd_allnodes_loop d p k fs nodes = Ok l ->
  (forall a, In a l -> In (an_node a) nodes /\
     exists j b e, f_egr fs (an_node a) = Some j /\ js_enter j = Some b /\ js_exit j = Some e /\
                   an_time a = c_arr e /\ an_ttt a = c_arr e - k_dep k /\ c_arr e - k_dep k <= q_maxtt p) /\
  (forall n j b e, In n nodes -> f_egr fs n = Some j -> js_enter j = Some b -> js_exit j = Some e ->
     c_arr e - k_dep k <= q_maxtt p -> exists a, In a l /\ an_node a = n /\ an_time a = c_arr e) /\
  (NoDup nodes -> NoDup (map an_node l)).
Proof.
  induction nodes as [|n r IH]; intros l H; cbn [fwd_allnodes_loop] in H.
  - inversion H; subst l. split; [intros a []|]. split; [intros n j b e []|]. intros _. constructor.
  - assert (Hlift : forall l0, fwd_allnodes_loop d p k fs r = Ok l0 ->
        (forall a, In a l0 -> In (an_node a) (n :: r) /\
           exists j b e, f_egr fs (an_node a) = Some j /\ js_enter j = Some b /\ js_exit j = Some e /\
                         an_time a = c_arr e /\ an_ttt a = c_arr e - k_dep k /\ c_arr e - k_dep k <= q_maxtt p) /\
        (forall n' j b e, In n' r -> f_egr fs n' = Some j -> js_enter j = Some b -> js_exit j = Some e ->
           c_arr e - k_dep k <= q_maxtt p -> exists a, In a l0 /\ an_node a = n' /\ an_time a = c_arr e) /\
        (NoDup (n :: r) -> NoDup (map an_node l0) /\ ~ In n (map an_node l0))).
    { intros l0 H0. destruct (IH l0 H0) as (I1 & I2 & I3). split; [|split; [exact I2|]].
      - intros a Ha. destruct (I1 a Ha) as [Hn Hx]. split; [right; exact Hn|exact Hx].
      - intros Hnd. inversion Hnd as [|x xs Hnotin Hnd']; subst. split; [apply I3; exact Hnd'|].
        intros Hin. apply in_map_iff in Hin. destruct Hin as (a & Ea & Ha). destruct (I1 a Ha) as [Hn _].
        rewrite Ea in Hn. contradiction. }
    destruct (f_egr fs n) as [j|] eqn:Ej.
    + destruct (count_transfers_fwd (REBUILD_FUEL d) d (f_steps fs) j (-1)) as [ntr|]; [|discriminate].
      destruct (fwd_allnodes_loop d p k fs r) as [rest| | | | | | | |] eqn:Er; try discriminate.
      cbn [bind] in H. destruct (Hlift rest eq_refl) as (L1 & L2 & L3).
      assert (Hskip : l = rest ->
                (js_enter j = None \/ js_exit j = None \/
                 exists e, js_exit j = Some e /\ ~ c_arr e - k_dep k <= q_maxtt p) ->
                (forall a, In a l -> In (an_node a) (n :: r) /\
                   exists j b e, f_egr fs (an_node a) = Some j /\ js_enter j = Some b /\ js_exit j = Some e /\
                     an_time a = c_arr e /\ an_ttt a = c_arr e - k_dep k /\ c_arr e - k_dep k <= q_maxtt p) /\
                (forall n' j b e, In n' (n :: r) -> f_egr fs n' = Some j -> js_enter j = Some b ->
                   js_exit j = Some e -> c_arr e - k_dep k <= q_maxtt p ->
                   exists a, In a l /\ an_node a = n' /\ an_time a = c_arr e) /\
                (NoDup (n :: r) -> NoDup (map an_node l))).
      { intros El Hwhy. subst l. split; [exact L1|]. split; [|intros Hnd; apply (L3 Hnd)].
        intros n' j' b' e' [Hn|Hn] Hj' Hb' He' Hsp; [|apply (L2 n' j' b' e' Hn Hj' Hb' He' Hsp)].
        subst n'. rewrite Ej in Hj'. inversion Hj'; subst j'. exfalso.
        destruct Hwhy as [W|[W|(e0 & W1 & W2)]]; [congruence|congruence|].
        rewrite He' in W1. inversion W1; subst e0. contradiction. }
      destruct (js_enter j) as [b|] eqn:Eb; [|inversion H; apply Hskip; [first [reflexivity|congruence]|left; reflexivity]].
      destruct (js_exit j) as [e|] eqn:Ee; [|inversion H; apply Hskip; [first [reflexivity|congruence]|right; left; reflexivity]].
      destruct (Z.leb_spec (c_arr e - k_dep k) (q_maxtt p)) as [Hle|Hgt].
      2:{ inversion H. apply Hskip; [first [reflexivity|congruence]|]. right. right. exists e. split; [reflexivity|lia]. }
      inversion H; subst l. clear H. split; [|split].
      * intros a [Ha|Ha]; [|apply (L1 a Ha)]. subst a. cbn [an_node an_time an_ttt].
        split; [left; reflexivity|]. exists j, b, e. repeat (split; [first [reflexivity|assumption]|]). exact Hle.
      * intros n' j' b' e' [Hn|Hn] Hj' Hb' He' Hsp.
        -- subst n'. rewrite Ej in Hj'. inversion Hj'; subst j'. rewrite Ee in He'. inversion He'; subst e'.
           eexists. split; [left; reflexivity|]. split; reflexivity.
        -- destruct (L2 n' j' b' e' Hn Hj' Hb' He' Hsp) as (a & Ha & E1 & E2). exists a.
           split; [right; exact Ha|]. split; assumption.
      * intros Hnd. destruct (L3 Hnd) as [N1 N2]. cbn [map an_node]. constructor; assumption.
    + destruct (Hlift l H) as (L1 & L2 & L3). split; [exact L1|]. split; [|intros Hnd; apply (L3 Hnd)].
      intros n' j' b' e' [Hn|Hn] Hj' Hb' He' Hsp; [subst n'; congruence|apply (L2 n' j' b' e' Hn Hj' Hb' He' Hsp)].
Qed.

(* C08, declarative form, for every dataset / scenario / query / access table of its domain *)
Theorem C08_decl_proved : C08_decl_statement.
Proof.
  unfold C08_decl_statement. intros d s p rows Hwf _ Htab Hpar _ Hpos Hfwd Hfw.
  unfold C08_decl, access_answer, calc_allnodes. rewrite Hfwd.
  destruct rows as [|r0 rows'].
  { cbn [nonempty access_reason negb andb]. intros n t (ra & _ & [] & _). }
  set (rows := r0 :: rows') in *.
  change (access_reason (nonempty rows) true) with (@None nat). cbv zeta.
  set (K := mk_calc d p (conn_set d s) rows [] true false).
  assert (Ek : k_dep K = q_time p) by (unfold K, mk_calc; cbn [k_dep]; rewrite Hfwd; reflexivity).
  pose proof (wf_params_fields p Hpar) as (Hq & _).
  assert (Eg : (k_dep K >? -1) = true) by (apply Z.gtb_lt; lia). rewrite Eg.
  destruct (F_scan_total d s p rows [] Hwf false true) as (fs & Hscan). fold K in Hscan. rewrite Hscan. cbn [bind].
  destruct (f_count fs =? 0) eqn:Ec.
  { apply Z.eqb_eq in Ec.
    apply (F_allnodes_count_zero d s p rows [] Hwf Htab Hpar Hpos Hfwd Hfw false fs Hscan Ec). }
  destruct (fwd_allnodes_loop_total d p K fs
              (fun n j Hj => F_count_terminates d s p rows [] Hwf Htab Hpar Hpos Hfwd Hfw false true fs n j Hscan Hj)
              (d_nodes d)) as (l & El).
  rewrite El. cbn [bind].
  destruct (fwd_allnodes_loop_spec d p K fs (d_nodes d) l El) as (S1 & S2 & S3).
  split; [reflexivity|]. split.
  { apply S3. apply nodup_nat_NoDup. unfold wf_data_b in Hwf.
    peel Hwf X10. peel Hwf X9. peel Hwf X8. peel Hwf X7. peel Hwf X6. peel Hwf X5. peel Hwf X4. peel Hwf X3.
    peel Hwf X2. exact Hwf. }
  split.
  { intros a Ha. destruct (S1 a Ha) as (_ & j & b & e & _ & _ & _ & E1 & E2 & _). rewrite E1, E2, Ek. reflexivity. }
  intros n t. unfold earliest_alight. split.
  - intros Hin. apply in_map_iff in Hin. destruct Hin as (a & Ea & Ha). inversion Ea; subst n t.
    destruct (S1 a Ha) as (_ & j & b & e & Hj & Hb & He & E1 & _ & Hsp). rewrite Ek in Hsp.
    destruct (proj1 (F_allnodes_exact d s p rows [] Hwf Htab Hpar Hpos Hfwd Hfw false fs (an_node a) (an_time a) Hscan))
      as (A1 & A2 & A3).
    { exists j, b, e. rewrite E1. repeat (split; [first [reflexivity|assumption]|]). exact Hsp. }
    split; [split; assumption|exact A3].
  - intros [[A1 A2] A3].
    destruct (proj2 (F_allnodes_exact d s p rows [] Hwf Htab Hpar Hpos Hfwd Hfw false fs n t Hscan)
                    (conj A1 (conj A2 A3))) as (j & b & e & Hj & Hb & He & Et & Hsp).
    destruct (F_sound_egr d s p rows [] Hwf Htab Hpar Hpos Hfwd Hfw false true fs n j Hscan Hj)
      as (b' & e' & _ & He' & Hn & Hin & _).
    rewrite He in He'. inversion He'; subst e'.
    assert (Hnode : In n (d_nodes d)) by (rewrite <- Hn; apply (conn_to_node d e Hwf Hin)).
    destruct (S2 n j b e Hnode Hj Hb He) as (a & Ha & E1 & E2); [rewrite Ek, Et; exact Hsp|].
    apply in_map_iff. exists a. split; [|exact Ha]. rewrite E1, E2, Et. reflexivity.
Qed.

(* ---------------------------------------------------------------------------------------------- *)
(* 8. calculateSingle for a departure query: what the forward pass contributes to C03                 *)

Section Single.
  Variables (d : data) (s : scenario) (p : params) (acc egr : list fprow).
  Hypothesis Hwf : wf_data_b d = true.
  Hypothesis Htab : wf_tables_b d p acc egr = true.
  Hypothesis Hpar : wf_params_b p = true.
  Hypothesis Hpos : pos_hops_b d = true.
  Hypothesis Hfwd : q_fwd p = true.
  Hypothesis Hfw : q_maxfw p <= 0.

  Notation K := (mk_calc d p (conn_set d s) acc egr true true).

  (* when an admissible journey exists, calculateSingle gets through its forward pass with the optimal
     arrival and hands over to the reverse pass, every trip of every optimal journey being usable *)
  Theorem calc_single_fwd_phase fresh rides t : admissible_fwd d s p acc egr rides t ->
    exists fs best nb,
      fwd_scan d p K false = Ok fs /\ f_count fs <> 0 /\ best_egress p K fs = Some (best, nb) /\ best <= t /\
      (exists rides', admissible_fwd d s p acc egr rides' best) /\
      (forall rides' t', admissible_fwd d s p acc egr rides' t' -> best <= t') /\
      calc_single d (conn_set d s) p acc egr fresh =
        calc_reverse d p (with_rev K best (k_dep K)
                            (fold_left (fun m r => upd m (fp_node r) (best - fp_time r)) (k_egrfp K) (k_taur K))
                            (f_ov fs)).
  Proof.
    intros Hadm. destruct (F_scan_total d s p acc egr Hwf true false) as (fs & Hscan).
    destruct (F_complete_best d s p acc egr Hwf Htab Hpar Hpos Hfwd Hfw false fs rides t Hscan Hadm)
      as (Hc & best & nb & Hbest & Hle).
    destruct (F_best_optimal d s p acc egr Hwf Htab Hpar Hpos Hfwd Hfw false fs best nb Hscan Hbest) as [O1 O2].
    exists fs, best, nb. repeat (split; [assumption|]).
    destruct Hadm as [(ra & re & m & t' & Hra & Hre & _) _].
    assert (Ha : nonempty acc = true) by (destruct acc; [destruct Hra|reflexivity]).
    assert (He : nonempty egr = true) by (destruct egr; [destruct Hre|reflexivity]).
    assert (Ek : k_dep K = q_time p) by (unfold mk_calc; cbn [k_dep]; rewrite Hfwd; reflexivity).
    pose proof (wf_params_fields p Hpar) as (Hq & _).
    assert (Eg : (k_dep K >? -1) = true) by (apply Z.gtb_lt; lia).
    unfold calc_single. rewrite Ha, He, !orb_true_r. change (access_reason true true) with (@None nat).
    cbv zeta. rewrite Eg, Hfwd. cbn [andb]. rewrite Hscan. cbn [bind].
    destruct (Z.eqb_spec (f_count fs) 0) as [Hz|_]; [contradiction|]. rewrite Hbest. reflexivity.
  Qed.

  (* without an admissible journey calculateSingle answers a no-routing reason in (or before) its forward pass *)
  Theorem calc_single_fwd_none fresh : (forall rides t, ~ admissible_fwd d s p acc egr rides t) ->
    exists r, calc_single d (conn_set d s) p acc egr fresh = NoRouting r.
  Proof.
    intros Hno. unfold calc_single.
    destruct (access_reason (negb fresh || nonempty acc) (negb fresh || nonempty egr)) as [r|];
      [exists r; reflexivity|].
    assert (Ek : k_dep K = q_time p) by (unfold mk_calc; cbn [k_dep]; rewrite Hfwd; reflexivity).
    pose proof (wf_params_fields p Hpar) as (Hq & _).
    assert (Eg : (k_dep K >? -1) = true) by (apply Z.gtb_lt; lia).
    cbv zeta. rewrite Eg, Hfwd. cbn [andb].
    destruct (F_scan_total d s p acc egr Hwf true false) as (fs & Hscan). rewrite Hscan. cbn [bind].
    destruct (f_count fs =? 0); [eexists; reflexivity|].
    destruct (best_egress p K fs) as [[best nb]|] eqn:Hbest; [|eexists; reflexivity].
    exfalso. destruct (F_sound_best d s p acc egr Hwf Htab Hpar Hpos Hfwd Hfw false fs best nb Hscan Hbest)
      as (rides & Hadm). apply (Hno rides best Hadm).
  Qed.

  (* a no-routing answer produced by the forward pass is justified *)
  Theorem calc_single_fwd_noroute fs :
    fwd_scan d p K false = Ok fs -> (f_count fs = 0 \/ best_egress p K fs = None) ->
    forall rides t, ~ admissible_fwd d s p acc egr rides t.
  Proof. apply (F_no_route d s p acc egr Hwf Htab Hpar Hpos Hfwd Hfw false). Qed.
End Single.

(* ---------------------------------------------------------------------------------------------- *)
(* 9. what the reverse pass after the forward pass needs (C05): every ride of a journey that leaves the     *)
(*    origin at or after the requested time and arrives by the selected arrival is on a usable trip         *)

Lemma reaches_start_earlier d s p n t rides m t' t0 :
  reaches d s p n t rides m t' -> t0 <= t -> reaches d s p n t0 rides m t'.
Proof.
  intros H Hle. destruct H as [n t b e Hr Hf Ht|n t b e w n' rest m t' Hr Hf Ht Hrow Hw Hrest].
  - apply reaches_last; [exact Hr|exact Hf|lia].
  - apply (reaches_cons d s p n t0 b e w n' rest m t'); try assumption. lia.
Qed.

Theorem F_usable_journey d s p acc egr fs best n0 dep0 rides arr :
  wf_data_b d = true -> wf_tables_b d p acc egr = true -> wf_params_b p = true -> pos_hops_b d = true ->
  q_fwd p = true -> q_maxfw p <= 0 ->
  fwd_scan d p (mk_calc d p (conn_set d s) acc egr true true) false = Ok fs ->
  best_egress p (mk_calc d p (conn_set d s) acc egr true true) fs = Some (best, n0) ->
  journey d s p acc egr dep0 rides arr -> q_time p <= dep0 -> arr <= best ->
  forall b e, In (b, e) rides ->
    o_usable (f_ov fs (c_trip b)) = true /\
    exists b', o_enter (f_ov fs (c_trip b)) = Some b' /\ c_trip b' = c_trip b /\ fwd_boardable d s p acc b'.
Proof.
  intros Hwf Htab Hpar Hpos Hfwd Hfw Hscan Hbest (ra & re & m & t' & Hra & Hre & Hreach & Hm & Ha) Hdep Harr b e Hin.
  assert (Hadm : admissible_fwd d s p acc egr rides arr).
  { split.
    - exists ra, re, m, t'. repeat (split; [assumption|]).
      split; [|split; assumption]. apply (reaches_start_earlier _ _ _ _ _ _ _ _ _ Hreach). lia.
    - pose proof (best_egress_bound p _ fs best n0 Hbest) as Hb.
      assert (Ek : k_dep (mk_calc d p (conn_set d s) acc egr true true) = q_time p)
        by (unfold mk_calc; cbn [k_dep]; rewrite Hfwd; reflexivity).
      rewrite Ek in Hb. lia. }
  pose proof (F_usable d s p acc egr Hwf Htab Hpar Hpos Hfwd Hfw false fs best n0 rides arr Hscan Hbest Hadm Harr) as HF.
  rewrite Forall_forall in HF. destruct (HF (b, e) Hin) as (b' & H1 & H2 & H3 & H4). cbn [fst] in *.
  split; [exact H2|]. exists b'. repeat (split; [assumption|]). exact H4.
Qed.

(* ---------------------------------------------------------------------------------------------- *)
(* non-vacuity: the hypotheses hold on the example data, both scans answer, and the selected arrival    *)
(* / the accessibility map are the ones the theorems speak of                                         *)

From TrV Require Import Examples.
Example fwd_opt_nonvacuous :
  wf_data_b ex_data = true /\ pos_hops_b ex_data = true /\
  wf_tables_b ex_data (ex_params true 35000) ex_acc ex_egr = true /\
  wf_tables_b ex_data (ex_params true 35000) ex_acc [] = true /\
  wf_params_b (ex_params true 35000) = true /\ q_fwd (ex_params true 35000) = true /\
  q_maxfw (ex_params true 35000) <= 0 /\
  (match fwd_scan ex_data (ex_params true 35000)
           (mk_calc ex_data (ex_params true 35000) (conn_set ex_data scen_all) ex_acc ex_egr true true) false with
   | Ok fs => best_egress (ex_params true 35000)
                (mk_calc ex_data (ex_params true 35000) (conn_set ex_data scen_all) ex_acc ex_egr true true) fs
              = Some (36750, 4%nat) /\ f_count fs = 4
   | _ => False
   end) /\
  (match calc_allnodes ex_data (conn_set ex_data scen_all) (ex_params true 35000) ex_acc with
   | Ok (l, total) => map (fun a => (an_node a, an_time a)) l = [(2%nat, 36300); (3%nat, 36900); (4%nat, 36700)]
                      /\ total = 4
   | _ => False
   end).
Proof. vm_compute. repeat split; try reflexivity; discriminate. Qed.

Print Assumptions F_sound_egr.
Print Assumptions F_complete_allnodes.
Print Assumptions F_allnodes_count_zero.
Print Assumptions F_allnodes_exact.
Print Assumptions F_sound_best.
Print Assumptions F_complete_best.
Print Assumptions F_best_optimal.
Print Assumptions F_no_route.
Print Assumptions F_usable.
Print Assumptions F_count_terminates.
Print Assumptions C08_decl_proved.
Print Assumptions calc_single_fwd_phase.
Print Assumptions calc_single_fwd_none.
Print Assumptions calc_single_fwd_noroute.
Print Assumptions F_usable_journey.

(* OPEN: nothing of the requested statements is open.
   (F-sound-egr), (F-complete-allnodes), (F-sound-best), (F-complete-best), (F-usable) are proved in the general
   form (any q_except_lines, via RevInv.admitted_bridge), for the calculators mk_calc .. acc egr true has_dest that
   calc_single (has_dest = true) and calc_allnodes (egr = [], has_dest = false) build.
   Beyond the request: C08_decl_statement (Optimal.v) is proved in full (C08_decl_proved), including that the
   transfer count over the forward label chain never exhausts REBUILD_FUEL (no Hang).
   Not covered here (belongs to the reverse pass / composition): that calc_reverse, started from the state
   calc_single_fwd_phase describes, answers a route with rt_arr = best (C03_decl in full). *)
