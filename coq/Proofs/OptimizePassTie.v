(* OptimizePassTie.v — part 2 of the tie of Calculator::optimizeJourney: one pass of the `while` loop, and the loop.
   The statement tree gen_opt_pass (with the blocks gen_opt_blockN and loop bodies gen_opt_bodyN), the statements before the loop gen_opt_before and
   the loop condition gen_opt_continue are regenerated from optimize_journey.cpp; interpreted by Optimize.orun / owhile they
   compute the model's `optimize` (Journey.v). *)
From Coq Require Import List ZArith Bool Lia ZifyBool.
From TrV Require Import Scan Journey.
Require Import TrV.Optimize.
Require TrV.gen.Optimize.
Require Import TrV.Proofs.OptimizeTie.
Import ListNotations.
Local Open Scope Z_scope.
Local Open Scope bool_scope.

(* ---------------------------------------------------------------------------------------------- *)
(* the detection statement                                                                          *)

Lemma detect_run_code g cases d ign : forall js idx prev,
  option_map (fun x => fst (fst x)) (detect_run g cases d ign js idx prev) = detect_code g cases d ign js idx prev.
Proof.
  induction js as [|j r IH]; intros idx prev; cbn [detect_run detect_code option_map fst]; [reflexivity|].
  destruct (leg_summary_code g d j) as [[sj|]|]; [| apply IH | reflexivity].
  destruct (detect_inner_code cases ign prev 0 sj) as [[[cs n] i]|]; [reflexivity | apply IH].
Qed.

Lemma detect_run_tie d ign js idx prev : Forall seqs_ok js ->
  option_map (fun x => fst (fst x)) (detect_run GO.gen_opt_leg GO.gen_opt_cases d ign js idx prev) = detect d ign js idx prev.
Proof. intros H. rewrite detect_run_code. symmetry. apply detect_tie. exact H. Qed.

(* what the model's detection returns: a case 1..4, and from < to *)
Lemma detect_pair_case ign si sj cs n : detect_pair ign si sj = Some (cs, n) -> (1 <= cs <= 4)%nat.
Proof.
  unfold detect_pair. destruct (ls_last sj) as [lj|]; [|discriminate].
  repeat match goal with
         | |- context [if ?c then _ else _] => destruct c
         | |- context [match ?x with Some _ => _ | None => _ end] => destruct x
         end; intros H; inversion H; lia.
Qed.

Lemma detect_inner_lt ign sj : forall prev i cs n k, detect_inner ign prev i sj = Some (cs, n, k) ->
  (1 <= cs <= 4)%nat /\ (i <= k < i + length prev)%nat.
Proof.
  induction prev as [|si r IH]; intros i cs n k; cbn [detect_inner length]; [discriminate|].
  destruct (detect_pair ign si sj) as [[cs' n']|] eqn:E.
  - intros H. inversion H; subst. split; [exact (detect_pair_case _ _ _ _ _ E)|lia].
  - intros H. apply IH in H. lia.
Qed.

Lemma detect_hit d ign : forall js idx prev cs n i j, length prev = idx ->
  detect d ign js idx prev = Some (Some (cs, n, i, j)) -> (1 <= cs <= 4)%nat /\ (i < j)%nat.
Proof.
  induction js as [|x r IH]; intros idx prev cs n i j Hl; cbn [detect]; [discriminate|].
  destruct (leg_summary d x) as [[sj|]|]; [| apply IH; rewrite app_length; cbn; lia | discriminate].
  destruct (detect_inner ign prev 0 sj) as [[[cs' n'] k]|] eqn:E.
  - intros H. inversion H; subst. apply detect_inner_lt in E. lia.
  - apply IH. rewrite app_length. cbn. lia.
Qed.

(* ---------------------------------------------------------------------------------------------- *)
(* journey updates made one statement at a time                                                     *)

Lemma set_nth_twice {A} (f g : A -> A) : forall l i, set_nth (set_nth l i f) i g = set_nth l i (fun x => g (f x)).
Proof. induction l as [|x l IH]; intros [|i]; cbn [set_nth]; try reflexivity. rewrite IH. reflexivity. Qed.

Lemma set_nth_swap {A} (f g : A -> A) : forall l i j, i <> j -> set_nth (set_nth l i f) j g = set_nth (set_nth l j g) i f.
Proof.
  induction l as [|x l IH]; intros [|i] [|j] H; cbn [set_nth]; try reflexivity; try congruence.
  rewrite IH by congruence. reflexivity.
Qed.

Lemma set_nth_length {A} (f : A -> A) : forall l i, length (set_nth l i f) = length l.
Proof. induction l as [|x l IH]; intros [|i]; cbn [set_nth length]; try reflexivity. rewrite IH. reflexivity. Qed.

Lemma firstn_set_nth {A} (f : A -> A) : forall l i a, (i < a)%nat -> firstn a (set_nth l i f) = set_nth (firstn a l) i f.
Proof.
  induction l as [|x l IH]; intros i a H; [destruct a; destruct i; reflexivity|].
  destruct a as [|a]; [lia|]. destruct i as [|i]; cbn [set_nth firstn]; [reflexivity|]. rewrite IH by lia. reflexivity.
Qed.

Lemma skipn_set_nth {A} (f : A -> A) : forall l i b, (i < b)%nat -> skipn b (set_nth l i f) = skipn b l.
Proof.
  induction l as [|x l IH]; intros i b H; [destruct b; destruct i; reflexivity|].
  destruct b as [|b]; [lia|]. destruct i as [|i]; cbn [set_nth skipn]; [reflexivity|]. apply IH. lia.
Qed.

Lemma set_nth_app_l {A} (f : A -> A) : forall l r i, (i < length l)%nat -> set_nth (l ++ r) i f = set_nth l i f ++ r.
Proof.
  induction l as [|x l IH]; intros r i H; cbn [length] in H; [lia|].
  destruct i as [|i]; cbn [set_nth app]; [reflexivity|]. rewrite IH by lia. reflexivity.
Qed.

(* setting step i after erasing [a, b) with i < a <= b is erasing after setting, when step i exists *)
Lemma set_nth_erase {A} (f : A -> A) l i a b : (i < a)%nat -> (a <= b)%nat ->
  set_nth (erase_range l a b) i f = erase_range (set_nth l i f) a b.
Proof.
  intros Hi Hab. unfold erase_range. rewrite (firstn_set_nth f l i a Hi), (skipn_set_nth f l i b) by lia.
  destruct (Nat.lt_ge_cases i (length (firstn a l))) as [H|H].
  - apply set_nth_app_l. exact H.
  - (* step i does not exist: nothing is set on either side *)
    rewrite firstn_length in H.
    assert (Hl : (length l <= i)%nat) by lia.
    assert (Hs : forall (k : list A) n, (length k <= n)%nat -> set_nth k n f = k).
    { induction k as [|y k IHk]; intros [|n] Hn; cbn [set_nth length] in *; try reflexivity; try lia. rewrite IHk by lia. reflexivity. }
    rewrite (Hs (firstn a l) i) by (rewrite firstn_length; lia).
    apply Hs. rewrite app_length, firstn_length, skipn_length. lia.
Qed.

(* ---------------------------------------------------------------------------------------------- *)
(* the loops over reverseConnections: index arithmetic                                              *)

(* the connections visited, in order, with `break` and `continue` as the two continuations of a round *)
Fixpoint range_fold (step : conn -> omach -> (omach -> ores) -> (omach -> ores) -> ores)
         (rng : list conn) (m : omach) (kont : omach -> ores) : ores :=
  match rng with
  | [] => kont m
  | c :: r => step c m (fun m' => range_fold step r m' kont) kont
  end.

Lemma rev_range_0 tr sz e : rev_range tr sz e 0 = Some [].
Proof. destruct e; reflexivity. Qed.
Lemma rev_range_S tr sz e cnt : rev_range tr sz e (S cnt) =
  match nth_error tr (sz - 1 - e)%nat with
  | None => None
  | Some c => match e with
              | O => match cnt with O => Some [c] | _ => None end
              | S e' => match rev_range tr sz e' cnt with None => None | Some r => Some (c :: r) end
              end
  end.
Proof. destruct e; reflexivity. Qed.

Lemma rev_range_some tr : tr <> [] -> forall cnt e, (cnt <= S e)%nat -> exists r, rev_range tr (length tr) e cnt = Some r.
Proof.
  intros Hne. induction cnt as [|cnt IH]; intros e Hc; [rewrite rev_range_0; eexists; reflexivity|]. rewrite rev_range_S.
  destruct (nth_error tr (length tr - 1 - e)) as [c|] eqn:En.
  - destruct e as [|e]; [destruct cnt; [eexists; reflexivity|lia]|].
    destruct (IH e ltac:(lia)) as [r Hr]. rewrite Hr. eexists; reflexivity.
  - apply nth_error_None in En. destruct tr; [congruence|cbn [length] in En; lia].
Qed.

Section RangeLoop.
  Variable tr : list conn.
  Variable cont : Z -> omach -> bool.
  Variable step : conn -> omach -> (omach -> ores) -> (omach -> ores) -> ores.
  Variable last : Z.
  Variable I : omach -> Prop.
  Hypothesis Hcont : forall idx m, I m -> cont idx m = (idx <=? last).
  (* a round goes on only with machines in I *)
  Hypothesis Hstep : forall c m kc kc' kb, I m -> (forall m', I m' -> kc m' = kc' m') -> step c m kc kb = step c m kc' kb.

  Lemma range_loop_empty fuel idx m kont : I m -> last < idx -> range_loop tr cont step (S fuel) idx m kont = kont m.
  Proof. intros Hi Hl. cbn [range_loop]. rewrite (Hcont idx m Hi). replace (idx <=? last) with false by lia. reflexivity. Qed.

  (* sequenceIdx = size-1-e .. size-1-e+cnt-1 visits reverseConnections[size-1-s] for s = e downto e-cnt+1 *)
  Lemma range_loop_fold kont : forall cnt e fuel m, I m -> (cnt <= S e)%nat -> (cnt < fuel)%nat ->
    last = Z.of_nat (length tr) - 1 - Z.of_nat e + Z.of_nat cnt - 1 ->
    range_loop tr cont step fuel (Z.of_nat (length tr) - 1 - Z.of_nat e) m kont
    = match rev_range tr (length tr) e cnt with None => OUB | Some rng => range_fold step rng m kont end.
  Proof.
    induction cnt as [|cnt IH]; intros e fuel m Hi Hc Hf Hl; (destruct fuel as [|fuel]; [lia|]).
    - rewrite rev_range_0. cbn [range_fold]. apply range_loop_empty; [exact Hi|lia].
    - rewrite rev_range_S. cbn [range_loop]. rewrite (Hcont _ m Hi).
      replace (Z.of_nat (length tr) - 1 - Z.of_nat e <=? last) with true by lia.
      replace (Z.to_nat (Z.of_nat (length tr) - 1 - Z.of_nat e)) with (length tr - 1 - e)%nat by lia.
      destruct (nth_error tr (length tr - 1 - e)) as [c|] eqn:En; [|reflexivity].
      destruct e as [|e].
      + destruct cnt as [|cnt]; [|lia]. cbn [range_fold]. apply Hstep; [exact Hi|].
        intros m' Hi'. destruct fuel as [|fuel]; [lia|]. apply range_loop_empty; [exact Hi'|lia].
      + assert (Hne : tr <> []) by (intros ->; destruct (length [] - 1 - S e)%nat; discriminate).
        destruct (rev_range_some tr Hne cnt e ltac:(lia)) as [r Hr]. 
        pose proof (fun m' (Hm : I m') => IH e fuel m' Hm ltac:(lia) ltac:(lia) ltac:(lia)) as IH'.
        rewrite Hr in IH' |- *. cbn [range_fold]. apply Hstep; [exact Hi|].
        intros m' Hi'. rewrite <- (IH' m' Hi'). f_equal. lia.
  Qed.
End RangeLoop.

(* ---------------------------------------------------------------------------------------------- *)
(* the loops over reverseConnections: which connection is acted on                                  *)

Section FirstMatch.
  Variable step : conn -> omach -> (omach -> ores) -> (omach -> ores) -> ores.
  Variable P : conn -> bool.
  Variable Inv : omach -> Prop.
  Hypothesis Hinv : forall c m, Inv m -> Inv (set_o_conn c m).
  Hypothesis Hskip : forall c m kc kb, Inv m -> P c = false -> step c m kc kb = kc (set_o_conn c m).
  Hypothesis Hhit : forall c m kc kc' kb, Inv m -> P c = true -> step c m kc kb = step c m kc' kb.
  Hypothesis Hconn : forall c c' m kc kb, step c (set_o_conn c' m) kc kb = step c m kc kb.

  (* a loop whose rounds do nothing until the first connection satisfying P, and leave the loop there *)
  Lemma fold_first kont : (forall c m, kont (set_o_conn c m) = kont m) -> forall rng m, Inv m ->
    range_fold step rng m kont = match find P rng with None => kont m | Some c => step c m (fun _ => OStuck) kont end.
  Proof.
    intros Hk. induction rng as [|c r IH]; intros m Hi; cbn [range_fold find]; [reflexivity|].
    destruct (P c) eqn:Ep.
    - apply Hhit; assumption.
    - rewrite (Hskip c m _ _ Hi Ep), (IH _ (Hinv c m Hi)).
      destruct (find P r) as [c'|]; [apply Hconn|apply Hk].
  Qed.
End FirstMatch.

Definition bstep (d : data) (leg : opt_leg) (cases : list opt_case) (body : oskel)
  : conn -> omach -> (omach -> ores) -> (omach -> ores) -> ores :=
  fun c m' kc kb => orun d leg cases body (set_o_conn c m') kc kb.

Ltac ofields := cbn [o_journey o_used o_ign o_case o_started o_idx o_from o_to o_node o_lastn o_between o_exit o_conn
                     o_t1 o_t2 o_s1 o_e1 o_s2 o_e2 o_nodev o_step
                     set_o_journey set_o_used set_o_ign set_o_case set_o_started set_o_idx set_o_from set_o_to set_o_node
                     set_o_lastn set_o_between set_o_exit set_o_conn set_o_t1 set_o_t2 set_o_s1 set_o_e1 set_o_s2 set_o_e2].
Tactic Notation "ofields_in" hyp(H) :=
  cbn [o_journey o_used o_ign o_case o_started o_idx o_from o_to o_node o_lastn o_between o_exit o_conn
       o_t1 o_t2 o_s1 o_e1 o_s2 o_e2
       set_o_journey set_o_used set_o_ign set_o_case set_o_started set_o_idx set_o_from set_o_to set_o_node
       set_o_lastn set_o_between set_o_exit set_o_conn set_o_t1 set_o_t2 set_o_s1 set_o_e1 set_o_s2 set_o_e2] in H.
(* optimizationNode.value() and journey[i] do not depend on the other variables *)
Ltac onode := repeat match goal with
                     | |- context [o_nodev (?f ?x ?m)] => progress change (o_nodev (f x m)) with (o_nodev m)
                     | |- context [o_step (?f ?x ?m) ?i] => progress change (o_step (f x m) i) with (o_step m i)
                     end.
Ltac orun_with defs := lazy beta iota zeta delta [bstep orun zset wclear tset tget side_conn side_set src_conn defs].

Section Bodies.
  Variable d : data.
  Variable leg : opt_leg.
  Variable cases : list opt_case.

  (* rounds of the five loops go on (`continue` continuation) only with the block's variables unchanged *)
  Definition frame (m0 m : omach) : Prop :=
    o_s1 m = o_s1 m0 /\ o_s2 m = o_s2 m0 /\ o_node m = o_node m0.

  Lemma frame_conn m0 c m : frame m0 m -> frame m0 (set_o_conn c m).
  Proof. intros H. exact H. Qed.

  Lemma body1_step m0 c m kc kc' kb : frame m0 m -> (forall m', frame m0 m' -> kc m' = kc' m') ->
    bstep d leg cases GO.gen_opt_body1 c m kc kb = bstep d leg cases GO.gen_opt_body1 c m kc' kb.
  Proof.
    intros Hf Hk. orun_with GO.gen_opt_body1. ofields. onode.
    destruct (Nat.eqb (o_nodev m) (c_to c)); [destruct (negb (c_cu c)); reflexivity|]. apply Hk. exact Hf.
  Qed.
  Lemma body2_step m0 c m kc kc' kb : frame m0 m -> (forall m', frame m0 m' -> kc m' = kc' m') ->
    bstep d leg cases GO.gen_opt_body2 c m kc kb = bstep d leg cases GO.gen_opt_body2 c m kc' kb.
  Proof.
    intros Hf Hk. orun_with GO.gen_opt_body2. ofields. onode.
    destruct (Nat.eqb (o_nodev m) (c_from c)); [destruct (negb (c_cb c)); reflexivity|]. apply Hk. exact Hf.
  Qed.
  Lemma body3_step m0 c m kc kc' kb : frame m0 m -> (forall m', frame m0 m' -> kc m' = kc' m') ->
    bstep d leg cases GO.gen_opt_body3 c m kc kb = bstep d leg cases GO.gen_opt_body3 c m kc' kb.
  Proof.
    intros Hf Hk. orun_with GO.gen_opt_body3. ofields. onode.
    destruct (Nat.eqb (o_nodev m) (c_to c)); [destruct (negb (c_cu c)); reflexivity|]. apply Hk. exact Hf.
  Qed.
  Lemma body4_step m0 c m kc kc' kb : frame m0 m -> (forall m', frame m0 m' -> kc m' = kc' m') ->
    bstep d leg cases GO.gen_opt_body4 c m kc kb = bstep d leg cases GO.gen_opt_body4 c m kc' kb.
  Proof.
    intros Hf Hk. orun_with GO.gen_opt_body4. ofields. onode.
    destruct (Nat.eqb (o_nodev m) (c_to c)); [destruct (c_cu c); [|reflexivity]|]; apply Hk; exact Hf.
  Qed.
  Lemma body5_step m0 c m kc kc' kb : frame m0 m -> (forall m', frame m0 m' -> kc m' = kc' m') ->
    bstep d leg cases GO.gen_opt_body5 c m kc kb = bstep d leg cases GO.gen_opt_body5 c m kc' kb.
  Proof.
    intros Hf Hk. orun_with GO.gen_opt_body5. ofields. onode.
    destruct (Nat.eqb (o_nodev m) (c_from c)); [destruct (is_some (o_exit m) && c_cb c); [destruct (o_exit m)|]; reflexivity|].
    apply Hk. exact Hf.
  Qed.
  (* rounds that do not concern the stop looked for go on; the round that does leaves the loop *)
  Lemma body1_skip c m kc kb : Nat.eqb (o_nodev m) (c_to c) = false ->
    bstep d leg cases GO.gen_opt_body1 c m kc kb = kc (set_o_conn c m).
  Proof. intros H. orun_with GO.gen_opt_body1. ofields. onode. rewrite H. reflexivity. Qed.
  Lemma body1_hit c m kc kc' kb : Nat.eqb (o_nodev m) (c_to c) = true ->
    bstep d leg cases GO.gen_opt_body1 c m kc kb = bstep d leg cases GO.gen_opt_body1 c m kc' kb.
  Proof. intros H. orun_with GO.gen_opt_body1. ofields. onode. rewrite H. destruct (negb (c_cu c)); reflexivity. Qed.
  Lemma body2_skip c m kc kb : Nat.eqb (o_nodev m) (c_from c) = false ->
    bstep d leg cases GO.gen_opt_body2 c m kc kb = kc (set_o_conn c m).
  Proof. intros H. orun_with GO.gen_opt_body2. ofields. onode. rewrite H. reflexivity. Qed.
  Lemma body2_hit c m kc kc' kb : Nat.eqb (o_nodev m) (c_from c) = true ->
    bstep d leg cases GO.gen_opt_body2 c m kc kb = bstep d leg cases GO.gen_opt_body2 c m kc' kb.
  Proof. intros H. orun_with GO.gen_opt_body2. ofields. onode. rewrite H. destruct (negb (c_cb c)); reflexivity. Qed.
  Lemma body3_skip c m kc kb : Nat.eqb (o_nodev m) (c_to c) = false ->
    bstep d leg cases GO.gen_opt_body3 c m kc kb = kc (set_o_conn c m).
  Proof. intros H. orun_with GO.gen_opt_body3. ofields. onode. rewrite H. reflexivity. Qed.
  Lemma body3_hit c m kc kc' kb : Nat.eqb (o_nodev m) (c_to c) = true ->
    bstep d leg cases GO.gen_opt_body3 c m kc kb = bstep d leg cases GO.gen_opt_body3 c m kc' kb.
  Proof. intros H. orun_with GO.gen_opt_body3. ofields. onode. rewrite H. destruct (negb (c_cu c)); reflexivity. Qed.
  Lemma body5_skip c m kc kb : Nat.eqb (o_nodev m) (c_from c) = false ->
    bstep d leg cases GO.gen_opt_body5 c m kc kb = kc (set_o_conn c m).
  Proof. intros H. orun_with GO.gen_opt_body5. ofields. onode. rewrite H. reflexivity. Qed.
  Lemma body5_hit c m kc kc' kb : Nat.eqb (o_nodev m) (c_from c) = true ->
    bstep d leg cases GO.gen_opt_body5 c m kc kb = bstep d leg cases GO.gen_opt_body5 c m kc' kb.
  Proof.
    intros H. orun_with GO.gen_opt_body5. ofields. onode. rewrite H.
    destruct (is_some (o_exit m) && c_cb c); [destruct (o_exit m)|]; reflexivity.
  Qed.
End Bodies.

(* ---------------------------------------------------------------------------------------------- *)
(* the four rewrite blocks                                                                          *)

(* what the rest of the function can see of the variables after a pass *)
Definition obs (m : omach) := (o_journey m, o_used m, o_ign m, o_case m, o_started m).
(* the run went on with the continuation, on variables that look like this *)
Definition ends_with (r : ores) (kont : omach -> ores) (o : list jstep * list nat * list nat * Z * bool) : Prop :=
  exists m', r = kont m' /\ obs m' = o.

Lemma range_loop_leg tr step (sv : omach -> Z) (I : omach -> Prop) (s e : nat) (eZ : Z) :
  eZ = Z.of_nat e -> (forall m', I m' -> sv m' = Z.of_nat s) ->
  (forall c m kc kc' kb, I m -> (forall m', I m' -> kc m' = kc' m') -> step c m kc kb = step c m kc' kb) ->
  forall m kk, I m ->
  range_loop tr (fun idx m' => idx <=? Z.of_nat (length tr) - 1 - sv m') step
             (Z.to_nat (Z.of_nat (length tr) - (Z.of_nat (length tr) - 1 - eZ) + 1)) (Z.of_nat (length tr) - 1 - eZ) m kk
  = match (if Nat.ltb e s then Some [] else rev_range tr (length tr) e (e - s + 1)) with
    | None => OUB
    | Some rng => range_fold step rng m kk
    end.
Proof.
  intros -> Hsv Hstep m kk Hi.
  assert (Hcont : forall idx m', I m' -> (idx <=? Z.of_nat (length tr) - 1 - sv m') = (idx <=? Z.of_nat (length tr) - 1 - Z.of_nat s)).
  { intros idx m' Hm. rewrite (Hsv m' Hm). reflexivity. }
  replace (Z.to_nat (Z.of_nat (length tr) - (Z.of_nat (length tr) - 1 - Z.of_nat e) + 1)) with (S (S e)) by lia.
  destruct (Nat.ltb e s) eqn:El.
  - cbn [range_fold].
    apply (range_loop_empty tr _ step (Z.of_nat (length tr) - 1 - Z.of_nat s) I Hcont (S e) _ m kk Hi). lia.
  - apply (range_loop_fold tr _ step (Z.of_nat (length tr) - 1 - Z.of_nat s) I Hcont Hstep kk (e - s + 1) e (S (S e)) m Hi); lia.
Qed.

Section Equations.
  Variable d : data.
  Variable leg : opt_leg.
  Variable cases : list opt_case.
  Notation run := (orun d leg cases).
  Lemma orun_done m k kb : run ODone m k kb = k m. Proof. reflexivity. Qed.
  Lemma orun_break m k kb : run OBreak m k kb = kb m. Proof. reflexivity. Qed.
  Lemma orun_setz v f s m k kb : run (OSetZ v f s) m k kb = run s (zset v (f m) m) k kb. Proof. reflexivity. Qed.
  Lemma orun_setseq v sd at_ f s m k kb : run (OSetSeq v sd at_ f s) m k kb =
    match side_conn sd (o_step m (at_ m)) with None => OUB | Some c => run s (zset v (f (Z.of_nat (c_seq c))) m) k kb end.
  Proof. reflexivity. Qed.
  Lemma orun_settrip t at_ s m k kb : run (OSetTrip t at_ s) m k kb =
    match js_trip (o_step m (at_ m)) with None => OUB | Some tr => run s (tset t tr m) k kb end.
  Proof. reflexivity. Qed.
  Lemma orun_setstarted f s m k kb : run (OSetStarted f s) m k kb = run s (set_o_started (f m) m) k kb. Proof. reflexivity. Qed.
  Lemma orun_setnode f s m k kb : run (OSetNode f s) m k kb = run s (set_o_node (f m) m) k kb. Proof. reflexivity. Qed.
  Lemma orun_setexit f s m k kb : run (OSetExit f s) m k kb = run s (set_o_exit (f m) m) k kb. Proof. reflexivity. Qed.
  Lemma orun_clear w s m k kb : run (OClear w s) m k kb = run s (wclear w m) k kb. Proof. reflexivity. Qed.
  Lemma orun_detect s m k kb : run (ODetect s) m k kb = detect_stmt d leg cases m (fun m' => run s m' k kb). Proof. reflexivity. Qed.
  Lemma orun_if g th el s m k kb : run (OIf g th el s) m k kb =
    if g m then run th m (fun m' => run s m' k kb) kb else run el m (fun m' => run s m' k kb) kb.
  Proof. reflexivity. Qed.
  Lemma orun_range t first cont body s m k kb : run (ORange t first cont body s) m k kb =
    range_loop (trip_rev d (tget t m)) (fun idx m' => cont idx (Z.of_nat (length (trip_rev d (tget t m)))) m')
               (bstep d leg cases body)
               (Z.to_nat (Z.of_nat (length (trip_rev d (tget t m))) - first (Z.of_nat (length (trip_rev d (tget t m)))) m + 1))
               (first (Z.of_nat (length (trip_rev d (tget t m)))) m) m
               (fun m' => run s (set_o_conn (o_conn m) m') k kb).
  Proof. reflexivity. Qed.
End Equations.

Ltac ostep := repeat first [ rewrite orun_done | rewrite orun_break | rewrite orun_setz | rewrite orun_setseq | rewrite orun_settrip
                           | rewrite orun_setstarted | rewrite orun_setnode | rewrite orun_setexit | rewrite orun_clear
                           | rewrite orun_detect | rewrite orun_if | rewrite orun_range ].

Ltac onorm := unfold zset, tset, tget, wclear, side_conn, side_set, src_conn; ofields; onode; unfold o_step.

Section Blocks.
  Variable d : data.
  Variable leg : opt_leg.
  Variable cases : list opt_case.

  Lemma block1_tie m kont kb from to node : 
    o_from m = Z.of_nat from -> o_to m = Z.of_nat to -> o_node m = Some node -> (from < to)%nat ->
    seqs_ok (nth_js (o_journey m) from) ->
    forall r, r = orun d leg cases GO.gen_opt_block1 m kont kb ->
    match leg_range d (nth_js (o_journey m) from) with
    | None => r = OUB
    | Some rng =>
        match find (fun c => Nat.eqb node (c_to c)) rng with
        | None => ends_with r kont (obs m)
        | Some c =>
            if negb (c_cu c) then ends_with r kont (obs (set_o_ign (o_ign m ++ [node]) m))
            else let wt := nth_js (o_journey m) to in
                 let js1 := set_nth (o_journey m) from (fun j => set_exit (set_walk j (js_walk wt) (js_dist wt)) c) in
                 ends_with r kont (obs (set_o_used (o_used m ++ [1%nat]) (set_o_journey (erase_range js1 (S from) (S to)) m)))
        end
    end.
  Proof.
    intros Hfrom Hto Hnode Hlt [Hen Hex] r ->.
    unfold GO.gen_opt_block1, leg_range.
    rewrite orun_settrip. onorm. rewrite Hfrom, Nat2Z.id.
    destruct (js_trip (nth_js (o_journey m) from)) as [t|]; [|reflexivity].
    rewrite orun_setseq. onorm. rewrite Hfrom, Nat2Z.id.
    destruct (js_enter (nth_js (o_journey m) from)) as [en|]; [|reflexivity].
    rewrite orun_setseq. onorm. rewrite Hfrom, Nat2Z.id.
    destruct (js_exit (nth_js (o_journey m) from)) as [ex|]; [|reflexivity].
    specialize (Hen en eq_refl). specialize (Hex ex eq_refl).
    rewrite orun_range. onorm. cbv zeta.
    match goal with |- context [range_loop _ _ _ _ _ ?mm _] => remember mm as m1 eqn:Em1 end.
    assert (Hn1 : o_nodev m1 = node) by (unfold o_nodev; subst m1; ofields; rewrite Hnode; reflexivity).
    rewrite (range_loop_leg (trip_rev d t) (bstep d leg cases GO.gen_opt_body1) o_s1 (frame m1) (c_seq en - 1) (c_seq ex - 1)
               (Z.of_nat (c_seq ex) - 1) ltac:(lia));
      [| intros m' (H1 & _ & _); rewrite H1; subst m1; ofields; lia
       | intros c m0 kc kc' kb0; apply body1_step
       | repeat split ].
    destruct (if (c_seq ex - 1 <? c_seq en - 1)%nat then Some [] else rev_range _ _ _ _) as [rng|]; [|reflexivity].
    rewrite (fold_first (bstep d leg cases GO.gen_opt_body1) (fun c => Nat.eqb node (c_to c)) (fun mm => o_nodev mm = node));
      [| intros c mm Hi; exact Hi
       | intros c mm kc kb0 Hi Hp; apply body1_skip; rewrite Hi; exact Hp
       | intros c mm kc kc' kb0 Hi Hp; apply body1_hit; rewrite Hi; exact Hp
       | reflexivity
       | reflexivity
       | exact Hn1 ].
    destruct (find (fun c => Nat.eqb node (c_to c)) rng) as [c|] eqn:Ef.
    - apply find_some in Ef. destruct Ef as [_ Hp].
      orun_with GO.gen_opt_body1. ofields. onode. rewrite Hn1, Hp.
      destruct (negb (c_cu c)).
      + eexists; split; [reflexivity|]. unfold obs. subst m1. ofields. onode. reflexivity.
      + eexists; split; [reflexivity|]. unfold obs. subst m1. ofields. onode. unfold o_step. rewrite Hfrom, Hto.
        replace (Z.to_nat (Z.of_nat from + 1)) with (S from) by lia. replace (Z.to_nat (Z.of_nat to + 1)) with (S to) by lia.
        rewrite !Nat2Z.id, set_nth_erase, set_nth_twice by lia. reflexivity.
    - rewrite orun_done. subst m1. eexists; split; reflexivity.
  Qed.

  Lemma block2_tie m kont kb from to node : 
    o_from m = Z.of_nat from -> o_to m = Z.of_nat to -> o_node m = Some node -> (from < to)%nat ->
    seqs_ok (nth_js (o_journey m) to) ->
    forall r, r = orun d leg cases GO.gen_opt_block2 m kont kb ->
    match leg_range d (nth_js (o_journey m) to) with
    | None => r = OUB
    | Some rng =>
        match find (fun c => Nat.eqb node (c_from c)) rng with
        | None => ends_with r kont (obs (set_o_case (-1) m))
        | Some c =>
            if negb (c_cb c) then ends_with r kont (obs (set_o_case (-1) (set_o_ign (o_ign m ++ [node]) m)))
            else ends_with r kont (obs (set_o_case (-1) (set_o_used (o_used m ++ [2%nat])
                   (set_o_journey (erase_range (set_nth (set_nth (o_journey m) to (fun j => set_enter j c)) from
                                                        (fun j => set_walk j 0 0)) (S from) to) m))))
        end
    end.
  Proof.
    intros Hfrom Hto Hnode Hlt [Hen Hex] r ->.
    unfold GO.gen_opt_block2, leg_range.
    rewrite orun_settrip. onorm. rewrite Hto, Nat2Z.id.
    destruct (js_trip (nth_js (o_journey m) to)) as [t|]; [|reflexivity].
    rewrite orun_setseq. onorm. rewrite Hto, Nat2Z.id.
    destruct (js_enter (nth_js (o_journey m) to)) as [en|]; [|reflexivity].
    rewrite orun_setseq. onorm. rewrite Hto, Nat2Z.id.
    destruct (js_exit (nth_js (o_journey m) to)) as [ex|]; [|reflexivity].
    specialize (Hen en eq_refl). specialize (Hex ex eq_refl).
    rewrite orun_range. onorm. cbv zeta.
    match goal with |- context [range_loop _ _ _ _ _ ?mm _] => remember mm as m1 eqn:Em1 end.
    assert (Hn1 : o_nodev m1 = node) by (unfold o_nodev; subst m1; ofields; rewrite Hnode; reflexivity).
    rewrite (range_loop_leg (trip_rev d t) (bstep d leg cases GO.gen_opt_body2) o_s1 (frame m1) (c_seq en - 1) (c_seq ex - 1)
               (Z.of_nat (c_seq ex) - 1) ltac:(lia));
      [| intros m' (H1 & _ & _); rewrite H1; subst m1; ofields; lia
       | intros c m0 kc kc' kb0; apply body2_step
       | repeat split ].
    destruct (if (c_seq ex - 1 <? c_seq en - 1)%nat then Some [] else rev_range _ _ _ _) as [rng|]; [|reflexivity].
    rewrite (fold_first (bstep d leg cases GO.gen_opt_body2) (fun c => Nat.eqb node (c_from c)) (fun mm => o_nodev mm = node));
      [| intros c mm Hi; exact Hi
       | intros c mm kc kb0 Hi Hp; apply body2_skip; rewrite Hi; exact Hp
       | intros c mm kc kc' kb0 Hi Hp; apply body2_hit; rewrite Hi; exact Hp
       | reflexivity
       | reflexivity
       | exact Hn1 ].
    destruct (find (fun c => Nat.eqb node (c_from c)) rng) as [c|] eqn:Ef.
    - apply find_some in Ef. destruct Ef as [_ Hp].
      orun_with GO.gen_opt_body2. ofields. onode. rewrite Hn1, Hp.
      destruct (negb (c_cb c)).
      + eexists; split; [reflexivity|]. unfold obs. subst m1. ofields. onode. reflexivity.
      + eexists; split; [reflexivity|]. unfold obs. subst m1. ofields. onode. rewrite Hfrom, Hto.
        replace (Z.to_nat (Z.of_nat from + 1)) with (S from) by lia.
        rewrite !Nat2Z.id. reflexivity.
    - rewrite orun_setz, orun_done. subst m1. eexists; split; reflexivity.
  Qed.

  Lemma block3_tie m kont kb from to node : 
    o_from m = Z.of_nat from -> o_to m = Z.of_nat to -> o_node m = Some node -> (from < to)%nat ->
    seqs_ok (nth_js (o_journey m) from) ->
    forall r, r = orun d leg cases GO.gen_opt_block3 m kont kb ->
    match leg_range d (nth_js (o_journey m) from) with
    | None => r = OUB
    | Some rng =>
        match find (fun c => Nat.eqb node (c_to c)) rng with
        | None => ends_with r kont (obs m)
        | Some c =>
            if negb (c_cu c) then ends_with r kont (obs (set_o_ign (o_ign m ++ [node]) m))
            else ends_with r kont (obs (set_o_used (o_used m ++ [3%nat])
                   (set_o_journey (erase_range (set_nth (o_journey m) from (fun j => set_walk (set_exit j c) 0 0)) (S from) to) m)))
        end
    end.
  Proof.
    intros Hfrom Hto Hnode Hlt [Hen Hex] r ->.
    unfold GO.gen_opt_block3, leg_range.
    rewrite orun_settrip. onorm. rewrite Hfrom, Nat2Z.id.
    destruct (js_trip (nth_js (o_journey m) from)) as [t|]; [|reflexivity].
    rewrite orun_setseq. onorm. rewrite Hfrom, Nat2Z.id.
    destruct (js_enter (nth_js (o_journey m) from)) as [en|]; [|reflexivity].
    rewrite orun_setseq. onorm. rewrite Hfrom, Nat2Z.id.
    destruct (js_exit (nth_js (o_journey m) from)) as [ex|]; [|reflexivity].
    specialize (Hen en eq_refl). specialize (Hex ex eq_refl).
    rewrite orun_range. onorm. cbv zeta.
    match goal with |- context [range_loop _ _ _ _ _ ?mm _] => remember mm as m1 eqn:Em1 end.
    assert (Hn1 : o_nodev m1 = node) by (unfold o_nodev; subst m1; ofields; rewrite Hnode; reflexivity).
    rewrite (range_loop_leg (trip_rev d t) (bstep d leg cases GO.gen_opt_body3) o_s1 (frame m1) (c_seq en - 1) (c_seq ex - 1)
               (Z.of_nat (c_seq ex) - 1) ltac:(lia));
      [| intros m' (H1 & _ & _); rewrite H1; subst m1; ofields; lia
       | intros c m0 kc kc' kb0; apply body3_step
       | repeat split ].
    destruct (if (c_seq ex - 1 <? c_seq en - 1)%nat then Some [] else rev_range _ _ _ _) as [rng|]; [|reflexivity].
    rewrite (fold_first (bstep d leg cases GO.gen_opt_body3) (fun c => Nat.eqb node (c_to c)) (fun mm => o_nodev mm = node));
      [| intros c mm Hi; exact Hi
       | intros c mm kc kb0 Hi Hp; apply body3_skip; rewrite Hi; exact Hp
       | intros c mm kc kc' kb0 Hi Hp; apply body3_hit; rewrite Hi; exact Hp
       | reflexivity
       | reflexivity
       | exact Hn1 ].
    destruct (find (fun c => Nat.eqb node (c_to c)) rng) as [c|] eqn:Ef.
    - apply find_some in Ef. destruct Ef as [_ Hp].
      orun_with GO.gen_opt_body3. ofields. onode. rewrite Hn1, Hp.
      destruct (negb (c_cu c)).
      + eexists; split; [reflexivity|]. unfold obs. subst m1. ofields. onode. reflexivity.
      + eexists; split; [reflexivity|]. unfold obs. subst m1. ofields. onode. rewrite Hfrom, Hto.
        replace (Z.to_nat (Z.of_nat from + 1)) with (S from) by lia.
        rewrite !Nat2Z.id, set_nth_twice. reflexivity.
    - rewrite orun_done. subst m1. eexists; split; reflexivity.
  Qed.

  (* CSS, first loop: the last connection reaching the stop where leaving is allowed, up to the first where it is not *)
  Lemma body4_fold node kont : (forall c m, kont (set_o_conn c m) = kont m) -> forall rng m, o_nodev m = node ->
    range_fold (bstep d leg cases GO.gen_opt_body4) rng m kont = kont (set_o_exit (css_first node rng (o_exit m)) m).
  Proof.
    intros Hc. induction rng as [|c r IH]; intros m Hn; cbn [range_fold css_first].
    - destruct m; reflexivity.
    - orun_with GO.gen_opt_body4. ofields. onode. rewrite Hn.
      destruct (Nat.eqb node (c_to c)).
      + destruct (c_cu c).
        * rewrite IH by exact Hn. ofields. apply (Hc c (set_o_exit (css_first node r (Some c)) m)).
        * rewrite Hc. destruct m; reflexivity.
      + rewrite IH by exact Hn. ofields. apply (Hc c (set_o_exit (css_first node r (o_exit m)) m)).
  Qed.

  Lemma css_second_find node exitc js from to used ign : forall rng,
    css_second node exitc rng js from to used ign =
    match find (fun c => Nat.eqb node (c_from c)) rng with
    | None => (js, used, ign)
    | Some c =>
        match exitc with
        | Some ex =>
            if c_cb c
            then (erase_range (set_nth (set_nth js from (fun j => set_walk (set_exit j ex) 0 0)) to (fun j => set_enter j c)) (S from) to,
                  used ++ [4%nat], ign)
            else (js, used, ign ++ [node])
        | None => (js, used, ign ++ [node])
        end
    end.
  Proof.
    induction rng as [|c r IH]; cbn [css_second find]; [reflexivity|].
    destruct (Nat.eqb node (c_from c)); [reflexivity|exact IH].
  Qed.

  (* exitConnection is empty when the first loop starts: the block may declare it, or the pass may have emptied it *)
  Lemma block4_tie m kont kb from to node : o_exit m = None ->
    o_from m = Z.of_nat from -> o_to m = Z.of_nat to -> o_node m = Some node -> (from < to)%nat ->
    seqs_ok (nth_js (o_journey m) from) -> seqs_ok (nth_js (o_journey m) to) ->
    forall r, r = orun d leg cases GO.gen_opt_block4 m kont kb ->
    match leg_range d (nth_js (o_journey m) from), leg_range d (nth_js (o_journey m) to) with
    | Some rf, Some rt =>
        let '(js1, used1, ign1) := css_second node (css_first node rf None) rt (o_journey m) from to (o_used m) (o_ign m) in
        ends_with r kont (obs (set_o_ign ign1 (set_o_used used1 (set_o_journey js1 m))))
    | _, _ => r = OUB
    end.
  Proof.
    intros Hexit Hfrom Hto Hnode Hlt [Hen Hex] [Hen2 Hex2] r ->.
    unfold GO.gen_opt_block4, leg_range.
    rewrite orun_settrip. onorm. rewrite Hfrom, Nat2Z.id.
    destruct (js_trip (nth_js (o_journey m) from)) as [t|]; [|reflexivity].
    rewrite orun_setseq. onorm. rewrite Hfrom, Nat2Z.id.
    destruct (js_enter (nth_js (o_journey m) from)) as [en|]; [|reflexivity].
    rewrite orun_setseq. onorm. rewrite Hfrom, Nat2Z.id.
    destruct (js_exit (nth_js (o_journey m) from)) as [ex|]; [|reflexivity].
    specialize (Hen en eq_refl). specialize (Hex ex eq_refl).
    rewrite orun_settrip. onorm. rewrite Hto, Nat2Z.id.
    destruct (js_trip (nth_js (o_journey m) to)) as [t2|];
      [|destruct (if (c_seq ex - 1 <? c_seq en - 1)%nat then Some [] else rev_range _ _ _ _); reflexivity].
    rewrite orun_setseq. onorm. rewrite Hto, Nat2Z.id.
    destruct (js_enter (nth_js (o_journey m) to)) as [en2|];
      [|destruct (if (c_seq ex - 1 <? c_seq en - 1)%nat then Some [] else rev_range _ _ _ _); reflexivity].
    rewrite orun_setseq. onorm. rewrite Hto, Nat2Z.id.
    destruct (js_exit (nth_js (o_journey m) to)) as [ex2|];
      [|destruct (if (c_seq ex - 1 <? c_seq en - 1)%nat then Some [] else rev_range _ _ _ _); reflexivity].
    specialize (Hen2 en2 eq_refl). specialize (Hex2 ex2 eq_refl).
    rewrite ?orun_setexit, orun_range. onorm. cbv zeta.
    match goal with |- context [range_loop _ _ _ _ _ ?mm _] => remember mm as m1 eqn:Em1 end.
    assert (Hn1 : o_nodev m1 = node) by (unfold o_nodev; subst m1; ofields; rewrite Hnode; reflexivity).
    rewrite (range_loop_leg (trip_rev d t) (bstep d leg cases GO.gen_opt_body4) o_s1 (frame m1) (c_seq en - 1) (c_seq ex - 1)
               (Z.of_nat (c_seq ex) - 1) ltac:(lia));
      [| intros m' (H1 & _ & _); rewrite H1; subst m1; ofields; lia
       | intros c m0 kc kc' kb0; apply body4_step
       | repeat split ].
    destruct (if (c_seq ex - 1 <? c_seq en - 1)%nat then Some [] else rev_range _ _ _ _) as [rf|]; [|reflexivity].
    rewrite (body4_fold node) by (reflexivity || exact Hn1).
    replace (o_exit m1) with (@None conn) by (subst m1; ofields; first [reflexivity | symmetry; exact Hexit]).
    rewrite orun_range. onorm. cbv zeta.
    match goal with |- context [range_loop _ _ _ _ _ ?mm _] => remember mm as m2 eqn:Em2 end.
    assert (Hn2 : o_nodev m2 = node) by (unfold o_nodev; subst m2 m1; ofields; rewrite Hnode; reflexivity).
    replace (o_e2 m1) with (Z.of_nat (c_seq ex2) - 1) by (subst m1; reflexivity).
    replace (o_t2 m1) with t2 by (subst m1; reflexivity).
    rewrite (range_loop_leg (trip_rev d t2) (bstep d leg cases GO.gen_opt_body5) o_s2 (frame m2) (c_seq en2 - 1) (c_seq ex2 - 1)
               (Z.of_nat (c_seq ex2) - 1) ltac:(lia));
      [| intros m' (_ & H2 & _); rewrite H2; subst m2 m1; ofields; lia
       | intros c m0 kc kc' kb0; apply body5_step
       | repeat split ].
    destruct (if (c_seq ex2 - 1 <? c_seq en2 - 1)%nat then Some [] else rev_range _ _ _ _) as [rt|]; [|reflexivity].
    rewrite (fold_first (bstep d leg cases GO.gen_opt_body5) (fun c => Nat.eqb node (c_from c)) (fun mm => o_nodev mm = node));
      [| intros c mm Hi; exact Hi
       | intros c mm kc kb0 Hi Hp; apply body5_skip; rewrite Hi; exact Hp
       | intros c mm kc kc' kb0 Hi Hp; apply body5_hit; rewrite Hi; exact Hp
       | reflexivity
       | reflexivity
       | exact Hn2 ].
    rewrite css_second_find.
    destruct (find (fun c => Nat.eqb node (c_from c)) rt) as [c|] eqn:Ef.
    - apply find_some in Ef. destruct Ef as [_ Hp].
      orun_with GO.gen_opt_body5. ofields. onode. rewrite Hn2, Hp.
      replace (o_exit m2) with (css_first node rf None) by (subst m2 m1; reflexivity).
      destruct (css_first node rf None) as [exc|]; cbn [is_some andb].
      + destruct (c_cb c).
        * eexists; split; [reflexivity|]. unfold obs. subst m2 m1. ofields. onode. rewrite Hfrom, Hto.
          replace (Z.to_nat (Z.of_nat from + 1)) with (S from) by lia.
          rewrite !Nat2Z.id.
          rewrite (set_nth_swap _ _ _ to from) by lia. rewrite set_nth_twice. reflexivity.
        * eexists; split; [reflexivity|]. unfold obs. subst m2 m1. ofields. onode. reflexivity.
      + eexists; split; [reflexivity|]. unfold obs. subst m2 m1. ofields. onode. reflexivity.
    - rewrite orun_done. eexists; split; [reflexivity|]. unfold obs. subst m2 m1. ofields. reflexivity.
  Qed.
End Blocks.
