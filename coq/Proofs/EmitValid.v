(* Proofs/EmitValid.v — emission maps a valid journey to a valid itinerary.

   journey_ok_b (Spec.v, journey deque level)  ==>  valid_itinerary_b (Spec.v, emitted route level).

   Structure
   - [conn_in_data_inv], [jleg_ok_inv], [journey_ok_iff], [journey_ok_inv]: Prop-level readings of the
     boolean journey predicates (also used by Proofs/Rewrites.v).
   - [legs_of]: the [leg] records the itinerary checker must recover from the emitted steps.
   - [emit_legs_parse]: the step list appended by the emission loop for `legs ++ [egress]` is parsed by
     [parse_legs] to exactly [legs_of legs] and the egress walk (uses emit_leg / emit_egress of Totals.v).
   - [leg_ok_of_jleg], [chain_of_jchain]: per-leg and chain validity carry over.
   - [emit_valid]. *)
From TrV Require Import Spec.
From TrV Require Import Proofs.Totals.
Local Open Scope Z_scope.

(* ---------------------------------------------------------------------------------------------- *)
(* boolean predicates, read as propositions                                                         *)

Lemma conn_eqb_full_eq : forall a b, conn_eqb_full a b = true -> a = b.
Proof.
  intros [t1 s1 f1 o1 d1 a1 cb1 cu1 m1] [t2 s2 f2 o2 d2 a2 cb2 cu2 m2] H.
  unfold conn_eqb_full in H.
  cbn [c_trip c_seq c_from c_to c_dep c_arr c_cb c_cu c_minw] in H.
  repeat (apply andb_true_iff in H; let H' := fresh "H" in destruct H as [H H']).
  repeat match goal with
         | E : Nat.eqb _ _ = true |- _ => apply Nat.eqb_eq in E
         | E : Z.eqb _ _ = true |- _ => apply Z.eqb_eq in E
         | E : Bool.eqb _ _ = true |- _ => apply Bool.eqb_prop in E
         end.
  subst. reflexivity.
Qed.

Lemma conn_eqb_full_refl : forall a, conn_eqb_full a a = true.
Proof.
  intros a. unfold conn_eqb_full.
  rewrite !Nat.eqb_refl, !Z.eqb_refl, !Bool.eqb_reflx. reflexivity.
Qed.

Lemma conn_in_data_inv : forall d c, conn_in_data d c = true -> find_conn d (c_trip c) (c_seq c) = Some c.
Proof.
  intros d c H. unfold conn_in_data in H.
  destruct (find_conn d (c_trip c) (c_seq c)) as [c'|] eqn:E; [|discriminate].
  apply conn_eqb_full_eq in H. subst c'. reflexivity.
Qed.

Lemma conn_in_data_intro : forall d c, find_conn d (c_trip c) (c_seq c) = Some c -> conn_in_data d c = true.
Proof. intros d c H. unfold conn_in_data. rewrite H. apply conn_eqb_full_refl. Qed.

Lemma jleg_ok_inv : forall d s p j, jleg_ok d s p j = true ->
  exists b e t tr,
    js_enter j = Some b /\ js_exit j = Some e /\ js_trip j = Some t /\
    c_trip b = t /\ c_trip e = t /\ conn_in_data d b = true /\ conn_in_data d e = true /\
    find_trip d t = Some tr /\ trip_admitted d s p tr = true /\
    c_cb b = true /\ c_cu e = true /\ (c_seq b <= c_seq e)%nat.
Proof.
  intros d s p j H. unfold jleg_ok in H.
  destruct (js_enter j) as [b|]; [|discriminate].
  destruct (js_exit j) as [e|]; [|discriminate].
  destruct (js_trip j) as [t|]; [|discriminate].
  repeat (apply andb_true_iff in H; let H' := fresh "H" in destruct H as [H H']).
  destruct (find_trip d t) as [tr|] eqn:Ft; [|discriminate].
  exists b, e, t, tr.
  apply Nat.eqb_eq in H. apply Nat.eqb_eq in H6. apply Nat.leb_le in H0.
  repeat split; assumption.
Qed.

Lemma jleg_ok_intro : forall d s p j b e t tr,
    js_enter j = Some b -> js_exit j = Some e -> js_trip j = Some t ->
    c_trip b = t -> c_trip e = t -> conn_in_data d b = true -> conn_in_data d e = true ->
    find_trip d t = Some tr -> trip_admitted d s p tr = true ->
    c_cb b = true -> c_cu e = true -> (c_seq b <= c_seq e)%nat ->
    jleg_ok d s p j = true.
Proof.
  intros d s p j b e t tr Hb He Ht Tb Te Db De Ft Ad Cb Cu Le.
  unfold jleg_ok. rewrite Hb, He, Ht, Ft, Db, De, Ad, Cb, Cu.
  apply Nat.eqb_eq in Tb. apply Nat.eqb_eq in Te. apply Nat.leb_le in Le.
  rewrite Tb, Te, Le. reflexivity.
Qed.

(* the Prop reading of journey_ok_b on a journey written access . legs . egress *)
Definition journey_ok_P (d : data) (s : scenario) (p : params) (acc egr : list fprow) (bd : Z)
           (a : jstep) (legs : list jstep) (e : jstep) : Prop :=
  is_walk a = true /\ is_walk e = true /\ forallb (jleg_ok d s p) legs = true /\
  exists b1 el, first_board legs = Some b1 /\ last_alight legs = Some el /\
    has_row acc (c_from b1) (js_walk a) = true /\ has_row egr (c_to el) (js_walk e) = true /\
    jchain_ok d p (bd + js_walk a) legs = true.

Lemma journey_ok_iff : forall d s p acc egr bd a legs e,
  journey_ok_b d s p acc egr bd (a :: legs ++ [e]) = true <-> journey_ok_P d s p acc egr bd a legs e.
Proof.
  intros d s p acc egr bd a legs e. unfold journey_ok_b, journey_ok_P.
  rewrite rev_app_distr. cbn [rev app]. rewrite rev_involutive.
  split.
  - intros H.
    apply andb_true_iff in H. destruct H as [Ha H].
    apply andb_true_iff in H. destruct H as [H Hc].
    apply andb_true_iff in H. destruct H as [He Hl].
    destruct (first_board legs) as [b1|]; [|discriminate].
    destruct (last_alight legs) as [el|]; [|discriminate].
    apply andb_true_iff in Hc. destruct Hc as [Hc Hch].
    apply andb_true_iff in Hc. destruct Hc as [Hra Hre].
    split; [exact Ha|]. split; [exact He|]. split; [exact Hl|].
    exists b1, el. repeat split; assumption.
  - intros (Ha & He & Hl & b1 & el & Hf & Hla & Hra & Hre & Hch).
    rewrite Ha, He, Hl, Hf, Hla, Hra, Hre, Hch. reflexivity.
Qed.

Lemma journey_ok_inv : forall d s p acc egr bd js,
  journey_ok_b d s p acc egr bd js = true ->
  exists a legs e, js = a :: legs ++ [e] /\ journey_ok_P d s p acc egr bd a legs e.
Proof.
  intros d s p acc egr bd js H.
  destruct js as [|a rest]; [discriminate|].
  destruct (rev rest) as [|e lr] eqn:Hrev.
  - unfold journey_ok_b in H. rewrite Hrev in H. rewrite andb_false_r in H. discriminate.
  - assert (Erest : rest = rev lr ++ [e]).
    { rewrite <- (rev_involutive rest), Hrev. reflexivity. }
    exists a, (rev lr), e. split; [rewrite Erest; reflexivity|].
    apply journey_ok_iff. rewrite <- Erest. exact H.
Qed.

(* ---------------------------------------------------------------------------------------------- *)
(* the legs the checker must recover                                                                *)

Definition dconn : conn :=
  {| c_trip := 0; c_seq := 0; c_from := 0; c_to := 0; c_dep := 0; c_arr := 0;
     c_cb := false; c_cu := false; c_minw := 0 |}.
Definition jb (j : jstep) : conn := match js_enter j with Some b => b | None => dconn end.
Definition je (j : jstep) : conn := match js_exit j with Some e => e | None => dconn end.
Definition jt (j : jstep) : nat := match js_trip j with Some t => t | None => 0%nat end.

Definition leg_of (j : jstep) (w : option (Z * Z)) : leg :=
  {| lg_trip := jt j; lg_bseq := c_seq (jb j); lg_bnode := c_from (jb j); lg_bdep := c_dep (jb j);
     lg_useq := c_seq (je j); lg_unode := c_to (je j); lg_uarr := c_arr (je j); lg_walk := w |}.

Fixpoint legs_of (l : list jstep) : list leg :=
  match l with
  | [] => []
  | j :: r => leg_of j (match r with [] => None | _ => Some (js_walk j, js_dist j) end) :: legs_of r
  end.

Definition is_leg (j : jstep) : Prop :=
  exists b x t, js_enter j = Some b /\ js_exit j = Some x /\ js_trip j = Some t.

Lemma emit_legs_parse : forall d p bd count e, is_walk e = true ->
  forall legs st i,
    legs <> [] -> (forall j, In j legs -> is_leg j) ->
    (i + length legs + 1 = count)%nat ->
    exists news,
      e_steps (emit_loop d p bd count st i (legs ++ [e])) = e_steps st ++ news /\
      parse_legs news = Some (legs_of legs, js_walk e).
Proof.
  intros d p bd count e He.
  induction legs as [|j legs IH]; intros st i Hne Hall Hcnt; [congruence|].
  destruct (Hall j (or_introl eq_refl)) as (b & x & t & Hb & Hx & Ht).
  cbn [app emit_loop]. cbn [length] in Hcnt.
  remember (hd_error (legs ++ [e])) as nxt eqn:Enxt.
  destruct (emit_leg d p bd count st i j nxt b x t Hb Hx Ht)
    as (ivd & Hs & _).
  remember (emit_step d p bd count st i j nxt) as st1 eqn:Est1.
  assert (Ejb : jb j = b) by (unfold jb; rewrite Hb; reflexivity).
  assert (Eje : je j = x) by (unfold je; rewrite Hx; reflexivity).
  assert (Ejt : jt j = t) by (unfold jt; rewrite Ht; reflexivity).
  destruct legs as [|j2 legs2].
  - (* the last leg, then the egress walk *)
    assert (Hnl : Nat.ltb (S (S i)) count = false)
      by (apply Nat.ltb_ge; cbn [length] in Hcnt; lia).
    rewrite Hnl in Hs.
    cbn [app emit_loop hd_error].
    destruct (emit_egress d p bd count st1 (S i) e None He ltac:(lia)) as (Hs2 & _).
    eexists. split.
    + rewrite Hs2, Hs, <- app_assoc. cbn [app]. reflexivity.
    + cbn [parse_legs]. rewrite !Nat.eqb_refl. cbn [andb legs_of].
      unfold leg_of. rewrite Ejb, Eje, Ejt. reflexivity.
  - (* a leg followed by a transfer walk and more legs *)
    assert (Hnl : Nat.ltb (S (S i)) count = true)
      by (apply Nat.ltb_lt; cbn [length] in Hcnt; lia).
    rewrite Hnl in Hs.
    destruct (IH st1 (S i) ltac:(discriminate)
                 ltac:(intros j' Hj'; apply Hall; right; exact Hj') ltac:(lia))
      as (news1 & Hs1 & Hp1).
    eexists. split.
    + rewrite Hs1, Hs, <- app_assoc. cbn [app]. reflexivity.
    + cbn [parse_legs]. rewrite !Nat.eqb_refl. cbn [andb].
      rewrite Hp1.
      change (legs_of (j :: j2 :: legs2))
        with (leg_of j (Some (js_walk j, js_dist j)) :: legs_of (j2 :: legs2)).
      change (legs_of (j2 :: legs2))
        with (leg_of j2 (match legs2 with [] => None | _ => Some (js_walk j2, js_dist j2) end)
              :: legs_of legs2).
      cbv iota. rewrite <- Ejb, <- Eje, <- Ejt. reflexivity.
Qed.

(* ---------------------------------------------------------------------------------------------- *)
(* per-leg and chain validity                                                                       *)

Lemma leg_ok_of_jleg : forall d s p j w, jleg_ok d s p j = true -> leg_ok d s p (leg_of j w) = true.
Proof.
  intros d s p j w H.
  destruct (jleg_ok_inv d s p j H)
    as (b & e & t & tr & Hb & He & Ht & Tb & Te & Db & De & Ft & Ad & Cb & Cu & Le).
  apply conn_in_data_inv in Db. apply conn_in_data_inv in De.
  rewrite Tb in Db. rewrite Te in De.
  unfold leg_ok, leg_of. cbn [lg_trip lg_bseq lg_bnode lg_bdep lg_useq lg_unode lg_uarr].
  unfold jb, je, jt. rewrite Hb, He, Ht, Ft, Db, De, Ad, Cb, Cu.
  rewrite !Nat.eqb_refl, !Z.eqb_refl. apply Nat.leb_le in Le. rewrite Le. reflexivity.
Qed.

Lemma leg_minw_of_jleg : forall d s p j w b, jleg_ok d s p j = true -> js_enter j = Some b ->
  leg_minw d p (leg_of j w) = minw_true p b.
Proof.
  intros d s p j w b0 H Hb0.
  destruct (jleg_ok_inv d s p j H)
    as (b & e & t & tr & Hb & He & Ht & Tb & Te & Db & De & Ft & Ad & Cb & Cu & Le).
  rewrite Hb in Hb0. injection Hb0 as <-.
  apply conn_in_data_inv in Db. rewrite Tb in Db.
  unfold leg_minw, leg_of. cbn [lg_trip lg_bseq]. unfold jb, jt. rewrite Hb, Ht, Db. reflexivity.
Qed.

Lemma chain_of_jchain : forall d s p legs ready,
  forallb (jleg_ok d s p) legs = true ->
  jchain_ok d p ready legs = true -> chain_ok d p ready (legs_of legs) = true.
Proof.
  intros d s p. induction legs as [|x r IH]; intros ready Hall Hch; [reflexivity|].
  cbn [forallb] in Hall. apply andb_true_iff in Hall. destruct Hall as [Hx Hall].
  destruct (jleg_ok_inv d s p x Hx)
    as (b & e & t & tr & Hb & He & Ht & Tb & Te & Db & De & Ft & Ad & Cb & Cu & Le).
  cbn [jchain_ok] in Hch. rewrite Hb, He in Hch.
  apply andb_true_iff in Hch. destruct Hch as [Hbd Hrest].
  destruct r as [|y r'].
  - cbn [legs_of chain_ok]. rewrite (leg_minw_of_jleg d s p x None b Hx Hb).
    unfold leg_of at 1. cbn [lg_bdep lg_walk]. unfold jb. rewrite Hb, Hbd. reflexivity.
  - change (legs_of (x :: y :: r'))
      with (leg_of x (Some (js_walk x, js_dist x)) :: legs_of (y :: r')).
    cbn [chain_ok].
    rewrite (leg_minw_of_jleg d s p x _ b Hx Hb).
    change (legs_of (y :: r'))
      with (leg_of y (match r' with [] => None | _ => Some (js_walk y, js_dist y) end) :: legs_of r').
    cbn [lg_walk leg_of lg_bdep lg_unode lg_bnode lg_uarr].
    assert (Ejb : jb x = b) by (unfold jb; rewrite Hb; reflexivity).
    assert (Eje : je x = e) by (unfold je; rewrite He; reflexivity).
    rewrite Ejb, !Eje, Hbd. cbn [andb].
    destruct (js_enter y) as [b'|] eqn:Hb'; [|discriminate].
    assert (Ejby : jb y = b') by (unfold jb; rewrite Hb'; reflexivity).
    apply andb_true_iff in Hrest. destruct Hrest as [Hrest Hch'].
    apply andb_true_iff in Hrest. destruct Hrest as [Hlink Hmax].
    rewrite Ejby, Hlink, Hmax. cbn [andb].
    specialize (IH (c_arr e + js_walk x) Hall Hch').
    change (legs_of (y :: r'))
      with (leg_of y (match r' with [] => None | _ => Some (js_walk y, js_dist y) end) :: legs_of r') in IH.
    exact IH.
Qed.

Lemma last_leg_app : forall l x, last_leg (l ++ [x]) = Some x.
Proof.
  intros l x. unfold last_leg. rewrite map_app. cbn [map]. apply last_last.
Qed.

Lemma legs_of_snoc : forall l x, exists l', legs_of (l ++ [x]) = l' ++ [leg_of x None].
Proof.
  induction l as [|y l IH]; intros x.
  - exists []. reflexivity.
  - destruct (IH x) as (l' & E).
    cbn [app legs_of]. rewrite E. eexists (_ :: l'). reflexivity.
Qed.

Lemma last_alight_snoc : forall l x, last_alight (l ++ [x]) = js_exit x.
Proof. intros l x. unfold last_alight. rewrite rev_app_distr. reflexivity. Qed.

Lemma forallb_legs_of : forall d s p legs,
  forallb (jleg_ok d s p) legs = true -> forallb (leg_ok d s p) (legs_of legs) = true.
Proof.
  intros d s p. induction legs as [|x r IH]; intros H; [reflexivity|].
  cbn [forallb] in H. apply andb_true_iff in H. destruct H as [Hx Hr].
  cbn [legs_of forallb]. rewrite (leg_ok_of_jleg d s p x _ Hx). apply IH. exact Hr.
Qed.

(* ---------------------------------------------------------------------------------------------- *)

Theorem emit_valid : forall d s p acc egr bestdep js,
  journey_ok_b d s p acc egr bestdep js = true ->
  valid_itinerary_b d s p acc egr (emit d p bestdep js) = true.
Proof.
  intros d s p acc egr bd js H.
  destruct (journey_ok_inv d s p acc egr bd js H)
    as (a & legs & e & Ejs & Ha & He & Hall & b1 & el & Hfb & Hla & Hra & Hre & Hch).
  subst js.
  assert (Hlegs : forall j, In j legs -> is_leg j).
  { intros j Hj. rewrite forallb_forall in Hall.
    destruct (jleg_ok_inv d s p j (Hall j Hj)) as (b & x & t & tr & Hb & Hx & Ht & _).
    exists b, x, t. auto. }
  assert (Hne : legs <> []) by (intro E; subst legs; discriminate).
  unfold valid_itinerary_b, parse_route, emit. cbv zeta. cbn [rt_steps].
  remember (length (a :: legs ++ [e])) as count eqn:Ecount.
  assert (Hcount : (1 + length legs + 1 = count)%nat).
  { subst count. cbn [length]. rewrite app_length. cbn [length]. lia. }
  cbn [emit_loop].
  destruct (emit_access d p bd count a (hd_error (legs ++ [e])) Ha) as (Hs0 & _).
  remember (emit_step d p bd count emit_init 0 a (hd_error (legs ++ [e]))) as st1 eqn:Est1.
  destruct (emit_legs_parse d p bd count e He legs st1 1%nat Hne Hlegs Hcount) as (news & Hs & Hp).
  rewrite Hs, Hs0. cbn [app]. rewrite Hp.
  (* first and last leg *)
  destruct legs as [|x r]; [congruence|].
  cbn [first_board] in Hfb.
  cbn [legs_of].
  destruct (@exists_last _ (x :: r) ltac:(discriminate)) as (l0 & xl & El).
  assert (Hlast : last_leg (legs_of (x :: r)) = Some (leg_of xl None)).
  { rewrite El. destruct (legs_of_snoc l0 xl) as (l' & E'). rewrite E'. apply last_leg_app. }
  cbn [legs_of] in Hlast. rewrite Hlast.
  rewrite El, last_alight_snoc in Hla.
  cbn [lg_bnode lg_unode leg_of].
  unfold jb at 1. rewrite Hfb. unfold je at 1. rewrite Hla.
  rewrite Hra, Hre. cbn [andb].
  apply andb_true_iff. split.
  - apply (forallb_legs_of d s p (x :: r) Hall).
  - apply (chain_of_jchain d s p (x :: r) _ Hall Hch).
Qed.

Print Assumptions emit_valid.
