(* OptimizeLoopTie.v — part 3 of the tie of Calculator::optimizeJourney: one whole pass, the `while` loop, the function.
   `pass_tie`: the regenerated pass tree (gen_opt_pass: what is set again at the top of a pass, the detection, the four
   rewrite blocks) run from any values of the variables computes one pass of the model (`model_pass`, which is `optimize`
   cut at the recursive call: `optimize_pass`).  `while_tie`: the loop with the regenerated condition.
   `optimize_function_tie`: with the regenerated statements before the loop, from ANY initial values of the variables,
   the function computes `optimize fuel d journey [] []`.
   A variable whose declaration is moved out of the pass is no longer set again by the pass tree; the proofs then have to
   work from its unknown previous value, and fail where that value is read (seeded/C01_css_stale_exit_connection). *)
From Coq Require Import List ZArith Bool Lia ZifyBool.
From TrV Require Import Scan Journey.
Require Import TrV.Optimize.
Require TrV.gen.Optimize.
Require Import TrV.Proofs.OptimizeTie.
Require Import TrV.Proofs.OptimizePassTie.
From TrV Require Import Proofs.SortFilter Proofs.DeleteEquiv Proofs.EmitValid Proofs.EmitTieAnswers.
Require TrV.Spec.
Import ListNotations.
Local Open Scope Z_scope.
Local Open Scope bool_scope.
(* ---------------------------------------------------------------------------------------------- *)
(* one pass                                                                                         *)

(* the model's `optimize`, one pass at a time: undefined behaviour, or the journey / used cases / ignored stops and the
   value of optimizationCase when the pass ends *)
Inductive pres := PUB | PGo (js : list jstep) (used ign : list nat) (case : Z).

(* what a pass does once a case is recorded *)
Definition model_rewrite (d : data) (js : list jstep) (used ign : list nat) (cs node from to : nat) : pres :=
  if Nat.eqb cs 1 then
    match leg_range d (nth_js js from) with
    | None => PUB
    | Some rng =>
        match find (fun c => Nat.eqb node (c_to c)) rng with
        | None => PGo js used ign 1
        | Some c =>
            if negb (c_cu c) then PGo js used (ign ++ [node]) 1
            else
              let wt := nth_js js to in
              let js1 := set_nth js from (fun j => set_exit (set_walk j (js_walk wt) (js_dist wt)) c) in
              PGo (erase_range js1 (S from) (S to)) (used ++ [1%nat]) ign 1
        end
    end
  else if Nat.eqb cs 2 then
    match leg_range d (nth_js js to) with
    | None => PUB
    | Some rng =>
        match find (fun c => Nat.eqb node (c_from c)) rng with
        | None => PGo js used ign (-1)
        | Some c =>
            if negb (c_cb c) then PGo js used (ign ++ [node]) (-1)
            else PGo (erase_range (set_nth (set_nth js to (fun j => set_enter j c)) from (fun j => set_walk j 0 0)) (S from) to)
                     (used ++ [2%nat]) ign (-1)
        end
    end
  else if Nat.eqb cs 3 then
    match leg_range d (nth_js js from) with
    | None => PUB
    | Some rng =>
        match find (fun c => Nat.eqb node (c_to c)) rng with
        | None => PGo js used ign 3
        | Some c =>
            if negb (c_cu c) then PGo js used (ign ++ [node]) 3
            else PGo (erase_range (set_nth js from (fun j => set_walk (set_exit j c) 0 0)) (S from) to) (used ++ [3%nat]) ign 3
        end
    end
  else
    match leg_range d (nth_js js from), leg_range d (nth_js js to) with
    | Some rf, Some rt =>
        let '(js1, used1, ign1) := css_second node (css_first node rf None) rt js from to used ign in
        PGo js1 used1 ign1 4
    | _, _ => PUB
    end.

Definition model_pass (d : data) (js : list jstep) (used ign : list nat) : pres :=
  match detect d ign js 0%nat [] with
  | None => PUB
  | Some None => PGo js used ign (-1)
  | Some (Some (cs, node, from, to)) => model_rewrite d js used ign cs node from to
  end.

Lemma optimize_pass f d js used ign :
  optimize (S f) d js used ign =
  match model_pass d js used ign with
  | PUB => OptUB
  | PGo js' used' ign' c => if c >=? 0 then optimize f d js' used' ign' else OptDone js' used'
  end.
Proof.
  cbn [optimize]. unfold model_pass, model_rewrite.
  destruct (detect d ign js 0 []) as [[[[[cs node] from] to]|]|]; [|reflexivity|reflexivity].
  destruct (Nat.eqb cs 1).
  { destruct (leg_range d (nth_js js from)) as [rng|]; [|reflexivity].
    destruct (find _ rng) as [c|]; [|reflexivity]. destruct (negb (c_cu c)); reflexivity. }
  destruct (Nat.eqb cs 2).
  { destruct (leg_range d (nth_js js to)) as [rng|]; [|reflexivity].
    destruct (find _ rng) as [c|]; [|reflexivity]. destruct (negb (c_cb c)); reflexivity. }
  destruct (Nat.eqb cs 3).
  { destruct (leg_range d (nth_js js from)) as [rng|]; [|reflexivity].
    destruct (find _ rng) as [c|]; [|reflexivity]. destruct (negb (c_cu c)); reflexivity. }
  destruct (leg_range d (nth_js js from)) as [rf|]; [|reflexivity].
  destruct (leg_range d (nth_js js to)) as [rt|]; [|reflexivity].
  destruct (css_second _ _ _ _ _ _ _ _) as [[js1 used1] ign1]. reflexivity.
Qed.

Lemma nth_js_seqs_ok js i : Forall seqs_ok js -> seqs_ok (nth_js js i).
Proof.
  intros H. unfold nth_js. destruct (Nat.lt_ge_cases i (length js)) as [Hi|Hi].
  - rewrite Forall_forall in H. apply H. apply nth_In. exact Hi.
  - rewrite nth_overflow by exact Hi. split; intros c Hc; discriminate.
Qed.

Lemma ends_with_done d leg cases r kont kb o :
  ends_with r (fun m' => orun d leg cases ODone m' kont kb) o -> ends_with r kont o.
Proof. intros H. exact H. Qed.

(* exitConnection is emptied by the CSS block itself (its declaration is there) *)
Definition exit_reset_in_block (d : data) : Prop :=
  forall mm kk kb, orun d GO.gen_opt_leg GO.gen_opt_cases GO.gen_opt_block4 mm kk kb
                   = orun d GO.gen_opt_leg GO.gen_opt_cases GO.gen_opt_block4 (set_o_exit None mm) kk kb.

(* the statements after the detection, from variables m1 of which only this is known: the journey and the two lists are
   those the pass started with, the detection recorded (cs, n, i, j), and exitConnection is empty or will be emptied *)
Lemma rewrites_tie d js used ign m1 kont kb cs n i j :
  o_journey m1 = js -> o_used m1 = used -> o_ign m1 = ign ->
  o_from m1 = Z.of_nat i -> o_to m1 = Z.of_nat j -> o_node m1 = Some n -> o_case m1 = Z.of_nat cs -> o_started m1 = true ->
  o_exit m1 = None \/ exit_reset_in_block d ->
  (1 <= cs <= 4)%nat -> (i < j)%nat -> Forall seqs_ok js ->
  forall r, r = orun d GO.gen_opt_leg GO.gen_opt_cases GO.gen_opt_rewrites m1 kont kb ->
  match model_rewrite d js used ign cs n i j with
  | PUB => r = OUB
  | PGo js' used' ign' c => ends_with r kont (js', used', ign', c, true)
  end.
Proof.
  intros Fj Fu Fi Ff Ft Fn Fc Fs Fe Hc Hij Hs r ->. unfold GO.gen_opt_rewrites, model_rewrite.
  assert (Hs1 : forall k, seqs_ok (nth_js (o_journey m1) k)) by (intros k; apply nth_js_seqs_ok; rewrite Fj; exact Hs).
  destruct cs as [|[|[|[|[|cs]]]]]; try lia; cbn [Nat.eqb].
  - rewrite orun_if. replace (o_case m1 =? 1) with true by (rewrite Fc; reflexivity).
    match goal with |- context [orun _ _ _ GO.gen_opt_block1 m1 ?kk kb] =>
      pose proof (block1_tie d GO.gen_opt_leg GO.gen_opt_cases m1 kk kb i j n Ff Ft Fn Hij (Hs1 i) _ eq_refl) as HB end.
    unfold obs in HB. ofields_in HB. rewrite ?Fj, ?Fu, ?Fi, ?Fc, ?Fs in HB.
    destruct (leg_range d (nth_js js i)) as [rng|]; [|exact HB].
    destruct (find _ rng) as [c|]; [destruct (negb (c_cu c))|]; exact HB.
  - rewrite orun_if. replace (o_case m1 =? 1) with false by (rewrite Fc; reflexivity).
    rewrite orun_if. replace (o_case m1 =? 2) with true by (rewrite Fc; reflexivity).
    match goal with |- context [orun _ _ _ GO.gen_opt_block2 m1 ?kk kb] =>
      pose proof (block2_tie d GO.gen_opt_leg GO.gen_opt_cases m1 kk kb i j n Ff Ft Fn Hij (Hs1 j) _ eq_refl) as HB end.
    unfold obs in HB. ofields_in HB. rewrite ?Fj, ?Fu, ?Fi, ?Fc, ?Fs in HB.
    destruct (leg_range d (nth_js js j)) as [rng|]; [|exact HB].
    destruct (find _ rng) as [c|]; [destruct (negb (c_cb c))|]; exact HB.
  - rewrite orun_if. replace (o_case m1 =? 1) with false by (rewrite Fc; reflexivity).
    rewrite orun_if. replace (o_case m1 =? 2) with false by (rewrite Fc; reflexivity).
    rewrite orun_if. replace (o_case m1 =? 3) with true by (rewrite Fc; reflexivity).
    match goal with |- context [orun _ _ _ GO.gen_opt_block3 m1 ?kk kb] =>
      pose proof (block3_tie d GO.gen_opt_leg GO.gen_opt_cases m1 kk kb i j n Ff Ft Fn Hij (Hs1 i) _ eq_refl) as HB end.
    unfold obs in HB. ofields_in HB. rewrite ?Fj, ?Fu, ?Fi, ?Fc, ?Fs in HB.
    destruct (leg_range d (nth_js js i)) as [rng|]; [|exact HB].
    destruct (find _ rng) as [c|]; [destruct (negb (c_cu c))|]; exact HB.
  - rewrite orun_if. replace (o_case m1 =? 1) with false by (rewrite Fc; reflexivity).
    rewrite orun_if. replace (o_case m1 =? 2) with false by (rewrite Fc; reflexivity).
    rewrite orun_if. replace (o_case m1 =? 3) with false by (rewrite Fc; reflexivity).
    rewrite orun_if. replace (o_case m1 =? 4) with true by (rewrite Fc; reflexivity).
    match goal with |- context [orun _ _ _ GO.gen_opt_block4 m1 ?kk kb] =>
      destruct Fe as [Fe|Hreset];
      [ pose proof (block4_tie d GO.gen_opt_leg GO.gen_opt_cases m1 kk kb i j n Fe Ff Ft Fn Hij (Hs1 i) (Hs1 j) _ eq_refl) as HB
      | rewrite (Hreset m1);
        pose proof (block4_tie d GO.gen_opt_leg GO.gen_opt_cases (set_o_exit None m1) kk kb i j n eq_refl Ff Ft Fn Hij
                               (Hs1 i) (Hs1 j) _ eq_refl) as HB ]
    end.
    all: unfold obs in HB; ofields_in HB; rewrite ?Fj, ?Fu, ?Fi, ?Fc, ?Fs in HB.
    all: destruct (leg_range d (nth_js js i)) as [rf|]; [|exact HB].
    all: destruct (leg_range d (nth_js js j)) as [rt|]; [|exact HB].
    all: destruct (css_second _ _ _ _ _ _ _ _) as [[js1 used1] ign1]; exact HB.
Qed.

(* one pass of the regenerated loop body is one pass of the model *)
Theorem pass_tie d m kont kb : Forall seqs_ok (o_journey m) ->
  forall r, r = orun d GO.gen_opt_leg GO.gen_opt_cases GO.gen_opt_pass m kont kb ->
  match model_pass d (o_journey m) (o_used m) (o_ign m) with
  | PUB => r = OUB
  | PGo js' used' ign' c => ends_with r kont (js', used', ign', c, true)
  end.
Proof.
  intros Hs r ->. unfold GO.gen_opt_pass. ostep. unfold detect_stmt. onorm.
  cbn [mk_prev Z.eqb Pos.eqb Z.to_nat].
  pose proof (detect_run_tie d (o_ign m) (o_journey m) 0%nat [] Hs) as Hd.
  unfold model_pass. rewrite <- Hd. clear Hd.
  destruct (detect_run GO.gen_opt_leg GO.gen_opt_cases d (o_ign m) (o_journey m) 0 []) as [[[res idx'] prev']|] eqn:Er;
    cbn [option_map fst]; [|reflexivity].
  destruct res as [[[[cs n] i] j]|].
  2:{ unfold GO.gen_opt_rewrites. ostep. onorm. cbn [Z.eqb]. ostep. eexists; split; reflexivity. }
  assert (Hh : (1 <= cs <= 4)%nat /\ (i < j)%nat).
  { apply (detect_hit d (o_ign m) (o_journey m) 0%nat [] cs n i j eq_refl).
    rewrite <- (detect_run_tie d (o_ign m) (o_journey m) 0%nat [] Hs), Er. reflexivity. }
  destruct Hh as [Hc Hij].
  (* exitConnection is emptied before it is read: at the top of the pass, or by its declaration in the CSS block *)
  match goal with
  | |- match _ with PUB => orun _ _ _ GO.gen_opt_rewrites ?m1 _ _ = _ | _ => _ end =>
      apply (rewrites_tie d (o_journey m) (o_used m) (o_ign m) m1 kont kb cs n i j
                          eq_refl eq_refl eq_refl eq_refl eq_refl eq_refl eq_refl eq_refl);
        [ | exact Hc | exact Hij | exact Hs | reflexivity ]
  end.
  first
    [ left; reflexivity
    | right; intros mm kk kb'; unfold GO.gen_opt_block4;
      repeat (first [rewrite !orun_settrip | rewrite !orun_setseq]; onorm;
              match goal with
              | |- match ?x with _ => _ end = match ?x with _ => _ end => destruct x; [|reflexivity]
              end);
      rewrite !orun_setexit;
      match goal with
      | |- orun _ _ _ ?S ?M ?k ?b = orun _ _ _ ?S ?M' ?k ?b =>
          replace M' with M; [reflexivity|];
          destruct mm as [a1 a2 a3 a4 a5 a6 a7 a8 a9 a10 a11 a12 a13 a14 a15 a16 a17 a18 a19];
          cbv [set_o_journey set_o_used set_o_ign set_o_case set_o_started set_o_idx set_o_from set_o_to set_o_node
               set_o_lastn set_o_between set_o_exit set_o_conn set_o_t1 set_o_t2 set_o_s1 set_o_e1 set_o_s2 set_o_e2
               o_journey o_used o_ign o_case o_started o_idx o_from o_to o_node o_lastn o_between o_exit o_conn
               o_t1 o_t2 o_s1 o_e1 o_s2 o_e2];
          reflexivity
      end ].
Qed.

(* ---------------------------------------------------------------------------------------------- *)
(* the loop, and the function                                                                       *)

(* the connections a journey rides are connections of the data: kept by every rewrite, and it makes stop sequences 1-based *)
Definition jin (d : data) (j : jstep) : Prop :=
  (forall c, js_enter j = Some c -> In c (all_conns d)) /\ (forall c, js_exit j = Some c -> In c (all_conns d)).

Lemma jin_seqs_ok d j : jin d j -> seqs_ok j.
Proof. intros [H1 H2]. split; intros c Hc; apply (all_conns_seq_ge1 d); auto. Qed.

Lemma leg_range_all d j rng c : leg_range d j = Some rng -> In c rng -> In c (all_conns d).
Proof.
  unfold leg_range. destruct (js_trip j) as [t|]; [|discriminate].
  destruct (js_enter j) as [en|]; [|discriminate]. destruct (js_exit j) as [ex|]; [|discriminate].
  cbv zeta. destruct (Nat.ltb (c_seq ex - 1) (c_seq en - 1)).
  - intros E. injection E as <-. intros [].
  - intros E Hc. apply (rev_range_sub _ _ _ _ _ c E) in Hc. unfold trip_rev in Hc. apply filter_In in Hc.
    destruct Hc as [Hc _]. unfold sorted_rev in Hc. apply in_isort in Hc. exact Hc.
Qed.

Lemma Forall_set_nth {A} (P : A -> Prop) f : (forall x, P x -> P (f x)) -> forall l i, Forall P l -> Forall P (set_nth l i f).
Proof.
  intros Hf. induction l as [|x l IH]; intros i H; [destruct i; exact H|].
  inversion H as [|x' l' Hx Hl]; subst. destruct i as [|i]; cbn [set_nth]; constructor; auto.
Qed.
Lemma Forall_erase {A} (P : A -> Prop) l a b : Forall P l -> Forall P (erase_range l a b).
Proof.
  intros H. unfold erase_range. apply Forall_app. rewrite Forall_forall in H. split; apply Forall_forall; intros x Hx; apply H.
  - rewrite <- (firstn_skipn a l). apply in_or_app. left. exact Hx.
  - rewrite <- (firstn_skipn b l). apply in_or_app. right. exact Hx.
Qed.

Lemma jin_set_exit d j c : In c (all_conns d) -> jin d j -> jin d (set_exit j c).
Proof. intros Hc [H1 H2]. split; cbn [set_exit js_enter js_exit]; [exact H1|]. intros c' E. inversion E; subst. exact Hc. Qed.
Lemma jin_set_enter d j c : In c (all_conns d) -> jin d j -> jin d (set_enter j c).
Proof. intros Hc [H1 H2]. split; cbn [set_enter js_enter js_exit]; [|exact H2]. intros c' E. inversion E; subst. exact Hc. Qed.
Lemma jin_set_walk d j w x : jin d j -> jin d (set_walk j w x).
Proof. intros H. exact H. Qed.

Lemma css_first_in node : forall rng e c, css_first node rng e = Some c -> In c rng \/ e = Some c.
Proof.
  induction rng as [|x r IH]; intros e c; cbn [css_first]; [auto|].
  destruct (Nat.eqb node (c_to x)).
  - destruct (c_cu x); [|auto]. intros H. apply IH in H. destruct H as [H|H]; [left; right; exact H|].
    inversion H; subst. left; left; reflexivity.
  - intros H. apply IH in H. destruct H as [H|H]; [left; right; exact H|right; exact H].
Qed.

Lemma model_pass_jin d js used ign js' used' ign' c : Forall (jin d) js ->
  model_pass d js used ign = PGo js' used' ign' c -> Forall (jin d) js'.
Proof.
  intros Hj. unfold model_pass, model_rewrite.
  destruct (detect d ign js 0 []) as [[[[[cs node] from] to]|]|]; [| intros E; inversion E; subst; exact Hj | discriminate].
  destruct (Nat.eqb cs 1).
  { destruct (leg_range d (nth_js js from)) as [rng|] eqn:El; [|discriminate].
    destruct (find _ rng) as [x|] eqn:Ef; [|intros E; inversion E; subst; exact Hj].
    apply find_some in Ef. destruct Ef as [Hx _]. pose proof (leg_range_all _ _ _ _ El Hx) as Hin.
    destruct (negb (c_cu x)); intros E; inversion E; subst; [exact Hj|].
    apply Forall_erase. apply Forall_set_nth; [|exact Hj]. intros j Hjj. apply jin_set_exit; [exact Hin|exact Hjj]. }
  destruct (Nat.eqb cs 2).
  { destruct (leg_range d (nth_js js to)) as [rng|] eqn:El; [|discriminate].
    destruct (find _ rng) as [x|] eqn:Ef; [|intros E; inversion E; subst; exact Hj].
    apply find_some in Ef. destruct Ef as [Hx _]. pose proof (leg_range_all _ _ _ _ El Hx) as Hin.
    destruct (negb (c_cb x)); intros E; inversion E; subst; [exact Hj|].
    apply Forall_erase. apply Forall_set_nth; [intros j Hjj; exact Hjj|].
    apply Forall_set_nth; [|exact Hj]. intros j Hjj. apply jin_set_enter; [exact Hin|exact Hjj]. }
  destruct (Nat.eqb cs 3).
  { destruct (leg_range d (nth_js js from)) as [rng|] eqn:El; [|discriminate].
    destruct (find _ rng) as [x|] eqn:Ef; [|intros E; inversion E; subst; exact Hj].
    apply find_some in Ef. destruct Ef as [Hx _]. pose proof (leg_range_all _ _ _ _ El Hx) as Hin.
    destruct (negb (c_cu x)); intros E; inversion E; subst; [exact Hj|].
    apply Forall_erase. apply Forall_set_nth; [|exact Hj]. intros j Hjj. apply jin_set_exit; [exact Hin|exact Hjj]. }
  destruct (leg_range d (nth_js js from)) as [rf|] eqn:Elf; [|discriminate].
  destruct (leg_range d (nth_js js to)) as [rt|] eqn:Elt; [|discriminate].
  rewrite css_second_find.
  destruct (find _ rt) as [x|] eqn:Ef; [|intros E; inversion E; subst; exact Hj].
  apply find_some in Ef. destruct Ef as [Hx _]. pose proof (leg_range_all _ _ _ _ Elt Hx) as Hin.
  destruct (css_first node rf None) as [ex|] eqn:Ec; [|intros E; inversion E; subst; exact Hj].
  apply css_first_in in Ec. destruct Ec as [Hex|Hex]; [|discriminate]. pose proof (leg_range_all _ _ _ _ Elf Hex) as Hin2.
  destruct (c_cb x); intros E; inversion E; subst; [|exact Hj].
  apply Forall_erase. apply Forall_set_nth; [intros j Hjj; apply jin_set_enter; [exact Hin|exact Hjj]|].
  apply Forall_set_nth; [|exact Hj]. intros j Hjj. apply jin_set_exit; [exact Hin2|exact Hjj].
Qed.

(* the loop: while (!startedOptimization || optimizationCase >= 0) *)
Theorem while_tie d : forall fuel m, Forall (jin d) (o_journey m) -> GO.gen_opt_continue m = true ->
  out_of (owhile d GO.gen_opt_leg GO.gen_opt_cases GO.gen_opt_continue GO.gen_opt_pass fuel m)
  = Some (optimize fuel d (o_journey m) (o_used m) (o_ign m)).
Proof.
  induction fuel as [|f IH]; intros m Hj Hc; cbn [owhile]; rewrite Hc; [reflexivity|].
  rewrite optimize_pass.
  assert (Hs : Forall seqs_ok (o_journey m)) by (eapply Forall_impl; [|exact Hj]; intros j; apply jin_seqs_ok).
  pose proof (pass_tie d m (fun m' => owhile d GO.gen_opt_leg GO.gen_opt_cases GO.gen_opt_continue GO.gen_opt_pass f m')
                       (fun _ => OStuck) Hs _ eq_refl) as HP.
  pose proof (model_pass_jin d (o_journey m) (o_used m) (o_ign m)) as HJ.
  destruct (model_pass d (o_journey m) (o_used m) (o_ign m)) as [|js' used' ign' c]; [rewrite HP; reflexivity|].
  destruct HP as (m' & -> & Ho). unfold obs in Ho. injection Ho as E1 E2 E3 E4 E5.
  specialize (HJ js' used' ign' c Hj eq_refl). subst js' used' ign' c.
  assert (Hcm : GO.gen_opt_continue m' = (o_case m' >=? 0)).
  { unfold GO.gen_opt_continue. rewrite E5. reflexivity. }
  destruct (o_case m' >=? 0) eqn:Ec.
  - rewrite IH; [reflexivity | exact HJ | exact Hcm].
  - destruct f; cbn [owhile]; rewrite Hcm; reflexivity.
Qed.

(* the whole function: the statements before the loop, then the loop; whatever the variables held before *)
Theorem optimize_function_tie d fuel m : Forall (jin d) (o_journey m) ->
  out_of (orun_function d GO.gen_opt_leg GO.gen_opt_cases GO.gen_opt_before GO.gen_opt_continue GO.gen_opt_pass fuel m)
  = Some (optimize fuel d (o_journey m) [] []).
Proof.
  intros Hj. unfold orun_function, GO.gen_opt_before. ostep. onorm.
  rewrite while_tie; [reflexivity | exact Hj | reflexivity].
Qed.

(* the journeys the reverse scan and the rebuild loop hand to optimizeJourney (RevInv.calc_single_ok: journey_ok_b) ride
   connections of the data *)
Lemma conn_in_data_all d c : TrV.Spec.conn_in_data d c = true -> In c (all_conns d).
Proof.
  intros H. apply conn_in_data_inv in H. unfold TrV.Spec.find_conn in H.
  destruct (find_trip d (c_trip c)) as [tr|] eqn:Et; [|discriminate].
  apply find_some in H. unfold find_trip in Et. apply find_some in Et.
  unfold all_conns. apply in_flat_map. exists tr. split; [exact (proj1 Et)|exact (proj1 H)].
Qed.

Lemma walk_jin d j : TrV.Spec.is_walk j = true -> jin d j.
Proof.
  unfold TrV.Spec.is_walk. intros H. apply andb_true_iff in H. destruct H as [H1 H2].
  split; intros c Hc; rewrite Hc in *; discriminate.
Qed.

Lemma journey_ok_jin d s p acc egr bd js : TrV.Spec.journey_ok_b d s p acc egr bd js = true -> Forall (jin d) js.
Proof.
  intros H. unfold TrV.Spec.journey_ok_b in H.
  destruct js as [|a rest]; [discriminate|].
  apply andb_true_iff in H. destruct H as [Ha H].
  destruct (rev rest) as [|e legs_rev] eqn:Er; [discriminate|].
  cbv zeta in H.
  apply andb_true_iff in H. destruct H as [H _].
  apply andb_true_iff in H. destruct H as [He Hl].
  assert (Erest : rest = rev legs_rev ++ [e]).
  { rewrite <- (rev_involutive rest), Er. reflexivity. }
  subst rest. constructor; [exact (walk_jin d a Ha)|].
  apply Forall_app. split.
  - apply Forall_forall. intros j Hj. rewrite forallb_forall in Hl.
    destruct (jleg_ok_inv d s p j (Hl j Hj)) as (b & e' & t & tr & Hb & He' & _ & _ & _ & Cb & Ce & _).
    split; intros c Hc; rewrite Hc in *.
    + inversion Hb; subst. exact (conn_in_data_all d b Cb).
    + inversion He'; subst. exact (conn_in_data_all d e' Ce).
  - constructor; [exact (walk_jin d e He)|constructor].
Qed.

Theorem optimize_function_tie_answers d s p acc egr bd fuel m :
  TrV.Spec.journey_ok_b d s p acc egr bd (o_journey m) = true ->
  out_of (orun_function d GO.gen_opt_leg GO.gen_opt_cases GO.gen_opt_before GO.gen_opt_continue GO.gen_opt_pass fuel m)
  = Some (optimize fuel d (o_journey m) [] []).
Proof. intros H. apply optimize_function_tie. exact (journey_ok_jin d s p acc egr bd _ H). Qed.
