(* Proofs/RevOpt.v — completeness (optimality) of the reverse scan.

   RevInv.v proves that everything the reverse scan writes is justified (soundness).  This file proves the
   converse: every admissible suffix journey is accounted for by the scan state — r_taur dominates its ready
   time at every stop from which its first boarding can be walked to, the trip of its first ride has an exit
   recorded, r_acc of its boarding stop holds a boarding that leaves at least as late — and that neither the
   first guard, nor the two `break`s, nor the exit-replacement rule lose such a journey.

   Layers:
     1. the step functions by outcome, completeness direction (rev_fp_step_comp, rev_fp_fold_comp, rev_step_cases);
     2. dataset facts (stops of a connection, transposed footpaths, order of the scanned list);
     3. facts about declarative journeys (reaches);
     4. the completeness invariant Comp and its preservation by one scan step;
     5. the scan as a whole: decomposition into a processed prefix and (possibly) a breaking connection;
     6. best_access is the maximum over the access rows;
     7. the theorems: R-complete (calc_reverse, both call sites of calc_single), the accessibility scan
        (all_nodes = true) through Termination.allnodes_calc. *)
From Coq Require Import List ZArith Bool Arith Lia Sorted.
From TrV Require Import Spec Admissible.
From TrV.Proofs Require Import SortFilter Index RevInv Termination.
Import ListNotations.
Local Open Scope Z_scope.

(* ---------------------------------------------------------------------------------------------- *)
(* 1. the step functions by outcome: what a step guarantees                                        *)

(* the access candidate of a stop leaves (boarding departure - minimum waiting) no earlier than v *)
Definition acc_ge (d : data) (p : params) (a : option jstep) (v : Z) : Prop :=
  exists j b, a = Some j /\ js_enter j = Some b /\ In b (all_conns d) /\ v <= c_dep b - minw_eff p b.

Definition acc_wf (d : data) (racc : nat -> option jstep) : Prop :=
  forall n j, racc n = Some j -> exists b, js_enter j = Some b /\ In b (all_conns d).

(* the lower bound of a departure query (C05: the reverse scan after the forward scan) *)
Definition dep_ok (k : calc) (c : conn) (minw : Z) : Prop :=
  k_dep k = -1 \/ exists ar, row_of (c_from c) (k_accfp k) = Some ar /\ k_dep k <= c_dep c - fp_time ar - minw.

Transparent rev_step rev_fp_step.

Lemma rev_fp_step_comp d p k c exitc taur steps racc r :
  In c (all_conns d) -> (k_dep k = -1 \/ q_maxfw p <= 0) -> acc_wf d racc ->
  exists taur' steps' racc',
    rev_fp_step p k c (minw_eff p c) exitc (taur, steps, racc) r = (taur', steps', racc') /\
    acc_wf d racc' /\
    (forall x, taur x <= taur' x) /\
    (0 <= fp_time r -> fp_time r <= q_maxtr p -> c_dep c - fp_time r - minw_eff p c <= taur' (fp_node r)) /\
    (forall n v, acc_ge d p (racc n) v -> acc_ge d p (racc' n) v) /\
    (fp_node r = c_from c -> fp_time r <= q_maxtr p -> dep_ok k c (minw_eff p c) ->
     acc_ge d p (racc' (c_from c)) (c_dep c - minw_eff p c)).
Proof.
  intros Hc Hfw Hwf. unfold rev_fp_step. set (minw := minw_eff p c).
  destruct (negb (Nat.eqb (c_from c) (fp_node r)) && (taur (fp_node r) >? c_dep c - minw)) eqn:E1.
  { apply andb_prop in E1. destruct E1 as [E1a E1b]. apply negb_true_iff in E1a. apply Nat.eqb_neq in E1a.
    apply Z.gtb_lt in E1b.
    exists taur, steps, racc. split; [reflexivity|]. split; [exact Hwf|]. split; [intros x; lia|].
    split; [intros H0 _; lia|]. split; [intros n v H; exact H|].
    intros En. exfalso. apply E1a. symmetry. exact En. }
  destruct (fp_time r <=? q_maxtr p) eqn:E2.
  2:{ apply Z.leb_gt in E2.
      exists taur, steps, racc. split; [reflexivity|]. split; [exact Hwf|]. split; [intros x; lia|].
      split; [intros _ H1; lia|]. split; [intros n v H; exact H|]. intros _ H1. lia. }
  apply Z.leb_le in E2.
  set (A1 := if Nat.eqb (c_from c) (fp_node r) &&
                 match racc (fp_node r) with
                 | None => true
                 | Some j => match js_enter j with
                             | Some b => c_dep b - minw_eff p b <=? c_dep c - minw
                             | None => false
                             end
                 end
             then
               if (k_dep k =? -1) ||
                  match row_of (c_from c) (k_accfp k) with
                  | Some ar => c_dep c - fp_time ar - minw >=? k_dep k
                  | None => false
                  end
               then
                 if (k_dep k =? -1) || (q_maxfw p <=? 0) ||
                    match row_of (c_from c) (k_accfp k) with
                    | Some ar => c_dep c - k_dep k - fp_time ar <=? q_maxfw p
                    | None => false
                    end
                 then upd racc (fp_node r) (Some (mk_js (Some c) exitc (c_trip c) 0 true 0))
                 else racc
               else racc
             else racc).
  assert (HA : acc_wf d A1 /\
               (forall n v, acc_ge d p (racc n) v -> acc_ge d p (A1 n) v) /\
               (fp_node r = c_from c -> dep_ok k c minw -> acc_ge d p (A1 (c_from c)) (c_dep c - minw))).
  { assert (Hnew : acc_ge d p (Some (mk_js (Some c) exitc (c_trip c) 0 true 0)) (c_dep c - minw)).
    { exists (mk_js (Some c) exitc (c_trip c) 0 true 0), c. split; [reflexivity|]. split; [reflexivity|].
      split; [exact Hc|]. subst minw. lia. }
    subst A1.
    destruct (Nat.eqb (c_from c) (fp_node r)) eqn:En.
    2:{ cbn [andb]. split; [exact Hwf|]. split; [intros n v H; exact H|].
        intros E. apply Nat.eqb_neq in En. exfalso. apply En. symmetry. exact E. }
    apply Nat.eqb_eq in En. cbn [andb].
    destruct (match racc (fp_node r) with
              | None => true
              | Some j => match js_enter j with
                          | Some b => c_dep b - minw_eff p b <=? c_dep c - minw
                          | None => false
                          end
              end) eqn:E3.
    - (* the stored candidate, if any, is not later: replace, subject to the two filters *)
      assert (Hold : forall v, acc_ge d p (racc (fp_node r)) v -> v <= c_dep c - minw).
      { intros v (j & b & Hj & Hb & _ & Hv). rewrite Hj, Hb in E3. apply Z.leb_le in E3. lia. }
      destruct ((k_dep k =? -1) ||
                match row_of (c_from c) (k_accfp k) with
                | Some ar => c_dep c - fp_time ar - minw >=? k_dep k
                | None => false
                end) eqn:E4.
      + assert (E5 : (k_dep k =? -1) || (q_maxfw p <=? 0) ||
                     match row_of (c_from c) (k_accfp k) with
                     | Some ar => c_dep c - k_dep k - fp_time ar <=? q_maxfw p
                     | None => false
                     end = true).
        { destruct Hfw as [Hk|Hfw].
          - apply Z.eqb_eq in Hk. rewrite Hk. reflexivity.
          - apply Z.leb_le in Hfw. rewrite Hfw. rewrite orb_true_r. reflexivity. }
        rewrite E5. split; [|split].
        * intros n j Hj. destruct (Nat.eq_dec n (fp_node r)) as [E|E].
          -- subst n. rewrite upd_same in Hj. inversion Hj; subst j. exists c. split; [reflexivity|exact Hc].
          -- rewrite upd_other in Hj by exact E. apply (Hwf n j Hj).
        * intros n v H. destruct (Nat.eq_dec n (fp_node r)) as [E|E].
          -- subst n. rewrite upd_same. specialize (Hold v H).
             destruct Hnew as (j & b & N1 & N2 & N3 & N4). exists j, b. repeat split; try assumption. lia.
          -- rewrite upd_other by exact E. exact H.
        * intros _ _. rewrite En, upd_same. exact Hnew.
      + split; [exact Hwf|]. split; [intros n v H; exact H|].
        intros _ Hd. exfalso. destruct Hd as [Hd|(ar & Har & Hd)].
        * apply Z.eqb_eq in Hd. rewrite Hd in E4. discriminate.
        * rewrite Har in E4. apply orb_false_iff in E4. destruct E4 as [_ E4].
          rewrite Z.geb_leb in E4. apply Z.leb_gt in E4. lia.
    - (* a strictly later candidate is stored: keep it *)
      split; [exact Hwf|]. split; [intros n v H; exact H|].
      intros _ _. rewrite En.
      destruct (racc (fp_node r)) as [j|] eqn:Ej; [|discriminate].
      destruct (Hwf _ _ Ej) as (b & Hb & Hbin). rewrite Hb in E3. apply Z.leb_gt in E3.
      exists j, b. repeat split; try assumption. lia. }
  destruct HA as (HA1 & HA2 & HA3).
  destruct (c_dep c - fp_time r - minw >? taur (fp_node r)) eqn:E6.
  - apply Z.gtb_lt in E6.
    exists (upd taur (fp_node r) (c_dep c - fp_time r - minw)),
           (upd steps (fp_node r) (mk_js (Some c) exitc (c_trip c) (fp_time r) (Nat.eqb (c_from c) (fp_node r)) (fp_dist r))), A1.
    split; [reflexivity|]. split; [exact HA1|]. split; [|split; [|split]].
    + intros x. unfold upd. destruct (Nat.eqb x (fp_node r)) eqn:Ex; [|lia].
      apply Nat.eqb_eq in Ex. subst x. lia.
    + intros _ _. rewrite upd_same. lia.
    + exact HA2.
    + intros En _ Hd. apply HA3; assumption.
  - rewrite Z.gtb_ltb in E6. apply Z.ltb_ge in E6.
    exists taur, steps, A1. split; [reflexivity|]. split; [exact HA1|]. split; [intros x; lia|].
    split; [intros _ _; lia|]. split; [exact HA2|].
    intros En _ Hd. apply HA3; assumption.
Qed.

Lemma rev_fp_fold_comp d p k c exitc :
  In c (all_conns d) -> (k_dep k = -1 \/ q_maxfw p <= 0) ->
  forall rows taur steps racc, acc_wf d racc -> (forall r, In r rows -> 0 <= fp_time r) ->
  exists taur' steps' racc',
    fold_left (rev_fp_step p k c (minw_eff p c) exitc) rows (taur, steps, racc) = (taur', steps', racc') /\
    acc_wf d racc' /\
    (forall x, taur x <= taur' x) /\
    (forall r, In r rows -> fp_time r <= q_maxtr p -> c_dep c - fp_time r - minw_eff p c <= taur' (fp_node r)) /\
    (forall n v, acc_ge d p (racc n) v -> acc_ge d p (racc' n) v) /\
    (forall r, In r rows -> fp_node r = c_from c -> fp_time r <= q_maxtr p -> dep_ok k c (minw_eff p c) ->
     acc_ge d p (racc' (c_from c)) (c_dep c - minw_eff p c)).
Proof.
  intros Hc Hfw. induction rows as [|r rows IH]; intros taur steps racc Hwf Hpos.
  - exists taur, steps, racc. split; [reflexivity|]. split; [exact Hwf|]. split; [intros x; lia|].
    split; [intros r []|]. split; [intros n v H; exact H|]. intros r [].
  - cbn [fold_left].
    destruct (rev_fp_step_comp d p k c exitc taur steps racc r Hc Hfw Hwf)
      as (t1 & s1 & a1 & E1 & W1 & M1 & B1 & A1 & N1).
    rewrite E1.
    destruct (IH t1 s1 a1 W1 (fun r0 H0 => Hpos r0 (or_intror H0)))
      as (t2 & s2 & a2 & E2 & W2 & M2 & B2 & A2 & N2).
    exists t2, s2, a2. split; [exact E2|]. split; [exact W2|]. split; [|split; [|split]].
    + intros x. specialize (M1 x). specialize (M2 x). lia.
    + intros r0 [H0|H0] Hmax.
      * subst r0. specialize (B1 (Hpos r (or_introl eq_refl)) Hmax). specialize (M2 (fp_node r)). lia.
      * apply B2; assumption.
    + intros n v H. apply A2. apply A1. exact H.
    + intros r0 [H0|H0] En Hmax Hd.
      * subst r0. apply A2. apply N1; assumption.
      * apply (N2 r0); assumption.
Qed.

(* the two early terminations of the single-route scan *)
Definition brk (p : params) (k : calc) (st : rstate) (c : conn) : Prop :=
  (r_reached st = true /\ 0 <= k_maxAcc k /\ c_arr c < r_tent st - k_maxAcc k) \/ k_arr k - c_arr c > q_maxtt p.

Definition stopped (st : rstate) : rstate :=
  {| r_taur := r_taur st; r_steps := r_steps st; r_ov := r_ov st; r_acc := r_acc st;
     r_count := r_count st; r_reached := r_reached st; r_tent := r_tent st; r_stop := true |}.

Lemma rev_step_stopped d p k a st c : r_stop st = true -> rev_step d p k a st c = st.
Proof. intros H. unfold rev_step. rewrite H. reflexivity. Qed.

Lemma rev_step_cases d p k st c : r_stop st = false ->
  let st' := rev_step d p k false st c in
  (* skipped *)
  (st' = st /\
   (c_arr c > k_arr k - k_minEgr k \/ o_usable (r_ov st (c_trip c)) = false \/ k_disabled k (c_trip c) = true \/
    (o_exit (r_ov st (c_trip c)) = None /\ r_taur st (c_to c) < c_arr c))) \/
  (* break *)
  (st' = stopped st /\ brk p k st c) \/
  (* processed *)
  (r_stop st' = false /\ r_ov st' = upd (r_ov st) (c_trip c) (ov1_of p st c) /\ r_count st' = r_count st + 1 /\
   (o_usable (r_ov st (c_trip c)) = true /\ k_disabled k (c_trip c) = false /\
    (is_some (o_exit (r_ov st (c_trip c))) || (r_taur st (c_to c) >=? c_arr c)) = true) /\
   ((r_taur st' = r_taur st /\ r_steps st' = r_steps st /\ r_acc st' = r_acc st /\
     r_reached st' = r_reached st /\ r_tent st' = r_tent st /\
     (c_cb c = false \/ o_exit (ov1_of p st c) = None)) \/
    (c_cb c = true /\ exists e, o_exit (ov1_of p st c) = Some e /\
       (r_taur st', r_steps st', r_acc st') =
       fold_left (rev_fp_step p k c (minw_eff p c) (Some e)) (rfp_of d (c_from c))
                 (r_taur st, r_steps st, r_acc st) /\
       ((r_reached st = false /\ (exists ar, row_of (c_from c) (k_accfp k) = Some ar) /\
         r_reached st' = true /\ r_tent st' = c_dep c - minw_eff p c) \/
        (r_reached st' = r_reached st /\ r_tent st' = r_tent st))))).
Proof.
  intros Hstop st'. subst st'. unfold rev_step. fold (ov1_of p st c). rewrite Hstop.
  destruct (c_arr c <=? k_arr k - (if false then 0 else k_minEgr k)) eqn:G1.
  2:{ left. split; [reflexivity|]. left. apply Z.leb_gt in G1. lia. }
  destruct (o_usable (r_ov st (c_trip c)) && negb (k_disabled k (c_trip c))) eqn:G3.
  2:{ left. split; [reflexivity|]. apply andb_false_iff in G3. destruct G3 as [G3|G3].
      - right. left. exact G3.
      - right. right. left. apply negb_false_iff in G3. exact G3. }
  destruct ((negb false && r_reached st && (k_maxAcc k >=? 0) && (c_arr c <? r_tent st - k_maxAcc k))
            || (k_arr k - c_arr c >? q_maxtt p)) eqn:B.
  { right. left. split; [reflexivity|]. unfold brk. apply orb_prop in B. destruct B as [B|B].
    - left. apply andb_prop in B. destruct B as [B B3]. apply andb_prop in B. destruct B as [B B2].
      cbn [negb andb] in B. apply Z.geb_le in B2. apply Z.ltb_lt in B3. repeat split; assumption.
    - right. apply Z.gtb_lt in B. lia. }
  destruct (is_some (o_exit (r_ov st (c_trip c))) || (r_taur st (c_to c) >=? c_arr c)) eqn:G5.
  2:{ left. split; [reflexivity|]. right. right. right. apply orb_false_iff in G5. destruct G5 as [G5a G5b].
      split.
      - destruct (o_exit (r_ov st (c_trip c))); [discriminate|reflexivity].
      - rewrite Z.geb_leb in G5b. apply Z.leb_gt in G5b. exact G5b. }
  right. right.
  assert (HG : o_usable (r_ov st (c_trip c)) = true /\ k_disabled k (c_trip c) = false /\
               (is_some (o_exit (r_ov st (c_trip c))) || (r_taur st (c_to c) >=? c_arr c)) = true).
  { apply andb_prop in G3. destruct G3 as [G3a G3b]. apply negb_true_iff in G3b. repeat split; assumption. }
  destruct (c_cb c && is_some (o_exit (ov1_of p st c))) eqn:E3.
  - apply andb_prop in E3. destruct E3 as [E3 E4].
    destruct (o_exit (ov1_of p st c)) as [e|] eqn:E5; [|discriminate].
    destruct (negb false && negb (r_reached st) &&
              match row_of (c_from c) (k_accfp k) with
              | Some r => negb (fp_time r =? -1)
              | None => false
              end) eqn:E6.
    + destruct (fold_left (rev_fp_step p k c (minw_eff p c) (Some e)) (rfp_of d (c_from c))
                          (r_taur st, r_steps st, r_acc st)) as [[t1 s1] a1] eqn:F.
      cbn [r_taur r_steps r_ov r_acc r_stop r_count r_reached r_tent].
      split; [reflexivity|]. split; [reflexivity|]. split; [reflexivity|]. split; [split; [apply HG|split; [apply HG|reflexivity]]|]. right. split; [exact E3|].
      exists e. split; [reflexivity|]. split; [symmetry; exact F|]. left.
      apply andb_prop in E6. destruct E6 as [E6 E7]. cbn [negb andb] in E6. apply negb_true_iff in E6.
      split; [exact E6|]. split; [|split; reflexivity].
      destruct (row_of (c_from c) (k_accfp k)) as [ar|]; [exists ar; reflexivity|discriminate].
    + destruct (fold_left (rev_fp_step p k c (minw_eff p c) (Some e)) (rfp_of d (c_from c))
                          (r_taur st, r_steps st, r_acc st)) as [[t1 s1] a1] eqn:F.
      cbn [r_taur r_steps r_ov r_acc r_stop r_count r_reached r_tent].
      split; [reflexivity|]. split; [reflexivity|]. split; [reflexivity|]. split; [split; [apply HG|split; [apply HG|reflexivity]]|]. right. split; [exact E3|].
      exists e. split; [reflexivity|]. split; [symmetry; exact F|]. right. split; reflexivity.
  - cbn [r_taur r_steps r_ov r_acc r_stop r_count r_reached r_tent].
    split; [reflexivity|]. split; [reflexivity|]. split; [reflexivity|]. split; [split; [apply HG|split; [apply HG|reflexivity]]|]. left.
    repeat (split; [reflexivity|]).
    apply andb_false_iff in E3. destruct E3 as [E3|E3]; [left; exact E3|right].
    destruct (o_exit (ov1_of p st c)); [discriminate|reflexivity].
Qed.

Lemma ov1_is_some p st c :
  is_some (o_exit (ov1_of p st c)) = is_some (o_exit (r_ov st (c_trip c))) || c_cu c.
Proof.
  unfold ov1_of. destruct (c_cu c); [|rewrite orb_false_r; reflexivity].
  rewrite orb_true_r.
  destruct (o_exit (r_ov st (c_trip c))) as [e0|] eqn:Eex; cbn [is_some negb]; [|reflexivity].
  destruct (js_enter (r_steps st (c_to c))) as [b|]; [|rewrite Eex; reflexivity].
  destruct ((js_walk (r_steps st (c_to c)) >=? 0) &&
            (js_walk (r_steps st (c_to c)) <? o_exit_w (r_ov st (c_trip c))) &&
            (c_arr c + minw_eff p b <=? r_taur st (c_to c))); [reflexivity|rewrite Eex; reflexivity].
Qed.

Lemma ov1_usable p st c : o_usable (ov1_of p st c) = o_usable (r_ov st (c_trip c)).
Proof.
  unfold ov1_of. destruct (c_cu c); [|reflexivity].
  destruct (negb (is_some (o_exit (r_ov st (c_trip c))))); [reflexivity|].
  destruct (js_enter (r_steps st (c_to c))) as [b|]; [|reflexivity].
  destruct ((js_walk (r_steps st (c_to c)) >=? 0) &&
            (js_walk (r_steps st (c_to c)) <? o_exit_w (r_ov st (c_trip c))) &&
            (c_arr c + minw_eff p b <=? r_taur st (c_to c))); reflexivity.
Qed.

Opaque rev_step rev_fp_step.

(* ---------------------------------------------------------------------------------------------- *)
(* 2. dataset facts                                                                                 *)

Lemma mk_conns_to : forall tid minw nodes seq times c,
  In c (mk_conns tid minw seq nodes times) -> In (c_to c) nodes.
Proof.
  intros tid minw. induction nodes as [|n0 ns IH]; intros seq times c H.
  - destruct H.
  - destruct ns as [|n1 ns']; [destruct H|].
    destruct times as [|s0 [|s1 ss]]; [destruct H|destruct H|].
    rewrite mk_conns_cons in H. destruct H as [H|H].
    + subst c. cbn [c_to]. right. left. reflexivity.
    + right. apply (IH (S seq) (s1 :: ss) c H).
Qed.

Lemma conn_to_node d c : wf_data_b d = true -> In c (all_conns d) -> In (c_to c) (d_nodes d).
Proof.
  intros Hwf Hc. destruct (all_conns_in d c Hc) as (tr & Htr & Hin).
  destruct (wf_trip d Hwf tr Htr) as (pth & Hp & _ & _).
  unfold trip_conns in Hin. apply mk_conns_to in Hin.
  unfold trip_nodes in Hin. rewrite Hp in Hin.
  unfold find_path in Hp. apply find_some in Hp. destruct Hp as [Hp _].
  apply (wf_path_nodes d Hwf pth Hp). exact Hin.
Qed.

Lemma times_ok_dep s0 ss : times_ok (s0 :: ss) = true -> st_dep s0 < CLOCK_MAX /\ times_ok ss = true.
Proof.
  intros H. cbn [times_ok] in H. peel H T5. peel H T4. peel H T3. apply Z.ltb_lt in T3. split; assumption.
Qed.

Lemma mk_conns_dep_lt : forall tid minw nodes seq times c,
  times_ok times = true -> In c (mk_conns tid minw seq nodes times) -> c_dep c < CLOCK_MAX.
Proof.
  intros tid minw. induction nodes as [|n0 ns IH]; intros seq times c Ht H.
  - destruct H.
  - destruct ns as [|n1 ns']; [destruct H|].
    destruct times as [|s0 [|s1 ss]]; [destruct H|destruct H|].
    rewrite mk_conns_cons in H. apply times_ok_dep in Ht. destruct Ht as [T1 T2].
    destruct H as [H|H].
    + subst c. cbn [c_dep]. exact T1.
    + apply (IH (S seq) (s1 :: ss) c T2 H).
Qed.

Lemma conn_dep_lt d c : wf_data_b d = true -> In c (all_conns d) -> c_dep c < CLOCK_MAX.
Proof.
  intros Hwf Hc. destruct (all_conns_in d c Hc) as (tr & Htr & Hin).
  destruct (wf_trip d Hwf tr Htr) as (pth & _ & _ & Ht).
  unfold trip_conns in Hin. apply (mk_conns_dep_lt _ _ _ _ _ _ Ht Hin).
Qed.

(* a connection is determined by its trip and sequence number *)
Lemma conn_same d a b : wf_data_b d = true -> In a (all_conns d) -> In b (all_conns d) ->
  c_trip a = c_trip b -> c_seq a = c_seq b -> a = b.
Proof.
  intros Hwf Ha Hb Et Es.
  destruct (all_conns_in d a Ha) as (tra & Htra & Hina).
  destruct (all_conns_in d b Hb) as (trb & Htrb & Hinb).
  assert (E : tra = trb).
  { apply (nodup_nat_inj (d_trips d) (wf_nodup_trips d Hwf)); try assumption.
    rewrite <- (trip_conns_trip d tra a Hina), <- (trip_conns_trip d trb b Hinb). exact Et. }
  subst trb. unfold trip_conns in Hina, Hinb.
  pose proof (mk_conns_find _ _ _ _ _ a Hina) as Fa.
  pose proof (mk_conns_find _ _ _ _ _ b Hinb) as Fb.
  rewrite Es in Fa. rewrite Fa in Fb. inversion Fb. reflexivity.
Qed.

Lemma conn_arr_le_arr d b e : wf_data_b d = true -> In b (all_conns d) -> In e (all_conns d) ->
  c_trip b = c_trip e -> (c_seq b <= c_seq e)%nat -> c_arr b <= c_arr e.
Proof.
  intros Hwf Hb He Et Hseq.
  destruct (Nat.eq_dec (c_seq b) (c_seq e)) as [Eq|Ne].
  - rewrite (conn_same d b e Hwf Hb He Et Eq). lia.
  - destruct (all_conns_in d b Hb) as (trb & Htrb & Hinb).
    destruct (all_conns_in d e He) as (tre & Htre & Hine).
    assert (E : trb = tre).
    { apply (nodup_nat_inj (d_trips d) (wf_nodup_trips d Hwf)); try assumption.
      rewrite <- (trip_conns_trip d trb b Hinb), <- (trip_conns_trip d tre e Hine). exact Et. }
    subst tre. destruct (wf_trip d Hwf trb Htrb) as (pth & _ & _ & Ht).
    unfold trip_conns in Hinb, Hine.
    assert (Hlt : (c_seq b < c_seq e)%nat) by lia.
    pose proof (mk_conns_mono _ _ _ _ _ b e Ht Hinb Hine Hlt) as M.
    destruct (mk_conns_times _ _ _ _ _ e Ht Hine) as (_ & Me & _). lia.
Qed.

Lemma pos_hop d c : pos_hops_b d = true -> In c (all_conns d) -> c_dep c < c_arr c.
Proof.
  unfold pos_hops_b. intros H Hc. rewrite forallb_forall in H. specialize (H c Hc). apply Z.ltb_lt in H. exact H.
Qed.

Lemma uniform_minw d p c : uniform_wait_b d = true -> In c (all_conns d) -> minw_eff p c = q_minw p.
Proof.
  unfold uniform_wait_b. intros H Hc. rewrite forallb_forall in H. specialize (H c Hc). apply Z.ltb_lt in H.
  unfold minw_eff. destruct (c_minw c >=? 0) eqn:E; [|reflexivity]. apply Z.geb_le in E. lia.
Qed.

Lemma has_row_elim rows n w : has_row rows n w = true -> exists r, In r rows /\ fp_node r = n /\ fp_time r = w.
Proof.
  unfold has_row. intros H. apply existsb_exists in H. destruct H as (r & Hr & E).
  apply andb_prop in E. destruct E as [E1 E2]. apply Nat.eqb_eq in E1. apply Z.eqb_eq in E2.
  exists r. repeat split; assumption.
Qed.

Lemma footpaths_node d : wf_data_b d = true -> forall n, In n (d_nodes d) ->
  (forall r, In r (fp_of d n) -> 0 <= fp_time r) /\
  (forall n' w, has_row (fp_of d n) n' w = true ->
                exists r, In r (rfp_of d n') /\ fp_node r = n /\ fp_time r = w) /\
  (exists r, In r (rfp_of d n) /\ fp_node r = n /\ fp_time r = 0).
Proof.
  intros H n Hn. apply wf_data_parts in H. destruct H as (_ & W & _ & _).
  unfold footpaths_ok in W. rewrite forallb_forall in W. specialize (W n Hn).
  peel W F8. peel W F7. peel W F6. peel W F5. peel W F4. peel W F3. peel W F2.
  split; [|split].
  - intros r Hr. unfold rows_ok in W. rewrite forallb_forall in W. specialize (W r Hr).
    peel W G4. peel W G3. peel W G2. apply Z.leb_le in G2. exact G2.
  - intros n' w Hrow. apply has_row_elim in Hrow. destruct Hrow as (r & Hr & E1 & E2).
    rewrite forallb_forall in F5. specialize (F5 r Hr). rewrite E1, E2 in F5.
    apply has_row_elim in F5. exact F5.
  - apply has_row_elim in F4. exact F4.
Qed.

Lemma row_of_in rows r : nodup_nat (map fp_node rows) = true -> In r rows -> row_of (fp_node r) rows = Some r.
Proof.
  induction rows as [|a rows IH]; intros Hnd Hin; [destruct Hin|].
  cbn [map nodup_nat] in Hnd. apply andb_prop in Hnd. destruct Hnd as [Hn Hnd].
  cbn [row_of]. destruct Hin as [Hin|Hin].
  - subst a. rewrite Nat.eqb_refl. reflexivity.
  - destruct (Nat.eqb (fp_node a) (fp_node r)) eqn:E; [|apply IH; assumption].
    apply Nat.eqb_eq in E. exfalso. apply negb_true_iff in Hn.
    assert (M : memb (fp_node a) (map fp_node rows) = true)
      by (apply memb_In; rewrite E; apply in_map; exact Hin).
    congruence.
Qed.

Lemma min_time_le rows r : In r rows -> min_time rows <= fp_time r.
Proof.
  unfold min_time.
  assert (G : forall rows a, fold_left (fun a r => if fp_time r <? a then fp_time r else a) rows a <= a /\
              forall r, In r rows -> fold_left (fun a r => if fp_time r <? a then fp_time r else a) rows a <= fp_time r).
  { induction rows0 as [|x rows0 IH]; intros a; cbn [fold_left].
    - split; [lia|intros r0 []].
    - destruct (IH (if fp_time x <? a then fp_time x else a)) as [I1 I2]. split.
      + destruct (Z.ltb_spec (fp_time x) a); lia.
      + intros r0 [H0|H0]; [subst r0|apply I2; exact H0].
        destruct (Z.ltb_spec (fp_time x) a); lia. }
  intros H. apply (proj2 (G rows MAX_INT) r H).
Qed.

Lemma max_time_ge rows r : In r rows -> fp_time r <= max_time rows.
Proof.
  unfold max_time.
  assert (G : forall rows a, a <= fold_left (fun a r => if fp_time r >? a then fp_time r else a) rows a /\
              forall r, In r rows -> fp_time r <= fold_left (fun a r => if fp_time r >? a then fp_time r else a) rows a).
  { induction rows0 as [|x rows0 IH]; intros a; cbn [fold_left].
    - split; [lia|intros r0 []].
    - destruct (IH (if fp_time x >? a then fp_time x else a)) as [I1 I2]. split.
      + destruct (Z.gtb_spec (fp_time x) a); lia.
      + intros r0 [H0|H0]; [subst r0|apply I2; exact H0].
        destruct (Z.gtb_spec (fp_time x) a); lia. }
  intros H. apply (proj2 (G rows (-1)) r H).
Qed.

Lemma min_time_nonneg rows : (forall r, In r rows -> 0 <= fp_time r) -> 0 <= min_time rows.
Proof.
  unfold min_time.
  assert (G : forall rows a, 0 <= a -> (forall r, In r rows -> 0 <= fp_time r) ->
              0 <= fold_left (fun a r => if fp_time r <? a then fp_time r else a) rows a).
  { induction rows0 as [|x rows0 IH]; intros a Ha Hr; cbn [fold_left]; [exact Ha|].
    apply IH; [|intros r0 H0; apply Hr; right; exact H0].
    specialize (Hr x (or_introl eq_refl)). destruct (fp_time x <? a); lia. }
  intros H. apply G; [unfold MAX_INT; lia|exact H].
Qed.

Lemma rows_ok_nonneg d rows r : rows_ok d rows = true -> In r rows -> 0 <= fp_time r.
Proof.
  unfold rows_ok. intros H Hr. rewrite forallb_forall in H. specialize (H r Hr).
  peel H G4. peel H G3. peel H G2. apply Z.leb_le in G2. exact G2.
Qed.

Lemma wf_tables_parts d p acc egr : wf_tables_b d p acc egr = true ->
  rows_ok d acc = true /\ rows_ok d egr = true /\
  nodup_nat (map fp_node acc) = true /\ nodup_nat (map fp_node egr) = true.
Proof.
  unfold wf_tables_b. intros H. peel H T6. peel H T5. peel H T4. peel H T3. peel H T2. repeat split; assumption.
Qed.

(* the scanned list: membership and order *)
Lemma cs_rev_intro d s c : In c (all_conns d) -> memb (c_trip c) (enabled_trips d s) = true ->
  In c (cs_rev (conn_set d s)).
Proof.
  intros H1 H2. unfold conn_set, mk_connset. cbn [cs_rev]. apply filter_In. split; [|exact H2].
  unfold sorted_rev. apply in_isort. exact H1.
Qed.

Lemma cs_rev_sorted d s : StronglySorted (le_of rev_lt) (cs_rev (conn_set d s)).
Proof.
  unfold conn_set, mk_connset, sorted_rev. cbn [cs_rev]. rewrite filter_isort_rev.
  apply (isort_sorted rev_lt rev_lt_asym rev_lt_negtrans).
Qed.

Lemma StronglySorted_app_r {A} (R : A -> A -> Prop) l1 l2 : StronglySorted R (l1 ++ l2) -> StronglySorted R l2.
Proof.
  induction l1 as [|a l1 IH]; intros H; [exact H|].
  apply IH. apply StronglySorted_inv in H. exact (proj1 H).
Qed.

(* an element of the list that must precede c (later arrival, or later in c's trip) lies before c *)
Lemma before_split d s pre c rest x : wf_data_b d = true ->
  cs_rev (conn_set d s) = pre ++ c :: rest -> In x (cs_rev (conn_set d s)) ->
  (c_arr c < c_arr x \/ (c_trip x = c_trip c /\ (c_seq c < c_seq x)%nat)) -> In x pre.
Proof.
  intros Hwf HL Hx Hord.
  pose proof (cs_rev_sorted d s) as HS. rewrite HL in HS. apply StronglySorted_app_r in HS.
  apply StronglySorted_inv in HS. destruct HS as [_ HS]. rewrite Forall_forall in HS.
  assert (Hc : In c (cs_rev (conn_set d s))) by (rewrite HL; apply in_or_app; right; left; reflexivity).
  pose proof Hx as Hx'. rewrite HL in Hx'. apply in_app_or in Hx'. destruct Hx' as [Hx'|[Hx'|Hx']]; [exact Hx'| |].
  - subst x. exfalso. lia.
  - exfalso. specialize (HS x Hx'). unfold le_of in HS.
    destruct Hord as [Hord|[Et Hs]].
    + assert (T : rev_lt x c = true) by (apply rev_lt_iff; lia). congruence.
    + apply cs_rev_in in Hc. apply cs_rev_in in Hx.
      pose proof (conn_seq_order d c x Hwf (proj1 Hc) (proj1 Hx) (eq_sym Et) HS). lia.
Qed.

(* ---------------------------------------------------------------------------------------------- *)
(* 3. declarative journeys                                                                          *)

Section Completeness.
  Variables (d : data) (s : scenario) (p : params) (acc egr : list fprow) (k : calc).
  Hypothesis Hwf : wf_data_b d = true.
  Hypothesis Hp : wf_params_b p = true.
  Hypothesis Htab : wf_tables_b d p acc egr = true.
  Hypothesis Hpre : rev_pre d s p acc egr k.
  Hypothesis Hpos : pos_hops_b d = true.
  (* the first-waiting cap is off: always for an arrival query, by request for a departure query *)
  Hypothesis Hfw : k_dep k = -1 \/ q_maxfw p <= 0.
  (* the first guard of the scan subtracts no more than the shortest egress walk *)
  Hypothesis HminEgr : forall re, In re egr -> k_minEgr k <= fp_time re.

  Let L := cs_rev (conn_set d s).

  Definition egress_ok (m : nat) (t' : Z) : Prop :=
    exists re, In re egr /\ m = fp_node re /\ t' + fp_time re <= k_arr k.
  Definition usable_rides (rides : list (conn * conn)) : Prop :=
    forall b e, In (b, e) rides -> o_usable (k_ov k (c_trip b)) = true.
  (* a suffix journey: from standing at n at time t to the destination by k_arr, on usable trips *)
  Definition tail (n : nat) (t : Z) (rides : list (conn * conn)) : Prop :=
    exists m t', reaches d s p n t rides m t' /\ egress_ok m t' /\ usable_rides rides.

  Lemma q_minw_nonneg : 0 <= q_minw p.
  Proof. apply wf_params_minw. exact Hp. Qed.

  Lemma maxtr_pos : 0 < q_maxtr p.
  Proof.
    pose proof Hp as H. unfold wf_params_b in H. peel H P8. peel H P7. peel H P6. peel H P5.
    apply Z.ltb_lt in P5. exact P5.
  Qed.

  Lemma ride_facts b e : ride_ok d s p b e ->
    In b (all_conns d) /\ In e (all_conns d) /\ c_trip b = c_trip e /\ (c_seq b <= c_seq e)%nat /\
    c_cb b = true /\ c_cu e = true /\ In b L /\ In e L /\ k_disabled k (c_trip b) = false.
  Proof.
    intros (H1 & H2 & H3 & H4 & H5 & H6 & H7).
    pose proof (proj1 (admitted_bridge d s p (c_trip b) (wf_nodup_trips d Hwf)) H7) as [M D].
    change (cs_trips (conn_set d s)) with (enabled_trips d s) in M.
    repeat (split; [assumption|]). split; [|split].
    - apply cs_rev_intro; assumption.
    - apply cs_rev_intro; [exact H2|]. rewrite <- H3. exact M.
    - rewrite (rp_dis _ _ _ _ _ _ Hpre). exact D.
  Qed.

  Lemma fp_walk_nonneg c n' w : In c (all_conns d) -> has_row (fp_of d (c_to c)) n' w = true -> 0 <= w.
  Proof.
    intros Hc Hrow. destruct (footpaths_node d Hwf (c_to c) (conn_to_node d c Hwf Hc)) as (F1 & _ & _).
    apply has_row_elim in Hrow. destruct Hrow as (r & Hr & _ & E). rewrite <- E. apply F1. exact Hr.
  Qed.

  Lemma reaches_nonempty n t rides m t' : reaches d s p n t rides m t' -> exists b e rest, rides = (b, e) :: rest.
  Proof. intros H. destruct H; eexists; eexists; eexists; reflexivity. Qed.

  (* along a journey arrival times increase: every connection arrives after the ready time and no later
     than the final alighting *)
  Lemma reaches_bounds n t rides m t' : reaches d s p n t rides m t' ->
    forall b e, In (b, e) rides -> t < c_arr b /\ c_arr b <= c_arr e /\ c_arr e <= t'.
  Proof.
    intros H. induction H as [n t b e Hr Hn Ht|n t b e w n' rest m t' Hr Hn Ht Hrow Hw Hrest IH]; intros b0 e0 Hin.
    - destruct Hin as [Hin|[]]. inversion Hin; subst b0 e0. clear Hin.
      destruct (ride_facts b e Hr) as (R1 & R2 & R3 & R4 & _).
      pose proof (pos_hop d b Hpos R1) as P1.
      pose proof (conn_arr_le_arr d b e Hwf R1 R2 R3 R4) as P2.
      pose proof (minw_eff_nonneg p b q_minw_nonneg) as P3. rewrite minw_eff_true in P3. lia.
    - destruct (ride_facts b e Hr) as (R1 & R2 & R3 & R4 & _).
      pose proof (pos_hop d b Hpos R1) as P1.
      pose proof (conn_arr_le_arr d b e Hwf R1 R2 R3 R4) as P2.
      pose proof (minw_eff_nonneg p b q_minw_nonneg) as P3. rewrite minw_eff_true in P3.
      pose proof (fp_walk_nonneg e n' w R2 Hrow) as P4.
      destruct (reaches_nonempty _ _ _ _ _ Hrest) as (b1 & e1 & rest1 & E1).
      destruct (IH b1 e1) as (I1 & I2 & I3); [rewrite E1; left; reflexivity|].
      destruct Hin as [Hin|Hin].
      + inversion Hin; subst b0 e0. lia.
      + destruct (IH b0 e0 Hin) as (J1 & J2 & J3). lia.
  Qed.

  Lemma tail_inv n t b e rest : tail n t ((b, e) :: rest) ->
    ride_ok d s p b e /\ c_from b = n /\ t + minw_eff p b <= c_dep b /\ o_usable (k_ov k (c_trip b)) = true /\
    ((rest = [] /\ egress_ok (c_to e) (c_arr e)) \/
     (exists w n' b' e' rest', has_row (fp_of d (c_to e)) n' w = true /\ w <= q_maxtr p /\
                               rest = (b', e') :: rest' /\ tail n' (c_arr e + w) rest)).
  Proof.
    intros (m & t' & Hre & Heg & Hus).
    assert (Hu : o_usable (k_ov k (c_trip b)) = true) by (apply (Hus b e); left; reflexivity).
    inversion Hre as [n0 t0 b0 e0 Hr Hn Ht|n0 t0 b0 e0 w n' rest0 m0 t0' Hr Hn Ht Hrow Hw Hrest]; subst.
    - split; [exact Hr|]. split; [reflexivity|]. split; [rewrite minw_eff_true; exact Ht|]. split; [exact Hu|].
      left. split; [reflexivity|exact Heg].
    - split; [exact Hr|]. split; [reflexivity|]. split; [rewrite minw_eff_true; exact Ht|]. split; [exact Hu|].
      right. destruct (reaches_nonempty _ _ _ _ _ Hrest) as (b1 & e1 & rest1 & E1).
      exists w, n', b1, e1, rest1. split; [exact Hrow|]. split; [exact Hw|]. split; [exact E1|].
      exists m, t'. split; [exact Hrest|]. split; [exact Heg|].
      intros b2 e2 H2. apply (Hus b2 e2). right. exact H2.
  Qed.

  (* every connection of a suffix journey passes the first guard of the scan *)
  Lemma tail_guard n t rides : tail n t rides ->
    forall b e, In (b, e) rides -> t < c_arr b /\ c_arr b <= c_arr e /\ c_arr e <= k_arr k - k_minEgr k.
  Proof.
    intros (m & t' & Hre & (re & Hre1 & Hre2 & Hre3) & _) b e Hin.
    destruct (reaches_bounds _ _ _ _ _ Hre b e Hin) as (B1 & B2 & B3).
    pose proof (HminEgr re Hre1). lia.
  Qed.

  (* -------------------------------------------------------------------------------------------- *)
  (* 4. the completeness invariant                                                                  *)

  (* `pre` = the connections processed so far (none of them triggered a break) *)
  Record Comp (pre : list conn) (st : rstate) : Prop := {
    cp_base : forall n, k_taur k n <= r_taur st n;
    cp_us : forall t, o_usable (r_ov st t) = o_usable (k_ov k t);
    cp_accwf : acc_wf d (r_acc st);
    cp_cnt : 0 <= r_count st /\ (forall t, is_some (o_exit (r_ov st t)) = true -> 0 < r_count st);
    (* the trip of a ride whose alighting connection was processed has an exit *)
    cp_exit : forall n t b e rest, tail n t ((b, e) :: rest) -> In e pre ->
                is_some (o_exit (r_ov st (c_trip e))) = true;
    (* r_taur dominates the ready time of every processed boarding, at every stop one can walk from *)
    cp_taur : forall n t b e rest, tail n t ((b, e) :: rest) -> In b pre ->
                forall r, In r (rfp_of d (c_from b)) -> fp_time r <= q_maxtr p ->
                          c_dep b - fp_time r - minw_eff p b <= r_taur st (fp_node r);
    (* r_acc of the boarding stop holds a boarding at least as late *)
    cp_acc : forall n t b e rest, tail n t ((b, e) :: rest) -> In b pre -> dep_ok k b (minw_eff p b) ->
                acc_ge d p (r_acc st (c_from b)) (c_dep b - minw_eff p b);
    (* the tentative ready time (boarding departure - minimum waiting) that arms the access-based break
       comes from a processed boarding at an access stop *)
    cp_tent : r_reached st = true ->
                exists c0 ar0, In c0 (all_conns d) /\ r_tent st = c_dep c0 - minw_eff p c0 /\
                  row_of (c_from c0) (k_accfp k) = Some ar0 /\ 0 < r_count st /\
                  (dep_ok k c0 (minw_eff p c0) ->
                   acc_ge d p (r_acc st (c_from c0)) (c_dep c0 - minw_eff p c0)) }.

  Lemma alight_ready pre c rest st n t b rest' :
    L = pre ++ c :: rest -> Comp pre st -> tail n t ((b, c) :: rest') ->
    c_cu c = true /\ c_arr c <= r_taur st (c_to c).
  Proof.
    intros HL HC Ht. destruct (tail_inv _ _ _ _ _ Ht) as (Hr & _ & _ & _ & Hnext).
    destruct (ride_facts b c Hr) as (_ & Rc & _ & _ & _ & Rcu & _ & _ & _).
    split; [exact Rcu|].
    destruct Hnext as [[_ (re & G1 & G2 & G3)]|(w & n' & b' & e' & rest'' & Hrow & Hw & Erest & Ht')].
    - pose proof (cp_base _ _ HC (c_to c)) as B. rewrite (rp_taur _ _ _ _ _ _ Hpre) in B.
      destruct (wf_tables_parts d p acc egr Htab) as (_ & _ & _ & Hnd).
      rewrite G2, (row_of_in egr re Hnd G1) in B. rewrite G2. lia.
    - rewrite Erest in Ht'. destruct (tail_inv _ _ _ _ _ Ht') as (Hr' & Hn' & Ht'' & _ & _).
      destruct (ride_facts b' e' Hr') as (Rb' & _ & _ & _ & _ & _ & RbL & _ & _).
      pose proof (pos_hop d b' Hpos Rb') as P1.
      pose proof (minw_eff_nonneg p b' q_minw_nonneg) as P2.
      pose proof (fp_walk_nonneg c n' w Rc Hrow) as P3.
      assert (Hb'pre : In b' pre).
      { apply (before_split d s pre c rest b' Hwf HL RbL). left. lia. }
      destruct (footpaths_node d Hwf (c_to c) (conn_to_node d c Hwf Rc)) as (_ & F2 & _).
      destruct (F2 n' w Hrow) as (r & Hr1 & Hr2 & Hr3).
      rewrite <- Hn' in Hr1.
      pose proof (cp_taur _ _ HC _ _ _ _ _ Ht' Hb'pre r Hr1 ltac:(lia)) as T.
      rewrite Hr2, Hr3 in T. lia.
  Qed.

  Lemma board_ready pre c rest st n t e rest' :
    L = pre ++ c :: rest -> Comp pre st -> tail n t ((c, e) :: rest') ->
    is_some (o_exit (r_ov st (c_trip c))) = true \/ (c_cu c = true /\ c_arr c <= r_taur st (c_to c)).
  Proof.
    intros HL HC Ht. destruct (tail_inv _ _ _ _ _ Ht) as (Hr & _ & _ & _ & _).
    destruct (ride_facts c e Hr) as (Rc & Re & Rt & Rs & _ & _ & _ & ReL & _).
    destruct (Nat.eq_dec (c_seq c) (c_seq e)) as [Eq|Ne].
    - right. pose proof (conn_same d c e Hwf Rc Re Rt Eq) as E. subst e.
      apply (alight_ready pre c rest st n t c rest' HL HC Ht).
    - left. rewrite Rt. apply (cp_exit _ _ HC n t c e rest' Ht).
      apply (before_split d s pre c rest e Hwf HL ReL). right. split; [symmetry; exact Rt|lia].
  Qed.

  Lemma first_ride_guards pre st n t b e rest x : Comp pre st -> tail n t ((b, e) :: rest) -> x = b \/ x = e ->
    c_arr x <= k_arr k - k_minEgr k /\ o_usable (r_ov st (c_trip x)) = true /\ k_disabled k (c_trip x) = false.
  Proof.
    intros HC Ht Hx.
    destruct (tail_guard _ _ _ Ht b e (or_introl eq_refl)) as (G1 & G2 & G3).
    destruct (tail_inv _ _ _ _ _ Ht) as (Hr & _ & _ & Hu & _).
    destruct (ride_facts b e Hr) as (_ & _ & Rt & _ & _ & _ & _ & _ & Rd).
    rewrite (cp_us _ _ HC). destruct Hx as [Hx|Hx]; subst x.
    - split; [lia|]. split; assumption.
    - rewrite <- Rt. split; [lia|]. split; assumption.
  Qed.

  (* a skipped connection is neither the boarding nor the alighting connection of a first ride *)
  Lemma skipped_unused pre c rest st n t b e rest' :
    L = pre ++ c :: rest -> Comp pre st -> tail n t ((b, e) :: rest') -> c = b \/ c = e ->
    (c_arr c > k_arr k - k_minEgr k \/ o_usable (r_ov st (c_trip c)) = false \/ k_disabled k (c_trip c) = true \/
     (o_exit (r_ov st (c_trip c)) = None /\ r_taur st (c_to c) < c_arr c)) -> False.
  Proof.
    intros HL HC Ht Hx Hreason.
    destruct (first_ride_guards pre st n t b e rest' c HC Ht Hx) as (G1 & G2 & G3).
    destruct Hreason as [R|[R|[R|[R1 R2]]]]; [lia|congruence|congruence|].
    destruct Hx as [Hx|Hx]; subst c.
    - destruct (board_ready pre b rest st n t e rest' HL HC Ht) as [B|[_ B]]; [rewrite R1 in B; discriminate|lia].
    - destruct (alight_ready pre e rest st n t b rest' HL HC Ht) as [_ B]. lia.
  Qed.

  Lemma comp_step pre c rest st : L = pre ++ c :: rest -> r_stop st = false -> Comp pre st ->
    (r_stop (rev_step d p k false st c) = false /\ Comp (pre ++ [c]) (rev_step d p k false st c)) \/
    (rev_step d p k false st c = stopped st /\ brk p k st c).
  Proof.
    intros HL Hstop HC.
    assert (HcL : In c L) by (rewrite HL; apply in_or_app; right; left; reflexivity).
    pose proof (proj1 (cs_rev_in d s c HcL)) as Hc.
    pose proof (rev_step_cases d p k st c Hstop) as S. cbv zeta in S.
    set (st' := rev_step d p k false st c) in *.
    destruct S as [[Est Hreason]|[[Est Hbrk]|(Hns & Hov & Hcnt & _ & Hrest)]].
    - (* skipped *)
      left. rewrite Est. split; [exact Hstop|].
      constructor.
      + apply (cp_base _ _ HC).
      + apply (cp_us _ _ HC).
      + apply (cp_accwf _ _ HC).
      + apply (cp_cnt _ _ HC).
      + intros n t b e rest' Ht Hin. apply in_app_or in Hin. destruct Hin as [Hin|[Hin|[]]].
        * apply (cp_exit _ _ HC n t b e rest' Ht Hin).
        * exfalso. subst e. apply (skipped_unused pre c rest st n t b c rest' HL HC Ht (or_intror eq_refl) Hreason).
      + intros n t b e rest' Ht Hin. apply in_app_or in Hin. destruct Hin as [Hin|[Hin|[]]].
        * apply (cp_taur _ _ HC n t b e rest' Ht Hin).
        * exfalso. subst b. apply (skipped_unused pre c rest st n t c e rest' HL HC Ht (or_introl eq_refl) Hreason).
      + intros n t b e rest' Ht Hin. apply in_app_or in Hin. destruct Hin as [Hin|[Hin|[]]].
        * apply (cp_acc _ _ HC n t b e rest' Ht Hin).
        * exfalso. subst b. apply (skipped_unused pre c rest st n t c e rest' HL HC Ht (or_introl eq_refl) Hreason).
      + apply (cp_tent _ _ HC).
    - right. split; assumption.
    - (* processed *)
      left. split; [exact Hns|].
      destruct (cp_cnt _ _ HC) as [Hc0 Hc1].
      assert (Hus' : forall t, o_usable (r_ov st' t) = o_usable (k_ov k t)).
      { intros t. rewrite Hov. unfold upd. destruct (Nat.eqb t (c_trip c)) eqn:Et; [|apply (cp_us _ _ HC)].
        apply Nat.eqb_eq in Et. subst t. rewrite ov1_usable. apply (cp_us _ _ HC). }
      assert (Hcnt' : 0 <= r_count st' /\ (forall t, is_some (o_exit (r_ov st' t)) = true -> 0 < r_count st')).
      { rewrite Hcnt. split; [lia|]. intros _ _. lia. }
      assert (Hexit' : forall n t b e rest', tail n t ((b, e) :: rest') -> In e (pre ++ [c]) ->
                         is_some (o_exit (r_ov st' (c_trip e))) = true).
      { intros n t b e rest' Ht Hin. rewrite Hov. unfold upd.
        apply in_app_or in Hin. destruct (Nat.eqb (c_trip e) (c_trip c)) eqn:Et.
        - rewrite ov1_is_some. apply Nat.eqb_eq in Et. destruct Hin as [Hin|[Hin|[]]].
          + rewrite <- Et, (cp_exit _ _ HC n t b e rest' Ht Hin). reflexivity.
          + subst e. destruct (alight_ready pre c rest st n t b rest' HL HC Ht) as [A _].
            rewrite A. apply orb_true_r.
        - destruct Hin as [Hin|[Hin|[]]].
          + apply (cp_exit _ _ HC n t b e rest' Ht Hin).
          + subst e. rewrite Nat.eqb_refl in Et. discriminate. }
      (* the trip of a boarding connection being processed has an exit after the alighting block *)
      assert (Hboard : forall n t e rest', tail n t ((c, e) :: rest') ->
                         c_cb c = true /\ is_some (o_exit (ov1_of p st c)) = true).
      { intros n t e rest' Ht. destruct (tail_inv _ _ _ _ _ Ht) as (Hr & _).
        destruct (ride_facts c e Hr) as (_ & _ & _ & _ & Rcb & _). split; [exact Rcb|].
        rewrite ov1_is_some.
        destruct (board_ready pre c rest st n t e rest' HL HC Ht) as [B|[B _]]; rewrite B;
          [reflexivity|apply orb_true_r]. }
      destruct Hrest as [(E1 & E2 & E3 & E4 & E5 & Hno)|(Hcb & e0 & He0 & Hfold & Htent)].
      + (* no boarding at c *)
        constructor; try assumption.
        * rewrite E1. apply (cp_base _ _ HC).
        * rewrite E3. apply (cp_accwf _ _ HC).
        * intros n t b e rest' Ht Hin. rewrite E1. apply in_app_or in Hin. destruct Hin as [Hin|[Hin|[]]].
          -- apply (cp_taur _ _ HC n t b e rest' Ht Hin).
          -- exfalso. subst b. destruct (Hboard n t e rest' Ht) as [B1 B2].
             destruct Hno as [Hno|Hno]; [congruence|rewrite Hno in B2; discriminate].
        * intros n t b e rest' Ht Hin. rewrite E3. apply in_app_or in Hin. destruct Hin as [Hin|[Hin|[]]].
          -- apply (cp_acc _ _ HC n t b e rest' Ht Hin).
          -- exfalso. subst b. destruct (Hboard n t e rest' Ht) as [B1 B2].
             destruct Hno as [Hno|Hno]; [congruence|rewrite Hno in B2; discriminate].
        * rewrite E4, E5, E3, Hcnt. intros Hre.
          destruct (cp_tent _ _ HC Hre) as (c0 & ar0 & T1 & T2 & T3 & T4 & T5).
          exists c0, ar0. repeat (split; [assumption|]). split; [lia|exact T5].
      + (* boarding at c: the footpath loop *)
        pose proof (conn_from_node d c Hwf Hc) as Hnode.
        destruct (rev_fp_fold_comp d p k c (Some e0) Hc Hfw (rfp_of d (c_from c)) (r_taur st) (r_steps st) (r_acc st)
                                   (cp_accwf _ _ HC)
                                   (fun r Hr => proj2 (wf_rfp_rows d Hwf (c_from c) Hnode r Hr)))
          as (t2 & s2 & a2 & E2 & W2 & M2 & B2 & A2 & N2).
        rewrite E2 in Hfold. inversion Hfold as [[Et Es Ea]]. clear Hfold.
        rewrite <- Et in M2, B2. rewrite <- Ea in W2, A2, N2. clear Et Es Ea E2.
        destruct (footpaths_node d Hwf (c_from c) Hnode) as (_ & _ & (rs & Rs1 & Rs2 & Rs3)).
        assert (Hself : dep_ok k c (minw_eff p c) -> acc_ge d p (r_acc st' (c_from c)) (c_dep c - minw_eff p c)).
        { intros Hd. apply (N2 rs Rs1 Rs2); [|exact Hd]. pose proof maxtr_pos. lia. }
        constructor; try assumption.
        * intros n. pose proof (cp_base _ _ HC n). specialize (M2 n). lia.
        * intros n t b e rest' Ht Hin r Hr Hmax. apply in_app_or in Hin. destruct Hin as [Hin|[Hin|[]]].
          -- pose proof (cp_taur _ _ HC n t b e rest' Ht Hin r Hr Hmax). specialize (M2 (fp_node r)). lia.
          -- subst b. apply B2; assumption.
        * intros n t b e rest' Ht Hin Hd. apply in_app_or in Hin. destruct Hin as [Hin|[Hin|[]]].
          -- apply A2. apply (cp_acc _ _ HC n t b e rest' Ht Hin Hd).
          -- subst b. apply Hself. exact Hd.
        * intros Hre. rewrite Hcnt.
          destruct Htent as [(T1 & (ar & T2) & T3 & T4)|(T3 & T4)].
          -- exists c, ar. split; [exact Hc|]. split; [exact T4|]. split; [exact T2|]. split; [lia|exact Hself].
          -- rewrite T3 in Hre. destruct (cp_tent _ _ HC Hre) as (c0 & ar0 & U1 & U2 & U3 & U4 & U5).
             exists c0, ar0. split; [exact U1|]. split; [rewrite T4; exact U2|]. split; [exact U3|].
             split; [lia|]. intros Hd. apply A2. apply U5. exact Hd.
  Qed.

  (* -------------------------------------------------------------------------------------------- *)
  (* 5. the scan as a whole                                                                         *)

  Lemma fold_stopped a : forall rest st, r_stop st = true -> fold_left (rev_step d p k a) rest st = st.
  Proof.
    induction rest as [|c rest IH]; intros st H; cbn [fold_left]; [reflexivity|].
    rewrite (rev_step_stopped d p k a st c H). apply IH. exact H.
  Qed.

  Lemma stopped_comp pre st : Comp pre st -> Comp pre (stopped st).
  Proof.
    intros HC. constructor; unfold stopped; cbn [r_taur r_steps r_ov r_acc r_count r_reached r_tent].
    - apply (cp_base _ _ HC).
    - apply (cp_us _ _ HC).
    - apply (cp_accwf _ _ HC).
    - apply (cp_cnt _ _ HC).
    - apply (cp_exit _ _ HC).
    - apply (cp_taur _ _ HC).
    - apply (cp_acc _ _ HC).
    - apply (cp_tent _ _ HC).
  Qed.

  (* the final state: a processed prefix, and either the whole list or a connection at which the scan broke *)
  Definition Final (stf : rstate) : Prop :=
    exists pre rest, L = pre ++ rest /\ Comp pre stf /\
                     (rest = [] \/ exists c rest', rest = c :: rest' /\ brk p k stf c).

  Lemma scan_comp : forall rest pre st, L = pre ++ rest -> r_stop st = false -> Comp pre st ->
    Final (fold_left (rev_step d p k false) rest st).
  Proof.
    induction rest as [|c rest IH]; intros pre st HL Hstop HC; cbn [fold_left].
    - exists pre, []. split; [exact HL|]. split; [exact HC|]. left. reflexivity.
    - destruct (comp_step pre c rest st HL Hstop HC) as [[Hns HC']|[Est Hbrk]].
      + apply (IH (pre ++ [c])); [rewrite <- app_assoc; exact HL|exact Hns|exact HC'].
      + rewrite Est. rewrite fold_stopped by reflexivity.
        exists pre, (c :: rest). split; [exact HL|]. split; [apply stopped_comp; exact HC|].
        right. exists c, rest. split; [reflexivity|exact Hbrk].
  Qed.

  Lemma comp_init : Comp [] (rev_init k).
  Proof.
    constructor; unfold rev_init; cbn [r_taur r_steps r_ov r_acc r_count r_reached r_tent].
    - intros n. lia.
    - intros t. reflexivity.
    - intros n j H. discriminate.
    - split; [lia|]. intros t H. rewrite (rp_exit _ _ _ _ _ _ Hpre) in H. discriminate.
    - intros n t b e rest _ [].
    - intros n t b e rest _ [].
    - intros n t b e rest _ [].
    - intros H. discriminate.
  Qed.

  Hypothesis Harr0 : 0 <= k_arr k.
  Hypothesis HminEgr0 : 0 <= k_minEgr k.

  (* entering through the hour index, or not at all (requested time in or beyond the last hour), the scan
     is the fold over the whole list *)
  Lemma rev_scan_whole a :
    rev_scan d p k a = Ok (fold_left (rev_step d p k a) L (rev_init k)).
  Proof.
    pose proof (rp_set _ _ _ _ _ _ Hpre) as Eset.
    assert (Hs : arr_sorted_desc (cs_rev (k_set k))) by (rewrite Eset; apply conn_set_rev_sorted).
    assert (Hi : cs_ridx (k_set k) = rev_index (cs_rev (k_set k))) by (rewrite Eset; reflexivity).
    destruct (Z_lt_le_dec (k_arr k) 115200) as [Hlt|Hge].
    - rewrite (C12_index_rev d p k a Hs Hi (conj Harr0 Hlt) HminEgr0). rewrite Eset. reflexivity.
    - unfold rev_scan, rev_entry. hours.
      assert (Hh : 32 <= hour_of (k_arr k)).
      { unfold hour_of. rewrite Z.quot_div_nonneg by lia. apply Z.div_le_lower_bound; lia. }
      destruct (Z.ltb_spec (hour_of (k_arr k) + 1) 0) as [H1|_]; [lia|].
      destruct (Z.gtb_spec (hour_of (k_arr k) + 1) (32 - 1)) as [_|H2]; [|lia].
      cbn [skipn]. rewrite Eset. reflexivity.
  Qed.

  Theorem rev_scan_final st : rev_scan d p k false = Ok st -> Final st.
  Proof.
    rewrite rev_scan_whole. intros H. inversion H as [Hst]. clear H.
    apply (scan_comp L [] (rev_init k)); [reflexivity|reflexivity|exact comp_init].
  Qed.

  (* -------------------------------------------------------------------------------------------- *)
  (* 6. best_access returns the maximum over the access rows                                        *)

  Lemma best_access_ge st ra v :
    In ra (k_accfp k) -> nodup_nat (map fp_node (k_accfp k)) = true -> 0 <= fp_time ra ->
    acc_ge d p (r_acc st (fp_node ra)) v -> 0 <= v - fp_time ra -> k_arr k - (v - fp_time ra) <= q_maxtt p ->
    exists t n, best_access p k st = Some (t, n) /\ v - fp_time ra <= t.
  Proof.
    intros Hra Hnd Hra0 (j & b & Hj & Hb & Hbin & Hv) Hv0 Hspan.
    unfold best_access.
    set (F := fun (best : option (Z * nat)) (r : fprow) =>
      match r_acc st (fp_node r) with
      | Some j =>
          match js_enter j, row_of (fp_node r) (k_accfp k) with
          | Some b, Some ar =>
              let t := c_dep b - fp_time ar - minw_eff p b in
              let bt := match best with Some (x, _) => x | None => -1 end in
              if (t >=? 0) && (k_arr k - t <=? q_maxtt p) && (t >? bt) && (t <? MAX_INT)
              then Some (t, fp_node ar) else best
          | _, _ => best
          end
      | None => best
      end).
    assert (Hmono : forall r best t0 n0, best = Some (t0, n0) -> exists t n, F best r = Some (t, n) /\ t0 <= t).
    { intros r best t0 n0 E. subst best. unfold F.
      destruct (r_acc st (fp_node r)) as [j'|]; [|exists t0, n0; split; [reflexivity|lia]].
      destruct (js_enter j') as [b'|]; [|exists t0, n0; split; [reflexivity|lia]].
      destruct (row_of (fp_node r) (k_accfp k)) as [ar|]; [|exists t0, n0; split; [reflexivity|lia]].
      cbv zeta.
      destruct ((c_dep b' - fp_time ar - minw_eff p b' >=? 0) &&
                (k_arr k - (c_dep b' - fp_time ar - minw_eff p b') <=? q_maxtt p) &&
                (c_dep b' - fp_time ar - minw_eff p b' >? t0) &&
                (c_dep b' - fp_time ar - minw_eff p b' <? MAX_INT)) eqn:E;
        [|exists t0, n0; split; [reflexivity|lia]].
      peel E E4. peel E E3. apply Z.gtb_lt in E3.
      eexists. eexists. split; [reflexivity|lia]. }
    assert (Hfold : forall rows best t0 n0, best = Some (t0, n0) ->
                      exists t n, fold_left F rows best = Some (t, n) /\ t0 <= t).
    { induction rows as [|r rows IH]; intros best t0 n0 E; cbn [fold_left].
      - exists t0, n0. split; [exact E|lia].
      - destruct (Hmono r best t0 n0 E) as (t1 & n1 & E1 & L1).
        destruct (IH (F best r) t1 n1 E1) as (t2 & n2 & E2 & L2).
        exists t2, n2. split; [exact E2|lia]. }
    assert (Hcand : forall best, exists t n, F best ra = Some (t, n) /\ v - fp_time ra <= t).
    { intros best. unfold F. rewrite Hj, Hb, (row_of_in (k_accfp k) ra Hnd Hra). cbv zeta.
      set (t := c_dep b - fp_time ra - minw_eff p b).
      assert (T1 : (t >=? 0) = true) by (apply Z.geb_le; subst t; lia).
      assert (T2 : (k_arr k - t <=? q_maxtt p) = true) by (apply Z.leb_le; subst t; lia).
      assert (T4 : (t <? MAX_INT) = true).
      { apply Z.ltb_lt. pose proof (conn_dep_lt d b Hwf Hbin) as D. pose proof (minw_eff_nonneg p b q_minw_nonneg) as M.
        subst t. unfold CLOCK_MAX in D. unfold MAX_INT. lia. }
      rewrite T1, T2, T4. cbn [andb]. rewrite andb_true_r.
      destruct (Z.gtb_spec t (match best with Some (x, _) => x | None => -1 end)) as [G|G].
      - eexists. eexists. split; [reflexivity|]. subst t. lia.
      - destruct best as [[x n0]|].
        + exists x, n0. split; [reflexivity|]. subst t. lia.
        + exfalso. subst t. lia. }
    assert (Hin : forall rows best, In ra rows -> exists t n, fold_left F rows best = Some (t, n) /\ v - fp_time ra <= t).
    { induction rows as [|r rows IH]; intros best Hin; [destruct Hin|]. cbn [fold_left].
      destruct Hin as [Hin|Hin].
      - subst r. destruct (Hcand best) as (t1 & n1 & E1 & L1).
        destruct (Hfold rows (F best ra) t1 n1 E1) as (t2 & n2 & E2 & L2).
        exists t2, n2. split; [exact E2|lia].
      - apply IH. exact Hin. }
    apply Hin. exact Hra.
  Qed.

  (* -------------------------------------------------------------------------------------------- *)
  (* 7. the theorems                                                                                *)

  (* what the processed prefix gives for a journey whose first ride lies inside it *)
  Lemma processed_first_ride pre st n t b e rest :
    Comp pre st -> tail n t ((b, e) :: rest) -> In b pre -> In e pre -> dep_ok k b (minw_eff p b) ->
    0 < r_count st /\ acc_ge d p (r_acc st n) (c_dep b - minw_eff p b).
  Proof.
    intros HC Ht Hb He Hd. split.
    - apply (proj2 (cp_cnt _ _ HC) (c_trip e)). apply (cp_exit _ _ HC n t b e rest Ht He).
    - destruct (tail_inv _ _ _ _ _ Ht) as (_ & Hn & _). rewrite <- Hn.
      apply (cp_acc _ _ HC n t b e rest Ht Hb Hd).
  Qed.

  (* accessibility form: without the access-based break every suffix journey inside the travel-time window
     is found *)
  Theorem rev_complete_tail st n t rides :
    k_maxAcc k < 0 ->
    rev_scan d p k false = Ok st -> tail n t rides -> k_arr k - t <= q_maxtt p ->
    (forall b e rest, rides = (b, e) :: rest -> dep_ok k b (minw_eff p b)) ->
    0 < r_count st /\ acc_ge d p (r_acc st n) t.
  Proof.
    intros Hneg Hscan Ht Hspan Hdep.
    destruct (rev_scan_final st Hscan) as (pre & rest & HL & HC & Hend).
    pose proof Ht as (m & t' & Hre & _ & _).
    destruct (reaches_nonempty _ _ _ _ _ Hre) as (b & e & rides' & Er). subst rides.
    destruct (tail_inv _ _ _ _ _ Ht) as (Hr & Hn & Htm & _ & _).
    destruct (ride_facts b e Hr) as (_ & _ & _ & _ & _ & _ & RbL & ReL & _).
    destruct (tail_guard _ _ _ Ht b e (or_introl eq_refl)) as (G1 & G2 & _).
    assert (Hin : In b pre /\ In e pre).
    { destruct Hend as [Hend|(c & rest' & Hend & Hbrk)].
      - subst rest. rewrite app_nil_r in HL. rewrite <- HL. split; assumption.
      - subst rest. destruct Hbrk as [(_ & B & _)|B]; [lia|].
        split; apply (before_split d s pre c rest' _ Hwf HL); try assumption; left; lia. }
    destruct Hin as [Hb He].
    destruct (processed_first_ride pre st n t b e rides' HC Ht Hb He (Hdep b e rides' eq_refl)) as [P1 P2].
    split; [exact P1|].
    destruct P2 as (j & b' & J1 & J2 & J3 & J4). exists j, b'. repeat split; try assumption. lia.
  Qed.

  (* the break armed by the first boarding found at an access stop subtracts the longest access walk from that
     boarding's ready time (departure - its own minimum waiting): whatever it cuts arrives before the
     departure that boarding stands for, so no uniformity of the minimum waiting times is needed *)
  Hypothesis HmaxAcc : forall ra, In ra acc -> 0 <= k_maxAcc k -> fp_time ra <= k_maxAcc k.

  Theorem rev_complete st ra re rides t0 m t' :
    rev_scan d p k false = Ok st ->
    In ra acc -> In re egr ->
    reaches d s p (fp_node ra) t0 rides m t' -> m = fp_node re -> t' + fp_time re <= k_arr k ->
    (forall b e, In (b, e) rides -> o_usable (k_ov k (c_trip b)) = true) ->
    0 <= departure_of p ra rides -> k_arr k - departure_of p ra rides <= q_maxtt p ->
    (k_dep k = -1 \/ k_dep k <= departure_of p ra rides) ->
    r_count st <> 0 /\ exists t n, best_access p k st = Some (t, n) /\ departure_of p ra rides <= t.
  Proof.
    intros Hscan Hra Hre Hreach Hm Harr Hus Hdp0 Hspan Hkdep.
    destruct (rev_scan_final st Hscan) as (pre & rest & HL & HC & Hend).
    assert (Ht : tail (fp_node ra) t0 rides).
    { exists m, t'. split; [exact Hreach|]. split; [exists re; repeat split; assumption|exact Hus]. }
    destruct (reaches_nonempty _ _ _ _ _ Hreach) as (b & e & rides' & Er). subst rides.
    cbn [departure_of] in *. rewrite <- minw_eff_true in *.
    destruct (tail_inv _ _ _ _ _ Ht) as (Hr & Hn & _ & _ & _).
    destruct (ride_facts b e Hr) as (Rb & _ & _ & _ & _ & _ & RbL & ReL & _).
    destruct (tail_guard _ _ _ Ht b e (or_introl eq_refl)) as (_ & G2 & _).
    destruct (wf_tables_parts d p acc egr Htab) as (Hracc & _ & Hndacc & _).
    pose proof (rp_acc _ _ _ _ _ _ Hpre) as Eacc.
    pose proof (rows_ok_nonneg d acc ra Hracc Hra) as Hra0.
    pose proof (minw_eff_nonneg p b q_minw_nonneg) as Hmw.
    pose proof (pos_hop d b Hpos Rb) as Hhop.
    (* the conclusion once the first ride is known to lie in the processed prefix *)
    assert (Hdone : In b pre /\ In e pre ->
                    r_count st <> 0 /\
                    exists t n, best_access p k st = Some (t, n) /\ c_dep b - minw_eff p b - fp_time ra <= t).
    { intros [Hb He].
      assert (Hd : dep_ok k b (minw_eff p b)).
      { destruct Hkdep as [Hk|Hk]; [left; exact Hk|right].
        exists ra. rewrite Hn, Eacc, (row_of_in acc ra Hndacc Hra). split; [reflexivity|lia]. }
      destruct (processed_first_ride pre st _ t0 b e rides' HC Ht Hb He Hd) as [P1 P2].
      split; [lia|].
      destruct (best_access_ge st ra (c_dep b - minw_eff p b)) as (t & n & B1 & B2);
        try (rewrite Eacc; assumption); try assumption; try lia.
      exists t, n. split; [exact B1|lia]. }
    destruct Hend as [Hend|(c & rest' & Hend & Hbrk)].
    - subst rest. rewrite app_nil_r in HL. apply Hdone. rewrite <- HL. split; assumption.
    - subst rest. destruct Hbrk as [(Bre & Bacc & Bt)|B].
      + (* the access-based break *)
        destruct (cp_tent _ _ HC Bre) as (c0 & ar0 & T1 & T2 & T3 & T4 & T5).
        pose proof (minw_eff_nonneg p c0 q_minw_nonneg) as M0.
        destruct (row_of_some _ _ _ T3) as [N0 Hin0]. rewrite Eacc in Hin0.
        pose proof (HmaxAcc ar0 Hin0 Bacc) as Hw0.
        pose proof (rows_ok_nonneg d acc ar0 Hracc Hin0) as Har0.
        destruct (Z_lt_le_dec (c_dep b - minw_eff p b - fp_time ra) (c_dep c0 - minw_eff p c0 - fp_time ar0))
          as [Hlt|Hge].
        * (* the boarding that armed the break leaves later than the journey: it is a better candidate *)
          assert (Hd0 : dep_ok k c0 (minw_eff p c0)).
          { destruct Hkdep as [Hk|Hk]; [left; exact Hk|right]. exists ar0. split; [exact T3|lia]. }
          specialize (T5 Hd0). rewrite <- N0 in T5.
          destruct (best_access_ge st ar0 (c_dep c0 - minw_eff p c0)) as (t & n & B1 & B2);
            try (rewrite Eacc; assumption); try assumption; try lia.
          split; [lia|]. exists t, n. split; [exact B1|lia].
        * (* the journey leaves no earlier: none of its connections is cut *)
          apply Hdone. split; apply (before_split d s pre c rest' _ Hwf HL); try assumption; left; lia.
      + (* the travel-time break *)
        apply Hdone. split; apply (before_split d s pre c rest' _ Hwf HL); try assumption; left; lia.
  Qed.

End Completeness.

(* ---------------------------------------------------------------------------------------------- *)
(* 8. the two call sites of calc_reverse in calc_single                                             *)

Lemma set_usable_true ov t : o_usable (set_usable ov t) = true.
Proof. reflexivity. Qed.

Lemma reaches_first_dep d s p n t rides m t' : reaches d s p n t rides m t' ->
  exists b e rest, rides = (b, e) :: rest /\ t + minw_true p b <= c_dep b.
Proof. intros H. destruct H; do 3 eexists; (split; [reflexivity|assumption]). Qed.

(* arrival query: every admissible journey leaves no later than the departure best_access selects *)
Corollary rev_complete_arrival d s p acc egr st dep0 rides :
  wf_data_b d = true -> wf_params_b p = true -> wf_tables_b d p acc egr = true ->
  pos_hops_b d = true -> q_fwd p = false ->
  let k0 := mk_calc d p (conn_set d s) acc egr true true in
  let k := with_rev k0 (k_arr k0) (-1) (k_taur k0) (set_usable (k_ov k0)) in
  rev_scan d p k false = Ok st ->
  admissible_rev d s p acc egr dep0 rides ->
  r_count st <> 0 /\ exists t n, best_access p k st = Some (t, n) /\ dep0 <= t.
Proof.
  intros Hwf Hp Htab Hpos Hf k0 k Hscan (arr & (ra & re & m & t' & Hra & Hre & Hreach & Hm & Harr) & Hle & H0 & Hspan).
  pose proof (calc_single_rev_pre_arrival d s p acc egr Htab) as Hpre. cbv zeta in Hpre. fold k0 in Hpre. fold k in Hpre.
  destruct (wf_tables_parts d p acc egr Htab) as (Hracc & Hregr & _ & _).
  assert (Ek : k_arr k = q_time p) by (unfold k, k0, with_rev, mk_calc; cbn [k_arr]; rewrite Hf; reflexivity).
  assert (Hdp : dep0 <= departure_of p ra rides).
  { destruct (reaches_first_dep _ _ _ _ _ _ _ _ Hreach) as (b & e & rest & Er & Hb). subst rides.
    cbn [departure_of]. lia. }
  destruct (rev_complete d s p acc egr k Hwf Hp Htab Hpre Hpos (or_introl eq_refl)) with
    (st := st) (ra := ra) (re := re) (rides := rides) (t0 := dep0 + fp_time ra) (m := m) (t' := t')
    as (C1 & t & n & C2 & C3); try assumption.
  - intros r Hr. apply (min_time_le egr r Hr).
  - rewrite Ek. apply wf_params_time. exact Hp.
  - apply min_time_nonneg. intros r Hr. apply (rows_ok_nonneg d egr r Hregr Hr).
  - intros r Hr _. apply (max_time_ge acc r Hr).
  - rewrite Ek. lia.
  - intros b e _. reflexivity.
  - lia.
  - rewrite Ek. lia.
  - left. reflexivity.
  - split; [exact C1|]. exists t, n. split; [exact C2|lia].
Qed.

Lemma best_egress_nonneg p k fs t n : best_egress p k fs = Some (t, n) -> 0 <= t.
Proof.
  unfold best_egress.
  assert (G : forall rows best, (forall t n, best = Some (t, n) -> 0 <= t) ->
    forall t n, fold_left (fun best r =>
      match f_egr fs (fp_node r) with
      | Some j =>
          match js_exit j, row_of (fp_node r) (k_egrfp k) with
          | Some e, Some er =>
              let t := c_arr e + fp_time er in
              let b := match best with Some (bt, _) => bt | None => MAX_INT end in
              if (t >=? 0) && (t - k_dep k <=? q_maxtt p) && (t <? b) && (t <? MAX_INT)
              then Some (t, fp_node er) else best
          | _, _ => best
          end
      | None => best
      end) rows best = Some (t, n) -> 0 <= t).
  { induction rows as [|r rows IH]; intros best HB t0 n0; cbn [fold_left]; [apply HB|].
    apply IH.
    destruct (f_egr fs (fp_node r)) as [j|]; [|exact HB].
    destruct (js_exit j) as [e|]; [|exact HB].
    destruct (row_of (fp_node r) (k_egrfp k)) as [er|]; [|exact HB].
    cbv zeta.
    destruct ((c_arr e + fp_time er >=? 0) && (c_arr e + fp_time er - k_dep k <=? q_maxtt p) &&
              (c_arr e + fp_time er <? match best with Some (bt, _) => bt | None => MAX_INT end) &&
              (c_arr e + fp_time er <? MAX_INT)) eqn:E; [|exact HB].
    peel E E4. peel E E3. peel E E2. apply Z.geb_le in E.
    intros t1 n1 H1. inversion H1; subst. exact E. }
  apply G. intros t0 n0 H0. discriminate.
Qed.

(* departure query: the reverse scan after the forward scan, bounded below by the requested time and
   restricted to the trips the forward scan boarded *)
Corollary rev_complete_departure d s p acc egr fs best n0 st ra re rides t0 m t' :
  wf_data_b d = true -> wf_params_b p = true -> wf_tables_b d p acc egr = true ->
  pos_hops_b d = true -> q_fwd p = true -> q_maxfw p <= 0 ->
  let k0 := mk_calc d p (conn_set d s) acc egr true true in
  fwd_scan d p k0 false = Ok fs -> best_egress p k0 fs = Some (best, n0) ->
  let k := with_rev k0 best (k_dep k0)
             (fold_left (fun m r => upd m (fp_node r) (best - fp_time r)) (k_egrfp k0) (k_taur k0)) (f_ov fs) in
  rev_scan d p k false = Ok st ->
  In ra acc -> In re egr ->
  reaches d s p (fp_node ra) t0 rides m t' -> m = fp_node re -> t' + fp_time re <= best ->
  (forall b e, In (b, e) rides -> o_usable (f_ov fs (c_trip b)) = true) ->
  q_time p <= departure_of p ra rides -> best - departure_of p ra rides <= q_maxtt p ->
  r_count st <> 0 /\ exists t n, best_access p k st = Some (t, n) /\ departure_of p ra rides <= t.
Proof.
  intros Hwf Hp Htab Hpos Hf Hfw k0 Hfscan Hbest k Hscan Hra Hre Hreach Hm Harr Hus Hdep Hspan.
  pose proof (calc_single_rev_pre_departure d s p acc egr fs best Htab Hf Hfscan) as Hpre.
  cbv zeta in Hpre. fold k0 in Hpre. fold k in Hpre.
  destruct (wf_tables_parts d p acc egr Htab) as (Hracc & Hregr & _ & _).
  assert (Ek : k_dep k = q_time p) by (unfold k, k0, with_rev, mk_calc; cbn [k_dep]; rewrite Hf; reflexivity).
  pose proof (wf_params_time p Hp) as Htime.
  apply (rev_complete d s p acc egr k Hwf Hp Htab Hpre Hpos (or_intror Hfw)) with (re := re) (t0 := t0) (m := m) (t' := t');
    try assumption.
  - intros r Hr. apply (min_time_le egr r Hr).
  - apply (best_egress_nonneg p k0 fs best n0 Hbest).
  - apply min_time_nonneg. intros r Hr. apply (rows_ok_nonneg d egr r Hregr Hr).
  - intros r Hr _. apply (max_time_ge acc r Hr).
  - lia.
  - right. rewrite Ek. exact Hdep.
Qed.

(* ---------------------------------------------------------------------------------------------- *)
(* 9. the accessibility scan (all_nodes = true)                                                     *)

(* Termination.sim relates the accessibility step to the single-route step of allnodes_calc; the number of
   processed connections agrees as well *)
Definition simc (a b : rstate) : Prop := sim a b /\ r_count a = r_count b.

Transparent rev_step rev_fp_step.

Lemma rev_step_allnodes_simc d p k a b c : simc a b ->
  simc (rev_step d p k true a c) (rev_step d p (allnodes_calc k) false b c).
Proof.
  destruct a as [ta sa oa aa ca ra tea stopa], b as [tb sb ob ab cb rb teb stopb].
  unfold simc, sim. cbn [r_taur r_steps r_ov r_acc r_stop r_count]. intros ((E1 & E2 & E3 & E4 & E5) & E6).
  subst tb sb ob ab stopb cb.
  unfold rev_step. rewrite rev_fp_step_allnodes.
  cbn [r_taur r_steps r_ov r_acc r_stop r_reached r_tent r_count allnodes_calc k_arr k_minEgr k_maxAcc k_disabled k_accfp negb andb orb].
  destruct stopa; [repeat split; reflexivity|].
  destruct (c_arr c <=? k_arr k - 0); [|repeat split; reflexivity].
  destruct (o_usable (oa (c_trip c)) && negb (k_disabled k (c_trip c))); [|repeat split; reflexivity].
  change (-1 >=? 0) with false. rewrite andb_false_r. cbn [andb orb].
  destruct (k_arr k - c_arr c >? q_maxtt p); [repeat split; reflexivity|].
  destruct (is_some (o_exit (oa (c_trip c))) || (ta (c_to c) >=? c_arr c)); [|repeat split; reflexivity].
  set (ov1 := if c_cu c then _ else oa (c_trip c)).
  destruct (c_cb c && is_some (o_exit ov1)); [|repeat split; reflexivity].
  destruct (negb rb && match row_of (c_from c) (k_accfp k) with
                        | Some r => negb (fp_time r =? -1)
                        | None => false
                        end);
    destruct (fold_left (rev_fp_step p k c (minw_eff p c) (o_exit ov1)) (rfp_of d (c_from c)) (ta, sa, aa))
      as [[t1 s1] a1]; repeat split; reflexivity.
Qed.

Opaque rev_step rev_fp_step.

Lemma rev_fold_allnodes_simc d p k : forall L a b, simc a b ->
  simc (fold_left (rev_step d p k true) L a) (fold_left (rev_step d p (allnodes_calc k) false) L b).
Proof.
  induction L as [|c L IH]; intros a b H; cbn [fold_left]; [exact H|].
  apply IH. apply rev_step_allnodes_simc. exact H.
Qed.

Lemma rev_scan_allnodes_simc d p k st : rev_scan d p k true = Ok st ->
  exists st', rev_scan d p (allnodes_calc k) false = Ok st' /\ simc st st'.
Proof.
  unfold rev_scan. change (k_set (allnodes_calc k)) with (k_set k). change (k_arr (allnodes_calc k)) with (k_arr k).
  destruct (rev_entry (k_set k) (hour_of (k_arr k) + 1)) as [i|]; [|discriminate].
  intros H. inversion H as [Hst]. clear H.
  eexists. split; [reflexivity|]. apply rev_fold_allnodes_simc.
  repeat split; reflexivity.
Qed.

(* completeness of the accessibility scan for an arbitrary calculator state satisfying the precondition *)
Theorem rev_complete_allnodes d s p acc egr k st n t rides :
  wf_data_b d = true -> wf_params_b p = true -> wf_tables_b d p acc egr = true ->
  rev_pre d s p acc egr k -> pos_hops_b d = true -> (k_dep k = -1 \/ q_maxfw p <= 0) -> 0 <= k_arr k ->
  rev_scan d p k true = Ok st ->
  tail d s p egr k n t rides -> k_arr k - t <= q_maxtt p ->
  (forall b e rest, rides = (b, e) :: rest -> dep_ok k b (minw_eff p b)) ->
  0 < r_count st /\ acc_ge d p (r_acc st n) t.
Proof.
  intros Hwf Hp Htab Hpre Hpos Hfw Harr Hscan Ht Hspan Hdep.
  destruct (rev_scan_allnodes_simc d p k st Hscan) as (st' & Hscan' & ((_ & _ & _ & Eacc & _) & Ecnt)).
  destruct (wf_tables_parts d p acc egr Htab) as (_ & Hregr & _ & _).
  rewrite Eacc, Ecnt.
  apply (rev_complete_tail d s p acc egr (allnodes_calc k) Hwf Hp Htab (rev_pre_allnodes d s p acc egr k Hpre) Hpos Hfw)
    with (rides := rides); try assumption.
  - intros re Hre. cbn [allnodes_calc k_minEgr]. apply (rows_ok_nonneg d egr re Hregr Hre).
  - cbn [allnodes_calc k_minEgr]. lia.
  - cbn [allnodes_calc k_maxAcc]. lia.
Qed.

(* the calculator state of calculateAllNodes (arrival branch) satisfies the precondition *)
Lemma calc_allnodes_rev_pre d s p rows :
  wf_tables_b d p [] rows = true ->
  let k0 := mk_calc d p (conn_set d s) [] rows false true in
  rev_pre d s p [] rows (with_rev k0 (k_arr k0) (-1) (k_taur k0) (set_usable (k_ov k0))).
Proof.
  intros Htab k0. pose proof (wf_tables_nodup_egr d p [] rows Htab) as Hnd.
  constructor; try reflexivity.
  - intros n. unfold with_rev, k0, mk_calc. cbn [k_taur k_arr]. unfold seed_taur.
    rewrite (fold_upd_row_of (fun r => (if q_fwd p then -1 else q_time p) - fp_time r) rows _ n Hnd). reflexivity.
  - left. reflexivity.
Qed.

(* C09, completeness half: every stop where a journey reaching the place in time boards a vehicle, ready at
   t within the travel-time window, carries an access label leaving at least as late; in particular the
   scan processed something *)
Corollary allnodes_complete d s p rows st n t :
  wf_data_b d = true -> wf_params_b p = true -> wf_tables_b d p [] rows = true ->
  pos_hops_b d = true -> q_fwd p = false ->
  let k0 := mk_calc d p (conn_set d s) [] rows false true in
  let k := with_rev k0 (k_arr k0) (-1) (k_taur k0) (set_usable (k_ov k0)) in
  rev_scan d p k true = Ok st ->
  boards_at d s p rows n t -> q_time p - t <= q_maxtt p ->
  r_count st <> 0 /\
  exists j b, r_acc st n = Some j /\ js_enter j = Some b /\ In b (all_conns d) /\ t <= c_dep b - minw_eff p b.
Proof.
  intros Hwf Hp Htab Hpos Hf k0 k Hscan (re & rides & m & t' & Hre & Hreach & Hm & Harr) Hspan.
  pose proof (calc_allnodes_rev_pre d s p rows Htab) as Hpre. cbv zeta in Hpre. fold k0 in Hpre. fold k in Hpre.
  assert (Ek : k_arr k = q_time p) by (unfold k, k0, with_rev, mk_calc; cbn [k_arr]; rewrite Hf; reflexivity).
  destruct (rev_complete_allnodes d s p [] rows k st n t rides Hwf Hp Htab Hpre Hpos (or_introl eq_refl)) as [C1 C2];
    try assumption.
  - rewrite Ek. apply wf_params_time. exact Hp.
  - exists m, t'. split; [exact Hreach|]. split.
    + exists re. rewrite Ek. repeat split; assumption.
    + intros b e _. reflexivity.
  - rewrite Ek. exact Hspan.
  - intros b e rest _. left. reflexivity.
  - split; [lia|]. destruct C2 as (j & b & J1 & J2 & J3 & J4). exists j, b. repeat split; assumption.
Qed.

Corollary allnodes_none d s p rows st :
  wf_data_b d = true -> wf_params_b p = true -> wf_tables_b d p [] rows = true ->
  pos_hops_b d = true -> q_fwd p = false ->
  let k0 := mk_calc d p (conn_set d s) [] rows false true in
  let k := with_rev k0 (k_arr k0) (-1) (k_taur k0) (set_usable (k_ov k0)) in
  rev_scan d p k true = Ok st -> r_count st = 0 ->
  forall n t, boards_at d s p rows n t -> ~ (q_time p - t <= q_maxtt p).
Proof.
  intros Hwf Hp Htab Hpos Hf k0 k Hscan Hcnt n t Hb Hspan.
  destruct (allnodes_complete d s p rows st n t Hwf Hp Htab Hpos Hf Hscan Hb Hspan) as [C _].
  apply C. exact Hcnt.
Qed.

(* ---------------------------------------------------------------------------------------------- *)
(* 10. soundness, declaratively: every value of r_taur and every access label is witnessed by a     *)
(*     suffix journey (no label chain is followed: the witness is carried through the scan)          *)

Section Soundness.
  Variables (d : data) (s : scenario) (p : params) (acc egr : list fprow) (k : calc).
  Hypothesis Hwf : wf_data_b d = true.
  Hypothesis Hp : wf_params_b p = true.
  Hypothesis Hpre : rev_pre d s p acc egr k.

  (* standing at n at time t one can still reach the destination: n is an egress stop close enough, or a
     footpath of n leads to the boarding stop of a suffix journey *)
  Definition reach_from (n : nat) (t : Z) : Prop :=
    egress_ok egr k n t \/
    exists w n' rest, has_row (fp_of d n) n' w = true /\ w <= q_maxtr p /\ tail d s p egr k n' (t + w) rest.

  Lemma reaches_mono n t t1 rides m t' : reaches d s p n t rides m t' -> t1 <= t -> reaches d s p n t1 rides m t'.
  Proof.
    intros H Hle. destruct H as [n t b e Hr Hn Ht|n t b e w n' rest m t' Hr Hn Ht Hrow Hw Hrest].
    - apply reaches_last; [exact Hr|exact Hn|lia].
    - apply (reaches_cons d s p n t1 b e w n' rest m t'); try assumption. lia.
  Qed.

  Lemma tail_mono n t t1 rides : tail d s p egr k n t rides -> t1 <= t -> tail d s p egr k n t1 rides.
  Proof.
    intros (m & t' & H1 & H2 & H3) Hle. exists m, t'. split; [apply (reaches_mono n t); assumption|].
    split; assumption.
  Qed.

  Lemma reach_from_mono n t t1 : reach_from n t -> t1 <= t -> reach_from n t1.
  Proof.
    intros [(re & H1 & H2 & H3)|(w & n' & rest & H1 & H2 & H3)] Hle.
    - left. exists re. repeat split; try assumption. lia.
    - right. exists w, n', rest. split; [exact H1|]. split; [exact H2|].
      apply (tail_mono n' (t + w)); [exact H3|lia].
  Qed.

  Lemma ride_tail b e : ride_ok d s p b e -> o_usable (k_ov k (c_trip b)) = true -> reach_from (c_to e) (c_arr e) ->
    exists rest, tail d s p egr k (c_from b) (c_dep b - minw_eff p b) ((b, e) :: rest).
  Proof.
    intros Hr Hu [Heg|(w & n' & rest & Hrow & Hw & (m & t' & Hre & Heg & Hus))].
    - exists []. exists (c_to e), (c_arr e). split; [|split; [exact Heg|]].
      + apply reaches_last; [exact Hr|reflexivity|change (minw_true p b) with (minw_eff p b); lia].
      + intros b0 e0 [H|[]]. inversion H; subst. exact Hu.
    - exists rest. exists m, t'. split; [|split; [exact Heg|]].
      + apply (reaches_cons d s p (c_from b) _ b e w n' rest m t'); try assumption; [reflexivity|].
        change (minw_true p b) with (minw_eff p b). lia.
      + intros b0 e0 [H|H]; [inversion H; subst; exact Hu|apply (Hus b0 e0 H)].
  Qed.

  Definition S_taur (taur : nat -> Z) : Prop := forall n t, 0 <= t -> t <= taur n -> reach_from n t.
  Definition S_acc (racc : nat -> option jstep) : Prop :=
    forall n j, racc n = Some j ->
      exists b e rest, js_enter j = Some b /\ c_from b = n /\
                       tail d s p egr k n (c_dep b - minw_eff p b) ((b, e) :: rest).

  Record SInv (st : rstate) : Prop := {
    si_us : forall t, o_usable (r_ov st t) = o_usable (k_ov k t);
    si_taur : S_taur (r_taur st);
    si_acc : S_acc (r_acc st) }.

  Lemma sound_fp_fold c e0 rest0 :
    In c (all_conns d) -> tail d s p egr k (c_from c) (c_dep c - minw_eff p c) ((c, e0) :: rest0) ->
    forall rows, (forall r, In r rows -> In r (rfp_of d (c_from c))) ->
    forall taur steps racc, S_taur taur -> S_acc racc ->
    forall taur' steps' racc',
      fold_left (rev_fp_step p k c (minw_eff p c) (Some e0)) rows (taur, steps, racc) = (taur', steps', racc') ->
      S_taur taur' /\ S_acc racc'.
  Proof.
    intros Hc Ht. pose proof (conn_from_node d c Hwf Hc) as Hnode.
    induction rows as [|r rows IH]; intros Hsub taur steps racc HT HA taur' steps' racc' E; cbn [fold_left] in E.
    - inversion E; subst. split; assumption.
    - destruct (rev_fp_step_cases p k c (minw_eff p c) (Some e0) taur steps racc r) as (t1 & s1 & a1 & E1 & C1 & C2).
      rewrite E1 in E.
      refine (IH (fun r0 H0 => Hsub r0 (or_intror H0)) t1 s1 a1 _ _ taur' steps' racc' E).
      + destruct C1 as [[Et _]|(Hmax & _ & Et & _)]; subst t1; [exact HT|].
        intros n t Ht0 Hle. destruct (Nat.eq_dec n (fp_node r)) as [En|En].
        * subst n. rewrite upd_same in Hle.
          destruct (wf_rfp_row d Hwf (c_from c) Hnode r (Hsub r (or_introl eq_refl))) as [W _].
          right. exists (fp_time r), (c_from c), ((c, e0) :: rest0). split; [exact W|]. split; [exact Hmax|].
          apply (tail_mono _ _ _ _ Ht). lia.
        * rewrite upd_other in Hle by exact En. apply HT; assumption.
      + destruct C2 as [Ea|(Ef & _ & _ & Ea)]; subst a1; [exact HA|].
        intros n j Hj. destruct (Nat.eq_dec n (fp_node r)) as [En|En].
        * subst n. rewrite upd_same in Hj. inversion Hj; subst j.
          exists c, e0, rest0. split; [reflexivity|]. split; [exact Ef|]. rewrite <- Ef. exact Ht.
        * rewrite upd_other in Hj by exact En. apply HA. exact Hj.
  Qed.

  Lemma sound_step c rest st :
    good d s p k c -> RInv d s p k (c :: rest) st -> SInv st -> SInv (rev_step d p k false st c).
  Proof.
    intros [Hc Hadm] [HI HO] HS. pose proof (q_minw_nonneg p Hp) as Hmw.
    destruct (r_stop st) eqn:Hstop; [rewrite rev_step_stopped by exact Hstop; exact HS|].
    pose proof (rev_step_cases d p k st c Hstop) as S. cbv zeta in S.
    set (st' := rev_step d p k false st c) in *.
    destruct S as [[Est _]|[[Est _]|(_ & Hov & _ & (Hus & Hdis & Hq) & Hrest)]].
    - rewrite Est. exact HS.
    - rewrite Est. constructor; unfold stopped; cbn [r_ov r_taur r_acc];
        [apply (si_us _ HS)|apply (si_taur _ HS)|apply (si_acc _ HS)].
    - assert (Hus' : forall t, o_usable (r_ov st' t) = o_usable (k_ov k t)).
      { intros t. rewrite Hov. unfold upd. destruct (Nat.eqb t (c_trip c)) eqn:Et; [|apply (si_us _ HS)].
        apply Nat.eqb_eq in Et. subst t. rewrite ov1_usable. apply (si_us _ HS). }
      destruct Hrest as [(E1 & _ & E3 & _)|(Hcb & e0 & He0 & Hfold & _)].
      + constructor; [exact Hus'|rewrite E1; apply (si_taur _ HS)|rewrite E3; apply (si_acc _ HS)].
      + specialize (Hadm Hdis).
        (* the exit connection of c's trip is a valid alighting after c *)
        assert (Hex : In e0 (all_conns d) /\ c_trip e0 = c_trip c /\ c_cu e0 = true /\
                      c_arr e0 <= r_taur st (c_to e0) /\ (c_seq c <= c_seq e0)%nat).
        { destruct (ov1_exit_cases p st c Hmw Hq) as [Hsame|(Hnew & Hcu & Harr)].
          - rewrite Hsame in He0. destruct (i_ov _ _ _ _ _ _ _ _ HI _ _ He0) as (X1 & X2 & X3 & X4).
            repeat (split; [assumption|]). apply (HO c e0); [left; reflexivity|exact He0].
          - rewrite Hnew in He0. inversion He0; subst e0. repeat (split; [assumption || reflexivity|]). apply le_n. }
        destruct Hex as (X1 & X2 & X3 & X4 & X5).
        assert (Hride : ride_ok d s p c e0).
        { unfold ride_ok. repeat (split; [assumption || (symmetry; assumption)|]). exact Hadm. }
        assert (Hreach : reach_from (c_to e0) (c_arr e0)).
        { apply (si_taur _ HS); [apply (conn_arr_nonneg d e0 Hwf X1)|exact X4]. }
        assert (Hu : o_usable (k_ov k (c_trip c)) = true) by (rewrite <- (si_us _ HS); exact Hus).
        destruct (ride_tail c e0 Hride Hu Hreach) as (rest0 & Ht).
        destruct (sound_fp_fold c e0 rest0 Hc Ht (rfp_of d (c_from c)) (fun r H => H)
                                (r_taur st) (r_steps st) (r_acc st) (si_taur _ HS) (si_acc _ HS)
                                (r_taur st') (r_steps st') (r_acc st') (eq_sym Hfold)) as [F1 F2].
        constructor; assumption.
  Qed.

  Lemma sound_scan : forall L st, Forall (good d s p k) L -> StronglySorted seq_desc L ->
    RInv d s p k L st -> SInv st -> SInv (fold_left (rev_step d p k false) L st).
  Proof.
    pose proof (q_minw_nonneg p Hp) as Hmw.
    induction L as [|c L IH]; intros st HG HSo HR HS; cbn [fold_left]; [exact HS|].
    apply StronglySorted_inv in HSo. destruct HSo as [HS1 HS2].
    apply IH; [exact (Forall_inv_tail HG)|exact HS1| |].
    - apply rev_step_inv; [exact Hmw|exact (Forall_inv HG)|exact HS2|exact HR].
    - apply (sound_step c L st (Forall_inv HG) HR HS).
  Qed.

  Lemma sound_init : SInv (rev_init k).
  Proof.
    constructor; unfold rev_init; cbn [r_ov r_taur r_acc].
    - intros t. reflexivity.
    - intros n t Ht0 Hle. rewrite (rp_taur _ _ _ _ _ _ Hpre) in Hle.
      destruct (row_of n egr) as [r|] eqn:Er; [|lia].
      destruct (row_of_some _ _ _ Er) as [R1 R2]. left. exists r. split; [exact R2|]. split; [symmetry; exact R1|lia].
    - intros n j H. discriminate.
  Qed.

  Theorem rev_scan_sound st : rev_scan d p k false = Ok st -> SInv st.
  Proof.
    intros Hscan. pose proof (q_minw_nonneg p Hp) as Hmw.
    unfold rev_scan in Hscan. destruct (rev_entry (k_set k) (hour_of (k_arr k) + 1)) as [i|]; [|discriminate].
    rewrite (rp_set _ _ _ _ _ _ Hpre) in Hscan. inversion Hscan as [Hst]. clear Hscan.
    set (L := skipn i (cs_rev (conn_set d s))).
    assert (HG : Forall (good d s p k) L).
    { apply Forall_forall. intros c Hc. subst L. apply in_skipn in Hc. apply cs_rev_in in Hc.
      destruct Hc as [Hc Hm]. split; [exact Hc|]. intros Hdis.
      apply (admitted_bridge d s p (c_trip c) (wf_nodup_trips d Hwf)). split; [exact Hm|].
      rewrite <- (rp_dis _ _ _ _ _ _ Hpre). exact Hdis. }
    assert (HSo : StronglySorted seq_desc L).
    { subst L. apply StronglySorted_skipn. apply cs_rev_seq_sorted. exact Hwf. }
    assert (H0 : RInv d s p k L (rev_init k)).
    { unfold RInv, rev_init. cbn [r_taur r_steps r_acc r_ov]. split.
      - constructor.
        + intros n b Hb. rewrite (rp_steps _ _ _ _ _ _ Hpre), seed_steps_enter in Hb. discriminate.
        + intros n _. reflexivity.
        + intros t e He. rewrite (rp_exit _ _ _ _ _ _ Hpre) in He. discriminate.
        + intros n j Hj. discriminate.
      - intros c' e _ He. rewrite (rp_exit _ _ _ _ _ _ Hpre) in He. discriminate. }
    apply (sound_scan L (rev_init k) HG HSo H0 sound_init).
  Qed.

End Soundness.

(* ---------------------------------------------------------------------------------------------- *)
(* 11. soundness theorems                                                                           *)

(* every access label is the first boarding of a suffix journey reaching the destination by k_arr *)
Theorem rev_acc_sound d s p acc egr k st n j b :
  wf_data_b d = true -> wf_params_b p = true -> rev_pre d s p acc egr k ->
  rev_scan d p k false = Ok st -> r_acc st n = Some j -> js_enter j = Some b ->
  c_from b = n /\ exists e rest, tail d s p egr k n (c_dep b - minw_eff p b) ((b, e) :: rest).
Proof.
  intros Hwf Hp Hpre Hscan Hj Hb.
  destruct (si_acc _ _ _ _ _ _ (rev_scan_sound d s p acc egr k Hwf Hp Hpre st Hscan) n j Hj)
    as (b0 & e & rest & B1 & B2 & B3).
  rewrite Hb in B1. inversion B1; subst b0. split; [exact B2|]. exists e, rest. exact B3.
Qed.

(* R-sound-best: the departure best_access selects is the departure of a journey from the origin that
   reaches the destination by k_arr on usable trips, inside the window and not before the lower bound *)
Theorem rev_best_sound d s p acc egr k st t n :
  wf_data_b d = true -> wf_params_b p = true -> rev_pre d s p acc egr k ->
  rev_scan d p k false = Ok st -> best_access p k st = Some (t, n) ->
  exists ra rides arr,
    In ra acc /\ fp_node ra = n /\ t = departure_of p ra rides /\
    journey d s p acc egr t rides arr /\ arr <= k_arr k /\ usable_rides k rides /\
    0 <= t /\ k_arr k - t <= q_maxtt p /\ (k_dep k = -1 \/ k_dep k <= t).
Proof.
  intros Hwf Hp Hpre Hscan Hbest.
  pose proof (best_access_spec p k st) as HB. rewrite Hbest in HB.
  destruct HB as (j & b & ar & Bj & Bb & Bar & Bt & B0 & Bspan).
  destruct (rev_acc_sound d s p acc egr k st n j b Hwf Hp Hpre Hscan Bj Bb)
    as (Hn & e & rest & (m & t' & Hreach & (re & R1 & R2 & R3) & Hus)).
  pose proof (rev_scan_inv d s p acc egr k st Hwf Hp Hpre Hscan) as HI.
  destruct (i_acc _ _ _ _ _ _ _ _ HI n j Bj) as (b0 & e0 & (C1 & _) & _ & _ & Hdep & _).
  rewrite Bb in C1. inversion C1; subst b0. clear C1.
  rewrite (rp_acc _ _ _ _ _ _ Hpre) in Bar, Hdep.
  destruct (row_of_some _ _ _ Bar) as [N1 N2].
  exists ar, ((b, e) :: rest), (t' + fp_time re).
  split; [exact N2|]. split; [exact N1|].
  split; [cbn [departure_of]; change (minw_true p b) with (minw_eff p b); lia|].
  split; [|split; [lia|split; [exact Hus|split; [exact B0|split; [exact Bspan|]]]]].
  - exists ar, re, m, t'. split; [exact N2|]. split; [exact R1|]. split; [|split; [exact R2|reflexivity]].
    rewrite N1. replace (t + fp_time ar) with (c_dep b - minw_eff p b) by lia. exact Hreach.
  - destruct Hdep as [Hd|(a & Ha & Hle)]; [left; exact Hd|right].
    rewrite Bar in Ha. inversion Ha; subst a. lia.
Qed.

(* the accessibility scan: same statement through the simulation *)
Theorem rev_acc_sound_allnodes d s p acc egr k st n j b :
  wf_data_b d = true -> wf_params_b p = true -> rev_pre d s p acc egr k ->
  rev_scan d p k true = Ok st -> r_acc st n = Some j -> js_enter j = Some b ->
  c_from b = n /\ exists e rest, tail d s p egr k n (c_dep b - minw_eff p b) ((b, e) :: rest).
Proof.
  intros Hwf Hp Hpre Hscan Hj Hb.
  destruct (rev_scan_allnodes_simc d p k st Hscan) as (st' & Hscan' & ((_ & _ & _ & Eacc & _) & _)).
  rewrite Eacc in Hj.
  apply (rev_acc_sound d s p acc egr (allnodes_calc k) st' n j b Hwf Hp (rev_pre_allnodes d s p acc egr k Hpre)
                       Hscan' Hj Hb).
Qed.

(* C09, soundness half: an access label of the accessibility scan is a boarding of a journey that reaches
   the place by the requested time, ready at (departure - minimum waiting) *)
Corollary allnodes_sound d s p rows st n j b :
  wf_data_b d = true -> wf_params_b p = true -> wf_tables_b d p [] rows = true -> q_fwd p = false ->
  let k0 := mk_calc d p (conn_set d s) [] rows false true in
  let k := with_rev k0 (k_arr k0) (-1) (k_taur k0) (set_usable (k_ov k0)) in
  rev_scan d p k true = Ok st -> r_acc st n = Some j -> js_enter j = Some b ->
  c_from b = n /\ boards_at d s p rows n (c_dep b - minw_eff p b).
Proof.
  intros Hwf Hp Htab Hf k0 k Hscan Hj Hb.
  pose proof (calc_allnodes_rev_pre d s p rows Htab) as Hpre. cbv zeta in Hpre. fold k0 in Hpre. fold k in Hpre.
  assert (Ek : k_arr k = q_time p) by (unfold k, k0, with_rev, mk_calc; cbn [k_arr]; rewrite Hf; reflexivity).
  destruct (rev_acc_sound_allnodes d s p [] rows k st n j b Hwf Hp Hpre Hscan Hj Hb)
    as (Hn & e & rest & (m & t' & Hreach & (re & R1 & R2 & R3) & _)).
  split; [exact Hn|]. exists re, ((b, e) :: rest), m, t'. rewrite Ek in R3. repeat split; assumption.
Qed.

(* C09: the label of a stop is the latest ready time among the boardings in the window *)
Corollary allnodes_latest d s p rows st n j b :
  wf_data_b d = true -> wf_params_b p = true -> wf_tables_b d p [] rows = true ->
  pos_hops_b d = true -> q_fwd p = false ->
  let k0 := mk_calc d p (conn_set d s) [] rows false true in
  let k := with_rev k0 (k_arr k0) (-1) (k_taur k0) (set_usable (k_ov k0)) in
  rev_scan d p k true = Ok st -> r_acc st n = Some j -> js_enter j = Some b ->
  boards_at d s p rows n (c_dep b - minw_eff p b) /\
  forall t, boards_at d s p rows n t -> q_time p - t <= q_maxtt p -> t <= c_dep b - minw_eff p b.
Proof.
  intros Hwf Hp Htab Hpos Hf k0 k Hscan Hj Hb.
  destruct (allnodes_sound d s p rows st n j b Hwf Hp Htab Hf Hscan Hj Hb) as [_ S1].
  split; [exact S1|]. intros t Ht Hspan.
  destruct (allnodes_complete d s p rows st n t Hwf Hp Htab Hpos Hf Hscan Ht Hspan)
    as (_ & j' & b' & J1 & J2 & _ & J4).
  fold k0 in J1. fold k in J1. rewrite Hj in J1. inversion J1; subst j'. rewrite Hb in J2. inversion J2; subst b'.
  exact J4.
Qed.

Print Assumptions rev_complete.
Print Assumptions rev_complete_tail.
Print Assumptions rev_complete_arrival.
Print Assumptions rev_complete_departure.
Print Assumptions rev_complete_allnodes.
Print Assumptions allnodes_complete.
Print Assumptions allnodes_none.
Print Assumptions rev_best_sound.
Print Assumptions rev_acc_sound_allnodes.
Print Assumptions allnodes_sound.
Print Assumptions allnodes_latest.

(* ---------------------------------------------------------------------------------------------- *)
(* 12. the selected departure is optimal (C04 / C05 at the level of best_access)                    *)

(* arrival query: best_access answers exactly when an admissible journey exists, with the latest departure *)
Theorem rev_arrival_optimal d s p acc egr st :
  wf_data_b d = true -> wf_params_b p = true -> wf_tables_b d p acc egr = true ->
  pos_hops_b d = true -> q_fwd p = false ->
  let k0 := mk_calc d p (conn_set d s) acc egr true true in
  let k := with_rev k0 (k_arr k0) (-1) (k_taur k0) (set_usable (k_ov k0)) in
  rev_scan d p k false = Ok st ->
  (r_count st = 0 \/ best_access p k st = None -> forall dep0 rides, ~ admissible_rev d s p acc egr dep0 rides) /\
  (forall t n, best_access p k st = Some (t, n) ->
     (exists rides, admissible_rev d s p acc egr t rides) /\
     (forall dep0 rides, admissible_rev d s p acc egr dep0 rides -> dep0 <= t)).
Proof.
  intros Hwf Hp Htab Hpos Hf k0 k Hscan.
  pose proof (calc_single_rev_pre_arrival d s p acc egr Htab) as Hpre. cbv zeta in Hpre. fold k0 in Hpre. fold k in Hpre.
  assert (Ek : k_arr k = q_time p) by (unfold k, k0, with_rev, mk_calc; cbn [k_arr]; rewrite Hf; reflexivity).
  split.
  - intros Hnone dep0 rides Hadm.
    destruct (rev_complete_arrival d s p acc egr st dep0 rides Hwf Hp Htab Hpos Hf Hscan Hadm)
      as (C1 & t & n & C2 & _).
    fold k0 in C2. fold k in C2. destruct Hnone as [H|H]; [contradiction|rewrite H in C2; discriminate].
  - intros t n Hbest. split.
    + destruct (rev_best_sound d s p acc egr k st t n Hwf Hp Hpre Hscan Hbest)
        as (ra & rides & arr & _ & _ & _ & S1 & S2 & _ & S3 & S4 & _).
      exists rides, arr. rewrite Ek in S2, S4. repeat split; assumption.
    + intros dep0 rides Hadm.
      destruct (rev_complete_arrival d s p acc egr st dep0 rides Hwf Hp Htab Hpos Hf Hscan Hadm)
        as (_ & t1 & n1 & C2 & C3).
      fold k0 in C2. fold k in C2. rewrite Hbest in C2. inversion C2; subst. exact C3.
Qed.

(* departure query: the reverse scan for the arrival `best` found by the forward scan selects the latest
   departure, not before the requested time, among the journeys on trips the forward scan boarded *)
Theorem rev_departure_optimal d s p acc egr fs best n0 st t n :
  wf_data_b d = true -> wf_params_b p = true -> wf_tables_b d p acc egr = true ->
  pos_hops_b d = true -> q_fwd p = true -> q_maxfw p <= 0 ->
  let k0 := mk_calc d p (conn_set d s) acc egr true true in
  fwd_scan d p k0 false = Ok fs -> best_egress p k0 fs = Some (best, n0) ->
  let k := with_rev k0 best (k_dep k0)
             (fold_left (fun m r => upd m (fp_node r) (best - fp_time r)) (k_egrfp k0) (k_taur k0)) (f_ov fs) in
  rev_scan d p k false = Ok st -> best_access p k st = Some (t, n) ->
  q_time p <= t /\ best - t <= q_maxtt p /\
  (exists rides arr, journey d s p acc egr t rides arr /\ arr <= best /\
                     (forall b e, In (b, e) rides -> o_usable (f_ov fs (c_trip b)) = true)) /\
  (forall dep0 rides arr, journey d s p acc egr dep0 rides arr -> arr <= best ->
     (forall b e, In (b, e) rides -> o_usable (f_ov fs (c_trip b)) = true) ->
     q_time p <= dep0 -> best - dep0 <= q_maxtt p -> dep0 <= t).
Proof.
  intros Hwf Hp Htab Hpos Hf Hfw k0 Hfscan Hbeste k Hscan Hbest.
  pose proof (calc_single_rev_pre_departure d s p acc egr fs best Htab Hf Hfscan) as Hpre.
  cbv zeta in Hpre. fold k0 in Hpre. fold k in Hpre.
  assert (Ek : k_dep k = q_time p) by (unfold k, k0, with_rev, mk_calc; cbn [k_dep]; rewrite Hf; reflexivity).
  pose proof (wf_params_time p Hp) as Htime.
  destruct (rev_best_sound d s p acc egr k st t n Hwf Hp Hpre Hscan Hbest)
    as (ra & rides & arr & _ & _ & _ & S1 & S2 & S3 & S4 & S5 & S6).
  split; [destruct S6 as [S6|S6]; rewrite Ek in S6; lia|]. split; [exact S5|]. split.
  - exists rides, arr. repeat split; assumption.
  - intros dep0 rides0 arr0 (ra0 & re0 & m & t' & Hra & Hre & Hreach & Hm & Harr) Hle Hus Hdep Hspan.
    destruct (reaches_first_dep _ _ _ _ _ _ _ _ Hreach) as (b & e & rest & Er & Hb).
    assert (Hdp : dep0 <= departure_of p ra0 rides0) by (subst rides0; cbn [departure_of]; lia).
    destruct (rev_complete_departure d s p acc egr fs best n0 st ra0 re0 rides0 (dep0 + fp_time ra0) m t'
                Hwf Hp Htab Hpos Hf Hfw Hfscan Hbeste Hscan Hra Hre Hreach Hm ltac:(lia) Hus ltac:(lia) ltac:(lia))
      as (_ & t1 & n1 & C2 & C3).
    fold k0 in C2. fold k in C2. rewrite Hbest in C2. inversion C2; subst. lia.
Qed.

Print Assumptions rev_arrival_optimal.
Print Assumptions rev_departure_optimal.

(* ---------------------------------------------------------------------------------------------- *)
(* 13. non-vacuity: the hypotheses of rev_arrival_optimal hold on the example dataset, the scan answers,
       and the answer is the departure of an admissible journey (trip 1 from stop 1, transfer at stop 2) *)
From TrV Require Import Examples.

Definition ex_c1 : conn := {| c_trip := 1; c_seq := 1; c_from := 1; c_to := 2; c_dep := 36000; c_arr := 36300;
                              c_cb := true; c_cu := true; c_minw := -1 |}.
Definition ex_c2 : conn := {| c_trip := 2; c_seq := 1; c_from := 2; c_to := 4; c_dep := 36400; c_arr := 36700;
                              c_cb := true; c_cu := true; c_minw := -1 |}.

Example rev_arrival_optimal_nonvacuous :
  let p := ex_params false 37000 in
  let k0 := mk_calc ex_data p (conn_set ex_data scen_all) ex_acc ex_egr true true in
  let k := with_rev k0 (k_arr k0) (-1) (k_taur k0) (set_usable (k_ov k0)) in
  wf_data_b ex_data = true /\ wf_params_b p = true /\ wf_tables_b ex_data p ex_acc ex_egr = true /\
  pos_hops_b ex_data = true /\ uniform_wait_b ex_data = true /\
  match rev_scan ex_data p k false with
  | Ok st => r_count st = 3 /\ best_access p k st = Some (35840, 1%nat)
  | _ => False
  end /\
  admissible_rev ex_data scen_all p ex_acc ex_egr 35840 [(ex_c1, ex_c1); (ex_c2, ex_c2)].
Proof.
  cbv zeta. split; [vm_compute; reflexivity|]. split; [vm_compute; reflexivity|]. split; [vm_compute; reflexivity|].
  split; [vm_compute; reflexivity|]. split; [vm_compute; reflexivity|]. split; [vm_compute; split; reflexivity|].
  assert (R1 : ride_ok ex_data scen_all (ex_params false 37000) ex_c1 ex_c1).
  { unfold ride_ok. split; [vm_compute; left; reflexivity|]. split; [vm_compute; left; reflexivity|].
    split; [reflexivity|]. split; [apply le_n|]. split; [reflexivity|]. split; [reflexivity|].
    eexists. split; [reflexivity|vm_compute; reflexivity]. }
  assert (R2 : ride_ok ex_data scen_all (ex_params false 37000) ex_c2 ex_c2).
  { unfold ride_ok. split; [vm_compute; right; right; left; reflexivity|].
    split; [vm_compute; right; right; left; reflexivity|].
    split; [reflexivity|]. split; [apply le_n|]. split; [reflexivity|]. split; [reflexivity|].
    eexists. split; [reflexivity|vm_compute; reflexivity]. }
  exists 36750. split; [|split; [vm_compute; discriminate|split; [lia|vm_compute; discriminate]]].
  exists (row 1 100 120), (row 4 50 60), 4%nat, 36700.
  split; [left; reflexivity|]. split; [left; reflexivity|]. split; [|split; reflexivity].
  apply (reaches_cons ex_data scen_all (ex_params false 37000) 1%nat (35840 + 100) ex_c1 ex_c1 0 2%nat
                      [(ex_c2, ex_c2)] 4%nat 36700 R1); [reflexivity|vm_compute; discriminate|reflexivity|vm_compute; discriminate|].
  apply (reaches_last ex_data scen_all (ex_params false 37000) 2%nat (36300 + 0) ex_c2 ex_c2 R2);
    [reflexivity|vm_compute; discriminate].
Qed.

(* ---------------------------------------------------------------------------------------------- *)
(* 14. regression: mixed minimum waiting times and the access-based break

   The access-based break compares arrival times with  r_tent - k_maxAcc.  r_tent used to be the BOARDING time
   of the first boarding found at an access stop, while the departure that boarding stands for is
   boarding time - its minimum waiting - access walk: with connections of different minimum waiting times (a
   line of the "transferable" mode gives its connections 0 s, the others the request's value) a later-departing
   journey on a 0 s connection lay below the cut and was never scanned (answer 820 below, and
   NO_ROUTING_FOUND in the departure direction).  r_tent is now the READY time (boarding - minimum waiting),
   and rev_complete needs no uniformity of the minimum waiting times.

   Stops 1, 2 (both at the origin, 0 s walk), 3 (destination, 0 s walk); arrival by 3000, minimum waiting 180 s.
     trip 1 (ordinary line)      : 1 -> 3, dep 1000, arr 2000   => departure 1000 - 180 = 820
     trip 2 (transferable line)  : 2 -> 3, dep  900, arr  950   => departure  900 -   0 = 900
   Trip 1 is scanned first (later arrival) and arms the break with r_tent = 1000 - 180 = 820; trip 2 arrives at
   950 >= 820 - 0, is scanned, and calculateSingle answers 900. *)

Definition mw_data : data :=
  {| d_nodes := [1; 2; 3]%nat;
     d_fp := [(1%nat, [row 1 0 0]); (2%nat, [row 2 0 0]); (3%nat, [row 3 0 0])];
     d_rfp := [(1%nat, [row 1 0 0]); (2%nat, [row 2 0 0]); (3%nat, [row 3 0 0])];
     d_lines := [{| l_id := 1; l_agency := 1; l_mode := 1 |}; {| l_id := 2; l_agency := 1; l_mode := 0 |}];
     d_paths := [{| p_id := 1; p_line := 1; p_nodes := [1; 3]%nat; p_dists := [500] |};
                 {| p_id := 2; p_line := 2; p_nodes := [2; 3]%nat; p_dists := [900] |}];
     d_trips := [{| t_id := 1; t_path := 1; t_service := 1; t_times := [st 1000 1000; st 2000 2000] |};
                 {| t_id := 2; t_path := 2; t_service := 1; t_times := [st 900 900; st 950 950] |}];
     d_scenarios := [scen_all] |}.
Definition mw_params : params :=
  {| q_scenario := 1; q_time := 3000; q_minw := 180; q_maxtt := 10000; q_maxacc := 1200; q_maxegr := 1200;
     q_maxtr := 1200; q_maxfw := -1; q_fwd := false; q_except_lines := [] |}.
Definition mw_acc : list fprow := [row 1 0 0; row 2 0 0].
Definition mw_egr : list fprow := [row 3 0 0].
Definition mw_c2 : conn := {| c_trip := 2; c_seq := 1; c_from := 2; c_to := 3; c_dep := 900; c_arr := 950;
                              c_cb := true; c_cu := true; c_minw := 0 |}.

Example tent_break_mixed_wait_regression :
  wf_data_b mw_data = true /\ wf_params_b mw_params = true /\ wf_tables_b mw_data mw_params mw_acc mw_egr = true /\
  pos_hops_b mw_data = true /\ uniform_wait_b mw_data = false /\
  match calc_single mw_data (conn_set mw_data scen_all) mw_params mw_acc mw_egr true with
  | Ok (r, _) => rt_dep r = 900
  | _ => False
  end /\
  admissible_rev mw_data scen_all mw_params mw_acc mw_egr 900 [(mw_c2, mw_c2)].
Proof.
  split; [vm_compute; reflexivity|]. split; [vm_compute; reflexivity|]. split; [vm_compute; reflexivity|].
  split; [vm_compute; reflexivity|]. split; [vm_compute; reflexivity|]. split; [vm_compute; reflexivity|].
  assert (R2 : ride_ok mw_data scen_all mw_params mw_c2 mw_c2).
  { unfold ride_ok. split; [vm_compute; right; left; reflexivity|]. split; [vm_compute; right; left; reflexivity|].
    split; [reflexivity|]. split; [apply le_n|]. split; [reflexivity|]. split; [reflexivity|].
    eexists. split; [reflexivity|vm_compute; reflexivity]. }
  exists 950. split; [|split; [vm_compute; discriminate|split; [lia|vm_compute; discriminate]]].
  exists (row 2 0 0), (row 3 0 0), 3%nat, 950.
  split; [right; left; reflexivity|]. split; [left; reflexivity|]. split; [|split; reflexivity].
  apply (reaches_last mw_data scen_all mw_params 2%nat (900 + 0) mw_c2 mw_c2 R2); [reflexivity|vm_compute; discriminate].
Qed.

(* OPEN: nothing of the assignment is open.
   Proved here: R-complete (rev_complete, with its two instances rev_complete_arrival / rev_complete_departure
   for the call sites of calc_reverse in calc_single), R-complete-allnodes (rev_complete_allnodes,
   allnodes_complete, allnodes_none, and the soundness half allnodes_sound, together allnodes_latest),
   R-sound-best (rev_best_sound), and the max characterisation of best_access (rev_arrival_optimal,
   rev_departure_optimal).
   Not addressed here (composition, other files): tying best_access's value to rt_dep of the emitted route and the
   NoRouting outcomes of calc_single (C04_decl / C05_decl through ValidAdm.C04_decl_from_bound), tying the r_acc
   labels to the list built by rev_allnodes_loop (C09_decl), and, for C05, showing that every journey arriving
   by the forward optimum rides trips the forward scan marked usable (the `o_usable (f_ov fs _)` premise of
   rev_complete_departure / rev_departure_optimal).
   Remarks: (1) uniform_wait_b is used nowhere: with r_tent the ready time of the boarding that arms the
   access-based break, whatever the break cuts arrives before the departure that boarding stands for
   (tent_break_mixed_wait_regression is the former counterexample).
   (2) the first-waiting cap is off for every arrival query (k_dep = -1), so q_maxfw p <= 0 is needed only for
   the departure instance.  (3) the exit-replacement rule only changes WHICH alighting is recorded, never whether
   one is: completeness of r_taur / r_acc does not depend on it (ov1_is_some). *)
