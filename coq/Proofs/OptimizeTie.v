(* OptimizeTie.v — the model's optimizeJourney (Journey.v: leg_summary, detect_pair, detect, optimize) computes what the
   interpreters of Optimize.v compute on the data tools/gen_optimize.py reads from optimize_journey.cpp AS IT IS NOW
   (gen/Optimize.v).

   Part 1, detection:  `leg_summary_tie` (which journey step is a leg; the range `sequenceStartIdx + 1 .. <= sequenceEndIdx`
   of its in-between stops; the test that keeps a stop), `detect_pair_tie` (the four searches in source order with their
   outer conditions, lists, needles, ignore-list look-ups, case numbers and recorded stops), `detect_tie` (the whole
   detection of a pass). *)
From Coq Require Import List ZArith Bool Lia ZifyBool.
From TrV Require Import Scan Journey.
Require Import TrV.Optimize.
Require TrV.gen.Optimize.
Import ListNotations.
Local Open Scope Z_scope.
Local Open Scope bool_scope.

Module GO := TrV.gen.Optimize.

(* ---------------------------------------------------------------------------------------------- *)
(* part 1: detection                                                                                *)

(* the in-between stops of a leg: the source's loop from `first` while `continue` is the model's count from s+1 *)
Lemma leg_between_count tf e first last : forall cnt idx fuel,
  (Z.of_nat idx + Z.of_nat cnt = Z.of_nat e + 1) -> (cnt < fuel)%nat ->
  between_nodes tf idx cnt first last = leg_between GO.gen_opt_leg tf fuel (Z.of_nat idx) (Z.of_nat e) first last.
Proof.
  induction cnt as [|cnt IH]; intros idx fuel Hs Hf; destruct fuel as [|fuel]; try lia; cbn [between_nodes leg_between].
  - cbn [ol_continue GO.gen_opt_leg]. replace (Z.of_nat idx <=? Z.of_nat e) with false by lia. reflexivity.
  - cbn [ol_continue ol_keep GO.gen_opt_leg]. replace (Z.of_nat idx <=? Z.of_nat e) with true by lia.
    rewrite Nat2Z.id. destruct (nth_error tf idx) as [c|]; [|reflexivity].
    replace (Z.of_nat idx + 1) with (Z.of_nat (S idx)) by lia.
    rewrite <- (IH (S idx) fuel) by lia.
    destruct (between_nodes tf (S idx) cnt first last) as [r|]; [|reflexivity].
    replace (negb (Z.of_nat (c_from c) =? Z.of_nat first) && negb (Z.of_nat (c_from c) =? Z.of_nat last))
      with (negb (Nat.eqb (c_from c) first) && negb (Nat.eqb (c_from c) last)) by lia.
    reflexivity.
Qed.

Theorem leg_summary_tie : forall d j,
  (forall en, js_enter j = Some en -> (1 <= c_seq en)%nat) -> (forall ex, js_exit j = Some ex -> (1 <= c_seq ex)%nat) ->
  leg_summary d j = leg_summary_code GO.gen_opt_leg d j.
Proof.
  intros d j Hen Hex. unfold leg_summary, leg_summary_code, js_has_conns. cbn [ol_is_leg ol_seq_idx ol_first GO.gen_opt_leg].
  destruct (js_trip j) as [t|]; cbn [is_some andb]; [|reflexivity].
  destruct (js_enter j) as [en|]; cbn [is_some andb]; [|reflexivity].
  destruct (js_exit j) as [ex|]; cbn [is_some andb]; [|reflexivity].
  specialize (Hen en eq_refl). specialize (Hex ex eq_refl). cbv zeta.
  destruct (Nat.le_gt_cases (c_seq en) (c_seq ex)) as [Hle|Hgt].
  - rewrite (leg_between_count (trip_fwd d t) (c_seq ex - 1) (c_from en) (c_to ex) (c_seq ex - 1 - (c_seq en - 1)) (S (c_seq en - 1))
               (S (Z.to_nat (Z.of_nat (c_seq ex) - 1)))) by lia.
    replace (Z.of_nat (S (c_seq en - 1))) with (Z.of_nat (c_seq en) - 1 + 1) by lia.
    replace (Z.of_nat (c_seq ex - 1)) with (Z.of_nat (c_seq ex) - 1) by lia. reflexivity.
  - replace (c_seq ex - 1 - (c_seq en - 1))%nat with 0%nat by lia. cbn [between_nodes leg_between ol_continue GO.gen_opt_leg].
    replace (Z.of_nat (c_seq en) - 1 + 1 <=? Z.of_nat (c_seq ex) - 1) with false by lia. reflexivity.
Qed.

Lemma find_map_hit {A} (f : nat -> bool) (g : nat -> A) : forall l,
  find_map (fun n => if f n then Some (g n) else None) l = option_map g (find f l).
Proof. induction l as [|x l IH]; cbn [find_map find option_map]; [reflexivity|]. destruct (f x); [reflexivity|exact IH]. Qed.

(* the four searches for one pair of legs, in source order *)
Theorem detect_pair_tie : forall ign si sj lj, ls_last sj = Some lj ->
  detect_pair ign si sj = option_map (fun x => (Z.to_nat (fst x), snd x)) (run_cases GO.gen_opt_cases ign si sj).
Proof.
  intros ign si sj lj Hl. unfold detect_pair.
  lazy beta iota zeta delta [GO.gen_opt_cases run_cases run_case case_hit sel_node sel_hay oc_case oc_outer oc_value oc_loop oc_hay
                             oc_needle oc_ign oc_hit oc_node is_some].
  rewrite Hl.
  replace (Z.of_nat (length (ls_between si)) >? 0) with (negb (Nat.eqb (length (ls_between si)) 0)) by lia.
  replace (Z.of_nat (length (ls_between sj)) >? 0) with (negb (Nat.eqb (length (ls_between sj)) 0)) by lia.
  replace (-1 =? -1) with true by reflexivity. cbn [andb].
  destruct (negb (Nat.eqb (length (ls_between si)) 0)) eqn:Ebi; destruct (negb (Nat.eqb (length (ls_between sj)) 0)) eqn:Ebj;
    cbn [andb].
  all: destruct (memb lj (ls_between si)); destruct (memb lj ign); cbn [andb negb option_map fst snd]; try reflexivity.
  all: destruct (ls_last si) as [li|]; cbn [is_some];
       try (destruct (memb li (ls_between sj)); destruct (memb li ign); cbn [andb negb option_map fst snd]; try reflexivity).
  all: try (destruct (memb (ls_first sj) (ls_between si)); destruct (memb (ls_first sj) ign); cbn [andb negb option_map fst snd];
            try reflexivity).
  all: try (rewrite (find_map_hit (fun n => memb n (ls_between sj) && negb (memb n ign)) (fun n => (4, n)));
            destruct (find (fun n => memb n (ls_between sj) && negb (memb n ign)) (ls_between si)); reflexivity).
Qed.

(* the whole detection of a pass, with the generated leg test / index arithmetic / searches *)
Fixpoint detect_code (g : opt_leg) (cases : list opt_case) (d : data) (ign : list nat) (js : list jstep) (idx : nat)
         (prev : list legsum) : option (option (nat * nat * nat * nat)) :=
  match js with
  | [] => Some None
  | j :: r =>
      match leg_summary_code g d j with
      | None => None
      | Some None => detect_code g cases d ign r (S idx) (prev ++ [empty_sum])
      | Some (Some sj) =>
          match detect_inner_code cases ign prev 0%nat sj with
          | Some (cs, n, i) => Some (Some (cs, n, i, idx))
          | None => detect_code g cases d ign r (S idx) (prev ++ [sj])
          end
      end
  end.

Lemma leg_summary_last d j sj : leg_summary d j = Some (Some sj) -> exists lj, ls_last sj = Some lj.
Proof.
  unfold leg_summary. destruct (js_trip j); [|discriminate]. destruct (js_enter j); [|discriminate].
  destruct (js_exit j) as [ex|]; [|discriminate].
  destruct (between_nodes _ _ _ _ _); [|discriminate]. intros H. inversion H. exists (c_to ex). reflexivity.
Qed.

Lemma detect_inner_tie ign sj lj : ls_last sj = Some lj -> forall prev i,
  detect_inner ign prev i sj = detect_inner_code GO.gen_opt_cases ign prev i sj.
Proof.
  intros Hl. induction prev as [|si r IH]; intros i; cbn [detect_inner detect_inner_code]; [reflexivity|].
  rewrite (detect_pair_tie ign si sj lj Hl).
  destruct (run_cases GO.gen_opt_cases ign si sj) as [[k n]|]; cbn [option_map fst snd]; [reflexivity|apply IH].
Qed.

(* stop sequences are 1-based (every connection of the data: Proofs/EmitTieAnswers.v) *)
Definition seqs_ok (j : jstep) : Prop :=
  (forall en, js_enter j = Some en -> (1 <= c_seq en)%nat) /\ (forall ex, js_exit j = Some ex -> (1 <= c_seq ex)%nat).

Theorem detect_tie : forall d ign js idx prev, Forall seqs_ok js ->
  detect d ign js idx prev = detect_code GO.gen_opt_leg GO.gen_opt_cases d ign js idx prev.
Proof.
  intros d ign. induction js as [|j r IH]; intros idx prev Hs; cbn [detect detect_code]; [reflexivity|].
  inversion Hs as [|j' r' [Hen Hex] Hr]; subst.
  rewrite <- (leg_summary_tie d j Hen Hex).
  destruct (leg_summary d j) as [[sj|]|] eqn:El; [| apply IH; exact Hr | reflexivity].
  destruct (leg_summary_last d j sj El) as [lj Hl].
  rewrite (detect_inner_tie ign sj lj Hl).
  destruct (detect_inner_code GO.gen_opt_cases ign prev 0 sj) as [[[cs n] i]|]; [reflexivity|apply IH; exact Hr].
Qed.
